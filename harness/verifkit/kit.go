//go:build verif

// Package verifkit is the shared runner used by all /verif property checks.
// It is injected into the gate module through `go test -overlay` and exists only
// when building with `-tags verif`.
//
// A check is a triple: a rapid generator producing a JSON-serialisable case, a
// Run function executing the case against the real code and an explicit oracle,
// and labels classifying the case. Check wires these to rapid (generation,
// shrinking), records statistics for the evidence file, writes a replay file for
// the shrunk failure, and consults the known-findings file.
package verifkit

import (
	"encoding/json"
	"fmt"
	"hash/fnv"
	"os"
	"path/filepath"
	"runtime/debug"
	"sort"
	"strings"
	"sync"
	"testing"

	"pgregory.net/rapid"
)

// Violation is a failed oracle. Key is a stable root-cause key
// ("<sub-oracle>:<site>"); it is what known-findings entries match on.
type Violation struct {
	Key string `json:"key"`
	Msg string `json:"msg"`
}

// Result is what Run returns for one case.
type Result struct {
	V *Violation
	// NonTrivial: the case is non-trivial by the check's stated rule.
	NonTrivial bool
	// Labels classify the case (for distribution statistics).
	Labels []string
	// Inconclusive: the case could not be judged (watchdog without structural
	// confirmation etc.). Counted, never a violation.
	Inconclusive bool
}

// Fail builds a violating result.
func Fail(key, format string, args ...any) Result {
	return Result{V: &Violation{Key: key, Msg: fmt.Sprintf(format, args...)}}
}

// Violationf builds a violation value.
func Violationf(key, format string, args ...any) *Violation {
	return &Violation{Key: key, Msg: fmt.Sprintf(format, args...)}
}

type subStats struct {
	Evaluations   int64             `json:"evaluations"`
	NonTrivial    int64             `json:"nontrivial"`
	Inconclusive  int64             `json:"inconclusive"`
	Labels        map[string]int64  `json:"labels"`
	Samples       []any             `json:"samples"`
	Excluded      map[string]int64  `json:"excluded_known"`
	KnownFailing  []string          `json:"known_still_failing"`
	KnownWhat     map[string]string `json:"known_what"`
	Violation     *violationFile    `json:"violation,omitempty"`
	Extra         map[string]any    `json:"extra,omitempty"`
	Rule          string            `json:"rule"`
	hashes        map[uint64]struct{}
	sampleByLabel map[string]int
}

type violationFile struct {
	ID    string          `json:"id"`
	Check string          `json:"check"`
	Key   string          `json:"key"`
	Msg   string          `json:"msg"`
	Case  json.RawMessage `json:"case"`
	Path  string          `json:"path,omitempty"`
}

type statsFile struct {
	ID     string               `json:"id"`
	Subs   map[string]*subStats `json:"subs"`
	Hashes map[string][]string  `json:"hashes"`
}

var (
	mu           sync.Mutex
	all          = map[string]*subStats{}
	allID        string
	maxHashesOut = 400000
)

func env(k string) string { return os.Getenv(k) }

// Tier returns "quick" or "thorough".
func Tier() string {
	if env("VERIF_TIER") == "thorough" {
		return "thorough"
	}
	return "quick"
}

// Thorough reports whether the thorough tier is running.
func Thorough() bool { return Tier() == "thorough" }

// WorkDir is a scratch directory under /verif/work for this run.
func WorkDir() string {
	d := env("VERIF_WORK")
	if d == "" {
		d, _ = os.Getwd()
	}
	return d
}

type knownEntry struct {
	Property string          `json:"property"`
	Status   string          `json:"status"`
	Key      string          `json:"key"`
	Check    string          `json:"check"`
	What     string          `json:"what"`
	Case     json.RawMessage `json:"case"`
}

// loadFixed returns the regression cases of repaired defects: they suppress
// nothing and must pass.
func loadFixed(id string) []knownEntry { return loadByStatus(id, "fixed") }

func loadKnown(id string) []knownEntry { return loadByStatus(id, "known") }

func loadByStatus(id, status string) []knownEntry {
	p := env("VERIF_KNOWN")
	if p == "" {
		return nil
	}
	b, err := os.ReadFile(p)
	if err != nil {
		return nil
	}
	var f struct {
		Findings []knownEntry `json:"findings"`
	}
	if err := json.Unmarshal(b, &f); err != nil {
		panic("verifkit: cannot parse known findings: " + err.Error())
	}
	var out []knownEntry
	for _, e := range f.Findings {
		if e.Property == id && e.Status == status {
			out = append(out, e)
		}
	}
	return out
}

func sub(id, name string) *subStats {
	mu.Lock()
	defer mu.Unlock()
	allID = id
	s, ok := all[name]
	if !ok {
		s = &subStats{Labels: map[string]int64{}, Excluded: map[string]int64{}, KnownWhat: map[string]string{},
			hashes: map[uint64]struct{}{}, sampleByLabel: map[string]int{}, Extra: map[string]any{}}
		all[name] = s
	}
	return s
}

func hashJSON(b []byte) uint64 {
	h := fnv.New64a()
	h.Write(b)
	return h.Sum64()
}

func (s *subStats) record(caseJSON []byte, r Result) {
	mu.Lock()
	defer mu.Unlock()
	s.Evaluations++
	if r.Inconclusive {
		s.Inconclusive++
	}
	labels := r.Labels
	if len(labels) == 0 {
		labels = []string{"unlabelled"}
	}
	for _, l := range labels {
		s.Labels[l]++
	}
	if r.NonTrivial {
		s.NonTrivial++
		h := hashJSON(caseJSON)
		if _, seen := s.hashes[h]; !seen {
			s.hashes[h] = struct{}{}
			// keep up to 2 samples per label, 12 overall, each below 4 KiB
			if len(s.Samples) < 12 && len(caseJSON) < 4096 {
				key := strings.Join(labels, ",")
				if s.sampleByLabel[key] < 2 {
					s.sampleByLabel[key]++
					var v any
					if json.Unmarshal(caseJSON, &v) == nil {
						s.Samples = append(s.Samples, map[string]any{"labels": labels, "case": v})
					}
				}
			}
		}
	}
}

// Note records an extra evidence key for a sub-check (e.g. schedules explored).
func Note(id, name, key string, v any) {
	s := sub(id, name)
	mu.Lock()
	s.Extra[key] = v
	mu.Unlock()
	flush()
}

// AddNote adds n to a numeric extra evidence key.
func AddNote(id, name, key string, n int64) {
	s := sub(id, name)
	mu.Lock()
	cur, _ := s.Extra[key].(int64)
	s.Extra[key] = cur + n
	mu.Unlock()
}

func flush() {
	p := env("VERIF_STATS")
	if p == "" {
		return
	}
	mu.Lock()
	defer mu.Unlock()
	out := statsFile{ID: allID, Subs: all, Hashes: map[string][]string{}}
	for name, s := range all {
		hs := make([]string, 0, len(s.hashes))
		for h := range s.hashes {
			if len(hs) >= maxHashesOut {
				break
			}
			hs = append(hs, fmt.Sprintf("%016x", h))
		}
		sort.Strings(hs)
		out.Hashes[name] = hs
	}
	b, err := json.Marshal(out)
	if err != nil {
		panic(err)
	}
	p = fmt.Sprintf("%s.%d.json", p, os.Getpid())
	tmp := p + ".tmp"
	if err := os.WriteFile(tmp, b, 0o644); err != nil {
		panic(err)
	}
	_ = os.Rename(tmp, p)
}

func writeLastCase(name string, b []byte) {
	if env("VERIF_LASTCASE") == "" {
		return
	}
	p := filepath.Join(WorkDir(), fmt.Sprintf("lastcase-%d.json", os.Getpid()))
	vf := violationFile{ID: allID, Check: name, Key: "process-fatal", Msg: "process died while executing this case", Case: b}
	out, _ := json.Marshal(vf)
	_ = os.WriteFile(p, out, 0o644)
}

// safeRun executes run(c) converting a panic of the harness/code into a
// violation with key "panic:<sub>" (checks whose subject is crash-freedom
// usually recover themselves to give a better key).
func safeRun[C any](name string, run func(C) Result, c C) (r Result) {
	defer func() {
		if p := recover(); p != nil {
			r = Fail("panic:"+name, "panic escaped the case runner: %v\n%s", p, debug.Stack())
		}
	}()
	return run(c)
}

// Check runs one generated-input check named name for property id.
//
//   - gen draws a case from rapid (all randomness must come from it);
//   - run executes the case on fresh state and returns the verdict.
//
// The case type must round-trip through encoding/json.
func Check[C any](t *testing.T, id, name, rule string, gen func(*rapid.T) C, run func(C) Result) {
	t.Helper()
	s := sub(id, name)
	s.Rule = rule
	known := map[string]knownEntry{}
	for _, e := range loadKnown(id) {
		if e.Check == "" || e.Check == name {
			known[e.Key] = e
		}
	}

	// Replay mode: run exactly the saved case, bypassing rapid.
	if rp := env("VERIF_REPLAY"); rp != "" {
		b, err := os.ReadFile(rp)
		if err != nil {
			t.Fatalf("replay: %v", err)
		}
		var vf violationFile
		if err := json.Unmarshal(b, &vf); err != nil {
			t.Fatalf("replay: %v", err)
		}
		if vf.Check != name {
			return
		}
		var c C
		if err := json.Unmarshal(vf.Case, &c); err != nil {
			t.Fatalf("replay: cannot decode case: %v", err)
		}
		r := safeRun(name, run, c)
		s.record(vf.Case, r)
		if r.V != nil {
			if _, ok := known[r.V.Key]; ok {
				s.Excluded[r.V.Key]++
				s.KnownFailing = append(s.KnownFailing, r.V.Key)
				s.KnownWhat[r.V.Key] = known[r.V.Key].What
				flush()
				return
			}
			s.Violation = &violationFile{ID: id, Check: name, Key: r.V.Key, Msg: r.V.Msg, Case: vf.Case, Path: rp}
			flush()
			t.Fatalf("VIOLATION(replay) %s/%s key=%s: %s", id, name, r.V.Key, r.V.Msg)
		}
		flush()
		return
	}

	// Deterministic regression cases of known findings: report only those that
	// still fail.
	keys := make([]string, 0, len(known))
	for k := range known {
		keys = append(keys, k)
	}
	sort.Strings(keys)
	for _, k := range keys {
		e := known[k]
		if len(e.Case) == 0 {
			continue
		}
		var c C
		if err := json.Unmarshal(e.Case, &c); err != nil {
			t.Fatalf("known finding %s: cannot decode case: %v", k, err)
		}
		r := safeRun(name, run, c)
		if r.V != nil && r.V.Key == k {
			s.KnownFailing = append(s.KnownFailing, k)
			s.KnownWhat[k] = e.What
		} else if r.V != nil {
			// the regression case now fails differently: that is a new violation
			s.Violation = &violationFile{ID: id, Check: name, Key: r.V.Key, Msg: r.V.Msg, Case: e.Case}
			writeViolation(s.Violation)
			flush()
			t.Fatalf("VIOLATION %s/%s key=%s (regression case of known finding %s fails differently): %s", id, name, r.V.Key, k, r.V.Msg)
		}
	}
	// Regression cases of repaired defects ("fixed" entries): plain replays that
	// bypass rapid; a failure is an ordinary violation.
	for _, e := range loadFixed(id) {
		if e.Check != name || len(e.Case) == 0 {
			continue
		}
		var c C
		if err := json.Unmarshal(e.Case, &c); err != nil {
			continue // case format changed since the fix; generated search still covers it
		}
		r := safeRun(name, run, c)
		s.record(e.Case, r)
		mu.Lock()
		n, _ := s.Extra["fixed_regression_cases"].(int64)
		s.Extra["fixed_regression_cases"] = n + 1
		mu.Unlock()
		if r.V != nil {
			if _, ok := known[r.V.Key]; ok {
				continue
			}
			s.Violation = &violationFile{ID: id, Check: name, Key: r.V.Key, Msg: "(regression case of fixed finding " + e.Key + ") " + r.V.Msg, Case: e.Case}
			writeViolation(s.Violation)
			flush()
			t.Fatalf("VIOLATION %s/%s key=%s: regression case of a fixed finding fails again: %s", id, name, r.V.Key, r.V.Msg)
		}
	}
	flush()

	var lastFail *violationFile
	prop := func(rt *rapid.T) {
		c := gen(rt)
		b, err := json.Marshal(c)
		if err != nil {
			rt.Fatalf("case not serialisable: %v", err)
		}
		writeLastCase(name, b)
		r := safeRun(name, run, c)
		s.record(b, r)
		if r.V != nil {
			if _, ok := known[r.V.Key]; ok {
				mu.Lock()
				s.Excluded[r.V.Key]++
				mu.Unlock()
				return
			}
			lastFail = &violationFile{ID: id, Check: name, Key: r.V.Key, Msg: r.V.Msg, Case: b}
			rt.Fatalf("key=%s: %s", r.V.Key, r.V.Msg)
		}
	}
	ok := t.Run(name, func(t *testing.T) { rapid.Check(t, prop) })
	if !ok {
		if lastFail == nil {
			// rapid/testing reported a failure without an oracle violation: a
			// generator/harness error or a race-detector report. Not a property
			// violation by itself; the driver decides (race attribution or exit 2).
			mu.Lock()
			s.Extra["failed_without_oracle"] = true
			mu.Unlock()
		} else {
			s.Violation = lastFail
			writeViolation(lastFail)
		}
	}
	flush()
}

// CheckCase judges a single case that was not drawn by rapid (native fuzz
// targets, exhaustive enumerations). It records statistics and fails t on a
// violation that is not a known finding.
func CheckCase[C any](t testing.TB, id, name, rule string, c C, run func(C) Result) {
	t.Helper()
	s := sub(id, name)
	s.Rule = rule
	b, err := json.Marshal(c)
	if err != nil {
		t.Fatalf("case not serialisable: %v", err)
	}
	writeLastCase(name, b)
	r := safeRun(name, run, c)
	s.record(b, r)
	if s.Evaluations%2000 == 0 {
		flush()
	}
	if r.V != nil {
		for _, e := range knownCached(id) {
			if (e.Check == "" || e.Check == name) && e.Key == r.V.Key {
				mu.Lock()
				s.Excluded[r.V.Key]++
				mu.Unlock()
				return
			}
		}
		vf := &violationFile{ID: id, Check: name, Key: r.V.Key, Msg: r.V.Msg, Case: b}
		s.Violation = vf
		writeViolation(vf)
		flush()
		t.Fatalf("VIOLATION %s/%s key=%s: %s", id, name, r.V.Key, r.V.Msg)
	}
}

var (
	knownOnce  sync.Once
	knownCache []knownEntry
)

func knownCached(id string) []knownEntry {
	knownOnce.Do(func() { knownCache = loadKnown(id) })
	return knownCache
}

// Flush writes the statistics file; call it at the end of enumerations that use
// CheckCase (Check flushes by itself).
func Flush() { flush() }

func writeViolation(vf *violationFile) {
	dir := WorkDir()
	p := filepath.Join(dir, fmt.Sprintf("violation-%s-%s-%d.json", vf.ID, sanitize(vf.Check), os.Getpid()))
	vf.Path = p
	b, _ := json.MarshalIndent(vf, "", " ")
	_ = os.WriteFile(p, b, 0o644)
}

func sanitize(s string) string {
	return strings.Map(func(r rune) rune {
		if r >= 'a' && r <= 'z' || r >= 'A' && r <= 'Z' || r >= '0' && r <= '9' || r == '-' || r == '_' {
			return r
		}
		return '_'
	}, s)
}
