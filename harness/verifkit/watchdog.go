//go:build verif

package verifkit

import (
	"regexp"
	"runtime"
	"strings"
	"sync"
	"time"
)

// Outcome of a watched call.
type WatchOutcome int

const (
	Returned WatchOutcome = iota
	// Deadlocked: the call did not return within the bound AND its goroutine is
	// parked in a sync primitive with a frame matching frameMarker on its stack.
	Deadlocked
	// Slow: the call did not return in time but the structural confirmation
	// failed; callers must treat this as inconclusive, never as a violation.
	Slow
	// Panicked: the call panicked; PanicValue is set.
	Panicked
)

type WatchResult struct {
	Outcome    WatchOutcome
	Stack      string // goroutine dump section of the watched goroutine (when not returned)
	PanicValue any
	PanicStack string
}

var goidRe = regexp.MustCompile(`^goroutine (\d+) `)

// Watch runs fn on a new goroutine and waits at most d for it. frameMarker is a
// substring (e.g. "resourcepack.(*legacyHandler)") that must occur in the
// blocked goroutine's stack for the verdict Deadlocked.
func Watch(d time.Duration, frameMarker string, fn func()) WatchResult {
	done := make(chan WatchResult, 1)
	var gid string
	var gidMu sync.Mutex
	go func() {
		buf := make([]byte, 64)
		buf = buf[:runtime.Stack(buf, false)]
		if m := goidRe.FindSubmatch(buf); m != nil {
			gidMu.Lock()
			gid = string(m[1])
			gidMu.Unlock()
		}
		defer func() {
			if p := recover(); p != nil {
				st := make([]byte, 16384)
				st = st[:runtime.Stack(st, false)]
				done <- WatchResult{Outcome: Panicked, PanicValue: p, PanicStack: string(st)}
			}
		}()
		fn()
		done <- WatchResult{Outcome: Returned}
	}()
	select {
	case r := <-done:
		return r
	case <-time.After(d):
	}
	// second chance: re-wait the same bound before judging
	select {
	case r := <-done:
		return r
	case <-time.After(d):
	}
	buf := make([]byte, 1<<20)
	buf = buf[:runtime.Stack(buf, true)]
	gidMu.Lock()
	id := gid
	gidMu.Unlock()
	section := ""
	for _, sec := range strings.Split(string(buf), "\n\n") {
		if strings.HasPrefix(sec, "goroutine "+id+" ") {
			section = sec
			break
		}
	}
	parked := strings.Contains(section, "sync.(*Mutex).Lock") || strings.Contains(section, "sync.(*RWMutex).Lock") ||
		strings.Contains(section, "sync.(*RWMutex).RLock") || strings.Contains(section, "sync.(*Cond).Wait") ||
		strings.Contains(section, "sync.runtime_Semacquire") || strings.Contains(section, "sync.(*WaitGroup).Wait") ||
		strings.Contains(section, "semacquire")
	if parked && (frameMarker == "" || strings.Contains(section, frameMarker)) {
		return WatchResult{Outcome: Deadlocked, Stack: section}
	}
	return WatchResult{Outcome: Slow, Stack: section}
}

// MutexParked looks for goroutines that are blocked acquiring a sync.Mutex /
// sync.RWMutex while executing code whose frames contain frameMarker, twice,
// `settle` apart; it returns the stack of the first goroutine found parked at the
// same place both times ("" if none). A goroutine that sits on a mutex of the
// code under test for that long, while nothing else in the case is running, is a
// lock that was never released (e.g. by a panic that was recovered further up).
func MutexParked(frameMarker string, settle time.Duration) string {
	snap := func() map[string]string {
		buf := make([]byte, 4<<20)
		buf = buf[:runtime.Stack(buf, true)]
		out := map[string]string{}
		for _, sec := range strings.Split(string(buf), "\n\n") {
			m := goidRe.FindStringSubmatch(sec)
			if m == nil || !strings.Contains(sec, frameMarker) {
				continue
			}
			if strings.Contains(sec, "sync.(*Mutex).Lock") || strings.Contains(sec, "sync.(*RWMutex).Lock") || strings.Contains(sec, "sync.(*RWMutex).RLock") {
				out[m[1]] = sec
			}
		}
		return out
	}
	a := snap()
	if len(a) == 0 {
		return ""
	}
	time.Sleep(settle)
	b := snap()
	for id, sec := range a {
		if sec2, ok := b[id]; ok {
			// same goroutine, still in a mutex acquisition: compare the innermost frames
			if firstFrames(sec) == firstFrames(sec2) {
				return sec2
			}
		}
	}
	return ""
}

func firstFrames(sec string) string {
	lines := strings.Split(sec, "\n")
	if len(lines) > 9 {
		lines = lines[1:9]
	}
	return strings.Join(lines, "\n")
}
