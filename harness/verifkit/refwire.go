//go:build verif

package verifkit

// Independent reference implementation of the Minecraft Java wire primitives and
// frame layer. Nothing here calls into go.minekube.com/gate code.

import (
	"bytes"
	"compress/zlib"
	"crypto/aes"
	"encoding/binary"
	"errors"
	"fmt"
	"io"
	"math"
	"unicode/utf8"
)

var ErrRefShort = errors.New("refwire: short input")

// ---- writers

func RefVarInt(v int32) []byte {
	u := uint32(v)
	var out []byte
	for {
		b := byte(u & 0x7f)
		u >>= 7
		if u != 0 {
			out = append(out, b|0x80)
		} else {
			return append(out, b)
		}
	}
}

func RefVarLong(v int64) []byte {
	u := uint64(v)
	var out []byte
	for {
		b := byte(u & 0x7f)
		u >>= 7
		if u != 0 {
			out = append(out, b|0x80)
		} else {
			return append(out, b)
		}
	}
}

func RefString(s string) []byte { return append(RefVarInt(int32(len(s))), s...) }

func RefBytes(b []byte) []byte { return append(RefVarInt(int32(len(b))), b...) }

func RefU16(v uint16) []byte { return binary.BigEndian.AppendUint16(nil, v) }
func RefU32(v uint32) []byte { return binary.BigEndian.AppendUint32(nil, v) }
func RefU64(v uint64) []byte { return binary.BigEndian.AppendUint64(nil, v) }
func RefF32(v float32) []byte { return RefU32(math.Float32bits(v)) }
func RefF64(v float64) []byte { return RefU64(math.Float64bits(v)) }
func RefBool(v bool) []byte {
	if v {
		return []byte{1}
	}
	return []byte{0}
}

// RefUTF is Java DataOutput.writeUTF for strings without NUL / supplementary
// subtleties handled: unsigned short byte length + modified UTF-8. Only used for
// BMP strings without U+0000 where modified UTF-8 equals UTF-8.
func RefUTF(s string) []byte { return append(RefU16(uint16(len(s))), s...) }

// RefExtShort is the 1.7 Forge "extended short" length prefix.
func RefExtShort(n int) []byte {
	low := n & 0x7fff
	high := (n & 0x7f8000) >> 15
	if high != 0 {
		low |= 0x8000
	}
	out := RefU16(uint16(low))
	if high != 0 {
		out = append(out, byte(high))
	}
	return out
}

// ---- reader

type RefReader struct {
	B   []byte
	Pos int
}

func NewRefReader(b []byte) *RefReader { return &RefReader{B: b} }

func (r *RefReader) Remaining() int { return len(r.B) - r.Pos }

func (r *RefReader) Take(n int) ([]byte, error) {
	if n < 0 || r.Remaining() < n {
		return nil, ErrRefShort
	}
	b := r.B[r.Pos : r.Pos+n]
	r.Pos += n
	return b, nil
}

func (r *RefReader) Byte() (byte, error) {
	b, err := r.Take(1)
	if err != nil {
		return 0, err
	}
	return b[0], nil
}

// VarInt reads a VarInt of at most 5 bytes.
func (r *RefReader) VarInt() (int32, error) {
	var u uint32
	for i := 0; i < 5; i++ {
		b, err := r.Byte()
		if err != nil {
			return 0, err
		}
		u |= uint32(b&0x7f) << (7 * uint(i))
		if b&0x80 == 0 {
			return int32(u), nil
		}
	}
	return 0, errors.New("refwire: VarInt too long")
}

func (r *RefReader) VarLong() (int64, error) {
	var u uint64
	for i := 0; i < 10; i++ {
		b, err := r.Byte()
		if err != nil {
			return 0, err
		}
		u |= uint64(b&0x7f) << (7 * uint(i))
		if b&0x80 == 0 {
			return int64(u), nil
		}
	}
	return 0, errors.New("refwire: VarLong too long")
}

func (r *RefReader) String() (string, error) {
	n, err := r.VarInt()
	if err != nil {
		return "", err
	}
	b, err := r.Take(int(n))
	if err != nil {
		return "", err
	}
	if !utf8.Valid(b) {
		return "", errors.New("refwire: invalid utf8")
	}
	return string(b), nil
}

func (r *RefReader) ByteArray() ([]byte, error) {
	n, err := r.VarInt()
	if err != nil {
		return nil, err
	}
	return r.Take(int(n))
}

func (r *RefReader) U16() (uint16, error) {
	b, err := r.Take(2)
	if err != nil {
		return 0, err
	}
	return binary.BigEndian.Uint16(b), nil
}
func (r *RefReader) U32() (uint32, error) {
	b, err := r.Take(4)
	if err != nil {
		return 0, err
	}
	return binary.BigEndian.Uint32(b), nil
}
func (r *RefReader) U64() (uint64, error) {
	b, err := r.Take(8)
	if err != nil {
		return 0, err
	}
	return binary.BigEndian.Uint64(b), nil
}
func (r *RefReader) Bool() (bool, error) {
	b, err := r.Byte()
	return b != 0, err
}
func (r *RefReader) UUID() ([16]byte, error) {
	var u [16]byte
	b, err := r.Take(16)
	if err != nil {
		return u, err
	}
	copy(u[:], b)
	return u, nil
}
func (r *RefReader) ExtShort() (int, error) {
	low, err := r.U16()
	if err != nil {
		return 0, err
	}
	n := int(low)
	if low&0x8000 != 0 {
		hi, err := r.Byte()
		if err != nil {
			return 0, err
		}
		n = int(low&0x7fff) | int(hi)<<15
	}
	return n, nil
}
func (r *RefReader) UTF() (string, error) {
	n, err := r.U16()
	if err != nil {
		return "", err
	}
	b, err := r.Take(int(n))
	return string(b), err
}
func (r *RefReader) Rest() []byte {
	b := r.B[r.Pos:]
	r.Pos = len(r.B)
	return b
}

// ---- CFB8 (AES-128, 8-bit feedback, IV = key) written directly on crypto/aes

type RefCFB8 struct {
	blk interface{ Encrypt(dst, src []byte) }
	sr  []byte
	dec bool
}

func NewRefCFB8(key []byte, decrypt bool) *RefCFB8 {
	blk, err := aes.NewCipher(key)
	if err != nil {
		panic(err)
	}
	return &RefCFB8{blk: blk, sr: append([]byte(nil), key...), dec: decrypt}
}

func (c *RefCFB8) XOR(dst, src []byte) {
	tmp := make([]byte, 16)
	for i, in := range src {
		c.blk.Encrypt(tmp, c.sr)
		out := in ^ tmp[0]
		fb := out
		if c.dec {
			fb = in
		}
		copy(c.sr, c.sr[1:])
		c.sr[15] = fb
		dst[i] = out
	}
}

// ---- frame layer (client/server framing as in vanilla)

// RefFrame builds one frame for payload (packet id + data) with the given
// compression threshold (<0 = compression disabled). When the payload length is
// >= threshold the body is zlib-compressed at the given level.
func RefFrame(payload []byte, threshold int, level int) []byte {
	if threshold < 0 {
		return append(RefVarInt(int32(len(payload))), payload...)
	}
	var body []byte
	if len(payload) < threshold {
		body = append(RefVarInt(0), payload...)
	} else {
		var zb bytes.Buffer
		zw, err := zlib.NewWriterLevel(&zb, level)
		if err != nil {
			panic(err)
		}
		zw.Write(payload)
		zw.Close()
		body = append(RefVarInt(int32(len(payload))), zb.Bytes()...)
	}
	return append(RefVarInt(int32(len(body))), body...)
}

// RefFrameError describes why the reference frame reader rejected input.
type RefFrameError struct{ Reason string }

func (e *RefFrameError) Error() string { return "refframe: " + e.Reason }

// RefReadFrame reads one frame from r following vanilla/Velocity acceptance
// rules. threshold <0 = no compression. maxUncompressed is the direction cap.
// It returns (payload, nil), (nil, io.EOF) on clean end of stream,
// (nil, ErrRefShort) when the stream is truncated inside a frame, or a
// *RefFrameError. Zero-length frames are returned as empty payloads (callers
// decide about skipping).
func RefReadFrame(r *RefReader, threshold int, maxUncompressed int) ([]byte, error) {
	if r.Remaining() == 0 {
		return nil, io.EOF
	}
	// VarInt21: at most 3 bytes
	var length int
	for i := 0; ; i++ {
		if i == 3 {
			return nil, &RefFrameError{"length prefix wider than 21 bits"}
		}
		b, err := r.Byte()
		if err != nil {
			return nil, ErrRefShort
		}
		length |= int(b&0x7f) << (7 * uint(i))
		if b&0x80 == 0 {
			break
		}
	}
	body, err := r.Take(length)
	if err != nil {
		return nil, ErrRefShort
	}
	if length == 0 {
		return []byte{}, nil
	}
	if threshold < 0 {
		return body, nil
	}
	br := NewRefReader(body)
	claimed, err := br.VarInt()
	if err != nil {
		return nil, &RefFrameError{"bad claimed-size varint"}
	}
	rest := br.Rest()
	if claimed == 0 {
		if len(rest) > threshold {
			return nil, &RefFrameError{fmt.Sprintf("uncompressed frame of %d bytes above threshold %d", len(rest), threshold)}
		}
		return rest, nil
	}
	if claimed < 0 {
		return nil, &RefFrameError{"negative claimed size"}
	}
	if int(claimed) < threshold {
		return nil, &RefFrameError{fmt.Sprintf("claimed size %d below threshold %d", claimed, threshold)}
	}
	if int(claimed) > maxUncompressed {
		return nil, &RefFrameError{fmt.Sprintf("claimed size %d above cap %d", claimed, maxUncompressed)}
	}
	zr, err := zlib.NewReader(bytes.NewReader(rest))
	if err != nil {
		return nil, &RefFrameError{"bad zlib header: " + err.Error()}
	}
	// claimed <= maxUncompressed here, so the pre-sized buffer is bounded by the cap
	buf := bytes.NewBuffer(make([]byte, 0, int(claimed)+bytes.MinRead+1))
	_, err = buf.ReadFrom(io.LimitReader(zr, int64(claimed)+1))
	out := buf.Bytes()
	if err != nil {
		return nil, &RefFrameError{"inflate: " + err.Error()}
	}
	if len(out) != int(claimed) {
		return nil, &RefFrameError{fmt.Sprintf("inflated to %d bytes, claimed %d", len(out), claimed)}
	}
	return out, nil
}
