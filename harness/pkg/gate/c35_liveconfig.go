//go:build verif

package gate

// C35: live configuration changes are atomic, validated, versioned by content and
// compare-and-swap.
//
// Oracle: a sequential reference model whose state is the *content* of the current
// configuration (here: the list of Lite routes, everything else is immutable), written
// from the property text. Validity and "route-only" are known by construction of the
// candidates, never by calling Validate. Versions are opaque strings of the system; the
// model only requires that content <-> version is a bijection over everything observed
// ("the version string changes exactly when the configuration content changes").
// Concurrent histories are checked for linearizability against the same model with
// porcupine; timestamps are a logical atomic counter taken before the call and after the
// return (never wall clock).

import (
	"context"
	"encoding/json"
	"fmt"
	"runtime"
	"sort"
	"strconv"
	"strings"
	"sync"
	"sync/atomic"
	"testing"
	"time"

	"connectrpc.com/connect"
	"github.com/anishathalye/porcupine"
	"pgregory.net/rapid"

	liteconfig "go.minekube.com/gate/pkg/edition/java/lite/config"
	"go.minekube.com/gate/pkg/edition/java/ping"
	"go.minekube.com/gate/pkg/gate/config"
	pb "go.minekube.com/gate/pkg/internal/api/gen/minekube/gate/v1"
	"go.minekube.com/gate/pkg/internal/verifkit"
	"go.minekube.com/gate/pkg/util/configutil"
)

// ---------------------------------------------------------------- candidates

// Route pool: 0..5 valid and pairwise different (some differ in one field only),
// 6..8 invalid per the documented Lite route rules (no backend / no host / unknown strategy).
const c35PoolValid = 6
const c35PoolSize = 9

func c35Route(i int) liteconfig.Route {
	switch i {
	case 0:
		return liteconfig.Route{Host: []string{"play.example.test"}, Backend: []string{"b0.example.test:25565"},
			CachePingTTL: configutil.Duration(30 * time.Second)}
	case 1:
		return liteconfig.Route{Host: []string{"play.example.test"}, Backend: []string{"b1.example.test:25565"},
			CachePingTTL: configutil.Duration(time.Minute), Strategy: liteconfig.StrategyRoundRobin}
	case 2:
		return liteconfig.Route{Host: []string{"*.example.test", "lobby.example.test"},
			Backend: []string{"b2a.example.test:25565", "b2b.example.test:25566"}, ProxyProtocol: true}
	case 3: // route 0 with one flag flipped
		return liteconfig.Route{Host: []string{"play.example.test"}, Backend: []string{"b0.example.test:25565"},
			CachePingTTL: configutil.Duration(30 * time.Second), ModifyVirtualHost: true}
	case 4:
		return liteconfig.Route{Host: []string{"x.example.test"}, Backend: []string{"10.0.0.4:25565"},
			CachePingTTL: configutil.Duration(-time.Second), Strategy: liteconfig.StrategySequential,
			Fallback: &liteconfig.Status{Version: ping.Version{Name: "offline", Protocol: 765}}}
	case 5: // route 0 without a TTL
		return liteconfig.Route{Host: []string{"play.example.test"}, Backend: []string{"b0.example.test:25565"}}
	case 6:
		return liteconfig.Route{Host: []string{"bad.example.test"}}
	case 7:
		return liteconfig.Route{Backend: []string{"b7.example.test:25565"}}
	case 8:
		return liteconfig.Route{Host: []string{"play.example.test"}, Backend: []string{"b0.example.test:25565"},
			Strategy: "not-a-strategy"}
	}
	panic("c35: bad pool index")
}

// c35RouteID names the content of a route by its fields (independent of any marshaller).
func c35RouteID(r liteconfig.Route) string {
	fb := "-"
	if r.Fallback != nil {
		fb = fmt.Sprintf("%s/%d", r.Fallback.Version.Name, r.Fallback.Version.Protocol)
		if r.Fallback.MOTD != nil || r.Fallback.Players != nil || r.Fallback.Favicon != "" || len(r.Fallback.ModInfo.Mods) != 0 {
			fb += "+extra"
		}
	}
	return fmt.Sprintf("h=%q b=%q ttl=%d fb=%s pp=%t rip=%t tsr=%t mvh=%t s=%q",
		[]string(r.Host), []string(r.Backend), int64(r.CachePingTTL), fb, r.ProxyProtocol, r.RealIP, r.TCPShieldRealIP, r.ModifyVirtualHost, string(r.Strategy))
}

var c35PoolIDs = func() map[string]int {
	m := map[string]int{}
	for i := 0; i < c35PoolSize; i++ {
		id := c35RouteID(c35Route(i))
		if _, dup := m[id]; dup {
			panic("c35: pool routes not distinct")
		}
		m[id] = i
	}
	return m
}()

// c35KeyOfRoutes maps an observed route list to a content key "i,j,.." of pool
// indices; ok=false if some route is not a whole pool route (a mix).
func c35KeyOfRoutes(rs []liteconfig.Route) (string, bool) {
	parts := make([]string, len(rs))
	for i, r := range rs {
		idx, ok := c35PoolIDs[c35RouteID(r)]
		if !ok {
			return c35RouteID(r), false
		}
		parts[i] = strconv.Itoa(idx)
	}
	return strings.Join(parts, ","), true
}

func c35Key(idx []int) string {
	parts := make([]string, len(idx))
	for i, v := range idx {
		parts[i] = strconv.Itoa(v)
	}
	return strings.Join(parts, ",")
}

type c35Cand struct {
	Nil      bool   `json:"nil,omitempty"`
	Routes   []int  `json:"routes"`
	NonRoute string `json:"non_route,omitempty"` // "" | bind | debug | onlinemode | servers | health | noautoreload | liteoff | badbind | connectname
}

// class: "valid" (valid and differing from any current config in routes only),
// "bad" (nil, invalid, or touching something other than routes).
func (c c35Cand) class() string {
	if c.Nil || c.NonRoute != "" || len(c.Routes) == 0 {
		return "bad"
	}
	for _, i := range c.Routes {
		if i >= c35PoolValid {
			return "bad"
		}
	}
	return "valid"
}

func (c c35Cand) label() string {
	switch {
	case c.Nil:
		return "cand-nil"
	case c.NonRoute == "liteoff":
		return "cand-lite-disabled"
	case c.NonRoute == "badbind":
		return "cand-invalid-nonroute"
	case c.NonRoute != "":
		return "cand-nonroute-edit"
	case c.class() == "bad":
		return "cand-invalid-route"
	}
	return "cand-valid"
}

func c35Base(init []int) *config.Config {
	c := config.DefaultConfig
	c.Config.Bind = "127.0.0.1:25565"
	c.Config.Lite.Enabled = true
	c.Config.Lite.Routes = c35Routes(init)
	return &c
}

func c35Routes(idx []int) []liteconfig.Route {
	rs := make([]liteconfig.Route, 0, len(idx))
	for _, i := range idx {
		rs = append(rs, c35Route(i))
	}
	return rs
}

// c35Build builds a fresh candidate object (never aliasing earlier candidates' slices).
func c35Build(init []int, c c35Cand) *config.Config {
	if c.Nil {
		return nil
	}
	cand := *c35Base(init)
	cand.Config.Lite.Routes = c35Routes(c.Routes)
	switch c.NonRoute {
	case "":
	case "bind":
		cand.Config.Bind = "127.0.0.1:25566"
	case "debug":
		cand.Config.Debug = !cand.Config.Debug
	case "onlinemode":
		cand.Config.OnlineMode = !cand.Config.OnlineMode
	case "servers":
		m := map[string]string{}
		for k, v := range cand.Config.Servers {
			m[k] = v
		}
		m["c35extra"] = "127.0.0.1:25599"
		cand.Config.Servers = m
	case "health":
		cand.HealthService.Enabled = true
	case "noautoreload":
		cand.NoAutoReload = true
	case "liteoff":
		cand.Config.Lite.Enabled = false
	case "badbind":
		cand.Config.Bind = "not a bind address"
	case "connectname":
		cand.Connect.Name = "c35-renamed"
	default:
		panic("c35: unknown non-route edit " + c.NonRoute)
	}
	return &cand
}

// ---------------------------------------------------------------- model

type c35In struct {
	Kind      string // apply | cas | snapshot | routes
	CandKey   string
	CandClass string
	Expect    string
	API       bool // the compare-and-swap went through the API handler (ConfigHandlerImpl.ApplyConfig)
}

type c35Out struct {
	// Class: applied | unchanged | rejected | precondition_failed | observed | malformed:<..> |
	// ok (API handler: applied or unchanged, the response does not say which)
	Class   string
	Version string
	Key     string // snapshot/routes: observed content key
}

// c35Step is the sequential specification. ver maps content key -> version string.
func c35Step(state string, in c35In, out c35Out, ver map[string]string) (bool, string) {
	switch in.Kind {
	case "snapshot":
		return out.Class == "observed" && out.Key == state && out.Version == ver[state], state
	case "routes":
		return out.Class == "observed" && out.Key == state, state
	}
	mismatch := in.Kind == "cas" && in.Expect != ver[state]
	acceptable := in.CandClass == "valid"
	if mismatch {
		if out.Class == "precondition_failed" {
			// (the API handler's error carries no version)
			return in.API || out.Version == ver[state], state
		}
		// a candidate that could never be applied may also be refused as such
		return !acceptable && out.Class == "rejected", state
	}
	if !acceptable {
		return out.Class == "rejected", state
	}
	if in.CandKey == state {
		return (out.Class == "unchanged" || (in.API && out.Class == "ok")) && out.Version == ver[state], state
	}
	return (out.Class == "applied" || (in.API && out.Class == "ok")) && out.Version != "" && out.Version == ver[in.CandKey], in.CandKey
}

func c35Classify(r LiveConfigResult) c35Out {
	o := c35Out{Version: r.Version}
	switch {
	case r.Applied && !r.Unchanged && r.Code == "applied":
		o.Class = "applied"
	case r.Unchanged && !r.Applied && r.Code == "unchanged":
		o.Class = "unchanged"
	case !r.Applied && !r.Unchanged && r.Code == "precondition_failed":
		o.Class = "precondition_failed"
	case !r.Applied && !r.Unchanged && (r.Code == "invalid" || r.Code == "unsupported" || r.Code == "prepare_failed"):
		o.Class = "rejected"
	default:
		o.Class = fmt.Sprintf("malformed:%+v", r)
	}
	return o
}

// c35RoutesPatch renders {"config":{"lite":{"routes":[...]}}} with the candidate's routes
// in the canonical JSON form the API works on.
func c35RoutesPatch(cand *config.Config) (string, error) {
	full, err := canonicalConfigJSON(cand)
	if err != nil {
		return "", err
	}
	var doc map[string]any
	if err := json.Unmarshal(full, &doc); err != nil {
		return "", err
	}
	cfg, _ := doc["config"].(map[string]any)
	lite, _ := cfg["lite"].(map[string]any)
	routes, ok := lite["routes"]
	if !ok {
		return "", fmt.Errorf("candidate has no config.lite.routes in %s", full)
	}
	out, err := json.Marshal(map[string]any{"config": map[string]any{"lite": map[string]any{"routes": routes}}})
	return string(out), err
}

// c35Versions is the observed content<->version relation.
type c35Versions struct {
	byKey map[string]string
	byVer map[string]string
}

func c35NewVersions() *c35Versions {
	return &c35Versions{byKey: map[string]string{}, byVer: map[string]string{}}
}

func (v *c35Versions) learn(key, ver string) *verifkit.Violation {
	if ver == "" {
		return verifkit.Violationf("version:empty", "empty version reported for content [%s]", key)
	}
	if old, ok := v.byKey[key]; ok && old != ver {
		return verifkit.Violationf("version:differs-for-same-content", "content [%s] was version %s and is now %s", key, old, ver)
	}
	if old, ok := v.byVer[ver]; ok && old != key {
		return verifkit.Violationf("version:same-for-different-content", "version %s names content [%s] and content [%s]", ver, old, key)
	}
	v.byKey[key] = ver
	v.byVer[ver] = key
	return nil
}

// ---------------------------------------------------------------- observation helpers

func c35NonRouteJSON(c *config.Config) string {
	cp := *c
	cp.Config.Lite.Routes = nil
	b, err := json.Marshal(&cp)
	if err != nil {
		return "marshal error: " + err.Error()
	}
	return string(b)
}

type c35Obs struct {
	Key      string
	KeyOK    bool
	Version  string
	NonRoute string
	cfg      *config.Config
}

func c35Snapshot(g *Gate) (c35Obs, error) {
	cfg, ver, err := g.ConfigSnapshot()
	if err != nil {
		return c35Obs{}, err
	}
	k, ok := c35KeyOfRoutes(cfg.Config.Lite.Routes)
	return c35Obs{Key: k, KeyOK: ok, Version: ver, NonRoute: c35NonRouteJSON(cfg), cfg: cfg}, nil
}

func c35JavaRoutes(g *Gate) (key string, ok bool, nonRoute string) {
	jc := g.Java().Config()
	key, ok = c35KeyOfRoutes(jc.Lite.Routes)
	jc.Lite.Routes = nil
	b, _ := json.Marshal(&jc)
	return key, ok, string(b)
}

func c35Scribble(c *config.Config) {
	if c == nil {
		return
	}
	for i := range c.Config.Lite.Routes {
		r := &c.Config.Lite.Routes[i]
		for j := range r.Host {
			r.Host[j] = "scribbled.example.test"
		}
		for j := range r.Backend {
			r.Backend[j] = "scribbled.example.test:1"
		}
		r.CachePingTTL = configutil.Duration(999 * time.Hour)
		r.Strategy = "scribbled"
		if r.Fallback != nil {
			r.Fallback.Version.Name = "scribbled"
		}
	}
	c.Config.Lite.Routes = append(c.Config.Lite.Routes, liteconfig.Route{Host: []string{"appended"}})
	c.Config.Bind = "scribbled:1"
}

// ---------------------------------------------------------------- sequential

type c35Op struct {
	Kind     string  `json:"kind"` // apply | cas | snapshot | routes | api (concurrent check: CAS through ConfigHandlerImpl.ApplyConfig)
	Cand     c35Cand `json:"cand"`
	Expect   string  `json:"expect,omitempty"` // fresh | stale1 | stale2 | stale3 | initial | garbage | empty | upper | mine
	Scribble bool    `json:"scribble,omitempty"`
	Yield    int     `json:"yield,omitempty"`
}

type c35SeqCase struct {
	Init []int   `json:"init"`
	Ops  []c35Op `json:"ops"`
}

func c35RunSeq(c c35SeqCase) verifkit.Result {
	base := c35Base(c.Init)
	g, err := New(Options{Config: base})
	if err != nil {
		return verifkit.Fail("setup:New", "gate.New failed for initial routes %v: %v", c.Init, err)
	}
	vers := c35NewVersions()
	state := c35Key(c.Init)
	first, err := c35Snapshot(g)
	if err != nil {
		return verifkit.Fail("snapshot:error", "initial ConfigSnapshot: %v", err)
	}
	if !first.KeyOK || first.Key != state {
		return verifkit.Fail("state:initial-snapshot", "initial snapshot has routes [%s], want [%s]", first.Key, state)
	}
	if v := vers.learn(first.Key, first.Version); v != nil {
		return verifkit.Result{V: v}
	}
	_, _, javaNonRoute0 := c35JavaRoutes(g)
	history := []string{first.Version} // distinct versions in order of first appearance as "current"
	labels := map[string]bool{}
	counts := map[string]int{}
	aba := false
	seenStates := map[string]bool{state: true}

	for i, op := range c.Ops {
		where := fmt.Sprintf("op %d %+v (model state [%s])", i, op, state)
		switch op.Kind {
		case "snapshot":
			o, err := c35Snapshot(g)
			if err != nil {
				return verifkit.Fail("snapshot:error", "%s: %v", where, err)
			}
			if op.Scribble {
				c35Scribble(o.cfg) // the snapshot is documented as an owned copy
			}
			labels["op-snapshot"] = true
		case "apply", "cas":
			cand := c35Build(c.Init, op.Cand)
			in := c35In{Kind: op.Kind, CandKey: c35Key(op.Cand.Routes), CandClass: op.Cand.class()}
			labels[op.Cand.label()] = true
			var res LiveConfigResult
			if op.Kind == "cas" {
				cur := vers.byKey[state]
				switch op.Expect {
				case "fresh", "mine":
					in.Expect = cur
				case "stale1", "stale2", "stale3":
					n := int(op.Expect[5] - '0')
					j := len(history) - 1 - n
					if j < 0 {
						j = 0
					}
					in.Expect = history[j]
				case "initial":
					in.Expect = history[0]
				case "garbage":
					in.Expect = "0123456789abcdef0123456789abcdef0123456789abcdef0123456789abcdef"
				case "upper":
					in.Expect = strings.ToUpper(cur)
					if in.Expect == cur {
						in.Expect = cur + "0"
					}
				case "empty":
					in.Expect = ""
				default:
					in.Expect = op.Expect
				}
				if in.Expect == cur {
					labels["cas-matching"] = true
					if op.Expect != "fresh" && op.Expect != "mine" {
						labels["cas-old-version-of-same-content"] = true
					}
				} else {
					labels["cas-stale:"+op.Expect] = true
				}
				res = g.ApplyLiveConfigIfVersion(cand, in.Expect)
			} else {
				res = g.ApplyLiveConfig(cand)
			}
			if op.Scribble {
				c35Scribble(cand) // the caller reuses / mutates its object afterwards
				labels["scribble-after-apply"] = true
			}
			out := c35Classify(res)
			counts[out.Class]++
			if strings.HasPrefix(out.Class, "malformed") {
				return verifkit.Fail("result:malformed", "%s: inconsistent result %+v", where, res)
			}
			// learn unambiguous (content, version) pairs
			switch out.Class {
			case "applied", "unchanged":
				if v := vers.learn(in.CandKey, out.Version); v != nil {
					v.Msg = where + ": " + v.Msg
					return verifkit.Result{V: v}
				}
			}
			ok, next := c35Step(state, in, out, vers.byKey)
			if !ok {
				mismatch := in.Kind == "cas" && in.Expect != vers.byKey[state]
				key := "apply:wrong-outcome"
				switch {
				case mismatch && (out.Class == "applied" || out.Class == "unchanged"):
					key = "cas:stale-version-accepted"
				case in.Kind == "cas" && !mismatch && out.Class == "precondition_failed":
					key = "cas:current-version-refused"
				case out.Class == "precondition_failed" && in.Kind == "apply":
					key = "apply:precondition-without-version"
				case out.Class == "precondition_failed":
					key = "cas:reported-version-not-current"
				case in.CandClass == "bad" && (out.Class == "applied" || out.Class == "unchanged"):
					key = "apply:bad-candidate-accepted"
				case in.CandClass == "valid" && out.Class == "rejected":
					key = "apply:valid-candidate-refused"
				case in.CandClass == "valid" && (out.Class == "applied") != (in.CandKey != state):
					key = "apply:unchanged-misreported"
				case out.Class == "applied" || out.Class == "unchanged":
					key = "apply:result-version-mismatch"
				}
				return verifkit.Fail(key, "%s: expect=%q current=%q candidate=[%s]/%s -> result %+v contradicts the model",
					where, in.Expect, vers.byKey[state], in.CandKey, in.CandClass, res)
			}
			if next != state {
				if seenStates[next] {
					aba = true
				}
				seenStates[next] = true
				state = next
				if history[len(history)-1] != out.Version {
					history = append(history, out.Version)
				}
			}
		default:
			return verifkit.Fail("harness:op", "unknown op kind %q", op.Kind)
		}

		// After every operation: configuration, version and routing equal the model.
		o, err := c35Snapshot(g)
		if err != nil {
			return verifkit.Fail("snapshot:error", "%s: %v", where, err)
		}
		if !o.KeyOK {
			return verifkit.Fail("state:mixed-route", "%s: snapshot contains a route that is no whole candidate route: %s", where, o.Key)
		}
		if o.Key != state {
			return verifkit.Fail("state:snapshot-differs", "%s: snapshot routes [%s], model [%s]", where, o.Key, state)
		}
		if o.NonRoute != first.NonRoute {
			return verifkit.Fail("state:nonroute-changed", "%s: non-route configuration changed:\n now  %s\n init %s", where, o.NonRoute, first.NonRoute)
		}
		if v := vers.learn(o.Key, o.Version); v != nil {
			v.Msg = where + ": " + v.Msg
			return verifkit.Result{V: v}
		}
		jk, jok, jnr := c35JavaRoutes(g)
		if !jok || jk != state {
			return verifkit.Fail("state:routing-differs", "%s: Java().Config().Lite.Routes is [%s], model [%s]", where, jk, state)
		}
		if jnr != javaNonRoute0 {
			return verifkit.Fail("state:java-nonroute-changed", "%s: Java proxy non-route configuration changed", where)
		}
	}
	var ls []string
	for l := range labels {
		ls = append(ls, l)
	}
	for cl, n := range counts {
		if n > 0 {
			ls = append(ls, "outcome-"+cl)
		}
	}
	if aba {
		ls = append(ls, "returned-to-earlier-content")
	}
	sort.Strings(ls)
	nt := counts["applied"] > 0 && counts["rejected"] > 0 && counts["precondition_failed"] > 0
	return verifkit.Result{NonTrivial: nt, Labels: ls}
}

// ---------------------------------------------------------------- concurrent

type c35ConcCase struct {
	Init   []int     `json:"init"`
	Actors [][]c35Op `json:"actors"`
	Reps   int       `json:"reps"`
	Procs  int       `json:"procs,omitempty"`
}

type c35Rec struct {
	client   int
	in       c35In
	out      c35Out
	call     int64
	ret      int64
	nonRoute string
	keyOK    bool
	err      error
}

func c35RunConc(c c35ConcCase) verifkit.Result {
	reps := c.Reps
	if reps < 1 {
		reps = 1
	}
	if c.Procs > 0 {
		defer runtime.GOMAXPROCS(runtime.GOMAXPROCS(c.Procs))
	}
	labels := map[string]bool{}
	nt := false
	winners := 0
	for rep := 0; rep < reps; rep++ {
		r := c35RunConcOnce(c, labels, &nt, &winners)
		if r.V != nil || r.Inconclusive {
			return r
		}
	}
	verifkit.AddNote("C35", "concurrent", "schedules_run", int64(reps))
	verifkit.AddNote("C35", "concurrent", "cas_race_winners", int64(winners))
	var ls []string
	for l := range labels {
		ls = append(ls, l)
	}
	sort.Strings(ls)
	return verifkit.Result{NonTrivial: nt, Labels: ls}
}

func c35RunConcOnce(c c35ConcCase, labels map[string]bool, nt *bool, winners *int) verifkit.Result {
	base := c35Base(c.Init)
	g, err := New(Options{Config: base})
	if err != nil {
		return verifkit.Fail("setup:New", "gate.New failed: %v", err)
	}
	init := c35Key(c.Init)
	first, err := c35Snapshot(g)
	if err != nil || !first.KeyOK || first.Key != init {
		return verifkit.Fail("state:initial-snapshot", "initial snapshot [%s] err=%v, want [%s]", first.Key, err, init)
	}
	var clock atomic.Int64
	handler := NewConfigHandler(g, "") // one API handler, as in a running gate
	recs := make([][]c35Rec, len(c.Actors))
	start := make(chan struct{})
	var wg sync.WaitGroup
	for a := range c.Actors {
		wg.Add(1)
		go func(a int) {
			defer wg.Done()
			mine := first.Version
			<-start
			for _, op := range c.Actors[a] {
				for y := 0; y < op.Yield; y++ {
					runtime.Gosched()
				}
				rec := c35Rec{client: a, in: c35In{Kind: op.Kind}}
				switch op.Kind {
				case "snapshot":
					rec.call = clock.Add(1)
					o, err := c35Snapshot(g)
					rec.ret = clock.Add(1)
					rec.err = err
					rec.out = c35Out{Class: "observed", Key: o.Key, Version: o.Version}
					rec.nonRoute, rec.keyOK = o.NonRoute, o.KeyOK
					if err == nil {
						mine = o.Version
					}
				case "routes":
					rec.call = clock.Add(1)
					k, ok, _ := c35JavaRoutes(g)
					rec.ret = clock.Add(1)
					rec.out = c35Out{Class: "observed", Key: k}
					rec.keyOK = ok
				case "api":
					cand := c35Build(c.Init, op.Cand)
					rec.in = c35In{Kind: "cas", API: true, CandKey: c35Key(op.Cand.Routes), CandClass: op.Cand.class()}
					switch op.Expect {
					case "initial", "fresh":
						rec.in.Expect = first.Version
					case "mine":
						rec.in.Expect = mine
					default:
						rec.in.Expect = "0123456789abcdef0123456789abcdef0123456789abcdef0123456789abcdef"
					}
					// a JSON Merge Patch that replaces the Lite routes with the candidate's
					patch, perr := c35RoutesPatch(cand)
					if perr != nil {
						rec.err = fmt.Errorf("encode candidate: %w", perr)
						recs[a] = append(recs[a], rec)
						continue
					}
					rec.call = clock.Add(1)
					resp, aerr := handler.ApplyConfig(context.Background(), &pb.ApplyConfigRequest{IfMatch: rec.in.Expect, Input: &pb.ApplyConfigRequest_MergePatch{MergePatch: patch}})
					rec.ret = clock.Add(1)
					switch {
					case aerr == nil:
						rec.out = c35Out{Class: "ok", Version: resp.GetVersion()}
						mine = resp.GetVersion()
					case connect.CodeOf(aerr) == connect.CodeFailedPrecondition && strings.Contains(aerr.Error(), "version does not match"):
						rec.out = c35Out{Class: "precondition_failed"}
					case connect.CodeOf(aerr) == connect.CodeFailedPrecondition || connect.CodeOf(aerr) == connect.CodeInvalidArgument:
						rec.out = c35Out{Class: "rejected"}
					default:
						rec.out = c35Out{Class: "malformed:api error " + aerr.Error()}
					}
				default:
					cand := c35Build(c.Init, op.Cand)
					rec.in.CandKey, rec.in.CandClass = c35Key(op.Cand.Routes), op.Cand.class()
					var res LiveConfigResult
					if op.Kind == "cas" {
						switch op.Expect {
						case "initial", "fresh":
							rec.in.Expect = first.Version
						case "mine":
							rec.in.Expect = mine
						case "empty":
							rec.in.Expect = ""
						default:
							rec.in.Expect = "0123456789abcdef0123456789abcdef0123456789abcdef0123456789abcdef"
						}
						rec.call = clock.Add(1)
						res = g.ApplyLiveConfigIfVersion(cand, rec.in.Expect)
						rec.ret = clock.Add(1)
					} else {
						rec.call = clock.Add(1)
						res = g.ApplyLiveConfig(cand)
						rec.ret = clock.Add(1)
					}
					if op.Scribble {
						c35Scribble(cand)
					}
					rec.out = c35Classify(res)
					if res.Version != "" {
						mine = res.Version
					}
				}
				recs[a] = append(recs[a], rec)
			}
		}(a)
	}
	w := verifkit.Watch(10*time.Second, "gate.(*Gate)", func() {
		close(start)
		wg.Wait()
	})
	switch w.Outcome {
	case verifkit.Deadlocked:
		return verifkit.Fail("deadlock:live-config", "appliers did not finish; blocked goroutine:\n%s", w.Stack)
	case verifkit.Slow:
		wg.Wait() // nothing may outlive the case
		return verifkit.Result{Inconclusive: true, Labels: []string{"slow"}}
	case verifkit.Panicked:
		return verifkit.Fail("panic:harness", "%v\n%s", w.PanicValue, w.PanicStack)
	}

	// quiescent observations, ordered after everything else
	var all []c35Rec
	for _, rs := range recs {
		all = append(all, rs...)
	}
	fin := c35Rec{client: len(c.Actors), in: c35In{Kind: "snapshot"}}
	fin.call = clock.Add(1)
	fo, ferr := c35Snapshot(g)
	fin.ret = clock.Add(1)
	fin.err, fin.out, fin.nonRoute, fin.keyOK = ferr, c35Out{Class: "observed", Key: fo.Key, Version: fo.Version}, fo.NonRoute, fo.KeyOK
	all = append(all, fin)
	fr := c35Rec{client: len(c.Actors), in: c35In{Kind: "routes"}}
	fr.call = clock.Add(1)
	k, ok, _ := c35JavaRoutes(g)
	fr.ret = clock.Add(1)
	fr.out, fr.keyOK = c35Out{Class: "observed", Key: k}, ok
	all = append(all, fr)

	dump := func() string {
		sort.Slice(all, func(i, j int) bool { return all[i].call < all[j].call })
		var sb strings.Builder
		fmt.Fprintf(&sb, "initial [%s] version %s\n", init, first.Version)
		for _, r := range all {
			fmt.Fprintf(&sb, "  client %d [%d,%d] %s cand=[%s]/%s expect=%.12q -> %s key=[%s] version=%.12s\n",
				r.client, r.call, r.ret, r.in.Kind, r.in.CandKey, r.in.CandClass, r.in.Expect, r.out.Class, r.out.Key, r.out.Version)
		}
		return sb.String()
	}

	// per-record checks + the content<->version relation from unambiguous pairs
	vers := c35NewVersions()
	if v := vers.learn(first.Key, first.Version); v != nil {
		return verifkit.Result{V: v}
	}
	for _, r := range all {
		if r.err != nil {
			return verifkit.Fail("snapshot:error", "ConfigSnapshot failed: %v", r.err)
		}
		if strings.HasPrefix(r.out.Class, "malformed") {
			return verifkit.Fail("result:malformed", "inconsistent result %s\n%s", r.out.Class, dump())
		}
		switch r.in.Kind {
		case "snapshot":
			if !r.keyOK {
				return verifkit.Fail("state:mixed-route", "a snapshot contains a route that is no whole candidate route: %s\n%s", r.out.Key, dump())
			}
			if r.nonRoute != first.NonRoute {
				return verifkit.Fail("state:nonroute-changed", "a snapshot shows changed non-route configuration\n%s", dump())
			}
			if v := vers.learn(r.out.Key, r.out.Version); v != nil {
				v.Msg += "\n" + dump()
				return verifkit.Result{V: v}
			}
		case "routes":
			if !r.keyOK {
				return verifkit.Fail("state:mixed-route", "Java().Config() contains a route that is no whole candidate route: %s\n%s", r.out.Key, dump())
			}
		default:
			labels["outcome-"+r.out.Class] = true
			if r.in.API {
				labels["api-outcome-"+r.out.Class] = true
			}
			if r.out.Class == "applied" || r.out.Class == "unchanged" || r.out.Class == "ok" {
				if v := vers.learn(r.in.CandKey, r.out.Version); v != nil {
					v.Msg += "\n" + dump()
					return verifkit.Result{V: v}
				}
			}
			if r.in.Kind == "cas" && r.in.Expect == first.Version && r.in.CandClass == "valid" && r.in.CandKey != init && r.out.Class == "applied" {
				*winners++
			}
		}
	}
	// non-trivial by construction of the case (not by what the schedule did)
	casFreshValid := 0
	for _, ops := range c.Actors {
		for _, op := range ops {
			if (op.Kind == "cas" || op.Kind == "api") && (op.Expect == "initial" || op.Expect == "fresh") && op.Cand.class() == "valid" && c35Key(op.Cand.Routes) != init {
				casFreshValid++
				break
			}
		}
	}
	if casFreshValid >= 2 {
		*nt = true
		labels["cas-race-same-fresh-version"] = true
	}

	model := porcupine.Model{
		Init: func() interface{} { return init },
		Step: func(st, in, out interface{}) (bool, interface{}) {
			ok, next := c35Step(st.(string), in.(c35In), out.(c35Out), vers.byKey)
			return ok, next
		},
		Equal: func(a, b interface{}) bool { return a.(string) == b.(string) },
	}
	ops := make([]porcupine.Operation, 0, len(all))
	for _, r := range all {
		ops = append(ops, porcupine.Operation{ClientId: r.client, Input: r.in, Call: r.call, Output: r.out, Return: r.ret})
	}
	if !porcupine.CheckOperations(model, ops) {
		// name the most telling symptom for the key
		key := "history:not-linearizable"
		applied := 0
		for _, r := range all {
			if r.in.Kind == "cas" && r.in.Expect == first.Version && (r.out.Class == "applied" || r.out.Class == "ok") && r.in.CandKey != init {
				applied++
			}
		}
		if applied >= 2 {
			key = "history:two-cas-winners-for-one-version"
		}
		return verifkit.Fail(key, "concurrent history is not linearizable w.r.t. the live-config model:\n%s", dump())
	}
	if len(all) > 0 {
		labels[fmt.Sprintf("actors-%d", len(c.Actors))] = true
	}
	return verifkit.Result{}
}

// ---------------------------------------------------------------- generators

func c35GenRoutes(t *rapid.T, label string, valid bool) []int {
	if valid {
		return rapid.OneOf(
			rapid.SliceOfN(rapid.IntRange(0, c35PoolValid-1), 1, 1),
			rapid.SliceOfN(rapid.IntRange(0, c35PoolValid-1), 1, 3),
			rapid.SliceOfN(rapid.IntRange(0, 1), 1, 2),
		).Draw(t, label)
	}
	// at least one invalid route, or no routes at all
	if rapid.IntRange(0, 3).Draw(t, label+"Empty") == 0 {
		return []int{}
	}
	rs := rapid.SliceOfN(rapid.IntRange(0, c35PoolSize-1), 1, 3).Draw(t, label)
	rs[rapid.IntRange(0, len(rs)-1).Draw(t, label+"BadAt")] = rapid.IntRange(c35PoolValid, c35PoolSize-1).Draw(t, label+"Bad")
	return rs
}

var c35NonRouteEdits = []string{"bind", "debug", "onlinemode", "servers", "health", "noautoreload", "liteoff", "liteoff", "badbind", "connectname"}

// c35GenCand draws a candidate. recent: content keys that were (or may become)
// current, to construct "unchanged" and "back to an earlier content" candidates.
func c35GenCand(t *rapid.T, recent [][]int) c35Cand {
	switch rapid.SampledFrom([]string{"valid", "valid", "valid", "recent", "recent", "invalid", "nonroute", "nonroute+routes", "nil"}).Draw(t, "candClass") {
	case "valid":
		return c35Cand{Routes: c35GenRoutes(t, "routes", true)}
	case "recent":
		return c35Cand{Routes: append([]int{}, recent[rapid.IntRange(0, len(recent)-1).Draw(t, "recentIdx")]...)}
	case "invalid":
		return c35Cand{Routes: c35GenRoutes(t, "routes", false)}
	case "nonroute":
		return c35Cand{Routes: append([]int{}, recent[len(recent)-1]...), NonRoute: rapid.SampledFrom(c35NonRouteEdits).Draw(t, "nonRoute")}
	case "nonroute+routes":
		return c35Cand{Routes: c35GenRoutes(t, "routes", true), NonRoute: rapid.SampledFrom(c35NonRouteEdits).Draw(t, "nonRoute")}
	}
	return c35Cand{Nil: true, Routes: []int{}}
}

func c35GenSeq(t *rapid.T) c35SeqCase {
	c := c35SeqCase{Init: c35GenRoutes(t, "init", true)}
	recent := [][]int{c.Init}
	n := rapid.IntRange(1, 12).Draw(t, "nOps")
	for i := 0; i < n; i++ {
		op := c35Op{Kind: rapid.SampledFrom([]string{"apply", "apply", "cas", "cas", "cas", "snapshot"}).Draw(t, "kind")}
		if op.Kind != "snapshot" {
			op.Cand = c35GenCand(t, recent)
			if op.Cand.class() == "valid" {
				recent = append(recent, op.Cand.Routes)
			}
			if op.Kind == "cas" {
				op.Expect = rapid.SampledFrom([]string{"fresh", "fresh", "fresh", "stale1", "stale1", "stale2", "stale3", "initial", "garbage", "empty", "upper"}).Draw(t, "expect")
			}
		} else {
			op.Cand = c35Cand{Routes: []int{}}
		}
		op.Scribble = rapid.IntRange(0, 3).Draw(t, "scribble") == 0
		c.Ops = append(c.Ops, op)
	}
	return c
}

func c35GenConc(t *rapid.T) c35ConcCase {
	c := c35ConcCase{Init: c35GenRoutes(t, "init", true)}
	nActors := rapid.IntRange(2, 6).Draw(t, "actors")
	recent := [][]int{c.Init}
	// a few contents the appliers fight over
	for i := 0; i < 3; i++ {
		recent = append(recent, c35GenRoutes(t, "content", true))
	}
	racers := rapid.IntRange(0, nActors).Draw(t, "casRacers") // actors whose first op is a CAS on the barrier version
	for a := 0; a < nActors; a++ {
		var ops []c35Op
		n := rapid.IntRange(1, 3).Draw(t, "nOps")
		for i := 0; i < n; i++ {
			var op c35Op
			if i == 0 && a < racers {
				op = c35Op{Kind: "cas", Expect: "initial", Cand: c35Cand{Routes: append([]int{}, recent[rapid.IntRange(1, len(recent)-1).Draw(t, "raceContent")]...)}}
				if rapid.IntRange(0, 2).Draw(t, "viaAPI") == 0 {
					op.Kind = "api"
				}
			} else if rapid.IntRange(0, 7).Draw(t, "apiOp") == 0 {
				op = c35Op{Kind: "api", Expect: rapid.SampledFrom([]string{"initial", "mine", "mine", "garbage"}).Draw(t, "apiExpect"),
					Cand: c35Cand{Routes: append([]int{}, recent[rapid.IntRange(0, len(recent)-1).Draw(t, "apiContent")]...)}}
			} else {
				op.Kind = rapid.SampledFrom([]string{"apply", "cas", "cas", "snapshot", "routes"}).Draw(t, "kind")
				op.Cand = c35Cand{Routes: []int{}}
				if op.Kind == "apply" || op.Kind == "cas" {
					op.Cand = c35GenCand(t, recent)
				}
				if op.Kind == "cas" {
					op.Expect = rapid.SampledFrom([]string{"initial", "mine", "mine", "garbage", "empty"}).Draw(t, "expect")
				}
			}
			op.Yield = rapid.IntRange(0, 3).Draw(t, "yield")
			op.Scribble = op.Kind != "snapshot" && op.Kind != "routes" && op.Kind != "api" && rapid.IntRange(0, 3).Draw(t, "scribble") == 0
			ops = append(ops, op)
		}
		c.Actors = append(c.Actors, ops)
	}
	c.Reps = rapid.IntRange(1, 3).Draw(t, "reps")
	c.Procs = rapid.SampledFrom([]int{0, 0, 1, 2, 4}).Draw(t, "procs")
	return c
}

const (
	c35RuleSeq  = "initial Lite routes from a pool of 6 valid routes; histories of 1..12 ops ApplyLiveConfig / ApplyLiveConfigIfVersion(fresh|older (1-3 versions back)|initial|garbage|empty|upper-cased version) / ConfigSnapshot with candidates {valid route edit, unchanged or earlier content, invalid route/no routes, non-route edit (bind, debug, onlineMode, servers, health, noAutoReload, connect name), lite disabled, invalid bind, nil}; callers scribble over candidates/snapshots afterwards; after every op snapshot, version and Java().Config() routes must equal the sequential content model and content<->version must stay a bijection; non-trivial = history contains an applied, a rejected and a precondition-failed outcome"
	c35RuleConc = "2..6 appliers released from a barrier, 1..3 ops each (apply / CAS on the barrier version, on the version last seen by the actor, garbage, empty - directly or through the API handler ConfigHandlerImpl.ApplyConfig with if_match / snapshot / Java().Config() read), 1..3 repetitions, GOMAXPROCS varied, Gosched noise; recorded call/return history (logical clock) + quiescent final reads checked for linearizability against the sequential model with porcupine, under the race detector; non-trivial = >=2 CAS appliers holding the same fresh version with valid differing candidates (exactly one may win)"
)

func TestVerif_C35(t *testing.T) {
	verifkit.Check(t, "C35", "sequential", c35RuleSeq, c35GenSeq, c35RunSeq)
}

func TestVerif_C35_conc(t *testing.T) {
	verifkit.Check(t, "C35", "concurrent", c35RuleConc, c35GenConc, c35RunConc)
}
