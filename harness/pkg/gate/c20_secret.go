//go:build verif

package gate

// C20, sub-check "secret-source": which secret signs the forwarding payload. The
// main C20 check decides the payload against the forwarding secret it is given;
// this one decides where the loader takes that secret from: a config file plus the
// two override keys that cmd/gate binds to GATE_VELOCITY_SECRET and
// GATE_BUNGEEGUARD_SECRET, loaded through LoadConfig and through the live-reload
// loader. The velocity secret the proxy will sign with is the override if one is
// set, else the file's; the BungeeGuard token likewise; neither leaks into the
// other.

import (
	"fmt"
	"os"
	"path/filepath"
	"testing"

	"github.com/spf13/viper"
	"pgregory.net/rapid"

	"go.minekube.com/gate/pkg/internal/verifkit"
)

type c20sCase struct {
	Mode       string `json:"mode"`
	FileVel    string `json:"file_velocity"`
	FileBungee string `json:"file_bungee"`
	EnvVel     string `json:"env_velocity"`
	EnvBungee  string `json:"env_bungee"`
	Live       bool   `json:"live"` // load through the live-reload loader
}

func c20sRun(c c20sCase) verifkit.Result {
	dir, err := os.MkdirTemp(verifkit.WorkDir(), "c20s-")
	if err != nil {
		return verifkit.Result{Inconclusive: true, Labels: []string{"inconclusive:tmpdir"}}
	}
	defer os.RemoveAll(dir)
	path := filepath.Join(dir, "config.yml")
	y := "config:\n  bind: 127.0.0.1:25565\n  servers:\n    lobby: 127.0.0.1:25566\n  try: [lobby]\n  forwarding:\n    mode: " + c.Mode + "\n"
	if c.FileVel != "" {
		y += fmt.Sprintf("    velocitySecret: %q\n", c.FileVel)
	}
	if c.FileBungee != "" {
		y += fmt.Sprintf("    bungeeGuardSecret: %q\n", c.FileBungee)
	}
	if err := os.WriteFile(path, []byte(y), 0o600); err != nil {
		return verifkit.Result{Inconclusive: true, Labels: []string{"inconclusive:write"}}
	}
	v := viper.New()
	v.SetConfigFile(path)
	// what cmd/gate's BindEnv makes visible under these keys
	if c.EnvVel != "" {
		v.Set("velocitySecret", c.EnvVel)
	}
	if c.EnvBungee != "" {
		v.Set("bungeeGuardSecret", c.EnvBungee)
	}
	var gotVel, gotBungee string
	if c.Live {
		cfg, err := loadLiveConfigCandidate(v, path)
		if err != nil {
			return verifkit.Fail("secret-source:load-error", "live loader rejects %q: %v", y, err)
		}
		gotVel, gotBungee = cfg.Config.Forwarding.VelocitySecret, cfg.Config.Forwarding.BungeeGuardSecret
	} else {
		cfg, err := LoadConfig(v)
		if err != nil {
			return verifkit.Fail("secret-source:load-error", "LoadConfig rejects %q: %v", y, err)
		}
		gotVel, gotBungee = cfg.Config.Forwarding.VelocitySecret, cfg.Config.Forwarding.BungeeGuardSecret
	}
	wantVel, wantBungee := c.FileVel, c.FileBungee
	if c.EnvVel != "" {
		wantVel = c.EnvVel
	}
	if c.EnvBungee != "" {
		wantBungee = c.EnvBungee
	}
	if gotVel != wantVel {
		return verifkit.Fail("secret-source:velocity", "forwarding mode %s, file velocitySecret %q, override %q (BungeeGuard: file %q, override %q): the proxy would sign velocity forwarding data with %q, want %q", c.Mode, c.FileVel, c.EnvVel, c.FileBungee, c.EnvBungee, gotVel, wantVel)
	}
	if gotBungee != wantBungee {
		return verifkit.Fail("secret-source:bungeeguard", "forwarding mode %s, file bungeeGuardSecret %q, override %q: the proxy would send the token %q, want %q", c.Mode, c.FileBungee, c.EnvBungee, gotBungee, wantBungee)
	}
	return verifkit.Result{NonTrivial: c.EnvVel != "" || c.EnvBungee != "", Labels: []string{"mode:" + c.Mode, fmt.Sprintf("live:%v", c.Live)}}
}

func TestVerif_C20S(t *testing.T) {
	secret := rapid.SampledFrom([]string{"", "", "file-secret", "s3cr3t with space", "0123456789abcdef0123456789abcdef"})
	verifkit.Check(t, "C20", "secret-source",
		"a config file (forwarding mode velocity / bungeeguard / legacy / none, velocitySecret and bungeeGuardSecret present or not) plus the override keys cmd/gate binds to GATE_VELOCITY_SECRET / GATE_BUNGEEGUARD_SECRET (set or not), loaded through LoadConfig or the live-reload loader; oracle: the velocity secret and the BungeeGuard token the proxy ends up with are the override if set, else the file's, independently of each other; non-trivial = an override is set",
		func(t *rapid.T) c20sCase {
			return c20sCase{
				Mode:       rapid.SampledFrom([]string{"velocity", "velocity", "bungeeguard", "legacy", "none"}).Draw(t, "mode"),
				FileVel:    secret.Draw(t, "fileVel"),
				FileBungee: secret.Draw(t, "fileBungee"),
				EnvVel:     rapid.SampledFrom([]string{"", "", "env-velocity", "another one"}).Draw(t, "envVel"),
				EnvBungee:  rapid.SampledFrom([]string{"", "", "env-bungee", "tok3n"}).Draw(t, "envBungee"),
				Live:       rapid.Bool().Draw(t, "live"),
			}
		}, c20sRun)
}
