//go:build verif

package gate

// C38, sub-check "gate-reload": the property's last step - "the content the file
// settles on is the configuration the proxy runs" - at the place that turns a file
// change into a configuration: the reload callback gate.Start installs
// (setupAutoConfigReload: live loader, validation, Gate.ApplyLiveConfig) on top of
// the real reload.Watch with real file notifications. The main C38 check decides
// the watch loop with a recording callback; here a real Gate in Lite mode is
// started from a file and the file then moves through a generated sequence of
// valid contents, each written only after the previous one was applied.
// Every content - in particular one the proxy ran earlier, or started with -
// must become the running configuration.
//
// Files are replaced atomically (temp file + rename) and the next change waits
// for the previous one to be applied plus a short settle time: the recorded C38
// finding (a change inside the callback's own read window followed by a change
// back) is excluded by construction here and stays with the main check.

import (
	"context"
	"fmt"
	"os"
	"path/filepath"
	"testing"
	"time"

	"github.com/go-logr/logr"
	"pgregory.net/rapid"

	"go.minekube.com/gate/pkg/internal/verifkit"
)

type c38gCase struct {
	Start int   `json:"start"` // content the proxy starts with (0..3)
	Steps []int `json:"steps"` // contents the file moves through afterwards
}

func c38gYAML(k int) string {
	return fmt.Sprintf("config:\n  bind: 127.0.0.1:25565\n  lite:\n    enabled: true\n    routes:\n      - host: play.c38g.example\n        backend: 127.0.0.1:%d\n", 25100+k)
}

func c38gLive(g *Gate) string {
	jc := g.Java().Config()
	if len(jc.Lite.Routes) != 1 || len(jc.Lite.Routes[0].Backend) != 1 {
		return fmt.Sprintf("%d routes", len(jc.Lite.Routes))
	}
	return jc.Lite.Routes[0].Backend[0]
}

func c38gRun(c c38gCase) verifkit.Result {
	dir, err := os.MkdirTemp(verifkit.WorkDir(), "c38g-")
	if err != nil {
		return verifkit.Result{Inconclusive: true, Labels: []string{"inconclusive:tmpdir"}}
	}
	defer os.RemoveAll(dir)
	path := filepath.Join(dir, "config.yml")
	if err := os.WriteFile(path, []byte(c38gYAML(c.Start)), 0o600); err != nil {
		return verifkit.Result{Inconclusive: true, Labels: []string{"inconclusive:write"}}
	}
	cfg, err := loadLiveConfigCandidate(Viper, path)
	if err != nil {
		return verifkit.Fail("gate-reload:setup", "the start-up file does not load: %v", err)
	}
	g, err := New(Options{Config: cfg, ConfigFilePath: path})
	if err != nil {
		return verifkit.Fail("gate-reload:setup", "gate.New failed: %v", err)
	}
	want := func(k int) string { return fmt.Sprintf("127.0.0.1:%d", 25100+k) }
	if got := c38gLive(g); got != want(c.Start) {
		return verifkit.Fail("gate-reload:setup", "started with backend %s, file says %s", got, want(c.Start))
	}
	ctx, cancel := context.WithCancel(context.Background())
	defer cancel()
	if err := setupAutoConfigReload(ctx, logr.Discard(), g, path, cfg); err != nil {
		return verifkit.Result{Inconclusive: true, Labels: []string{"inconclusive:watch-setup:" + err.Error()}}
	}
	time.Sleep(20 * time.Millisecond)
	history := []int{c.Start}
	seen := map[int]bool{c.Start: true}
	labels := map[string]bool{}
	for i, k := range c.Steps {
		if k == history[len(history)-1] {
			continue
		}
		if seen[k] {
			labels["returns-to-earlier-content"] = true
			if k == c.Start {
				labels["returns-to-start-up-content"] = true
			}
		}
		tmp := filepath.Join(dir, fmt.Sprintf(".config.yml.%d.tmp", i))
		if os.WriteFile(tmp, []byte(c38gYAML(k)), 0o600) != nil || os.Rename(tmp, path) != nil {
			return verifkit.Result{Inconclusive: true, Labels: []string{"inconclusive:write"}}
		}
		history = append(history, k)
		seen[k] = true
		deadline := time.Now().Add(15 * time.Second)
		for c38gLive(g) != want(k) {
			if time.Now().After(deadline) {
				return verifkit.Fail("gate-reload:not-applied",
					"the file moved through the contents %v (first = start-up configuration), each replaced atomically after the previous one was applied; 15 s after the last change the proxy still runs backend %s, the file says %s",
					history, c38gLive(g), want(k))
			}
			time.Sleep(5 * time.Millisecond)
		}
		time.Sleep(40 * time.Millisecond) // trailing notifications of this change are through
	}
	var ls []string
	for l := range labels {
		ls = append(ls, l)
	}
	return verifkit.Result{Labels: ls, NonTrivial: labels["returns-to-earlier-content"]}
}

func c38gGen(t *rapid.T) c38gCase {
	return c38gCase{
		Start: rapid.IntRange(0, 2).Draw(t, "start"),
		Steps: rapid.SliceOfN(rapid.IntRange(0, 2), 1, 5).Draw(t, "steps"),
	}
}

func TestVerif_C38Gate(t *testing.T) {
	verifkit.Check(t, "C38", "gate-reload",
		"a real Gate in Lite mode started from a YAML file, with the reload callback gate.Start installs (setupAutoConfigReload: live loader, validation, Gate.ApplyLiveConfig) on the real reload.Watch and real file notifications; the file then moves through 1..5 valid contents over an alphabet of 3 (atomic replacement; each change after the previous one was applied plus 40 ms), including returns to an earlier content and to the start-up content; oracle: within 15 s of every change the proxy's running Lite route is the one in the file; non-trivial = the sequence returns to an earlier content",
		c38gGen, c38gRun)
}
