//go:build verif

package gate

import (
	"bytes"
	"encoding/json"
	"errors"
	"fmt"
	"io"
	"reflect"
	"sort"
	"strings"
	"sync"
	"testing"
	"time"

	jconfig "go.minekube.com/gate/pkg/edition/java/config"
	liteconfig "go.minekube.com/gate/pkg/edition/java/lite/config"
	"go.minekube.com/gate/pkg/gate/config"
	"go.minekube.com/gate/pkg/internal/verifkit"
	"go.minekube.com/gate/pkg/util/configutil"
	"gopkg.in/yaml.v3"
	"pgregory.net/rapid"
)

// C36: applying a JSON Merge Patch to the effective configuration follows RFC 7396.
//
// Reference: c36RefMerge is written from the pseudo-code of RFC 7396 section 2 as
// a pure function (never mutates or shares structure with its arguments):
//
//	define MergePatch(Target, Patch):
//	  if Patch is an Object:
//	    if Target is not an Object: Target = {}
//	    for each Name/Value pair in Patch:
//	      if Value is null: if Name exists in Target: remove the Name/Value pair from Target
//	      else:             Target[Name] = MergePatch(Target[Name], Value)
//	    return Target
//	  else:
//	    return Patch

func c36Clone(v any) any {
	switch x := v.(type) {
	case map[string]any:
		out := make(map[string]any, len(x))
		for k, e := range x {
			out[k] = c36Clone(e)
		}
		return out
	case []any:
		out := make([]any, len(x))
		for i, e := range x {
			out[i] = c36Clone(e)
		}
		return out
	default:
		return v
	}
}

func c36RefMerge(target, patch any) any {
	po, isObj := patch.(map[string]any)
	if !isObj {
		return c36Clone(patch)
	}
	result := map[string]any{}
	if to, ok := target.(map[string]any); ok {
		for name, v := range to {
			if _, patched := po[name]; !patched {
				result[name] = c36Clone(v)
			}
		}
		for name, pv := range po {
			if pv == nil {
				continue // removed (or never there)
			}
			result[name] = c36RefMerge(to[name], pv) // to[name] == nil when absent: MergePatch(undefined, v)
		}
		return result
	}
	for name, pv := range po {
		if pv == nil {
			continue
		}
		result[name] = c36RefMerge(nil, pv)
	}
	return result
}

func c36SortedKeys(m map[string]any) []string {
	ks := make([]string, 0, len(m))
	for k := range m {
		ks = append(ks, k)
	}
	sort.Strings(ks)
	return ks
}

// ---------------------------------------------------------------- sub-check 1: applyMergePatch on arbitrary JSON

type c36Case struct {
	Target string `json:"target"` // JSON document
	Patch  string `json:"patch"`  // JSON document
}

type c36Classes struct{ set map[string]bool }

func (c *c36Classes) add(l string) {
	if c.set == nil {
		c.set = map[string]bool{}
	}
	c.set[l] = true
}

func (c *c36Classes) list() []string {
	out := make([]string, 0, len(c.set))
	for l := range c.set {
		out = append(out, l)
	}
	sort.Strings(out)
	return out
}

func c36HasNullInArray(v any, inArray bool) bool {
	switch x := v.(type) {
	case nil:
		return inArray
	case []any:
		for _, e := range x {
			if c36HasNullInArray(e, true) {
				return true
			}
		}
	case map[string]any:
		for _, e := range x {
			if c36HasNullInArray(e, inArray) {
				return true
			}
		}
	}
	return false
}

// c36Classify walks target and patch in parallel the way the RFC recursion does.
func c36Classify(cl *c36Classes, target, patch any, depth int) {
	po, isObj := patch.(map[string]any)
	if !isObj {
		if depth == 0 {
			cl.add("patch-nonobject-root")
		}
		switch patch.(type) {
		case []any:
			if _, ok := target.([]any); ok {
				cl.add("array-replaces-array")
			}
			if c36HasNullInArray(patch, false) {
				cl.add("null-kept-inside-array")
			}
		}
		if _, ok := target.(map[string]any); ok && depth > 0 {
			cl.add("nonobject-replaces-object")
		}
		return
	}
	to, tIsObj := target.(map[string]any)
	if !tIsObj {
		if target == nil {
			cl.add("object-meets-missing-or-null")
		} else {
			cl.add("object-meets-nonobject")
		}
	} else if depth > 0 {
		cl.add("object-meets-object")
	}
	for name, pv := range po {
		if pv == nil {
			if _, exists := to[name]; exists {
				if depth >= 1 {
					cl.add("nested-null-removes-existing")
				} else {
					cl.add("top-null-removes-existing")
				}
			} else if !tIsObj {
				cl.add("null-in-fresh-object")
			} else {
				cl.add("null-on-missing")
			}
			continue
		}
		c36Classify(cl, to[name], pv, depth+1)
	}
}

func c36Run(c c36Case) verifkit.Result {
	var tImpl, pImpl, tRef, pRef any
	for _, d := range []struct {
		s   string
		dst *any
	}{{c.Target, &tImpl}, {c.Patch, &pImpl}, {c.Target, &tRef}, {c.Patch, &pRef}} {
		if err := json.Unmarshal([]byte(d.s), d.dst); err != nil {
			return verifkit.Result{Labels: []string{"invalid-json-case"}}
		}
	}
	var cl c36Classes
	c36Classify(&cl, tRef, pRef, 0)
	want := c36RefMerge(tRef, pRef)
	got := applyMergePatch(tImpl, pImpl)
	if !reflect.DeepEqual(got, want) {
		gb, _ := json.Marshal(got)
		wb, _ := json.Marshal(want)
		return verifkit.Fail("merge:applyMergePatch", "target=%s patch=%s: got %s want %s", c.Target, c.Patch, gb, wb)
	}
	// the result must be a JSON value that survives encoding (what mergeConfigPatch does next)
	gb, err := json.Marshal(got)
	if err != nil {
		return verifkit.Fail("merge:unencodable", "result cannot be encoded: %v", err)
	}
	var back any
	if err := json.Unmarshal(gb, &back); err != nil || !reflect.DeepEqual(back, want) {
		return verifkit.Fail("merge:encode-roundtrip", "encoded result %s differs from reference", gb)
	}
	nt := cl.set["nested-null-removes-existing"] && (cl.set["object-meets-nonobject"] || cl.set["object-meets-missing-or-null"])
	return verifkit.Result{NonTrivial: nt, Labels: cl.list()}
}

var c36Keys = []string{"a", "b", "c", "d", "", "a/b", "ä", "null"}

func c36GenScalar(t *rapid.T, allowNull bool) any {
	k := rapid.IntRange(0, 5).Draw(t, "scalarKind")
	switch k {
	case 0:
		if allowNull {
			return nil
		}
		return false
	case 1:
		return rapid.Bool().Draw(t, "b")
	case 2:
		return float64(rapid.IntRange(-3, 1000).Draw(t, "i"))
	case 3:
		return rapid.SampledFrom([]float64{0, 0.5, -1.25, 1e3, 9007199254740992, -9007199254740992}).Draw(t, "f")
	case 4:
		return rapid.SampledFrom([]string{"", "x", "null", "{}", "a\"b", "é\n", "<&>", "0"}).Draw(t, "s")
	default:
		return rapid.StringN(0, 6, 12).Draw(t, "str")
	}
}

// c36GenValue draws an arbitrary JSON value (nulls allowed as array elements and,
// when nullMembers, as object members).
func c36GenValue(t *rapid.T, depth int, nullMembers bool) any {
	kind := rapid.IntRange(0, 9).Draw(t, "kind")
	if depth >= 5 && kind >= 4 {
		kind = 0
	}
	switch {
	case kind < 4:
		return c36GenScalar(t, false)
	case kind < 6:
		n := rapid.IntRange(0, 3).Draw(t, "alen")
		arr := make([]any, 0, n)
		for i := 0; i < n; i++ {
			if rapid.IntRange(0, 3).Draw(t, "anull") == 0 {
				arr = append(arr, nil)
			} else {
				arr = append(arr, c36GenValue(t, depth+1, nullMembers))
			}
		}
		return arr
	default:
		return c36GenObject(t, depth, nullMembers)
	}
}

func c36GenObject(t *rapid.T, depth int, nullMembers bool) map[string]any {
	n := rapid.IntRange(0, 4).Draw(t, "olen")
	obj := map[string]any{}
	for i := 0; i < n; i++ {
		k := rapid.SampledFrom(c36Keys).Draw(t, "key")
		if nullMembers && rapid.IntRange(0, 2).Draw(t, "mnull") == 0 {
			obj[k] = nil
		} else {
			obj[k] = c36GenValue(t, depth+1, nullMembers)
		}
	}
	return obj
}

// c36GenPatchFor derives a patch from the shape of target so that every clause
// of the RFC algorithm is exercised against existing members.
func c36GenPatchFor(t *rapid.T, target any, depth int) any {
	to, ok := target.(map[string]any)
	if !ok || depth >= 5 {
		if rapid.IntRange(0, 2).Draw(t, "leafObj") == 0 {
			return c36GenValue(t, depth, true)
		}
		return c36GenObject(t, depth, true) // object meets non-object
	}
	patch := map[string]any{}
	for _, k := range c36SortedKeys(to) {
		if _, childObj := to[k].(map[string]any); childObj && rapid.Bool().Draw(t, "recurse") {
			patch[k] = c36GenPatchFor(t, to[k], depth+1)
			continue
		}
		switch rapid.IntRange(0, 6).Draw(t, "act") {
		case 0: // untouched
		case 1:
			patch[k] = nil
		case 2:
			patch[k] = c36GenScalar(t, false)
		case 3:
			patch[k] = c36GenValue(t, depth+1, true)
		case 4:
			patch[k] = c36GenObject(t, depth+1, true)
		default:
			patch[k] = c36GenPatchFor(t, to[k], depth+1)
		}
	}
	for i, n := 0, rapid.IntRange(0, 2).Draw(t, "extra"); i < n; i++ {
		k := rapid.SampledFrom(c36Keys).Draw(t, "xkey")
		if _, dup := patch[k]; dup {
			continue
		}
		if rapid.IntRange(0, 2).Draw(t, "xnull") == 0 {
			patch[k] = nil
		} else {
			patch[k] = c36GenValue(t, depth+1, true)
		}
	}
	return patch
}

// c36GenNested draws a target object in which about half of the members are
// objects themselves (down to depth 3), so that patches can recurse.
func c36GenNested(t *rapid.T, depth int) map[string]any {
	n := rapid.IntRange(1, 4).Draw(t, "nlen")
	obj := map[string]any{}
	for i := 0; i < n; i++ {
		k := rapid.SampledFrom(c36Keys).Draw(t, "nkey")
		if depth < 3 && rapid.Bool().Draw(t, "nobj") {
			obj[k] = c36GenNested(t, depth+1)
		} else {
			obj[k] = c36GenValue(t, depth+1, false)
		}
	}
	return obj
}

func c36JSON(v any) string {
	b, err := json.Marshal(v)
	if err != nil {
		panic(err)
	}
	return string(b)
}

func c36Gen(t *rapid.T) c36Case {
	var target any
	if rapid.IntRange(0, 9).Draw(t, "targetKind") == 0 {
		target = c36GenValue(t, 0, false)
	} else {
		target = c36GenNested(t, 0)
	}
	var patch any
	if rapid.IntRange(0, 7).Draw(t, "patchKind") == 0 {
		patch = c36GenValue(t, 0, true)
	} else {
		patch = c36GenPatchFor(t, target, 0)
	}
	return c36Case{Target: c36JSON(target), Patch: c36JSON(patch)}
}

// ---------------------------------------------------------------- sub-check 2: mergeConfigPatch on real configurations

type c36CfgCase struct {
	Variant int    `json:"variant"` // which current configuration (c36Config)
	Patch   string `json:"patch"`   // the JSON Merge Patch text handed to mergeConfigPatch
	// Expect is the generator's constructed expectation: "" (none; differential
	// oracle only), "reject" (an unknown member is put into a struct-typed object),
	// "accept" (only type-correct edits of known members).
	Expect string `json:"expect"`
	// Probes: for "accept" cases, JSON pointers-ish paths (keys joined by \x1f) whose
	// final values in the candidate were set by the patch and are checked field by field.
	ShowMaxPlayers *int    `json:"showMaxPlayers,omitempty"`
	Bind           *string `json:"bind,omitempty"`
	BindNull       bool    `json:"bindNull,omitempty"`
	AddServer      string  `json:"addServer,omitempty"`
	DelServer      string  `json:"delServer,omitempty"`
}

// c36Config builds the "effective configuration" variants. Every call returns a
// fresh value (DefaultConfig contains maps/slices that must not be shared).
func c36Config(variant int) *config.Config {
	c := config.DefaultConfig
	c.Config.Servers = map[string]string{}
	c.Config.Try = []string{}
	c.Config.ForcedHosts = jconfig.ForcedHosts{}
	c.Config.Lite.Routes = nil
	switch variant % 3 {
	case 0: // the repository's own live-reload fixture
		c.Config.Bind = "127.0.0.1:25565"
		c.Config.Lite.Enabled = true
		c.Config.Lite.Routes = []liteconfig.Route{{
			Host:         []string{"play.example.test"},
			Backend:      []string{"backend.example.test:25565"},
			CachePingTTL: configutil.Duration(30 * time.Second),
		}}
	case 1: // classic proxy with servers/try/forced hosts
		c.Config.Bind = "0.0.0.0:25570"
		c.Config.Servers = map[string]string{"lobby": "127.0.0.1:25566", "survival": "127.0.0.1:25567", "a": "10.0.0.1:1"}
		c.Config.Try = []string{"lobby", "survival"}
		c.Config.ForcedHosts = jconfig.ForcedHosts{"lobby.example.test": {"lobby"}}
		c.Config.Forwarding.Mode = jconfig.VelocityForwardingMode
		c.Config.Forwarding.VelocitySecret = "s3cret"
		c.Config.OnlineMode = false
		c.Config.Debug = true
	case 2: // plain defaults
	}
	return &c
}

// c36TargetDoc is the harness' own rendering of "the effective configuration as
// a JSON document": YAML-marshal the struct (YAML is the configuration's
// canonical field naming), read it back generically, and insist on string keys.
func c36TargetDoc(c *config.Config) (any, error) {
	y, err := yaml.Marshal(c)
	if err != nil {
		return nil, err
	}
	var n yaml.Node
	if err := yaml.Unmarshal(y, &n); err != nil {
		return nil, err
	}
	if n.Kind == yaml.DocumentNode && len(n.Content) == 1 {
		return c36NodeToJSON(n.Content[0])
	}
	return nil, fmt.Errorf("unexpected yaml document shape")
}

var (
	c36DocMu    sync.Mutex
	c36DocCache = map[int]any{}
)

// c36CachedDoc memoises c36TargetDoc per variant. The document is only ever
// read (c36RefMerge and the generators copy, never edit it).
func c36CachedDoc(variant int) (any, error) {
	c36DocMu.Lock()
	defer c36DocMu.Unlock()
	if d, ok := c36DocCache[variant%3]; ok {
		return d, nil
	}
	d, err := c36TargetDoc(c36Config(variant))
	if err == nil {
		c36DocCache[variant%3] = d
	}
	return d, err
}

func c36NodeToJSON(n *yaml.Node) (any, error) {
	switch n.Kind {
	case yaml.MappingNode:
		out := map[string]any{}
		for i := 0; i+1 < len(n.Content); i += 2 {
			k := n.Content[i]
			if k.Kind != yaml.ScalarNode || (k.Tag != "!!str" && k.Tag != "") {
				return nil, fmt.Errorf("non-string key %q (%s)", k.Value, k.Tag)
			}
			v, err := c36NodeToJSON(n.Content[i+1])
			if err != nil {
				return nil, err
			}
			out[k.Value] = v
		}
		return out, nil
	case yaml.SequenceNode:
		out := make([]any, 0, len(n.Content))
		for _, e := range n.Content {
			v, err := c36NodeToJSON(e)
			if err != nil {
				return nil, err
			}
			out = append(out, v)
		}
		return out, nil
	case yaml.AliasNode:
		return c36NodeToJSON(n.Alias)
	case yaml.ScalarNode:
		var v any
		if err := n.Decode(&v); err != nil {
			return nil, err
		}
		switch x := v.(type) {
		case int:
			return float64(x), nil
		case int64:
			return float64(x), nil
		case uint64:
			return float64(x), nil
		case float64, string, bool, nil:
			return v, nil
		default:
			return nil, fmt.Errorf("unsupported scalar %T", v)
		}
	}
	return nil, fmt.Errorf("unsupported node kind %d", n.Kind)
}

// c36StrictDecode is the harness' own statement of "decodes strictly as a
// configuration": exactly one document, every member known to the schema.
func c36StrictDecode(doc []byte) (*config.Config, error) {
	var out config.Config
	dec := yaml.NewDecoder(bytes.NewReader(doc))
	dec.KnownFields(true)
	if err := dec.Decode(&out); err != nil {
		return nil, err
	}
	var extra yaml.Node
	if err := dec.Decode(&extra); !errors.Is(err, io.EOF) {
		return nil, fmt.Errorf("trailing document")
	}
	return &out, nil
}

func c36CfgRun(c c36CfgCase) (res verifkit.Result) {
	current := c36Config(c.Variant)
	pristine := c36Config(c.Variant)

	targetDoc, err := c36CachedDoc(c.Variant)
	if err != nil {
		return verifkit.Fail("harness:target-doc", "cannot render target document: %v", err)
	}
	var patchDoc any
	patchValid := json.Unmarshal([]byte(c.Patch), &patchDoc) == nil

	got, gotErr := mergeConfigPatch(current, c.Patch)

	labels := []string{fmt.Sprintf("variant-%d", c.Variant%3)}
	if c.Expect != "" {
		labels = append(labels, "expect-"+c.Expect)
	}

	// the current (live) configuration must not be edited by an attempt to patch it
	if !reflect.DeepEqual(current, pristine) {
		return verifkit.Fail("config:current-mutated", "mergeConfigPatch modified the current configuration (patch %s)", c.Patch)
	}

	if !patchValid {
		labels = append(labels, "patch-invalid-json")
		if gotErr == nil {
			return verifkit.Fail("config:invalid-json-accepted", "patch %q is not JSON but was accepted", c.Patch)
		}
		return verifkit.Result{Labels: labels}
	}

	var cl c36Classes
	c36Classify(&cl, targetDoc, patchDoc, 0)
	labels = append(labels, cl.list()...)

	wantDoc := c36RefMerge(targetDoc, patchDoc)
	wantJSON, err := json.Marshal(wantDoc)
	if err != nil {
		return verifkit.Fail("harness:want-json", "%v", err)
	}
	want, wantErr := c36StrictDecode(wantJSON)

	nt := cl.set["nested-null-removes-existing"] || cl.set["object-meets-nonobject"] || cl.set["object-meets-missing-or-null"] || cl.set["array-replaces-array"]

	if c.Expect == "reject" && gotErr == nil {
		return verifkit.Fail("config:unknown-member-accepted", "patch %s puts an unknown member into a struct-typed object but was accepted", c.Patch)
	}
	if c.Expect == "accept" && gotErr != nil {
		return verifkit.Fail("config:valid-edit-rejected", "patch %s only makes type-correct edits of known members but was rejected: %v", c.Patch, gotErr)
	}

	switch {
	case wantErr != nil && gotErr == nil:
		return verifkit.Fail("config:accepted-not-strict", "patch %s: RFC 7396 result %s does not decode strictly (%v) but a configuration was accepted", c.Patch, c36Short(wantJSON), wantErr)
	case wantErr == nil && gotErr != nil:
		return verifkit.Fail("config:rejected-strict", "patch %s: RFC 7396 result decodes strictly but was rejected: %v", c.Patch, gotErr)
	case wantErr != nil:
		labels = append(labels, "rejected")
		return verifkit.Result{NonTrivial: nt, Labels: labels}
	}
	labels = append(labels, "accepted")
	if !reflect.DeepEqual(got, want) {
		gy, _ := yaml.Marshal(got)
		wy, _ := yaml.Marshal(want)
		return verifkit.Fail("config:candidate-differs", "patch %s: candidate differs from the RFC 7396 result:\n%s", c.Patch, c36Diff(string(gy), string(wy)))
	}

	// field-level probes (independent of the reference decode)
	if c.ShowMaxPlayers != nil && got.Config.Status.ShowMaxPlayers != *c.ShowMaxPlayers {
		return verifkit.Fail("config:probe-showMaxPlayers", "patch %s: showMaxPlayers=%d want %d", c.Patch, got.Config.Status.ShowMaxPlayers, *c.ShowMaxPlayers)
	}
	if c.Bind != nil && got.Config.Bind != *c.Bind {
		return verifkit.Fail("config:probe-bind", "patch %s: bind=%q want %q", c.Patch, got.Config.Bind, *c.Bind)
	}
	if c.BindNull && got.Config.Bind != "" {
		return verifkit.Fail("config:probe-bind-null", "patch %s: bind=%q want removed", c.Patch, got.Config.Bind)
	}
	if c.Expect == "accept" {
		if c.ShowMaxPlayers == nil && got.Config.Status.ShowMaxPlayers != pristine.Config.Status.ShowMaxPlayers {
			return verifkit.Fail("config:probe-sibling-lost", "patch %s: untouched status.showMaxPlayers changed to %d", c.Patch, got.Config.Status.ShowMaxPlayers)
		}
		if c.Bind == nil && !c.BindNull && got.Config.Bind != pristine.Config.Bind {
			return verifkit.Fail("config:probe-sibling-lost", "patch %s: untouched bind changed to %q", c.Patch, got.Config.Bind)
		}
		wantServers := map[string]string{}
		for k, v := range pristine.Config.Servers {
			wantServers[k] = v
		}
		if c.AddServer != "" {
			wantServers[c.AddServer] = "192.0.2.1:25565"
		}
		if c.DelServer != "" {
			delete(wantServers, c.DelServer)
		}
		gotServers := got.Config.Servers
		if gotServers == nil {
			gotServers = map[string]string{}
		}
		if !reflect.DeepEqual(gotServers, wantServers) {
			return verifkit.Fail("config:probe-servers", "patch %s: servers=%v want %v", c.Patch, gotServers, wantServers)
		}
	}
	return verifkit.Result{NonTrivial: nt, Labels: labels}
}

func c36Short(b []byte) string {
	if len(b) > 300 {
		return string(b[:300]) + "..."
	}
	return string(b)
}

func c36Diff(a, b string) string {
	al, bl := strings.Split(a, "\n"), strings.Split(b, "\n")
	var sb strings.Builder
	for i := 0; i < len(al) || i < len(bl); i++ {
		var x, y string
		if i < len(al) {
			x = al[i]
		}
		if i < len(bl) {
			y = bl[i]
		}
		if x != y {
			fmt.Fprintf(&sb, "line %d: got %q want %q\n", i+1, c36Short([]byte(x)), c36Short([]byte(y)))
			if sb.Len() > 1500 {
				break
			}
		}
	}
	return sb.String()
}

// struct-typed objects of the configuration document (hand-listed from the
// config struct definitions; maps such as servers/forcedHosts are NOT in here).
var c36StructPaths = [][]string{
	{},
	{"config"},
	{"config", "status"},
	{"config", "forwarding"},
	{"config", "query"},
	{"config", "quota"},
	{"config", "quota", "connections"},
	{"config", "quota", "logins"},
	{"config", "compression"},
	{"config", "packetLimiter"},
	{"config", "lite"},
	{"healthService"},
	{"connect"},
	{"api"},
}

func c36Nest(path []string, leaf map[string]any) map[string]any {
	out := leaf
	for i := len(path) - 1; i >= 0; i-- {
		out = map[string]any{path[i]: out}
	}
	return out
}

// c36DeepMergeInto merges b into a (plain recursive object union used by the
// generator only to combine independent edits into one patch document).
func c36DeepMergeInto(a, b map[string]any) {
	for k, v := range b {
		if bm, ok := v.(map[string]any); ok {
			if am, ok := a[k].(map[string]any); ok {
				c36DeepMergeInto(am, bm)
				continue
			}
		}
		a[k] = v
	}
}

// c36GenSameType replaces a document value by another one of the same JSON type.
func c36GenSameType(t *rapid.T, v any) any {
	switch x := v.(type) {
	case bool:
		return !x
	case float64:
		return float64(rapid.IntRange(-1, 70000).Draw(t, "num"))
	case string:
		return rapid.SampledFrom([]string{"", "x", "127.0.0.1:25565", "none", "velocity", "10s", "§ctext", "{\"text\":\"hi\"}"}).Draw(t, "strv")
	case []any:
		n := rapid.IntRange(0, 3).Draw(t, "arrn")
		out := make([]any, 0, n)
		for i := 0; i < n; i++ {
			if len(x) > 0 && rapid.Bool().Draw(t, "reuse") {
				out = append(out, c36Clone(x[rapid.IntRange(0, len(x)-1).Draw(t, "ri")]))
			} else {
				out = append(out, rapid.SampledFrom([]any{"lobby", "a", "10.0.0.0/8", float64(1), nil, map[string]any{"host": "h.example.test", "backend": "b.example.test:1"}}).Draw(t, "elem"))
			}
		}
		return out
	default:
		return v
	}
}

func c36GenWrongType(t *rapid.T, v any) any {
	switch v.(type) {
	case bool:
		return rapid.SampledFrom([]any{"yes please", float64(2), []any{true}, map[string]any{"x": true}}).Draw(t, "wt")
	case float64:
		return rapid.SampledFrom([]any{"many", true, []any{float64(1)}, map[string]any{"x": float64(1)}, 1.5}).Draw(t, "wt")
	case string:
		return rapid.SampledFrom([]any{[]any{"x"}, map[string]any{"x": "y"}, float64(7), true}).Draw(t, "wt")
	case []any:
		return rapid.SampledFrom([]any{"x", float64(1), map[string]any{"x": "y"}, true}).Draw(t, "wt")
	case map[string]any:
		return rapid.SampledFrom([]any{"x", float64(1), []any{"x"}, true}).Draw(t, "wt")
	}
	return "x"
}

// c36GenDocPatch walks the effective configuration document and makes a few
// edits per visited object (few, so that a good share of patches stays valid).
func c36GenDocPatch(t *rapid.T, doc map[string]any, depth int) map[string]any {
	patch := map[string]any{}
	keys := c36SortedKeys(doc)
	if len(keys) == 0 {
		return patch
	}
	edits := rapid.IntRange(1, 3).Draw(t, "edits")
	for i := 0; i < edits; i++ {
		k := keys[rapid.IntRange(0, len(keys)-1).Draw(t, "kidx")]
		v := doc[k]
		child, isObj := v.(map[string]any)
		if isObj && depth < 4 && rapid.IntRange(0, 2).Draw(t, "descend") > 0 {
			patch[k] = c36GenDocPatch(t, child, depth+1)
			continue
		}
		switch rapid.IntRange(0, 7).Draw(t, "dact") {
		case 0, 1:
			patch[k] = nil
		case 2, 3, 4:
			if isObj {
				patch[k] = c36GenDocPatch(t, child, depth+1)
			} else {
				patch[k] = c36GenSameType(t, v)
			}
		case 5:
			patch[k] = c36GenWrongType(t, v)
		case 6:
			if isObj {
				sub := c36GenDocPatch(t, child, depth+1)
				sub[rapid.SampledFrom([]string{"zzUnknown", "Bind", "enabled ", "config"}).Draw(t, "unk")] = c36GenScalar(t, true)
				patch[k] = sub
			} else {
				patch[k] = map[string]any{"x": nil, "y": c36GenScalar(t, true)} // object meets non-object
			}
		default:
			patch[k] = c36GenValue(t, 3, true)
		}
	}
	return patch
}

func c36CfgGen(t *rapid.T) c36CfgCase {
	variant := rapid.IntRange(0, 2).Draw(t, "variant")
	c := c36CfgCase{Variant: variant}
	switch mode := rapid.IntRange(0, 9).Draw(t, "mode"); {
	case mode <= 2: // constructed valid edits -> must be accepted, probes checked
		c.Expect = "accept"
		patch := map[string]any{}
		if rapid.Bool().Draw(t, "eShow") {
			n := rapid.IntRange(-1, 100000).Draw(t, "show")
			c.ShowMaxPlayers = &n
			c36DeepMergeInto(patch, c36Nest([]string{"config", "status"}, map[string]any{"showMaxPlayers": float64(n)}))
		}
		switch rapid.IntRange(0, 2).Draw(t, "eBind") {
		case 1:
			b := rapid.SampledFrom([]string{"0.0.0.0:1", "[::1]:25565", "localhost:25565"}).Draw(t, "bind")
			c.Bind = &b
			c36DeepMergeInto(patch, c36Nest([]string{"config"}, map[string]any{"bind": b}))
		case 2:
			c.BindNull = true
			c36DeepMergeInto(patch, c36Nest([]string{"config"}, map[string]any{"bind": nil}))
		}
		if rapid.Bool().Draw(t, "eAdd") {
			c.AddServer = rapid.SampledFrom([]string{"new", "zz", "hub2"}).Draw(t, "addName")
			c36DeepMergeInto(patch, c36Nest([]string{"config", "servers"}, map[string]any{c.AddServer: "192.0.2.1:25565"}))
		}
		if rapid.Bool().Draw(t, "eDel") {
			c.DelServer = rapid.SampledFrom([]string{"lobby", "survival", "a", "missing"}).Draw(t, "delName")
			c36DeepMergeInto(patch, c36Nest([]string{"config", "servers"}, map[string]any{c.DelServer: nil}))
		}
		if rapid.Bool().Draw(t, "eMisc") {
			c36DeepMergeInto(patch, c36Nest([]string{"config", "forwarding"}, map[string]any{"mode": rapid.SampledFrom([]string{"none", "legacy", "velocity"}).Draw(t, "fm")}))
			c36DeepMergeInto(patch, c36Nest([]string{"config", "quota", "logins"}, map[string]any{"burst": float64(rapid.IntRange(1, 50).Draw(t, "burst"))}))
		}
		if rapid.Bool().Draw(t, "eTry") {
			c36DeepMergeInto(patch, c36Nest([]string{"config"}, map[string]any{"try": []any{"lobby", "a"}}))
		}
		if rapid.Bool().Draw(t, "eNullAbsent") {
			c36DeepMergeInto(patch, c36Nest([]string{"config", "via"}, map[string]any{"mode": nil}))
			c36DeepMergeInto(patch, map[string]any{"noAutoReload": nil})
		}
		c.Patch = c36JSON(patch)
	case mode <= 4: // an unknown member inside a struct-typed object -> must be rejected
		c.Expect = "reject"
		path := rapid.SampledFrom(c36StructPaths).Draw(t, "spath")
		name := rapid.SampledFrom([]string{"zzUnknown", "unknownOption", "Bind", "BIND", "bind ", "show_max_players"}).Draw(t, "uname")
		var val any = c36GenScalar(t, false)
		if rapid.IntRange(0, 3).Draw(t, "uobj") == 0 {
			val = map[string]any{"k": nil} // becomes {} after the merge: still an unknown member
		}
		patch := c36Nest(path, map[string]any{name: val})
		if rapid.Bool().Draw(t, "plusValid") {
			c36DeepMergeInto(patch, c36Nest([]string{"config", "status"}, map[string]any{"showMaxPlayers": float64(5)}))
		}
		c.Patch = c36JSON(patch)
	case mode <= 8: // walk the document
		doc, err := c36CachedDoc(variant)
		if err != nil {
			t.Fatalf("target doc: %v", err)
		}
		c.Patch = c36JSON(c36GenDocPatch(t, doc.(map[string]any), 0))
	default: // patch that is not an object / arbitrary JSON / not JSON
		switch rapid.IntRange(0, 2).Draw(t, "odd") {
		case 0:
			c.Patch = c36JSON(c36GenValue(t, 0, true))
		case 1:
			c.Patch = rapid.SampledFrom([]string{"", "{", "{\"config\":}", "nul", "{} {}", "[1,]"}).Draw(t, "bad")
		default:
			c.Patch = rapid.SampledFrom([]string{"null", "[]", "\"x\"", "0", "{}", "true"}).Draw(t, "scalarPatch")
		}
	}
	return c
}

func TestVerif_C36(t *testing.T) {
	verifkit.Check(t, "C36", "merge",
		"arbitrary JSON target (depth<=5; objects over a small colliding key pool, arrays with nulls, scalars; non-object roots) x patch derived from the target's shape (per member: skip/null/scalar/array/fresh object with nulls/recursive patch, plus new members) or unrelated JSON incl. non-object patches; applyMergePatch result deep-equals a pure RFC 7396 reference; non-trivial = a null below depth 1 removes an existing member AND an object patch meets a non-object/missing target",
		c36Gen, c36Run)
	verifkit.Check(t, "C36", "config",
		"3 effective configurations (live-reload fixture, classic proxy with servers/try/forcedHosts, defaults) x patches: constructed valid edits (field probes), unknown member in a struct-typed object (must reject), edits generated by walking the effective configuration document (null/same-type/wrong-type/unknown member/object-meets-scalar at every level), non-object and non-JSON patches; mergeConfigPatch accepts iff the RFC 7396 reference result decodes strictly, and then equals that decoded configuration; non-trivial = nested null removes an existing member, object meets non-object/missing, or array replaces array",
		c36CfgGen, c36CfgRun)
}
