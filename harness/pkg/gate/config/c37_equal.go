//go:build verif

package config

import (
	"bytes"
	"encoding/json"
	"errors"
	"fmt"
	"io"
	"math"
	"reflect"

	"gopkg.in/yaml.v3"
)

// c37Diff is a structural comparison used for the serialise-and-reload round
// trip: like reflect.DeepEqual, except that
//   - nil and empty slices / maps are the same content,
//   - NaN equals NaN,
//   - values that implement json.Marshaler and are not plain data (chat
//     components, which are trees of interface values whose in-memory shape
//     depends on the syntax they were parsed from) are compared by their own JSON
//     rendering, which is their canonical content.
//
// It returns "" when equal, else the path of the first difference.
func c37Diff(a, b reflect.Value, path string) string {
	if !a.IsValid() || !b.IsValid() {
		if a.IsValid() != b.IsValid() {
			return path + ": one side missing"
		}
		return ""
	}
	if a.Type() != b.Type() {
		return fmt.Sprintf("%s: type %s vs %s", path, a.Type(), b.Type())
	}
	if c37IsComponent(a.Type()) {
		ja, ea := c37JSONOf(a)
		jb, eb := c37JSONOf(b)
		if (ea != nil) != (eb != nil) || (ja != jb && c37FlattenComponent(ja) != c37FlattenComponent(jb)) {
			return fmt.Sprintf("%s: component %s vs %s", path, ja, jb)
		}
		return ""
	}
	switch a.Kind() {
	case reflect.Ptr, reflect.Interface:
		if a.IsNil() || b.IsNil() {
			if a.IsNil() != b.IsNil() {
				return fmt.Sprintf("%s: nil vs non-nil", path)
			}
			return ""
		}
		return c37Diff(a.Elem(), b.Elem(), path)
	case reflect.Struct:
		for i := 0; i < a.NumField(); i++ {
			if d := c37Diff(a.Field(i), b.Field(i), path+"."+a.Type().Field(i).Name); d != "" {
				return d
			}
		}
		return ""
	case reflect.Slice, reflect.Array:
		if a.Len() != b.Len() {
			return fmt.Sprintf("%s: len %d vs %d", path, a.Len(), b.Len())
		}
		for i := 0; i < a.Len(); i++ {
			if d := c37Diff(a.Index(i), b.Index(i), fmt.Sprintf("%s[%d]", path, i)); d != "" {
				return d
			}
		}
		return ""
	case reflect.Map:
		if a.Len() != b.Len() {
			return fmt.Sprintf("%s: map len %d vs %d", path, a.Len(), b.Len())
		}
		for _, k := range a.MapKeys() {
			bv := b.MapIndex(k)
			if !bv.IsValid() {
				return fmt.Sprintf("%s: key %v missing", path, k)
			}
			if d := c37Diff(a.MapIndex(k), bv, fmt.Sprintf("%s[%v]", path, k)); d != "" {
				return d
			}
		}
		return ""
	case reflect.Float32, reflect.Float64:
		fa, fb := a.Float(), b.Float()
		if fa != fb && !(math.IsNaN(fa) && math.IsNaN(fb)) {
			return fmt.Sprintf("%s: %v vs %v", path, fa, fb)
		}
		return ""
	case reflect.Bool:
		if a.Bool() != b.Bool() {
			return fmt.Sprintf("%s: %v vs %v", path, a.Bool(), b.Bool())
		}
		return ""
	case reflect.Int, reflect.Int8, reflect.Int16, reflect.Int32, reflect.Int64:
		if a.Int() != b.Int() {
			return fmt.Sprintf("%s: %d vs %d", path, a.Int(), b.Int())
		}
		return ""
	case reflect.Uint, reflect.Uint8, reflect.Uint16, reflect.Uint32, reflect.Uint64, reflect.Uintptr:
		if a.Uint() != b.Uint() {
			return fmt.Sprintf("%s: %d vs %d", path, a.Uint(), b.Uint())
		}
		return ""
	case reflect.String:
		if a.String() != b.String() {
			return fmt.Sprintf("%s: %q vs %q", path, a.String(), b.String())
		}
		return ""
	default:
		return fmt.Sprintf("%s: unsupported kind %s", path, a.Kind())
	}
}

// c37IsComponent reports whether t is one of the chat-component wrapper types
// (identified by package path, so this file has no import on them).
func c37IsComponent(t reflect.Type) bool {
	for t.Kind() == reflect.Ptr {
		t = t.Elem()
	}
	if t.PkgPath() == "go.minekube.com/gate/pkg/util/configutil" && (t.Name() == "Component" || t.Name() == "TextComponent") {
		return true
	}
	return false
}

// c37FlattenComponent renders a chat component JSON as the sequence of styled text
// runs a client would display: styles are inherited from the parent, adjacent
// runs with the same style are merged and empty runs dropped. Two components with
// the same flattening show the same text (the legacy '§' syntax used for YAML
// cannot express the nesting itself). Non-text content keeps its JSON.
func c37FlattenComponent(js string) string {
	var root any
	if err := json.Unmarshal([]byte(js), &root); err != nil {
		return "unparsable:" + js
	}
	type run struct{ style, text string }
	var runs []run
	var walk func(n any, inherited map[string]any)
	walk = func(n any, inherited map[string]any) {
		switch v := n.(type) {
		case string:
			sb, _ := json.Marshal(inherited)
			runs = append(runs, run{string(sb), v})
		case []any:
			for _, e := range v {
				walk(e, inherited)
			}
		case map[string]any:
			style := map[string]any{}
			for k, x := range inherited {
				style[k] = x
			}
			for k, x := range v {
				if k != "text" && k != "extra" {
					style[k] = x
				}
			}
			sb, _ := json.Marshal(style) // map keys are sorted by encoding/json
			if t, ok := v["text"].(string); ok {
				runs = append(runs, run{string(sb), t})
			} else if _, has := v["text"]; !has {
				rest := map[string]any{}
				for k, x := range v {
					if k != "extra" {
						rest[k] = x
					}
				}
				rb, _ := json.Marshal(rest)
				runs = append(runs, run{"raw", string(rb)})
			}
			if ex, ok := v["extra"]; ok {
				walk(ex, style)
			}
		default:
			b, _ := json.Marshal(v)
			runs = append(runs, run{"raw", string(b)})
		}
	}
	walk(root, map[string]any{})
	var out []run
	for _, r := range runs {
		if r.text == "" {
			continue
		}
		if len(out) > 0 && out[len(out)-1].style == r.style && r.style != "raw" {
			out[len(out)-1].text += r.text
			continue
		}
		out = append(out, r)
	}
	b, _ := json.Marshal(fmt.Sprint(out))
	return string(b)
}

func c37JSONOf(v reflect.Value) (string, error) {
	if v.Kind() == reflect.Ptr && v.IsNil() {
		return "<nil>", nil
	}
	if !v.CanInterface() {
		return "<unexported>", nil
	}
	x := v.Interface()
	if v.Kind() != reflect.Ptr && v.CanAddr() {
		x = v.Addr().Interface()
	}
	b, err := json.Marshal(x)
	return string(b), err
}

// c37StrictYAML decodes exactly like gate's decodeConfigStrict does for .yml files:
// known fields only, a single document.
func c37StrictYAML(b []byte, target any) error {
	dec := yaml.NewDecoder(bytes.NewReader(b))
	dec.KnownFields(true)
	if err := dec.Decode(target); err != nil {
		return err
	}
	var trailing any
	if err := dec.Decode(&trailing); !errors.Is(err, io.EOF) {
		if err == nil {
			return errors.New("multiple config documents")
		}
		return err
	}
	return nil
}

// c37StrictJSON decodes exactly like gate's decodeConfigStrict does for .json files.
func c37StrictJSON(b []byte, target any) error {
	dec := json.NewDecoder(bytes.NewReader(b))
	dec.DisallowUnknownFields()
	if err := dec.Decode(target); err != nil {
		return err
	}
	var trailing any
	if err := dec.Decode(&trailing); !errors.Is(err, io.EOF) {
		if err == nil {
			return errors.New("multiple config values")
		}
		return err
	}
	return nil
}
