//go:build verif

package config

import (
	"encoding/json"
	"reflect"
	"regexp"
	"strings"
	"testing"

	"gopkg.in/yaml.v3"

	jconfig "go.minekube.com/gate/pkg/edition/java/config"
	liteconfig "go.minekube.com/gate/pkg/edition/java/lite/config"
	"go.minekube.com/gate/pkg/internal/verifkit"
	"pgregory.net/rapid"
)

// C37 (root config): the root Validate must report an error exactly when the
// embedded Java configuration breaks a documented constraint, an enabled health
// service has no host:port bind, or the enabled API has an empty / malformed bind;
// accepted root configurations survive YAML / JSON strict round trips (the format
// of the config file and of the API's config snapshots).
//
// The Java part is one of a few fixed variants whose validity follows directly from
// the documentation (the Java unit of C37 explores that space in depth); this unit
// checks the composition: error propagation from the embedded config and the
// enabled/disabled gating of the root's own sections.

type c37RCase struct {
	Java          string `json:"java"`
	HealthEnabled bool   `json:"health_enabled"`
	HealthBind    string `json:"health_bind"`
	APIEnabled    bool   `json:"api_enabled"`
	APIBind       string `json:"api_bind"`
	NoAutoReload  bool   `json:"no_auto_reload"`
	ConnectOn     bool   `json:"connect_on"`
	ConnectName   string `json:"connect_name"`
}

// c37RJavaVariants: name -> (mutator, broken by documentation).
var c37RJavaVariants = map[string]struct {
	broken bool
	apply  func(*jconfig.Config)
}{
	"default":        {false, func(c *jconfig.Config) {}},
	"servers":        {false, func(c *jconfig.Config) { c.Servers["lobby"] = "localhost:25566"; c.Servers["s2"] = "[::1]:25567"; c.Try = []string{"lobby", "s2"} }},
	"offline-mode":   {false, func(c *jconfig.Config) { c.OnlineMode = false; c.Forwarding.Mode = jconfig.NoneForwardingMode }},
	"level-9":        {false, func(c *jconfig.Config) { c.Compression.Level = 9; c.Compression.Threshold = -1 }},
	"lite-ok":        {false, func(c *jconfig.Config) { c.Lite = liteconfig.Config{Enabled: true, Routes: []liteconfig.Route{{Host: []string{"*"}, Backend: []string{"10.0.0.10:25565"}}}} }},
	"bad-bind":       {true, func(c *jconfig.Config) { c.Bind = "localhost" }},
	"empty-bind":     {true, func(c *jconfig.Config) { c.Bind = "" }},
	"level-10":       {true, func(c *jconfig.Config) { c.Compression.Level = 10 }},
	"threshold--2":   {true, func(c *jconfig.Config) { c.Compression.Threshold = -2 }},
	"try-missing":    {true, func(c *jconfig.Config) { c.Try = []string{"missing"} }},
	"bad-forwarding": {true, func(c *jconfig.Config) { c.Forwarding.Mode = "modern" }},
	"quota-burst-0":  {true, func(c *jconfig.Config) { c.Quota.Logins.Burst = 0 }},
	"bad-trusted":    {true, func(c *jconfig.Config) { c.ProxyProtocolTrustedProxies = []string{"not-an-ip"} }},
	"lite-no-routes": {true, func(c *jconfig.Config) { c.Lite = liteconfig.Config{Enabled: true} }},
}

// c37RHostPort: 0 ok, 1 bad, 2 unsettled (same rules as the Java unit).
func c37RHostPort(s string) int {
	if s == "" {
		return 1
	}
	if strings.ContainsAny(s, " \t\r\n") {
		return 2
	}
	var host, port string
	if s[0] == '[' {
		end := strings.IndexByte(s, ']')
		if end < 0 {
			return 1
		}
		host = s[1:end]
		rest := s[end+1:]
		if rest == "" || rest[0] != ':' {
			return 1
		}
		port = rest[1:]
		if strings.ContainsAny(port, ":[]") {
			return 1
		}
	} else {
		if strings.Count(s, ":") != 1 {
			return 1
		}
		i := strings.IndexByte(s, ':')
		host, port = s[:i], s[i+1:]
	}
	if strings.ContainsAny(host, "[]") {
		return 1
	}
	if port == "" || len(port) > 5 {
		return 2
	}
	n := 0
	for i := 0; i < len(port); i++ {
		if port[i] < '0' || port[i] > '9' {
			return 2
		}
		n = n*10 + int(port[i]-'0')
	}
	if n > 65535 {
		return 2
	}
	return 0
}

func c37RBuild(c c37RCase) (Config, bool, bool) {
	v, ok := c37RJavaVariants[c.Java]
	if !ok {
		return Config{}, false, false
	}
	cfg := DefaultConfig
	j := jconfig.DefaultConfig
	j.Servers = map[string]string{}
	j.Try = nil
	j.ForcedHosts = jconfig.ForcedHosts{}
	j.Lite = liteconfig.Config{}
	j.ProxyProtocolTrustedProxies = nil
	v.apply(&j)
	cfg.Config = j
	cfg.HealthService = HealthService{Enabled: c.HealthEnabled, Bind: c.HealthBind}
	cfg.API.Enabled = c.APIEnabled
	cfg.API.Config.Bind = c.APIBind
	cfg.NoAutoReload = c.NoAutoReload
	cfg.Connect.Enabled = c.ConnectOn
	cfg.Connect.Name = c.ConnectName
	return cfg, v.broken, true
}

func c37RRun(c c37RCase) verifkit.Result {
	cfg, javaBroken, ok := c37RBuild(c)
	if !ok {
		return verifkit.Result{Labels: []string{"out-of-domain"}}
	}
	var broken []string
	unsettled := false
	if javaBroken {
		broken = append(broken, "java")
	}
	if c.HealthEnabled {
		switch c37RHostPort(c.HealthBind) {
		case 1:
			broken = append(broken, "health-bind")
		case 2:
			unsettled = true
		}
	}
	if c.APIEnabled {
		if strings.TrimSpace(c.APIBind) == "" {
			broken = append(broken, "api-bind")
		} else {
			switch c37RHostPort(c.APIBind) {
			case 1:
				broken = append(broken, "api-bind")
			case 2:
				unsettled = true
			}
		}
	}
	_, errs := cfg.Validate()
	labels := []string{"java:" + c.Java}
	if unsettled {
		labels = append(labels, "not-judged")
	} else {
		switch {
		case len(broken) > 0 && len(errs) == 0:
			return verifkit.Fail("root-validate:accepts-broken:"+broken[0], "broken %v but root Validate reported no error: %+v", broken, c)
		case len(broken) == 0 && len(errs) > 0:
			return verifkit.Fail("root-validate:rejects-valid", "nothing documented is broken but root Validate reported %v: %+v", errs, c)
		}
		// every error of the embedded Java config must surface (prefixed), none may be lost
		if javaBroken {
			found := false
			for _, e := range errs {
				if strings.HasPrefix(e.Error(), "java: ") {
					found = true
				}
			}
			if !found {
				return verifkit.Fail("root-validate:java-error-lost", "the Java config is broken (%s) but no java-prefixed error was reported: %v", c.Java, errs)
			}
		}
	}
	for _, b := range broken {
		labels = append(labels, "broken:"+b)
	}
	if len(errs) == 0 {
		labels = append(labels, "accepted")
		type codec struct {
			name    string
			marshal func(any) ([]byte, error)
			decode  func([]byte, any) error
		}
		for _, cd := range []codec{{"yaml", yaml.Marshal, c37StrictYAML}, {"json", json.Marshal, c37StrictJSON}} {
			b, err := cd.marshal(&cfg)
			if err != nil {
				return verifkit.Fail("root-roundtrip:"+cd.name+"-encode", "accepted root config cannot be serialised as %s: %v", cd.name, err)
			}
			var out Config
			if err := cd.decode(b, &out); err != nil {
				return verifkit.Fail("root-roundtrip:"+cd.name+"-decode", "accepted root config serialised as %s does not load again (strict decode): %v\n%s", cd.name, err, c37RClip(b))
			}
			if _, errs := out.Validate(); len(errs) > 0 {
				return verifkit.Fail("root-roundtrip:"+cd.name+"-revalidate", "accepted root config is rejected after a %s round trip: %v", cd.name, errs)
			}
			if d := c37Diff(reflect.ValueOf(&cfg).Elem(), reflect.ValueOf(&out).Elem(), "Root"); d != "" {
				p := d
				if i := strings.Index(p, ":"); i >= 0 {
					p = p[:i]
				}
				p = regexp.MustCompile(`\[[^\]]*\]`).ReplaceAllString(p, "[]")
				return verifkit.Fail("root-roundtrip:"+cd.name+"-changed:"+p, "accepted root config changed by a %s round trip at %s\n%s", cd.name, d, c37RClip(b))
			}
		}
	} else {
		labels = append(labels, "rejected")
	}
	gated := (!c.HealthEnabled && c37RHostPort(c.HealthBind) == 1) || (!c.APIEnabled && (strings.TrimSpace(c.APIBind) == "" || c37RHostPort(c.APIBind) == 1))
	if gated {
		labels = append(labels, "disabled-section-with-bad-bind")
	}
	return verifkit.Result{NonTrivial: !unsettled && (gated || len(broken) > 0), Labels: labels}
}

func c37RClip(b []byte) string {
	s := regexp.MustCompile(`data:image/png;base64,[A-Za-z0-9+/=]{64,}`).ReplaceAllString(string(b), "data:image/png;base64,...")
	if len(s) > 3000 {
		s = s[:3000] + "..."
	}
	return s
}

func TestVerif_C37(t *testing.T) {
	names := make([]string, 0, len(c37RJavaVariants))
	for n := range c37RJavaVariants {
		names = append(names, n)
	}
	// deterministic order for the generator
	for i := 1; i < len(names); i++ {
		for j := i; j > 0 && names[j] < names[j-1]; j-- {
			names[j], names[j-1] = names[j-1], names[j]
		}
	}
	okBinds := []string{"0.0.0.0:9090", "localhost:8080", "[::1]:8080", ":9090", "127.0.0.1:0"}
	badBinds := []string{"", "localhost", "127.0.0.1", "[::1]", "::1", "a:b:c", "[::1:8080"}
	verifkit.Check(t, "C37", "root-validate",
		"root config = one of 14 Java variants (5 valid, 9 breaking one documented constraint each) x health service on/off with good/bad bind x API on/off with good/empty/blank/bad bind x misc flags; errs != nil <=> Java variant broken or an enabled section has a bad bind; Java errors must surface with the java prefix; accepted root configs round-trip through YAML and JSON strict decoding; non-trivial = something broken, or a disabled section carrying a bad bind (must be ignored)",
		func(t *rapid.T) c37RCase {
			c := c37RCase{
				Java:          rapid.SampledFrom(names).Draw(t, "java"),
				HealthEnabled: rapid.Bool().Draw(t, "healthOn"),
				APIEnabled:    rapid.Bool().Draw(t, "apiOn"),
				NoAutoReload:  rapid.Bool().Draw(t, "noAutoReload"),
				ConnectOn:     rapid.Bool().Draw(t, "connectOn"),
				ConnectName:   rapid.SampledFrom([]string{"", "my-endpoint", "true", "123"}).Draw(t, "connectName"),
			}
			if rapid.IntRange(0, 2).Draw(t, "favourValidJava") != 0 {
				c.Java = rapid.SampledFrom([]string{"default", "servers", "offline-mode", "level-9", "lite-ok"}).Draw(t, "validJava")
			}
			if rapid.IntRange(0, 3).Draw(t, "healthBad") == 0 {
				c.HealthBind = rapid.SampledFrom(badBinds).Draw(t, "healthBind")
			} else {
				c.HealthBind = rapid.SampledFrom(okBinds).Draw(t, "healthBind")
			}
			if rapid.IntRange(0, 3).Draw(t, "apiBad") == 0 {
				c.APIBind = rapid.SampledFrom(append([]string{" ", "\t"}, badBinds...)).Draw(t, "apiBind")
			} else {
				c.APIBind = rapid.SampledFrom(okBinds).Draw(t, "apiBind")
			}
			return c
		}, c37RRun)
}
