//go:build verif

package gate

// C36, sub-check "api-apply": the merge result is what takes effect. The main C36
// check compares mergeConfigPatch with a reference RFC 7396 implementation; the
// API then hands the merged candidate to the live-apply gate. Here a merge patch
// goes through the real ConfigHandlerImpl.ApplyConfig of a real Gate: when the
// call succeeds, the effective configuration afterwards must be the reference
// merge of the configuration before and the patch - a member of the patch may be
// refused (restart-required) but never dropped silently.

import (
	"context"
	"encoding/json"
	"testing"

	"pgregory.net/rapid"

	pb "go.minekube.com/gate/pkg/internal/api/gen/minekube/gate/v1"
	"go.minekube.com/gate/pkg/internal/verifkit"
)

type c36aCase struct {
	Init   []int  `json:"init"`
	Routes []int  `json:"routes"`          // the patch replaces the Lite routes with these (nil: leaves them alone)
	Extra  string `json:"extra,omitempty"` // a further member of the patch (JSON object text) outside the Lite routes
}

func c36aDoc(g *Gate) (any, string, error) {
	cfg, ver, err := g.ConfigSnapshot()
	if err != nil {
		return nil, "", err
	}
	b, err := canonicalConfigJSON(cfg)
	if err != nil {
		return nil, "", err
	}
	var doc any
	err = json.Unmarshal(b, &doc)
	return doc, ver, err
}

func c36aRun(c c36aCase) verifkit.Result {
	g, err := New(Options{Config: c35Base(c.Init)})
	if err != nil {
		return verifkit.Fail("api-apply:setup", "gate.New failed: %v", err)
	}
	before, ver, err := c36aDoc(g)
	if err != nil {
		return verifkit.Fail("api-apply:setup", "snapshot: %v", err)
	}
	patch := map[string]any{}
	if c.Extra != "" {
		if err := json.Unmarshal([]byte(c.Extra), &patch); err != nil {
			return verifkit.Result{Inconclusive: true, Labels: []string{"invalid-case"}}
		}
	}
	if c.Routes != nil {
		rp, err := c35RoutesPatch(c35Build(c.Init, c35Cand{Routes: c.Routes}))
		if err != nil {
			return verifkit.Result{Inconclusive: true, Labels: []string{"invalid-case"}}
		}
		var routesPatch map[string]any
		_ = json.Unmarshal([]byte(rp), &routesPatch)
		c36DeepMergeInto(patch, routesPatch)
	}
	if len(patch) == 0 {
		return verifkit.Result{Inconclusive: true, Labels: []string{"invalid-case"}}
	}
	patchJSON, _ := json.Marshal(patch)
	want := c36RefMerge(c36Clone(before), c36Clone(patch))

	labels := []string{}
	if c.Extra != "" {
		labels = append(labels, "patch-touches-more-than-routes")
	}
	_, aerr := NewConfigHandler(g, "").ApplyConfig(context.Background(), &pb.ApplyConfigRequest{IfMatch: ver, Input: &pb.ApplyConfigRequest_MergePatch{MergePatch: string(patchJSON)}})
	after, _, err := c36aDoc(g)
	if err != nil {
		return verifkit.Fail("api-apply:snapshot", "snapshot after the call: %v", err)
	}
	if aerr != nil {
		// refused: nothing may have changed
		if c36JSON(after) != c36JSON(before) {
			return verifkit.Fail("api-apply:refused-but-changed", "ApplyConfig refused the patch %s (%v) but the effective configuration changed:\n%s", patchJSON, aerr, c36Diff(c36JSON(before), c36JSON(after)))
		}
		return verifkit.Result{Labels: append(labels, "refused")}
	}
	if c36JSON(after) != c36JSON(want) {
		return verifkit.Fail("api-apply:merge-result-not-effective",
			"ApplyConfig accepted the merge patch %s, but the effective configuration afterwards is not the RFC 7396 merge of the previous configuration and the patch:\n%s", patchJSON, c36Diff(c36JSON(want), c36JSON(after)))
	}
	return verifkit.Result{NonTrivial: true, Labels: append(labels, "applied")}
}

func c36aGen(t *rapid.T) c36aCase {
	c := c36aCase{Init: c35GenRoutes(t, "init", true)}
	if rapid.IntRange(0, 4).Draw(t, "touchRoutes") != 0 {
		c.Routes = c35GenRoutes(t, "routes", true)
		if c.Routes == nil {
			c.Routes = []int{}
		}
	}
	extras := []string{"",
		`{"connect":{"name":"c36a-renamed"}}`,
		`{"healthService":{"enabled":true}}`,
		`{"config":{"debug":true}}`,
		`{"config":{"bind":"127.0.0.1:25599"}}`,
		`{"config":{"servers":{"c36a":"127.0.0.1:25598"}}}`,
		`{"api":{"enabled":true}}`,
		`{"config":{"lite":{"enabled":true}}}`,
	}
	c.Extra = rapid.SampledFrom(extras).Draw(t, "extra")
	if c.Routes == nil && c.Extra == "" {
		c.Routes = c35GenRoutes(t, "routes2", true)
		if c.Routes == nil {
			c.Routes = []int{}
		}
	}
	return c
}

func TestVerif_C36API(t *testing.T) {
	verifkit.Check(t, "C36", "api-apply",
		"a real Gate in Lite mode and the real ConfigHandlerImpl.ApplyConfig with a JSON Merge Patch and the current version as if_match: the patch replaces the Lite routes (valid routes from a pool of 6) and/or carries one member outside the routes (connect.name, healthService.enabled, api.enabled, config.debug, config.bind, config.servers, or the no-op config.lite.enabled=true); oracle: if the call is refused the effective configuration (canonical JSON of ConfigSnapshot) is unchanged, if it succeeds it equals the reference RFC 7396 merge of the previous configuration and the patch - no member of an accepted patch is dropped; non-trivial = the patch was applied",
		c36aGen, c36aRun)
}
