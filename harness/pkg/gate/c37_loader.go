//go:build verif

package gate

// C37, sub-check "loader-roundtrip": the serialize-and-reload clause through the
// real loaders. The main C37 check serialises and parses config values itself;
// here an accepted configuration (server names with upper-case letters, try list,
// forced hosts with lower-case host keys) is written as YAML and read back with
// LoadConfig and with the live-reload loader: it must still validate and its
// servers, try list and forced hosts must be what was written.

import (
	"fmt"
	"os"
	"path/filepath"
	"reflect"
	"sort"
	"testing"

	"github.com/spf13/viper"
	"pgregory.net/rapid"

	"go.minekube.com/gate/pkg/internal/verifkit"
)

type c37lCase struct {
	Servers []string         `json:"servers"`
	Try     []int            `json:"try"`
	Forced  map[string][]int `json:"forced"` // host -> server indices
	Live    bool             `json:"live"`
}

func c37lRun(c c37lCase) verifkit.Result {
	if len(c.Servers) == 0 {
		return verifkit.Result{Inconclusive: true, Labels: []string{"invalid-case"}}
	}
	dir, err := os.MkdirTemp(verifkit.WorkDir(), "c37l-")
	if err != nil {
		return verifkit.Result{Inconclusive: true, Labels: []string{"inconclusive:tmpdir"}}
	}
	defer os.RemoveAll(dir)
	y := "config:\n  bind: 127.0.0.1:25565\n  servers:\n"
	wantServers := map[string]string{}
	for i, s := range c.Servers {
		addr := fmt.Sprintf("127.0.0.1:%d", 25566+i)
		y += fmt.Sprintf("    %s: %s\n", s, addr)
		wantServers[s] = addr
	}
	var wantTry []string
	y += "  try:\n"
	for _, i := range c.Try {
		n := c.Servers[((i%len(c.Servers))+len(c.Servers))%len(c.Servers)]
		wantTry = append(wantTry, n)
		y += "    - " + n + "\n"
	}
	if len(c.Try) == 0 {
		y += "    - " + c.Servers[0] + "\n"
		wantTry = []string{c.Servers[0]}
	}
	wantForced := map[string][]string{}
	hosts := make([]string, 0, len(c.Forced))
	for h := range c.Forced {
		hosts = append(hosts, h)
	}
	sort.Strings(hosts)
	if len(hosts) > 0 {
		y += "  forcedHosts:\n"
	}
	for _, h := range hosts {
		y += fmt.Sprintf("    %q:\n", h)
		for _, i := range c.Forced[h] {
			n := c.Servers[((i%len(c.Servers))+len(c.Servers))%len(c.Servers)]
			wantForced[h] = append(wantForced[h], n)
			y += "      - " + n + "\n"
		}
	}
	path := filepath.Join(dir, "config.yml")
	if err := os.WriteFile(path, []byte(y), 0o600); err != nil {
		return verifkit.Result{Inconclusive: true, Labels: []string{"inconclusive:write"}}
	}
	v := viper.New()
	v.SetConfigFile(path)
	var (
		gotServers map[string]string
		gotTry     []string
		gotForced  map[string][]string
		errsV      []error
	)
	if c.Live {
		cfg, err := loadLiveConfigCandidate(v, path)
		if err != nil {
			return verifkit.Fail("loader-roundtrip:load-error", "the live loader rejects an accepted configuration: %v\n%s", err, y)
		}
		gotServers, gotTry, gotForced = cfg.Config.Servers, cfg.Config.Try, cfg.Config.ForcedHosts
		_, errsV = cfg.Validate()
	} else {
		cfg, err := LoadConfig(v)
		if err != nil {
			return verifkit.Fail("loader-roundtrip:load-error", "LoadConfig rejects an accepted configuration: %v\n%s", err, y)
		}
		gotServers, gotTry, gotForced = cfg.Config.Servers, cfg.Config.Try, cfg.Config.ForcedHosts
		_, errsV = cfg.Validate()
	}
	if len(errsV) != 0 {
		return verifkit.Fail("loader-roundtrip:no-longer-valid", "a configuration that is valid as written does not validate after the loader read it: %v\n%s", errsV, y)
	}
	if len(gotForced) == 0 {
		gotForced = map[string][]string{}
	}
	if !reflect.DeepEqual(gotServers, wantServers) || !reflect.DeepEqual(gotTry, wantTry) || !reflect.DeepEqual(gotForced, wantForced) {
		return verifkit.Fail("loader-roundtrip:changed", "the loader changed the configuration: servers %v try %v forcedHosts %v, written %v %v %v", gotServers, gotTry, gotForced, wantServers, wantTry, wantForced)
	}
	upper := false
	for _, s := range c.Servers {
		for _, r := range s {
			upper = upper || (r >= 'A' && r <= 'Z')
		}
	}
	return verifkit.Result{NonTrivial: upper && len(wantForced) > 0, Labels: []string{fmt.Sprintf("live:%v", c.Live), fmt.Sprintf("upper-case-server-name:%v", upper)}}
}

func TestVerif_C37L(t *testing.T) {
	verifkit.Check(t, "C37", "loader-roundtrip",
		"accepted configurations (1-4 servers named from {lobby, Lobby, Hub1, survival_2, PvP, a}, try list, 0-3 forced hosts with lower-case host keys referring to them) written as YAML and read back through LoadConfig or the live-reload loader; oracle: still validates, and servers / try / forced hosts are exactly what was written; non-trivial = a server name with an upper-case letter is referenced by a forced host",
		func(t *rapid.T) c37lCase {
			names := rapid.SliceOfNDistinct(rapid.SampledFrom([]string{"lobby", "Lobby2", "Hub1", "survival_2", "PvP", "a"}), 1, 4, rapid.ID[string]).Draw(t, "servers")
			c := c37lCase{Servers: names, Live: rapid.Bool().Draw(t, "live"), Forced: map[string][]int{}}
			c.Try = rapid.SliceOfNDistinct(rapid.IntRange(0, len(names)-1), 0, len(names), rapid.ID[int]).Draw(t, "try")
			nh := rapid.IntRange(0, 3).Draw(t, "hosts")
			for i := 0; i < nh; i++ {
				h := rapid.SampledFrom([]string{"play.example.com", "hub.example.org", "mc.example.net", "*.wild.example.com"}).Draw(t, "host")
				c.Forced[h] = rapid.SliceOfNDistinct(rapid.IntRange(0, len(names)-1), 1, len(names), rapid.ID[int]).Draw(t, "targets")
			}
			return c
		}, c37lRun)
}
