//go:build verif

package floodgate

// C39: Floodgate identity data is authentic and interoperable with Floodgate.
//
// The reference below is a re-implementation of Floodgate's own Java classes
// written from their source semantics, independent of cipher.go/floodgate.go:
//
//   - FloodgateCipher: IDENTIFIER "^Floodgate^", VERSION 0, HEADER = IDENTIFIER + (char)(VERSION+0x3E);
//     checkHeader (length > header, identifier bytes equal), version(data) = data[11]-0x3E.
//   - AesCipher.encrypt: 12-byte IV, AES/GCM/NoPadding with a 128-bit tag, output
//     HEADER ‖ topping(iv) ‖ 0x21 ‖ topping(ct‖tag);  decrypt: scan for the first 0x21
//     after the header, topping-decode both parts, GCM open.
//   - Base64Topping: java.util.Base64 basic encoder/decoder (padding written; on decoding no
//     character outside the alphabet is tolerated, padding optional, trailing bits not checked).
//   - BedrockData.toString/fromString: 12 fields joined by '\0'; String.split drops trailing
//     empty strings; ints through Integer.parseInt; fromProxy = "1".equals(..).
//   - backend handshake handling: hostname.split("\0"), the first part carrying the
//     identifier is the data, the other parts joined by '\0' are the hostname.
//
// Trusted: crypto/aes + crypto/cipher (GCM) of the Go standard library as AES/GCM/NoPadding.

import (
	"bytes"
	"crypto/aes"
	"crypto/cipher"
	"encoding/binary"
	"errors"
	"fmt"
	"strconv"
	"strings"
	"testing"
	"unicode/utf8"

	"go.minekube.com/gate/pkg/internal/verifkit"
	"pgregory.net/rapid"
)

// ---------------------------------------------------------------- reference

const c39B64 = "ABCDEFGHIJKLMNOPQRSTUVWXYZabcdefghijklmnopqrstuvwxyz0123456789+/"

var c39RefHeader = []byte{'^', 'F', 'l', 'o', 'o', 'd', 'g', 'a', 't', 'e', '^', 0x3E}

func c39B64Encode(b []byte) []byte {
	var out []byte
	for i := 0; i < len(b); i += 3 {
		var v uint32
		n := len(b) - i
		if n > 3 {
			n = 3
		}
		for j := 0; j < 3; j++ {
			v <<= 8
			if j < n {
				v |= uint32(b[i+j])
			}
		}
		out = append(out, c39B64[v>>18&63], c39B64[v>>12&63])
		if n > 1 {
			out = append(out, c39B64[v>>6&63])
		} else {
			out = append(out, '=')
		}
		if n > 2 {
			out = append(out, c39B64[v&63])
		} else {
			out = append(out, '=')
		}
	}
	return out
}

// c39B64Decode decodes standard-alphabet base64. skipNL: ignore '\r' and '\n'
// (Go's decoder does, Java's basic decoder does not). Padding is optional and
// unused trailing bits are not checked (Java semantics; superset of Go's).
func c39B64Decode(s []byte, skipNL bool) ([]byte, error) {
	var sym []byte
	pad := 0
	for _, ch := range s {
		if skipNL && (ch == '\r' || ch == '\n') {
			continue
		}
		if ch == '=' {
			pad++
			continue
		}
		if pad > 0 {
			return nil, errors.New("data after padding")
		}
		i := strings.IndexByte(c39B64, ch)
		if i < 0 {
			return nil, fmt.Errorf("illegal base64 character %#x", ch)
		}
		sym = append(sym, byte(i))
	}
	rem := len(sym) % 4
	if rem == 1 {
		return nil, errors.New("dangling base64 unit")
	}
	if pad > 0 && (rem == 0 || pad != 4-rem) {
		return nil, errors.New("wrong padding")
	}
	var out []byte
	for i := 0; i+1 < len(sym); i += 4 {
		n := len(sym) - i
		if n > 4 {
			n = 4
		}
		var v uint32
		for j := 0; j < 4; j++ {
			v <<= 6
			if j < n {
				v |= uint32(sym[i+j])
			}
		}
		out = append(out, byte(v>>16))
		if n > 2 {
			out = append(out, byte(v>>8))
		}
		if n > 3 {
			out = append(out, byte(v))
		}
	}
	return out, nil
}

func c39GCM(key []byte) (cipher.AEAD, error) {
	b, err := aes.NewCipher(key)
	if err != nil {
		return nil, err
	}
	return cipher.NewGCM(b)
}

// c39RefEncrypt is AesCipher.encrypt with Base64Topping and a caller-chosen IV.
func c39RefEncrypt(key, iv, plain []byte) []byte {
	g, err := c39GCM(key)
	if err != nil {
		panic(err)
	}
	ct := g.Seal(nil, iv, plain, nil)
	out := append([]byte{}, c39RefHeader...)
	out = append(out, c39B64Encode(iv)...)
	out = append(out, 0x21)
	out = append(out, c39B64Encode(ct)...)
	return out
}

// c39RefSplit returns the raw iv and ct‖tag of an encoded blob.
func c39RefSplit(data []byte, skipNL bool) (iv, ct []byte, err error) {
	// checkHeader + version
	if len(data) <= len(c39RefHeader) {
		return nil, nil, errors.New("data length is smaller than header")
	}
	if !bytes.Equal(data[:11], c39RefHeader[:11]) {
		return nil, nil, errors.New("header doesn't match")
	}
	if int(data[11])-0x3E != 0 {
		return nil, nil, errors.New("unsupported data version")
	}
	body := data[len(c39RefHeader):]
	sp := bytes.IndexByte(body, 0x21)
	if sp < 0 {
		return nil, nil, errors.New("no splitter")
	}
	if iv, err = c39B64Decode(body[:sp], skipNL); err != nil {
		return nil, nil, err
	}
	if ct, err = c39B64Decode(body[sp+1:], skipNL); err != nil {
		return nil, nil, err
	}
	return iv, ct, nil
}

// c39RefDecrypt is AesCipher.decrypt (+ the version check of the handshake handler).
func c39RefDecrypt(key, data []byte, skipNL bool) ([]byte, error) {
	iv, ct, err := c39RefSplit(data, skipNL)
	if err != nil {
		return nil, err
	}
	if len(iv) != 12 {
		// javax.crypto accepts other IV lengths for GCM; Floodgate's encoder never
		// produces them. The reference rejects so that it never panics itself.
		return nil, errors.New("iv length")
	}
	g, err := c39GCM(key)
	if err != nil {
		return nil, err
	}
	return g.Open(nil, iv, ct, nil)
}

// c39Fields is the BedrockData record in the harness' own terms.
type c39Fields struct {
	Version      string `json:"version"`
	Username     string `json:"username"`
	Xuid         int64  `json:"xuid"`
	DeviceOS     int    `json:"device_os"`
	Language     string `json:"language"`
	UIProfile    int    `json:"ui_profile"`
	InputMode    int    `json:"input_mode"`
	IP           string `json:"ip"`
	LinkedPlayer string `json:"linked_player"`
	Proxy        bool   `json:"proxy"`
	SubscribeID  string `json:"subscribe_id"`
	VerifyCode   string `json:"verify_code"`
}

// c39RefToString is BedrockData.toString().
func c39RefToString(f c39Fields) string {
	p := "0"
	if f.Proxy {
		p = "1"
	}
	return f.Version + "\x00" + f.Username + "\x00" + strconv.FormatInt(f.Xuid, 10) + "\x00" +
		strconv.Itoa(f.DeviceOS) + "\x00" + f.Language + "\x00" + strconv.Itoa(f.UIProfile) + "\x00" +
		strconv.Itoa(f.InputMode) + "\x00" + f.IP + "\x00" + f.LinkedPlayer + "\x00" + p + "\x00" +
		f.SubscribeID + "\x00" + f.VerifyCode
}

// c39JavaSplit is String.split("\0"): trailing empty strings are removed.
func c39JavaSplit(s string) []string {
	parts := strings.Split(s, "\x00")
	for len(parts) > 1 && parts[len(parts)-1] == "" {
		parts = parts[:len(parts)-1]
	}
	return parts
}

func c39ParseInt(s string, bits int) (int, error) {
	v, err := strconv.ParseInt(s, 10, bits)
	return int(v), err
}

// c39RefFromString is BedrockData.fromString(). javaSplit selects Java's
// trailing-empty-dropping split (interop direction) or a plain split (used as a
// lenient authenticity reference for hostile inputs).
func c39RefFromString(s string, javaSplit bool) (c39Fields, error) {
	var parts []string
	if javaSplit {
		parts = c39JavaSplit(s)
	} else {
		parts = strings.Split(s, "\x00")
	}
	if len(parts) != 12 {
		return c39Fields{}, fmt.Errorf("expected 12 parts, got %d", len(parts))
	}
	bits := 64 // lenient reference: whatever fits a Go int
	if javaSplit {
		bits = 32 // Integer.parseInt
	}
	var f c39Fields
	var err error
	f.Version, f.Username = parts[0], parts[1]
	if f.Xuid, err = strconv.ParseInt(parts[2], 10, 64); err != nil {
		return f, err
	}
	if f.DeviceOS, err = c39ParseInt(parts[3], bits); err != nil {
		return f, err
	}
	f.Language = parts[4]
	if f.UIProfile, err = c39ParseInt(parts[5], bits); err != nil {
		return f, err
	}
	if f.InputMode, err = c39ParseInt(parts[6], bits); err != nil {
		return f, err
	}
	f.IP, f.LinkedPlayer, f.Proxy = parts[7], parts[8], parts[9] == "1"
	if javaSplit {
		if _, err = c39ParseInt(parts[10], bits); err != nil {
			return f, err
		}
	}
	f.SubscribeID, f.VerifyCode = parts[10], parts[11]
	return f, nil
}

// c39RefReadHostname is the backend handshake handling of Floodgate.
func c39RefReadHostname(key []byte, hostname string) (string, c39Fields, error) {
	var rest []string
	data := ""
	found := false
	for _, p := range c39JavaSplit(hostname) {
		if !found && len(p) > len(c39RefHeader) && strings.HasPrefix(p, string(c39RefHeader[:11])) {
			data, found = p, true
			continue
		}
		rest = append(rest, p)
	}
	if !found {
		return "", c39Fields{}, errors.New("no floodgate data in hostname")
	}
	plain, err := c39RefDecrypt(key, []byte(data), false)
	if err != nil {
		return "", c39Fields{}, err
	}
	if !utf8.Valid(plain) {
		return "", c39Fields{}, errors.New("plaintext not UTF-8")
	}
	f, err := c39RefFromString(string(plain), true)
	return strings.Join(rest, "\x00"), f, err
}

func c39FromGate(d *BedrockData) c39Fields {
	return c39Fields{Version: d.Version, Username: d.Username, Xuid: d.Xuid, DeviceOS: d.DeviceOS.ID,
		Language: d.Language, UIProfile: d.UIProfile, InputMode: d.InputMode, IP: d.IP,
		LinkedPlayer: d.LinkedPlayer, Proxy: d.Proxy, SubscribeID: d.SubscribeID, VerifyCode: d.VerifyCode}
}

func c39ToGate(f c39Fields) *BedrockData {
	return &BedrockData{Version: f.Version, Username: f.Username, Xuid: f.Xuid, DeviceOS: DeviceOSFromID(f.DeviceOS),
		Language: f.Language, UIProfile: f.UIProfile, InputMode: f.InputMode, IP: f.IP,
		LinkedPlayer: f.LinkedPlayer, Proxy: f.Proxy, SubscribeID: f.SubscribeID, VerifyCode: f.VerifyCode}
}

// ---------------------------------------------------------------- case

type c39Mut struct {
	// Kind: subst | trunc | ivlen | swap | extrabang | nul | insert | delete | rawflip | dontcare | otherkey | none
	Kind string `json:"kind"`
	Pos  int    `json:"pos"`   // position (taken modulo the relevant length)
	Byte byte   `json:"byte"`  // replacement / inserted byte / xor mask for rawflip
	Data []byte `json:"data"`  // extra bytes (new IV, junk)
}

type c39Case struct {
	// Mode: decode (reference-encoded -> Gate), encode (Gate-encoded -> reference),
	// tamper (reference-encoded, mutated -> Gate), raw (arbitrary hostname -> Gate; fuzz)
	Mode     string    `json:"mode"`
	Key      []byte    `json:"key"`
	OtherKey []byte    `json:"other_key,omitempty"`
	IV       []byte    `json:"iv,omitempty"`
	Host     string    `json:"host"`
	Port     string    `json:"port,omitempty"` // "" or ":<digits>", appended after the data
	Fields   c39Fields `json:"fields"`
	Mut      c39Mut    `json:"mut"`
	Raw      []byte    `json:"raw,omitempty"` // raw mode: the whole hostname
}

// c39Call runs ReadHostname and converts a panic into a keyed violation.
func c39Call(fg *Floodgate, hostname string) (orig string, bd *BedrockData, err error, v *verifkit.Violation) {
	defer func() {
		if p := recover(); p != nil {
			msg := fmt.Sprint(p)
			key := "panic:ReadHostname:other"
			if strings.Contains(msg, "incorrect nonce length") {
				key = "panic:Decrypt:gcm-nonce-length"
			}
			v = verifkit.Violationf(key, "ReadHostname panicked on a %d-byte hostname: %v", len(hostname), msg)
		}
	}()
	orig, bd, err = fg.ReadHostname(hostname)
	return
}

func c39KeyLabel(k []byte) string { return fmt.Sprintf("key-%d", len(k)) }

func c39FieldLabels(f c39Fields) (labels []string, nt bool) {
	for _, s := range []string{f.Version, f.Username, f.Language, f.IP, f.LinkedPlayer, f.SubscribeID, f.VerifyCode} {
		if len(s) != utf8.RuneCountInString(s) {
			labels = append(labels, "non-ascii-field")
			nt = true
			break
		}
	}
	if f.LinkedPlayer == "" || f.Version == "" || f.Language == "" || f.IP == "" || f.VerifyCode == "" {
		labels = append(labels, "empty-field")
		nt = true
	}
	if f.Xuid < 0 {
		labels = append(labels, "negative-xuid")
	}
	if f.Proxy {
		labels = append(labels, "from-proxy")
	}
	return
}

// c39Mutate applies the mutation to enc (a reference-encoded blob).
// region: header | iv | splitter | ct | structural | none.
func c39Mutate(enc []byte, iv []byte, key []byte, plain []byte, m c39Mut) (out []byte, region string) {
	hl := len(c39RefHeader)
	sp := hl + bytes.IndexByte(enc[hl:], 0x21)
	regionOf := func(p int) string {
		switch {
		case p < hl:
			return "header"
		case p < sp:
			return "iv"
		case p == sp:
			return "splitter"
		default:
			return "ct"
		}
	}
	mod := func(p, n int) int {
		if n <= 0 {
			return 0
		}
		p %= n
		if p < 0 {
			p += n
		}
		return p
	}
	switch m.Kind {
	case "subst":
		p := mod(m.Pos, len(enc))
		out = bytes.Clone(enc)
		b := m.Byte
		if b == enc[p] {
			b ^= 1
		}
		out[p] = b
		return out, regionOf(p)
	case "insert":
		p := mod(m.Pos, len(enc)+1)
		out = append(append(bytes.Clone(enc[:p]), m.Byte), enc[p:]...)
		if p == len(enc) {
			return out, "ct"
		}
		return out, regionOf(p)
	case "delete":
		p := mod(m.Pos, len(enc))
		out = append(bytes.Clone(enc[:p]), enc[p+1:]...)
		return out, regionOf(p)
	case "trunc":
		p := mod(m.Pos, len(enc)) // keep p < len(enc) bytes
		return bytes.Clone(enc[:p]), "structural"
	case "ivlen":
		// re-encode with an IV of another length (raw bytes from Data; if it is 12 long, drop one)
		niv := bytes.Clone(m.Data)
		if len(niv) == 12 {
			niv = niv[:11]
		}
		out = append([]byte{}, c39RefHeader...)
		out = append(out, c39B64Encode(niv)...)
		out = append(out, enc[sp:]...)
		return out, "iv"
	case "ivlen-sealed":
		// a blob properly sealed under the right key with a non-12-byte nonce
		// (javax.crypto permits this; Floodgate never produces it)
		niv := bytes.Clone(m.Data)
		if len(niv) == 12 || len(niv) == 0 {
			niv = append(niv, 0x55)
		}
		blk, _ := aes.NewCipher(key)
		g, err := cipher.NewGCMWithNonceSize(blk, len(niv))
		if err != nil {
			return nil, "none"
		}
		ct := g.Seal(nil, niv, plain, nil)
		out = append([]byte{}, c39RefHeader...)
		out = append(out, c39B64Encode(niv)...)
		out = append(out, 0x21)
		out = append(out, c39B64Encode(ct)...)
		return out, "iv"
	case "swap":
		out = append([]byte{}, c39RefHeader...)
		out = append(out, enc[sp+1:]...)
		out = append(out, 0x21)
		out = append(out, enc[hl:sp]...)
		return out, "structural"
	case "extrabang":
		out = append(bytes.Clone(enc), 0x21)
		out = append(out, c39B64Encode(m.Data)...)
		return out, "structural"
	case "nul":
		p := mod(m.Pos, len(enc)+1)
		out = append(append(bytes.Clone(enc[:p]), 0), enc[p:]...)
		out = append(out, m.Data...)
		return out, "structural"
	case "rawflip":
		// flip bits in one raw byte of iv / ct‖tag and re-encode canonically
		_, ct, _ := c39RefSplit(enc, false)
		raw := append(bytes.Clone(iv), ct...)
		p := mod(m.Pos, len(raw))
		x := m.Byte
		if x == 0 {
			x = 1
		}
		raw[p] ^= x
		out = append([]byte{}, c39RefHeader...)
		out = append(out, c39B64Encode(raw[:len(iv)])...)
		out = append(out, 0x21)
		out = append(out, c39B64Encode(raw[len(iv):])...)
		if p < len(iv) {
			return out, "iv"
		}
		return out, "ct"
	case "dontcare":
		// change only unused trailing bits of the last base64 symbol of the ct part
		out = bytes.Clone(enc)
		i := len(out) - 1
		npad := 0
		for i > sp && out[i] == '=' {
			i--
			npad++
		}
		if npad == 0 || i <= sp {
			return nil, "none"
		}
		idx := strings.IndexByte(c39B64, out[i])
		free := 2 * npad // 1 pad -> 2 free bits, 2 pads -> 4 free bits
		delta := int(m.Byte)%((1<<free)-1) + 1
		out[i] = c39B64[idx^delta]
		return out, "ct"
	}
	return nil, "none"
}

func c39Run(c c39Case) verifkit.Result {
	fg, err := NewFloodgate(bytes.Clone(c.Key))
	if err != nil {
		return verifkit.Fail("setup:NewFloodgate", "key of %d bytes rejected: %v", len(c.Key), err)
	}
	labels := []string{"mode-" + c.Mode, c39KeyLabel(c.Key)}
	if c.Port != "" {
		labels = append(labels, "port-suffix")
	}

	if c.Mode != "decode" && (c.Fields.DeviceOS < 0 || c.Fields.DeviceOS > 15) {
		// only the decode direction can meet a device id Gate has no name for
		c.Fields.DeviceOS = ((c.Fields.DeviceOS % 16) + 16) % 16
	}
	switch c.Mode {
	case "decode":
		enc := c39RefEncrypt(c.Key, c.IV, []byte(c39RefToString(c.Fields)))
		hostname := c.Host + "\x00" + string(enc) + c.Port
		orig, bd, err, v := c39Call(fg, hostname)
		if v != nil {
			return verifkit.Result{V: v}
		}
		if err != nil {
			return verifkit.Fail("decode:rejected-authentic", "Floodgate-encoded data rejected: %v (fields %+v)", err, c.Fields)
		}
		if bd == nil {
			return verifkit.Fail("decode:nil-data", "nil data without error")
		}
		want := c.Fields
		if want.DeviceOS < 0 || want.DeviceOS > 15 {
			want.DeviceOS = 0 // Floodgate's DeviceOs.fromId: an id without a name is UNKNOWN
			labels = append(labels, "device-os-id-without-name")
		}
		if got := c39FromGate(bd); got != want {
			return verifkit.Fail("decode:fields", "decoded fields differ:\n got  %+v\n want %+v", got, want)
		}
		if orig != c.Host {
			return verifkit.Fail("decode:hostname", "original hostname %q, want %q", orig, c.Host)
		}
		fl, nt := c39FieldLabels(c.Fields)
		return verifkit.Result{NonTrivial: nt || len(c.Key) != 16 || c.Port != "", Labels: append(labels, fl...)}

	case "encode":
		hostname, err := fg.WriteHostname(c.Host, c39ToGate(c.Fields))
		if err != nil {
			return verifkit.Fail("encode:error", "WriteHostname failed on NUL-free data: %v", err)
		}
		host, f, err := c39RefReadHostname(c.Key, hostname)
		if err != nil {
			return verifkit.Fail("encode:floodgate-rejects", "Floodgate's decoder rejects Gate's output: %v (fields %+v)", err, c.Fields)
		}
		if f != c.Fields {
			return verifkit.Fail("encode:fields", "Floodgate decodes different fields:\n got  %+v\n want %+v", f, c.Fields)
		}
		if host != c.Host {
			return verifkit.Fail("encode:hostname", "Floodgate sees hostname %q, want %q", host, c.Host)
		}
		// and under another key Floodgate must not be able to read it
		if len(c.OtherKey) > 0 && !bytes.Equal(c.OtherKey, c.Key) {
			if _, _, err := c39RefReadHostname(c.OtherKey, hostname); err == nil {
				return verifkit.Fail("encode:other-key-reads", "data written under one key opens under another")
			}
		}
		fl, nt := c39FieldLabels(c.Fields)
		return verifkit.Result{NonTrivial: nt || len(c.Key) != 16, Labels: append(labels, fl...)}

	case "tamper":
		plain := []byte(c39RefToString(c.Fields))
		enc := c39RefEncrypt(c.Key, c.IV, plain)
		labels = append(labels, "mut-"+c.Mut.Kind)
		useFg := fg
		var mutated []byte
		region := "none"
		if c.Mut.Kind == "otherkey" {
			if bytes.Equal(c.OtherKey, c.Key) || (len(c.OtherKey) != 16 && len(c.OtherKey) != 24 && len(c.OtherKey) != 32) {
				return verifkit.Result{Labels: append(labels, "noop")}
			}
			if useFg, err = NewFloodgate(bytes.Clone(c.OtherKey)); err != nil {
				return verifkit.Fail("setup:NewFloodgate", "other key rejected: %v", err)
			}
			mutated, region = enc, "key"
		} else {
			mutated, region = c39Mutate(enc, c.IV, c.Key, plain, c.Mut)
			if mutated == nil || bytes.Equal(mutated, enc) {
				return verifkit.Result{Labels: append(labels, "noop")}
			}
		}
		labels = append(labels, "region-"+region)
		hostname := c.Host + "\x00" + string(mutated) + c.Port
		_, bd, err, v := c39Call(useFg, hostname)
		if v != nil {
			return verifkit.Result{V: v, Labels: labels}
		}
		nt := region == "iv" || region == "ct"
		if err != nil {
			return verifkit.Result{NonTrivial: nt, Labels: append(labels, "rejected")}
		}
		// accepted
		if region == "key" {
			return verifkit.Fail("tamper:accepted-other-key", "data sealed under one key accepted under another")
		}
		if bd == nil {
			return verifkit.Fail("tamper:nil-data", "nil data without error")
		}
		if got := c39FromGate(bd); got != c.Fields {
			return verifkit.Fail("tamper:different-fields", "altered data (%s in %s) decoded to different fields:\n got  %+v\n orig %+v", c.Mut.Kind, region, got, c.Fields)
		}
		// Identical fields: only legitimate when the alteration did not change a
		// single authenticated bit (base64 don't-care bits / ignored line breaks).
		// What ReadHostname looks at is the part up to the first ':'.
		seen := mutated
		if i := bytes.IndexByte(seen, ':'); i >= 0 {
			seen = seen[:i]
		}
		if len(seen) < len(c39RefHeader) || !bytes.Equal(seen[:len(c39RefHeader)], c39RefHeader) {
			return verifkit.Fail("tamper:accepted-altered-header", "data with an altered header/version byte accepted (%s at %d)", c.Mut.Kind, c.Mut.Pos)
		}
		iv2, ct2, derr := c39RefSplit(seen, true)
		_, ct1, _ := c39RefSplit(enc, false)
		if derr != nil || !bytes.Equal(iv2, c.IV) || !bytes.Equal(ct2, ct1) {
			return verifkit.Fail("tamper:accepted-altered-bytes", "data whose iv/ciphertext/tag bytes differ from the sealed ones accepted (%s in %s; ref decode err=%v)", c.Mut.Kind, region, derr)
		}
		return verifkit.Result{NonTrivial: nt, Labels: append(labels, "accepted-dontcare-bits")}

	case "raw":
		hostname := string(c.Raw)
		_, bd, err, v := c39Call(fg, hostname)
		if v != nil {
			return verifkit.Result{V: v, Labels: labels}
		}
		if err != nil {
			return verifkit.Result{Labels: append(labels, "rejected")}
		}
		// accepted: must be authentic under the key — the lenient reference must
		// open it and read the same fields.
		parts := strings.Split(hostname, "\x00")
		if len(parts) != 2 {
			return verifkit.Fail("raw:accepted-malformed", "hostname with %d NUL-separated parts accepted", len(parts))
		}
		data := parts[1]
		if i := strings.IndexByte(data, ':'); i >= 0 {
			data = data[:i]
		}
		plain, derr := c39RefDecrypt(c.Key, []byte(data), true)
		if derr != nil {
			return verifkit.Fail("raw:accepted-unauthentic", "accepted data that the reference cannot authenticate: %v", derr)
		}
		f, perr := c39RefFromString(string(plain), false)
		if f.DeviceOS < 0 || f.DeviceOS > 15 {
			f.DeviceOS = 0 // DeviceOs.fromId: unknown ids map to UNKNOWN
		}
		if perr != nil || bd == nil || c39FromGate(bd) != f {
			return verifkit.Fail("raw:fields", "accepted data decodes differently: ref=%+v (err %v)", f, perr)
		}
		return verifkit.Result{NonTrivial: true, Labels: append(labels, "accepted-authentic")}
	}
	return verifkit.Fail("harness:mode", "unknown mode %q", c.Mode)
}

// ---------------------------------------------------------------- generators

func c39GenKey(t *rapid.T, label string) []byte {
	n := rapid.SampledFrom([]int{16, 16, 24, 32}).Draw(t, label+"Len")
	return rapid.SliceOfN(rapid.Byte(), n, n).Draw(t, label)
}

func c39GenText(t *rapid.T, label string, allowEmpty bool) string {
	min := 1
	if allowEmpty {
		min = 0
	}
	g := rapid.OneOf(
		rapid.StringOfN(rapid.RuneFrom([]rune("abcdefghijklmnopqrstuvwxyzABCDEFGHIJKLMNOPQRSTUVWXYZ0123456789_.- ")), min, 20, -1),
		rapid.StringOfN(rapid.RuneFrom([]rune("aZ09:;!=^>/+\n\t\\\"'%äßπ漢😀 \u0001\u007f")), min, 12, -1),
		rapid.StringN(min, 12, -1),
	)
	s := g.Draw(t, label)
	s = strings.ReplaceAll(s, "\x00", "0")
	if !utf8.ValidString(s) {
		s = strings.ToValidUTF8(s, "?")
	}
	if !allowEmpty && s == "" {
		s = "x"
	}
	return s
}

// c39GenFields draws a BedrockData record as Floodgate/Geyser produce it.
// interop: restrict to what survives Floodgate's own fromString (non-empty last
// field because String.split drops trailing empties; non-zero xuid because Gate's
// reader refuses 0, so such a record can never reach WriteHostname).
func c39GenFields(t *rapid.T, interop bool) c39Fields {
	var f c39Fields
	f.Version = rapid.OneOf(rapid.Just("1.21.50"), rapid.Just("1.20.0"), rapid.Just(""),
		rapid.Custom(func(t *rapid.T) string { return c39GenText(t, "version", true) })).Draw(t, "versionPick")
	f.Username = rapid.OneOf(
		rapid.StringOfN(rapid.RuneFrom([]rune("abcdefghijklmnopqrstuvwxyzABCDEFGHIJKLMNOPQRSTUVWXYZ0123456789_ ")), 1, 16, -1),
		rapid.Custom(func(t *rapid.T) string { return c39GenText(t, "username", false) })).Draw(t, "usernamePick")
	f.Xuid = rapid.OneOf(
		rapid.Int64Range(2535400000000000, 2535499999999999),
		rapid.Int64Range(1, 1<<62),
		rapid.SampledFrom([]int64{1, 9, 10, 281474976710655, 1<<63 - 1, -1, -(1 << 63)}),
	).Draw(t, "xuid")
	f.DeviceOS = rapid.OneOf(rapid.IntRange(0, 15), rapid.IntRange(0, 15), rapid.IntRange(0, 15),
		rapid.SampledFrom([]int{16, 17, -1, 15, 14, 100, 1<<31 - 1, -(1 << 31)})).Draw(t, "deviceOS")
	f.Language = rapid.OneOf(rapid.SampledFrom([]string{"en_US", "de_DE", "zh_CN", ""}),
		rapid.Custom(func(t *rapid.T) string { return c39GenText(t, "language", true) })).Draw(t, "languagePick")
	f.UIProfile = rapid.OneOf(rapid.IntRange(0, 1), rapid.IntRange(-3, 300), rapid.SampledFrom([]int{1<<31 - 1, -(1 << 31)})).Draw(t, "uiProfile")
	f.InputMode = rapid.OneOf(rapid.IntRange(0, 4), rapid.IntRange(-3, 300), rapid.SampledFrom([]int{1<<31 - 1, -(1 << 31)})).Draw(t, "inputMode")
	f.IP = rapid.OneOf(rapid.SampledFrom([]string{"127.0.0.1", "203.0.113.7", "2001:db8::1", "::1", ""}),
		rapid.Custom(func(t *rapid.T) string { return c39GenText(t, "ip", true) })).Draw(t, "ipPick")
	f.LinkedPlayer = rapid.OneOf(
		rapid.SampledFrom([]string{"null", "", "Steve;069a79f4-44e9-4726-a5be-fca90e38aaf5;00000000-0000-0000-0009-01f4e5c1a2b3"}),
		rapid.Custom(func(t *rapid.T) string { return c39GenText(t, "linked", true) })).Draw(t, "linkedPick")
	f.Proxy = rapid.Bool().Draw(t, "proxy")
	f.SubscribeID = strconv.Itoa(rapid.OneOf(rapid.IntRange(-1, 100000), rapid.SampledFrom([]int{1<<31 - 1, -(1 << 31), 0})).Draw(t, "subscribeID"))
	f.VerifyCode = rapid.OneOf(rapid.SampledFrom([]string{"null", "a1B2c3", ""}),
		rapid.Custom(func(t *rapid.T) string { return c39GenText(t, "verify", true) })).Draw(t, "verifyPick")
	if interop && f.VerifyCode == "" {
		f.VerifyCode = "null"
	}
	return f
}

func c39GenHost(t *rapid.T) string {
	h := rapid.OneOf(
		rapid.SampledFrom([]string{"play.example.org", "localhost", "mc.example.com.", "192.0.2.1", "[2001:db8::1]", "play.example.org:19132", "a", ""}),
		rapid.StringOfN(rapid.RuneFrom([]rune("abcdefghijklmnopqrstuvwxyz0123456789.-:_")), 0, 40, -1),
		rapid.Custom(func(t *rapid.T) string { return c39GenText(t, "hostText", true) }),
	).Draw(t, "host")
	if strings.HasPrefix(h, "^Floodgate^") {
		h = "x" + h
	}
	return h
}

func c39GenPort(t *rapid.T) string {
	if rapid.Bool().Draw(t, "withPort") {
		return ":" + strconv.Itoa(rapid.OneOf(rapid.SampledFrom([]int{25565, 19132, 0, 1, 65535}), rapid.IntRange(0, 65535)).Draw(t, "port"))
	}
	return ""
}

func c39GenIV(t *rapid.T) []byte {
	return rapid.OneOf(rapid.SliceOfN(rapid.Byte(), 12, 12),
		rapid.SliceOfN(rapid.SampledFrom([]byte{0, 0xff, 0xfb, 0xef, 0xbe}), 12, 12)).Draw(t, "iv")
}

func c39GenDecode(t *rapid.T) c39Case {
	return c39Case{Mode: "decode", Key: c39GenKey(t, "key"), IV: c39GenIV(t), Host: c39GenHost(t), Port: c39GenPort(t), Fields: c39GenFields(t, false)}
}

func c39GenEncode(t *rapid.T) c39Case {
	c := c39Case{Mode: "encode", Key: c39GenKey(t, "key"), Host: c39GenHost(t), Fields: c39GenFields(t, true)}
	if strings.HasSuffix(c.Host, "\x00") {
		c.Host += "x"
	}
	if rapid.Bool().Draw(t, "withOtherKey") {
		c.OtherKey = c39GenKey(t, "otherKey")
	}
	return c
}

func c39GenTamper(t *rapid.T) c39Case {
	c := c39Case{Mode: "tamper", Key: c39GenKey(t, "key"), IV: c39GenIV(t), Host: c39GenHost(t), Port: c39GenPort(t), Fields: c39GenFields(t, false)}
	kind := rapid.SampledFrom([]string{"subst", "subst", "subst", "substSpecial", "rawflip", "rawflip", "trunc", "ivlen", "ivlen", "ivlen-sealed",
		"swap", "extrabang", "nul", "insert", "delete", "dontcare", "otherkey"}).Draw(t, "mutKind")
	m := c39Mut{Kind: kind}
	// positions: region-biased (header 0..11, iv 12..27, splitter 28, ct 29..)
	pos := rapid.OneOf(rapid.IntRange(0, 11), rapid.IntRange(12, 27), rapid.Just(28), rapid.IntRange(29, 400),
		rapid.IntRange(-8, -1)).Draw(t, "pos")
	m.Pos = pos
	switch kind {
	case "subst", "insert":
		m.Byte = rapid.OneOf(rapid.Byte(), rapid.SampledFrom([]byte(c39B64))).Draw(t, "byte")
	case "substSpecial":
		m.Kind = rapid.SampledFrom([]string{"subst", "insert"}).Draw(t, "specialAs")
		m.Byte = rapid.SampledFrom([]byte{':', '!', 0, '\n', '\r', '=', ' ', '-', '_', 0x3F, 0x3D, '^'}).Draw(t, "byte")
	case "rawflip":
		m.Byte = rapid.OneOf(rapid.SampledFrom([]byte{1, 2, 4, 8, 16, 32, 64, 128}), rapid.Byte()).Draw(t, "mask")
		m.Pos = rapid.OneOf(rapid.IntRange(0, 11), rapid.IntRange(12, 300), rapid.IntRange(-16, -1)).Draw(t, "rawPos")
	case "trunc":
	case "ivlen", "ivlen-sealed":
		n := rapid.OneOf(rapid.SampledFrom([]int{0, 1, 3, 6, 8, 11, 13, 15, 16, 24}), rapid.IntRange(0, 40)).Draw(t, "ivLen")
		if rapid.Bool().Draw(t, "ivFromReal") {
			ext := append(bytes.Clone(c.IV), make([]byte, 40)...)
			m.Data = ext[:n]
		} else {
			m.Data = rapid.SliceOfN(rapid.Byte(), n, n).Draw(t, "ivBytes")
		}
	case "extrabang":
		m.Data = rapid.SliceOfN(rapid.Byte(), 0, 24).Draw(t, "extra")
	case "nul":
		m.Data = rapid.SampledFrom([][]byte{nil, []byte("FML\x00"), []byte("\x00"), []byte("junk")}).Draw(t, "nulTail")
		if rapid.Bool().Draw(t, "nulAtEnd") {
			m.Pos = -1
		}
	case "dontcare":
		m.Byte = rapid.Byte().Draw(t, "delta")
	case "otherkey":
		c.OtherKey = c39GenKey(t, "otherKey")
		if rapid.Bool().Draw(t, "nearKey") && len(c.OtherKey) >= len(c.Key) {
			// same leading bytes, one bit differs (or longer key with the same prefix)
			ok := bytes.Clone(c.Key)
			if len(c.OtherKey) > len(c.Key) {
				ok = append(ok, c.OtherKey[len(c.Key):]...)
			} else {
				ok[rapid.IntRange(0, len(ok)-1).Draw(t, "keyBitPos")] ^= 1 << rapid.IntRange(0, 7).Draw(t, "keyBit")
			}
			c.OtherKey = ok
		}
	}
	c.Mut = m
	return c
}

const (
	c39RuleDecode = "keys 16/24/32 B x generated 12-field records (ASCII/Unicode/empty strings, xuid incl. extremes, ints incl. int32 extremes) x hostnames with/without :port, encoded by the reference Floodgate encoder (AES-GCM, Base64 topping, header) -> ReadHostname must return identical fields and hostname; non-trivial = non-16-byte key, :port suffix, non-ASCII or empty field"
	c39RuleEncode = "generated records (restricted to what Floodgate's fromString can read: non-empty last field, int subscribe id) written by WriteHostname -> reference Floodgate handshake decoder (split on NUL, find identifier, Java base64, GCM open, String.split, parseInt) must read identical fields; another key must not open it; non-trivial = non-16-byte key, non-ASCII or empty field"
	c39RuleTamper = "reference-encoded hostname data mutated by: byte substitution/insertion/deletion at region-biased positions (header, iv, splitter, ct) incl. ':' '!' NUL CR LF '='; raw iv/ct/tag bit flips re-encoded canonically; truncation; IV of length != 12 (garbage or properly sealed); swapped parts; extra '!'; extra NUL; base64 don't-care bits; other key -> never panics, and is rejected unless not a single authenticated bit changed (then identical fields); non-trivial = mutation inside the IV or ciphertext region"
	c39RuleRaw    = "native fuzzing of ReadHostname over arbitrary hostnames with a fixed key, seeded with valid encodings: never panics; accepted only if the reference authenticates the data under the key and reads the same fields"
)

func TestVerif_C39(t *testing.T) {
	verifkit.Check(t, "C39", "decode", c39RuleDecode, c39GenDecode, c39Run)
	verifkit.Check(t, "C39", "encode", c39RuleEncode, c39GenEncode, c39Run)
	verifkit.Check(t, "C39", "tamper", c39RuleTamper, c39GenTamper, c39Run)
}

var c39FuzzKeys = [][]byte{
	bytes.Repeat([]byte{0x13}, 16),
	[]byte("0123456789abcdefghijklmn"),
	[]byte("\x00\x01\x02\x03\x04\x05\x06\x07\x08\x09\x0a\x0b\x0c\x0d\x0e\x0f\xf0\xf1\xf2\xf3\xf4\xf5\xf6\xf7\xf8\xf9\xfa\xfb\xfc\xfd\xfe\xff"),
}

// FuzzVerif_C39_ReadHostname: native fuzzing of the hostname reader.
func FuzzVerif_C39_ReadHostname(f *testing.F) {
	base := c39Fields{Version: "1.21.50", Username: "Steve", Xuid: 2535412345678901, DeviceOS: 7, Language: "en_US", UIProfile: 0,
		InputMode: 1, IP: "203.0.113.7", LinkedPlayer: "null", Proxy: false, SubscribeID: "17", VerifyCode: "a1B2c3"}
	for ki, key := range c39FuzzKeys {
		iv := make([]byte, 12)
		binary.BigEndian.PutUint32(iv[8:], uint32(ki+1))
		plain := []byte(c39RefToString(base))
		enc := c39RefEncrypt(key, iv, plain)
		f.Add(uint8(ki), []byte("play.example.org\x00"+string(enc)))
		f.Add(uint8(ki), []byte("play.example.org\x00"+string(enc)+":25565"))
		f.Add(uint8(ki), []byte("\x00"+string(enc[:20])))
		short := c39RefEncrypt(key, iv, []byte("a\x00b\x001\x001\x00\x001\x001\x00\x00\x001\x00\x00"))
		f.Add(uint8(ki), []byte("h\x00"+string(short)))
	}
	f.Add(uint8(0), []byte("h\x00^Floodgate^>!"))
	f.Add(uint8(0), []byte("h\x00^Floodgate^>AAAAAAAAAAAAAAAA!AAAAAAAAAAAAAAAAAAAAAA=="))
	f.Fuzz(func(t *testing.T, ki uint8, raw []byte) {
		c := c39Case{Mode: "raw", Key: c39FuzzKeys[int(ki)%len(c39FuzzKeys)], Raw: raw}
		verifkit.CheckCase(t, "C39", "fuzz-ReadHostname", c39RuleRaw, c, c39Run)
	})
}
