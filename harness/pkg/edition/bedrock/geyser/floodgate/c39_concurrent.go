//go:build verif

package floodgate

import (
	"bytes"
	"fmt"
	"sync"
	"testing"

	"go.minekube.com/gate/pkg/internal/verifkit"
	"pgregory.net/rapid"
)

// C39 (concurrent decode): several logins decode their identity data at the same
// time on one Floodgate instance (one per proxy). Each must get exactly its own
// fields: decoded data must not share state with another call (pooled buffers,
// in-place decryption into a shared array).

type c39ConcCase struct {
	Key     []byte      `json:"key"`
	IVs     [][]byte    `json:"ivs"`
	Hosts   []string    `json:"hosts"`
	Records []c39Fields `json:"records"`
	Rounds  int         `json:"rounds"`
}

func c39ConcRun(c c39ConcCase) verifkit.Result {
	fg, err := NewFloodgate(bytes.Clone(c.Key))
	if err != nil {
		return verifkit.Fail("setup:NewFloodgate", "key of %d bytes rejected: %v", len(c.Key), err)
	}
	hostnames := make([]string, len(c.Records))
	c.Records = append([]c39Fields(nil), c.Records...)
	for i, f := range c.Records {
		hostnames[i] = c.Hosts[i] + "\x00" + string(c39RefEncrypt(c.Key, c.IVs[i], []byte(c39RefToString(f))))
		if f.DeviceOS < 0 || f.DeviceOS > 15 {
			c.Records[i].DeviceOS = 0 // decoded: an id without a name is UNKNOWN (Floodgate's DeviceOs.fromId)
		}
	}

	// sequential: results handed out earlier stay what they were after later calls
	type kept struct {
		bd   *BedrockData
		want c39Fields
	}
	var keep []kept
	for i := range hostnames {
		_, bd, err, v := c39Call(fg, hostnames[i])
		if v != nil {
			return verifkit.Result{V: v}
		}
		if err != nil || bd == nil {
			return verifkit.Fail("decode:rejected-authentic", "Floodgate-encoded data rejected: %v", err)
		}
		keep = append(keep, kept{bd, c.Records[i]})
		for j, k := range keep {
			if got := c39FromGate(k.bd); got != k.want {
				return verifkit.Fail("decode:result-changed-by-later-call", "data decoded by call %d reads differently after call %d:\n got  %+v\n want %+v", j, i, got, k.want)
			}
		}
	}

	// concurrent: every goroutine decodes its own payload repeatedly
	start := make(chan struct{})
	var wg sync.WaitGroup
	var mu sync.Mutex
	var first *verifkit.Violation
	for i := range hostnames {
		wg.Add(1)
		go func(i int) {
			defer wg.Done()
			<-start
			for r := 0; r < c.Rounds; r++ {
				orig, bd, err, v := c39Call(fg, hostnames[i])
				if v == nil {
					switch {
					case err != nil || bd == nil:
						v = verifkit.Violationf("decode:rejected-authentic:concurrent", "goroutine %d round %d: authentic data rejected while other logins decode concurrently: %v", i, r, err)
					case c39FromGate(bd) != c.Records[i]:
						v = verifkit.Violationf("decode:fields:concurrent", "goroutine %d round %d decoded another login's / garbled fields:\n got  %+v\n want %+v", i, r, c39FromGate(bd), c.Records[i])
					case orig != c.Hosts[i]:
						v = verifkit.Violationf("decode:hostname:concurrent", "goroutine %d round %d: hostname %q, want %q", i, r, orig, c.Hosts[i])
					}
				}
				if v != nil {
					mu.Lock()
					if first == nil {
						first = v
					}
					mu.Unlock()
					return
				}
			}
		}(i)
	}
	close(start)
	wg.Wait()
	verifkit.AddNote("C39", "decode-concurrent", "schedules", 1)
	if first != nil {
		return verifkit.Result{V: first}
	}
	return verifkit.Result{NonTrivial: len(c.Records) >= 2, Labels: []string{fmt.Sprintf("logins-%d", len(c.Records)), c39KeyLabel(c.Key)}}
}

func c39ConcGen(t *rapid.T) c39ConcCase {
	c := c39ConcCase{Key: c39GenKey(t, "key"), Rounds: rapid.SampledFrom([]int{20, 50, 200}).Draw(t, "rounds")}
	n := rapid.IntRange(2, 6).Draw(t, "logins")
	for i := 0; i < n; i++ {
		c.IVs = append(c.IVs, c39GenIV(t))
		h := c39GenHost(t)
		c.Hosts = append(c.Hosts, h)
		c.Records = append(c.Records, c39GenFields(t, false))
	}
	return c
}

func TestVerif_C39_Conc(t *testing.T) {
	verifkit.Check(t, "C39", "decode-concurrent",
		"2..6 different Floodgate-encoded identities decoded on ONE Floodgate instance: first sequentially, keeping every result and re-reading all earlier results after each later call, then by one goroutine per identity for 20/50/200 rounds released from a common barrier (race detector on); every call must yield exactly its own fields and hostname; non-trivial = at least 2 identities",
		c39ConcGen, c39ConcRun)
}
