//go:build verif

package geyser

// C39, sub-check "key-file": the key the integration really uses. The main C39
// checks decide the Floodgate cipher for a key they hand over in memory; the
// integration reads that key from a file. For key bytes written to a file
// unchanged - 16, 24 or 32 bytes, any byte values, in particular ASCII whitespace
// at either end, which a binary key has with probability ~5% - identity data
// encoded under exactly those bytes must be accepted by the integration's
// Floodgate instance with the fields intact, and data encoded under a key that
// differs from them must not.

import (
	"context"
	"fmt"
	"os"
	"path/filepath"
	"testing"

	"pgregory.net/rapid"

	"go.minekube.com/gate/pkg/edition/bedrock/config"
	"go.minekube.com/gate/pkg/edition/bedrock/geyser/floodgate"
	"go.minekube.com/gate/pkg/internal/verifkit"
)

type c39kCase struct {
	Key []byte `json:"key"`
}

func c39kRun(c c39kCase) verifkit.Result {
	if n := len(c.Key); n != 16 && n != 24 && n != 32 {
		return verifkit.Result{Inconclusive: true, Labels: []string{"invalid-case"}}
	}
	dir, err := os.MkdirTemp(verifkit.WorkDir(), "c39k-")
	if err != nil {
		return verifkit.Result{Inconclusive: true, Labels: []string{"inconclusive:tmpdir"}}
	}
	defer os.RemoveAll(dir)
	path := filepath.Join(dir, "key.pem")
	if err := os.WriteFile(path, c.Key, 0o600); err != nil {
		return verifkit.Result{Inconclusive: true, Labels: []string{"inconclusive:write"}}
	}
	cfg := config.DefaultConfig
	cfg.FloodgateKeyPath = path
	cfg.Managed = nil
	ctx, cancel := context.WithCancel(context.Background())
	defer cancel()
	integ, err := NewIntegration(ctx, nil, &cfg)
	if err != nil {
		return verifkit.Fail("key-file:refused", "a %d-byte Floodgate key file (first byte %#x, last byte %#x) is refused: %v", len(c.Key), c.Key[0], c.Key[len(c.Key)-1], err)
	}
	ref, err := floodgate.NewFloodgate(append([]byte(nil), c.Key...))
	if err != nil {
		return verifkit.Fail("harness:key", "NewFloodgate(%d bytes): %v", len(c.Key), err)
	}
	data := &floodgate.BedrockData{Version: "1.21.50", Username: "Steve", Xuid: 2535412345678901, DeviceOS: floodgate.DeviceOSFromID(7),
		Language: "en_US", IP: "203.0.113.7", LinkedPlayer: "null", SubscribeID: "1", VerifyCode: "0"}
	hostname, err := ref.WriteHostname("play.example.org", data)
	if err != nil {
		return verifkit.Fail("harness:encode", "WriteHostname: %v", err)
	}
	host, got, err := integ.floodgate.ReadHostname(hostname)
	if err != nil || got == nil || host != "play.example.org" || got.Username != "Steve" || got.Xuid != data.Xuid {
		return verifkit.Fail("key-file:other-key-in-use", "identity data encoded under the %d key bytes of the file (first %#x, last %#x) is not accepted by the integration that loaded that file: host %q data %+v err %v", len(c.Key), c.Key[0], c.Key[len(c.Key)-1], host, got, err)
	}
	// a key that differs from the file in its last byte must not open it
	other := append([]byte(nil), c.Key...)
	other[len(other)-1] ^= 0x20
	if o, err := floodgate.NewFloodgate(other); err == nil {
		if h2, err := o.WriteHostname("play.example.org", data); err == nil {
			if _, d2, err := integ.floodgate.ReadHostname(h2); err == nil && d2 != nil {
				return verifkit.Fail("key-file:foreign-key-accepted", "data encoded under a key that differs from the file's in its last byte is accepted")
			}
		}
	}
	edge := func(b byte) bool { return b == ' ' || b == '\n' || b == '\r' || b == '\t' || b == '\v' || b == '\f' }
	ws := edge(c.Key[0]) || edge(c.Key[len(c.Key)-1])
	return verifkit.Result{NonTrivial: ws, Labels: []string{fmt.Sprintf("key-bytes:%d", len(c.Key)), fmt.Sprintf("whitespace-at-an-end:%v", ws)}}
}

func TestVerif_C39Key(t *testing.T) {
	verifkit.Check(t, "C39", "key-file",
		"Floodgate key files of 16/24/32 arbitrary bytes (a third with an ASCII whitespace byte at the start and/or the end, some with 8 or 16 of them) loaded through geyser.NewIntegration; oracle: data encoded under exactly the file's bytes is accepted with its fields intact, data encoded under a key differing in the last byte is not; non-trivial = whitespace at an end of the key",
		func(t *rapid.T) c39kCase {
			n := rapid.SampledFrom([]int{16, 16, 24, 32}).Draw(t, "len")
			k := rapid.SliceOfN(rapid.Byte(), n, n).Draw(t, "key")
			ws := []byte{' ', '\n', '\r', '\t'}
			switch rapid.IntRange(0, 8).Draw(t, "edge") {
			case 0:
				k[0] = rapid.SampledFrom(ws).Draw(t, "w0")
			case 1:
				k[n-1] = rapid.SampledFrom(ws).Draw(t, "w1")
			case 2:
				k[0], k[n-1] = ' ', '\n'
			case 3: // a run of whitespace that would turn a 32-byte key into a valid shorter one
				if n >= 24 {
					for i := n - 8; i < n; i++ {
						k[i] = ' '
					}
				}
			}
			return c39kCase{Key: k}
		}, c39kRun)
}
