//go:build verif

package geyser

import (
	"context"
	"errors"
	"net"
	"net/http"
	"strings"
	"testing"
	"unicode/utf8"

	"github.com/go-logr/logr"
	"go.minekube.com/gate/pkg/edition/bedrock/config"
	"go.minekube.com/gate/pkg/edition/bedrock/geyser/floodgate"
	"go.minekube.com/gate/pkg/edition/java/profile"
	"go.minekube.com/gate/pkg/edition/java/proto/packet"
	"go.minekube.com/gate/pkg/edition/java/proxy"
	"go.minekube.com/gate/pkg/gate/proto"
	"go.minekube.com/gate/pkg/internal/verifkit"
	"pgregory.net/rapid"
)

// C40: Bedrock players get valid, stable Java identities.
//
// Oracle (independent predicates, written from the property text):
//   - name: 1..16 bytes, each one of A-Z a-z 0-9 '_'
//   - uuid: RFC 4122 variant (10xxxxxx in octet 8), version nibble 1..5,
//     equal XUID => equal UUID, different XUID => different UUID.

func c40ValidJavaName(s string) (ok bool, why string) {
	if len(s) < 1 {
		return false, "empty"
	}
	if len(s) > 16 {
		return false, "longer than 16"
	}
	for i := 0; i < len(s); i++ {
		b := s[i]
		switch {
		case 'A' <= b && b <= 'Z', 'a' <= b && b <= 'z', '0' <= b && b <= '9', b == '_':
		default:
			return false, "character outside [A-Za-z0-9_]"
		}
	}
	return true, ""
}

func c40InputClasses(formatted string) (labels []string, nt bool) {
	runes := utf8.RuneCountInString(formatted)
	nonASCII := false
	for i := 0; i < len(formatted); i++ {
		if formatted[i] >= 0x80 {
			nonASCII = true
		}
	}
	if nonASCII {
		labels = append(labels, "non-ascii")
		if !utf8.ValidString(formatted) {
			labels = append(labels, "invalid-utf8")
		}
	}
	switch {
	case runes > 16:
		labels = append(labels, "runes>16")
	case runes == 16:
		labels = append(labels, "runes=16")
	case runes == 0:
		labels = append(labels, "empty")
	}
	if len(formatted) > 16 && runes <= 16 {
		labels = append(labels, "bytes>16-runes<=16")
	}
	if len(formatted) > 16 && nonASCII {
		// is there a multi-byte rune straddling byte offset 16?
		if !utf8.RuneStart(formatted[16]) {
			labels = append(labels, "multibyte-at-byte-cut")
		}
	}
	if strings.ContainsAny(formatted, " .-*[]") {
		labels = append(labels, "punct-or-space")
	}
	return labels, nonASCII || runes > 16
}

// ---------------------------------------------------------------- sub-check 1: javaCompatibleUsername on any string

type c40NameCase struct {
	Name []byte `json:"name"` // bytes, so that invalid UTF-8 survives JSON
}

func c40NameRun(c c40NameCase) verifkit.Result {
	in := string(c.Name)
	got := javaCompatibleUsername(in)
	labels, nt := c40InputClasses(in)
	if ok, why := c40ValidJavaName(got); !ok {
		return verifkit.Fail("name:javaCompatibleUsername", "javaCompatibleUsername(%q) = %q: %s", in, got, why)
	}
	if again := javaCompatibleUsername(in); again != got {
		return verifkit.Fail("name:unstable", "javaCompatibleUsername(%q) gave %q then %q", in, got, again)
	}
	return verifkit.Result{NonTrivial: nt, Labels: labels}
}

var c40Pieces = []string{
	"a", "Z", "0", "_", " ", ".", "-", "*", "[", "]", "é", "ß", "玩", "家", "Ａ", "٣", "😀", "​", "́", "İ", "ǅ",
	// decimal digits and letters of other scripts (unicode.IsDigit / IsLetter are true for them)
	"１", "９", "٠", "۹", "߀", "᠐", "𝟘", "𝟙", "ａ", "Ω", "я", "ⅷ", "²",
	"\xff", "\xc3", "\xe7\x8e", "\x00", "\n", "\x7f", "%", "Player", "LLG iced", "xX_", "abcdefgh",
}

func c40GenGamertag(t *rapid.T, min int) string {
	switch rapid.IntRange(0, 5).Draw(t, "tagKind") {
	case 0: // realistic gamertags
		return rapid.SampledFrom([]string{"icedRyan", "LLG icedRyan", "Player One 123", "玩家 One", "xX_Sniper_Xx", "A", "ab", "Über Gamer", "abcdefghijklmnop", "abcdefghijklmnopq", "Ａｌｉｃｅ", "a.b", "😀😀😀😀😀😀😀😀😀😀😀😀😀😀😀😀😀"}).Draw(t, "real")
	case 1: // ASCII letters only, boundary lengths
		n := rapid.SampledFrom([]int{1, 2, 14, 15, 16, 17, 18, 32}).Draw(t, "alen")
		return strings.Repeat("a", n-1) + rapid.SampledFrom([]string{"b", "_", "9", " ", "."}).Draw(t, "last")
	case 2: // multi-byte runes placed around the 16 boundary
		lead := rapid.IntRange(10, 17).Draw(t, "lead")
		mb := rapid.SampledFrom([]string{"é", "玩", "😀", "\xff", "\xe7\x8e"}).Draw(t, "mb")
		tail := rapid.IntRange(0, 6).Draw(t, "tail")
		return strings.Repeat("x", lead) + mb + strings.Repeat("y", tail)
	default:
		n := rapid.IntRange(min, 24).Draw(t, "pieces")
		var sb strings.Builder
		for i := 0; i < n; i++ {
			sb.WriteString(rapid.SampledFrom(c40Pieces).Draw(t, "piece"))
		}
		return sb.String()
	}
}

// ---------------------------------------------------------------- sub-check 2: the real profile hook (format + gamertag + XUID)

type c40ProfileCase struct {
	Format   string `json:"format"`
	Gamertag []byte `json:"gamertag"`
	Xuid     int64  `json:"xuid"`
	Xuid2    int64  `json:"xuid2"`
	// Gamertag2 is the name of the second player (second XUID); identity must not depend on it.
	Gamertag2 []byte `json:"gamertag2"`
}

type c40Inbound struct{ ctx context.Context }

func (c *c40Inbound) Protocol() proto.Protocol                { return 0 }
func (c *c40Inbound) VirtualHost() net.Addr                   { return nil }
func (c *c40Inbound) HandshakeIntent() packet.HandshakeIntent { return 0 }
func (c *c40Inbound) RemoteAddr() net.Addr                    { return &net.TCPAddr{IP: net.IPv4(127, 0, 0, 1), Port: 1} }
func (c *c40Inbound) Active() bool                            { return true }
func (c *c40Inbound) Context() context.Context                { return c.ctx }

type c40NoNetwork struct{}

func (c40NoNetwork) RoundTrip(*http.Request) (*http.Response, error) {
	return nil, errors.New("verif: no network")
}

type c40NopConn struct{ net.Conn }

func (c40NopConn) Close() error { return nil }

// c40Profile runs the real GameProfileRequest hook of the Geyser integration for
// one Bedrock player and returns the profile the proxy would use.
func c40Profile(format, gamertag string, xuid int64) (p profile.GameProfile, set bool) {
	integ := &Integration{
		log:            logr.Discard(),
		config:         &config.Config{UsernameFormat: format},
		profileManager: &ProfileManager{client: &http.Client{Transport: c40NoNetwork{}}},
	}
	gc := &GeyserConnection{
		Conn:        c40NopConn{},
		BedrockData: &floodgate.BedrockData{Version: "1", Username: gamertag, Xuid: xuid, Language: "en_US"},
		closeCb:     func() {},
	}
	gc.Context = withBedrockContext(context.Background(), gc)
	original := profile.GameProfile{Name: "original-placeholder-name-that-is-invalid"}
	ev := proxy.NewGameProfileRequestEvent(&c40Inbound{ctx: gc.Context}, original, false)
	integ.onGameProfile(ev)
	got := ev.GameProfile()
	return got, got.Name != original.Name
}

func c40CheckUUID(id [16]byte) (ok bool, why string) {
	if id[8]&0xc0 != 0x80 {
		return false, "variant bits are not RFC 4122 (10x)"
	}
	if v := id[6] >> 4; v < 1 || v > 5 {
		return false, "version nibble outside 1..5"
	}
	return true, ""
}

func c40ProfileRun(c c40ProfileCase) verifkit.Result {
	tag1, tag2 := string(c.Gamertag), string(c.Gamertag2)
	p1, set1 := c40Profile(c.Format, tag1, c.Xuid)
	p2, set2 := c40Profile(c.Format, tag2, c.Xuid2)
	if !set1 || !set2 {
		return verifkit.Fail("profile:not-set", "the Geyser hook did not set a profile for a Bedrock player (format %q tag %q xuid %d / tag %q xuid %d)", c.Format, tag1, c.Xuid, tag2, c.Xuid2)
	}

	// what the property quantifies over: the name after applying the configured format
	labels := []string{}
	nt := false
	for _, p := range []struct {
		tag string
		got profile.GameProfile
	}{{tag1, p1}, {tag2, p2}} {
		if ok, why := c40ValidJavaName(p.got.Name); !ok {
			return verifkit.Fail("profile:name", "format %q gamertag %q => profile name %q: %s", c.Format, p.tag, p.got.Name, why)
		}
		if ok, why := c40CheckUUID(p.got.ID); !ok {
			return verifkit.Fail("profile:uuid-form", "xuid => uuid %s: %s", p.got.ID, why)
		}
	}
	{
		// classes of the first player's formatted input; the harness formats with
		// the plain meaning of the setting: every "%s" is where the gamertag goes.
		l, n := c40InputClasses(strings.Replace(c.Format, "%s", tag1, 1))
		if c.Format == "" {
			l, n = c40InputClasses(tag1)
			l = append(l, "format-empty")
		}
		labels, nt = append(labels, l...), n
	}

	// the same player again (fresh integration, fresh data): same identity
	p1b, _ := c40Profile(c.Format, tag1, c.Xuid)
	if p1b.ID != p1.ID {
		return verifkit.Fail("profile:uuid-unstable", "xuid %d mapped to %s and then to %s", c.Xuid, p1.ID, p1b.ID)
	}
	if p1b.Name != p1.Name {
		return verifkit.Fail("profile:name-unstable", "format %q gamertag %q gave %q then %q", c.Format, tag1, p1.Name, p1b.Name)
	}

	// JavaUuid directly, and independence from everything but the XUID
	d1 := &floodgate.BedrockData{Username: tag2, Xuid: c.Xuid, Language: "de_DE", LinkedPlayer: "x", Proxy: true}
	u1, err := d1.JavaUuid()
	if err != nil {
		return verifkit.Fail("uuid:error", "JavaUuid(%d): %v", c.Xuid, err)
	}
	if u1 != p1.ID {
		return verifkit.Fail("uuid:depends-on-other-fields", "xuid %d: %s via the hook but %s with other player data", c.Xuid, p1.ID, u1)
	}

	if c.Xuid == c.Xuid2 {
		labels = append(labels, "same-xuid")
		if p1.ID != p2.ID {
			return verifkit.Fail("uuid:same-xuid-differs", "xuid %d mapped to %s (tag %q) and %s (tag %q)", c.Xuid, p1.ID, tag1, p2.ID, tag2)
		}
	} else {
		labels = append(labels, "different-xuid")
		if p1.ID == p2.ID {
			return verifkit.Fail("uuid:collision", "xuids %d and %d both map to %s", c.Xuid, c.Xuid2, p1.ID)
		}
	}
	return verifkit.Result{NonTrivial: nt, Labels: labels}
}

// c40GenFormat draws only formats real configuration permits: Validate demands
// a "%s" in a non-empty format; the empty format is what a Config built in code
// (not through BedrockConfig.ToConfig, which defaults it to "_%s") may carry.
func c40GenFormat(t *rapid.T) string {
	switch rapid.IntRange(0, 5).Draw(t, "fmtKind") {
	case 0:
		return "_%s" // the default
	case 1:
		return rapid.SampledFrom([]string{"%s", ".%s", "*%s", "%s_%s", "[BE]%s", "BE-%s", "%s%s", "bedrock_player_%s", "%s_on_bedrock_edition", "é%s", "%%s", "%d%s", "%s%d", "%s %s %s", "%%%s", "%s%", "100%%s", "%s\n", "😀%s"}).Draw(t, "fmtFixed")
	case 2:
		return ""
	default:
		pre := c40GenLiteral(t, "pre")
		post := c40GenLiteral(t, "post")
		return pre + "%s" + post
	}
}

// c40GenLiteral draws literal text for a format. '%' is only produced as "%%"
// or as one of a few verbs so that the string stays something an operator could
// plausibly write (any string containing "%s" is accepted by validation).
func c40GenLiteral(t *rapid.T, label string) string {
	n := rapid.IntRange(0, 4).Draw(t, label+"N")
	var sb strings.Builder
	for i := 0; i < n; i++ {
		sb.WriteString(rapid.SampledFrom([]string{"_", ".", "*", "-", " ", "BE", "x", "[", "]", "é", "玩", "%%", "%d", "%v", "%5s", "%q", "0123456789"}).Draw(t, label))
	}
	return sb.String()
}

func c40GenXuidPair(t *rapid.T) (int64, int64) {
	nz := func(v int64) int64 { // Floodgate data with xuid 0 is refused before it gets here
		if v == 0 {
			return 1
		}
		return v
	}
	x := nz(rapid.OneOf(
		rapid.Int64Range(2535400000000000, 2535479999999999), // what real XUIDs look like
		rapid.Int64(),
		rapid.SampledFrom([]int64{1, -1, 9, 10, 1 << 31, 1 << 32, 1<<63 - 1, -1 << 63, 2535428573955555}),
	).Draw(t, "xuid"))
	var y int64
	switch rapid.IntRange(0, 9).Draw(t, "pairKind") {
	case 0, 1:
		y = x
	case 2:
		y = x + 1
	case 3:
		y = -x
	case 4:
		y = x ^ (1 << 32)
	case 5:
		y = x ^ (1 << uint(rapid.IntRange(0, 63).Draw(t, "bit")))
	case 6:
		y = x * 10
	case 7:
		y = x / 10
	case 8:
		y = int64(int32(x))
	default:
		y = rapid.Int64().Draw(t, "xuid2")
	}
	return x, nz(y)
}

func c40GenRealTag(t *rapid.T, label string) []byte {
	// what can come out of Floodgate data: non-empty, NUL-free
	s := strings.ReplaceAll(c40GenGamertag(t, 1), "\x00", "")
	if s == "" {
		s = "A"
	}
	return []byte(s)
}

func TestVerif_C40(t *testing.T) {
	verifkit.Check(t, "C40", "name",
		"arbitrary strings as input of javaCompatibleUsername: realistic gamertags, boundary lengths 1/2/14..18/32, multi-byte or invalid UTF-8 sequences placed around offset 16, concatenations of ASCII/punctuation/CJK/emoji/full-width/combining/invalid-byte pieces (0..24), empty string; result must be 1..16 chars of [A-Za-z0-9_]; non-trivial = input has a non-ASCII byte or more than 16 runes",
		func(t *rapid.T) c40NameCase {
			s := c40GenGamertag(t, 0)
			return c40NameCase{Name: []byte(s)}
		}, c40NameRun)

	verifkit.Check(t, "C40", "profile",
		"the real Geyser GameProfileRequest hook (onGameProfile) with a generated username format (only formats validation permits: contain %s; plus the empty format), a NUL-free non-empty gamertag and XUID pairs (equal / +1 / negated / bit flips / x10 / int32-truncated / random; never 0): profile name 1..16 of [A-Za-z0-9_], UUID RFC 4122 variant with version 1..5, stable across runs, independent of all other player data, equal iff XUIDs equal; non-trivial = formatted input has a non-ASCII byte or more than 16 runes",
		func(t *rapid.T) c40ProfileCase {
			x, y := c40GenXuidPair(t)
			return c40ProfileCase{
				Format:    c40GenFormat(t),
				Gamertag:  c40GenRealTag(t, "tag1"),
				Gamertag2: c40GenRealTag(t, "tag2"),
				Xuid:      x,
				Xuid2:     y,
			}
		}, c40ProfileRun)
}
