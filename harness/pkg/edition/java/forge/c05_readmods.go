//go:build verif

package forge

// C05, sub-check "forge-modlist": the legacy Forge mod list is a second-stage
// decoder for bytes a client controls (the body of an FML|HS plugin message that
// the packet decoder hands on as is). Like the packet decoders it must neither
// panic nor allocate beyond a small multiple of its input on hostile bodies, and
// on well-formed bodies it returns the mods that were encoded.

import (
	"fmt"
	"runtime"
	"testing"

	"pgregory.net/rapid"

	"go.minekube.com/gate/pkg/edition/java/proto/packet/plugin"
	"go.minekube.com/gate/pkg/internal/verifkit"
)

type c05mCase struct {
	Count int32    `json:"count"` // claimed mod count
	Mods  []string `json:"mods"`  // id/version pairs actually present (ids and versions alternate)
	Disc  byte     `json:"disc"`
	Tail  []byte   `json:"tail"`
}

func c05mRun(c c05mCase) verifkit.Result {
	body := []byte{c.Disc}
	body = append(body, verifkit.RefVarInt(c.Count)...)
	for _, s := range c.Mods {
		body = append(body, verifkit.RefString(s)...)
	}
	body = append(body, c.Tail...)
	msg := &plugin.Message{Channel: LegacyHandshakeChannel, Data: body}
	var ms0, ms1 runtime.MemStats
	runtime.ReadMemStats(&ms0)
	var mods []string
	var err error
	var panicked any
	func() {
		defer func() { panicked = recover() }()
		got, e := ReadMods(msg)
		err = e
		for _, m := range got {
			mods = append(mods, m.ID, m.Version)
		}
	}()
	runtime.ReadMemStats(&ms1)
	alloc := ms1.TotalAlloc - ms0.TotalAlloc
	if panicked != nil {
		return verifkit.Fail("forge-modlist:panic", "ReadMods panicked on a %d-byte FML|HS body claiming %d mods: %v", len(body), c.Count, panicked)
	}
	if bound := uint64(64*len(body) + 1<<20); alloc > bound {
		return verifkit.Fail("forge-modlist:alloc", "ReadMods allocated %d bytes for a %d-byte FML|HS body claiming %d mods (bound %d)", alloc, len(body), c.Count, bound)
	}
	labels := []string{fmt.Sprintf("claimed-sign:%v", c.Count < 0)}
	wellFormed := c.Disc == ModListDiscriminator && c.Count >= 0 && int(c.Count)*2 == len(c.Mods) && c.Count <= 1024
	for _, s := range c.Mods {
		wellFormed = wellFormed && s != "" // ReadMods demands an id and a version
	}
	if wellFormed {
		if err != nil || fmt.Sprint(mods) != fmt.Sprint(c.Mods) {
			return verifkit.Fail("forge-modlist:value", "well-formed list of %d mods %q read as %q (err %v)", c.Count, c.Mods, mods, err)
		}
		labels = append(labels, "well-formed")
	}
	return verifkit.Result{NonTrivial: !wellFormed && c.Disc == ModListDiscriminator, Labels: labels}
}

func TestVerif_C05Mods(t *testing.T) {
	verifkit.Check(t, "C05", "forge-modlist",
		"FML|HS mod-list bodies: discriminator (right or not), claimed count in {-2^31, -1, 0, 1, 2, 1024, 1025, 2^20, 2^31-1, small}, 0..4 id/version strings actually present, 0..8 trailing bytes; oracle: forge.ReadMods never panics, allocates at most 64 x body + 1 MiB, and returns exactly the encoded mods for a well-formed body; non-trivial = mod-list discriminator with a claim that does not match the body",
		func(t *rapid.T) c05mCase {
			n := rapid.IntRange(0, 4).Draw(t, "present")
			var mods []string
			for i := 0; i < 2*n; i++ {
				mods = append(mods, rapid.SampledFrom([]string{"forge", "14.23.5", "", "mod_a", "1.0", "ünï"}).Draw(t, "s"))
			}
			c := c05mCase{
				Count: rapid.OneOf(rapid.SampledFrom([]int32{-2147483648, -1, 0, 1, 2, 1024, 1025, 1 << 20, 2147483647}), rapid.Int32Range(-5, 10), rapid.Just(int32(n))).Draw(t, "count"),
				Mods:  mods,
				Disc:  rapid.SampledFrom([]byte{ModListDiscriminator, ModListDiscriminator, ModListDiscriminator, 0, 1, 255}).Draw(t, "disc"),
				Tail:  rapid.SliceOfN(rapid.Byte(), 0, 8).Draw(t, "tail"),
			}
			return c
		}, c05mRun)
}
