//go:build verif

package netmc

// (netmc unit; generated from the codec harness, only the RIG section differs)
// C01: every sequence of payloads written by the packet writer is read back as
// exactly the same payloads, for every compression threshold / level, with or
// without AES/CFB8 encryption and however the byte stream is chunked.
//
// Oracles:
//   (A) round trip: Decoder.Decode yields the written non-empty payloads in order,
//       then io.EOF (empty payloads are skipped by the decoder as documented);
//   (B) independent wire check: the writer's bytes, decrypted with a reference CFB8
//       and parsed with the reference frame reader (vanilla acceptance rules),
//       contain the same payloads, and a frame is compressed exactly when the
//       payload is >= threshold (properties.jsonl: "packets >= threshold are
//       zlib-compressed");
//   (C) a frame that exceeds 2^21-1 bytes after compression overhead cannot be
//       carried: the decoder must fail there with *FrameTooLargeError;
//   (D) PacketContext.BytesRead ("bytes read ... after decryption and before
//       decompression", pkg/gate/proto) equals the size of the frame on the wire.
//
// Domain restrictions grounded in the code's documented contract: payloads start
// with a packet-id VarInt (Encoder.Write doc) that is not registered in the
// decoder's state, or are a complete Handshake packet; settings change only
// directly after a non-empty packet, on both sides at the same packet index (as
// the login sequence does); no empty payload is written while the threshold is 0
// (Velocity and vanilla reject that frame as well).

import (
	"bytes"
	"errors"
	"fmt"
	"io"
	"net"
	"runtime/debug"
	"testing"
	"time"

	"github.com/go-logr/logr"
	"go.minekube.com/gate/pkg/edition/java/proto/codec"
	"go.minekube.com/gate/pkg/gate/proto"
	"go.minekube.com/gate/pkg/internal/verifkit"
	"pgregory.net/rapid"
)

const c01MaxFrame = 1<<21 - 1

type c01Set struct {
	// Compression: apply SetCompression(Threshold, Level) on the writer and
	// SetCompressionThreshold(Threshold) on the reader.
	Compression bool `json:"compression,omitempty"`
	Threshold   int  `json:"threshold,omitempty"`
	Level       int  `json:"level,omitempty"`
	// Secret: when 16 bytes long, enable encryption on both sides.
	Secret []byte `json:"secret,omitempty"`
}

type c01Step struct {
	Set  *c01Set `json:"set,omitempty"` // applied before this payload is written / before it is read
	Len  int     `json:"len"`
	Kind string  `json:"kind"` // random | zero | pattern | text | handshake
	Seed uint32  `json:"seed"`
}

type c01Case struct {
	ServerBound bool      `json:"serverbound"`
	Steps       []c01Step `json:"steps"`
	Chunks      []int     `json:"chunks"` // sizes returned by successive Read calls (cycled)
}

// c01Payload materialises the payload of a step deterministically.
func c01Payload(s c01Step) []byte {
	if s.Len <= 0 {
		return []byte{}
	}
	if s.Kind == "handshake" {
		// complete serverbound Handshake packet: id 0, protocol, host, port, next state
		host := fmt.Sprintf("h%d.example.org", s.Seed%1000)
		p := []byte{0x00}
		p = append(p, verifkit.RefVarInt(int32(s.Seed%800))...)
		p = append(p, verifkit.RefString(host)...)
		p = append(p, verifkit.RefU16(uint16(s.Seed>>8))...)
		p = append(p, verifkit.RefVarInt(int32(1+s.Seed%2))...)
		return p
	}
	out := make([]byte, s.Len)
	switch s.Kind {
	case "zero":
	case "pattern":
		pat := [4]byte{byte(s.Seed), byte(s.Seed >> 8), byte(s.Seed >> 16), byte(s.Seed >> 24)}
		for i := range out {
			out[i] = pat[i&3]
		}
	case "text":
		words := "the quick brown fox jumps over the lazy dog minecraft:brand "
		off := int(s.Seed % uint32(len(words)))
		for i := range out {
			out[i] = words[(i+off)%len(words)]
		}
	default: // random (incompressible): xorshift32
		x := s.Seed | 1
		for i := range out {
			x ^= x << 13
			x ^= x >> 17
			x ^= x << 5
			out[i] = byte(x >> 11)
		}
	}
	// packet id VarInt that is not registered in the Handshake state
	if s.Seed&1 == 0 || s.Len == 1 {
		out[0] = 0x7f
	} else {
		out[0], out[1] = 0x85, 0x01
	}
	return out
}

// c01Chunked is the byte transport of the read side.
type c01Chunked struct {
	data   []byte
	pos    int
	chunks []int
	i      int
	// ends records the stream offsets at which a Read returned (for the
	// "chunk boundary inside a length prefix" label).
	ends     []int
	afterEOF int
}

func (r *c01Chunked) Read(p []byte) (int, error) {
	if len(p) == 0 {
		return 0, nil
	}
	if r.pos >= len(r.data) {
		r.afterEOF++
		return 0, io.EOF
	}
	n := len(r.data) - r.pos
	if len(r.chunks) > 0 {
		c := r.chunks[r.i%len(r.chunks)]
		r.i++
		if c > 0 && c < n {
			n = c
		}
	}
	if n > len(p) {
		n = len(p)
	}
	copy(p, r.data[r.pos:r.pos+n])
	r.pos += n
	r.ends = append(r.ends, r.pos)
	return n, nil
}

type c01Frame struct {
	start, prefixEnd, end int
	payload               []byte
	compressed            bool
	threshold             int
}

// c01RefParse decrypts (reference CFB8, from encFrom on) and parses the wire with
// the reference frame reader. settings[i] is the threshold in force for the i-th
// frame. It returns the frames parsed and, if the k-th frame is wider than 21
// bits, tooLargeAt = k.
func c01RefParse(wire []byte, encFrom int, secret []byte, thresholds []int, capBytes int) (frames []c01Frame, tooLargeAt int, err error) {
	plain := bytes.Clone(wire)
	if encFrom >= 0 {
		verifkit.NewRefCFB8(secret, true).XOR(plain[encFrom:], wire[encFrom:])
	}
	tooLargeAt = -1
	r := verifkit.NewRefReader(plain)
	for k := 0; k < len(thresholds); k++ {
		start := r.Pos
		// find the prefix end independently
		pe := start
		for pe < len(plain) && plain[pe]&0x80 != 0 {
			pe++
		}
		pe++
		payload, ferr := verifkit.RefReadFrame(r, thresholds[k], capBytes)
		if ferr != nil {
			var fe *verifkit.RefFrameError
			if errors.As(ferr, &fe) && fe.Reason == "length prefix wider than 21 bits" {
				return frames, k, nil
			}
			return frames, -1, fmt.Errorf("frame %d at offset %d: %w", k, start, ferr)
		}
		f := c01Frame{start: start, prefixEnd: pe, end: r.Pos, payload: payload, threshold: thresholds[k]}
		if thresholds[k] >= 0 && r.Pos > pe {
			f.compressed = plain[pe] != 0
		}
		frames = append(frames, f)
	}
	if r.Remaining() != 0 {
		return frames, -1, fmt.Errorf("%d unexpected bytes after the last frame", r.Remaining())
	}
	return frames, -1, nil
}

func c01Short(b []byte) string {
	if len(b) <= 16 {
		return fmt.Sprintf("%x(len %d)", b, len(b))
	}
	return fmt.Sprintf("%x..%x(len %d)", b[:8], b[len(b)-4:], len(b))
}

// ---- RIG-BEGIN (the only package-specific part: how writer and reader are driven)

const c01RigName = "netmc"

// c01Conn is the fake net.Conn under netmc.NewWriter / netmc.NewReader: writes are
// collected, reads are served in generated chunk sizes.
type c01Conn struct {
	out bytes.Buffer
	in  *c01Chunked
}

type c01Addr struct{}

func (c01Addr) Network() string { return "verif" }
func (c01Addr) String() string  { return "verif:0" }

func (c *c01Conn) Read(p []byte) (int, error) {
	if c.in == nil {
		return 0, io.EOF
	}
	return c.in.Read(p)
}
func (c *c01Conn) Write(p []byte) (int, error)      { return c.out.Write(p) }
func (c *c01Conn) Close() error                     { return nil }
func (c *c01Conn) LocalAddr() net.Addr              { return c01Addr{} }
func (c *c01Conn) RemoteAddr() net.Addr             { return c01Addr{} }
func (c *c01Conn) SetDeadline(time.Time) error      { return nil }
func (c *c01Conn) SetReadDeadline(time.Time) error  { return nil }
func (c *c01Conn) SetWriteDeadline(time.Time) error { return nil }

// c01Rig drives netmc.NewWriter / netmc.NewReader (bufio + Encoder/Decoder +
// EnableEncryption / SetCompressionThreshold) with Flush calls at generated points.
type c01Rig struct {
	dir   proto.Direction
	wconn *c01Conn
	w     Writer
	rconn *c01Conn
	rd    *c01Chunked
	r     Reader
	flush []bool
}

func c01NewRig(c c01Case) *c01Rig {
	r := &c01Rig{dir: proto.ClientBound, wconn: &c01Conn{}}
	if c.ServerBound {
		r.dir = proto.ServerBound
	}
	level := -1
	for _, st := range c.Steps {
		if st.Set != nil && st.Set.Compression {
			level = st.Set.Level
			break
		}
	}
	r.w = NewWriter(r.wconn, r.dir, time.Minute, level, logr.Discard())
	for _, st := range c.Steps {
		r.flush = append(r.flush, st.Seed&6 == 2) // flush after about a quarter of the packets
	}
	return r
}

func (r *c01Rig) capBytes() int {
	if r.dir == proto.ServerBound {
		return codec.ServerboundUncompressedCap
	}
	return codec.UncompressedCap
}
func (r *c01Rig) writeCompression(threshold, level int) error {
	return r.w.SetCompressionThreshold(threshold)
}
func (r *c01Rig) writeEncryption(secret []byte) error { return r.w.EnableEncryption(secret) }
func (r *c01Rig) write(i int, payload []byte) error {
	if _, err := r.w.Write(payload); err != nil {
		return err
	}
	if r.flush[i] {
		return r.w.Flush()
	}
	return nil
}
func (r *c01Rig) wireLen() int { return r.wconn.out.Len() + r.w.(*writer).writeBuf.Buffered() }
func (r *c01Rig) finish() ([]byte, error) {
	err := r.w.Flush()
	return bytes.Clone(r.wconn.out.Bytes()), err
}
func (r *c01Rig) startRead(wire []byte, chunks []int) {
	r.rd = &c01Chunked{data: wire, chunks: chunks}
	r.rconn = &c01Conn{in: r.rd}
	r.r = NewReader(r.rconn, r.dir, time.Minute, logr.Discard())
}
func (r *c01Rig) readCompression(threshold int)         { _ = r.r.SetCompressionThreshold(threshold) }
func (r *c01Rig) readEncryption(secret []byte) error    { return r.r.EnableEncryption(secret) }
func (r *c01Rig) decode() (*proto.PacketContext, error) { return r.r.ReadPacket() }
func c01IsFrameTooLarge(err error) bool {
	var fe *codec.FrameTooLargeError
	return errors.As(err, &fe)
}

// c01Level: netmc fixes one zlib level per writer (NewWriter argument).
func c01Level(c c01Case, set *c01Set) int { return set.Level }

// ---- RIG-END

func c01Run(c c01Case) verifkit.Result          { return c01RunMode(c, false) }
func c01RunBytesRead(c c01Case) verifkit.Result { return c01RunMode(c, true) }

// c01RunMode runs oracles (A)-(C); with bytesRead it additionally judges (D).
func c01RunMode(c c01Case, bytesRead bool) (res verifkit.Result) {
	defer func() {
		if p := recover(); p != nil {
			res = verifkit.Fail("panic:"+c01RigName, "panic: %v\n%s", p, debug.Stack())
		}
	}()
	rig := c01NewRig(c)
	capBytes := rig.capBytes()

	// ---- write side
	payloads := make([][]byte, len(c.Steps))
	thresholds := make([]int, len(c.Steps))
	threshold := -1
	encFrom := -1
	var secret []byte
	for i, st := range c.Steps {
		if st.Set != nil {
			if st.Set.Compression {
				if err := rig.writeCompression(st.Set.Threshold, c01Level(c, st.Set)); err != nil {
					return verifkit.Fail("setup:SetCompression", "SetCompression(%d,%d): %v", st.Set.Threshold, st.Set.Level, err)
				}
				threshold = st.Set.Threshold
				if threshold < 0 {
					threshold = -1
				}
			}
			if len(st.Set.Secret) == 16 && encFrom < 0 {
				if err := rig.writeEncryption(st.Set.Secret); err != nil {
					return verifkit.Fail("setup:write-encryption", "%v", err)
				}
				encFrom = rig.wireLen()
				secret = st.Set.Secret
			}
		}
		payloads[i] = c01Payload(st)
		thresholds[i] = threshold
		if err := rig.write(i, bytes.Clone(payloads[i])); err != nil {
			return verifkit.Fail("write:error", "Write of payload %d (%d bytes): %v", i, len(payloads[i]), err)
		}
	}
	wireBytes, ferr := rig.finish()
	if ferr != nil {
		return verifkit.Fail("write:flush-error", "Flush: %v", ferr)
	}

	// ---- (B) independent wire check
	frames, tooLargeAt, perr := c01RefParse(wireBytes, encFrom, secret, thresholds, capBytes)
	if perr != nil {
		return verifkit.Fail("wire:ref-reject", "the reference frame reader rejects the writer's output: %v", perr)
	}
	for k, f := range frames {
		if !bytes.Equal(f.payload, payloads[k]) {
			return verifkit.Fail("wire:payload", "frame %d on the wire carries %s, written payload was %s", k, c01Short(f.payload), c01Short(payloads[k]))
		}
		if f.threshold >= 0 && len(payloads[k]) > 0 {
			if want := len(payloads[k]) >= f.threshold; want != f.compressed {
				return verifkit.Fail("wire:threshold-rule", "payload %d of %d bytes with threshold %d: compressed=%v, vanilla compresses exactly when size >= threshold", k, len(payloads[k]), f.threshold, f.compressed)
			}
		}
	}
	if tooLargeAt >= 0 {
		if len(payloads[tooLargeAt])+1024 <= c01MaxFrame || thresholds[tooLargeAt] < 0 {
			return verifkit.Fail("wire:frame-inflated", "payload %d of %d bytes was written as a frame wider than 21 bits (threshold %d)", tooLargeAt, len(payloads[tooLargeAt]), thresholds[tooLargeAt])
		}
	}

	// ---- (A) read side
	rig.startRead(wireBytes, c.Chunks)
	rd := rig.rd
	decrypting := false
	total := len(c.Steps)
	if tooLargeAt >= 0 {
		total = tooLargeAt
	}
	var bytesReadBad *verifkit.Violation
	applySets := func(from, to int) *verifkit.Violation {
		for i := from; i <= to && i < len(c.Steps); i++ {
			st := c.Steps[i]
			if st.Set == nil {
				continue
			}
			if st.Set.Compression {
				rig.readCompression(st.Set.Threshold)
			}
			if len(st.Set.Secret) == 16 && !decrypting {
				if err := rig.readEncryption(st.Set.Secret); err != nil {
					return verifkit.Violationf("setup:read-encryption", "%v", err)
				}
				decrypting = true
			}
		}
		return nil
	}
	prev := -1
	delivered := 0
	for i := 0; i < total; i++ {
		if len(payloads[i]) == 0 {
			continue
		}
		if v := applySets(prev+1, i); v != nil {
			return verifkit.Result{V: v}
		}
		prev = i
		ctx, err := rig.decode()
		if err != nil && !(errors.Is(err, proto.ErrDecoderLeftBytes) && ctx != nil) {
			return verifkit.Fail("roundtrip:decode-error", "Decode of payload %d (%s, threshold %d, encrypted=%v) failed: %v", i, c01Short(payloads[i]), thresholds[i], decrypting, err)
		}
		if ctx == nil {
			return verifkit.Fail("roundtrip:nil-context", "Decode returned nil context without error at payload %d", i)
		}
		if !bytes.Equal(ctx.Payload, payloads[i]) {
			return verifkit.Fail("roundtrip:payload", "payload %d read back as %s, written %s (threshold %d, encrypted=%v)", i, c01Short(ctx.Payload), c01Short(payloads[i]), thresholds[i], decrypting)
		}
		delivered++
		if want := frames[i].end - frames[i].start; ctx.BytesRead != want && bytesReadBad == nil {
			key := "bytesread:uncompressed-mode"
			if thresholds[i] >= 0 {
				key = "bytesread:compression-mode"
			}
			bytesReadBad = verifkit.Violationf(key, "payload %d: PacketContext.BytesRead=%d, the frame occupies %d bytes on the wire (threshold %d)", i, ctx.BytesRead, want, thresholds[i])
		}
	}
	// end of stream / uncarriable frame
	if v := applySets(prev+1, total); v != nil {
		return verifkit.Result{V: v}
	}
	ctx, err := rig.decode()
	if tooLargeAt >= 0 {
		if err == nil || !c01IsFrameTooLarge(err) {
			got := "a packet"
			if ctx != nil {
				got = "payload " + c01Short(ctx.Payload)
			}
			return verifkit.Fail("roundtrip:oversized-frame-not-rejected", "frame %d is wider than 21 bits on the wire; Decode returned %s, err=%v; want *FrameTooLargeError", tooLargeAt, got, err)
		}
	} else {
		if err == nil {
			return verifkit.Fail("roundtrip:phantom-packet", "after all %d payloads Decode returned another packet %s", delivered, c01Short(ctx.Payload))
		}
		if !errors.Is(err, io.EOF) {
			return verifkit.Fail("roundtrip:end-of-stream", "after all %d payloads Decode returned %v, want io.EOF", delivered, err)
		}
		if rd.pos != len(wireBytes) {
			return verifkit.Fail("roundtrip:unread-bytes", "decoder stopped at offset %d of %d", rd.pos, len(wireBytes))
		}
	}
	if bytesRead && bytesReadBad != nil {
		return verifkit.Result{V: bytesReadBad}
	}

	// ---- classification
	labels := []string{}
	below, atOrAbove := false, false
	for i, p := range payloads {
		if thresholds[i] >= 0 && len(p) > 0 {
			if len(p) < thresholds[i] {
				below = true
			} else {
				atOrAbove = true
			}
			switch len(p) - thresholds[i] {
			case -1:
				labels = append(labels, "size=threshold-1")
			case 0:
				labels = append(labels, "size=threshold")
			case 1:
				labels = append(labels, "size=threshold+1")
			}
		}
		if len(p) == 0 {
			labels = append(labels, "empty-payload")
		}
		if len(p) > 1<<16 {
			labels = append(labels, "large-payload")
		}
		if len(p) >= c01MaxFrame-1 {
			labels = append(labels, "payload-at-frame-cap")
		}
	}
	compBoth := below && atOrAbove
	if compBoth {
		labels = append(labels, "compression-both-sides-of-threshold")
	} else if below || atOrAbove {
		labels = append(labels, "compression-one-side")
	} else {
		labels = append(labels, "no-compression")
	}
	if encFrom >= 0 {
		labels = append(labels, "encrypted")
		if encFrom > 0 {
			labels = append(labels, "encryption-enabled-mid-stream")
		}
	}
	if tooLargeAt >= 0 {
		labels = append(labels, "uncarriable-frame")
	}
	split := false
	for _, e := range rd.ends {
		for _, f := range frames {
			if e > f.start && e < f.prefixEnd {
				split = true
			}
		}
	}
	if split {
		labels = append(labels, "read-split-inside-length-prefix")
	}
	nonEmpty := 0
	for _, p := range payloads {
		if len(p) > 0 {
			nonEmpty++
		}
	}
	nt := nonEmpty >= 2 && (compBoth || encFrom >= 0 || split)
	return verifkit.Result{Labels: c01Dedupe(labels), NonTrivial: nt}
}

func c01Dedupe(in []string) []string {
	seen := map[string]bool{}
	var out []string
	for _, l := range in {
		if !seen[l] {
			seen[l] = true
			out = append(out, l)
		}
	}
	return out
}

// ---- generator

func c01GenLen(t *rapid.T, threshold int, large bool) int {
	if large {
		return rapid.OneOf(
			rapid.SampledFrom([]int{c01MaxFrame, c01MaxFrame - 1, c01MaxFrame - 2, c01MaxFrame - 700, 1 << 20, 1<<20 + 1, 1<<20 - 1, 1<<16 + 1}),
			rapid.IntRange(1<<16, c01MaxFrame),
		).Draw(t, "largeLen")
	}
	cands := []int{1, 2, 3, 127, 128, 129, 16383, 16384, 16385, 255, 256, 4096, 65535, 65536}
	if threshold > 0 && threshold <= 1<<16 {
		cands = append(cands, threshold-1, threshold, threshold+1, threshold-1, threshold, threshold+1)
	}
	var ok []int
	for _, v := range cands {
		if v >= 1 {
			ok = append(ok, v)
		}
	}
	return rapid.OneOf(
		rapid.SampledFrom(ok),
		rapid.IntRange(1, 300),
		rapid.IntRange(1, 1<<16),
	).Draw(t, "len")
}

func c01GenCase(t *rapid.T) c01Case      { return c01GenCaseOpt(t, true) }
func c01GenCaseSmall(t *rapid.T) c01Case { return c01GenCaseOpt(t, false) }

func c01GenCaseOpt(t *rapid.T, allowLarge bool) c01Case {
	c := c01Case{ServerBound: rapid.Bool().Draw(t, "serverbound")}
	n := rapid.IntRange(1, 12).Draw(t, "payloads")
	// roughly one case in 100 carries a large payload (cost); rapid's integer draws
	// favour small values, so the trigger is a set of mid-range values
	largeAt := -1
	if allowLarge {
		switch rapid.IntRange(0, 255).Draw(t, "large") {
		case 117, 77, 150, 201, 99:
			largeAt = rapid.IntRange(0, n-1).Draw(t, "largeAt")
		}
	}
	threshold := -1
	encrypted := false
	compSets := 0
	prevNonEmpty := true // a settings change is allowed at the start
	empties := 0
	for i := 0; i < n; i++ {
		var st c01Step
		if prevNonEmpty && rapid.IntRange(0, 2).Draw(t, "change") == 0 {
			set := &c01Set{}
			what := rapid.IntRange(0, 2).Draw(t, "what")
			if (what == 0 || what == 2) && compSets < 2 {
				set.Compression = true
				set.Threshold = rapid.OneOf(
					rapid.SampledFrom([]int{0, 1, 64, 256, -1, 1 << 20, 2, 128, 16384}),
					rapid.IntRange(0, 1<<16),
				).Draw(t, "threshold")
				set.Level = rapid.IntRange(-1, 9).Draw(t, "level")
				threshold = set.Threshold
				compSets++
			}
			if (what == 1 || what == 2) && !encrypted {
				set.Secret = rapid.SliceOfN(rapid.Byte(), 16, 16).Draw(t, "secret")
				encrypted = true
			}
			if set.Compression || set.Secret != nil {
				st.Set = set
			}
		}
		st.Seed = rapid.Uint32().Draw(t, "seed")
		st.Kind = rapid.SampledFrom([]string{"random", "zero", "pattern", "text", "random", "text"}).Draw(t, "kind")
		switch {
		case i == largeAt:
			st.Len = c01GenLen(t, threshold, true)
		case c.ServerBound && rapid.IntRange(0, 9).Draw(t, "hs") == 0:
			st.Kind = "handshake"
			st.Len = 1
		case threshold != 0 && empties < 3 && rapid.IntRange(0, 11).Draw(t, "empty") == 0:
			st.Len = 0
			empties++
		default:
			st.Len = c01GenLen(t, threshold, false)
		}
		if st.Kind == "handshake" {
			st.Len = len(c01Payload(st))
		}
		prevNonEmpty = st.Len > 0
		c.Steps = append(c.Steps, st)
	}
	c.Chunks = rapid.OneOf(
		rapid.Just([]int{0}),
		rapid.Just([]int{1}),
		rapid.SliceOfN(rapid.IntRange(1, 5), 1, 8),
		rapid.SliceOfN(rapid.OneOf(rapid.IntRange(1, 4), rapid.IntRange(1, 70000)), 1, 8),
	).Draw(t, "chunks")
	// one-byte chunks over megabytes are pointlessly slow
	if largeAt >= 0 && len(c.Chunks) > 0 {
		for i := range c.Chunks {
			if c.Chunks[i] != 0 && c.Chunks[i] < 512 {
				c.Chunks[i] += 4096
			}
		}
	}
	return c
}

func TestVerif_C01(t *testing.T) {
	verifkit.Check(t, "C01", "netmc",
		"1..12 payloads (len boundary-biased around the active threshold, 127/128, 16383/16384, 64 KiB; ~1% of cases carry one payload up to 2^21-1; kinds random/zero/pattern/text/handshake; empties allowed except at threshold 0), settings changes (threshold -1..2^20 x level -1..9, 16-byte secret) at the start or directly after a non-empty packet, both directions, read side chunked (whole, 1 byte, small, mixed); netmc.NewWriter (bufio, Flush at generated points) -> fake net.Conn -> netmc.NewReader; non-trivial = >=2 non-empty payloads and (compressed payloads on both sides of the threshold, or encryption, or a read boundary inside a length prefix)",
		c01GenCase, c01Run)
	verifkit.Check(t, "C01", "netmc-bytesread",
		"same generator without the large payloads; same run; additionally PacketContext.BytesRead of every delivered packet must equal the size of its frame on the wire (doc comment of PacketContext.BytesRead; consumed by the serverbound packet rate limiter)",
		c01GenCaseSmall, c01RunBytesRead)
}
