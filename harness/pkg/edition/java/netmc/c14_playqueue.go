//go:build verif

package netmc

// C14: while a client is in the configuration phase, play-only packets written to
// it are held back and, once it returns to play, delivered in write order, none
// lost or duplicated, before any play packet written later; packets valid in the
// configuration phase are written immediately; the holding queue is bounded and
// overflow closes the connection instead of dropping silently.
//
// Observation point: the bytes written to a fake net.Conn under a real
// NewMinecraftConn, split into frames by the independent reference framing
// (verifkit.RefReadFrame). Every generated packet carries a unique ASCII marker
// (~P<n>~ in the text of a chat.SystemChat, play-only; ~C<n>~ in the data of a
// plugin.Message, valid in play and config); the empty StartUpdate /
// FinishedUpdate packets are recognised by their packet id.
//
// sequential: one goroutine runs a scripted op list over {write play-only /
// config-valid packet via WritePacket or BufferPacket, bursts up to and beyond the
// 1024 bound, enter config (StartUpdate + Writer().SetState + EnablePlayPacketQueue
// as player.switchToConfigState does / SetState(Config) / EnablePlayPacketQueue),
// leave config (FinishedUpdate + SetOutboundState(Play) as the client config
// handler does / SetState(Play)), Flush}. Exact model of the wire.
//
// concurrent: W writer goroutines with numbered streams, a controller doing the
// state changes, scripted prefix + free rest from a barrier, repeated; weaker,
// linearisation-style oracle (see c14ConcJudge).

import (
	"context"
	"errors"
	"fmt"
	"io"
	"net"
	"regexp"
	"runtime"
	"sort"
	"strconv"
	"strings"
	"sync"
	"sync/atomic"
	"testing"
	"time"

	"go.minekube.com/common/minecraft/component"
	"go.minekube.com/gate/pkg/edition/java/proto/packet/chat"
	"go.minekube.com/gate/pkg/edition/java/proto/packet/config"
	"go.minekube.com/gate/pkg/edition/java/proto/packet/plugin"
	"go.minekube.com/gate/pkg/edition/java/proto/state"
	"go.minekube.com/gate/pkg/edition/java/proto/util/queue"
	"go.minekube.com/gate/pkg/edition/java/proto/version"
	"go.minekube.com/gate/pkg/gate/proto"
	"go.minekube.com/gate/pkg/internal/verifkit"
	"pgregory.net/rapid"
)

const c14Cap = 1024 // bound of the holding queue as stated by the property

// c14Unsync is the key of one root-cause family of the concurrent check: the
// decision "queue or write" in minecraftConn.bufferPacket and the call of
// PlayPacketQueue.Queue happen after c.mu was released, and the deque has no lock
// of its own. Symptoms that this (and, among the oracle clauses, only this) can
// produce share the key; the symptom is named in the message: a play packet
// rejected by the encoder in config state, a play packet lost or duplicated, play
// packets reordered, a panic inside the deque.
const c14Unsync = "unsynchronised-queue:bufferPacket"

// ---- fake connection (write recorder)

type c14Conn struct {
	mu     sync.Mutex
	buf    []byte
	closed bool
}

func (c *c14Conn) Read([]byte) (int, error) { select {} }
func (c *c14Conn) Write(p []byte) (int, error) {
	c.mu.Lock()
	defer c.mu.Unlock()
	if c.closed {
		return 0, &net.OpError{Op: "write", Net: "tcp", Err: net.ErrClosed}
	}
	c.buf = append(c.buf, p...)
	return len(p), nil
}
func (c *c14Conn) Close() error {
	c.mu.Lock()
	defer c.mu.Unlock()
	if c.closed {
		return &net.OpError{Op: "close", Net: "tcp", Err: net.ErrClosed}
	}
	c.closed = true
	return nil
}
func (c *c14Conn) snapshot() []byte {
	c.mu.Lock()
	defer c.mu.Unlock()
	return c.buf[:len(c.buf):len(c.buf)]
}
func (c *c14Conn) LocalAddr() net.Addr             { return &net.TCPAddr{IP: net.IPv4(127, 0, 0, 1), Port: 25565} }
func (c *c14Conn) RemoteAddr() net.Addr            { return &net.TCPAddr{IP: net.IPv4(127, 0, 0, 2), Port: 40000} }
func (c *c14Conn) SetDeadline(time.Time) error     { return nil }
func (c *c14Conn) SetReadDeadline(time.Time) error { return nil }
func (c *c14Conn) SetWriteDeadline(time.Time) error {
	c.mu.Lock()
	defer c.mu.Unlock()
	if c.closed {
		return &net.OpError{Op: "set", Net: "tcp", Err: net.ErrClosed}
	}
	return nil
}

// ---- fixture: protocols and packet ids

type c14IDs struct {
	protocol                    proto.Protocol
	chatPlay                    int // SystemChat, play
	msgPlay, msgConfig          int // plugin.Message
	startUpdate, finishedUpdate int // StartUpdate in play, FinishedUpdate in config
}

var (
	c14IDsOnce sync.Once
	c14IDsList []c14IDs
)

// c14Protocols lists every known protocol >= 1.20.2 (the config phase exists
// since then) for which the packets used here are registered.
func c14Protocols() []c14IDs {
	c14IDsOnce.Do(func() {
		for _, v := range version.Versions {
			if v.Protocol < version.Minecraft_1_20_2.Protocol {
				continue
			}
			play := state.FromDirection(proto.ClientBound, state.Play, v.Protocol)
			cfg := state.FromDirection(proto.ClientBound, state.Config, v.Protocol)
			if play == nil || cfg == nil || play.Protocol != v.Protocol || cfg.Protocol != v.Protocol {
				continue
			}
			var ids c14IDs
			ids.protocol = v.Protocol
			ok := true
			get := func(r *state.ProtocolRegistry, p proto.Packet) int {
				id, found := r.PacketID(p)
				if !found {
					ok = false
				}
				return int(id)
			}
			ids.chatPlay = get(play, &chat.SystemChat{})
			ids.msgPlay = get(play, &plugin.Message{})
			ids.msgConfig = get(cfg, &plugin.Message{})
			ids.startUpdate = get(play, &config.StartUpdate{})
			ids.finishedUpdate = get(cfg, &config.FinishedUpdate{})
			if _, inCfg := cfg.PacketID(&chat.SystemChat{}); inCfg {
				ok = false // not play-only in this protocol
			}
			if ok {
				c14IDsList = append(c14IDsList, ids)
			}
		}
	})
	return c14IDsList
}

func c14FindIDs(p int) (c14IDs, bool) {
	for _, ids := range c14Protocols() {
		if int(ids.protocol) == p {
			return ids, true
		}
	}
	return c14IDs{}, false
}

func c14PlayPacket(n int) proto.Packet {
	return &chat.SystemChat{Component: chat.FromComponent(&component.Text{Content: "~P" + strconv.Itoa(n) + "~"}), Type: chat.SystemMessageType}
}

func c14ConfigPacket(n int) proto.Packet {
	return &plugin.Message{Channel: "verif:c14", Data: []byte("~C" + strconv.Itoa(n) + "~")}
}

// ---- wire parsing with the reference framing

var c14Marker = regexp.MustCompile(`~([PC])(\d+)~`)

type c14Wire struct {
	r      *verifkit.RefReader
	tokens []string
}

// c14Token names a frame: "P<n>@<id>", "C<n>@<id>" or "ctl@<id>" (empty body).
func c14Token(payload []byte) (string, error) {
	pr := verifkit.NewRefReader(payload)
	id, err := pr.VarInt()
	if err != nil {
		return "", fmt.Errorf("frame without packet id")
	}
	body := pr.Rest()
	ms := c14Marker.FindAllSubmatch(body, -1)
	switch {
	case len(ms) == 1:
		return fmt.Sprintf("%s%s@%d", ms[0][1], ms[0][2], id), nil
	case len(ms) == 0 && len(body) == 0:
		return fmt.Sprintf("ctl@%d", id), nil
	}
	return "", fmt.Errorf("frame id %d with %d markers and %d body bytes", id, len(ms), len(body))
}

// advance parses all complete frames available in b (the whole stream so far).
func (w *c14Wire) advance(b []byte) error {
	if w.r == nil {
		w.r = verifkit.NewRefReader(nil)
	}
	w.r.B = b
	for {
		save := w.r.Pos
		payload, err := verifkit.RefReadFrame(w.r, -1, 1<<21)
		if err != nil {
			w.r.Pos = save
			if errors.Is(err, verifkit.ErrRefShort) || errors.Is(err, io.EOF) {
				return nil
			}
			return err
		}
		tok, err := c14Token(payload)
		if err != nil {
			return err
		}
		w.tokens = append(w.tokens, tok)
	}
}

func (w *c14Wire) complete() bool { return w.r == nil || w.r.Remaining() == 0 }

func c14NewConn(fake net.Conn, p proto.Protocol) MinecraftConn {
	conn, _ := NewMinecraftConn(context.Background(), fake, proto.ServerBound, time.Hour, time.Hour, -1, nil)
	conn.SetProtocol(p)
	conn.SetState(state.Play)
	return conn
}

// =====================================================================
// sequential variant: exact model
// =====================================================================

type c14SeqOp struct {
	Kind  string `json:"kind"`            // "p" | "c" | "enter" | "leave" | "flush"
	Count int    `json:"count,omitempty"` // p: packets written back to back (default 1)
	Flush bool   `json:"flush,omitempty"` // p/c: WritePacket instead of BufferPacket
	Via   string `json:"via,omitempty"`   // enter: start-update | set-state | enable-queue; leave: outbound | set-state
}

type c14SeqCase struct {
	Protocol int        `json:"protocol"`
	Ops      []c14SeqOp `json:"ops"`
}

type c14SeqModel struct {
	ids     c14IDs
	config  bool // encoder (outbound) state is config
	queue   bool // holding queue active
	held    []int
	written []string // tokens handed to the encoder, in order
	flushed int      // how many of them must be on the wire by now
	closed  bool
}

func (m *c14SeqModel) pTok(n int) string { return fmt.Sprintf("P%d@%d", n, m.ids.chatPlay) }
func (m *c14SeqModel) cTok(n int) string {
	if m.config {
		return fmt.Sprintf("C%d@%d", n, m.ids.msgConfig)
	}
	return fmt.Sprintf("C%d@%d", n, m.ids.msgPlay)
}
func (m *c14SeqModel) release() {
	if !m.queue {
		return
	}
	for _, n := range m.held {
		m.written = append(m.written, m.pTok(n))
	}
	if len(m.held) > 0 {
		m.flushed = len(m.written)
	}
	m.held, m.queue = nil, false
}

func c14SeqRun(c c14SeqCase) verifkit.Result {
	ids, ok := c14FindIDs(c.Protocol)
	if !ok || len(c.Ops) > 200 {
		return verifkit.Result{Labels: []string{"invalid-case"}}
	}
	fake := &c14Conn{}
	conn := c14NewConn(fake, ids.protocol)
	m := &c14SeqModel{ids: ids}
	wire := &c14Wire{}
	nextP, nextC := 1, 1
	var labels = map[string]bool{}
	maxHeld, released, configWrites, overflowed := 0, 0, 0, false

	check := func(step int, what string) *verifkit.Violation {
		if err := wire.advance(fake.snapshot()); err != nil {
			return verifkit.Violationf("wire-corrupt:sequential", "step %d (%s): %v", step, what, err)
		}
		if len(wire.tokens) > len(m.written) {
			extra := wire.tokens[len(m.written)]
			key := "unexpected-frame:sequential"
			if strings.HasPrefix(extra, "P") {
				key = "play-packet-not-held-back:bufferPacket"
				for _, t := range m.written {
					if strings.SplitN(t, "@", 2)[0] == strings.SplitN(extra, "@", 2)[0] {
						key = "duplicated:ReleaseQueue"
					}
				}
			}
			return verifkit.Violationf(key, "step %d (%s): wire has frame %s beyond the %d packets the model has written", step, what, extra, len(m.written))
		}
		for i, tok := range wire.tokens {
			if tok != m.written[i] {
				key := "order:sequential"
				if strings.SplitN(tok, "@", 2)[0] == strings.SplitN(m.written[i], "@", 2)[0] {
					key = "wrong-state-encoding:sequential"
				} else if strings.HasPrefix(tok, "P") && strings.HasPrefix(m.written[i], "P") {
					key = "order:ReleaseQueue"
				}
				return verifkit.Violationf(key, "step %d (%s): wire frame %d is %s, model expects %s", step, what, i, tok, m.written[i])
			}
		}
		if !m.closed && len(wire.tokens) < m.flushed {
			missing := m.written[len(wire.tokens)]
			key := "not-flushed:sequential"
			switch {
			case strings.HasPrefix(missing, "C"):
				key = "config-packet-not-written-immediately:bufferPacket"
			case strings.HasPrefix(missing, "P") && released > 0:
				key = "lost:ReleaseQueue"
			}
			return verifkit.Violationf(key, "step %d (%s): %d frames on the wire, model requires at least %d (next missing %s)", step, what, len(wire.tokens), m.flushed, missing)
		}
		if Closed(conn) != m.closed {
			return verifkit.Violationf("closed-state:sequential", "step %d (%s): Closed(conn)=%v, model closed=%v", step, what, Closed(conn), m.closed)
		}
		return nil
	}
	wantErr := func(step int, what string, err, want error) *verifkit.Violation {
		if want == nil && err != nil {
			return verifkit.Violationf("write-error:sequential", "step %d (%s): unexpected error %v", step, what, err)
		}
		if want != nil && !errors.Is(err, want) {
			key := "write-result:sequential"
			if want == queue.ErrQueueFull {
				key = "overflow-not-reported:Queue"
			}
			return verifkit.Violationf(key, "step %d (%s): got %v, want %v", step, what, err, want)
		}
		return nil
	}

	for step, op := range c.Ops {
		switch op.Kind {
		case "p":
			count := op.Count
			if count < 1 {
				count = 1
			}
			for k := 0; k < count; k++ {
				n := nextP
				nextP++
				var want error
				switch {
				case m.closed:
					want = ErrClosedConn
				case m.queue && len(m.held) >= c14Cap:
					want = queue.ErrQueueFull
					m.closed, overflowed = true, true
				case m.queue:
					m.held = append(m.held, n)
					if len(m.held) > maxHeld {
						maxHeld = len(m.held)
					}
					if op.Flush {
						m.flushed = len(m.written)
					}
				default:
					m.written = append(m.written, m.pTok(n))
					if op.Flush {
						m.flushed = len(m.written)
					}
				}
				var err error
				if op.Flush {
					err = conn.WritePacket(c14PlayPacket(n))
				} else {
					err = conn.BufferPacket(c14PlayPacket(n))
				}
				if v := wantErr(step, "play packet "+strconv.Itoa(n), err, want); v != nil {
					return verifkit.Result{V: v}
				}
			}
		case "c":
			n := nextC
			nextC++
			var want error
			if m.closed {
				want = ErrClosedConn
			} else {
				if m.config || m.queue {
					configWrites++
				}
				m.written = append(m.written, m.cTok(n))
				if op.Flush {
					m.flushed = len(m.written)
				}
			}
			var err error
			if op.Flush {
				err = conn.WritePacket(c14ConfigPacket(n))
			} else {
				err = conn.BufferPacket(c14ConfigPacket(n))
			}
			if v := wantErr(step, "config-valid packet "+strconv.Itoa(n), err, want); v != nil {
				return verifkit.Result{V: v}
			}
		case "flush":
			if !m.closed {
				m.flushed = len(m.written)
			}
			_ = conn.Flush()
		case "enter":
			via := op.Via
			if via == "start-update" && (m.config || m.queue || m.closed) {
				via = "set-state" // switchToConfigState is only entered from play
			}
			switch via {
			case "start-update": // player.switchToConfigState
				m.written = append(m.written, fmt.Sprintf("ctl@%d", ids.startUpdate))
				m.config, m.queue = true, true
				m.flushed = len(m.written)
				if err := conn.BufferPacket(&config.StartUpdate{}); err != nil {
					return verifkit.Fail("write-error:sequential", "step %d: StartUpdate: %v", step, err)
				}
				conn.Writer().SetState(state.Config)
				conn.EnablePlayPacketQueue()
				_ = conn.Flush()
			case "enable-queue":
				m.queue = true
				conn.EnablePlayPacketQueue()
			default:
				m.config, m.queue = true, true
				conn.SetState(state.Config)
			}
			labels["enter:"+via] = true
		case "leave":
			via := op.Via
			if via == "outbound" && (!m.config || m.closed) {
				via = "set-state" // FinishedUpdate can only be written in config
			}
			if len(m.held) > 0 && !m.closed {
				released += len(m.held)
				labels["released-nonempty"] = true
			}
			switch via {
			case "outbound": // clientConfigSessionHandler.handleBackendFinishUpdate
				m.written = append(m.written, fmt.Sprintf("ctl@%d", ids.finishedUpdate))
				m.flushed = len(m.written)
				if err := conn.WritePacket(&config.FinishedUpdate{}); err != nil {
					return verifkit.Fail("write-error:sequential", "step %d: FinishedUpdate: %v", step, err)
				}
				m.config = false
				if !m.closed {
					m.release()
				}
				conn.SetOutboundState(state.Play)
			default:
				m.config = false
				if !m.closed {
					m.release()
				}
				conn.SetState(state.Play)
			}
			labels["leave:"+via] = true
		default:
			return verifkit.Result{Labels: []string{"invalid-case"}}
		}
		if v := check(step, op.Kind); v != nil {
			return verifkit.Result{V: v}
		}
	}
	// end: everything handed to the encoder is on the wire after a flush and
	// nothing that is still held; then leaving config delivers the rest.
	if !m.closed {
		m.flushed = len(m.written)
		_ = conn.Flush()
		if v := check(len(c.Ops), "final flush"); v != nil {
			return verifkit.Result{V: v}
		}
		if len(m.held) > 0 {
			released += len(m.held)
		}
		m.config = false
		m.release()
		conn.SetState(state.Play)
		m.flushed = len(m.written)
		_ = conn.Flush()
		if v := check(len(c.Ops)+1, "final leave"); v != nil {
			return verifkit.Result{V: v}
		}
		if !wire.complete() || len(wire.tokens) != len(m.written) {
			return verifkit.Fail("wire-incomplete:sequential", "after the final leave the wire has %d frames (complete=%v), model wrote %d", len(wire.tokens), wire.complete(), len(m.written))
		}
	}
	_ = conn.Close()

	var ls []string
	for l := range labels {
		ls = append(ls, l)
	}
	switch {
	case overflowed:
		ls = append(ls, "overflow")
	case maxHeld == c14Cap:
		ls = append(ls, "held:exactly-1024")
	case maxHeld >= 1000:
		ls = append(ls, "held:1000-1023")
	case maxHeld > 0:
		ls = append(ls, "held:1-999")
	default:
		ls = append(ls, "held:0")
	}
	if configWrites > 0 {
		ls = append(ls, "config-valid-during-config")
	}
	sort.Strings(ls)
	return verifkit.Result{NonTrivial: released > 0 || overflowed, Labels: ls}
}

func c14SeqGen(t *rapid.T) c14SeqCase {
	protos := c14Protocols()
	ids := rapid.SampledFrom(protos).Draw(t, "protocol")
	c := c14SeqCase{Protocol: int(ids.protocol)}
	inConfig, q, held := false, false, 0
	nOps := rapid.IntRange(1, 30).Draw(t, "nOps")
	bigDone := false
	for i := 0; i < nOps; i++ {
		kind := rapid.SampledFrom([]string{"p", "p", "p", "p", "c", "c", "enter", "enter", "leave", "leave", "flush", "fill"}).Draw(t, "kind")
		op := c14SeqOp{Kind: kind}
		switch kind {
		case "p":
			op.Flush = rapid.Bool().Draw(t, "flush")
			op.Count = rapid.SampledFrom([]int{1, 1, 1, 2, 5}).Draw(t, "count")
			if q {
				held += op.Count
			}
		case "fill":
			// bring the holding queue to the boundary (only once per case: cost)
			if !q || bigDone {
				op = c14SeqOp{Kind: "p", Count: 1, Flush: rapid.Bool().Draw(t, "flush")}
				if q {
					held++
				}
				break
			}
			bigDone = true
			delta := rapid.SampledFrom([]int{-2, -1, 0, 0, 1, 1, 2, 40}).Draw(t, "delta")
			n := c14Cap - held + delta
			if n < 1 {
				n = 1
			}
			op = c14SeqOp{Kind: "p", Count: n}
			held += n
		case "c":
			op.Flush = rapid.Bool().Draw(t, "flush")
		case "enter":
			op.Via = rapid.SampledFrom([]string{"start-update", "set-state", "set-state", "enable-queue"}).Draw(t, "via")
			if op.Via == "start-update" && (inConfig || q) {
				op.Via = "set-state"
			}
			q = true
			if op.Via != "enable-queue" {
				inConfig = true
			}
		case "leave":
			op.Via = rapid.SampledFrom([]string{"outbound", "set-state"}).Draw(t, "via")
			if op.Via == "outbound" && !inConfig {
				op.Via = "set-state"
			}
			inConfig, q, held = false, false, 0
		}
		c.Ops = append(c.Ops, op)
	}
	return c
}

// =====================================================================
// concurrent variant
// =====================================================================

type c14ConcOp struct {
	// writers: "p" | "c"; controller (actor 0): "enter" | "leave"
	Kind  string `json:"kind"`
	Flush bool   `json:"flush,omitempty"`
	Via   string `json:"via,omitempty"` // enter: set-state | enable-queue; leave: outbound | set-state
	Yield int    `json:"yield,omitempty"`
}

type c14ConcCase struct {
	Protocol int           `json:"protocol"`
	Actors   [][]c14ConcOp `json:"actors"` // actor 0 = controller
	Order    []int         `json:"order,omitempty"`
	Reps     int           `json:"reps"`
}

type c14Node struct {
	a, i   int
	lo, hi int
}

func c14KB(x, y c14Node) bool { return x.hi < y.lo || (x.a == y.a && x.i < y.i) }

const c14Inf = 1 << 30

type c14ConcModel struct {
	ids        c14IDs
	pos        [][]int
	gates      int
	nodes      [][]c14Node
	leaveVia   []string // effective variant per controller op ("" for non-leave)
	enterVia   []string
	labels     []string
	nontrivial bool
}

func c14ConcValid(c c14ConcCase) error {
	if _, ok := c14FindIDs(c.Protocol); !ok {
		return fmt.Errorf("protocol")
	}
	if len(c.Actors) < 2 || len(c.Actors) > 9 || c.Reps < 1 || c.Reps > 1000 {
		return fmt.Errorf("sizes")
	}
	total := 0
	for a, ops := range c.Actors {
		if len(ops) > 40 {
			return fmt.Errorf("ops")
		}
		for _, op := range ops {
			total++
			switch {
			case a == 0 && op.Kind == "enter" && (op.Via == "set-state" || op.Via == "enable-queue"):
			case a == 0 && op.Kind == "leave" && (op.Via == "outbound" || op.Via == "set-state"):
			case a > 0 && (op.Kind == "p" || op.Kind == "c"):
			default:
				return fmt.Errorf("op kind")
			}
		}
	}
	if total > 400 {
		return fmt.Errorf("too many ops") // far below the 1024 bound: no overflow here
	}
	used := make([]int, len(c.Actors))
	for _, a := range c.Order {
		if a < 0 || a >= len(c.Actors) {
			return fmt.Errorf("order")
		}
		used[a]++
		if used[a] > len(c.Actors[a]) {
			return fmt.Errorf("order")
		}
	}
	return nil
}

func c14ConcBuild(c c14ConcCase) *c14ConcModel {
	ids, _ := c14FindIDs(c.Protocol)
	m := &c14ConcModel{ids: ids}
	m.pos = make([][]int, len(c.Actors))
	lastGated := make([]int, len(c.Actors))
	for a := range c.Actors {
		m.pos[a] = make([]int, len(c.Actors[a]))
		for i := range m.pos[a] {
			m.pos[a][i] = -1
		}
		lastGated[a] = -1
	}
	next := make([]int, len(c.Actors))
	for p, a := range c.Order {
		m.pos[a][next[a]] = p
		next[a]++
		lastGated[a] = p
	}
	m.gates = len(c.Order)
	m.nodes = make([][]c14Node, len(c.Actors))
	for a, ops := range c.Actors {
		for i := range ops {
			n := c14Node{a: a, i: i}
			if p := m.pos[a][i]; p >= 0 {
				n.lo, n.hi = p, p
			} else {
				n.lo, n.hi = lastGated[a], c14Inf
			}
			m.nodes[a] = append(m.nodes[a], n)
		}
	}
	// controller: effective variants (FinishedUpdate only while the encoder is in config)
	encConfig := false
	m.leaveVia = make([]string, len(c.Actors[0]))
	m.enterVia = make([]string, len(c.Actors[0]))
	for i, op := range c.Actors[0] {
		switch op.Kind {
		case "enter":
			m.enterVia[i] = op.Via
			if op.Via == "set-state" {
				encConfig = true
			}
		case "leave":
			via := op.Via
			if via == "outbound" && !encConfig {
				via = "set-state"
			}
			m.leaveVia[i] = via
			encConfig = false
		}
	}
	// labels
	overlap, heldKnown := false, false
	writers, pw, cw := 0, 0, 0
	for a := 1; a < len(c.Actors); a++ {
		if len(c.Actors[a]) > 0 {
			writers++
		}
		for i, op := range c.Actors[a] {
			if op.Kind == "p" {
				pw++
			} else {
				cw++
			}
			w := m.nodes[a][i]
			for j := range c.Actors[0] {
				s := m.nodes[0][j]
				if !c14KB(w, s) && !c14KB(s, w) {
					overlap = true
				}
			}
		}
	}
	for _, iv := range c14ConfigIntervals(c, m) {
		for a := 1; a < len(c.Actors); a++ {
			for i, op := range c.Actors[a] {
				if op.Kind == "p" && c14KB(m.nodes[0][iv[0]], m.nodes[a][i]) && c14KB(m.nodes[a][i], m.nodes[0][iv[1]]) {
					heldKnown = true
				}
			}
		}
	}
	hasEnter := false
	for _, op := range c.Actors[0] {
		if op.Kind == "enter" {
			hasEnter = true
		}
	}
	m.nontrivial = overlap && hasEnter && pw > 0
	if overlap {
		m.labels = append(m.labels, "write-overlaps-state-change")
	}
	if heldKnown {
		m.labels = append(m.labels, "play-packet-known-held")
	}
	if writers >= 2 {
		m.labels = append(m.labels, "writers>=2")
	} else {
		m.labels = append(m.labels, "writers:1")
	}
	if cw > 0 {
		m.labels = append(m.labels, "config-valid-writes")
	}
	total := 0
	for _, ops := range c.Actors {
		total += len(ops)
	}
	switch {
	case len(c.Order) == 0:
		m.labels = append(m.labels, "mode:free")
	case len(c.Order) == total:
		m.labels = append(m.labels, "mode:serial")
	default:
		m.labels = append(m.labels, "mode:partial")
	}
	return m
}

// c14ConfigIntervals returns [enter op index, leave op index] pairs of the
// controller: the enter that activates holding and the first leave after it.
func c14ConfigIntervals(c c14ConcCase, m *c14ConcModel) [][2]int {
	var out [][2]int
	open := -1
	for i, op := range c.Actors[0] {
		switch op.Kind {
		case "enter":
			if open < 0 {
				open = i
			}
		case "leave":
			if open >= 0 {
				out = append(out, [2]int{open, i})
				open = -1
			}
		}
	}
	return out
}

type c14ConcEnv struct {
	c       c14ConcCase
	m       *c14ConcModel
	rep     int
	fake    *c14Conn
	conn    MinecraftConn
	errs    [][]error
	start   chan struct{}
	gate    []chan struct{}
	wg      sync.WaitGroup
	flagged atomic.Pointer[verifkit.Violation]
}

func c14PNum(a, i int) int { return a*1000 + i }

// leave markers: FinishedUpdate for "outbound"; a config-valid packet numbered
// 900000+i for "set-state" (written before the state change, never held).
func c14LeaveMarker(i int) int { return 900000 + i }

func (e *c14ConcEnv) c14Actor(a int) {
	defer e.wg.Done()
	defer func() {
		if r := recover(); r != nil {
			buf := make([]byte, 8192)
			buf = buf[:runtime.Stack(buf, false)]
			key := "panic:concurrent"
			if strings.Contains(string(buf), "(*PlayPacketQueue).Queue") || strings.Contains(string(buf), "(*PlayPacketQueue).ReleaseQueue") {
				key = c14Unsync
			}
			e.flagged.CompareAndSwap(nil, verifkit.Violationf(key, "symptom: panic in the holding queue; actor %d panicked: %v\n%s", a, r, buf))
		}
	}()
	<-e.start
	for i, op := range e.c.Actors[a] {
		p := e.m.pos[a][i]
		if p >= 0 {
			<-e.gate[p]
		}
		for y := (op.Yield + e.rep + a) % 4; y > 0; y-- {
			runtime.Gosched()
		}
		e.c14Exec(a, i, op)
		if p >= 0 {
			close(e.gate[p+1])
		}
	}
}

func (e *c14ConcEnv) c14Exec(a, i int, op c14ConcOp) {
	switch op.Kind {
	case "p", "c":
		var pk proto.Packet
		if op.Kind == "p" {
			pk = c14PlayPacket(c14PNum(a, i))
		} else {
			pk = c14ConfigPacket(c14PNum(a, i))
		}
		if op.Flush {
			e.errs[a][i] = e.conn.WritePacket(pk)
		} else {
			e.errs[a][i] = e.conn.BufferPacket(pk)
		}
	case "enter":
		if e.m.enterVia[i] == "enable-queue" {
			e.conn.EnablePlayPacketQueue()
		} else {
			e.conn.SetState(state.Config)
		}
	case "leave":
		if e.m.leaveVia[i] == "outbound" {
			e.errs[a][i] = e.conn.WritePacket(&config.FinishedUpdate{})
			e.conn.SetOutboundState(state.Play)
		} else {
			e.errs[a][i] = e.conn.WritePacket(c14ConfigPacket(c14LeaveMarker(i)))
			e.conn.SetState(state.Play)
		}
	}
}

func c14ConcRunOnce(c c14ConcCase, m *c14ConcModel, rep int) (v *verifkit.Violation, inconclusive bool) {
	e := &c14ConcEnv{c: c, m: m, rep: rep, fake: &c14Conn{}, start: make(chan struct{})}
	e.errs = make([][]error, len(c.Actors))
	for a := range c.Actors {
		e.errs[a] = make([]error, len(c.Actors[a]))
	}
	e.gate = make([]chan struct{}, m.gates+1)
	for i := range e.gate {
		e.gate[i] = make(chan struct{})
	}
	close(e.gate[0])
	var finished atomic.Bool
	var finalErr error
	w := verifkit.Watch(5*time.Second, "", func() {
		e.conn = c14NewConn(e.fake, m.ids.protocol)
		e.wg.Add(len(c.Actors))
		for k := range c.Actors {
			go e.c14Actor((k + rep) % len(c.Actors))
		}
		close(e.start)
		e.wg.Wait()
		// final leave: everything still held is delivered
		e.conn.SetState(state.Play)
		finalErr = e.conn.Flush()
		finished.Store(true)
	})
	switch w.Outcome {
	case verifkit.Panicked:
		key := "panic:concurrent"
		if strings.Contains(w.PanicStack, "(*PlayPacketQueue).ReleaseQueue") || strings.Contains(w.PanicStack, "(*PlayPacketQueue).Queue") {
			key = c14Unsync
		}
		return verifkit.Violationf(key, "symptom: panic in the holding queue during the final leave; %v\n%s", w.PanicValue, w.PanicStack), false
	case verifkit.Deadlocked, verifkit.Slow:
		if finished.Load() {
			break
		}
		if fv := e.flagged.Load(); fv != nil {
			return fv, false // a recovered panic may have left a mutex of the connection locked
		}
		if ok, why := c14ConfirmDeadlock(); ok {
			return verifkit.Violationf("deadlock:minecraftConn", "operations did not return: %s", why), false
		}
		return nil, true
	}
	if fv := e.flagged.Load(); fv != nil {
		return fv, false
	}
	return c14ConcJudge(e, finalErr), false
}

func c14ConfirmDeadlock() (bool, string) {
	buf := make([]byte, 4<<20)
	buf = buf[:runtime.Stack(buf, true)]
	in := ""
	n := 0
	for _, sec := range strings.Split(string(buf), "\n\n") {
		if !strings.Contains(sec, ").c14Actor") {
			continue
		}
		n++
		head := sec
		if i := strings.IndexByte(sec, '\n'); i >= 0 {
			head = sec[:i]
		}
		parked := strings.Contains(head, "sync.Mutex.Lock") || strings.Contains(head, "sync.RWMutex") || strings.Contains(head, "semacquire") ||
			strings.Contains(head, "chan receive")
		if !parked {
			return false, ""
		}
		if strings.Contains(sec, "netmc.(*minecraftConn)") && (strings.Contains(sec, "sync.(*Mutex).Lock") || strings.Contains(sec, "sync.(*RWMutex)")) {
			in = sec
		}
	}
	if n == 0 || in == "" {
		return false, ""
	}
	return true, in
}

// c14ConcJudge: linearisation-style validity predicate over the final wire.
//
//	(1) no write returned an error and the connection is open (the scenario stays
//	    far below the 1024 bound);
//	(2) the wire parses; every written packet appears exactly once; nothing else
//	    except the leave markers;
//	(3) real-time order: if a play packet's write returned before another play
//	    packet's write started (script or program order), it is earlier on the wire
//	    (covers per-writer order and "queued before any play packet written later");
//	    a config-valid packet is earlier than every packet whose write started after
//	    its write returned (written immediately, never held);
//	(4) a play packet written entirely between an enter and the following leave of
//	    the controller is later on the wire than that leave's marker (it was held).
func c14ConcJudge(e *c14ConcEnv, finalErr error) *verifkit.Violation {
	c, m := e.c, e.m
	for pass := 0; pass < 2; pass++ {
		for a, errsA := range e.errs {
			for i, err := range errsA {
				if err == nil {
					continue
				}
				rejected := c.Actors[a][i].Kind == "p" && strings.Contains(err.Error(), "not registered in the ClientBound Config state")
				if pass == 0 && rejected {
					return verifkit.Violationf(c14Unsync, "symptom: play packet rejected by the encoder and connection closed; actor %d op %d returned %v (rep %d)", a, i, err, e.rep)
				}
				if pass == 1 {
					return verifkit.Violationf("write-error:bufferPacket", "actor %d op %d (%s) returned %v (rep %d)", a, i, c.Actors[a][i].Kind, err, e.rep)
				}
			}
		}
	}
	if finalErr != nil || Closed(e.conn) {
		return verifkit.Violationf("closed:concurrent", "connection closed / final flush error %v (rep %d)", finalErr, e.rep)
	}
	wire := &c14Wire{}
	if err := wire.advance(e.fake.snapshot()); err != nil {
		return verifkit.Violationf("wire-corrupt:concurrent", "%v (rep %d)", err, e.rep)
	}
	if !wire.complete() {
		return verifkit.Violationf("wire-corrupt:concurrent", "trailing partial frame (rep %d)", e.rep)
	}
	pos := map[string]int{}
	var ctl []int
	for k, tok := range wire.tokens {
		name := strings.SplitN(tok, "@", 2)[0]
		if name == "ctl" {
			if tok != fmt.Sprintf("ctl@%d", m.ids.finishedUpdate) {
				return verifkit.Violationf("unexpected-frame:concurrent", "frame %d is %s (rep %d)", k, tok, e.rep)
			}
			ctl = append(ctl, k)
			continue
		}
		if _, dup := pos[name]; dup {
			key := c14Unsync
			if strings.HasPrefix(name, "C") {
				key = "duplicated-config-valid:concurrent"
			}
			return verifkit.Violationf(key, "symptom: duplicated; packet %s appears twice on the wire (rep %d)", name, e.rep)
		}
		pos[name] = k
	}
	name := func(a, i int) string {
		if c.Actors[a][i].Kind == "p" {
			return "P" + strconv.Itoa(c14PNum(a, i))
		}
		return "C" + strconv.Itoa(c14PNum(a, i))
	}
	expected := 0
	for a := 1; a < len(c.Actors); a++ {
		for i := range c.Actors[a] {
			expected++
			if _, ok := pos[name(a, i)]; !ok {
				key := c14Unsync
				if c.Actors[a][i].Kind == "c" {
					key = "lost-config-valid:concurrent"
				}
				return verifkit.Violationf(key, "symptom: lost; packet %s (actor %d op %d) was written without error but never reached the wire; wire has %d frames (rep %d)", name(a, i), a, i, len(wire.tokens), e.rep)
			}
		}
	}
	// leave markers
	marker := map[int]int{} // controller op index -> wire position
	nOutbound := 0
	for i, op := range c.Actors[0] {
		if op.Kind != "leave" {
			continue
		}
		if m.leaveVia[i] == "outbound" {
			if nOutbound >= len(ctl) {
				return verifkit.Violationf("lost-config-valid:concurrent", "FinishedUpdate of controller op %d missing on the wire (rep %d)", i, e.rep)
			}
			marker[i] = ctl[nOutbound]
			nOutbound++
		} else {
			k, ok := pos["C"+strconv.Itoa(c14LeaveMarker(i))]
			if !ok {
				return verifkit.Violationf("lost-config-valid:concurrent", "leave marker of controller op %d missing on the wire (rep %d)", i, e.rep)
			}
			marker[i] = k
			expected++
		}
	}
	if len(ctl) != nOutbound || len(pos) != expected {
		return verifkit.Violationf("unexpected-frame:concurrent", "wire has %d numbered frames and %d FinishedUpdate, expected %d and %d (rep %d)", len(pos), len(ctl), expected, nOutbound, e.rep)
	}
	// (3) real-time order
	for a := 1; a < len(c.Actors); a++ {
		for i, x := range c.Actors[a] {
			for b := 1; b < len(c.Actors); b++ {
				for j, y := range c.Actors[b] {
					if (a == b && i == j) || !c14KB(m.nodes[a][i], m.nodes[b][j]) {
						continue
					}
					if x.Kind == "p" && y.Kind == "c" {
						continue // a held play packet may be overtaken by a config-valid one
					}
					if pos[name(a, i)] > pos[name(b, j)] {
						key := c14Unsync
						if x.Kind == "c" {
							key = "order:config-valid-not-immediate"
						}
						return verifkit.Violationf(key, "symptom: reordered; %s (actor %d op %d) returned before %s (actor %d op %d) started, but is at wire position %d after %d (rep %d)",
							name(a, i), a, i, name(b, j), b, j, pos[name(a, i)], pos[name(b, j)], e.rep)
					}
				}
			}
		}
	}
	// (4) held during config
	for _, iv := range c14ConfigIntervals(c, m) {
		en, lv := m.nodes[0][iv[0]], m.nodes[0][iv[1]]
		for a := 1; a < len(c.Actors); a++ {
			for i, op := range c.Actors[a] {
				if op.Kind != "p" || !c14KB(en, m.nodes[a][i]) || !c14KB(m.nodes[a][i], lv) {
					continue
				}
				if pos[name(a, i)] < marker[iv[1]] {
					return verifkit.Violationf("play-packet-not-held-back:concurrent", "%s was written between enter (controller op %d) and leave (op %d) but is on the wire at %d, before the leave marker at %d (rep %d)",
						name(a, i), iv[0], iv[1], pos[name(a, i)], marker[iv[1]], e.rep)
				}
			}
		}
	}
	return nil
}

func c14ConcRun(c c14ConcCase) verifkit.Result {
	if err := c14ConcValid(c); err != nil {
		return verifkit.Result{Labels: []string{"invalid-case"}}
	}
	m := c14ConcBuild(c)
	done := 0
	inconclusive := false
	for rep := 0; rep < c.Reps; rep++ {
		v, inc := c14ConcRunOnce(c, m, rep)
		done++
		if v != nil {
			verifkit.AddNote("C14", "concurrent", "schedules", int64(done))
			return verifkit.Result{V: v}
		}
		if inc {
			inconclusive = true
			break
		}
	}
	verifkit.AddNote("C14", "concurrent", "schedules", int64(done))
	return verifkit.Result{NonTrivial: m.nontrivial, Labels: m.labels, Inconclusive: inconclusive}
}

func c14ConcGen(t *rapid.T) c14ConcCase {
	ids := rapid.SampledFrom(c14Protocols()).Draw(t, "protocol")
	c := c14ConcCase{Protocol: int(ids.protocol)}
	// controller: alternating enter / leave, 1..3 rounds, possibly ending inside config
	var ctl []c14ConcOp
	rounds := rapid.IntRange(1, 3).Draw(t, "rounds")
	for r := 0; r < rounds; r++ {
		ctl = append(ctl, c14ConcOp{Kind: "enter", Via: rapid.SampledFrom([]string{"set-state", "set-state", "enable-queue"}).Draw(t, "enterVia"),
			Yield: rapid.IntRange(0, 3).Draw(t, "yield")})
		if r < rounds-1 || rapid.IntRange(0, 3).Draw(t, "leaveLast") > 0 {
			ctl = append(ctl, c14ConcOp{Kind: "leave", Via: rapid.SampledFrom([]string{"outbound", "set-state"}).Draw(t, "leaveVia"),
				Yield: rapid.IntRange(0, 3).Draw(t, "yield")})
		}
	}
	c.Actors = append(c.Actors, ctl)
	writers := rapid.SampledFrom([]int{1, 2, 2, 3, 4, 6}).Draw(t, "writers")
	for w := 0; w < writers; w++ {
		var ops []c14ConcOp
		for i, n := 0, rapid.IntRange(1, 8).Draw(t, "nOps"); i < n; i++ {
			ops = append(ops, c14ConcOp{Kind: rapid.SampledFrom([]string{"p", "p", "p", "c"}).Draw(t, "kind"),
				Flush: rapid.Bool().Draw(t, "flush"), Yield: rapid.IntRange(0, 3).Draw(t, "yield")})
		}
		c.Actors = append(c.Actors, ops)
	}
	total := 0
	remaining := make([]int, len(c.Actors))
	for a, ops := range c.Actors {
		total += len(ops)
		remaining[a] = len(ops)
	}
	mode := rapid.SampledFrom([]string{"free", "free", "partial", "partial", "serial"}).Draw(t, "mode")
	scripted := 0
	switch mode {
	case "serial":
		scripted = total
	case "partial":
		scripted = rapid.IntRange(1, total-1).Draw(t, "scripted")
	}
	for len(c.Order) < scripted {
		var avail []int
		for a, r := range remaining {
			if r > 0 {
				avail = append(avail, a)
			}
		}
		a := avail[rapid.IntRange(0, len(avail)-1).Draw(t, "next")]
		remaining[a]--
		c.Order = append(c.Order, a)
	}
	switch {
	case mode == "serial":
		c.Reps = 2
	case verifkit.Thorough():
		c.Reps = 40
	default:
		c.Reps = 8
	}
	return c
}

const c14SeqRule = "single goroutine, scripted ops over {play-only SystemChat / config-valid plugin.Message via WritePacket or BufferPacket (bursts of 1-5, one fill to 1024+-2 or +40), enter config via StartUpdate+Writer().SetState+EnablePlayPacketQueue / SetState(Config) / EnablePlayPacketQueue, leave via FinishedUpdate+SetOutboundState(Play) / SetState(Play), Flush} on every protocol >= 1.20.2; after every op the frames on the fake conn (reference framing, unique markers, packet ids) must be a prefix of the model's written sequence and contain everything the model has flushed; return values nil / ErrQueueFull exactly at the 1025th held packet (then Closed) / ErrClosedConn; final flush and final leave must deliver exactly the model sequence; non-trivial = a non-empty release or an overflow"

const c14ConcRule = "controller (1-3 enter/leave rounds: SetState(Config) or EnablePlayPacketQueue; FinishedUpdate+SetOutboundState(Play) or marker+SetState(Play)) and 1-6 writers x 1-8 numbered play-only / config-valid writes; scripted prefix in exact order + free rest from a barrier (serial / partial / free), repeated Reps times with Gosched noise under the race detector; oracle = no write error, every packet exactly once on the wire, real-time order for play packets and for config-valid packets against later writes, play packets written inside a scripted config interval are after the leave marker; non-trivial = some write is unordered with a state change, an enter exists and play packets are written"

func TestVerif_C14(t *testing.T) {
	verifkit.Check(t, "C14", "sequential", c14SeqRule, c14SeqGen, c14SeqRun)
}

func TestVerif_C14Conc(t *testing.T) {
	verifkit.Check(t, "C14", "concurrent", c14ConcRule, c14ConcGen, c14ConcRun)
}
