//go:build verif

package netmc

// C02, sub-check "read-errors": what the read loop makes of a transport error.
// The main C02 check decides codec.Decoder on complete byte strings; here a stream
// of well-formed frames reaches the real NewMinecraftConn read loop through a
// fake net.Conn that fails one Read with a scripted error at a scripted offset -
// a read timeout (what the per-packet read deadline produces when a peer stalls
// in the middle of a frame), a reset, or an early EOF - and then would go on
// delivering the rest of the stream. Velocity/vanilla close the connection on
// each of them. Oracle: exactly the frames that were completely delivered before
// the error are handled, the connection is closed, and nothing that comes after
// the error is ever handled (no resynchronisation inside a half-read frame).

import (
	"context"
	"errors"
	"fmt"
	"io"
	"net"
	"os"
	"sync"
	"syscall"
	"testing"
	"time"

	"pgregory.net/rapid"

	"go.minekube.com/gate/pkg/edition/java/proto/state"
	"go.minekube.com/gate/pkg/edition/java/proto/version"
	"go.minekube.com/gate/pkg/gate/proto"
	"go.minekube.com/gate/pkg/internal/verifkit"
)

type c02rCase struct {
	Sizes  []int  `json:"sizes"`  // data bytes of each frame (unknown packet id 0x7f)
	ErrAt  int    `json:"err_at"` // permille of the stream at which one Read fails
	Err    string `json:"err"`    // timeout | reset | eof
	Chunk  int    `json:"chunk"`  // at most this many bytes per Read (0 = as asked)
	Inside bool   `json:"inside"` // move the error to the middle of the frame it falls into
}

type c02rConn struct {
	mu      sync.Mutex
	data    []byte
	pos     int
	errAt   int
	err     error
	fired   bool
	chunk   int
	closed  chan struct{}
	once    sync.Once
	afterRd int // bytes handed out after the error fired
}

func (c *c02rConn) Read(p []byte) (int, error) {
	c.mu.Lock()
	if !c.fired && c.pos >= c.errAt {
		c.fired = true
		c.mu.Unlock()
		return 0, c.err
	}
	if c.pos >= len(c.data) {
		c.mu.Unlock()
		<-c.closed
		return 0, io.EOF
	}
	n := len(p)
	if c.chunk > 0 && n > c.chunk {
		n = c.chunk
	}
	if !c.fired && c.pos+n > c.errAt {
		n = c.errAt - c.pos
	}
	if c.pos+n > len(c.data) {
		n = len(c.data) - c.pos
	}
	copy(p, c.data[c.pos:c.pos+n])
	c.pos += n
	if c.fired {
		c.afterRd += n
	}
	c.mu.Unlock()
	return n, nil
}
func (c *c02rConn) Write(b []byte) (int, error) { return len(b), nil }
func (c *c02rConn) Close() error                { c.once.Do(func() { close(c.closed) }); return nil }
func (c *c02rConn) LocalAddr() net.Addr         { return &net.TCPAddr{IP: net.IPv4(127, 0, 0, 1), Port: 25565} }
func (c *c02rConn) RemoteAddr() net.Addr {
	return &net.TCPAddr{IP: net.IPv4(127, 0, 0, 1), Port: 40000}
}
func (c *c02rConn) SetDeadline(time.Time) error      { return nil }
func (c *c02rConn) SetReadDeadline(time.Time) error  { return nil }
func (c *c02rConn) SetWriteDeadline(time.Time) error { return nil }

type c02rHandler struct {
	mu      sync.Mutex
	cond    *sync.Cond
	handled [][]byte
	closed  bool
}

func (h *c02rHandler) HandlePacket(pc *proto.PacketContext) {
	h.mu.Lock()
	h.handled = append(h.handled, append([]byte(nil), pc.Payload...))
	h.cond.Broadcast()
	h.mu.Unlock()
}
func (h *c02rHandler) Disconnected() {
	h.mu.Lock()
	h.closed = true
	h.cond.Broadcast()
	h.mu.Unlock()
}
func (h *c02rHandler) Activated()   {}
func (h *c02rHandler) Deactivated() {}

func c02rRun(c c02rCase) verifkit.Result {
	if len(c.Sizes) == 0 {
		return verifkit.Result{Inconclusive: true, Labels: []string{"invalid-case"}}
	}
	var stream []byte
	var ends []int
	var payloads [][]byte
	for i, n := range c.Sizes {
		p := append(verifkit.RefVarInt(0x7f), make([]byte, n)...)
		for j := 1; j < len(p); j++ {
			p[j] = byte(i*31 + j)
		}
		payloads = append(payloads, p)
		stream = append(stream, verifkit.RefFrame(p, -1, 0)...)
		ends = append(ends, len(stream))
	}
	errAt := len(stream) * c.ErrAt / 1000
	if c.Inside {
		start := 0
		for _, e := range ends {
			if errAt < e {
				errAt = start + (e-start)/2 + 1
				break
			}
			start = e
		}
	}
	if errAt > len(stream) {
		errAt = len(stream)
	}
	var injected error
	switch c.Err {
	case "timeout":
		injected = &net.OpError{Op: "read", Net: "tcp", Err: os.ErrDeadlineExceeded}
	case "reset":
		injected = &net.OpError{Op: "read", Net: "tcp", Err: syscall.ECONNRESET}
	default:
		injected = io.EOF
	}
	complete := 0
	for _, e := range ends {
		if e <= errAt {
			complete++
		}
	}
	inFrame := complete < len(ends) && (complete == 0 && errAt > 0 || complete > 0 && errAt > ends[complete-1])
	fake := &c02rConn{data: stream, errAt: errAt, err: injected, chunk: c.Chunk, closed: make(chan struct{})}
	h := &c02rHandler{}
	h.cond = sync.NewCond(&h.mu)
	conn, startReadLoop := NewMinecraftConn(context.Background(), fake, proto.ServerBound, time.Hour, time.Hour, -1, nil)
	conn.SetProtocol(version.Minecraft_1_20.Protocol)
	conn.SetState(state.Play)
	conn.SetActiveSessionHandler(state.Play, h)
	loopDone := make(chan struct{})
	go func() { defer close(loopDone); startReadLoop() }()
	ended := false
	select {
	case <-loopDone:
		ended = true
	case <-time.After(15 * time.Second):
	}
	h.mu.Lock()
	handled := append([][]byte(nil), h.handled...)
	h.mu.Unlock()
	fake.mu.Lock()
	after := fake.afterRd
	fake.mu.Unlock()
	_ = conn.Close()
	if !ended {
		select {
		case <-loopDone:
		case <-time.After(15 * time.Second):
		}
	}
	labels := []string{"error:" + c.Err}
	if inFrame {
		labels = append(labels, "error-inside-a-frame")
	}
	what := fmt.Sprintf("%d frames (%d stream bytes), one Read fails with %v at offset %d (%d frames complete before it, inside a frame: %v)", len(ends), len(stream), injected, errAt, complete, inFrame)
	for i, p := range handled {
		if i >= complete || string(p) != string(payloads[i]) {
			return verifkit.Fail("read-errors:handled-after-error", "%s: packet #%d handled by the session handler is %d bytes %x...; only the %d frames delivered completely before the error may be handled (the read loop went on reading after the error: %d bytes)", what, i, len(p), c02rHead(p), complete, after)
		}
	}
	if len(handled) < complete {
		return verifkit.Fail("read-errors:complete-frame-lost", "%s: only %d packets were handled", what, len(handled))
	}
	if !ended {
		if errors.Is(injected, os.ErrDeadlineExceeded) || after > 0 {
			return verifkit.Fail("read-errors:not-closed", "%s: the read loop did not end within 15 s; it read %d more bytes after the error", what, after)
		}
		return verifkit.Result{Inconclusive: true, Labels: []string{"inconclusive:slow"}}
	}
	return verifkit.Result{NonTrivial: inFrame, Labels: labels}
}

func c02rHead(b []byte) []byte {
	if len(b) > 16 {
		return b[:16]
	}
	return b
}

func c02rGen(t *rapid.T) c02rCase {
	return c02rCase{
		Sizes:  rapid.SliceOfN(rapid.SampledFrom([]int{0, 1, 5, 100, 127, 128, 300, 5000}), 1, 8).Draw(t, "sizes"),
		ErrAt:  rapid.IntRange(0, 1000).Draw(t, "errAt"),
		Err:    rapid.SampledFrom([]string{"timeout", "timeout", "reset", "eof"}).Draw(t, "err"),
		Chunk:  rapid.SampledFrom([]int{0, 0, 1, 3, 100}).Draw(t, "chunk"),
		Inside: rapid.Bool().Draw(t, "inside"),
	}
}

func TestVerif_C02R(t *testing.T) {
	verifkit.Check(t, "C02", "read-errors",
		"1..8 well-formed frames (0..5000 data bytes) through the real NewMinecraftConn read loop over a fake net.Conn that fails one Read with {read timeout, connection reset, EOF} at a generated offset (anywhere, or moved into the middle of a frame) and would deliver the rest afterwards, reads chunked or not; oracle: exactly the frames completely delivered before the error are handled, nothing after it, and the read loop ends (connection closed); non-trivial = the error falls inside a frame",
		c02rGen, c02rRun)
}
