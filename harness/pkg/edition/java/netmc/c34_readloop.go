//go:build verif

package netmc

// C34, sub-check "read-loop-accounting": the per-connection byte limit as the
// read loop really enforces it. The main C34 checks decide the sliding-window
// counter and Limiter.Account; this one feeds frames through NewMinecraftConn
// with a byte limit and a window far longer than the test, so that the limit is a
// plain budget: the packet whose frame takes the cumulative wire size above
// bytesPerSecond x window is the first one not handled, and the connection is
// closed there - whatever the frames contain (unknown ids, known packets, known
// packets followed by bytes their type does not read, compressed or not).

import (
	"context"
	"fmt"
	"net"
	"sync"
	"testing"
	"time"

	"pgregory.net/rapid"

	"go.minekube.com/gate/pkg/edition/java/proto/packet"
	"go.minekube.com/gate/pkg/edition/java/proto/state"
	"go.minekube.com/gate/pkg/edition/java/proto/version"
	"go.minekube.com/gate/pkg/gate/proto"
	"go.minekube.com/gate/pkg/internal/packetlimiter"
	"go.minekube.com/gate/pkg/internal/verifkit"
)

type c34rFrame struct {
	Kind string `json:"kind"` // unknown | known | known-trailing
	N    int    `json:"n"`    // unknown: data bytes; known-trailing: trailing bytes
}

type c34rCase struct {
	BytesPerSecond int         `json:"bytes_per_second"`
	Threshold      int         `json:"threshold"` // compression threshold, <0 off
	Frames         []c34rFrame `json:"frames"`
}

const c34rWindow = 10 * time.Minute

type c34rHandler struct {
	mu      sync.Mutex
	handled int
	closed  bool
	cond    *sync.Cond
}

func (h *c34rHandler) HandlePacket(*proto.PacketContext) {
	h.mu.Lock()
	h.handled++
	h.cond.Broadcast()
	h.mu.Unlock()
}
func (h *c34rHandler) Disconnected() {
	h.mu.Lock()
	h.closed = true
	h.cond.Broadcast()
	h.mu.Unlock()
}
func (h *c34rHandler) Activated()   {}
func (h *c34rHandler) Deactivated() {}

func c34rRun(c c34rCase) verifkit.Result {
	if c.BytesPerSecond <= 0 || len(c.Frames) == 0 {
		return verifkit.Result{Inconclusive: true, Labels: []string{"invalid-case"}}
	}
	pr := version.Minecraft_1_20.Protocol
	kaID, ok := state.Play.ServerBound.ProtocolRegistry(pr).PacketID(&packet.KeepAlive{})
	if !ok {
		return verifkit.Fail("harness:keepalive-id", "no serverbound KeepAlive id")
	}
	budget := int64(c.BytesPerSecond) * int64(c34rWindow/time.Second)
	var wire [][]byte
	var cum int64
	expect := len(c.Frames) // packets handled before the limit trips
	tripped := false
	labels := map[string]bool{}
	for i, f := range c.Frames {
		var payload []byte
		switch f.Kind {
		case "known", "known-trailing":
			payload = append(verifkit.RefVarInt(int32(kaID)), verifkit.RefU64(uint64(i)+1)...)
			if f.Kind == "known-trailing" {
				payload = append(payload, make([]byte, f.N)...)
			}
		default:
			payload = append(verifkit.RefVarInt(0x7f), make([]byte, f.N)...)
			for j := range payload[1:] {
				payload[1+j] = byte(j*7 + i)
			}
		}
		fr := verifkit.RefFrame(payload, c.Threshold, 6)
		wire = append(wire, fr)
		cum += int64(len(fr))
		if !tripped && cum > budget {
			tripped = true
			expect = i
		}
		if !tripped {
			labels["accounted:"+f.Kind] = true
		}
	}
	cs, ps := net.Pipe()
	h := &c34rHandler{}
	h.cond = sync.NewCond(&h.mu)
	conn, startReadLoop := NewMinecraftConn(context.Background(), ps, proto.ServerBound, time.Hour, time.Hour, -1,
		packetlimiter.New(0, c.BytesPerSecond, c34rWindow))
	conn.SetProtocol(pr)
	conn.SetState(state.Play)
	if c.Threshold >= 0 {
		_ = conn.SetCompressionThreshold(c.Threshold)
	}
	conn.SetActiveSessionHandler(state.Play, h)
	loopDone := make(chan struct{})
	go func() { defer close(loopDone); startReadLoop() }()
	go func() {
		for _, fr := range wire {
			if _, err := cs.Write(fr); err != nil {
				return
			}
		}
	}()
	// wait for the expected end state
	deadline := time.AfterFunc(20*time.Second, func() { h.mu.Lock(); h.cond.Broadcast(); h.mu.Unlock() })
	defer deadline.Stop()
	start := time.Now()
	h.mu.Lock()
	for time.Since(start) < 20*time.Second {
		if h.handled > expect || (h.handled == expect && (h.closed || !tripped)) {
			break
		}
		h.cond.Wait()
	}
	handled, closed := h.handled, h.closed
	h.mu.Unlock()
	_ = cs.Close()
	_ = conn.Close()
	select {
	case <-loopDone:
	case <-time.After(20 * time.Second):
	}
	var ls []string
	for l := range labels {
		ls = append(ls, l)
	}
	if tripped {
		ls = append(ls, "limit-tripped")
	}
	if c.Threshold >= 0 {
		ls = append(ls, "compression-on")
	}
	desc := func() string {
		return fmt.Sprintf("bytesPerSecond %d x %v = budget %d bytes, %d frames of %d wire bytes in total, compression threshold %d, frames %+v", c.BytesPerSecond, c34rWindow, budget, len(wire), cum, c.Threshold, c.Frames)
	}
	switch {
	case handled > expect:
		return verifkit.Fail("read-loop-accounting:undercounted", "%d packets were handled, the byte budget is exhausted by frame #%d (%s)", handled, expect, desc())
	case tripped && handled == expect && !closed:
		return verifkit.Fail("read-loop-accounting:not-closed", "the frame that exceeds the byte budget (#%d) was read but the connection stayed open for 20 s (%s)", expect, desc())
	case handled < expect:
		if closed {
			return verifkit.Fail("read-loop-accounting:overcounted", "the connection was closed after %d handled packets, the byte budget allows %d (%s)", handled, expect, desc())
		}
		return verifkit.Result{Inconclusive: true, Labels: []string{"inconclusive:slow"}}
	}
	return verifkit.Result{NonTrivial: tripped, Labels: ls}
}

func c34rGen(t *rapid.T) c34rCase {
	c := c34rCase{
		BytesPerSecond: rapid.SampledFrom([]int{1, 5, 10, 20, 50, 100}).Draw(t, "bps"),
		Threshold:      rapid.SampledFrom([]int{-1, -1, 64, 256}).Draw(t, "threshold"),
	}
	n := rapid.IntRange(1, 30).Draw(t, "frames")
	for i := 0; i < n; i++ {
		f := c34rFrame{Kind: rapid.SampledFrom([]string{"unknown", "unknown", "known", "known-trailing", "known-trailing"}).Draw(t, "kind")}
		if f.Kind != "known" {
			f.N = rapid.SampledFrom([]int{1, 10, 100, 500, 1000, 3000, 9000}).Draw(t, "n")
		}
		c.Frames = append(c.Frames, f)
	}
	return c
}

func TestVerif_C34R(t *testing.T) {
	verifkit.Check(t, "C34", "read-loop-accounting",
		"1..30 frames {unknown id with 1..9000 data bytes, known KeepAlive, known KeepAlive followed by 1..9000 bytes its type does not read}, compression off / threshold 64 / 256, through the real NewMinecraftConn read loop with bytesPerSecond in {1..100} over a 10-minute window (budget 600..60000 bytes, no expiry during a case); oracle: exactly the packets before the first frame that takes the cumulative wire size above the budget are handled and the connection is closed there; non-trivial = the limit trips",
		c34rGen, c34rRun)
}
