//go:build verif

package netmc

// C44: however many times and from however many goroutines a connection is
// closed (explicitly, by a write error, or by its read loop ending), its session
// teardown (SessionHandler.Disconnected) runs exactly once, later writes report
// the connection as closed, and a panic inside a packet handler is contained.
//
// A case is a scenario over a real NewMinecraftConn on a fault-injecting fake
// net.Conn with a counting SessionHandler: actor 0 is the peer (feeds serverbound
// keep-alive packets numbered 1.. in scripted read chunks, then optionally ends
// the stream with EOF / reset / a malformed frame); the other actors issue
// Close / CloseUnknown / CloseWith, the write calls, break the write side of the
// fake conn, switch the active session handler, pause/resume auto reading, and
// cancel the PARENT context that was given to NewMinecraftConn (listener / proxy
// shutdown, tunnelled conns whose own context ends first). Parent cancellation
// makes Closed(conn) true without any teardown having run: the write calls and
// CloseWith return ErrClosedConn at once, the read loop ends by itself at its
// next loop condition (not while it is blocked in Read) - so a later close cause
// (or the read loop's own deferred close) still has to run the teardown.
// A handler script makes HandlePacket panic (several panic kinds), close the
// connection, write, or switch the handler at given packet numbers. A schedule
// script ("order") runs the first ops strictly in order, the rest free from a
// common barrier; repeated Reps times.
//
// Oracle (model from the case only; "known before" = ordered by the script or by
// one actor's program order):
//   - Disconnected() ran exactly once in total when everything has returned and
//     the read loop has ended (every scenario ends with a Close call, so a close
//     cause has completed: never zero); on the handler that was active if the
//     script fixes that; the underlying net.Conn was closed by the connection;
//   - when Close / CloseUnknown returns (also from a handler) or the read loop
//     has ended, the teardown is complete: Disconnected() ran and the net.Conn is
//     closed (both go through closeKnown -> sync.Once, which blocks concurrent
//     callers until the one teardown returned; interface doc of Close). NOT
//     assumed for CloseWith or a write returning ErrClosedConn: those return as
//     soon as the context is cancelled;
//   - a write call known to start after a completed close or after the parent
//     context was cancelled returns ErrClosedConn;
//     a write call that returns an error leaves the connection closed;
//   - packets are handled in feed order, each once; every packet fed before any
//     possible close cause started has been handled - in particular packets after
//     one whose handler panicked; no panic escapes startReadLoop;
//   - everything returns (deadlock sensor) and the read loop ends.

import (
	"context"
	"errors"
	"fmt"
	"io"
	"net"
	"runtime"
	"sort"
	"strings"
	"sync"
	"sync/atomic"
	"syscall"
	"testing"
	"time"

	"go.minekube.com/common/minecraft/component"
	"go.minekube.com/gate/pkg/edition/java/proto/packet"
	"go.minekube.com/gate/pkg/edition/java/proto/packet/chat"
	"go.minekube.com/gate/pkg/edition/java/proto/state"
	"go.minekube.com/gate/pkg/edition/java/proto/version"
	"go.minekube.com/gate/pkg/gate/proto"
	"go.minekube.com/gate/pkg/internal/verifkit"
	"pgregory.net/rapid"
)

type c44Op struct {
	// peer (actor 0): "feed" | "end"
	// others: "close" | "closeUnknown" | "closeWith" | "write" | "buffer" | "flush" |
	//         "writePayload" | "bufferPayload" | "break" | "switch" | "pause" | "cancelParent"
	Kind  string `json:"kind"`
	N     int    `json:"n,omitempty"`     // feed: packets in this burst
	Chunk int    `json:"chunk,omitempty"` // feed: max bytes per Read call from now on (0 = unlimited)
	Wait  bool   `json:"wait,omitempty"`  // feed: return only when the burst was handled or the read loop ended
	Arg   string `json:"arg,omitempty"`   // end: eof|reset|badframe; break: reset|epipe|deadline
	Yield int    `json:"yield,omitempty"`
}

type c44Action struct {
	Seq    int    `json:"seq"`
	Action string `json:"action"` // panicError|panicString|panicNilDeref|panicIndex|panicNilValue|close|closeUnknown|closeWith|switch|write
}

type c44Case struct {
	Actors  [][]c44Op   `json:"actors"`
	Handler []c44Action `json:"handler,omitempty"`
	Order   []int       `json:"order,omitempty"`
	Reps    int         `json:"reps"`
}

const c44Inf = 1 << 30

// ---- fake connection

type c44Conn struct {
	mu         sync.Mutex
	cond       *sync.Cond
	rbuf       []byte
	chunk      int
	rerr       error
	closed     bool
	closeCalls int
	werr       error
	derr       error
	written    int
}

func c44NewConn() *c44Conn {
	c := &c44Conn{}
	c.cond = sync.NewCond(&c.mu)
	return c
}

func (c *c44Conn) Read(p []byte) (int, error) {
	c.mu.Lock()
	defer c.mu.Unlock()
	for {
		if c.closed {
			return 0, &net.OpError{Op: "read", Net: "tcp", Err: net.ErrClosed}
		}
		if len(c.rbuf) > 0 {
			n := len(p)
			if n > len(c.rbuf) {
				n = len(c.rbuf)
			}
			if c.chunk > 0 && n > c.chunk {
				n = c.chunk
			}
			copy(p, c.rbuf[:n])
			c.rbuf = c.rbuf[n:]
			return n, nil
		}
		if c.rerr != nil {
			return 0, c.rerr
		}
		c.cond.Wait()
	}
}

func (c *c44Conn) Write(p []byte) (int, error) {
	c.mu.Lock()
	defer c.mu.Unlock()
	if c.closed {
		return 0, &net.OpError{Op: "write", Net: "tcp", Err: net.ErrClosed}
	}
	if c.werr != nil {
		return 0, c.werr
	}
	c.written += len(p)
	return len(p), nil
}

func (c *c44Conn) Close() error {
	c.mu.Lock()
	defer c.mu.Unlock()
	c.closeCalls++
	if c.closed {
		return &net.OpError{Op: "close", Net: "tcp", Err: net.ErrClosed}
	}
	c.closed = true
	c.cond.Broadcast()
	return nil
}

func (c *c44Conn) isClosed() bool {
	c.mu.Lock()
	defer c.mu.Unlock()
	return c.closed
}

func (c *c44Conn) feed(b []byte, chunk int) {
	c.mu.Lock()
	c.rbuf = append(c.rbuf, b...)
	c.chunk = chunk
	c.cond.Broadcast()
	c.mu.Unlock()
}

func (c *c44Conn) end(err error) {
	c.mu.Lock()
	c.rerr = err
	c.cond.Broadcast()
	c.mu.Unlock()
}

func (c *c44Conn) breakWrites(werr, derr error) {
	c.mu.Lock()
	c.werr, c.derr = werr, derr
	c.mu.Unlock()
}

func (c *c44Conn) LocalAddr() net.Addr  { return &net.TCPAddr{IP: net.IPv4(127, 0, 0, 1), Port: 25565} }
func (c *c44Conn) RemoteAddr() net.Addr { return &net.TCPAddr{IP: net.IPv4(127, 0, 0, 2), Port: 40000} }
func (c *c44Conn) SetDeadline(time.Time) error {
	return nil
}
func (c *c44Conn) SetReadDeadline(time.Time) error { return nil }
func (c *c44Conn) SetWriteDeadline(time.Time) error {
	c.mu.Lock()
	defer c.mu.Unlock()
	if c.closed {
		return &net.OpError{Op: "set", Net: "tcp", Err: net.ErrClosed}
	}
	return c.derr
}

// ---- model

type c44Node struct {
	a, i     int  // location (handler actions: location of the feed op carrying the packet)
	seq      int  // >0 for handler actions
	lo, hi   int  // script interval
	detached bool // handler action inside a feed that does not wait: may run after the feed op returned
	kind     string
}

// c44KB: x is known to have returned before y starts.
func c44KB(x, y c44Node) bool {
	if x.seq > 0 && y.seq > 0 {
		return x.seq < y.seq // both on the read-loop goroutine
	}
	if x.seq > 0 && x.detached {
		return false
	}
	if x.hi < y.lo {
		return true
	}
	// program order of one actor (a handler action counts as part of the peer op
	// that carries its packet)
	return x.a == y.a && x.i < y.i
}

type c44Model struct {
	pos         [][]int
	gates       int
	fed         int    // packets fed in total
	feedOf      []int  // seq -> peer op index
	must        []bool // seq -> must be handled
	mustClosed  map[[2]int]bool
	action      map[int]string
	wantHandler int // 0 = either, 1 / 2
	labels      []string
	nontrivial  bool
}

func c44IsClose(k string) bool { return k == "close" || k == "closeUnknown" || k == "closeWith" }
func c44IsWrite(k string) bool {
	return k == "write" || k == "buffer" || k == "flush" || k == "writePayload" || k == "bufferPayload"
}
func c44IsPanic(k string) bool { return strings.HasPrefix(k, "panic") }

func c44Valid(c c44Case) error {
	if len(c.Actors) < 1 || len(c.Actors) > 10 || c.Reps < 1 || c.Reps > 1000 {
		return fmt.Errorf("sizes")
	}
	fed := 0
	for a, ops := range c.Actors {
		if len(ops) > 12 {
			return fmt.Errorf("too many ops")
		}
		for i, op := range ops {
			switch {
			case a == 0 && op.Kind == "feed":
				if op.N < 1 || op.N > 4 || op.Chunk < 0 {
					return fmt.Errorf("feed")
				}
				fed += op.N
			case a == 0 && op.Kind == "end":
				if i != len(ops)-1 || (op.Arg != "eof" && op.Arg != "reset" && op.Arg != "badframe") {
					return fmt.Errorf("end")
				}
			case a > 0 && (c44IsClose(op.Kind) || c44IsWrite(op.Kind) || op.Kind == "switch" || op.Kind == "pause" || op.Kind == "cancelParent"):
			case a > 0 && op.Kind == "break":
				if op.Arg != "reset" && op.Arg != "epipe" && op.Arg != "deadline" {
					return fmt.Errorf("break")
				}
			default:
				return fmt.Errorf("op %d.%d kind %q", a, i, op.Kind)
			}
		}
	}
	seen := map[int]bool{}
	switches := 0
	for _, h := range c.Handler {
		if h.Seq < 1 || h.Seq > fed || seen[h.Seq] {
			return fmt.Errorf("handler seq")
		}
		seen[h.Seq] = true
		if !(c44IsPanic(h.Action) || c44IsClose(h.Action) || h.Action == "switch" || h.Action == "write") {
			return fmt.Errorf("handler action %q", h.Action)
		}
		if h.Action == "switch" {
			switches++
		}
	}
	for _, ops := range c.Actors {
		for _, op := range ops {
			if op.Kind == "switch" {
				switches++
			}
		}
	}
	if switches > 1 {
		return fmt.Errorf("more than one handler switch")
	}
	used := make([]int, len(c.Actors))
	for _, a := range c.Order {
		if a < 0 || a >= len(c.Actors) {
			return fmt.Errorf("order")
		}
		used[a]++
		if used[a] > len(c.Actors[a]) {
			return fmt.Errorf("order")
		}
	}
	return nil
}

func c44BuildModel(c c44Case) *c44Model {
	m := &c44Model{mustClosed: map[[2]int]bool{}, action: map[int]string{}}
	m.pos = make([][]int, len(c.Actors))
	lastGated := make([]int, len(c.Actors))
	for a := range c.Actors {
		m.pos[a] = make([]int, len(c.Actors[a]))
		for i := range m.pos[a] {
			m.pos[a][i] = -1
		}
		lastGated[a] = -1
	}
	next := make([]int, len(c.Actors))
	for p, a := range c.Order {
		m.pos[a][next[a]] = p
		next[a]++
		lastGated[a] = p
	}
	m.gates = len(c.Order)
	node := func(a, i int) c44Node {
		n := c44Node{a: a, i: i, kind: c.Actors[a][i].Kind}
		if p := m.pos[a][i]; p >= 0 {
			n.lo, n.hi = p, p
		} else {
			n.lo, n.hi = lastGated[a], c44Inf
		}
		return n
	}
	for _, h := range c.Handler {
		m.action[h.Seq] = h.Action
	}
	// packets
	m.feedOf = []int{-1}
	for i, op := range c.Actors[0] {
		if op.Kind == "feed" {
			for k := 0; k < op.N; k++ {
				m.feedOf = append(m.feedOf, i)
			}
		}
	}
	m.fed = len(m.feedOf) - 1
	actionNode := func(seq int) c44Node {
		f := m.feedOf[seq]
		n := node(0, f)
		n.seq, n.kind = seq, m.action[seq]
		n.detached = !c.Actors[0][f].Wait
		if n.detached {
			n.hi = c44Inf
		}
		return n
	}

	hasBreak := false
	var breaks []c44Node
	for a, ops := range c.Actors {
		for i, op := range ops {
			if op.Kind == "break" {
				hasBreak = true
				breaks = append(breaks, node(a, i))
			}
		}
	}
	canFail := func(w c44Node) bool { // some break is not known to come after w
		for _, b := range breaks {
			if !c44KB(w, b) {
				return true
			}
		}
		return false
	}
	_ = hasBreak
	// parent context cancellations
	var parents []c44Node
	for a, ops := range c.Actors {
		for i, op := range ops {
			if op.Kind == "cancelParent" {
				parents = append(parents, node(a, i))
			}
		}
	}
	// certainlyBeforeParents: n returns before any parent cancellation starts
	certainlyBeforeParents := func(n c44Node) bool {
		for _, p := range parents {
			if !c44KB(n, p) {
				return false
			}
		}
		return true
	}
	// causes: everything after whose start the teardown may begin (a parent
	// cancellation is one: the read loop ends by itself at its next loop condition);
	// definite: on return the connection reports closed (context cancelled);
	// tornDown: on return the teardown has completed, whoever ran it: Close,
	// CloseUnknown and the read loop's deferred close go through the once and block
	// until it returned. CloseWith returns early when the context is already
	// cancelled - by a teardown in progress (then that cause is another node) or by
	// the parent (then nothing may have run at all), so it only counts when no
	// parent cancellation can precede it.
	var causes, definite, tornDown []c44Node
	for _, p := range parents {
		causes = append(causes, p)
		definite = append(definite, p)
	}
	for a, ops := range c.Actors {
		for i, op := range ops {
			n := node(a, i)
			switch {
			case c44IsClose(op.Kind):
				causes = append(causes, n)
				definite = append(definite, n)
				if op.Kind != "closeWith" || certainlyBeforeParents(n) {
					tornDown = append(tornDown, n)
				}
			case op.Kind == "end":
				causes = append(causes, n)
				definite = append(definite, n) // the op waits for the read loop to end
				tornDown = append(tornDown, n)
			case c44IsWrite(op.Kind):
				if canFail(n) {
					causes = append(causes, n)
				}
			}
		}
	}
	for seq := 1; seq <= m.fed; seq++ {
		act := m.action[seq]
		n := actionNode(seq)
		switch {
		case c44IsClose(act):
			causes = append(causes, n)
			if !n.detached {
				definite = append(definite, n) // the feed op returns after packet seq was handled or the loop ended
				if act != "closeWith" || certainlyBeforeParents(n) {
					tornDown = append(tornDown, n)
				}
			}
		case act == "write":
			if canFail(n) {
				causes = append(causes, n)
			}
		}
	}

	peerEnds := len(c.Actors[0]) > 0 && c.Actors[0][len(c.Actors[0])-1].Kind == "end"
	// packets that must be handled
	m.must = make([]bool, m.fed+1)
	for seq := 1; seq <= m.fed; seq++ {
		f := m.feedOf[seq]
		fn := node(0, f)
		waits := c.Actors[0][f].Wait
		// a feed that does not wait is only known to be drained if the peer later
		// ends the stream (that op waits for the read loop, and the end of stream is
		// delivered after all fed bytes); otherwise the final Close may come first
		ok := waits || peerEnds
		for _, x := range causes {
			if x.seq > 0 && x.seq >= seq {
				continue // happens while a later (or this) packet is being handled
			}
			if x.seq == 0 && x.kind == "end" {
				continue // stream end is delivered after all fed bytes
			}
			if waits && x.seq == 0 && c44KB(fn, x) {
				continue
			}
			ok = false
			break
		}
		m.must[seq] = ok
	}

	// writes that must report a closed connection
	for a, ops := range c.Actors {
		for i, op := range ops {
			if !c44IsWrite(op.Kind) || op.Kind == "flush" {
				continue
			}
			w := node(a, i)
			for _, x := range definite {
				if c44KB(x, w) {
					m.mustClosed[[2]int{a, i}] = true
				}
			}
		}
	}

	// which handler receives Disconnected
	m.wantHandler = 1
	var sw *c44Node
	swCertain := true
	for a, ops := range c.Actors {
		for i, op := range ops {
			if op.Kind == "switch" {
				n := node(a, i)
				sw = &n
			}
		}
	}
	for seq := 1; seq <= m.fed; seq++ {
		if m.action[seq] == "switch" {
			n := actionNode(seq)
			sw = &n
			swCertain = m.must[seq]
		}
	}
	if sw != nil {
		before := swCertain
		for _, x := range causes {
			if !c44KB(*sw, x) {
				before = false
			}
		}
		// "after": the switch starts only after the teardown completed. A close
		// call returning is NOT proof of that: Close/CloseWith return ErrClosedConn
		// as soon as another cause has cancelled the context, while that other
		// cause may still be on its way to read the active handler. So the handler
		// is only fixed to the first one when some definite cause precedes the
		// switch AND every possible cause does. With a parent cancellation a
		// returning CloseWith does not even prove that a teardown started (tornDown).
		after := false
		for _, x := range tornDown {
			if c44KB(x, *sw) {
				after = true
			}
		}
		for _, x := range causes {
			if !c44KB(x, *sw) {
				after = false
			}
		}
		switch {
		case before:
			m.wantHandler = 2
		case after:
			m.wantHandler = 1
		default:
			m.wantHandler = 0
		}
	}

	// labels
	overlap := false
	for x := range causes {
		for y := range causes {
			if x < y && !c44KB(causes[x], causes[y]) && !c44KB(causes[y], causes[x]) {
				overlap = true
			}
		}
	}
	// a parent cancellation puts every close cause that is not known to come before
	// it on the "context already cancelled, teardown still owed" path
	m.nontrivial = overlap || len(parents) > 0
	kinds := map[string]bool{}
	causeKind := func(x c44Node) string {
		switch {
		case x.seq > 0 && c44IsClose(x.kind):
			return "handler-close"
		case x.seq > 0:
			return "handler-write-error"
		case x.kind == "end":
			return "read-end"
		case c44IsClose(x.kind) || x.kind == "cancelParent":
			return x.kind
		}
		return "write-error"
	}
	if len(parents) > 0 {
		first, afterTeardown := true, false
		for _, p := range parents {
			for _, x := range causes {
				if x.kind == "cancelParent" {
					continue
				}
				if !c44KB(p, x) {
					first = false
				} else {
					m.labels = append(m.labels, "parent-cancel:known-before:"+causeKind(x))
				}
			}
			for _, x := range tornDown {
				if c44KB(x, p) {
					afterTeardown = true
				}
			}
		}
		switch {
		case len(causes) == len(parents):
			m.labels = append(m.labels, "parent-cancel:only-cause(final close owes the teardown)")
		case first:
			m.labels = append(m.labels, "parent-cancel:known-before-every-other-cause")
		case afterTeardown:
			m.labels = append(m.labels, "parent-cancel:after-a-completed-teardown")
		default:
			m.labels = append(m.labels, "parent-cancel:can-overlap-other-causes")
		}
		for k := range m.mustClosed {
			w := node(k[0], k[1])
			only := true
			for _, x := range definite {
				if x.kind != "cancelParent" && c44KB(x, w) {
					only = false
				}
			}
			if only {
				m.labels = append(m.labels, "write-after-parent-cancel-only")
				break
			}
		}
	}
	for _, x := range causes {
		switch {
		case x.kind == "cancelParent":
			kinds["cause:parent-cancel"] = true
		case x.seq > 0 && c44IsClose(x.kind):
			kinds["cause:handler-close"] = true
		case x.seq > 0:
			kinds["cause:handler-write-error"] = true
		case c44IsClose(x.kind):
			kinds["cause:"+x.kind] = true
		case x.kind == "end":
			kinds["cause:read-end"] = true
		default:
			kinds["cause:write-error"] = true
		}
	}
	for k := range kinds {
		m.labels = append(m.labels, k)
	}
	switch {
	case len(causes) == 0:
		m.labels = append(m.labels, "causes:0(final close only)")
	case len(causes) == 1:
		m.labels = append(m.labels, "causes:1")
	case len(causes) <= 3:
		m.labels = append(m.labels, "causes:2-3")
	default:
		m.labels = append(m.labels, "causes:4+")
	}
	if overlap {
		m.labels = append(m.labels, "close-causes-can-overlap")
	}
	panics, afterPanic := false, false
	for seq := 1; seq <= m.fed; seq++ {
		if c44IsPanic(m.action[seq]) {
			panics = true
			for s2 := seq + 1; s2 <= m.fed; s2++ {
				if m.must[s2] {
					afterPanic = true
				}
			}
		}
	}
	if panics {
		m.labels = append(m.labels, "handler-panic")
	}
	if afterPanic {
		m.labels = append(m.labels, "must-handle-after-panic")
	}
	if sw != nil {
		m.labels = append(m.labels, fmt.Sprintf("switch:want-h%d", m.wantHandler))
	}
	if len(m.mustClosed) > 0 {
		m.labels = append(m.labels, "write-after-known-close")
	}
	total := 0
	for _, ops := range c.Actors {
		total += len(ops)
	}
	switch {
	case len(c.Order) == 0:
		m.labels = append(m.labels, "mode:free")
	case len(c.Order) == total:
		m.labels = append(m.labels, "mode:serial")
	default:
		m.labels = append(m.labels, "mode:partial")
	}
	sort.Strings(m.labels)
	uniq := m.labels[:0]
	for i, l := range m.labels {
		if i == 0 || l != m.labels[i-1] {
			uniq = append(uniq, l)
		}
	}
	m.labels = uniq
	return m
}

// ---- execution

type c44Handler struct {
	e            *c44Env
	id           int
	disconnected atomic.Int32
}

type c44Env struct {
	c        c44Case
	m        *c44Model
	rep      int
	fake     *c44Conn
	conn     MinecraftConn
	h1, h2   *c44Handler
	kaID     int32 // serverbound keep-alive id
	hmu      sync.Mutex
	handled  []int
	ack      []chan struct{}
	loopDone chan struct{}
	start    chan struct{}
	gate     []chan struct{}
	wg       sync.WaitGroup
	flagged  atomic.Pointer[verifkit.Violation]

	cancelParent context.CancelFunc                 // cancels the context given to NewMinecraftConn
	early        atomic.Pointer[verifkit.Violation] // a close cause returned before the teardown was complete
	leftOpen     bool                               // the final Close returned with the net.Conn still open
}

func (e *c44Env) flag(key, format string, args ...any) {
	e.flagged.CompareAndSwap(nil, verifkit.Violationf(key, format, args...))
}

// c44AfterClose is called when a close cause that goes through closeKnown has
// returned (Close, CloseUnknown, the read loop's deferred close): the once has
// completed, so Disconnected() ran and the net.Conn is closed - whoever did it.
func (e *c44Env) c44AfterClose(site string) {
	d := int(e.h1.disconnected.Load()) + int(e.h2.disconnected.Load())
	open := !e.fake.isClosed()
	if d == 0 || open {
		e.early.CompareAndSwap(nil, verifkit.Violationf("teardown-not-complete-on-return:"+site,
			"%s returned but the teardown is not complete: Disconnected() ran %d times, net.Conn closed=%v (rep %d)", site, d, !open, e.rep))
	}
}

func (h *c44Handler) Activated()   {}
func (h *c44Handler) Deactivated() {}
func (h *c44Handler) Disconnected() {
	h.disconnected.Add(1)
}

func (h *c44Handler) HandlePacket(pc *proto.PacketContext) {
	e := h.e
	ka, ok := pc.Packet.(*packet.KeepAlive)
	if !ok {
		e.flag("fixture:unexpected-packet", "handler received %T id %v", pc.Packet, pc.PacketID)
		return
	}
	seq := int(ka.RandomID)
	if seq < 1 || seq > e.m.fed {
		e.flag("fixture:unexpected-packet", "handler received keep-alive %d", seq)
		return
	}
	e.hmu.Lock()
	first := true
	for _, s := range e.handled {
		if s == seq {
			first = false
		}
	}
	e.handled = append(e.handled, seq)
	e.hmu.Unlock()
	if first {
		defer close(e.ack[seq]) // after the action below, also when it panics
	}
	switch e.m.action[seq] {
	case "panicError":
		panic(errors.New("c44 handler error"))
	case "panicString":
		panic("c44 handler panic")
	case "panicNilDeref":
		var p *c44Conn
		_ = p.chunk
	case "panicIndex":
		var s []int
		_ = s[seq]
	case "panicNilValue":
		panic(nil)
	case "close":
		_ = e.conn.Close()
		e.c44AfterClose("Close(handler)")
	case "closeUnknown":
		_ = CloseUnknown(e.conn)
		e.c44AfterClose("CloseUnknown(handler)")
	case "closeWith":
		_ = CloseWith(e.conn, &packet.KeepAlive{RandomID: 9000})
	case "switch":
		e.conn.SetActiveSessionHandler(state.Play, e.h2)
	case "write":
		_ = e.conn.WritePacket(&packet.KeepAlive{RandomID: 9001})
	}
}

var c44Protocol = version.Minecraft_1_21.Protocol

func c44NewEnv(c c44Case, m *c44Model, rep int) *c44Env {
	e := &c44Env{c: c, m: m, rep: rep, fake: c44NewConn(), loopDone: make(chan struct{}), start: make(chan struct{})}
	e.h1 = &c44Handler{e: e, id: 1}
	e.h2 = &c44Handler{e: e, id: 2}
	e.ack = make([]chan struct{}, m.fed+1)
	for i := range e.ack {
		e.ack[i] = make(chan struct{})
	}
	e.gate = make([]chan struct{}, m.gates+1)
	for i := range e.gate {
		e.gate[i] = make(chan struct{})
	}
	close(e.gate[0])
	id, ok := state.Play.ServerBound.ProtocolRegistry(c44Protocol).PacketID(&packet.KeepAlive{})
	if !ok {
		panic("c44 fixture: no serverbound keep-alive id")
	}
	e.kaID = int32(id)
	return e
}

func (e *c44Env) c44Frame(seq int) []byte {
	payload := append(verifkit.RefVarInt(e.kaID), verifkit.RefU64(uint64(seq))...)
	return verifkit.RefFrame(payload, -1, 0)
}

func (e *c44Env) c44Actor(a int) {
	defer e.wg.Done()
	<-e.start
	closedSeen := false
	nextSeq := 1
	for i, op := range e.c.Actors[a] {
		p := e.m.pos[a][i]
		if p >= 0 {
			<-e.gate[p]
		}
		for y := (op.Yield + e.rep + a) % 4; y > 0; y-- {
			runtime.Gosched()
		}
		nextSeq = e.c44Exec(a, i, op, &closedSeen, nextSeq)
		if p >= 0 {
			close(e.gate[p+1])
		}
	}
}

func (e *c44Env) c44Exec(a, i int, op c44Op, closedSeen *bool, nextSeq int) int {
	checkWrite := func(err error) {
		if op.Kind != "flush" && (e.m.mustClosed[[2]int{a, i}] || *closedSeen) && !errors.Is(err, ErrClosedConn) {
			e.flag("write-after-close:"+op.Kind, "actor %d op %d (%s) started after a completed close but returned %v, want ErrClosedConn", a, i, op.Kind, err)
		}
		if err != nil {
			if !Closed(e.conn) {
				e.flag("write-error-left-open:"+op.Kind, "actor %d op %d (%s) returned %v but the connection is not closed", a, i, op.Kind, err)
			}
			*closedSeen = true
		}
	}
	switch op.Kind {
	case "feed":
		var b []byte
		for k := 0; k < op.N; k++ {
			b = append(b, e.c44Frame(nextSeq+k)...)
		}
		nextSeq += op.N
		e.fake.feed(b, op.Chunk)
		if op.Wait {
			select {
			case <-e.ack[nextSeq-1]:
			case <-e.loopDone:
			}
		}
	case "end":
		switch op.Arg {
		case "eof":
			e.fake.end(io.EOF)
		case "reset":
			e.fake.end(&net.OpError{Op: "read", Net: "tcp", Err: syscall.ECONNRESET})
		case "badframe":
			e.fake.feed([]byte{0xff, 0xff, 0xff, 0xff, 0x0f, 1, 2, 3}, 0)
		}
		<-e.loopDone
		e.c44AfterClose("startReadLoop")
	case "close":
		_ = e.conn.Close()
		e.c44AfterClose("Close")
		*closedSeen = true
	case "closeUnknown":
		_ = CloseUnknown(e.conn)
		e.c44AfterClose("CloseUnknown")
		*closedSeen = true
	case "cancelParent":
		e.cancelParent()
		*closedSeen = true
	case "closeWith":
		_ = CloseWith(e.conn, &packet.KeepAlive{RandomID: 9002})
		*closedSeen = true
	case "write":
		checkWrite(e.conn.WritePacket(&packet.KeepAlive{RandomID: int64(100*a + i)}))
	case "buffer":
		checkWrite(e.conn.BufferPacket(&packet.KeepAlive{RandomID: int64(100*a + i)}))
	case "flush":
		checkWrite(e.conn.Flush())
	case "writePayload":
		checkWrite(e.conn.Write(append([]byte{0x7f}, verifkit.RefU64(uint64(100*a+i))...)))
	case "bufferPayload":
		checkWrite(e.conn.BufferPayload(append([]byte{0x7f}, verifkit.RefU64(uint64(100*a+i))...)))
	case "break":
		switch op.Arg {
		case "reset":
			e.fake.breakWrites(&net.OpError{Op: "write", Net: "tcp", Err: syscall.ECONNRESET}, nil)
		case "epipe":
			e.fake.breakWrites(&net.OpError{Op: "write", Net: "tcp", Err: syscall.EPIPE}, nil)
		case "deadline":
			e.fake.breakWrites(nil, &net.OpError{Op: "set", Net: "tcp", Err: syscall.EINVAL})
		}
	case "switch":
		e.conn.SetActiveSessionHandler(state.Play, e.h2)
	case "pause":
		e.conn.SetAutoReading(false)
		runtime.Gosched()
		e.conn.SetAutoReading(true)
	}
	return nextSeq
}

// c44Loop runs the connection's read loop the way HandleConn does, except that a
// panic leaving it is recorded instead of ending the test process.
func (e *c44Env) c44Loop(startReadLoop func()) {
	defer close(e.loopDone)
	defer func() {
		if r := recover(); r != nil {
			e.flag("panic-escaped:startReadLoop", "a panic left startReadLoop (would end the process): %v", r)
		}
	}()
	startReadLoop()
}

func c44RunOnce(c c44Case, m *c44Model, rep int) (v *verifkit.Violation, inconclusive bool) {
	e := c44NewEnv(c, m, rep)
	var finished atomic.Bool
	parent, cancelParent := context.WithCancel(context.Background())
	defer cancelParent()
	e.cancelParent = cancelParent
	w := verifkit.Watch(5*time.Second, "", func() {
		conn, startReadLoop := NewMinecraftConn(parent, e.fake, proto.ServerBound, time.Hour, time.Hour, -1, nil)
		e.conn = conn
		conn.SetProtocol(c44Protocol)
		conn.SetActiveSessionHandler(state.Play, e.h1)
		go e.c44Loop(startReadLoop)
		e.wg.Add(len(c.Actors))
		for k := range c.Actors {
			go e.c44Actor((k + rep) % len(c.Actors))
		}
		close(e.start)
		e.wg.Wait()
		_ = conn.Close() // final close: every scenario ends closed
		e.c44AfterClose("Close")
		if !e.fake.isClosed() {
			// the teardown never closed the net.Conn; release a read loop that may
			// be blocked in Read so that the case can end
			e.leftOpen = true
			_ = e.fake.Close()
		}
		<-e.loopDone
		finished.Store(true)
	})
	switch w.Outcome {
	case verifkit.Panicked:
		return verifkit.Violationf("panic:scenario", "panic in scenario: %v\n%s", w.PanicValue, w.PanicStack), false
	case verifkit.Deadlocked, verifkit.Slow:
		if finished.Load() {
			break
		}
		if ok, why := c44ConfirmDeadlock(); ok {
			return verifkit.Violationf("deadlock:minecraftConn", "operations did not return: %s", why), false
		}
		return nil, true
	}
	if fv := e.flagged.Load(); fv != nil {
		return fv, false
	}
	return c44Judge(e), false
}

// c44ConfirmDeadlock: every remaining scenario goroutine is parked and at least
// one is parked in a sync primitive below a minecraftConn method.
func c44ConfirmDeadlock() (bool, string) {
	buf := make([]byte, 4<<20)
	buf = buf[:runtime.Stack(buf, true)]
	in := ""
	n := 0
	for _, sec := range strings.Split(string(buf), "\n\n") {
		if !strings.Contains(sec, ").c44Actor") && !strings.Contains(sec, ").c44Loop") {
			continue
		}
		n++
		head := sec
		if i := strings.IndexByte(sec, '\n'); i >= 0 {
			head = sec[:i]
		}
		parked := strings.Contains(head, "sync.Mutex.Lock") || strings.Contains(head, "sync.RWMutex") || strings.Contains(head, "semacquire") ||
			strings.Contains(head, "chan receive") || strings.Contains(head, "select") || strings.Contains(head, "sync.Cond.Wait") || strings.Contains(head, "sync.WaitGroup.Wait")
		if !parked {
			return false, ""
		}
		if strings.Contains(sec, "netmc.(*minecraftConn)") && (strings.Contains(sec, "sync.(*Mutex).Lock") || strings.Contains(sec, "sync.(*RWMutex)") ||
			strings.Contains(sec, "sync.(*Once).doSlow") || strings.Contains(sec, "sync.(*Cond).Wait")) && !strings.Contains(sec, "(*c44Conn).Read") {
			in = sec
		}
	}
	if n == 0 || in == "" {
		return false, ""
	}
	return true, in
}

func c44Judge(e *c44Env) *verifkit.Violation {
	m := e.m
	d1, d2 := int(e.h1.disconnected.Load()), int(e.h2.disconnected.Load())
	switch total := d1 + d2; {
	case total == 0:
		return verifkit.Violationf("teardown-missing:Disconnected", "connection closed but Disconnected() never ran (rep %d)", e.rep)
	case total > 1:
		return verifkit.Violationf("teardown-repeated:Disconnected", "Disconnected() ran %d times (%d on the first handler, %d on the second) (rep %d)", total, d1, d2, e.rep)
	}
	if m.wantHandler == 1 && d1 != 1 || m.wantHandler == 2 && d2 != 1 {
		return verifkit.Violationf("teardown-wrong-handler:Disconnected", "Disconnected() ran on handler %d, the script fixes handler %d as the active one at close time (rep %d)", 1+d2, m.wantHandler, e.rep)
	}
	if e.leftOpen {
		return verifkit.Violationf("teardown-missing:netConn-not-closed", "the final Close returned but the underlying net.Conn was never closed (rep %d)", e.rep)
	}
	if v := e.early.Load(); v != nil {
		return v
	}
	if !Closed(e.conn) {
		return verifkit.Violationf("not-closed", "connection not closed after Close returned (rep %d)", e.rep)
	}
	if err := e.conn.WritePacket(&packet.KeepAlive{RandomID: 1}); !errors.Is(err, ErrClosedConn) {
		return verifkit.Violationf("write-after-close:write", "WritePacket after the final Close returned %v (rep %d)", err, e.rep)
	}
	// The same holds for a connection that is (or gets) in the configuration phase,
	// where an open 1.20.2+ connection holds play-only packets back in a queue: a
	// closed one must refuse them like every other write, not queue them forever.
	e.conn.SetState(state.Config)
	playOnly := &chat.SystemChat{Component: chat.FromComponent(&component.Text{Content: "after close"}), Type: chat.SystemMessageType}
	if err := e.conn.BufferPacket(playOnly); !errors.Is(err, ErrClosedConn) {
		return verifkit.Violationf("write-after-close:buffer-play-packet-in-config", "BufferPacket of a play-only packet on a closed connection in the config state returned %v, want ErrClosedConn (rep %d)", err, e.rep)
	}
	if err := e.conn.WritePacket(playOnly); !errors.Is(err, ErrClosedConn) {
		return verifkit.Violationf("write-after-close:write-play-packet-in-config", "WritePacket of a play-only packet on a closed connection in the config state returned %v, want ErrClosedConn (rep %d)", err, e.rep)
	}
	if err := e.conn.BufferPacket(&packet.KeepAlive{RandomID: 2}); !errors.Is(err, ErrClosedConn) {
		return verifkit.Violationf("write-after-close:buffer", "BufferPacket after the final Close (config state) returned %v (rep %d)", err, e.rep)
	}
	e.hmu.Lock()
	handled := append([]int(nil), e.handled...)
	e.hmu.Unlock()
	for k, s := range handled {
		if s != k+1 {
			key := "packets-out-of-order:HandlePacket"
			for _, p := range handled[:k] {
				if p == s {
					key = "packet-handled-twice:HandlePacket"
				}
			}
			return verifkit.Violationf(key, "handled packets %v, fed 1..%d in order (rep %d)", handled, m.fed, e.rep)
		}
	}
	for seq := 1; seq <= m.fed; seq++ {
		if m.must[seq] && len(handled) < seq {
			key := "packet-not-handled:HandlePacket"
			for s2 := 1; s2 < seq; s2++ {
				if c44IsPanic(m.action[s2]) && s2 >= len(handled) {
					key = "packet-not-handled-after-panic:startReadLoop"
				}
			}
			return verifkit.Violationf(key, "packet %d was fed before any close cause could start but was never handled; handled %v (rep %d)", seq, handled, e.rep)
		}
	}
	return nil
}

func c44Run(c c44Case) verifkit.Result {
	if err := c44Valid(c); err != nil {
		return verifkit.Result{Labels: []string{"invalid-case"}}
	}
	m := c44BuildModel(c)
	done := 0
	inconclusive := false
	for rep := 0; rep < c.Reps; rep++ {
		v, inc := c44RunOnce(c, m, rep)
		done++
		if v != nil {
			verifkit.AddNote("C44", "teardown", "schedules", int64(done))
			return verifkit.Result{V: v}
		}
		if inc {
			inconclusive = true
			break
		}
	}
	verifkit.AddNote("C44", "teardown", "schedules", int64(done))
	return verifkit.Result{NonTrivial: m.nontrivial, Labels: m.labels, Inconclusive: inconclusive}
}

// ---- generator

func c44Gen(t *rapid.T) c44Case {
	var c c44Case
	// focus "panics": no closers besides the stream end, so that every packet must
	// be handled although handlers panic; "mixed": everything
	panicFocus := rapid.IntRange(0, 3).Draw(t, "focus") == 0
	// peer
	var peer []c44Op
	fed := 0
	nFeeds := rapid.SampledFrom([]int{0, 1, 1, 2, 2, 3, 4}).Draw(t, "feeds")
	if panicFocus && nFeeds == 0 {
		nFeeds = 2
	}
	for i := 0; i < nFeeds; i++ {
		op := c44Op{Kind: "feed", N: rapid.IntRange(1, 3).Draw(t, "n"), Wait: rapid.IntRange(0, 3).Draw(t, "wait") > 0,
			Chunk: rapid.SampledFrom([]int{0, 0, 1, 2, 3, 5, 11}).Draw(t, "chunk"), Yield: rapid.IntRange(0, 3).Draw(t, "yield")}
		fed += op.N
		peer = append(peer, op)
	}
	if rapid.IntRange(0, 2).Draw(t, "hasEnd") > 0 {
		peer = append(peer, c44Op{Kind: "end", Arg: rapid.SampledFrom([]string{"eof", "eof", "reset", "badframe"}).Draw(t, "end")})
	}
	c.Actors = append(c.Actors, peer)
	nActors := rapid.SampledFrom([]int{0, 1, 2, 2, 3, 3, 4, 6, 8}).Draw(t, "actors")
	if len(peer) == 0 && nActors == 0 {
		nActors = 1
	}
	switched := false
	acts := []string{"panicError", "panicString", "panicNilDeref", "panicIndex", "panicNilValue", "panicError",
		"close", "closeUnknown", "closeWith", "switch", "write"}
	kinds := []string{"close", "close", "close", "closeUnknown", "closeUnknown", "closeWith", "closeWith",
		"write", "write", "buffer", "flush", "writePayload", "bufferPayload", "break", "break", "switch", "pause"}
	if panicFocus {
		kinds = []string{"write", "write", "buffer", "flush", "writePayload", "bufferPayload", "switch", "pause", "pause"}
		acts = []string{"panicError", "panicString", "panicNilDeref", "panicIndex", "panicNilValue", "write", "switch"}
	}
	for a := 1; a <= nActors; a++ {
		var ops []c44Op
		for i, n := 0, rapid.IntRange(1, 4).Draw(t, "nOps"); i < n; i++ {
			op := c44Op{Kind: rapid.SampledFrom(kinds).Draw(t, "kind"), Yield: rapid.IntRange(0, 3).Draw(t, "yield")}
			if op.Kind == "switch" {
				if switched {
					op.Kind = "close"
				}
				switched = true
			}
			if op.Kind == "break" {
				op.Arg = rapid.SampledFrom([]string{"reset", "epipe", "deadline"}).Draw(t, "breakKind")
			}
			ops = append(ops, op)
		}
		c.Actors = append(c.Actors, ops)
	}
	// parent context cancellation: one op in some actor; "first" = scripted in front
	// of every other scripted op (before all causes when the schedule is serial),
	// otherwise at a generated place, ordered or free like any other op
	parentActor := -1
	if !panicFocus && rapid.IntRange(0, 2).Draw(t, "parentCancel") == 0 {
		if nActors == 0 || rapid.IntRange(0, 2).Draw(t, "parentCancelOwnActor") == 0 {
			c.Actors = append(c.Actors, nil)
			nActors++
		}
		a := rapid.IntRange(1, nActors).Draw(t, "parentCancelActor")
		op := c44Op{Kind: "cancelParent", Yield: rapid.IntRange(0, 3).Draw(t, "yield")}
		if rapid.IntRange(0, 1).Draw(t, "parentCancelFirst") == 0 {
			parentActor = a
			c.Actors[a] = append([]c44Op{op}, c.Actors[a]...)
		} else {
			at := rapid.IntRange(0, len(c.Actors[a])).Draw(t, "parentCancelAt")
			ops := append([]c44Op(nil), c.Actors[a][:at]...)
			ops = append(ops, op)
			c.Actors[a] = append(ops, c.Actors[a][at:]...)
		}
	}
	// handler script
	for seq := 1; seq <= fed; seq++ {
		if rapid.IntRange(0, 2).Draw(t, "hasAction") == 0 {
			continue
		}
		act := rapid.SampledFrom(acts).Draw(t, "action")
		if act == "switch" {
			if switched {
				act = "panicString"
			}
			switched = true
		}
		c.Handler = append(c.Handler, c44Action{Seq: seq, Action: act})
	}
	// schedule script
	total := 0
	remaining := make([]int, len(c.Actors))
	for a, ops := range c.Actors {
		total += len(ops)
		remaining[a] = len(ops)
	}
	mode := rapid.SampledFrom([]string{"free", "free", "partial", "serial"}).Draw(t, "mode")
	if parentActor >= 0 && mode == "free" {
		mode = rapid.SampledFrom([]string{"partial", "serial"}).Draw(t, "modeParentFirst")
	}
	scripted := 0
	switch mode {
	case "serial":
		scripted = total
	case "partial":
		if total > 1 {
			scripted = rapid.IntRange(1, total-1).Draw(t, "scripted")
		}
	}
	if parentActor >= 0 {
		c.Order = append(c.Order, parentActor)
		remaining[parentActor]--
		if scripted < 1 {
			scripted = 1
		}
	}
	for len(c.Order) < scripted {
		var avail []int
		for a, r := range remaining {
			if r > 0 {
				avail = append(avail, a)
			}
		}
		a := avail[rapid.IntRange(0, len(avail)-1).Draw(t, "next")]
		remaining[a]--
		c.Order = append(c.Order, a)
	}
	switch {
	case mode == "serial":
		c.Reps = 2
	case verifkit.Thorough():
		c.Reps = 40
	default:
		c.Reps = 10
	}
	return c
}

func TestVerif_C44(t *testing.T) {
	verifkit.Check(t, "C44", "teardown",
		"scenario = real NewMinecraftConn over a fault-injecting fake net.Conn and counting SessionHandlers; peer actor feeds numbered keep-alive packets in scripted read chunks and may end the stream (EOF / reset / malformed frame); 0-8 further actors x 1-4 ops over {Close, CloseUnknown, CloseWith, WritePacket, BufferPacket, Flush, Write, BufferPayload, break the write side, switch handler, pause+resume auto reading}, in 1/3 of the mixed scenarios one op cancels the PARENT context given to NewMinecraftConn (half of them scripted in front of every other scripted op); handler script per packet {5 panic kinds, Close/CloseUnknown/CloseWith, write, switch}; schedule = scripted prefix in exact order + free rest from a barrier, repeated Reps times with Gosched noise; oracle = Disconnected exactly once and never zero after the final Close (on the scripted-active handler when fixed), the net.Conn closed by the connection, teardown complete whenever Close / CloseUnknown returned or the read loop ended, ErrClosedConn for writes known to start after a completed close or a parent cancellation, failed writes leave the connection closed, packets handled in order once and every packet fed before any possible close cause handled (also after panics), no panic leaves startReadLoop, read loop ends, no deadlock; non-trivial = at least two close causes that the script does not order (can overlap), or a parent-context cancellation (later close causes find the context already cancelled and still owe the teardown)",
		c44Gen, c44Run)
}
