//go:build verif

package util

// C03: primitive field codecs are exact inverses, have the vanilla wire layout,
// reject every strict prefix of a valid encoding and reject negative / oversized
// length prefixes before allocating.
//
// Oracles (all independent of the code under test):
//   - layout:     gate's encoder output == verifkit reference encoding (refwire)
//   - decode:     gate's decoder applied to the REFERENCE encoding returns the value
//                 and consumes exactly len(encoding) bytes (three reader kinds, with
//                 and without trailing bytes)
//   - roundtrip:  gate's decoder applied to gate's own encoding returns the value
//   - truncation: every strict prefix of a valid encoding (reference encoding in
//                 sub-check "truncate", gate's own encoding in "truncate-self")
//                 yields an error
//   - hostile:    negative / over-limit length prefixes yield an error (no panic)
//                 with a small TotalAlloc delta
//
// Reader kinds are the ones production uses: *bytes.Reader (packet payloads),
// *bytes.Buffer (compression envelope, bungee messages) and a plain io.Reader
// without ReadByte that fills the buffer as far as data is available (the frame
// decoder's fullReader). Short-read readers are NOT used: no production caller
// feeds these helpers from a raw stream.

import (
	"bytes"
	"fmt"
	"io"
	"math"
	"reflect"
	"runtime/debug"
	"runtime/metrics"
	"strings"
	"testing"
	"time"

	"go.minekube.com/common/minecraft/key"
	"go.minekube.com/gate/pkg/edition/java/profile"
	"go.minekube.com/gate/pkg/internal/verifkit"
	"go.minekube.com/gate/pkg/util/uuid"
	"pgregory.net/rapid"
)

type c03Prop struct {
	Name string `json:"name"`
	Val  string `json:"val"`
	Sig  string `json:"sig,omitempty"`
}

// c03Val is the value of whatever primitive the case names.
type c03Val struct {
	N     int64       `json:"n,omitempty"`     // integers, float bits, bool, millis
	Ints  []int32     `json:"ints,omitempty"`  // VarInt arrays
	S     string      `json:"s,omitempty"`     // strings (repeated Rep times when Rep > 1)
	Rep   int         `json:"rep,omitempty"`   //
	SS    []string    `json:"ss,omitempty"`    // string arrays
	B     []byte      `json:"b,omitempty"`     // byte arrays / uuid (pattern seed when BLen > 0)
	BLen  int         `json:"blen,omitempty"`  // >0: byte array of this length derived from B
	Props []c03Prop   `json:"props,omitempty"` // property lists
	Keys  [][2]string `json:"keys,omitempty"`  // resource keys (namespace, value)
	Aux   int         `json:"-"`               // byte count reported by the *N API variants (not part of the case)
}

type c03Case struct {
	Prim string `json:"prim"`
	V    c03Val `json:"v"`
	Max  int    `json:"max,omitempty"` // ReadStringMax / ReadBytesLen limit parameter
	Ext  bool   `json:"ext,omitempty"` // WriteBytes17 allowExtended
	// hostile mode only
	Header int32  `json:"header,omitempty"` // claimed length / count
	Tail   []byte `json:"tail,omitempty"`   // bytes following the header

	blobMemo []byte
	strMemo  *string
}

func (c *c03Case) blob() []byte {
	if c.blobMemo == nil {
		c.blobMemo = c.V.blob()
	}
	return c.blobMemo
}

func (c *c03Case) str() string {
	if c.strMemo == nil {
		s := c.V.str()
		c.strMemo = &s
	}
	return *c.strMemo
}

func (v c03Val) str() string {
	if v.Rep > 1 {
		return strings.Repeat(v.S, v.Rep)
	}
	return v.S
}

func (v c03Val) blob() []byte {
	if v.BLen <= 0 {
		if v.B == nil {
			return []byte{}
		}
		return v.B
	}
	out := make([]byte, v.BLen)
	seed := v.B
	if len(seed) == 0 {
		seed = []byte{0}
	}
	for i := range out {
		out[i] = seed[i%len(seed)] + byte(i>>8)
	}
	return out
}

// ---- reference encoders (only verifkit.Ref* + encoding/binary)

func c03RefStrings(ss []string) []byte {
	out := verifkit.RefVarInt(int32(len(ss)))
	for _, s := range ss {
		out = append(out, verifkit.RefString(s)...)
	}
	return out
}

func c03RefVarInts(a []int32) []byte {
	out := verifkit.RefVarInt(int32(len(a)))
	for _, v := range a {
		out = append(out, verifkit.RefVarInt(v)...)
	}
	return out
}

func c03RefProps(ps []c03Prop) []byte {
	out := verifkit.RefVarInt(int32(len(ps)))
	for _, p := range ps {
		out = append(out, verifkit.RefString(p.Name)...)
		out = append(out, verifkit.RefString(p.Val)...)
		out = append(out, verifkit.RefBool(p.Sig != "")...)
		if p.Sig != "" {
			out = append(out, verifkit.RefString(p.Sig)...)
		}
	}
	return out
}

func c03RefBytes17(b []byte) []byte { return append(verifkit.RefExtShort(len(b)), b...) }

func c03KeyStr(k [2]string) string { return k[0] + ":" + k[1] }

func c03MinimalStr(k [2]string) string {
	if k[0] == "minecraft" {
		return k[1]
	}
	return k[0] + ":" + k[1]
}

// ---- primitive table

type c03Prim struct {
	name  string
	wsite string // encoder function (key site for layout failures)
	rsite string // decoder function at the root of the read (key site)
	// write runs gate's encoder.
	write func(w io.Writer, c *c03Case) error
	// ref is the reference encoding of the value.
	ref func(c *c03Case) []byte
	// read runs gate's decoder and returns the decoded value in c03Val form.
	read func(r io.Reader, c *c03Case) (c03Val, error)
	// norm maps the case value to the form read returns for an exact round trip.
	norm func(c *c03Case) c03Val
	// writerRefuses: the encoder is documented to return an error for this value.
	writerRefuses func(c *c03Case) bool
	// readerRefuses: the decoder must reject this (valid) encoding because the value is above the limit parameter.
	readerRefuses func(c *c03Case) bool
	// siteAt optionally refines the reader site for a truncation at cut.
	siteAt func(cut int, c *c03Case) string
	// hostile header kind: "", "varint-len" (byte length), "varint-count", "extshort"
	hostile string
	// limit returns the largest acceptable length for varint-len / extshort prims.
	limit func(c *c03Case) int
}

func c03IntPrim(name, wsite, rsite string, width int,
	w func(io.Writer, int64) error, r func(io.Reader) (int64, error)) c03Prim {
	return c03Prim{
		name: name, wsite: wsite, rsite: rsite,
		write: func(wr io.Writer, c *c03Case) error { return w(wr, c.V.N) },
		ref: func(c *c03Case) []byte {
			switch width {
			case 1:
				return []byte{byte(c.V.N)}
			case 2:
				return verifkit.RefU16(uint16(c.V.N))
			case 4:
				return verifkit.RefU32(uint32(c.V.N))
			default:
				return verifkit.RefU64(uint64(c.V.N))
			}
		},
		read: func(rd io.Reader, c *c03Case) (c03Val, error) {
			n, err := r(rd)
			return c03Val{N: n}, err
		},
		norm: func(c *c03Case) c03Val { return c03Val{N: c.V.N} },
	}
}

func c03KeyOf(k [2]string) key.Key { return key.New(k[0], k[1]) }

func c03KeyBack(k key.Key) [2]string {
	if k == nil {
		return [2]string{"<nil>", "<nil>"}
	}
	return [2]string{k.Namespace(), k.Value()}
}

func c03NilIfEmpty[T any](s []T) []T {
	if len(s) == 0 {
		return nil
	}
	return s
}

var c03Prims = func() []c03Prim {
	ps := []c03Prim{
		{
			name: "varint", wsite: "WriteVarIntN", rsite: "ReadVarIntReturnN",
			write: func(w io.Writer, c *c03Case) error {
				n, err := WriteVarIntN(w, int(int32(c.V.N)))
				if err == nil && n != len(verifkit.RefVarInt(int32(c.V.N))) {
					return fmt.Errorf("c03: WriteVarIntN reported n=%d", n)
				}
				return err
			},
			ref: func(c *c03Case) []byte { return verifkit.RefVarInt(int32(c.V.N)) },
			read: func(r io.Reader, c *c03Case) (c03Val, error) {
				v, n, err := ReadVarIntReturnN(r)
				return c03Val{N: int64(v), Aux: n}, err
			},
			norm: func(c *c03Case) c03Val {
				return c03Val{N: int64(int32(c.V.N)), Aux: len(verifkit.RefVarInt(int32(c.V.N)))}
			},
		},
		{
			name: "varint-plainapi", wsite: "WriteVarInt", rsite: "ReadVarIntReturnN",
			write: func(w io.Writer, c *c03Case) error { return WriteVarInt(w, int(int32(c.V.N))) },
			ref:   func(c *c03Case) []byte { return verifkit.RefVarInt(int32(c.V.N)) },
			read: func(r io.Reader, c *c03Case) (c03Val, error) {
				v, err := ReadVarInt(r)
				return c03Val{N: int64(v)}, err
			},
			norm: func(c *c03Case) c03Val { return c03Val{N: int64(int32(c.V.N))} },
		},
		c03IntPrim("bool", "WriteBool", "ReadBool", 1,
			func(w io.Writer, n int64) error { return WriteBool(w, n != 0) },
			func(r io.Reader) (int64, error) {
				b, err := ReadBool(r)
				if b {
					return 1, err
				}
				return 0, err
			}),
		c03IntPrim("int8", "WriteInt8", "ReadUint8", 1,
			func(w io.Writer, n int64) error { return WriteInt8(w, int8(n)) },
			func(r io.Reader) (int64, error) { v, err := ReadInt8(r); return int64(v), err }),
		c03IntPrim("uint8", "WriteUint8", "ReadUint8", 1,
			func(w io.Writer, n int64) error { return WriteUint8(w, uint8(n)) },
			func(r io.Reader) (int64, error) { v, err := ReadUint8(r); return int64(v), err }),
		c03IntPrim("byte", "WriteByte", "ReadUint8", 1,
			func(w io.Writer, n int64) error { return WriteByte(w, byte(n)) },
			func(r io.Reader) (int64, error) { v, err := ReadByte(r); return int64(v), err }),
		c03IntPrim("int16", "WriteInt16", "ReadUint16", 2,
			func(w io.Writer, n int64) error { return WriteInt16(w, int16(n)) },
			func(r io.Reader) (int64, error) { v, err := ReadInt16(r); return int64(v), err }),
		c03IntPrim("uint16", "WriteUint16", "ReadUint16", 2,
			func(w io.Writer, n int64) error { return WriteUint16(w, uint16(n)) },
			func(r io.Reader) (int64, error) { v, err := ReadUint16(r); return int64(v), err }),
		c03IntPrim("int32", "WriteInt32", "ReadUint32", 4,
			func(w io.Writer, n int64) error { return WriteInt32(w, int32(n)) },
			func(r io.Reader) (int64, error) { v, err := ReadInt32(r); return int64(v), err }),
		c03IntPrim("int", "WriteInt", "ReadUint32", 4,
			func(w io.Writer, n int64) error { return WriteInt(w, int(int32(n))) },
			func(r io.Reader) (int64, error) { v, err := ReadInt(r); return int64(v), err }),
		c03IntPrim("uint32", "WriteUint32", "ReadUint32", 4,
			func(w io.Writer, n int64) error { return WriteUint32(w, uint32(n)) },
			func(r io.Reader) (int64, error) { v, err := ReadUint32(r); return int64(v), err }),
		c03IntPrim("int64", "WriteInt64", "ReadUint64", 8,
			func(w io.Writer, n int64) error { return WriteInt64(w, n) },
			func(r io.Reader) (int64, error) { v, err := ReadInt64(r); return v, err }),
		c03IntPrim("uint64", "WriteUint64", "ReadUint64", 8,
			func(w io.Writer, n int64) error { return WriteUint64(w, uint64(n)) },
			func(r io.Reader) (int64, error) { v, err := ReadUint64(r); return int64(v), err }),
		c03IntPrim("float32", "WriteFloat32", "ReadUint32", 4,
			func(w io.Writer, n int64) error { return WriteFloat32(w, math.Float32frombits(uint32(n))) },
			func(r io.Reader) (int64, error) { v, err := ReadFloat32(r); return int64(math.Float32bits(v)), err }),
		c03IntPrim("float64", "WriteFloat64", "ReadUint64", 8,
			func(w io.Writer, n int64) error { return WriteFloat64(w, math.Float64frombits(uint64(n))) },
			func(r io.Reader) (int64, error) { v, err := ReadFloat64(r); return int64(math.Float64bits(v)), err }),
		c03IntPrim("unixmilli", "WriteInt64", "ReadUint64", 8,
			func(w io.Writer, n int64) error { return WriteInt64(w, time.UnixMilli(n).UnixMilli()) },
			func(r io.Reader) (int64, error) { v, err := ReadUnixMilli(r); return v.UnixMilli(), err }),
		{
			name: "uuid", wsite: "WriteUUID", rsite: "ReadUUID",
			write: func(w io.Writer, c *c03Case) error {
				var id uuid.UUID
				copy(id[:], c.V.B)
				return WriteUUID(w, id)
			},
			ref: func(c *c03Case) []byte { return bytes.Clone(c.V.B) },
			read: func(r io.Reader, c *c03Case) (c03Val, error) {
				id, err := ReadUUID(r)
				return c03Val{B: bytes.Clone(id[:])}, err
			},
			norm: func(c *c03Case) c03Val { return c03Val{B: bytes.Clone(c.V.B)} },
		},
		{
			name: "uuid-intarray", wsite: "WriteUUIDIntArray", rsite: "ReadUint32",
			write: func(w io.Writer, c *c03Case) error {
				var id uuid.UUID
				copy(id[:], c.V.B)
				return WriteUUIDIntArray(w, id)
			},
			// four big-endian ints msbHigh, msbLow, lsbHigh, lsbLow == the 16 raw bytes
			ref: func(c *c03Case) []byte { return bytes.Clone(c.V.B) },
			read: func(r io.Reader, c *c03Case) (c03Val, error) {
				id, err := ReadUUIDIntArray(r)
				return c03Val{B: bytes.Clone(id[:])}, err
			},
			norm: func(c *c03Case) c03Val { return c03Val{B: bytes.Clone(c.V.B)} },
		},
		{
			name: "string", wsite: "WriteString", rsite: "ReadString", hostile: "varint-len",
			write: func(w io.Writer, c *c03Case) error { return WriteString(w, c.str()) },
			ref:   func(c *c03Case) []byte { return verifkit.RefString(c.str()) },
			read: func(r io.Reader, c *c03Case) (c03Val, error) {
				s, err := ReadString(r)
				return c03Val{S: s}, err
			},
			norm:          func(c *c03Case) c03Val { return c03Val{S: c.str()} },
			limit:         func(c *c03Case) int { return DefaultMaxStringSize * 4 },
			readerRefuses: func(c *c03Case) bool { return len(c.str()) > DefaultMaxStringSize*4 },
		},
		{
			name: "stringmax", wsite: "WriteString", rsite: "ReadStringMax", hostile: "varint-len",
			write: func(w io.Writer, c *c03Case) error { return WriteString(w, c.str()) },
			ref:   func(c *c03Case) []byte { return verifkit.RefString(c.str()) },
			read: func(r io.Reader, c *c03Case) (c03Val, error) {
				s, err := ReadStringMax(r, c.Max)
				return c03Val{S: s}, err
			},
			norm:          func(c *c03Case) c03Val { return c03Val{S: c.str()} },
			limit:         func(c *c03Case) int { return c.Max * 4 },
			readerRefuses: func(c *c03Case) bool { return len(c.str()) > c.Max*4 },
		},
		{
			name: "stringarray", wsite: "WriteStrings", rsite: "ReadStringArray", hostile: "varint-count",
			write: func(w io.Writer, c *c03Case) error { return WriteStrings(w, c.V.SS) },
			ref:   func(c *c03Case) []byte { return c03RefStrings(c.V.SS) },
			read: func(r io.Reader, c *c03Case) (c03Val, error) {
				ss, err := ReadStringArray(r)
				return c03Val{SS: c03NilIfEmpty(ss)}, err
			},
			norm: func(c *c03Case) c03Val { return c03Val{SS: c03NilIfEmpty(c.V.SS)} },
		},
		{
			name: "varintarray", wsite: "WriteVarIntArray", rsite: "ReadVarIntArray", hostile: "varint-count",
			write: func(w io.Writer, c *c03Case) error {
				a := make([]int, len(c.V.Ints))
				for i, v := range c.V.Ints {
					a[i] = int(v)
				}
				return WriteVarIntArray(w, a)
			},
			ref: func(c *c03Case) []byte { return c03RefVarInts(c.V.Ints) },
			read: func(r io.Reader, c *c03Case) (c03Val, error) {
				a, err := ReadVarIntArray(r)
				return c03Val{Ints: c03ToInt32(a)}, err
			},
			norm: func(c *c03Case) c03Val { return c03Val{Ints: c03NilIfEmpty(c.V.Ints)} },
		},
		{
			// ReadIntArray reads the same layout as WriteVarIntArray writes (its only producer).
			name: "intarray", wsite: "WriteVarIntArray", rsite: "ReadIntArray", hostile: "varint-count",
			write: func(w io.Writer, c *c03Case) error {
				a := make([]int, len(c.V.Ints))
				for i, v := range c.V.Ints {
					a[i] = int(v)
				}
				return WriteVarIntArray(w, a)
			},
			ref: func(c *c03Case) []byte { return c03RefVarInts(c.V.Ints) },
			read: func(r io.Reader, c *c03Case) (c03Val, error) {
				a, err := ReadIntArray(r)
				return c03Val{Ints: c03ToInt32(a)}, err
			},
			norm: func(c *c03Case) c03Val { return c03Val{Ints: c03NilIfEmpty(c.V.Ints)} },
		},
		{
			name: "bytes", wsite: "WriteBytes", rsite: "ReadBytesLen", hostile: "varint-len",
			write: func(w io.Writer, c *c03Case) error { return WriteBytes(w, c.blob()) },
			ref:   func(c *c03Case) []byte { return verifkit.RefBytes(c.blob()) },
			read: func(r io.Reader, c *c03Case) (c03Val, error) {
				b, err := ReadBytes(r)
				return c03Val{B: c03NilIfEmpty(b)}, err
			},
			norm:          func(c *c03Case) c03Val { return c03Val{B: c03NilIfEmpty(c.blob())} },
			limit:         func(c *c03Case) int { return DefaultMaxStringSize },
			readerRefuses: func(c *c03Case) bool { return len(c.blob()) > DefaultMaxStringSize },
		},
		{
			name: "byteslen", wsite: "WriteBytes", rsite: "ReadBytesLen", hostile: "varint-len",
			write: func(w io.Writer, c *c03Case) error { return WriteBytes(w, c.blob()) },
			ref:   func(c *c03Case) []byte { return verifkit.RefBytes(c.blob()) },
			read: func(r io.Reader, c *c03Case) (c03Val, error) {
				b, err := ReadBytesLen(r, c.Max)
				return c03Val{B: c03NilIfEmpty(b)}, err
			},
			norm:          func(c *c03Case) c03Val { return c03Val{B: c03NilIfEmpty(c.blob())} },
			limit:         func(c *c03Case) int { return c.Max },
			readerRefuses: func(c *c03Case) bool { return len(c.blob()) > c.Max },
		},
		{
			name: "extshort", wsite: "WriteExtendedForgeShort", rsite: "ReadExtendedForgeShort",
			write: func(w io.Writer, c *c03Case) error { return WriteExtendedForgeShort(w, int(c.V.N)) },
			ref:   func(c *c03Case) []byte { return verifkit.RefExtShort(int(c.V.N)) },
			read: func(r io.Reader, c *c03Case) (c03Val, error) {
				n, err := ReadExtendedForgeShort(r)
				return c03Val{N: int64(n)}, err
			},
			norm: func(c *c03Case) c03Val { return c03Val{N: c.V.N} },
		},
		{
			name: "bytes17", wsite: "WriteBytes17", rsite: "ReadBytes17", hostile: "extshort",
			write: func(w io.Writer, c *c03Case) error { return WriteBytes17(w, c.blob(), c.Ext) },
			ref:   func(c *c03Case) []byte { return c03RefBytes17(c.blob()) },
			read: func(r io.Reader, c *c03Case) (c03Val, error) {
				b, err := ReadBytes17(r)
				return c03Val{B: c03NilIfEmpty(b)}, err
			},
			norm:  func(c *c03Case) c03Val { return c03Val{B: c03NilIfEmpty(c.blob())} },
			limit: func(c *c03Case) int { return ForgeMaxArrayLength },
			writerRefuses: func(c *c03Case) bool {
				if c.Ext {
					return len(c.blob()) > ForgeMaxArrayLength
				}
				return len(c.blob()) > math.MaxInt16
			},
		},
		{
			name: "properties", wsite: "WriteProperties", rsite: "ReadProperties", hostile: "varint-count",
			write: func(w io.Writer, c *c03Case) error {
				ps := make([]profile.Property, len(c.V.Props))
				for i, p := range c.V.Props {
					ps[i] = profile.Property{Name: p.Name, Value: p.Val, Signature: p.Sig}
				}
				return WriteProperties(w, ps)
			},
			ref: func(c *c03Case) []byte { return c03RefProps(c.V.Props) },
			read: func(r io.Reader, c *c03Case) (c03Val, error) {
				ps, err := ReadProperties(r)
				var out []c03Prop
				for _, p := range ps {
					out = append(out, c03Prop{Name: p.Name, Val: p.Value, Sig: p.Signature})
				}
				return c03Val{Props: out}, err
			},
			norm: func(c *c03Case) c03Val { return c03Val{Props: c03NilIfEmpty(c.V.Props)} },
		},
		{
			name: "utf", wsite: "WriteUTF", rsite: "ReadUTF",
			write: func(w io.Writer, c *c03Case) error { return WriteUTF(w, c.str()) },
			ref:   func(c *c03Case) []byte { return verifkit.RefUTF(c.str()) },
			read: func(r io.Reader, c *c03Case) (c03Val, error) {
				s, err := ReadUTF(r)
				return c03Val{S: s}, err
			},
			norm: func(c *c03Case) c03Val { return c03Val{S: c.str()} },
			// Java's DataOutput.writeUTF throws for more than 65535 encoded bytes; the
			// length field cannot represent them.
			writerRefuses: func(c *c03Case) bool { return len(c.str()) > math.MaxUint16 },
			siteAt: func(cut int, c *c03Case) string {
				if cut < 2 {
					return "ReadUint16"
				}
				return "ReadUTF"
			},
		},
		{
			name: "key", wsite: "WriteKey", rsite: "ReadKey", hostile: "varint-len",
			write: func(w io.Writer, c *c03Case) error { return WriteKey(w, c03KeyOf(c.V.Keys[0])) },
			ref:   func(c *c03Case) []byte { return verifkit.RefString(c03KeyStr(c.V.Keys[0])) },
			read: func(r io.Reader, c *c03Case) (c03Val, error) {
				k, err := ReadKey(r)
				if err != nil {
					return c03Val{}, err
				}
				return c03Val{Keys: [][2]string{c03KeyBack(k)}}, nil
			},
			norm:  func(c *c03Case) c03Val { return c03Val{Keys: [][2]string{c.V.Keys[0]}} },
			limit: func(c *c03Case) int { return DefaultMaxStringSize * 4 },
		},
		{
			name: "minimalkey", wsite: "WriteMinimalKey", rsite: "ReadMinimalKey", hostile: "varint-len",
			write: func(w io.Writer, c *c03Case) error { return WriteMinimalKey(w, c03KeyOf(c.V.Keys[0])) },
			ref:   func(c *c03Case) []byte { return verifkit.RefString(c03MinimalStr(c.V.Keys[0])) },
			read: func(r io.Reader, c *c03Case) (c03Val, error) {
				k, err := ReadMinimalKey(r)
				if err != nil {
					return c03Val{}, err
				}
				return c03Val{Keys: [][2]string{c03KeyBack(k)}}, nil
			},
			norm:  func(c *c03Case) c03Val { return c03Val{Keys: [][2]string{c.V.Keys[0]}} },
			limit: func(c *c03Case) int { return DefaultMaxStringSize * 4 },
		},
		{
			name: "keyarray", wsite: "WriteKeyArray", rsite: "ReadKeyArray", hostile: "varint-count",
			write: func(w io.Writer, c *c03Case) error {
				ks := make([]key.Key, len(c.V.Keys))
				for i, k := range c.V.Keys {
					ks[i] = c03KeyOf(k)
				}
				return WriteKeyArray(w, ks)
			},
			ref: func(c *c03Case) []byte {
				out := verifkit.RefVarInt(int32(len(c.V.Keys)))
				for _, k := range c.V.Keys {
					out = append(out, verifkit.RefString(c03KeyStr(k))...)
				}
				return out
			},
			read: func(r io.Reader, c *c03Case) (c03Val, error) {
				ks, err := ReadKeyArray(r)
				if err != nil {
					return c03Val{}, err
				}
				var out [][2]string
				for _, k := range ks {
					out = append(out, c03KeyBack(k))
				}
				return c03Val{Keys: out}, nil
			},
			norm: func(c *c03Case) c03Val { return c03Val{Keys: c03NilIfEmpty(c.V.Keys)} },
		},
	}
	return ps
}()

func c03ToInt32(a []int) []int32 {
	if len(a) == 0 {
		return nil
	}
	out := make([]int32, len(a))
	for i, v := range a {
		out[i] = int32(v)
		if int(out[i]) != v {
			// value outside int32 cannot come from a 5-byte VarInt; make it visible
			out[i] = math.MinInt32
		}
	}
	return out
}

func c03Find(name string) *c03Prim {
	for i := range c03Prims {
		if c03Prims[i].name == name {
			return &c03Prims[i]
		}
	}
	return nil
}

// ---- readers

type c03Plain struct{ r *bytes.Reader }

func (p *c03Plain) Read(b []byte) (int, error) { return p.r.Read(b) }

var c03ReaderKinds = []string{"bytes.Reader", "bytes.Buffer", "plain"}

func c03MkReader(kind string, data []byte) (io.Reader, func() int) {
	data = bytes.Clone(data)
	switch kind {
	case "bytes.Reader":
		r := bytes.NewReader(data)
		return r, r.Len
	case "bytes.Buffer":
		b := bytes.NewBuffer(data)
		return b, b.Len
	default:
		r := bytes.NewReader(data)
		return &c03Plain{r}, r.Len
	}
}

// c03KindsFor: all reader kinds for ordinary encodings, one for very large ones (cost).
func c03KindsFor(n int) []string {
	if n > 48<<10 {
		return c03ReaderKinds[:1]
	}
	return c03ReaderKinds
}

type c03Out struct {
	v        c03Val
	err      error
	left     int
	panicked any
	stack    string
}

func c03Decode(p *c03Prim, c *c03Case, kind string, data []byte) (o c03Out) {
	rd, left := c03MkReader(kind, data)
	defer func() {
		if r := recover(); r != nil {
			o.panicked = r
			o.stack = string(debug.Stack())
		}
		o.left = left()
	}()
	o.v, o.err = p.read(rd, c)
	return
}

func c03Encode(p *c03Prim, c *c03Case) (enc []byte, err error, panicked any) {
	var buf bytes.Buffer
	defer func() {
		if r := recover(); r != nil {
			panicked = r
		}
		enc = buf.Bytes()
	}()
	err = p.write(&buf, c)
	return
}

func c03Short(b []byte) string {
	if len(b) <= 24 {
		return fmt.Sprintf("%x", b)
	}
	return fmt.Sprintf("%x..(%d bytes)", b[:24], len(b))
}

// c03ExtShortWriteCheck / c03ExtShortReadCheck run gate's ext-short helpers on the
// length header n of a Bytes17 value; they are used to attribute Bytes17
// failures to their root cause (the header helper) instead of the array helper.
func c03ExtShortWriteCheck(n int) *verifkit.Violation {
	ec := &c03Case{Prim: "extshort", V: c03Val{N: int64(n)}}
	ep := c03Find("extshort")
	want := ep.ref(ec)
	got, err, pan := c03Encode(ep, ec)
	if pan != nil || err != nil || !bytes.Equal(got, want) {
		return verifkit.Violationf("layout:WriteExtendedForgeShort",
			"WriteExtendedForgeShort(%d) wrote %s (err=%v panic=%v), vanilla/Velocity layout is %s (unsigned short, bit 15 set => third byte)",
			n, c03Short(got), err, pan, c03Short(want))
	}
	return nil
}

func c03ExtShortReadCheck(n int) *verifkit.Violation {
	ec := &c03Case{Prim: "extshort", V: c03Val{N: int64(n)}}
	ep := c03Find("extshort")
	want := ep.ref(ec)
	o := c03Decode(ep, ec, "bytes.Reader", append(bytes.Clone(want), 0xA5, 0xA5, 0xA5))
	if o.panicked != nil || o.err != nil || o.v.N != int64(n) || o.left != 3 {
		return verifkit.Violationf("roundtrip:ReadExtendedForgeShort",
			"ReadExtendedForgeShort(%s) = %d (err=%v panic=%v), consumed %d bytes; want %d consuming %d",
			c03Short(want), o.v.N, o.err, o.panicked, len(want)+3-o.left, n, len(want))
	}
	return nil
}

// ---- sub-check: roundtrip (layout + decode of reference encoding + own round trip)

func c03Labels(c *c03Case, enc []byte) (labels []string, boundary bool) {
	labels = []string{c.Prim}
	add := func(l string) { labels = append(labels, c.Prim+":"+l); boundary = true }
	p := c03Find(c.Prim)
	switch {
	case strings.HasPrefix(c.Prim, "varint") && !strings.Contains(c.Prim, "array"):
		v := int32(c.V.N)
		switch {
		case v < 0:
			add("negative")
		case v == 0:
			add("zero")
		}
		for _, b := range []int32{127, 128, 16383, 16384, 2097151, 2097152, 268435455, 268435456, math.MaxInt32, math.MinInt32} {
			if v == b {
				add("bit-boundary")
			}
		}
	case c.Prim == "float32":
		f := math.Float32frombits(uint32(c.V.N))
		if f != f {
			add("nan")
		} else if math.IsInf(float64(f), 0) {
			add("inf")
		} else if f == 0 {
			add("zero")
		}
	case c.Prim == "float64":
		f := math.Float64frombits(uint64(c.V.N))
		if f != f {
			add("nan")
		} else if math.IsInf(f, 0) {
			add("inf")
		} else if f == 0 {
			add("zero")
		}
	case c.Prim == "extshort":
		switch n := c.V.N; {
		case n >= 1<<15:
			add("3-byte")
		case n >= 256:
			add("2-byte>=256")
		case n >= 128:
			add("128..255")
		}
	case c.Prim == "bytes17":
		switch n := len(c.blob()); {
		case n == 0:
			add("empty")
		case n >= 1<<15:
			add("3-byte-header")
		case n >= 256:
			add("len>=256")
		case n >= 128:
			add("len128..255")
		}
		if c.Ext {
			labels = append(labels, "bytes17:extended")
		}
	}
	if c.Prim == "string" || c.Prim == "stringmax" || c.Prim == "bytes" || c.Prim == "byteslen" {
		var n int
		if c.Prim == "string" || c.Prim == "stringmax" {
			n = len(c.str())
		} else {
			n = len(c.blob())
		}
		lim := p.limit(c)
		switch {
		case n == lim:
			add("at-limit")
		case n == lim+1:
			add("limit+1")
		case n == lim-1:
			add("limit-1")
		case n > lim:
			add("over-limit")
		case n == 0:
			add("empty")
		}
	}
	if p.writerRefuses != nil && p.writerRefuses(c) {
		add("writer-must-refuse")
	}
	return
}

// c03RunEncode: gate's encoder against the reference layout.
func c03RunEncode(c c03Case) verifkit.Result {
	p := c03Find(c.Prim)
	if p == nil {
		return verifkit.Fail("harness:unknown-prim", "unknown primitive %q", c.Prim)
	}
	refEnc := p.ref(&c)
	labels, boundary := c03Labels(&c, refEnc)
	res := verifkit.Result{Labels: labels, NonTrivial: boundary || len(refEnc) >= 3}

	refuses := p.writerRefuses != nil && p.writerRefuses(&c)
	enc, werr, wpan := c03Encode(p, &c)
	if wpan != nil {
		return verifkit.Fail("panic:"+p.wsite, "%s panicked on %s: %v", p.wsite, c.Prim, wpan)
	}
	if refuses {
		if werr == nil {
			return verifkit.Fail("oversize-accepted:"+p.wsite,
				"%s accepted a value it cannot represent (length %d); wrote %s", p.wsite, len(refEnc), c03Short(enc))
		}
		return res
	}
	if werr != nil {
		return verifkit.Fail("encode-error:"+p.wsite, "%s returned %v for a valid value", p.wsite, werr)
	}
	// Bytes17: attribute header problems to the header helper.
	if c.Prim == "bytes17" {
		if v := c03ExtShortWriteCheck(len(c.blob())); v != nil {
			return verifkit.Result{V: v}
		}
	}
	if !bytes.Equal(enc, refEnc) {
		return verifkit.Fail("layout:"+p.wsite, "%s wrote %s, reference layout is %s", p.wsite, c03Short(enc), c03Short(refEnc))
	}
	return res
}

// c03RunDecode: gate's decoder on the reference encoding of the value.
func c03RunDecode(c c03Case) verifkit.Result {
	p := c03Find(c.Prim)
	if p == nil {
		return verifkit.Fail("harness:unknown-prim", "unknown primitive %q", c.Prim)
	}
	if p.writerRefuses != nil && p.writerRefuses(&c) {
		return verifkit.Result{Labels: []string{c.Prim, "unrepresentable-skipped"}}
	}
	want := p.norm(&c)
	refEnc := p.ref(&c)
	labels, boundary := c03Labels(&c, refEnc)
	res := verifkit.Result{Labels: labels, NonTrivial: boundary || len(refEnc) >= 3}

	if c.Prim == "bytes17" || c.Prim == "extshort" {
		// one key for the one root cause (value and consumed-bytes symptoms of the header helper)
		n := len(c.blob())
		if c.Prim == "extshort" {
			n = int(c.V.N)
		}
		if v := c03ExtShortReadCheck(n); v != nil {
			return verifkit.Result{V: v}
		}
	}
	mustRefuse := p.readerRefuses != nil && p.readerRefuses(&c)
	for _, kind := range c03KindsFor(len(refEnc)) {
		for _, trail := range []int{3, 0} {
			data := append(bytes.Clone(refEnc), bytes.Repeat([]byte{0xA5}, trail)...)
			o := c03Decode(p, &c, kind, data)
			if o.panicked != nil {
				return verifkit.Fail("panic:"+p.rsite, "%s panicked on %s (%s): %v\n%s", p.rsite, c03Short(data), kind, o.panicked, o.stack)
			}
			if mustRefuse {
				if o.err == nil {
					return verifkit.Fail("over-limit-accepted:"+p.rsite, "%s accepted a value above its limit (%s, reader %s)", p.rsite, c03Short(data), kind)
				}
				continue
			}
			if o.err != nil {
				k := "decode-error:" + p.rsite
				if trail == 0 && len(want.B) == 0 && len(refEnc) <= 3 && (c.Prim == "bytes" || c.Prim == "byteslen" || c.Prim == "bytes17") {
					// empty array as the last field of the input
					k = "empty-at-eof:" + p.rsite
				}
				return verifkit.Fail(k, "%s failed on the valid encoding %s followed by %d trailing bytes (reader %s): %v", p.rsite, c03Short(refEnc), trail, kind, o.err)
			}
			if !reflect.DeepEqual(o.v, want) {
				return verifkit.Fail("roundtrip:"+p.rsite, "%s(%s) (reader %s) = %+v, want %+v", p.rsite, c03Short(refEnc), kind, c03Brief(o.v), c03Brief(want))
			}
			if o.left != trail {
				return verifkit.Fail("consumed:"+p.rsite, "%s consumed %d bytes of a %d byte encoding (reader %s)", p.rsite, len(data)-o.left, len(refEnc), kind)
			}
		}
	}
	return res
}

func c03Brief(v c03Val) string {
	s := fmt.Sprintf("%+v", v)
	if len(s) > 300 {
		s = s[:300] + "..."
	}
	return s
}

// ---- sub-checks: truncate (reference encoding) and truncate-self (own encoding)

func c03Cuts(n int) []int {
	if n <= 48 {
		out := make([]int, n)
		for i := range out {
			out[i] = i
		}
		return out
	}
	// every cut near the header and near the end, plus a spread in between
	set := map[int]bool{}
	for i := 0; i < 12; i++ {
		set[i] = true
		set[n-1-i] = true
	}
	for i := 1; i < 16; i++ {
		set[n*i/16] = true
	}
	out := make([]int, 0, len(set))
	for i := 0; i < n; i++ {
		if set[i] {
			out = append(out, i)
		}
	}
	return out
}

func c03RunTruncate(self bool) func(c c03Case) verifkit.Result {
	return func(c c03Case) verifkit.Result {
		p := c03Find(c.Prim)
		if p == nil {
			return verifkit.Fail("harness:unknown-prim", "unknown primitive %q", c.Prim)
		}
		if p.writerRefuses != nil && p.writerRefuses(&c) {
			return verifkit.Result{Labels: []string{c.Prim, "unrepresentable-skipped"}}
		}
		enc := p.ref(&c)
		labels := []string{c.Prim}
		if self {
			own, werr, wpan := c03Encode(p, &c)
			if wpan != nil || werr != nil {
				return verifkit.Result{Labels: []string{c.Prim, "own-encoding-unavailable"}}
			}
			// only meaningful where gate's own pair is self-consistent (judged by sub-check roundtrip otherwise)
			// (bytes.Buffer: an empty trailing read is not an error there, see empty-at-eof in sub-check roundtrip)
			o := c03Decode(p, &c, "bytes.Buffer", own)
			if o.panicked != nil || o.err != nil || !reflect.DeepEqual(o.v, p.norm(&c)) || o.left != 0 {
				return verifkit.Result{Labels: []string{c.Prim, "own-roundtrip-broken-skipped"}}
			}
			if !bytes.Equal(own, enc) {
				labels = append(labels, c.Prim+":own-layout-differs")
			}
			enc = own
		} else if c.Prim == "bytes17" || c.Prim == "extshort" {
			// attribute to the root cause: the header helper mis-reads complete headers already
			n := len(c.blob())
			if c.Prim == "extshort" {
				n = int(c.V.N)
			}
			if v := c03ExtShortReadCheck(n); v != nil {
				return verifkit.Result{V: v}
			}
		}
		cuts := c03Cuts(len(enc))
		for _, cut := range cuts {
			for _, kind := range c03KindsFor(len(enc)) {
				o := c03Decode(p, &c, kind, enc[:cut])
				site := p.rsite
				if p.siteAt != nil {
					site = p.siteAt(cut, &c)
				}
				if o.panicked != nil {
					return verifkit.Fail("panic:"+site, "%s panicked on the %d-byte prefix of %s (reader %s): %v\n%s", site, cut, c03Short(enc), kind, o.panicked, o.stack)
				}
				if o.err == nil {
					return verifkit.Fail("truncated-prefix:"+site,
						"%s of %s given only the first %d of %d bytes of the encoding %s (reader %s) returned %s without error",
						p.rsite, c.Prim, cut, len(enc), c03Short(enc), kind, c03Brief(o.v))
				}
			}
		}
		return verifkit.Result{Labels: labels, NonTrivial: len(enc) >= 3 || len(cuts) >= 2}
	}
}

// ---- sub-check: hostile length prefixes

// c03AllocBytes is the cumulative number of heap bytes allocated by the process
// (the runtime/metrics view of MemStats.TotalAlloc; large objects are accounted
// immediately, small ones at span granularity, far below the 4 MiB bound).
func c03AllocBytes() uint64 {
	s := []metrics.Sample{{Name: "/gc/heap/allocs:bytes"}}
	metrics.Read(s)
	return s[0].Value.Uint64()
}

const c03AllocBound = 4 << 20 // largest legitimate pre-allocation is 32768 properties (1.5 MiB)

func c03RunHostile(c c03Case) verifkit.Result {
	p := c03Find(c.Prim)
	if p == nil {
		return verifkit.Fail("harness:unknown-prim", "unknown primitive %q", c.Prim)
	}
	var data []byte
	labels := []string{c.Prim}
	switch p.hostile {
	case "varint-len":
		lim := p.limit(&c)
		if c.Header >= 0 && int(c.Header) <= lim {
			return verifkit.Fail("harness:hostile-domain", "header %d within limit %d", c.Header, lim)
		}
		data = append(verifkit.RefVarInt(c.Header), c.Tail...)
		if c.Header < 0 {
			labels = append(labels, c.Prim+":negative-length")
		} else {
			labels = append(labels, c.Prim+":over-limit-length")
		}
	case "varint-count":
		data = append(verifkit.RefVarInt(c.Header), c.Tail...)
		if c.Header < 0 {
			labels = append(labels, c.Prim+":negative-count")
		} else {
			labels = append(labels, c.Prim+":count-exceeds-data")
			// domain: the tail must not be able to hold Header elements (each element takes >=1 byte)
			if int(c.Header) <= len(c.Tail) {
				return verifkit.Fail("harness:hostile-domain", "count %d fits in tail %d", c.Header, len(c.Tail))
			}
		}
	case "extshort":
		if int(c.Header) <= ForgeMaxArrayLength || c.Header > 0x7FFFFF {
			return verifkit.Fail("harness:hostile-domain", "ext-short header %d not in (ForgeMax, 0x7FFFFF]", c.Header)
		}
		if v := c03ExtShortReadCheck(int(c.Header)); v != nil {
			return verifkit.Result{V: v}
		}
		data = append(verifkit.RefExtShort(int(c.Header)), c.Tail...)
		labels = append(labels, c.Prim+":over-limit-length")
	default:
		return verifkit.Fail("harness:hostile-domain", "primitive %q has no length prefix", c.Prim)
	}
	for _, kind := range c03ReaderKinds {
		a0 := c03AllocBytes()
		o := c03Decode(p, &c, kind, data)
		a1 := c03AllocBytes()
		if o.panicked != nil {
			return verifkit.Fail("panic:"+p.rsite, "%s panicked on hostile length %d (input %s, reader %s): %v", p.rsite, c.Header, c03Short(data), kind, o.panicked)
		}
		if o.err == nil {
			return verifkit.Fail("hostile-length-accepted:"+p.rsite, "%s accepted hostile length/count %d (input %s, reader %s) and returned %s", p.rsite, c.Header, c03Short(data), kind, c03Brief(o.v))
		}
		if d := a1 - a0; d > c03AllocBound {
			return verifkit.Fail("hostile-length-alloc:"+p.rsite, "%s allocated %d bytes before rejecting hostile length/count %d (reader %s)", p.rsite, d, c.Header, kind)
		}
	}
	return verifkit.Result{Labels: labels, NonTrivial: true}
}

// ---- generators

func c03GenString(t *rapid.T, label string) string {
	return rapid.OneOf(
		rapid.StringN(0, 12, -1),
		rapid.StringOfN(rapid.RuneFrom([]rune("aZ09_é€你😀\u0001߿￿\U0010ffff")), 0, 10, -1),
		rapid.Just(""),
	).Draw(t, label)
}

func c03GenKey(t *rapid.T, label string) [2]string {
	ns := rapid.OneOf(
		rapid.Just("minecraft"),
		rapid.StringMatching(`[a-z0-9_.-]{1,8}`).Filter(func(s string) bool { return s != ".." }),
	).Draw(t, label+"-ns")
	val := rapid.StringMatching(`[a-z0-9_./-]{0,12}`).Draw(t, label+"-val")
	return [2]string{ns, val}
}

func c03GenInt(t *rapid.T, bits int, label string) int64 {
	return rapid.OneOf(
		rapid.Int64(),
		rapid.SampledFrom([]int64{0, 1, -1, 127, 128, 255, 256, 32767, 32768, 65535, 65536, math.MaxInt32, math.MinInt32, math.MaxUint32, math.MaxInt64, math.MinInt64}),
		rapid.Int64Range(-300, 300),
	).Draw(t, label)
}

var c03VarIntBoundaries = []int32{0, 1, -1, 127, 128, 16383, 16384, 2097151, 2097152, 268435455, 268435456, math.MaxInt32, math.MinInt32, -128, 255, 25565}

func c03GenVarInt(t *rapid.T, label string) int32 {
	return rapid.OneOf(rapid.SampledFrom(c03VarIntBoundaries), rapid.Int32(), rapid.Int32Range(-1000, 70000)).Draw(t, label)
}

// c03GenLen draws a length around a limit.
func c03GenLenAround(t *rapid.T, lim int, label string) int {
	cands := []int{0, 1, lim - 1, lim, lim + 1, lim / 2}
	var ok []int
	for _, c := range cands {
		if c >= 0 {
			ok = append(ok, c)
		}
	}
	return rapid.SampledFrom(ok).Draw(t, label)
}

// c03GenValue fills the value (and parameters) for primitive name.
func c03GenValue(t *rapid.T, name string) c03Case {
	c := c03Case{Prim: name}
	switch name {
	case "varint", "varint-plainapi":
		c.V.N = int64(c03GenVarInt(t, "v"))
	case "bool":
		c.V.N = int64(rapid.IntRange(0, 1).Draw(t, "v"))
	case "int8":
		c.V.N = int64(rapid.Int8().Draw(t, "v"))
	case "uint8", "byte":
		c.V.N = int64(rapid.Uint8().Draw(t, "v"))
	case "int16":
		c.V.N = int64(int16(c03GenInt(t, 16, "v")))
	case "uint16":
		c.V.N = int64(uint16(c03GenInt(t, 16, "v")))
	case "int32", "int":
		c.V.N = int64(int32(c03GenInt(t, 32, "v")))
	case "uint32":
		c.V.N = int64(uint32(c03GenInt(t, 32, "v")))
	case "int64", "uint64":
		c.V.N = c03GenInt(t, 64, "v")
	case "unixmilli":
		// time.UnixMilli / Time.UnixMilli are exact inverses inside this range
		c.V.N = rapid.OneOf(rapid.Int64Range(-1<<53, 1<<53), rapid.SampledFrom([]int64{0, 1, -1, 1700000000000, 253402300799999})).Draw(t, "v")
	case "float32":
		c.V.N = int64(rapid.OneOf(rapid.Uint32(),
			rapid.SampledFrom([]uint32{0, 0x80000000, 0x7f800000, 0xff800000, 0x7fc00000, 0x7f800001, 0xffc12345, 0x3f800000, 1})).Draw(t, "bits"))
	case "float64":
		c.V.N = int64(rapid.OneOf(rapid.Uint64(),
			rapid.SampledFrom([]uint64{0, 1 << 63, 0x7ff0000000000000, 0xfff0000000000000, 0x7ff8000000000000, 0x7ff0000000000001, 0xfff8123456789abc, 0x3ff0000000000000, 1})).Draw(t, "bits"))
	case "uuid", "uuid-intarray":
		c.V.B = rapid.OneOf(rapid.SliceOfN(rapid.Byte(), 16, 16),
			rapid.SliceOfN(rapid.SampledFrom([]byte{0, 0xff, 0x80, 0x7f}), 16, 16)).Draw(t, "uuid")
	case "string", "utf":
		if rapid.IntRange(0, 39).Draw(t, "big") == 0 {
			lim := DefaultMaxStringSize * 4
			if name == "utf" {
				lim = math.MaxUint16
			}
			c.V.S = "x"
			c.V.Rep = rapid.SampledFrom([]int{lim - 1, lim, lim + 1, 255, 256, 65535, 65536}).Draw(t, "rep")
		} else {
			c.V.S = c03GenString(t, "s")
			if name == "utf" && rapid.Bool().Draw(t, "long") {
				c.V.Rep = rapid.SampledFrom([]int{2, 20, 64, 100}).Draw(t, "rep")
			}
		}
	case "stringmax":
		c.Max = rapid.SampledFrom([]int{0, 1, 3, 16, 100, 32767}).Draw(t, "max")
		n := c03GenLenAround(t, c.Max*4, "len")
		if n <= 64 && rapid.Bool().Draw(t, "unicode") {
			// build a string of exactly n bytes out of multi-byte runes where possible
			var sb strings.Builder
			for sb.Len() < n {
				r := rapid.SampledFrom([]string{"a", "é", "€", "😀"}).Draw(t, "r")
				if sb.Len()+len(r) > n {
					r = "a"
				}
				sb.WriteString(r)
			}
			c.V.S = sb.String()
		} else if n > 0 {
			c.V.S = "y"
			c.V.Rep = n
			if n == 1 {
				c.V.Rep = 0
			}
		}
	case "stringarray":
		n := rapid.IntRange(0, 5).Draw(t, "n")
		for i := 0; i < n; i++ {
			c.V.SS = append(c.V.SS, c03GenString(t, "s"))
		}
	case "varintarray", "intarray":
		n := rapid.IntRange(0, 8).Draw(t, "n")
		for i := 0; i < n; i++ {
			c.V.Ints = append(c.V.Ints, c03GenVarInt(t, "e"))
		}
	case "bytes":
		if rapid.IntRange(0, 39).Draw(t, "big") == 0 {
			c.V.BLen = rapid.SampledFrom([]int{DefaultMaxStringSize - 1, DefaultMaxStringSize, DefaultMaxStringSize + 1, 16384}).Draw(t, "blen")
			c.V.B = rapid.SliceOfN(rapid.Byte(), 1, 4).Draw(t, "seed")
		} else {
			c.V.B = rapid.SliceOfN(rapid.Byte(), 0, 40).Draw(t, "b")
		}
	case "byteslen":
		c.Max = rapid.SampledFrom([]int{0, 1, 16, 256, 4096}).Draw(t, "max")
		n := c03GenLenAround(t, c.Max, "len")
		if n <= 40 {
			c.V.B = rapid.SliceOfN(rapid.Byte(), n, n).Draw(t, "b")
		} else {
			c.V.BLen = n
			c.V.B = rapid.SliceOfN(rapid.Byte(), 1, 4).Draw(t, "seed")
		}
	case "extshort":
		c.V.N = int64(rapid.OneOf(
			rapid.SampledFrom([]int{0, 1, 127, 128, 255, 256, 257, 32767, 32768, 32769, 65535, 65536, ForgeMaxArrayLength, 0x7FFFFF}),
			rapid.IntRange(0, 0x7FFFFF), rapid.IntRange(0, 400)).Draw(t, "n"))
	case "bytes17":
		c.Ext = rapid.Bool().Draw(t, "ext")
		var n int
		if rapid.IntRange(0, 49).Draw(t, "huge") == 0 {
			n = rapid.SampledFrom([]int{ForgeMaxArrayLength, ForgeMaxArrayLength + 1, 65536}).Draw(t, "len")
		} else {
			n = rapid.OneOf(rapid.SampledFrom([]int{0, 1, 4, 16, 127, 128, 162, 255, 256, 257, 1000, 32767, 32768}), rapid.IntRange(0, 300)).Draw(t, "len")
		}
		if n <= 32 {
			c.V.B = rapid.SliceOfN(rapid.Byte(), n, n).Draw(t, "b")
		} else {
			c.V.BLen = n
			c.V.B = rapid.SliceOfN(rapid.Byte(), 1, 4).Draw(t, "seed")
		}
	case "properties":
		n := rapid.IntRange(0, 4).Draw(t, "n")
		for i := 0; i < n; i++ {
			p := c03Prop{Name: c03GenString(t, "name"), Val: c03GenString(t, "val")}
			if rapid.Bool().Draw(t, "signed") {
				p.Sig = c03GenString(t, "sig")
			}
			c.V.Props = append(c.V.Props, p)
		}
	case "key", "minimalkey":
		c.V.Keys = [][2]string{c03GenKey(t, "k")}
	case "keyarray":
		n := rapid.IntRange(0, 4).Draw(t, "n")
		for i := 0; i < n; i++ {
			c.V.Keys = append(c.V.Keys, c03GenKey(t, "k"))
		}
	default:
		panic("c03: no generator for " + name)
	}
	return c
}

func c03GenCase(t *rapid.T) c03Case {
	// Permutation draws are unbiased (IntRange/SampledFrom favour the ends of the table)
	return c03GenValue(t, rapid.Permutation(c03PrimNames).Draw(t, "prim")[0])
}

var c03PrimNames = func() []string {
	var out []string
	for _, p := range c03Prims {
		out = append(out, p.name)
	}
	return out
}()

var c03HostilePrims = func() []string {
	out := []string{"varint", "varint-plainapi"}
	for _, p := range c03Prims {
		if p.hostile != "" {
			out = append(out, p.name)
		}
	}
	return out
}()

func c03GenHostile(t *rapid.T) c03Case {
	name := rapid.Permutation(c03HostilePrims).Draw(t, "prim")[0]
	c := c03Case{Prim: name}
	p := c03Find(name)
	c.Tail = rapid.SliceOfN(rapid.Byte(), 0, 24).Draw(t, "tail")
	switch p.hostile {
	case "varint-len":
		if name == "stringmax" {
			c.Max = rapid.SampledFrom([]int{0, 1, 16, 100, 32767, 65536}).Draw(t, "max")
		} else if name == "byteslen" {
			c.Max = rapid.SampledFrom([]int{0, 1, 16, 4096, 65536, 1 << 20}).Draw(t, "max")
		}
		lim := p.limit(&c)
		c.Header = rapid.OneOf(
			rapid.SampledFrom([]int32{-1, math.MinInt32, -128, int32(lim + 1), int32(lim + 2), int32(2*lim + 1), math.MaxInt32, 1 << 30}),
			rapid.Int32Range(math.MinInt32, -1),
			rapid.Int32Range(int32(lim+1), math.MaxInt32),
		).Draw(t, "header")
	case "varint-count":
		c.Header = rapid.OneOf(
			rapid.SampledFrom([]int32{-1, math.MinInt32, math.MaxInt32, 1 << 20, 32768, 32769, 1 << 30}),
			rapid.Int32Range(math.MinInt32, -1),
			rapid.Int32Range(25, math.MaxInt32),
		).Draw(t, "count")
	case "extshort":
		c.Header = int32(rapid.OneOf(rapid.SampledFrom([]int{ForgeMaxArrayLength + 1, 0x7FFFFF, 0x200000}),
			rapid.IntRange(ForgeMaxArrayLength+1, 0x7FFFFF)).Draw(t, "header"))
	default:
		// six-byte VarInt
	}
	return c
}

func c03RunHostileDispatch(c c03Case) verifkit.Result {
	p := c03Find(c.Prim)
	if p != nil && p.hostile == "" {
		// VarInt itself: more than five bytes must be refused
		q := *p
		q.hostile = "varint-toolong"
		return c03RunHostileWith(&q, c)
	}
	return c03RunHostile(c)
}

func c03RunHostileWith(p *c03Prim, c c03Case) verifkit.Result {
	data := append(bytes.Repeat([]byte{0xff}, 5), c.Tail...)
	for _, kind := range c03ReaderKinds {
		rd, _ := c03MkReader(kind, data)
		var err error
		var v int
		func() {
			defer func() {
				if r := recover(); r != nil {
					err = fmt.Errorf("panic: %v", r)
					v = -999
				}
			}()
			v, err = ReadVarInt(rd)
		}()
		if v == -999 {
			return verifkit.Fail("panic:ReadVarIntReturnN", "ReadVarInt panicked on %s: %v", c03Short(data), err)
		}
		if err == nil {
			return verifkit.Fail("hostile-length-accepted:ReadVarIntReturnN", "ReadVarInt accepted a VarInt of more than 5 bytes (%s) = %d (reader %s)", c03Short(data), v, kind)
		}
	}
	return verifkit.Result{Labels: []string{c.Prim, c.Prim + ":six-byte-varint"}, NonTrivial: true}
}

func TestVerif_C03(t *testing.T) {
	verifkit.Check(t, "C03", "encode",
		"primitive drawn uniformly from the table (VarInt, fixed ints, floats by bits, bool, UUID both layouts, string/stringmax, arrays, bytes/byteslen, ext-short, Bytes17 +/-extended, properties, UTF, key/minimal key/key array, unix millis); values boundary-biased (VarInt bit boundaries, lengths 0/1/limit-1/limit/limit+1, 127/128/255/256/32767/32768/ForgeMax); oracle: encoder output == refwire layout, unrepresentable values refused; non-trivial = boundary class or encoding of >=3 bytes",
		c03GenCase, c03RunEncode)
	verifkit.Check(t, "C03", "decode",
		"same generator; oracle: the decoder applied to the REFERENCE encoding returns the value and consumes exactly its length with *bytes.Reader, *bytes.Buffer and a plain io.Reader, with and without trailing bytes; values above a decoder limit must be refused; non-trivial as in encode",
		c03GenCase, c03RunDecode)
	verifkit.Check(t, "C03", "truncate",
		"same value generator; every strict prefix of the REFERENCE encoding (all cuts up to 48 bytes, else header/tail/spread cuts) must make the decoder return an error with each reader kind; non-trivial = >=2 strict prefixes",
		c03GenCase, c03RunTruncate(false))
	verifkit.Check(t, "C03", "truncate-self",
		"same, on gate's OWN encoding where its encoder/decoder pair is self-consistent (separates reader truncation defects from layout defects)",
		c03GenCase, c03RunTruncate(true))
	verifkit.Check(t, "C03", "hostile",
		"length-prefixed primitives given a negative or over-limit length (VarInt or ext-short header) or a count larger than the remaining data, followed by 0..24 bytes; six-byte VarInts; oracle: error (no panic, no value) and TotalAlloc delta <= 4 MiB; every case non-trivial",
		c03GenHostile, c03RunHostileDispatch)
}
