//go:build verif

package codec

// C02: on hostile byte streams the frame decoder never panics, terminates
// without reading past the frame, never allocates more than frame cap +
// direction cap, and - on streams whose length prefixes are minimally encoded -
// accepts exactly what the Velocity/vanilla frame decoder accepts (reference:
// verifkit.RefReadFrame) with identical payloads.
//
// The case is a list of frame descriptors that is turned into bytes
// deterministically (plus literal "raw" frames for the native fuzz target), an
// optional truncation point, the direction, the compression threshold and the
// chunking of the transport.

import (
	"bytes"
	"compress/flate"
	"compress/zlib"
	"errors"
	"fmt"
	"io"
	"runtime/debug"
	"runtime/metrics"
	"strings"
	"sync"
	"testing"
	"time"

	"github.com/go-logr/logr"
	"go.minekube.com/gate/pkg/gate/proto"
	"go.minekube.com/gate/pkg/internal/verifkit"
	"pgregory.net/rapid"
)

const (
	c02MaxFrame = 1<<21 - 1
	c02CapSB    = 2 << 20
	c02CapCB    = 8 << 20
)

type c02Frame struct {
	Kind string `json:"kind"`
	// raw: literal bytes
	Raw []byte `json:"raw,omitempty"`
	// rawlen / nonminimal: explicit length prefix value and number of body bytes that follow
	Len     int32 `json:"len,omitempty"`
	BodyLen int   `json:"bodylen,omitempty"`
	Pad     int   `json:"pad,omitempty"` // nonminimal: extra prefix bytes (1..4)
	// payload description (valid, plain, negclaimed, claimed: the data that is deflated)
	PLen int    `json:"plen,omitempty"`
	Seed uint32 `json:"seed,omitempty"`
	Rnd  bool   `json:"rnd,omitempty"` // incompressible content
	// claimed / negclaimed: claimed uncompressed size written in front of the body
	Claimed int32 `json:"claimed,omitempty"`
	Level   int   `json:"level,omitempty"`
	// claimed: mutation of the zlib stream: "", adler, cut1, cut5, cuthalf, trailing, header, garbage, nofinal
	Mut string `json:"mut,omitempty"`
}

type c02Case struct {
	ServerBound bool       `json:"serverbound"`
	Threshold   int        `json:"threshold"` // <0: compression off
	Frames      []c02Frame `json:"frames"`
	// Truncate: -1 = keep the whole stream; 0..999 = keep that many permille of it;
	// 1000+k = keep the first k bytes; -2-k = drop the last k+1 bytes.
	Truncate int `json:"truncate"`
	Chunks      []int      `json:"chunks"`
	// Prior: thresholds announced on the decoder before Threshold (a backend may
	// send SetCompression more than once; the last value is the one in effect).
	Prior []int `json:"prior,omitempty"`
	// Later: further segments of the stream, each preceded by a threshold change on
	// the live decoder. Every segment before the last ends with a valid frame, so
	// the change happens between two Decode calls as it does in the session handlers.
	Later []c02Segment `json:"later,omitempty"`
}

type c02Segment struct {
	Threshold int        `json:"threshold"`
	Frames    []c02Frame `json:"frames"`
}

// c02Data: payload bytes starting with a packet id VarInt (0x7f) that no state
// registers, so that the packet layer above the frame layer forwards it untouched.
func c02Data(n int, seed uint32, rnd bool) []byte {
	if n <= 0 {
		return []byte{}
	}
	out := make([]byte, n)
	if rnd {
		x := seed | 1
		for i := range out {
			x ^= x << 13
			x ^= x >> 17
			x ^= x << 5
			out[i] = byte(x >> 11)
		}
	} else if seed&1 == 1 {
		words := "minecraft:brand velocity gate the quick brown fox "
		for i := range out {
			out[i] = words[(i+int(seed>>1))%len(words)]
		}
	}
	out[0] = 0x7f
	return out
}

// c02ZlibWriters caches one compressor per level (creating one costs ~1 MiB of
// cleared memory; the harness is single-threaded per process).
var (
	c02ZlibMu      sync.Mutex
	c02ZlibWriters = map[int]*zlib.Writer{}
)

func c02Zlib(data []byte, level int) []byte {
	c02ZlibMu.Lock()
	defer c02ZlibMu.Unlock()
	var zb bytes.Buffer
	zw := c02ZlibWriters[level]
	if zw == nil {
		var err error
		zw, err = zlib.NewWriterLevel(&zb, level)
		if err != nil {
			panic(err)
		}
		c02ZlibWriters[level] = zw
	} else {
		zw.Reset(&zb)
	}
	zw.Write(data)
	zw.Close()
	return zb.Bytes()
}

// c02ValidFrame is verifkit.RefFrame with the cached compressors.
func c02ValidFrame(payload []byte, threshold, level int) []byte {
	if threshold < 0 {
		return c02WithLen(payload)
	}
	if len(payload) < threshold {
		return c02WithLen(append(verifkit.RefVarInt(0), payload...))
	}
	return c02WithLen(append(verifkit.RefVarInt(int32(len(payload))), c02Zlib(payload, level)...))
}

func c02WithLen(body []byte) []byte {
	return append(verifkit.RefVarInt(int32(len(body))), body...)
}

// c02Bytes materialises one frame descriptor.
func c02Bytes(f c02Frame, threshold int) []byte {
	switch f.Kind {
	case "raw":
		return bytes.Clone(f.Raw)
	case "valid":
		return c02ValidFrame(c02Data(f.PLen, f.Seed, f.Rnd), threshold, c02Level(f.Level))
	case "empty":
		return c02ValidFrame([]byte{}, threshold, -1)
	case "zero":
		return []byte{0}
	case "rawlen":
		return append(verifkit.RefVarInt(f.Len), c02Data(f.BodyLen, f.Seed, false)...)
	case "nonminimal":
		body := c02Data(f.BodyLen, f.Seed, false)
		if threshold >= 0 {
			body = append([]byte{0}, body...)
		}
		pre := verifkit.RefVarInt(int32(len(body)))
		pad := f.Pad
		if pad < 1 {
			pad = 1
		}
		if len(pre)+pad > 5 {
			pad = 5 - len(pre)
		}
		pre[len(pre)-1] |= 0x80
		for i := 0; i < pad-1; i++ {
			pre = append(pre, 0x80)
		}
		pre = append(pre, 0x00)
		return append(pre, body...)
	case "plain":
		// compression mode, claimed size 0, uncompressed body
		return c02WithLen(append(verifkit.RefVarInt(0), c02Data(f.PLen, f.Seed, f.Rnd)...))
	case "negclaimed":
		return c02WithLen(append(verifkit.RefVarInt(f.Claimed), c02Data(f.PLen, f.Seed, f.Rnd)...))
	case "claimed":
		z := c02Zlib(c02Data(f.PLen, f.Seed, f.Rnd), c02Level(f.Level))
		switch f.Mut {
		case "adler":
			z[len(z)-1] ^= 0x01
		case "cut1":
			z = z[:len(z)-1]
		case "cut5":
			if len(z) > 5 {
				z = z[:len(z)-5]
			}
		case "cuthalf":
			z = z[:len(z)/2]
		case "trailing":
			z = append(z, 0xde, 0xad, 0xbe, 0xef)
		case "header":
			z[0] ^= 0x10
		case "garbage":
			z = c02Data(len(z), f.Seed, true)
		}
		return c02WithLen(append(verifkit.RefVarInt(f.Claimed), z...))
	}
	return nil
}

func c02Level(l int) int {
	if l < -1 || l > 9 {
		return -1
	}
	return l
}

type c02Chunked struct {
	data     []byte
	pos      int
	chunks   []int
	i        int
	afterEOF int
	reads    int
}

func (r *c02Chunked) Read(p []byte) (int, error) {
	r.reads++
	if len(p) == 0 {
		return 0, nil
	}
	if r.pos >= len(r.data) {
		r.afterEOF++
		return 0, io.EOF
	}
	n := len(r.data) - r.pos
	if len(r.chunks) > 0 {
		c := r.chunks[r.i%len(r.chunks)]
		r.i++
		if c > 0 && c < n {
			n = c
		}
	}
	if n > len(p) {
		n = len(p)
	}
	copy(p, r.data[r.pos:r.pos+n])
	r.pos += n
	return n, nil
}

func c02AllocBytes() uint64 {
	s := []metrics.Sample{{Name: "/gc/heap/allocs:bytes"}}
	metrics.Read(s)
	return s[0].Value.Uint64()
}

// c02MinimalPrefixAt reports whether the VarInt starting at pos is minimally
// encoded (or incomplete, which is truncation, not non-minimality).
func c02MinimalPrefixAt(b []byte, pos int) bool {
	var u uint32
	for i := 0; i < 5; i++ {
		if pos+i >= len(b) {
			return true
		}
		c := b[pos+i]
		u |= uint32(c&0x7f) << (7 * uint(i))
		if c&0x80 == 0 {
			return bytes.Equal(b[pos:pos+i+1], verifkit.RefVarInt(int32(u)))
		}
	}
	return false // more than 5 bytes: not a VarInt at all (rejected by everyone)
}

func c02ReasonKey(reason string) string {
	switch {
	case strings.HasPrefix(reason, "length prefix wider"):
		return "frame-length-above-2^21-1"
	case strings.HasPrefix(reason, "bad claimed-size varint"):
		return "bad-claimed-varint"
	case strings.HasPrefix(reason, "uncompressed frame"):
		return "uncompressed-above-threshold"
	case strings.HasPrefix(reason, "negative claimed"):
		return "negative-claimed-size"
	case strings.Contains(reason, "below threshold"):
		return "claimed-below-threshold"
	case strings.Contains(reason, "above cap"):
		return "claimed-above-cap"
	case strings.HasPrefix(reason, "bad zlib header"):
		return "bad-zlib-header"
	case strings.HasPrefix(reason, "inflate: zlib: invalid checksum"):
		return "bad-adler32"
	case strings.HasPrefix(reason, "inflate:"):
		return "corrupt-or-truncated-deflate"
	case strings.HasPrefix(reason, "inflated to"):
		var got, want int
		fmt.Sscanf(reason, "inflated to %d bytes, claimed %d", &got, &want)
		if got > want {
			return "inflates-beyond-claimed-size"
		}
		return "inflates-short-of-claimed-size"
	}
	return "other"
}

// c02InflatesBeyondClaim: does the raw deflate data of the compressed frame at
// offset start produce more bytes than the frame claims (checksum and trailer
// ignored)?
func c02InflatesBeyondClaim(stream []byte, start int) bool {
	r := verifkit.NewRefReader(stream[start:])
	l, err := r.VarInt()
	if err != nil {
		return false
	}
	body, err := r.Take(int(l))
	if err != nil {
		return false
	}
	br := verifkit.NewRefReader(body)
	claimed, err := br.VarInt()
	rest := br.Rest()
	if err != nil || claimed <= 0 || len(rest) < 2 {
		return false
	}
	fr := flate.NewReader(bytes.NewReader(rest[2:]))
	n, _ := io.Copy(io.Discard, io.LimitReader(fr, int64(claimed)+1))
	return n > int64(claimed)
}

func c02Short(b []byte) string {
	if len(b) <= 20 {
		return fmt.Sprintf("%x(len %d)", b, len(b))
	}
	return fmt.Sprintf("%x..%x(len %d)", b[:10], b[len(b)-4:], len(b))
}

func c02CutAt(tr, n int) int {
	cut := n
	switch {
	case tr == -1:
	case tr <= -2:
		cut = n - (-tr - 1)
	case tr < 1000:
		cut = n * tr / 1000
	default:
		cut = tr - 1000
	}
	if cut < 0 {
		cut = 0
	}
	if cut > n {
		cut = n
	}
	return cut
}

type c02Outcome struct {
	v      *verifkit.Violation
	labels []string
	nt     bool
}

func c02Run(c c02Case) verifkit.Result {
	var stream []byte
	for _, f := range c.Frames {
		stream = append(stream, c02Bytes(f, c.Threshold)...)
	}
	var bounds []int
	for _, seg := range c.Later {
		bounds = append(bounds, len(stream))
		for _, f := range seg.Frames {
			stream = append(stream, c02Bytes(f, seg.Threshold)...)
		}
	}
	stream = stream[:c02CutAt(c.Truncate, len(stream))]
	var out c02Outcome
	w := verifkit.Watch(15*time.Second, "codec.(*Decoder)", func() { out = c02Judge(c, stream, bounds) })
	switch w.Outcome {
	case verifkit.Deadlocked:
		return verifkit.Fail("blocked:Decode", "Decode is parked in a sync primitive with all bytes delivered:\n%s", w.Stack)
	case verifkit.Slow:
		return verifkit.Result{Inconclusive: true, Labels: []string{"watchdog-slow"}}
	case verifkit.Panicked:
		return verifkit.Fail("panic:harness", "harness panic: %v\n%s", w.PanicValue, w.PanicStack)
	}
	if out.v != nil {
		return verifkit.Result{V: out.v}
	}
	return verifkit.Result{Labels: out.labels, NonTrivial: out.nt}
}

func c02Judge(c c02Case, stream []byte, bounds []int) (out c02Outcome) {
	dir, capBytes := proto.ClientBound, c02CapCB
	if c.ServerBound {
		dir, capBytes = proto.ServerBound, c02CapSB
	}
	threshold := c.Threshold
	if threshold < 0 {
		threshold = -1
	}
	rd := &c02Chunked{data: stream, chunks: c.Chunks}
	dec := NewDecoder(rd, dir, logr.Discard())
	for _, p := range c.Prior {
		dec.SetCompressionThreshold(p)
	}
	if threshold >= 0 || len(c.Prior) > 0 {
		dec.SetCompressionThreshold(threshold)
	}
	ref := verifkit.NewRefReader(stream)
	allocBound := uint64(c02MaxFrame + capBytes + 1<<20)

	labelSet := map[string]bool{}
	label := func(l string) { labelSet[l] = true }
	defer func() {
		for l := range labelSet {
			out.labels = append(out.labels, l)
		}
	}()
	label(fmt.Sprintf("threshold=%d", threshold))
	if len(c.Prior) > 0 {
		label("threshold-announced-more-than-once")
	}
	seg := 0

	// one guarded Decode call
	type res struct {
		ctx      *proto.PacketContext
		err      error
		panicked any
		stack    string
		alloc    uint64
		eofReads int
	}
	decode := func() (r res) {
		e0 := rd.afterEOF
		a0 := c02AllocBytes()
		func() {
			defer func() {
				if p := recover(); p != nil {
					r.panicked = p
					r.stack = string(debug.Stack())
				}
			}()
			r.ctx, r.err = dec.Decode()
		}()
		r.alloc = c02AllocBytes() - a0
		r.eofReads = rd.afterEOF - e0
		return
	}
	safety := func(r res, at int) *verifkit.Violation {
		if r.panicked != nil {
			return verifkit.Violationf("panic:Decode", "Decode panicked at stream offset %d: %v\n%s", at, r.panicked, r.stack)
		}
		if r.alloc > allocBound {
			return verifkit.Violationf("alloc:Decode", "one Decode call at stream offset %d allocated %d bytes (bound: frame cap + direction cap + 1 MiB = %d)", at, r.alloc, allocBound)
		}
		if r.eofReads > 1 {
			return verifkit.Violationf("read-after-eof:Decode", "Decode kept reading (%d reads) after the transport reported EOF", r.eofReads)
		}
		return nil
	}

	differential := true
	type c02HeldPayload struct{ got, want []byte }
	var c02Held []c02HeldPayload
	for frameNo := 0; frameNo < 64; frameNo++ {
		// reference: next non-empty payload / verdict
		var want []byte
		var werr error
		start := ref.Pos
		empties := 0
		if differential && seg < len(bounds) && ref.Pos == bounds[seg] && rd.pos == ref.Pos {
			// the peer announces another threshold between two frames
			old := threshold
			threshold = c.Later[seg].Threshold
			if threshold < 0 {
				threshold = -1
			}
			dec.SetCompressionThreshold(threshold)
			seg++
			switch {
			case old < 0 && threshold >= 0:
				label("threshold-change:off->on")
			case old >= 0 && threshold < 0:
				label("threshold-change:on->off")
			case old >= 0 && threshold > old:
				label("threshold-change:raised")
			case old >= 0 && threshold < old:
				label("threshold-change:lowered")
			default:
				label("threshold-change:same")
			}
		}
		for differential {
			if !c02MinimalPrefixAt(stream, ref.Pos) {
				differential = false
				label("non-minimal-prefix(differential stops)")
				break
			}
			start = ref.Pos
			want, werr = verifkit.RefReadFrame(ref, threshold, capBytes)
			if werr == nil && len(want) == 0 {
				empties++
				label("empty-frame")
				if empties > 10 {
					// gate gives up after more than ten empty frames in a row; Velocity has no such rule
					differential = false
					label("more-than-10-empties(differential stops)")
				}
				continue
			}
			break
		}
		r := decode()
		if v := safety(r, start); v != nil {
			out.v = v
			return
		}
		// Payloads yielded earlier belong to the caller: decoding a later frame
		// must not change them (a consumer that queues packets still holds them).
		for i := range c02Held {
			if !bytes.Equal(c02Held[i].got, c02Held[i].want) {
				out.v = verifkit.Violationf("payload-mutated-by-later-decode:frame", "payload #%d yielded earlier as %s reads %s after a later Decode call (frames share a buffer)", i, c02Short(c02Held[i].want), c02Short(c02Held[i].got))
				return
			}
		}
		if !differential {
			if r.err != nil && !errors.Is(r.err, proto.ErrDecoderLeftBytes) {
				return
			}
			continue
		}
		gateAccepted := r.err == nil || (errors.Is(r.err, proto.ErrDecoderLeftBytes) && r.ctx != nil)
		switch {
		case werr == nil:
			// reference accepts a non-empty payload
			label("ref-accepts")
			if threshold >= 0 {
				// classify boundary values of accepted compressed frames
				if len(want) == threshold {
					label("accepted-size=threshold")
				}
				if len(want) == capBytes {
					label("accepted-size=cap")
					out.nt = true
				}
				if len(want) == threshold || len(want) == threshold+1 || len(want) == threshold-1 {
					out.nt = true
				}
			}
			idOK := want[0] == 0x7f
			if !gateAccepted {
				if !idOK {
					label("packet-layer-undecidable")
					return
				}
				out.v = verifkit.Violationf("rejects-accepted:frame", "frame at offset %d..%d (threshold %d, %s): the reference decoder yields payload %s, gate returned error: %v", start, ref.Pos, threshold, dir, c02Short(want), r.err)
				return
			}
			if r.ctx == nil || !bytes.Equal(r.ctx.Payload, want) {
				var got []byte
				if r.ctx != nil {
					got = r.ctx.Payload
				}
				out.v = verifkit.Violationf("payload-mismatch:frame", "frame at offset %d..%d (threshold %d): gate payload %s, reference payload %s", start, ref.Pos, threshold, c02Short(got), c02Short(want))
				return
			}
			c02Held = append(c02Held, c02HeldPayload{got: r.ctx.Payload, want: append([]byte(nil), want...)})
			if rd.pos != ref.Pos {
				out.v = verifkit.Violationf("overread:Decode", "after the frame ending at offset %d the decoder has consumed %d bytes of the transport (would block on a live socket)", ref.Pos, rd.pos)
				return
			}
		case errors.Is(werr, io.EOF):
			label("clean-end")
			if gateAccepted {
				out.v = verifkit.Violationf("phantom-packet:end-of-stream", "stream fully consumed at offset %d but Decode returned payload %s", start, c02Short(r.ctx.Payload))
			}
			return
		case errors.Is(werr, verifkit.ErrRefShort):
			label("truncated")
			if gateAccepted {
				out.v = verifkit.Violationf("accepts-rejected:truncated-frame", "stream ends inside the frame starting at offset %d (stream length %d) but Decode returned payload %s", start, len(stream), c02Short(r.ctx.Payload))
			}
			return
		default:
			var fe *verifkit.RefFrameError
			if !errors.As(werr, &fe) {
				out.v = verifkit.Violationf("harness:ref-error", "unexpected reference error %v", werr)
				return
			}
			rk := c02ReasonKey(fe.Reason)
			if (rk == "bad-adler32" || rk == "corrupt-or-truncated-deflate") && c02InflatesBeyondClaim(stream, start) {
				// the deflate data alone already exceeds the claim: same root cause as a
				// well-formed over-long stream (the inflater is never driven to the end)
				rk = "inflates-beyond-claimed-size"
			}
			label("ref-rejects:" + rk)
			out.nt = true
			if gateAccepted {
				out.v = verifkit.Violationf("accepts-rejected:"+rk, "frame at offset %d (threshold %d, %s) is rejected by the Velocity/vanilla rules (%s) but Decode returned payload %s", start, threshold, dir, fe.Reason, c02Short(r.ctx.Payload))
			}
			return
		}
	}
	return
}

// ---- generator

func c02GenPLen(t *rapid.T, threshold int) int {
	cands := []int{1, 2, 5, 127, 128, 300, 16383, 16384, 40000, 70000}
	if threshold >= 0 {
		cands = append(cands, threshold, threshold+1, threshold, threshold+1, threshold+2, threshold+100)
		if threshold > 1 {
			cands = append(cands, threshold-1, threshold-1)
		}
	}
	var ok []int
	for _, v := range cands {
		if v >= 1 && v <= 1<<20+200 {
			ok = append(ok, v)
		}
	}
	return rapid.OneOf(rapid.SampledFrom(ok), rapid.IntRange(1, 400)).Draw(t, "plen")
}

// c02Afford limits every case to one frame whose data exceeds 64 KiB (cost).
func c02Afford(n int, big *bool) bool {
	if n <= 1<<16 {
		return true
	}
	if *big {
		return false
	}
	*big = true
	return true
}

func c02GenFrame(t *rapid.T, c *c02Case, big *bool) c02Frame {
	th := c.Threshold
	capBytes := c02CapCB
	if c.ServerBound {
		capBytes = c02CapSB
	}
	kinds := []string{"valid", "valid", "valid", "empty", "rawlen", "nonminimal"}
	if th >= 0 {
		kinds = append(kinds, "plain", "plain", "negclaimed", "claimed", "claimed", "claimed", "claimed", "zero")
	}
	f := c02Frame{Kind: rapid.SampledFrom(kinds).Draw(t, "kind"), Seed: rapid.Uint32().Draw(t, "seed")}
	switch f.Kind {
	case "valid":
		f.PLen = c02GenPLen(t, th)
		if !c02Afford(f.PLen, big) {
			f.PLen = rapid.IntRange(1, 400).Draw(t, "plenSmall")
		}
		f.Rnd = rapid.Bool().Draw(t, "rnd")
		f.Level = rapid.IntRange(-1, 9).Draw(t, "level")
	case "rawlen":
		f.Len = rapid.OneOf(
			rapid.SampledFrom([]int32{-1, -2147483648, c02MaxFrame + 1, c02MaxFrame + 2, 1 << 22, 1 << 28, 2147483647, c02MaxFrame, 100, 3}),
			rapid.Int32(),
		).Draw(t, "len")
		switch rapid.IntRange(0, 3).Draw(t, "body") {
		case 0:
			f.BodyLen = 0
		case 1:
			f.BodyLen = rapid.IntRange(0, 64).Draw(t, "bodylen")
		default:
			// the announced body is fully present when that is affordable
			if f.Len > 0 && (f.Len <= 1<<16 || (!*big && f.Len <= c02MaxFrame+2)) {
				f.BodyLen = int(f.Len)
				if f.Len > 1<<16 {
					*big = true
				}
			} else {
				f.BodyLen = rapid.IntRange(0, 64).Draw(t, "bodylen")
			}
		}
	case "nonminimal":
		f.BodyLen = rapid.IntRange(1, 200).Draw(t, "bodylen")
		f.Pad = rapid.IntRange(1, 4).Draw(t, "pad")
	case "plain":
		// claimed 0 with an uncompressed body around the threshold
		f.PLen = rapid.SampledFrom([]int{max(th-1, 1), max(th, 1), th + 1, th + 2, 1, max(th/2, 1)}).Draw(t, "plen")
		if !c02Afford(f.PLen, big) {
			f.PLen = rapid.IntRange(1, 400).Draw(t, "plenSmall")
		}
		f.Rnd = rapid.Bool().Draw(t, "rnd")
	case "negclaimed":
		f.Claimed = rapid.OneOf(rapid.SampledFrom([]int32{-1, -2147483648, -2}), rapid.Int32Range(-2147483648, -1)).Draw(t, "claimed")
		f.PLen = rapid.SampledFrom([]int{1, max(th-1, 1), max(th, 1), th + 1, 20}).Draw(t, "plen")
		if !c02Afford(f.PLen, big) {
			f.PLen = rapid.IntRange(1, 400).Draw(t, "plenSmall")
		}
	case "claimed":
		f.Level = rapid.IntRange(-1, 9).Draw(t, "level")
		f.Mut = rapid.SampledFrom([]string{"", "", "", "adler", "cut1", "cut5", "cuthalf", "trailing", "header", "garbage"}).Draw(t, "mut")
		// claimed size classes
		small := []int32{int32(max(th-1, 1)), int32(max(th, 1)), int32(th + 1), int32(th + 100), 1, 300, 40000}
		large := []int32{int32(capBytes - 1), int32(capBytes), int32(capBytes + 1), c02CapSB + 1, c02CapSB, c02CapCB, c02CapCB + 1, 1 << 20}
		absurd := []int32{2147483647, 1 << 30, c02CapCB * 2, -5}
		cls := rapid.IntRange(0, 19).Draw(t, "cls")
		switch {
		case cls == 7 && !*big:
			f.Claimed = rapid.SampledFrom(large).Draw(t, "claimed")
			*big = true
			// data length relative to the claim
			f.PLen = int(f.Claimed) + rapid.SampledFrom([]int{0, 0, 0, -1, 1}).Draw(t, "delta")
		case cls == 11 || cls == 12:
			f.Claimed = rapid.SampledFrom(absurd).Draw(t, "claimed")
			f.PLen = rapid.IntRange(1, 200).Draw(t, "plen")
		default:
			f.Claimed = rapid.OneOf(rapid.SampledFrom(small), rapid.Int32Range(1, 2000)).Draw(t, "claimed")
			switch rapid.IntRange(0, 9).Draw(t, "rel") {
			case 0:
				f.PLen = int(f.Claimed) - 1
			case 1:
				f.PLen = int(f.Claimed) + 1
			case 2:
				f.PLen = int(f.Claimed) * 2
			case 3:
				f.PLen = int(f.Claimed) / 2
			case 4:
				// inflate bomb relative to the claim
				f.PLen = int(f.Claimed) + 300000
			default:
				f.PLen = int(f.Claimed)
			}
		}
		if f.PLen < 1 {
			f.PLen = 1
		}
		if f.PLen > 1<<16 && cls != 7 && !c02Afford(f.PLen, big) {
			// keep the relation to the claim but at an affordable size
			f.Claimed = rapid.Int32Range(1, 2000).Draw(t, "claimedSmall")
			f.PLen = int(f.Claimed) + rapid.SampledFrom([]int{0, 0, -1, 1, 500}).Draw(t, "deltaSmall")
			if f.PLen < 1 {
				f.PLen = 1
			}
		}
		f.Rnd = f.PLen <= 1<<16 && rapid.Bool().Draw(t, "rnd")
	}
	return f
}

var c02Thresholds = []int{-1, 0, 1, 256, 1 << 20, 64, 2, 16384}

// generator weights (2^20 is costly: payloads around it are a megabyte)
var c02ThresholdsWeighted = []int{-1, -1, 0, 0, 1, 1, 256, 256, 64, 2, 16384, 1 << 20}

// thresholds used for repeated announcements (payloads around them stay small)
var c02ThresholdsCheap = []int{-1, 0, 1, 2, 64, 256, 300, 16384}

func c02GenCase(t *rapid.T) c02Case {
	c := c02Case{
		ServerBound: rapid.Bool().Draw(t, "serverbound"),
		Threshold:   rapid.SampledFrom(c02ThresholdsWeighted).Draw(t, "threshold"),
		Truncate:    -1,
	}
	n := rapid.IntRange(1, 6).Draw(t, "frames")
	big := false
	for i := 0; i < n; i++ {
		c.Frames = append(c.Frames, c02GenFrame(t, &c, &big))
	}
	// the threshold is announced more than once: before the first frame and/or
	// between frames of a live decoder
	if rapid.IntRange(0, 3).Draw(t, "prior") == 0 {
		c.Prior = rapid.SliceOfN(rapid.SampledFrom(c02ThresholdsCheap), 1, 3).Draw(t, "priorThresholds")
	}
	if rapid.IntRange(0, 2).Draw(t, "segments") == 0 {
		ns := rapid.IntRange(1, 2).Draw(t, "later")
		prev := &c.Frames
		prevTh := c.Threshold
		for i := 0; i < ns; i++ {
			// the previous segment ends with a valid frame (Decode returns there)
			if l := len(*prev); l == 0 || (*prev)[l-1].Kind != "valid" {
				*prev = append(*prev, c02Frame{Kind: "valid", PLen: rapid.IntRange(1, 400).Draw(t, "sepLen"), Seed: rapid.Uint32().Draw(t, "sepSeed"), Level: -1})
			}
			seg := c02Segment{Threshold: rapid.SampledFrom(c02ThresholdsCheap).Draw(t, "segThreshold")}
			tmp := c
			tmp.Threshold = seg.Threshold
			// payload sizes around the previous threshold are the ones a stale
			// threshold would judge differently
			nf := rapid.IntRange(1, 4).Draw(t, "segFrames")
			for j := 0; j < nf; j++ {
				f := c02GenFrame(t, &tmp, &big)
				if prevTh >= 0 && prevTh <= 1<<16 && rapid.Bool().Draw(t, "aroundOld") {
					switch f.Kind {
					case "valid", "plain":
						f.PLen = max(prevTh+rapid.IntRange(-1, 1).Draw(t, "oldDelta"), 1)
					case "claimed":
						if f.Mut == "" && int(f.Claimed) == f.PLen {
							f.PLen = max(prevTh+rapid.IntRange(-1, 1).Draw(t, "oldDelta"), 1)
							f.Claimed = int32(f.PLen)
						}
					}
				}
				seg.Frames = append(seg.Frames, f)
			}
			c.Later = append(c.Later, seg)
			prev = &c.Later[len(c.Later)-1].Frames
			prevTh = seg.Threshold
		}
	}
	if rapid.IntRange(0, 4).Draw(t, "cut") == 0 {
		c.Truncate = rapid.OneOf(
			rapid.IntRange(0, 999),     // anywhere (permille)
			rapid.IntRange(1000, 1012), // inside the first length prefix / claimed size
			rapid.IntRange(-14, -2),    // just before the end (zlib trailer, last bytes)
		).Draw(t, "truncate")
	}
	c.Chunks = rapid.OneOf(
		rapid.Just([]int{0}),
		rapid.SliceOfN(rapid.IntRange(1, 5), 1, 6),
		rapid.SliceOfN(rapid.OneOf(rapid.IntRange(1, 4), rapid.IntRange(1, 70000)), 1, 6),
	).Draw(t, "chunks")
	if big {
		for i := range c.Chunks {
			if c.Chunks[i] != 0 && c.Chunks[i] < 512 {
				c.Chunks[i] += 8192
			}
		}
	}
	return c
}

const c02Rule = "1..6 frame descriptors {valid, empty, explicit length prefix (negative, 2^21-1, 2^21, 2^31-1, body present or not), non-minimal prefix, uncompressed body of threshold-1/threshold/threshold+1 bytes in compression mode, negative claimed size, claimed size in {threshold-1, threshold, threshold+1, cap-1, cap, cap+1, 2 MiB+1, 2^31-1, ...} x zlib body inflating to exactly/fewer/more bytes, bad Adler-32, truncated deflate, trailing bytes, bad header, garbage}, thresholds {-1,0,1,2,64,256,16384,2^20}, the threshold optionally announced several times before the first frame and changed up to twice between frames of the live decoder (off->on, on->off, raised, lowered; frames after a change sized around the old and the new threshold, judged against the one in effect), both directions, optional truncation, chunked transport; oracle: no panic, no read after EOF, transport position == frame end after every accepted frame, allocation per Decode <= 2^21-1 + direction cap + 1 MiB, and frame-by-frame the same accept/reject decision and payload as verifkit.RefReadFrame up to the first rejection (differential only while length prefixes are minimal and <=10 consecutive empty frames); non-trivial = the reference rejects a frame for a reason other than truncation, or an accepted compressed-mode payload of threshold-1/threshold/threshold+1/cap bytes"

func TestVerif_C02(t *testing.T) {
	verifkit.Check(t, "C02", "hostile-stream", c02Rule, c02GenCase, c02Run)
}

// FuzzVerif_C02_stream: byte 0 = flags (bit0 serverbound, bits 1..3 threshold
// index), rest = raw stream.
func FuzzVerif_C02_stream(f *testing.F) {
	f.Add([]byte{0x00, 0x01, 0x7f})
	f.Fuzz(func(t *testing.T, in []byte) {
		if len(in) < 1 || len(in) > 1<<16 {
			return
		}
		c := c02Case{
			ServerBound: in[0]&1 == 1,
			Threshold:   c02Thresholds[int(in[0]>>1)&7],
			Frames:      []c02Frame{{Kind: "raw", Raw: in[1:]}},
			Truncate:    -1,
			Chunks:      []int{0},
		}
		verifkit.CheckCase(t, "C02", "fuzz-stream", "native fuzzing over (flags, raw stream); same oracle as hostile-stream", c, c02Run)
	})
}
