//go:build verif

package state

// C06: packet id tables vs the Velocity reference, exhaustive.
//
// Three enumerated sub-checks (no sampling; rapid is not used because the domain
// is finite and small):
//
//	tables   – per (state, direction, supported protocol): PacketIDs/PacketTypes are
//	           mutually inverse bijections, CreatePacket(PacketID(T)) has type T, and
//	           the registry answers with that protocol's own table.
//	unknown  – per (state, direction, unknown protocol): a registry that answers at
//	           all answers with the lowest supported version's table; Handshake,
//	           Status, Login and Config must answer; Play (Fallback=false, as in
//	           Velocity) may answer with no table, which is reported, not alarmed.
//	refids   – per (state, direction, supported protocol, packet type): the id equals
//	           the id in /verif/ref/velocity_ids.json (independent transcription of
//	           Velocity's StateRegistry) and presence agrees, except for cells listed
//	           there as unverified (reported only).

import (
	"encoding/json"
	"fmt"
	"os"
	"path/filepath"
	"reflect"
	"sort"
	"strconv"
	"strings"
	"testing"

	"go.minekube.com/gate/pkg/edition/java/proto/version"
	"go.minekube.com/gate/pkg/gate/proto"
	"go.minekube.com/gate/pkg/internal/verifkit"
)

// ---- reference file

type c06RefPacket struct {
	Velocity         string      `json:"velocity"`
	Gate             string      `json:"gate"`
	Map              [][2]string `json:"map"`
	Last             string      `json:"last"`
	Origin           string      `json:"origin"`
	PresenceEnforced bool        `json:"presence_enforced"`
}

type c06Unverified struct {
	Registry string `json:"registry"`
	Gate     string `json:"gate"`
	From     string `json:"from"` // version name, inclusive
	To       string `json:"to"`   // version name, inclusive
	Reason   string `json:"reason"`
}

type c06RefFile struct {
	KnowledgeHorizon string                    `json:"knowledge_horizon"`
	Versions         map[string]int            `json:"versions"`
	Registries       map[string][]c06RefPacket `json:"registries"`
	Unverified       []c06Unverified           `json:"unverified"`
	Adjudicated      []json.RawMessage         `json:"adjudicated"`
}

type c06Ref struct {
	file c06RefFile
	// registry -> gate type name -> packet
	byType map[string]map[string]*c06RefPacket
}

func c06FindRefFile() (string, error) {
	const rel = "ref/velocity_ids.json"
	if d := os.Getenv("VERIF_REF_DIR"); d != "" {
		return filepath.Join(d, "velocity_ids.json"), nil
	}
	var starts []string
	if d := os.Getenv("VERIF_WORK"); d != "" {
		starts = append(starts, d)
	}
	if d, err := os.Getwd(); err == nil {
		starts = append(starts, d)
	}
	starts = append(starts, "/verif")
	for _, s := range starts {
		for d := s; ; d = filepath.Dir(d) {
			p := filepath.Join(d, rel)
			if _, err := os.Stat(p); err == nil {
				return p, nil
			}
			if d == filepath.Dir(d) {
				break
			}
		}
	}
	return "", fmt.Errorf("cannot find %s above %v", rel, starts)
}

func c06LoadRef() (*c06Ref, error) {
	p, err := c06FindRefFile()
	if err != nil {
		return nil, err
	}
	b, err := os.ReadFile(p)
	if err != nil {
		return nil, err
	}
	r := &c06Ref{byType: map[string]map[string]*c06RefPacket{}}
	if err := json.Unmarshal(b, &r.file); err != nil {
		return nil, fmt.Errorf("%s: %v", p, err)
	}
	for reg, pkts := range r.file.Registries {
		m := map[string]*c06RefPacket{}
		for i := range pkts {
			pk := &pkts[i]
			if _, dup := m[pk.Gate]; dup {
				return nil, fmt.Errorf("reference lists %s twice in %s", pk.Gate, reg)
			}
			if len(pk.Map) == 0 {
				return nil, fmt.Errorf("reference entry %s/%s has no mapping", reg, pk.Gate)
			}
			prev := -1 << 31
			for _, mp := range pk.Map {
				if _, err := strconv.ParseInt(mp[0], 0, 32); err != nil {
					return nil, fmt.Errorf("reference entry %s/%s: bad id %q", reg, pk.Gate, mp[0])
				}
				v, ok := r.file.Versions[mp[1]]
				if !ok {
					return nil, fmt.Errorf("reference entry %s/%s: unknown version %q", reg, pk.Gate, mp[1])
				}
				if v <= prev {
					return nil, fmt.Errorf("reference entry %s/%s: mappings not ascending at %q", reg, pk.Gate, mp[1])
				}
				prev = v
			}
			if pk.Last != "" {
				if _, ok := r.file.Versions[pk.Last]; !ok {
					return nil, fmt.Errorf("reference entry %s/%s: unknown last version %q", reg, pk.Gate, pk.Last)
				}
			}
			m[pk.Gate] = pk
		}
		r.byType[reg] = m
	}
	for _, u := range r.file.Unverified {
		if _, ok := r.file.Versions[u.From]; !ok {
			return nil, fmt.Errorf("unverified entry %s/%s: unknown version %q", u.Registry, u.Gate, u.From)
		}
		if _, ok := r.file.Versions[u.To]; !ok {
			return nil, fmt.Errorf("unverified entry %s/%s: unknown version %q", u.Registry, u.Gate, u.To)
		}
		if _, ok := r.file.Registries[u.Registry]; !ok {
			return nil, fmt.Errorf("unverified entry: unknown registry %q", u.Registry)
		}
	}
	return r, nil
}

// lookup returns the reference id of typ in registry reg for protocol p and
// the first protocol of the mapping that applies.
func (r *c06Ref) lookup(reg, typ string, p int) (id int, has bool, from int, pk *c06RefPacket) {
	pk = r.byType[reg][typ]
	if pk == nil {
		return 0, false, 0, nil
	}
	if pk.Last != "" && p > r.file.Versions[pk.Last] {
		return 0, false, 0, pk
	}
	for _, mp := range pk.Map {
		if f := r.file.Versions[mp[1]]; f <= p {
			v, _ := strconv.ParseInt(mp[0], 0, 32)
			id, has, from = int(v), true, f
		}
	}
	return id, has, from, pk
}

// extended reports whether the cell lies above the knowledge horizon of the
// transcription and is covered only by open-ended extension of an older mapping
// (no mapping starting at exactly this protocol was added by adjudication).
func (r *c06Ref) extended(p, from int, has bool) bool {
	h, ok := r.file.Versions[r.file.KnowledgeHorizon]
	return ok && p > h && (!has || from != p)
}

func (r *c06Ref) unverified(reg, typ string, p int) (string, bool) {
	for _, u := range r.file.Unverified {
		if u.Registry == reg && (u.Gate == typ || u.Gate == "*") &&
			r.file.Versions[u.From] <= p && p <= r.file.Versions[u.To] {
			return u.Reason, true
		}
	}
	return "", false
}

// ---- live registries

type c06Reg struct {
	Name string
	Reg  *PacketRegistry
	Play bool
}

func c06Registries() []c06Reg {
	return []c06Reg{
		{"handshake/serverbound", Handshake.ServerBound, false},
		{"handshake/clientbound", Handshake.ClientBound, false},
		{"status/serverbound", Status.ServerBound, false},
		{"status/clientbound", Status.ClientBound, false},
		{"login/serverbound", Login.ServerBound, false},
		{"login/clientbound", Login.ClientBound, false},
		{"config/serverbound", Config.ServerBound, false},
		{"config/clientbound", Config.ClientBound, false},
		{"play/serverbound", Play.ServerBound, true},
		{"play/clientbound", Play.ClientBound, true},
	}
}

func c06RegByName(name string) (c06Reg, bool) {
	for _, r := range c06Registries() {
		if r.Name == name {
			return r, true
		}
	}
	return c06Reg{}, false
}

// c06Supported lists the supported (non-pseudo) protocols from version.Versions,
// ascending. Unknown(-1) and Legacy(-2) are pseudo versions.
func c06Supported() []int {
	var out []int
	for _, v := range version.Versions {
		if v.Protocol > 0 {
			out = append(out, int(v.Protocol))
		}
	}
	sort.Ints(out)
	return out
}

func c06UnknownProtocols() []int {
	sup := c06Supported()
	known := map[int]bool{}
	for _, p := range sup {
		known[p] = true
	}
	set := map[int]bool{}
	add := func(p int) {
		if !known[p] {
			set[p] = true
		}
	}
	for _, p := range []int{-1 << 31, -1000, -3, -2, -1, 0, 1, 2, 3} {
		add(p)
	}
	for i := 0; i+1 < len(sup); i++ {
		a, b := sup[i], sup[i+1]
		add(a + 1)
		add(b - 1)
		add((a + b) / 2)
	}
	max := sup[len(sup)-1]
	for _, p := range []int{max + 1, max + 2, max + 1000, 1<<31 - 1} {
		add(p)
	}
	var out []int
	for p := range set {
		out = append(out, p)
	}
	sort.Ints(out)
	return out
}

func c06SortedIDs(m map[proto.PacketID]proto.PacketType) []int {
	ids := make([]int, 0, len(m))
	for id := range m {
		ids = append(ids, int(id))
	}
	sort.Ints(ids)
	return ids
}

// ---- sub-check "tables"

type c06TableCase struct {
	Registry string `json:"registry"`
	Protocol int    `json:"protocol"`
}

func c06RunTable(c c06TableCase) verifkit.Result {
	rg, ok := c06RegByName(c.Registry)
	if !ok {
		return verifkit.Fail("harness:registry", "unknown registry %q", c.Registry)
	}
	reg := rg.Reg.ProtocolRegistry(proto.Protocol(c.Protocol))
	if reg == nil {
		return verifkit.Fail("table:nil:"+c.Registry, "no table for supported protocol %d", c.Protocol)
	}
	if int(reg.Protocol) != c.Protocol {
		return verifkit.Fail("table:wrong-version:"+c.Registry, "supported protocol %d answered with the table of protocol %d", c.Protocol, reg.Protocol)
	}
	if len(reg.PacketIDs) != len(reg.PacketTypes) {
		return verifkit.Fail("table:bijection:"+c.Registry, "protocol %d: %d ids but %d types", c.Protocol, len(reg.PacketIDs), len(reg.PacketTypes))
	}
	maxID := -1
	for _, id := range c06SortedIDs(reg.PacketIDs) {
		typ := reg.PacketIDs[proto.PacketID(id)]
		back, ok := reg.PacketTypes[typ]
		if !ok || int(back) != id {
			return verifkit.Fail("table:bijection:"+c.Registry, "protocol %d: id %#x -> %v but type -> %#x (present=%v)", c.Protocol, id, typ, int(back), ok)
		}
		pk := reg.CreatePacket(proto.PacketID(id))
		if pk == nil {
			return verifkit.Fail("table:create:"+c.Registry, "protocol %d: CreatePacket(%#x) = nil for registered type %v", c.Protocol, id, typ)
		}
		if got := proto.TypeOf(pk); got != typ {
			return verifkit.Fail("table:create:"+c.Registry, "protocol %d: CreatePacket(%#x) has type %v, registered %v", c.Protocol, id, got, typ)
		}
		if reflect.TypeOf(pk).Kind() != reflect.Ptr {
			return verifkit.Fail("table:create:"+c.Registry, "protocol %d: CreatePacket(%#x) is not a pointer (%T)", c.Protocol, id, pk)
		}
		gid, found := reg.PacketID(pk)
		if !found || int(gid) != id {
			return verifkit.Fail("table:create:"+c.Registry, "protocol %d: PacketID(CreatePacket(%#x)) = %#x, found=%v", c.Protocol, id, int(gid), found)
		}
		if id > maxID {
			maxID = id
		}
		if id < 0 {
			return verifkit.Fail("table:negative-id:"+c.Registry, "protocol %d: negative id %d for %v", c.Protocol, id, typ)
		}
	}
	for typ, id := range reg.PacketTypes {
		if back, ok := reg.PacketIDs[id]; !ok || back != typ {
			return verifkit.Fail("table:bijection:"+c.Registry, "protocol %d: type %v -> %#x but id -> %v (present=%v)", c.Protocol, typ, int(id), back, ok)
		}
	}
	// ids that are not registered create nothing
	for _, id := range []int{-1, maxID + 1, maxID + 1000} {
		if _, reg2 := reg.PacketIDs[proto.PacketID(id)]; reg2 {
			continue
		}
		if pk := reg.CreatePacket(proto.PacketID(id)); pk != nil {
			return verifkit.Fail("table:create-unregistered:"+c.Registry, "protocol %d: CreatePacket(%#x) = %T for an unregistered id", c.Protocol, id, pk)
		}
	}
	labels := []string{c.Registry}
	if len(reg.PacketIDs) == 0 {
		labels = append(labels, "empty-table")
	}
	return verifkit.Result{NonTrivial: len(reg.PacketIDs) > 0, Labels: labels}
}

// ---- sub-check "unknown"

type c06UnknownCase struct {
	Registry string `json:"registry"`
	Protocol int    `json:"protocol"`
}

func c06RunUnknown(c c06UnknownCase) verifkit.Result {
	rg, ok := c06RegByName(c.Registry)
	if !ok {
		return verifkit.Fail("harness:registry", "unknown registry %q", c.Registry)
	}
	min := c06Supported()[0]
	got := rg.Reg.ProtocolRegistry(proto.Protocol(c.Protocol))
	class := "gap"
	switch {
	case c.Protocol < 0:
		class = "negative"
	case c.Protocol < min:
		class = "below-min"
	case c.Protocol > c06Supported()[len(c06Supported())-1]:
		class = "above-max"
	}
	if got == nil {
		if rg.Play {
			// Play is registered with Fallback=false exactly as Velocity's PLAY
			// registry: reported in evidence, not a violation (DESIGN §5 C06).
			return verifkit.Result{Labels: []string{"play-no-table", class}}
		}
		return verifkit.Fail("fallback:nil:"+c.Registry, "unknown protocol %d got no table; the property demands the table of the lowest supported version (%d)", c.Protocol, min)
	}
	want := rg.Reg.Protocols[proto.Protocol(min)]
	if want == nil {
		return verifkit.Fail("fallback:no-min-table:"+c.Registry, "registry has no table for the lowest supported protocol %d", min)
	}
	if int(got.Protocol) != min {
		return verifkit.Fail("fallback:wrong-table:"+c.Registry, "unknown protocol %d answered with the table of protocol %d, want lowest supported %d", c.Protocol, got.Protocol, min)
	}
	if !reflect.DeepEqual(c06TableDump(got), c06TableDump(want)) {
		return verifkit.Fail("fallback:wrong-table:"+c.Registry, "unknown protocol %d: table %v differs from the lowest supported version's table %v", c.Protocol, c06TableDump(got), c06TableDump(want))
	}
	labels := []string{"fallback-min", class}
	if rg.Play {
		labels = append(labels, "play-answered")
	}
	return verifkit.Result{NonTrivial: len(got.PacketIDs) > 0, Labels: labels}
}

func c06TableDump(r *ProtocolRegistry) map[int]string {
	out := map[int]string{}
	for id, t := range r.PacketIDs {
		out[int(id)] = t.String()
	}
	return out
}

// ---- sub-check "refids"

type c06RefCase struct {
	Registry string `json:"registry"`
	Protocol int    `json:"protocol"`
	Type     string `json:"type"`
}

var c06RefCache *c06Ref

func c06GetRef() (*c06Ref, error) {
	if c06RefCache != nil {
		return c06RefCache, nil
	}
	r, err := c06LoadRef()
	if err == nil {
		c06RefCache = r
	}
	return r, err
}

// c06GateTypes: type name -> registered type, per registry (over all protocols).
func c06GateTypes(rg c06Reg) map[string]proto.PacketType {
	out := map[string]proto.PacketType{}
	for _, pr := range rg.Reg.Protocols {
		for t := range pr.PacketTypes {
			if prev, ok := out[t.String()]; ok && prev != t {
				panic("c06: two distinct packet types print as " + t.String())
			}
			out[t.String()] = t
		}
	}
	return out
}

// c06Cell evaluates one (registry, protocol, type) cell. note is a human
// readable description used in diff listings.
func c06Cell(ref *c06Ref, c c06RefCase) (res verifkit.Result, note string) {
	rg, ok := c06RegByName(c.Registry)
	if !ok {
		return verifkit.Fail("harness:registry", "unknown registry %q", c.Registry), ""
	}
	reg := rg.Reg.Protocols[proto.Protocol(c.Protocol)]
	if reg == nil {
		return verifkit.Fail("table:nil:"+c.Registry, "no table for supported protocol %d", c.Protocol), ""
	}
	gateID, gateHas := 0, false
	for t, id := range reg.PacketTypes {
		if t.String() == c.Type {
			gateID, gateHas = int(id), true
		}
	}
	refID, refHas, refFrom, pk := ref.lookup(c.Registry, c.Type, c.Protocol)
	vname := version.Protocol(c.Protocol).String()
	if pk == nil {
		// not shared with the reference
		if gateHas {
			return verifkit.Result{Labels: []string{"gate-only-type"}}, ""
		}
		return verifkit.Result{Labels: []string{"gate-only-type-absent"}}, ""
	}
	show := func(has bool, id int) string {
		if !has {
			return "absent"
		}
		return fmt.Sprintf("%#04x", id)
	}
	desc := fmt.Sprintf("%s %s (%s) @%s: gate=%s reference=%s", c.Registry, c.Type, pk.Velocity, vname, show(gateHas, gateID), show(refHas, refID))
	if reason, un := ref.unverified(c.Registry, c.Type, c.Protocol); un {
		return verifkit.Result{Labels: []string{"unverified-cell"}}, "UNVERIFIED " + desc + " -- " + reason
	}
	switch {
	case refHas && gateHas:
		if refID != gateID {
			return verifkit.Fail("refid:mismatch:"+c.Registry+":"+c.Type, "%s", desc), "MISMATCH " + desc
		}
		if ref.extended(c.Protocol, refFrom, refHas) {
			// enforced (frozen table) but without independent evidence: not counted
			return verifkit.Result{Labels: []string{"id-match-above-horizon-extended"}}, "EXTENDED " + desc
		}
		return verifkit.Result{NonTrivial: true, Labels: []string{"id-match", c.Registry}}, ""
	case refHas && !gateHas:
		if !pk.PresenceEnforced {
			return verifkit.Result{Labels: []string{"ref-only-presence-unverified"}}, "UNVERIFIED-PRESENCE " + desc
		}
		return verifkit.Fail("refid:missing:"+c.Registry+":"+c.Type, "%s (the reference registers the type for this version, gate does not)", desc), "MISSING " + desc
	case !refHas && gateHas:
		if !pk.PresenceEnforced {
			return verifkit.Result{Labels: []string{"gate-extra-presence-unverified"}}, "UNVERIFIED-PRESENCE " + desc
		}
		return verifkit.Fail("refid:extra:"+c.Registry+":"+c.Type, "%s (gate registers the shared type for a version where the reference does not)", desc), "EXTRA " + desc
	}
	return verifkit.Result{Labels: []string{"absent-in-both"}}, ""
}

func c06RunRef(c c06RefCase) verifkit.Result {
	ref, err := c06GetRef()
	if err != nil {
		return verifkit.Fail("harness:ref-file", "%v", err)
	}
	r, _ := c06Cell(ref, c)
	return r
}

func c06RefCases(ref *c06Ref) []c06RefCase {
	var out []c06RefCase
	for _, rg := range c06Registries() {
		names := map[string]bool{}
		for n := range c06GateTypes(rg) {
			names[n] = true
		}
		for n := range ref.byType[rg.Name] {
			names[n] = true
		}
		sorted := make([]string, 0, len(names))
		for n := range names {
			sorted = append(sorted, n)
		}
		sort.Strings(sorted)
		for _, p := range c06Supported() {
			for _, n := range sorted {
				out = append(out, c06RefCase{Registry: rg.Name, Protocol: p, Type: n})
			}
		}
	}
	return out
}

const (
	c06RuleTables  = "exhaustive: 10 registries (5 states x 2 directions) x every supported protocol in version.Versions; PacketIDs/PacketTypes mutually inverse, CreatePacket(id) has the registered type and maps back to id, the table answering is the protocol's own; non-trivial = table has at least one packet"
	c06RuleUnknown = "exhaustive over a fixed set of unknown protocols (negative incl. -1/-2 pseudo versions, 0..3, first/last/middle of every gap between supported numbers, max+1, max+2, max+1000, MaxInt32) x 10 registries; a registry that answers must answer with the lowest supported version's table; Handshake/Status/Login/Config must answer; Play (Fallback=false like Velocity) answering nothing is labelled play-no-table and not a violation; non-trivial = answered with a non-empty table"
	c06RuleRef     = "exhaustive: 10 registries x every supported protocol x (types registered by gate in that registry UNION types in ref/velocity_ids.json); id and presence compared with the independent Velocity transcription; cells listed as unverified in the reference file are reported only; non-trivial = the reference has an enforced entry for that (registry, protocol, type); each such cell counts once"
)

// c06Replay runs exactly the case saved in a violation file (verifkit.CheckCase
// has no replay mode of its own).
func c06Replay(t *testing.T, path string) {
	b, err := os.ReadFile(path)
	if err != nil {
		t.Fatalf("replay: %v", err)
	}
	var vf struct {
		Check string          `json:"check"`
		Case  json.RawMessage `json:"case"`
	}
	if err := json.Unmarshal(b, &vf); err != nil {
		t.Fatalf("replay: %v", err)
	}
	defer verifkit.Flush()
	switch vf.Check {
	case "tables":
		var c c06TableCase
		if err := json.Unmarshal(vf.Case, &c); err != nil {
			t.Fatalf("replay: %v", err)
		}
		verifkit.CheckCase(t, "C06", "tables", c06RuleTables, c, c06RunTable)
	case "unknown":
		var c c06UnknownCase
		if err := json.Unmarshal(vf.Case, &c); err != nil {
			t.Fatalf("replay: %v", err)
		}
		verifkit.CheckCase(t, "C06", "unknown", c06RuleUnknown, c, c06RunUnknown)
	case "refids":
		var c c06RefCase
		if err := json.Unmarshal(vf.Case, &c); err != nil {
			t.Fatalf("replay: %v", err)
		}
		verifkit.CheckCase(t, "C06", "refids", c06RuleRef, c, c06RunRef)
	default:
		t.Fatalf("replay: unknown sub-check %q", vf.Check)
	}
}

func TestVerif_C06(t *testing.T) {
	if rp := os.Getenv("VERIF_REPLAY"); rp != "" {
		c06Replay(t, rp)
		return
	}
	// tables
	for _, rg := range c06Registries() {
		for _, p := range c06Supported() {
			verifkit.CheckCase(t, "C06", "tables", c06RuleTables, c06TableCase{Registry: rg.Name, Protocol: p}, c06RunTable)
		}
	}
	// unknown protocols
	playNoTable := 0
	for _, rg := range c06Registries() {
		for _, p := range c06UnknownProtocols() {
			c := c06UnknownCase{Registry: rg.Name, Protocol: p}
			verifkit.CheckCase(t, "C06", "unknown", c06RuleUnknown, c, c06RunUnknown)
			if rg.Play && rg.Reg.ProtocolRegistry(proto.Protocol(p)) == nil {
				playNoTable++
			}
		}
	}
	verifkit.Note("C06", "unknown", "play_exception",
		fmt.Sprintf("Play registries are registered with Fallback=false (as Velocity's PLAY StateRegistry): %d (registry, unknown protocol) lookups returned no table; the fallback clause is therefore decided only for Handshake/Status/Login/Config; what a client announcing an unknown protocol can do in Play is C05's subject", playNoTable))
	verifkit.Note("C06", "unknown", "unknown_protocols_tried", c06UnknownProtocols())

	// reference ids
	ref, err := c06GetRef()
	if err != nil {
		verifkit.CheckCase(t, "C06", "refids", c06RuleRef, c06RefCase{}, func(c06RefCase) verifkit.Result {
			return verifkit.Fail("harness:ref-file", "%v", err)
		})
		return
	}
	// every reference type must exist in gate at all (else "a type the reference
	// registers is registered by gate too" fails for all of its versions)
	var notes, gateOnly []string
	for _, rg := range c06Registries() {
		gt := c06GateTypes(rg)
		for n, pk := range ref.byType[rg.Name] {
			if _, ok := gt[n]; !ok && pk.PresenceEnforced {
				verifkit.CheckCase(t, "C06", "refids", c06RuleRef, c06RefCase{Registry: rg.Name, Type: n}, func(c c06RefCase) verifkit.Result {
					return verifkit.Fail("refid:missing-type:"+c.Registry+":"+c.Type, "reference registers %s (%s) in %s but gate registers no such type in any version", c.Type, pk.Velocity, c.Registry)
				})
			}
		}
		for n := range gt {
			if ref.byType[rg.Name][n] == nil {
				gateOnly = append(gateOnly, rg.Name+" "+n)
			}
		}
	}
	sort.Strings(gateOnly)
	diffOnly := os.Getenv("C06_DIFF") != ""
	var diffs []string
	for _, c := range c06RefCases(ref) {
		r, note := c06Cell(ref, c)
		if note != "" {
			if r.V != nil {
				diffs = append(diffs, note)
			} else {
				notes = append(notes, note)
			}
		}
		if diffOnly {
			continue
		}
		verifkit.CheckCase(t, "C06", "refids", c06RuleRef, c, c06RunRef)
	}
	if diffOnly {
		t.Logf("C06 diff listing: %d disagreements\n%s", len(diffs), strings.Join(diffs, "\n"))
		t.Logf("C06 notes: %d\n%s", len(notes), strings.Join(notes, "\n"))
		t.Logf("C06 gate-only types: %v", gateOnly)
	}
	var unver, ext []string
	for _, n := range notes {
		if strings.HasPrefix(n, "EXTENDED ") {
			ext = append(ext, n)
		} else {
			unver = append(unver, n)
		}
	}
	verifkit.Note("C06", "refids", "unverified_cells_reported_not_enforced", unver)
	verifkit.Note("C06", "refids", "above_horizon_cells_enforced_as_frozen_table_without_independent_evidence", ext)
	verifkit.Note("C06", "refids", "types_not_shared_with_reference", gateOnly)
	verifkit.Note("C06", "refids", "reference_adjudications", len(ref.file.Adjudicated))
	verifkit.Flush()
}
