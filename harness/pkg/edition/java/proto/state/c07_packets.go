//go:build verif

package state

// C07: packets the proxy builds are decoded by an independent vanilla decoder
// (c07_ref.go) to exactly the intended values, in every protocol version where
// the packet exists.

import (
	"bytes"
	"encoding/hex"
	"fmt"
	"os"
	"sort"
	"strings"
	"testing"

	"go.minekube.com/common/minecraft/color"
	"go.minekube.com/common/minecraft/component"
	"pgregory.net/rapid"

	"go.minekube.com/gate/pkg/edition/java/profile"
	p "go.minekube.com/gate/pkg/edition/java/proto/packet"
	"go.minekube.com/gate/pkg/edition/java/proto/packet/chat"
	"go.minekube.com/gate/pkg/edition/java/proto/packet/plugin"
	"go.minekube.com/gate/pkg/edition/java/proto/packet/tablist/playerinfo"
	"go.minekube.com/gate/pkg/edition/java/proto/version"
	"go.minekube.com/gate/pkg/edition/java/proxy/crypto"
	"go.minekube.com/gate/pkg/edition/java/proxy/crypto/keyrevision"
	"go.minekube.com/gate/pkg/gate/proto"
	"go.minekube.com/gate/pkg/internal/verifkit"
	"go.minekube.com/gate/pkg/util/uuid"
)

// ---- kinds and where they are registered (taken from the live registry)

type c07Kind struct {
	Name string
	New  func() proto.Packet
}

var c07Kinds = []c07Kind{
	{"Handshake", func() proto.Packet { return &p.Handshake{} }},
	{"StatusRequest", func() proto.Packet { return &p.StatusRequest{} }},
	{"StatusResponse", func() proto.Packet { return &p.StatusResponse{} }},
	{"StatusPing", func() proto.Packet { return &p.StatusPing{} }},
	{"ServerLogin", func() proto.Packet { return &p.ServerLogin{} }},
	{"ServerLoginSuccess", func() proto.Packet { return &p.ServerLoginSuccess{} }},
	{"EncryptionRequest", func() proto.Packet { return &p.EncryptionRequest{} }},
	{"EncryptionResponse", func() proto.Packet { return &p.EncryptionResponse{} }},
	{"SetCompression", func() proto.Packet { return &p.SetCompression{} }},
	{"LoginPluginMessage", func() proto.Packet { return &p.LoginPluginMessage{} }},
	{"LoginPluginResponse", func() proto.Packet { return &p.LoginPluginResponse{} }},
	{"LoginAcknowledged", func() proto.Packet { return &p.LoginAcknowledged{} }},
	{"PluginMessage", func() proto.Packet { return &plugin.Message{} }},
	{"Disconnect", func() proto.Packet { return &p.Disconnect{} }},
	{"KeepAlive", func() proto.Packet { return &p.KeepAlive{} }},
	{"Transfer", func() proto.Packet { return &p.Transfer{} }},
	{"PlayerInfoRemove", func() proto.Packet { return &playerinfo.Remove{} }},
	{"PlayerInfoUpsert", func() proto.Packet { return &playerinfo.Upsert{} }},
}

var c07Groups = map[string][]string{
	"login":  {"Handshake", "ServerLogin", "ServerLoginSuccess", "EncryptionRequest", "EncryptionResponse", "SetCompression", "LoginPluginMessage", "LoginPluginResponse", "LoginAcknowledged"},
	"plugin": {"PluginMessage"},
	"misc":   {"StatusRequest", "StatusResponse", "StatusPing", "Disconnect", "KeepAlive", "Transfer", "PlayerInfoRemove"},
	"upsert": {"PlayerInfoUpsert"},
}

type c07Reg struct {
	Name string
	Reg  *PacketRegistry
}

func c07Registries() []c07Reg {
	return []c07Reg{
		{"handshake/serverbound", Handshake.ServerBound},
		{"handshake/clientbound", Handshake.ClientBound},
		{"status/serverbound", Status.ServerBound},
		{"status/clientbound", Status.ClientBound},
		{"login/serverbound", Login.ServerBound},
		{"login/clientbound", Login.ClientBound},
		{"config/serverbound", Config.ServerBound},
		{"config/clientbound", Config.ClientBound},
		{"play/serverbound", Play.ServerBound},
		{"play/clientbound", Play.ClientBound},
	}
}

func c07RegByName(name string) (c07Reg, bool) {
	for _, r := range c07Registries() {
		if r.Name == name {
			return r, true
		}
	}
	return c07Reg{}, false
}

func c07Supported() []int {
	var out []int
	for _, v := range version.Versions {
		if v.Protocol > 0 {
			out = append(out, int(v.Protocol))
		}
	}
	sort.Ints(out)
	return out
}

type c07Site struct {
	Kind     string
	Registry string
	Protocol int
}

var c07SitesCache map[string][]c07Site

// c07Sites lists every (registry, protocol) where the kind's packet type is
// registered.
func c07Sites(kind string) []c07Site {
	if c07SitesCache == nil {
		c07SitesCache = map[string][]c07Site{}
		for _, k := range c07Kinds {
			typ := proto.TypeOf(k.New())
			for _, rg := range c07Registries() {
				for _, pv := range c07Supported() {
					if reg := rg.Reg.Protocols[proto.Protocol(pv)]; reg != nil {
						if _, ok := reg.PacketTypes[typ]; ok {
							c07SitesCache[k.Name] = append(c07SitesCache[k.Name], c07Site{k.Name, rg.Name, pv})
						}
					}
				}
			}
		}
	}
	return c07SitesCache[kind]
}

// ---- generators

var c07Lengths = []int{0, 1, 2, 16, 127, 128, 129, 162, 255, 256, 257, 300}

func c07GenBlob(t *rapid.T, label string, lens []int) c07Blob {
	n := rapid.OneOf(rapid.SampledFrom(lens), rapid.IntRange(0, 300)).Draw(t, label+"Len")
	return c07Blob{Len: n, Seed: rapid.Uint8().Draw(t, label+"Seed")}
}

var c07Alphabets = []string{
	"abcdefghijklmnopqrstuvwxyzABCDEFGHIJKLMNOPQRSTUVWXYZ0123456789_",
	" !\"#$%&'()*+,-./:;<=>?@[]^`{|}~",
	"äöüßéèñçøåÆ", // 2-byte UTF-8
	"日本語テキスト漢字€‰", // 3-byte UTF-8
	"§ �\t\n",     // section sign, line separator, replacement char, controls
}

// c07GenText: BMP text without U+0000 (so NBT modified UTF-8 == UTF-8), of a
// length class around the VarInt 1/2 byte boundary.
func c07GenText(t *rapid.T, label string, maxRunes int) string {
	n := rapid.OneOf(rapid.SampledFrom([]int{0, 1, 5, 42, 43, 63, 64, 127, 128, 129, 200}), rapid.IntRange(0, 40)).Draw(t, label+"Len")
	if n > maxRunes {
		n = maxRunes
	}
	alpha := []rune(strings.Join(c07Alphabets[:rapid.IntRange(1, len(c07Alphabets)).Draw(t, label+"Alpha")], ""))
	var sb strings.Builder
	for i := 0; i < n; i++ {
		sb.WriteRune(alpha[rapid.IntRange(0, len(alpha)-1).Draw(t, label+"Ch")])
	}
	return sb.String()
}

func c07GenName(t *rapid.T, label string) string {
	n := rapid.SampledFrom([]int{1, 3, 8, 15, 16}).Draw(t, label+"Len")
	alpha := c07Alphabets[0]
	var sb strings.Builder
	for i := 0; i < n; i++ {
		sb.WriteByte(alpha[rapid.IntRange(0, len(alpha)-1).Draw(t, label+"Ch")])
	}
	return sb.String()
}

func c07GenUUID(t *rapid.T, label string) string {
	switch rapid.IntRange(0, 9).Draw(t, label+"Class") {
	case 0:
		return c07NilUUID
	case 1:
		return "ffffffffffffffffffffffffffffffff"
	case 2:
		return "00000000000000010000000000000002"
	}
	return hex.EncodeToString(rapid.SliceOfN(rapid.Byte(), 16, 16).Draw(t, label))
}

func c07GenProps(t *rapid.T, label string) []c07Prop {
	n := rapid.SampledFrom([]int{0, 0, 1, 2, 3}).Draw(t, label+"N")
	var out []c07Prop
	for i := 0; i < n; i++ {
		pr := c07Prop{
			Name:  rapid.SampledFrom([]string{"textures", "forgeClient", "x", ""}).Draw(t, label+"Name"),
			Value: c07GenText(t, label+"Value", 400),
		}
		if rapid.Bool().Draw(t, label+"Signed") {
			pr.Signature = "sig" + c07GenText(t, label+"Sig", 200) // never empty: empty means unsigned
		}
		out = append(out, pr)
	}
	return out
}

var c07Colors = []string{"", "", "red", "dark_blue", "gold", "white", "light_purple"}

func c07GenComp(t *rapid.T, label string, depth int) *c07Comp {
	text := c07GenText(t, label+"Text", 300)
	if rapid.IntRange(0, 11).Draw(t, label+"Backslash") == 0 {
		// rare class of its own: a backslash somewhere in the text
		r := []rune(text)
		i := rapid.IntRange(0, len(r)).Draw(t, label+"BackslashAt")
		text = string(r[:i]) + "\\" + string(r[i:])
	}
	c := &c07Comp{
		Text:  text,
		Color: rapid.SampledFrom(c07Colors).Draw(t, label+"Color"),
		Bold:  rapid.SampledFrom([]int{0, 0, 1, 2}).Draw(t, label+"Bold"),
	}
	if depth > 0 {
		n := rapid.SampledFrom([]int{0, 0, 1, 2}).Draw(t, label+"Extras")
		for i := 0; i < n; i++ {
			c.Extra = append(c.Extra, *c07GenComp(t, fmt.Sprintf("%sX%d", label, i), depth-1))
		}
	}
	return c
}

func c07GenKey(t *rapid.T, label string) *c07Key {
	return &c07Key{
		Expiry: rapid.OneOf(rapid.Int64Range(0, 1<<42), rapid.SampledFrom([]int64{0, 1, 1700000000000, -1})).Draw(t, label+"Expiry"),
		Sig:    c07Blob{Len: rapid.SampledFrom([]int{0, 1, 127, 128, 256, 512}).Draw(t, label+"SigLen"), Seed: rapid.Uint8().Draw(t, label+"SigSeed")},
	}
}

var c07ModernChannels = []string{"minecraft:brand", "bungeecord:main", "velocity:player_info", "fml:handshake", "a:b", "namespace:path/with/slashes", "REGISTER", "UNREGISTER", "MC|Brand", "BungeeCord"}
var c07LegacyChannels = []string{"MC|Brand", "BungeeCord", "REGISTER", "UNREGISTER", "FML|HS", "FML", "WECUI", "minecraft:brand", "MC|BEdit"}

func c07GenInt32(t *rapid.T, label string) int64 {
	return int64(rapid.OneOf(
		rapid.SampledFrom([]int32{0, 1, -1, 127, 128, 255, 256, 16383, 16384, 2097151, 2097152, 1<<31 - 1, -1 << 31}),
		rapid.Int32(),
	).Draw(t, label))
}

// c07GenValues fills in field values for a packet at a given site.
func c07GenValues(t *rapid.T, s c07Site) c07Case {
	c := c07Case{Kind: s.Kind, Registry: s.Registry, Protocol: s.Protocol}
	pv := s.Protocol
	switch s.Kind {
	case "Handshake":
		c.I1 = c07GenInt32(t, "protocolVersion")
		c.S1 = rapid.OneOf(
			rapid.SampledFrom([]string{"", "localhost", "play.example.com", "play.example.com\x00FML\x00", "play.example.com\x00127.0.0.1\x00069a79f444e94726a5befca90e38aaf5", "[::1]"}),
			rapid.Custom(func(t *rapid.T) string { return c07GenText(t, "addr", 255) }),
		).Draw(t, "serverAddress")
		c.I2 = int64(rapid.OneOf(rapid.SampledFrom([]int{0, 1, 25565, 32767, 32768, 65535}), rapid.IntRange(0, 65535)).Draw(t, "port"))
		c.I3 = int64(rapid.IntRange(1, 3).Draw(t, "nextState"))
	case "StatusRequest", "LoginAcknowledged":
	case "StatusResponse":
		c.S1 = rapid.OneOf(
			rapid.SampledFrom([]string{`{"version":{"name":"1.21","protocol":767},"players":{"max":20,"online":0},"description":{"text":"hi"}}`, "{}", ""}),
			rapid.Custom(func(t *rapid.T) string { return c07GenText(t, "status", 4000) }),
		).Draw(t, "json")
	case "StatusPing":
		c.I1 = rapid.OneOf(rapid.Int64(), rapid.SampledFrom([]int64{0, 1, -1, 1<<63 - 1, -1 << 63})).Draw(t, "payload")
	case "ServerLogin":
		c.S1 = c07GenName(t, "name")
		c.U1 = c07GenUUID(t, "holder")
		if pv >= c07P1_19 && pv < c07P1_19_3 && rapid.Bool().Draw(t, "hasKey") {
			c.Key = c07GenKey(t, "key")
		}
	case "ServerLoginSuccess":
		c.U1 = c07GenUUID(t, "uuid")
		c.S1 = c07GenName(t, "username")
		c.Props = c07GenProps(t, "props")
		c.U2 = c07GenUUID(t, "session")
	case "EncryptionRequest":
		c.S1 = rapid.SampledFrom([]string{"", "", "serverid", "01234567890123456789"}).Draw(t, "serverId")
		c.D1 = c07GenBlob(t, "publicKey", c07Lengths)
		c.D2 = c07GenBlob(t, "verifyToken", []int{0, 4, 16})
		c.B1 = rapid.Bool().Draw(t, "disableAuthenticate")
	case "EncryptionResponse":
		c.D1 = c07GenBlob(t, "sharedSecret", c07Lengths)
		c.D2 = c07GenBlob(t, "verifyToken", c07Lengths)
		if pv >= c07P1_19 && pv < c07P1_19_3 && rapid.Bool().Draw(t, "hasSalt") {
			c.HasSalt = true
			c.I1 = rapid.Int64().Draw(t, "salt")
		}
	case "SetCompression":
		c.I1 = c07GenInt32(t, "threshold")
	case "LoginPluginMessage":
		c.I1 = c07GenInt32(t, "id")
		c.S1 = rapid.SampledFrom([]string{"velocity:player_info", "fml:loginwrapper", "a:b", ""}).Draw(t, "channel")
		c.D1 = c07GenBlob(t, "data", c07Lengths)
	case "LoginPluginResponse":
		c.I1 = c07GenInt32(t, "id")
		c.B1 = rapid.Bool().Draw(t, "success")
		if c.B1 {
			c.D1 = c07GenBlob(t, "data", c07Lengths)
		}
	case "PluginMessage":
		if pv >= c07P1_13 {
			c.S1 = rapid.SampledFrom(c07ModernChannels).Draw(t, "channel")
		} else {
			c.S1 = rapid.SampledFrom(c07LegacyChannels).Draw(t, "channel")
		}
		lens := append([]int{32766, 32767}, c07Lengths...)
		if pv < c07P1_8 {
			// Forge extended lengths (third length byte) exist only in the 1.7 framing
			lens = append(lens, 32768, 32769, 40000, 65535, 65536, 100000)
		} else if !strings.HasSuffix(s.Registry, "serverbound") {
			lens = append(lens, 32768, 70000)
		}
		c.D1 = c07GenBlob(t, "data", lens)
	case "Disconnect":
		c.Comp = c07GenComp(t, "reason", 2)
	case "KeepAlive":
		if pv >= c07P1_12_2 {
			c.I1 = rapid.OneOf(rapid.Int64(), rapid.SampledFrom([]int64{0, -1, 1<<63 - 1, -1 << 63, 1 << 32})).Draw(t, "id")
		} else {
			c.I1 = c07GenInt32(t, "id")
		}
	case "Transfer":
		c.S1 = rapid.SampledFrom([]string{"play.example.com", "127.0.0.1", "::1", "", "ünïcödé.example"}).Draw(t, "host")
		c.I1 = int64(rapid.OneOf(rapid.SampledFrom([]int{0, 127, 128, 25565, 65535}), rapid.IntRange(0, 65535)).Draw(t, "port"))
	case "PlayerInfoRemove":
		n := rapid.SampledFrom([]int{0, 1, 2, 5, 127, 128, 130}).Draw(t, "count")
		for i := 0; i < n; i++ {
			c.UUIDs = append(c.UUIDs, c07GenUUID(t, "uuid"))
		}
	case "PlayerInfoUpsert":
		avail := c07ActionsFor(pv)
		perm := rapid.Permutation(avail).Draw(t, "actionOrder")
		k := rapid.IntRange(1, len(avail)).Draw(t, "actionCount")
		c.Actions = append([]int(nil), perm[:k]...)
		if rapid.IntRange(0, 3).Draw(t, "canonicalOrder") == 0 {
			sort.Ints(c.Actions)
		}
		n := rapid.SampledFrom([]int{0, 1, 1, 2, 3, 5}).Draw(t, "entries")
		for i := 0; i < n; i++ {
			c.Entries = append(c.Entries, c07GenEntry(t, fmt.Sprintf("e%d", i)))
		}
	default:
		panic("c07: no generator for " + s.Kind)
	}
	return c
}

func c07GenEntry(t *rapid.T, label string) c07Entry {
	e := c07Entry{
		ID:        c07GenUUID(t, label+"ID"),
		Name:      c07GenName(t, label+"Name"),
		Props:     c07GenProps(t, label+"Props"),
		Listed:    rapid.Bool().Draw(t, label+"Listed"),
		Latency:   rapid.OneOf(rapid.SampledFrom([]int32{0, 1, 42, 127, 128, 300, -1}), rapid.Int32Range(0, 100000)).Draw(t, label+"Latency"),
		GameMode:  rapid.SampledFrom([]int32{0, 1, 2, 3}).Draw(t, label+"GameMode"),
		ShowHat:   rapid.Bool().Draw(t, label+"Hat"),
		ListOrder: rapid.OneOf(rapid.SampledFrom([]int32{0, 1, -1, 127, 128}), rapid.Int32()).Draw(t, label+"Order"),
	}
	if rapid.Bool().Draw(t, label+"HasDisplay") {
		e.Display = c07GenComp(t, label+"Display", 1)
	}
	if rapid.IntRange(0, 2).Draw(t, label+"HasChat") == 0 {
		e.Chat = &c07Chat{Session: c07GenUUID(t, label+"Session"), Key: *c07GenKey(t, label+"Key")}
	}
	return e
}

// ---- building the gate packet from the case (the "intent")

func c07ToUUID(h string) uuid.UUID { return uuid.UUID(c07UUIDBytes(h)) }

func c07ToProps(in []c07Prop) []profile.Property {
	var out []profile.Property
	for _, x := range in {
		out = append(out, profile.Property{Name: x.Name, Value: x.Value, Signature: x.Signature})
	}
	return out
}

func c07ToComponent(c *c07Comp) component.Component {
	t := &component.Text{Content: c.Text}
	if c.Color != "" {
		n, ok := color.Names[c.Color]
		if !ok {
			panic("c07: unknown colour " + c.Color)
		}
		t.S.Color = n
	}
	switch c.Bold {
	case 1:
		t.S.Bold = component.True
	case 2:
		t.S.Bold = component.False
	}
	for i := range c.Extra {
		t.Extra = append(t.Extra, c07ToComponent(&c.Extra[i]))
	}
	return t
}

func c07ToKey(k *c07Key, rev keyrevision.Revision) crypto.IdentifiedKey {
	key, err := crypto.NewIdentifiedKey(rev, c07PubKeyDER(), k.Expiry, k.Sig.Bytes())
	if err != nil {
		panic(err)
	}
	return key
}

func c07Build(c *c07Case) proto.Packet {
	pv := proto.Protocol(c.Protocol)
	switch c.Kind {
	case "Handshake":
		return &p.Handshake{ProtocolVersion: int(c.I1), ServerAddress: c.S1, Port: int(c.I2), NextStatus: int(c.I3)}
	case "StatusRequest":
		return &p.StatusRequest{}
	case "LoginAcknowledged":
		return &p.LoginAcknowledged{}
	case "StatusResponse":
		return &p.StatusResponse{Status: c.S1}
	case "StatusPing":
		return &p.StatusPing{RandomID: c.I1}
	case "ServerLogin":
		sl := &p.ServerLogin{Username: c.S1, HolderID: c07ToUUID(c.U1)}
		if c.Key != nil {
			rev := keyrevision.GenericV1
			if c.Protocol >= c07P1_19_1 {
				rev = keyrevision.LinkedV2
			}
			sl.PlayerKey = c07ToKey(c.Key, rev)
		}
		return sl
	case "ServerLoginSuccess":
		return &p.ServerLoginSuccess{UUID: c07ToUUID(c.U1), Username: c.S1, Properties: c07ToProps(c.Props), SessionID: c07ToUUID(c.U2)}
	case "EncryptionRequest":
		return &p.EncryptionRequest{ServerID: c.S1, PublicKey: c.D1.Bytes(), VerifyToken: c.D2.Bytes(), DisableAuthenticate: c.B1}
	case "EncryptionResponse":
		er := &p.EncryptionResponse{SharedSecret: c.D1.Bytes(), VerifyToken: c.D2.Bytes()}
		if c.HasSalt {
			salt := c.I1
			er.Salt = &salt
		}
		return er
	case "SetCompression":
		return &p.SetCompression{Threshold: int(c.I1)}
	case "LoginPluginMessage":
		return &p.LoginPluginMessage{ID: int(c.I1), Channel: c.S1, Data: c.D1.Bytes()}
	case "LoginPluginResponse":
		return &p.LoginPluginResponse{ID: int(c.I1), Success: c.B1, Data: c.D1.Bytes()}
	case "PluginMessage":
		return &plugin.Message{Channel: c.S1, Data: c.D1.Bytes()}
	case "Disconnect":
		// as NewDisconnect / the session handlers build it
		st := Play.State
		switch {
		case strings.HasPrefix(c.Registry, "login/"):
			st = Login.State
		case strings.HasPrefix(c.Registry, "config/"):
			st = Config.State
		}
		return p.NewDisconnect(c07ToComponent(c.Comp), pv, st)
	case "KeepAlive":
		return &p.KeepAlive{RandomID: c.I1}
	case "Transfer":
		return &p.Transfer{Host: c.S1, Port: int(c.I1)}
	case "PlayerInfoRemove":
		rm := &playerinfo.Remove{}
		for _, u := range c.UUIDs {
			rm.PlayersToRemove = append(rm.PlayersToRemove, c07ToUUID(u))
		}
		return rm
	case "PlayerInfoUpsert":
		up := &playerinfo.Upsert{}
		for _, a := range c.Actions {
			up.ActionSet = append(up.ActionSet, playerinfo.UpsertActions[a])
		}
		for i := range c.Entries {
			e := &c.Entries[i]
			ent := &playerinfo.Entry{
				ProfileID: c07ToUUID(e.ID),
				Profile:   profile.GameProfile{ID: c07ToUUID(e.ID), Name: e.Name, Properties: c07ToProps(e.Props)},
				Listed:    e.Listed, Latency: int(e.Latency), GameMode: int(e.GameMode),
				ShowHat: e.ShowHat, ListOrder: int(e.ListOrder),
			}
			if e.Display != nil {
				ent.DisplayName = chat.FromComponentProtocol(c07ToComponent(e.Display), pv)
			}
			if e.Chat != nil {
				ent.RemoteChatSession = &chat.RemoteChatSession{ID: c07ToUUID(e.Chat.Session), Key: c07ToKey(&e.Chat.Key, keyrevision.LinkedV2)}
			}
			up.Entries = append(up.Entries, ent)
		}
		return up
	}
	panic("c07: cannot build " + c.Kind)
}

// ---- run

func c07CompHasBackslash(c *c07Comp) bool {
	if c == nil {
		return false
	}
	if strings.Contains(c.Text, "\\") {
		return true
	}
	for i := range c.Extra {
		if c07CompHasBackslash(&c.Extra[i]) {
			return true
		}
	}
	return false
}

// c07NBTBackslash: the case sends a component as NBT (1.20.3+, outside login)
// whose text contains a backslash.
func c07NBTBackslash(c *c07Case) bool {
	if c.Protocol < c07P1_20_3 {
		return false
	}
	switch c.Kind {
	case "Disconnect":
		return !strings.HasPrefix(c.Registry, "login/") && c07CompHasBackslash(c.Comp)
	case "PlayerInfoUpsert":
		hasName := false
		for _, a := range c.Actions {
			hasName = hasName || a == c07ActName
		}
		if !hasName {
			return false
		}
		for i := range c.Entries {
			if c07CompHasBackslash(c.Entries[i].Display) {
				return true
			}
		}
	}
	return false
}

func c07Canonical(a []int) bool { return sort.IntsAreSorted(a) }

func c07Uses17Arrays(c *c07Case) bool {
	if c.Protocol >= c07P1_8 {
		return false
	}
	return c.Kind == "EncryptionRequest" || c.Kind == "EncryptionResponse" || c.Kind == "PluginMessage"
}

// c07Classify returns labels and whether the case is non-trivial: for Upsert the
// API action order differs from the canonical one; otherwise a
// version-conditional field is present or a length crosses the 1/2 byte VarInt
// (127/128) or the 1.7 short/extended (32767/32768) boundary.
func c07Classify(c *c07Case) ([]string, bool) {
	labels := []string{c.Kind}
	pv := c.Protocol
	nt := false
	big := func(n int) bool { return n >= 128 }
	switch c.Kind {
	case "PlayerInfoUpsert":
		if !c07Canonical(c.Actions) {
			labels = append(labels, "upsert:non-canonical-order")
			nt = len(c.Entries) > 0
		} else {
			labels = append(labels, "upsert:canonical-order")
			// adapted NT rule (see rule text): while the API-order defect is a known
			// finding every non-canonical case with entries is excluded, so canonical
			// cases with several actions including a variable-length one also count
			varLen := false
			for _, a := range c.Actions {
				varLen = varLen || a == c07ActAdd || a == c07ActChat || a == c07ActName
			}
			nt = len(c.Entries) > 0 && len(c.Actions) >= 3 && varLen
		}
		if len(c.Entries) == 0 {
			labels = append(labels, "upsert:no-entries")
		}
		labels = append(labels, fmt.Sprintf("upsert:%d-actions", len(c.Actions)))
	case "ServerLogin":
		nt = pv >= c07P1_19
		if c.Key != nil {
			labels = append(labels, "login:with-key")
		}
	case "ServerLoginSuccess":
		nt = pv < c07P1_16 || pv >= c07P1_19
		if pv == c07P1_20_5 || pv == c07P1_21 {
			labels = append(labels, "success:strict-flag")
		}
		if pv >= c07P26_2 {
			labels = append(labels, "success:session-id")
		}
	case "EncryptionRequest":
		nt = pv < c07P1_8 || pv >= c07P1_20_5 || big(c.D1.Len)
	case "EncryptionResponse":
		nt = pv < c07P1_8 || (pv >= c07P1_19 && pv < c07P1_19_3) || big(c.D1.Len) || big(c.D2.Len)
		if c.HasSalt {
			labels = append(labels, "encresp:salt")
		}
	case "PluginMessage":
		nt = pv < c07P1_8 || big(c.D1.Len)
		if pv < c07P1_8 && c.D1.Len > 32767 {
			labels = append(labels, "plugin:1.7-extended-length")
		}
	case "Disconnect":
		nt = pv >= c07P1_20_3 || len(c.Comp.Text) >= 128 || len(c.Comp.Extra) > 0
		if pv >= c07P1_20_3 && !strings.HasPrefix(c.Registry, "login/") {
			labels = append(labels, "component:nbt")
		} else {
			labels = append(labels, "component:json")
		}
	case "KeepAlive":
		nt = true // three layouts by version
		switch {
		case pv >= c07P1_12_2:
			labels = append(labels, "keepalive:long")
		case pv >= c07P1_8:
			labels = append(labels, "keepalive:varint")
		default:
			labels = append(labels, "keepalive:int")
		}
	case "Handshake", "StatusResponse", "LoginPluginMessage", "LoginPluginResponse", "Transfer":
		nt = big(len(c.S1)) || big(c.D1.Len) || c.I1 >= 128 || c.I1 < 0
	case "PlayerInfoRemove":
		nt = len(c.UUIDs) >= 128 || len(c.UUIDs) > 1
	case "SetCompression", "StatusPing":
		nt = c.I1 >= 128 || c.I1 < 0
	}
	if c07Uses17Arrays(c) {
		labels = append(labels, "v1.7-array")
	}
	return labels, nt
}

func c07Run(c c07Case) (res verifkit.Result) {
	rg, ok := c07RegByName(c.Registry)
	if !ok {
		return verifkit.Fail("harness:registry", "unknown registry %q", c.Registry)
	}
	reg := rg.Reg.Protocols[proto.Protocol(c.Protocol)]
	if reg == nil {
		return verifkit.Fail("harness:site", "no table for protocol %d in %s", c.Protocol, c.Registry)
	}
	pkt := c07Build(&c)
	id, found := reg.PacketID(pkt)
	if !found {
		return verifkit.Fail("harness:site", "%T not registered in %s for protocol %d", pkt, c.Registry, c.Protocol)
	}
	dir := proto.ClientBound
	if strings.HasSuffix(c.Registry, "serverbound") {
		dir = proto.ServerBound
	}
	// exactly the context codec.Encoder.WritePacket builds
	ctx := &proto.PacketContext{Direction: dir, Protocol: reg.Protocol, PacketID: id, Packet: pkt}
	var buf bytes.Buffer
	var encErr error
	func() {
		defer func() {
			if r := recover(); r != nil {
				encErr = fmt.Errorf("panic: %v", r)
			}
		}()
		encErr = pkt.Encode(ctx, &buf)
	}()
	labels, nt := c07Classify(&c)
	if encErr != nil {
		if c07NBTBackslash(&c) {
			return verifkit.Fail("component-nbt:backslash-not-escaped", "%s @%d in %s: Encode failed: %v (component text contains a backslash and is sent as NBT)", c.Kind, c.Protocol, c.Registry, encErr)
		}
		return verifkit.Fail("encode-error:"+c.Kind, "%s @%d in %s: Encode failed on a valid value: %v", c.Kind, c.Protocol, c.Registry, encErr)
	}
	err := c07RefDecode(&c, buf.Bytes(), c07Opts{})
	if err == nil {
		return verifkit.Result{NonTrivial: nt, Labels: labels}
	}
	head := buf.Bytes()
	if len(head) > 48 {
		head = head[:48]
	}
	msg := fmt.Sprintf("%s @%d in %s: vanilla decoder disagrees at %v; first bytes %x (%d total)", c.Kind, c.Protocol, c.Registry, err, head, buf.Len())
	// attribute the failure to a known root cause where a deliberately wrong
	// decoder variant reproduces gate's layout exactly
	if c07Uses17Arrays(&c) && c07RefDecode(&c, buf.Bytes(), c07Opts{oneByteLen17: true}) == nil {
		return verifkit.Fail("bytes17:one-byte-length-prefix", "%s; the bytes parse if the 1.7 array length is read as ONE byte instead of an (extended) unsigned short", msg)
	}
	if c.Kind == "PlayerInfoUpsert" && !c07Canonical(c.Actions) && c07RefDecode(&c, buf.Bytes(), c07Opts{apiOrder: true}) == nil {
		return verifkit.Fail("upsert:action-data-in-api-order", "%s; the bytes parse if each entry's action data is read in the API order %v instead of the protocol's fixed action order", msg, c.Actions)
	}
	if m, ok := err.(*c07Mismatch); ok && m.HexColour && c.Kind == "Disconnect" && strings.HasPrefix(c.Registry, "login/") {
		return verifkit.Fail("disconnect-login:hex-colour-to-pre-1.16-client", "%s", msg)
	}
	if c07NBTBackslash(&c) {
		return verifkit.Fail("component-nbt:backslash-not-escaped", "%s (component text contains a backslash and is sent as NBT)", msg)
	}
	field := "?"
	if m, ok := err.(*c07Mismatch); ok {
		field = m.Field
		if i := strings.IndexAny(field, "[("); i > 0 {
			field = field[:i]
		}
	}
	return verifkit.Fail("wire:"+c.Kind+":"+field, "%s", msg)
}

// ---- entry point

func c07GenGroup(group string) func(*rapid.T) c07Case {
	var sites []c07Site
	for _, k := range c07Groups[group] {
		sites = append(sites, c07Sites(k)...)
	}
	kinds := c07Groups[group]
	return func(t *rapid.T) c07Case {
		// kind first (uniform over kinds), then one of its sites
		kind := rapid.SampledFrom(kinds).Draw(t, "kind")
		ks := c07Sites(kind)
		if len(ks) == 0 {
			t.Fatalf("kind %s is registered nowhere", kind)
		}
		_ = sites
		var bs []c07Site
		for _, s := range ks {
			if c07BoundaryProtocols[s.Protocol] {
				bs = append(bs, s)
			}
		}
		if len(bs) == 0 {
			bs = ks
		}
		var hs []c07Site
		for _, s := range ks {
			for _, hp := range c07HotProtocols[kind] {
				if s.Protocol == hp {
					hs = append(hs, s)
				}
			}
		}
		if len(hs) == 0 {
			hs = bs
		}
		// a third each: the kind's own version windows, any layout boundary, anywhere
		s := rapid.OneOf(rapid.SampledFrom(hs), rapid.SampledFrom(bs), rapid.SampledFrom(ks)).Draw(t, "site")
		return c07GenValues(t, s)
	}
}

// protocols at or next to a change of some packet layout (first/last version of a
// layout): 1.7.2, 1.7.6, 1.8, 1.12.1/1.12.2, 1.12.2/1.13, 1.15.2/1.16, 1.18.2,
// 1.19, 1.19.1, 1.19.3, 1.20, 1.20.2, 1.20.3, 1.20.5, 1.21, 1.21.2, 1.21.4, 26.1, 26.2
var c07BoundaryProtocols = map[int]bool{4: true, 5: true, 47: true, 338: true, 340: true, 393: true, 573: true, 735: true,
	758: true, 759: true, 760: true, 761: true, 763: true, 764: true, 765: true, 766: true, 767: true, 768: true, 769: true, 775: true, 776: true}

// protocols in which a kind has a short-lived or special layout
var c07HotProtocols = map[string][]int{
	"ServerLogin":        {758, 759, 760, 761, 763, 764},
	"EncryptionResponse": {5, 47, 758, 759, 760, 761},
	"EncryptionRequest":  {5, 47, 765, 766},
	"ServerLoginSuccess": {4, 5, 578, 735, 758, 759, 765, 766, 767, 768, 775, 776},
	"PluginMessage":      {4, 5, 47, 340, 393},
	"KeepAlive":          {5, 47, 338, 340},
	"Disconnect":         {754, 755, 764, 765},
	"PlayerInfoUpsert":   {761, 764, 765, 767, 768, 769},
}

const c07Rule = "packet kind x (state,direction,protocol) site where the live registry registers it x generated field values (lengths around 127/128, 255/256, 32767/32768; optional fields on/off; BMP text; named colours); gate's Encode output is parsed by the independent vanilla decoder c07_ref.go and must give exactly the intended values with no bytes left; non-trivial = Upsert with >=1 entry and (API action order != canonical order, or canonical order with >=3 actions one of which has variable-length data), otherwise a version-conditional field/layout is in play or a length crosses a 1/2-byte boundary"

// c07OrderedSubsets enumerates all ordered selections of 1..max distinct
// elements of set.
func c07OrderedSubsets(set []int, max int) [][]int {
	var out [][]int
	var rec func(cur []int, used uint)
	rec = func(cur []int, used uint) {
		if len(cur) > 0 {
			out = append(out, append([]int(nil), cur...))
		}
		if len(cur) == max {
			return
		}
		for _, x := range set {
			if used&(1<<uint(x)) == 0 {
				rec(append(cur, x), used|1<<uint(x))
			}
		}
	}
	rec(nil, 0)
	return out
}

func TestVerif_C07(t *testing.T) {
	if os.Getenv("VERIF_REPLAY") != "" {
		// enumerated sub-checks use CheckCase, which has no replay mode; all
		// sub-checks share one case type, so replay through Check of each name.
		for _, name := range []string{"login", "plugin", "misc", "upsert", "all-versions", "upsert-orders"} {
			verifkit.Check(t, "C07", name, c07Rule, c07GenGroup("login"), c07Run)
		}
		return
	}
	for _, g := range []string{"login", "plugin", "misc", "upsert"} {
		verifkit.Check(t, "C07", g, c07Rule, c07GenGroup(g), c07Run)
	}

	// every protocol version where each packet exists: deterministic examples
	perSite := 2
	if verifkit.Thorough() {
		perSite = 12
	}
	ruleAll := "exhaustive over every (packet kind, state/direction, protocol) site of the live registry x " + fmt.Sprint(perSite) + " deterministic generator examples each; same oracle as the random sub-checks"
	nSites := 0
	for _, k := range c07Kinds {
		for _, s := range c07Sites(k.Name) {
			nSites++
			s := s
			gen := rapid.Custom(func(t *rapid.T) c07Case {
				rapid.Bool().Draw(t, "unused") // Custom demands at least one draw (field-less packets)
				return c07GenValues(t, s)
			})
			for i := 0; i < perSite; i++ {
				verifkit.CheckCase(t, "C07", "all-versions", ruleAll, gen.Example(nSites*131+i), c07Run)
			}
		}
	}
	verifkit.Note("C07", "all-versions", "sites_enumerated", nSites)

	// Upsert: every ordered selection of <=4 actions (every subset in every
	// permutation of API order) for the three action-set generations
	ruleOrd := "exhaustive: every ordered selection of 1..4 distinct actions (= every subset of size <=4 in every API order) for protocols 767 (6 actions), 768 (7), 776 (8), one entry with every optional field present; non-trivial = order differs from the canonical order"
	for _, pv := range []int{c07P1_21, c07P1_21_2, c07P26_2} {
		for _, acts := range c07OrderedSubsets(c07ActionsFor(pv), 4) {
			c := c07Case{Kind: "PlayerInfoUpsert", Registry: "play/clientbound", Protocol: pv, Actions: acts,
				Entries: []c07Entry{{
					ID: "0123456789abcdef0123456789abcdef", Name: "Player_1", Props: []c07Prop{{Name: "textures", Value: "dmFsdWU=", Signature: "c2ln"}},
					Listed: true, Latency: 300, GameMode: 2, Display: &c07Comp{Text: "Display", Color: "gold", Bold: 1}, ShowHat: false, ListOrder: 7,
					Chat: &c07Chat{Session: "00000000000000010000000000000002", Key: c07Key{Expiry: 1700000000000, Sig: c07Blob{Len: 256, Seed: 9}}},
				}}}
			verifkit.CheckCase(t, "C07", "upsert-orders", ruleOrd, c, c07Run)
		}
	}
	verifkit.Flush()
}
