//go:build verif

package state

// C07 case description: plain data shared by the generator (c07_packets.go, this
// package) and by the tab-list construction-site check (pkg/internal/tablist),
// which overlays this file and c07_ref.go under its own package name. Nothing
// here refers to a gate type.

import "encoding/base64"

// ---- case

// c07Blob is a byte string described by (length, seed) so that replay files stay
// small even for 32 KiB payloads.
type c07Blob struct {
	Len  int   `json:"len"`
	Seed uint8 `json:"seed"`
}

func (b c07Blob) Bytes() []byte {
	out := make([]byte, b.Len)
	for i := range out {
		out[i] = byte(int(b.Seed) + i*31 + i>>8)
	}
	return out
}

type c07Prop struct {
	Name      string `json:"name"`
	Value     string `json:"value"`
	Signature string `json:"signature"`
}

type c07Comp struct {
	Text  string    `json:"text"`
	Color string    `json:"color,omitempty"`
	Bold  int       `json:"bold,omitempty"` // 0 unset, 1 true, 2 false
	Extra []c07Comp `json:"extra,omitempty"`
}

type c07Key struct {
	Expiry int64   `json:"expiry"`
	Sig    c07Blob `json:"sig"`
}

type c07Chat struct {
	Session string `json:"session"`
	Key     c07Key `json:"key"`
}

type c07Entry struct {
	ID        string    `json:"id"`
	Name      string    `json:"name"`
	Props     []c07Prop `json:"props,omitempty"`
	Listed    bool      `json:"listed"`
	Latency   int32     `json:"latency"`
	GameMode  int32     `json:"gameMode"`
	Display   *c07Comp  `json:"display,omitempty"`
	ShowHat   bool      `json:"showHat"`
	ListOrder int32     `json:"listOrder"`
	Chat      *c07Chat  `json:"chat,omitempty"`
}

type c07Case struct {
	Kind     string `json:"kind"`
	Registry string `json:"registry"`
	Protocol int    `json:"protocol"`

	S1      string     `json:"s1,omitempty"`
	I1      int64      `json:"i1,omitempty"`
	I2      int64      `json:"i2,omitempty"`
	I3      int64      `json:"i3,omitempty"`
	B1      bool       `json:"b1,omitempty"`
	D1      c07Blob    `json:"d1"`
	D2      c07Blob    `json:"d2"`
	U1      string     `json:"u1,omitempty"`
	U2      string     `json:"u2,omitempty"`
	HasSalt bool       `json:"hasSalt,omitempty"`
	Key     *c07Key    `json:"key,omitempty"`
	Props   []c07Prop  `json:"props,omitempty"`
	Comp    *c07Comp   `json:"comp,omitempty"`
	UUIDs   []string   `json:"uuids,omitempty"`
	Actions []int      `json:"actions,omitempty"` // API order, canonical indices
	Entries []c07Entry `json:"entries,omitempty"`
}

// a fixed 1024-bit RSA public key (X.509 SubjectPublicKeyInfo DER)
const c07PubKeyB64 = "MIGfMA0GCSqGSIb3DQEBAQUAA4GNADCBiQKBgQCyHVgpFo6VIuBN32iCQBhNp28sJaRkzG2Lt25afLspiZqjgzxTsOd8lq061f/oEGyUXqCYjdmspLVLjBsrvfBKZOFIxuuDSVyUfvPzxoSzojUnKeqHwFAJvusW4ySzkfYjfUpGMaGnAZ+8j/8VWF8L2viiEai5O6FEQR2NqnEznwIDAQAB"

func c07PubKeyDER() []byte {
	b, err := base64.StdEncoding.DecodeString(c07PubKeyB64)
	if err != nil {
		panic(err)
	}
	return b
}
