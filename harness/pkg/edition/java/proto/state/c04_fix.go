//go:build verif

package state_test

// Cross-field invariants of packet values that real producers (the proxy's own
// constructors and the decoders) always establish. Applied after the generic fill.

import (
	"strings"

	"go.minekube.com/gate/pkg/edition/java/proto/packet"
	"go.minekube.com/gate/pkg/edition/java/proto/packet/chat"
	"go.minekube.com/gate/pkg/edition/java/proto/packet/plugin"
	"go.minekube.com/gate/pkg/edition/java/proto/packet/tablist/playerinfo"
	"go.minekube.com/gate/pkg/edition/java/proto/packet/title"
	"go.minekube.com/gate/pkg/edition/java/proto/version"
	"go.minekube.com/gate/pkg/gate/proto"
)

func (e *c04Env) fix(p proto.Packet) {
	switch t := p.(type) {
	case *chat.KeyedPlayerChat:
		if t.Unsigned {
			// an unsigned message cannot request a signed preview (decoder rejects it)
			t.SignedPreview = false
		} else {
			// signed <=> non-zero salt and non-empty signature
			if len(t.Salt) == 8 {
				t.Salt[7] |= 1
			}
		}
	case *chat.KeyedPlayerCommand:
		// Unsigned <=> salt 0, no argument signatures, no previous messages
		// (that is how both NewKeyedPlayerCommand and Decode define the flag)
		if t.Unsigned {
			t.Salt = 0
			for k := range t.Arguments {
				t.Arguments[k] = []byte{}
			}
			t.PreviousMessages = nil
			t.SignedPreview = false
		} else if t.Salt == 0 {
			t.Salt = 1
		}
	case *title.Legacy:
		if e.c.lt(version.Minecraft_1_11) && t.Action >= title.SetActionBar {
			t.Action++ // no action bar before 1.11
		}
	case *playerinfo.Upsert:
		for _, en := range t.Entries {
			if en != nil {
				en.Profile.ID = en.ProfileID
			}
		}
	case *plugin.Message:
		if e.c.ge(version.Minecraft_1_13) && !strings.Contains(t.Channel, ":") {
			// 1.13+ channels are namespaced identifiers; legacy names are rewritten by design
			ns := []string{"minecraft", "bungeecord", "gate", "velocity"}[e.src.n(4)]
			t.Channel = ns + ":" + []string{"brand", "main", "register", "player_info", "x"}[e.src.n(5)]
		}
	case *packet.SoundEntityPacket:
		if t.Seed == 0 {
			t.Seed = 1 // 0 means "let the proxy pick a random seed"
		}
	}
}
