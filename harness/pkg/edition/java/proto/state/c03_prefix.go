//go:build verif

package state_test

// C03, sub-check "decoder-prefix": an error a primitive reader reports - by
// return value or by the panic the PRead* helpers use - reaches the caller of
// the real packet decoder. For a packet value built by the C04 generator and
// encoded by gate, every strict prefix of the body is decoded twice: by calling
// the packet's Decode directly (panics caught by the harness itself) and through
// codec.Decoder.Decode on a well-formed frame around the same prefix. Whenever the
// direct call fails, the decoder must fail too (never hand out a packet whose
// missing fields read as zero).

import (
	"bytes"
	"fmt"
	"testing"

	"pgregory.net/rapid"

	"go.minekube.com/gate/pkg/gate/proto"
	"go.minekube.com/gate/pkg/internal/verifkit"
)

type c03pCase struct {
	State   int    `json:"state"`
	Dir     int    `json:"dir"`
	Proto   int    `json:"proto"`
	Type    string `json:"type"`
	Entropy []byte `json:"entropy"`
	Cuts    []int  `json:"cuts"` // permille positions of the prefixes tried
}

func c03pRun(c c03pCase) verifkit.Result {
	combo, ok := c04FindCombo(c.State, c.Dir, c.Proto, c.Type)
	if !ok {
		return verifkit.Result{Labels: []string{"unregistered-combination"}}
	}
	p, env := c04Build(combo, c.Entropy, false)
	if env.genErr != nil {
		return verifkit.Result{Labels: []string{"generator-error"}}
	}
	body, err := c04Encode(combo, p)
	if err != nil || len(body) == 0 || len(body) > 1<<16 {
		return verifkit.Result{Labels: []string{"not-encodable-or-empty"}}
	}
	labels := []string{"type:" + combo.Type.String()}
	failedDirect := 0
	for _, pm := range c.Cuts {
		k := len(body) * pm / 1000
		if k >= len(body) {
			k = len(body) - 1
		}
		prefix := body[:k]
		// direct
		var derr error
		var panicked any
		func() {
			defer func() { panicked = recover() }()
			q := c04New(combo)
			ctx := combo.ctx()
			ctx.Packet = q
			ctx.Payload = prefix
			derr = q.Decode(ctx, bytes.NewReader(prefix))
		}()
		if derr == nil && panicked == nil {
			continue // this prefix is a complete packet of its own (optional tail, rest-of-frame field)
		}
		failedDirect++
		// through the real decoder
		payload := append(verifkit.RefVarInt(int32(combo.ID)), prefix...)
		frame := verifkit.RefFrame(payload, -1, 0)
		dec := c05Decoder(c05Case{State: c.State, Dir: c.Dir, Proto: c.Proto, Order: "real"}, frame)
		var ctx *proto.PacketContext
		var err2 error
		var p2 any
		func() {
			defer func() { p2 = recover() }()
			ctx, err2 = dec.Decode()
		}()
		if p2 != nil {
			return verifkit.Fail("decoder-prefix:panic", "%s %s proto=%d: Decoder.Decode panicked on a %d-byte prefix of a %d-byte body: %v", combo.Type, combo.Dir, combo.Proto, k, len(body), p2)
		}
		if err2 == nil {
			why := fmt.Sprint(derr)
			if panicked != nil {
				why = fmt.Sprintf("panic: %v", panicked)
			}
			known := ctx != nil && ctx.KnownPacket()
			return verifkit.Fail("decoder-prefix:error-lost", "%s %s proto=%d id=%#x: the packet's own Decode fails on the first %d of %d body bytes (%s) but codec.Decoder.Decode returned no error (known packet: %v, packet %+v): truncated fields read as zero values",
				combo.Type, combo.Dir, combo.Proto, int(combo.ID), k, len(body), why, known, ctx.Packet)
		}
	}
	if failedDirect == 0 {
		labels = append(labels, "every-prefix-is-a-valid-packet")
	}
	return verifkit.Result{NonTrivial: failedDirect > 0, Labels: labels}
}

func TestVerif_C03Prefix(t *testing.T) {
	combos := c04Combos()
	verifkit.Check(t, "C03", "decoder-prefix",
		"a packet value from the C04 generator (every registered (state, direction, protocol, type)), encoded by gate; 1..6 strict prefixes of the body (cut positions 0..999 permille) decoded by the packet's own Decode (harness catches panics) and by codec.Decoder.Decode on a well-formed frame around the prefix; oracle: whenever the direct decode fails (error or PRead* panic) the decoder returns an error too; non-trivial = at least one prefix fails directly",
		func(rt *rapid.T) c03pCase {
			hb := rapid.SliceOfN(rapid.Byte(), 4, 4).Draw(rt, "registration")
			h := uint32(2166136261)
			for _, x := range hb {
				h = (h ^ uint32(x)) * 16777619
			}
			h ^= h >> 15
			combo := combos[int(h%uint32(len(combos)))]
			return c03pCase{State: int(combo.State), Dir: int(combo.Dir), Proto: int(combo.Proto), Type: c04TypeName(combo.Type),
				Entropy: c04EntropyGen.Draw(rt, "entropy"),
				Cuts:    rapid.SliceOfN(rapid.IntRange(0, 999), 1, 6).Draw(rt, "cuts")}
		}, c03pRun)
}
