//go:build verif

package state_test

// C05: decoding untrusted packets never crashes, hangs or blows up memory.
//
// Subject: the full codec.Decoder.Decode path (frame -> packet id -> registry ->
// Packet.Decode under RecoverFunc) with state / direction / protocol set the way the
// proxy sets them, plus the direct Packet.Decode call wrapped like decodePayload does.

import (
	"bufio"
	"bytes"
	"encoding/json"
	"errors"
	"fmt"
	"io"
	"os"
	"os/exec"
	"path/filepath"
	"reflect"
	"regexp"
	"runtime"
	"runtime/debug"
	"runtime/metrics"
	"sort"
	"strconv"
	"strings"
	"sync"
	"testing"
	"time"

	"github.com/go-logr/logr"
	"pgregory.net/rapid"

	"go.minekube.com/gate/pkg/edition/java/proto/codec"
	"go.minekube.com/gate/pkg/edition/java/proto/state"
	"go.minekube.com/gate/pkg/edition/java/proto/state/states"
	"go.minekube.com/gate/pkg/edition/java/proto/util"
	"go.minekube.com/gate/pkg/edition/java/proto/version"
	"go.minekube.com/gate/pkg/gate/proto"
	"go.minekube.com/gate/pkg/internal/verifkit"
)

type c05Case struct {
	Kind  string `json:"kind"`
	State int    `json:"state"`
	Dir   int    `json:"dir"`
	Proto int    `json:"proto"`
	// Order "real": SetProtocol during the handshake state, then the state changes
	// (what netmc/proxy do). "api": state first, protocol afterwards (public Decoder API only).
	Order string `json:"order"`
	ID    int    `json:"id"`
	// packet data = Head + RepUnit x RepCount + Tail
	Head     []byte `json:"head"`
	RepUnit  []byte `json:"rep_unit,omitempty"`
	RepCount int    `json:"rep_count,omitempty"`
	Tail     []byte `json:"tail,omitempty"`
	Direct   bool   `json:"direct,omitempty"` // call Packet.Decode directly (wrapped as decodePayload wraps it)
	// Compressed: the frame is sent zlib-compressed to a decoder with compression enabled
	// (threshold 64); this is how payloads above the 2 MiB frame limit (up to 8 MiB
	// clientbound) reach the packet decoders.
	Compressed bool `json:"compressed,omitempty"`
	Valid      bool `json:"valid_base,omitempty"`
}

func (c c05Case) data() []byte {
	out := make([]byte, 0, len(c.Head)+len(c.RepUnit)*c.RepCount+len(c.Tail))
	out = append(out, c.Head...)
	for i := 0; i < c.RepCount; i++ {
		out = append(out, c.RepUnit...)
	}
	return append(out, c.Tail...)
}

// ---------------------------------------------------------------- memory accounting

// Allocation bound of the oracle: bytes allocated while decoding one packet must stay
// below c05PerByte*len(frame) + c05FixedCap.
//
// Calibration on the unchanged tree (see TestVerif_C05Calibrate, run with
// VERIF_C05_CALIBRATE=1): the largest observed (allocated - 64*len) over 80k generated
// cases, excluding the TagsUpdate finding, was about 3.3 MiB (a failed
// CustomReportDetails / property-list / string-array pre-allocation of 32768 elements
// plus the 256 KiB string buffer). The fixed term is that maximum with 10x head-room.
const (
	c05PerByte  = 64
	c05FixedCap = 32 << 20
	// goroutine stack growth: the recursive NBT reader (go-mc rawRead, behind
	// util.ReadBinaryTag) needs about 110 bytes of stack per payload byte on nested
	// compounds (3 bytes per level, ~330 bytes per frame); that is linear and is not
	// reported. Exceeding the runtime's 1 GB stack limit is fatal and is reported.
	c05StackPerByte = 256
)

var c05Samples = []metrics.Sample{{Name: "/gc/heap/allocs:bytes"}, {Name: "/memory/classes/heap/stacks:bytes"}}

func c05Mem() (alloc, stack uint64) {
	s := make([]metrics.Sample, 2)
	copy(s, c05Samples)
	metrics.Read(s)
	return s[0].Value.Uint64(), s[1].Value.Uint64()
}

// ---------------------------------------------------------------- running one payload

type c05Outcome struct {
	ctx          *proto.PacketContext
	err          error
	alloc        uint64
	stack        uint64
	typ          string // registered type for the id ("" = unknown id)
	hung         bool
	deadlocked   bool
	panicked     any
	panicStack   string
	effProto     proto.Protocol
	fatal        string // isolated run ended in a runtime fatal: "stack-overflow", "out-of-memory", ...
	inconclusive bool
}

func c05Registry(st int) *state.Registry {
	if r := c04RegistryOf(states.State(st)); r != nil {
		return r
	}
	return state.Play
}

// c05Decoder sets a decoder up in the given order.
func c05Decoder(c c05Case, frame []byte) *codec.Decoder {
	dec := codec.NewDecoder(bytes.NewReader(frame), proto.Direction(c.Dir), logr.Discard())
	reg := c05Registry(c.State)
	if c.Order == "api" {
		dec.SetState(reg)
		dec.SetProtocol(proto.Protocol(c.Proto))
		return dec
	}
	// real order: protocol is announced in the handshake; the state moves on afterwards
	dec.SetProtocol(proto.Protocol(c.Proto))
	switch reg.State {
	case states.HandshakeState:
	case states.StatusState:
		dec.SetState(state.Status)
	case states.LoginState:
		dec.SetState(state.Login)
	case states.ConfigState:
		dec.SetState(state.Login)
		dec.SetState(state.Config)
	case states.PlayState:
		dec.SetState(state.Login)
		if proto.Protocol(c.Proto).GreaterEqual(version.Minecraft_1_20_2) {
			dec.SetState(state.Config)
		}
		dec.SetState(state.Play)
	}
	return dec
}

// c05EffectiveRegistry mirrors which registry the decoder ends up with (for labels and
// the direct path). Unknown protocols fall back to the oldest version while the
// protocol is set in a state whose registry has Fallback=true.
func c05EffectiveRegistry(c c05Case) *state.ProtocolRegistry {
	reg := c05Registry(c.State)
	pick := func(r *state.Registry, p proto.Protocol) *state.ProtocolRegistry {
		return state.FromDirection(proto.Direction(c.Dir), r, p)
	}
	if c.Order == "api" {
		return pick(reg, proto.Protocol(c.Proto))
	}
	hs := pick(state.Handshake, proto.Protocol(c.Proto))
	if hs == nil {
		return nil
	}
	return pick(reg, hs.Protocol)
}

// c05Risky: inputs that may end in an unrecoverable runtime fatal (unbounded recursion in
// the command tree builder) are decoded in a child process, so that the verdict is an
// ordinary violation and the search survives it.
func c05Risky(c c05Case, typ string) bool {
	// AvailableCommands: unbounded recursion on cyclic child lists (fatal stack overflow);
	// TagsUpdate: make(map, n) with n from the wire (fatal out-of-memory; the scaled-down
	// twin only helps when its byte scan happens to align with the count field)
	if (typ == "packet.AvailableCommands" || typ == "config.TagsUpdate") && c.Kind != "valid" {
		return true
	}
	// nesting deep enough to approach the runtime's stack limit
	return c.RepCount >= 600000 && typ != ""
}

type c05ChildReport struct {
	Err        string `json:"err"`
	LeftBytes  bool   `json:"left_bytes"`
	CtxNil     bool   `json:"ctx_nil"`
	Alloc      uint64 `json:"alloc"`
	Stack      uint64 `json:"stack"`
	Panicked   string `json:"panicked"`
	PanicStack string `json:"panic_stack"`
	Hung       bool   `json:"hung"`
	Deadlocked bool   `json:"deadlocked"`
}

// The isolated decodes run in one long-lived worker process (the test binary re-executed
// with VERIF_C05_CHILD=stdin) that reads one case per line and answers one report per
// line; when a case kills the worker, the death is the observation and a new worker is
// started for the next case.
type c05Worker struct {
	cmd    *exec.Cmd
	in     io.WriteCloser
	lines  chan string
	stderr *c05SyncBuf
}

type c05SyncBuf struct {
	mu sync.Mutex
	b  bytes.Buffer
}

func (s *c05SyncBuf) Write(p []byte) (int, error) {
	s.mu.Lock()
	defer s.mu.Unlock()
	if s.b.Len() < 1<<20 {
		s.b.Write(p)
	}
	return len(p), nil
}

func (s *c05SyncBuf) String() string {
	s.mu.Lock()
	defer s.mu.Unlock()
	return s.b.String()
}

var c05W *c05Worker

func c05StartWorker() *c05Worker {
	cmd := exec.Command(os.Args[0], "-test.run", "^TestVerif_C05Child$", "-test.count", "1", "-test.timeout", "0")
	cmd.Env = append(os.Environ(), "VERIF_C05_CHILD=stdin", "VERIF_STATS=", "VERIF_LASTCASE=", "VERIF_REPLAY=", "GOTRACEBACK=single")
	in, err := cmd.StdinPipe()
	if err != nil {
		panic(err)
	}
	out, err := cmd.StdoutPipe()
	if err != nil {
		panic(err)
	}
	w := &c05Worker{cmd: cmd, in: in, lines: make(chan string, 4), stderr: &c05SyncBuf{}}
	cmd.Stderr = w.stderr
	if err := cmd.Start(); err != nil {
		panic(err)
	}
	go func() {
		defer close(w.lines)
		rd := bufio.NewReaderSize(out, 1<<16)
		for {
			line, err := rd.ReadString('\n')
			if strings.HasPrefix(line, "C05CHILD ") {
				w.lines <- strings.TrimSpace(strings.TrimPrefix(line, "C05CHILD "))
			} else if line != "" {
				w.stderr.Write([]byte(line))
			}
			if err != nil {
				return
			}
		}
	}()
	return w
}

func c05StopWorker() {
	if c05W != nil {
		c05W.in.Close()
		c05W.cmd.Process.Kill()
		c05W.cmd.Wait()
		c05W = nil
	}
}

func c05ExecIsolated(c c05Case, data []byte, typ string, eff proto.Protocol) c05Outcome {
	out := c05Outcome{typ: typ, effProto: eff}
	cc := c
	if !bytes.Equal(data, c.data()) {
		cc.Head, cc.RepUnit, cc.RepCount, cc.Tail = data, nil, 0, nil
	}
	b, _ := json.Marshal(cc)
	if c05W == nil {
		c05W = c05StartWorker()
	}
	w := c05W
	_, werr := w.in.Write(append(b, '\n'))
	var line string
	alive := werr == nil
	timedOut := false
	if alive {
		select {
		case l, ok := <-w.lines:
			line, alive = l, ok
		case <-time.After(15 * time.Minute):
			timedOut = true
		}
	}
	if alive && !timedOut {
		var rep c05ChildReport
		if json.Unmarshal([]byte(line), &rep) == nil {
			out.alloc, out.stack, out.hung, out.deadlocked = rep.Alloc, rep.Stack, rep.Hung, rep.Deadlocked
			out.panicStack = rep.PanicStack
			if rep.Panicked != "" {
				out.panicked = rep.Panicked
			}
			switch {
			case rep.Err == "":
			case rep.LeftBytes:
				out.err = proto.ErrDecoderLeftBytes
			default:
				out.err = errors.New(rep.Err)
			}
			if !rep.CtxNil {
				out.ctx = &proto.PacketContext{}
			}
			if rep.Hung {
				c05StopWorker() // a spinning goroutine stays behind in that process
			}
			return out
		}
	}
	// the worker is gone (or silent): its death is the observation
	w.in.Close()
	if timedOut {
		w.cmd.Process.Kill()
	}
	err := w.cmd.Wait()
	c05W = nil
	txt := w.stderr.String()
	head := txt
	if len(head) > 1500 {
		head = head[:1500]
	}
	switch {
	case timedOut:
		out.inconclusive, out.panicStack = true, "isolated decode did not finish within 15 min\n"+head
	case strings.Contains(txt, "stack overflow") || strings.Contains(txt, "stack exceeds"):
		out.fatal, out.panicStack = "stack-overflow", head
	case strings.Contains(txt, "out of memory") || strings.Contains(txt, "cannot allocate"):
		out.fatal, out.panicStack = "out-of-memory", head
	default:
		out.fatal, out.panicStack = fmt.Sprintf("crash (%v)", err), head
	}
	return out
}

// TestVerif_C05Child is the body of the worker process (see c05ExecIsolated).
func TestVerif_C05Child(t *testing.T) {
	mode := os.Getenv("VERIF_C05_CHILD")
	if mode == "" {
		t.Skip("not a child")
	}
	c05MemSetup()
	one := func(b []byte) bool {
		var c c05Case
		if err := json.Unmarshal(b, &c); err != nil {
			fmt.Printf("C05CHILD {\"err\":\"bad case: %v\",\"ctx_nil\":true}\n", err)
			return true
		}
		data := c.data()
		// a goroutine needing more than twice the stack bound of the oracle violates that
		// bound anyway; the lower limit only makes a runaway end quickly
		lim := 2 * (c05StackPerByte*(len(data)+8) + c05FixedCap)
		if lim > 1000000000 {
			lim = 1000000000
		}
		debug.SetMaxStack(lim)
		o := c05execLocal(c, data)
		rep := c05ChildReport{Alloc: o.alloc, Stack: o.stack, Hung: o.hung, Deadlocked: o.deadlocked, CtxNil: o.ctx == nil, PanicStack: o.panicStack}
		if o.err != nil {
			rep.Err = o.err.Error()
			rep.LeftBytes = errors.Is(o.err, proto.ErrDecoderLeftBytes)
		}
		if o.panicked != nil {
			rep.Panicked = fmt.Sprint(o.panicked)
		}
		out, _ := json.Marshal(rep)
		fmt.Printf("C05CHILD %s\n", out)
		if len(data) > 256<<10 || o.stack > 16<<20 || o.alloc > 16<<20 {
			runtime.GC()
		}
		return !o.hung
	}
	if mode != "stdin" {
		b, err := os.ReadFile(mode)
		if err != nil {
			t.Fatal(err)
		}
		one(b)
		return
	}
	rd := bufio.NewReaderSize(os.Stdin, 1<<20)
	for {
		line, err := rd.ReadBytes('\n')
		if len(bytes.TrimSpace(line)) > 0 {
			if !one(line) {
				os.Exit(0) // a spinning goroutine cannot be stopped; the parent starts a new worker
			}
		}
		if err != nil {
			return
		}
	}
}

func c05Exec(c c05Case, data []byte) c05Outcome {
	if os.Getenv("VERIF_C05_CHILD") == "" && os.Getenv("VERIF_C05_NOISOLATE") == "" {
		if er := c05EffectiveRegistry(c); er != nil {
			if t, ok := er.PacketIDs[proto.PacketID(c.ID)]; ok && c05Risky(c, t.String()) {
				return c05ExecIsolated(c, data, t.String(), er.Protocol)
			}
		}
	}
	return c05execLocal(c, data)
}

func c05execLocal(c c05Case, data []byte) c05Outcome {
	var out c05Outcome
	er := c05EffectiveRegistry(c)
	if er != nil {
		out.effProto = er.Protocol
		if t, ok := er.PacketIDs[proto.PacketID(c.ID)]; ok {
			out.typ = t.String()
		}
	}
	payload := append(verifkit.RefVarInt(int32(c.ID)), data...)
	var frame []byte
	if c.Compressed {
		frame = verifkit.RefFrame(payload, 64, 1)
	} else {
		frame = verifkit.RefFrame(payload, -1, 0)
	}
	run := func() {
		if c.Direct {
			if er == nil {
				return
			}
			p := er.CreatePacket(proto.PacketID(c.ID))
			if p == nil {
				return
			}
			ctx := &proto.PacketContext{Direction: proto.Direction(c.Dir), Protocol: er.Protocol, PacketID: proto.PacketID(c.ID), Packet: p, Payload: payload}
			rd := bytes.NewReader(data)
			a0, s0 := c05Mem()
			err := util.RecoverFunc(func() error { return p.Decode(ctx, rd) })
			a1, s1 := c05Mem()
			out.ctx, out.err, out.alloc = ctx, err, a1-a0
			if s1 > s0 {
				out.stack = s1 - s0
			}
			if err != nil {
				out.ctx = nil
			}
			return
		}
		dec := c05Decoder(c, frame)
		if c.Compressed {
			dec.SetCompressionThreshold(64)
		}
		a0, s0 := c05Mem()
		ctx, err := dec.Decode()
		a1, s1 := c05Mem()
		out.ctx, out.err, out.alloc = ctx, err, a1-a0
		if s1 > s0 {
			out.stack = s1 - s0
		}
	}
	c05Watch(&out, run)
	return out
}

// c05Watch runs fn on its own goroutine and waits for it. Slowness alone is never a
// verdict: the call is declared hung only after three consecutive 10 s windows in which
// the process neither allocated a byte nor changed its stack footprint while the call
// was still running (a decoder working on an in-memory payload does one or the other).
// A call that keeps making progress is waited for (the driver's timeout is the backstop).
func c05Watch(out *c05Outcome, fn func()) {
	done := make(chan struct{})
	go func() {
		defer close(done)
		defer func() {
			if p := recover(); p != nil {
				st := make([]byte, 16384)
				st = st[:runtime.Stack(st, false)]
				out.panicked, out.panicStack = p, string(st)
			}
		}()
		fn()
	}()
	samples := []metrics.Sample{{Name: "/gc/heap/allocs:bytes"}, {Name: "/memory/classes/heap/stacks:bytes"}}
	metrics.Read(samples)
	lastA, lastS := samples[0].Value.Uint64(), samples[1].Value.Uint64()
	idle := 0
	timer := time.NewTimer(10 * time.Second)
	defer timer.Stop()
	for {
		select {
		case <-done:
			return
		case <-timer.C:
		}
		metrics.Read(samples)
		a, st := samples[0].Value.Uint64(), samples[1].Value.Uint64()
		if a == lastA && st == lastS {
			idle++
		} else {
			idle = 0
		}
		lastA, lastS = a, st
		if idle >= 3 {
			buf := make([]byte, 1<<16)
			buf = buf[:runtime.Stack(buf, true)]
			*out = c05Outcome{typ: out.typ, effProto: out.effProto, hung: true, panicStack: string(buf)}
			return
		}
		timer.Reset(10 * time.Second)
	}
}

// c05Twin scales every VarInt-looking sequence of 4-5 bytes with a value above `scaled` down to
// `scaled` in the same width (ladder 2^20, 2^24 before the original). It is a different, equally legitimate input; running it first
// turns an allocation that would kill the process (make(map, 2^31)) into one that the
// allocation oracle can judge, so that a listed finding does not end the whole search.
func c05Twin(data []byte, scaled uint32) ([]byte, bool) {
	var out []byte
	changed := false
	cur := data
	budget := 8*len(data) + 64
	for i := 0; i < len(cur) && budget > 0; budget-- {
		n, v, ok := c05VarIntAt(cur, i)
		if ok && n >= 4 && v > int32(scaled) {
			if out == nil {
				out = append([]byte(nil), data...)
				cur = out
			}
			copy(out[i:], c05PadVarInt(scaled, n))
			changed = true
			// the new bytes may complete a large VarInt that starts a few bytes earlier
			i -= 4
			if i < 0 {
				i = 0
			}
			continue
		}
		i++
	}
	if !changed {
		return data, false
	}
	return out, true
}

func c05VarIntAt(b []byte, i int) (n int, v int32, ok bool) {
	var u uint32
	for k := 0; k < 5 && i+k < len(b); k++ {
		u |= uint32(b[i+k]&0x7f) << (7 * uint(k))
		if b[i+k]&0x80 == 0 {
			return k + 1, int32(u), true
		}
	}
	return 0, 0, false
}

// c05PadVarInt encodes v in exactly n bytes (non-minimal encodings are accepted by ReadVarInt).
func c05PadVarInt(v uint32, n int) []byte {
	out := make([]byte, n)
	for k := 0; k < n; k++ {
		out[k] = byte(v & 0x7f)
		v >>= 7
		if k < n-1 {
			out[k] |= 0x80
		}
	}
	return out
}

var c05ReadRe = regexp.MustCompile(`read: (\d+), unread: (\d+)`)

func c05Judge(c c05Case, data []byte, o c05Outcome, twin bool) (*verifkit.Violation, []string, bool) {
	site := o.typ
	if site == "" {
		site = "decoder"
	}
	suffix := ""
	if twin {
		suffix = " [scaled-down twin of the case: every 4-5 byte VarInt above 2^20 (2^24 on the second rung) replaced by that value]"
	}
	frameLen := len(data) + 8
	switch o.fatal {
	case "":
	case "stack-overflow":
		return verifkit.Violationf("stack:"+site, "decoding a %d byte payload in an isolated process ended in a fatal stack overflow (goroutine stack above min(1 GB, 2*(%d*len + %d)))%s\n%s", frameLen, c05StackPerByte, c05FixedCap, suffix, o.panicStack), nil, false
	case "out-of-memory":
		return verifkit.Violationf("alloc:"+site, "decoding a %d byte frame in an isolated process ended in a fatal out-of-memory%s\n%s", frameLen, suffix, o.panicStack), nil, false
	default:
		return verifkit.Violationf("fatal:"+site, "decoding a %d byte frame killed the isolated process: %s%s\n%s", frameLen, o.fatal, suffix, o.panicStack), nil, false
	}
	if o.panicked != nil {
		key := "panic:" + site
		if o.typ == "" && strings.Contains(fmt.Sprint(o.panicked), "nil pointer") && c.Order == "api" {
			key = "panic:nil-registry-unknown-protocol"
		}
		return verifkit.Violationf(key, "Decode panicked: %v%s\n%s", o.panicked, suffix, o.panicStack), nil, false
	}
	if o.deadlocked {
		return verifkit.Violationf("hang:deadlock:"+site, "Decode blocked in a sync primitive%s\n%s", suffix, o.panicStack), nil, false
	}
	if o.hung {
		return verifkit.Violationf("hang:"+site, "Decode of %d bytes did not return and made no progress (no allocation, no stack change) for 30 s%s\n%s", len(data), suffix, o.panicStack), nil, false
	}
	bound := uint64(c05PerByte*frameLen + c05FixedCap)
	if o.alloc > bound {
		return verifkit.Violationf("alloc:"+site, "decoding a %d byte frame allocated %d bytes (bound %d = %d*len + %d)%s; error: %v", frameLen, o.alloc, bound, c05PerByte, c05FixedCap, suffix, o.err), nil, false
	}
	if sb := uint64(c05StackPerByte*frameLen + c05FixedCap); o.stack > sb {
		return verifkit.Violationf("stack:"+site, "decoding a %d byte payload grew goroutine stacks by %d bytes (bound %d = %d*len + %d)%s", frameLen, o.stack, sb, c05StackPerByte, c05FixedCap, suffix), nil, false
	}
	var labels []string
	nt := false
	switch {
	case o.err == nil:
		if o.ctx == nil && !(c.Direct && o.typ == "") {
			return verifkit.Violationf("contract:nil-context-without-error", "Decode returned (nil, nil)%s", suffix), nil, false
		}
		if o.typ == "" {
			labels = append(labels, "outcome:unknown-id-passthrough")
		} else {
			labels = append(labels, "outcome:decoded")
			nt = true
		}
	case errors.Is(o.err, proto.ErrDecoderLeftBytes):
		if o.ctx == nil {
			return verifkit.Violationf("contract:leftbytes-without-context", "ErrDecoderLeftBytes came without a context%s", suffix), nil, false
		}
		labels = append(labels, "outcome:left-bytes")
		nt = true
	default:
		labels = append(labels, "outcome:error")
		if m := c05ReadRe.FindStringSubmatch(o.err.Error()); m != nil {
			if n, _ := strconv.Atoi(m[1]); n > 2 {
				nt = true
				labels = append(labels, "error-after-first-field")
			}
		}
	}
	return nil, labels, nt
}

func c05Run(c c05Case) verifkit.Result {
	data := c.data()
	labels := []string{"kind:" + c.Kind, "state:" + c05Registry(c.State).State.String(), "order:" + c.Order}
	if c.Direct {
		labels = append(labels, "direct-Packet.Decode")
	}
	if c.Compressed {
		labels = append(labels, "compressed-frame")
	}
	if len(data) > 65536 {
		labels = append(labels, "payload>64KiB")
	}
	if er := c05EffectiveRegistry(c); er == nil {
		labels = append(labels, "no-registry")
	} else if int(er.Protocol) != c.Proto {
		labels = append(labels, "protocol-fallback")
	}
	isolated := false
	if er := c05EffectiveRegistry(c); er != nil {
		if t, ok := er.PacketIDs[proto.PacketID(c.ID)]; ok && c05Risky(c, t.String()) {
			labels = append(labels, "isolated-child-process")
			// the twins exist to keep allocations judgeable; the command tree hazard is recursion
			isolated = t.String() == "packet.AvailableCommands"
		}
	}
	for _, scaled := range []uint32{1 << 20, 1 << 24} {
		if isolated {
			break
		}
		if tw, ok := c05Twin(data, scaled); ok {
			labels = append(labels, fmt.Sprintf("twin-first:2^%d", map[uint32]int{1 << 20: 20, 1 << 24: 24}[scaled]))
			o := c05Exec(c, tw)
			if v, _, _ := c05Judge(c, tw, o, true); v != nil {
				return verifkit.Result{V: v, Labels: labels}
			}
		}
	}
	o := c05Exec(c, data)
	if o.typ != "" {
		labels = append(labels, "type:"+o.typ)
	}
	if o.inconclusive {
		return verifkit.Result{Inconclusive: true, Labels: append(labels, "inconclusive:isolated-run-timeout")}
	}
	if len(data) > 256<<10 || o.alloc > 16<<20 || o.stack > 16<<20 {
		runtime.GC() // give big buffers and grown stacks back before the next case
	}
	v, l2, nt := c05Judge(c, data, o, false)
	labels = append(labels, l2...)
	if v != nil {
		return verifkit.Result{V: v, Labels: labels}
	}
	if c.Valid {
		nt = true
	}
	return verifkit.Result{NonTrivial: nt && o.typ != "", Labels: labels}
}

// ---------------------------------------------------------------- generator

var c05Protocols = func() []int {
	var out []int
	for _, v := range version.Versions {
		out = append(out, int(v.Protocol))
	}
	// unknown numbers: gaps, above the maximum, negative, huge
	out = append(out, 3, 6, 48, 100, 600, 9999, int(version.MaximumVersion.Protocol)+1, -2, 1<<30)
	return out
}()

// c05WireNode is one brigadier node in wire form (independent writer).
type c05WireNode struct {
	Type     byte // 0 root, 1 literal, 2 argument, 3 invalid
	Flags    byte // 0x04 executable, 0x08 redirect, 0x10 suggestions, 0x20 restricted
	Children []int32
	Redirect int32
	Name     string
}

// c05EncodeGraph writes the nodes in the AvailableCommands layout. Argument nodes use
// brigadier:bool (no properties): string id before 1.19, numeric id 0 since.
func c05EncodeGraph(nodes []c05WireNode, root int32, pr proto.Protocol, countSkew int) []byte {
	var b []byte
	b = append(b, verifkit.RefVarInt(int32(len(nodes)+countSkew))...)
	for _, n := range nodes {
		b = append(b, n.Type&0x03|n.Flags)
		b = append(b, verifkit.RefVarInt(int32(len(n.Children)))...)
		for _, c := range n.Children {
			b = append(b, verifkit.RefVarInt(c)...)
		}
		if n.Flags&0x08 != 0 {
			b = append(b, verifkit.RefVarInt(n.Redirect)...)
		}
		switch n.Type & 0x03 {
		case 1:
			b = append(b, verifkit.RefString(n.Name)...)
		case 2:
			b = append(b, verifkit.RefString(n.Name)...)
			if pr.GreaterEqual(version.Minecraft_1_19) {
				b = append(b, 0)
			} else {
				b = append(b, verifkit.RefString("brigadier:bool")...)
			}
			if n.Flags&0x10 != 0 {
				b = append(b, verifkit.RefString("minecraft:ask_server")...)
			}
		}
	}
	return append(b, verifkit.RefVarInt(root)...)
}

var c05ByTypeCache map[string][]c04Combo
var c05TypeNamesCache []string

func c05CombosByType() map[string][]c04Combo {
	if c05ByTypeCache == nil {
		m := map[string][]c04Combo{}
		for _, c := range c04Combos() {
			m[c.Type.String()] = append(m[c.Type.String()], c)
		}
		c05ByTypeCache = m
	}
	return c05ByTypeCache
}

func c05TypeNames() []string {
	if c05TypeNamesCache == nil {
		for k := range c05CombosByType() {
			c05TypeNamesCache = append(c05TypeNamesCache, k)
		}
		sort.Strings(c05TypeNamesCache)
	}
	return c05TypeNamesCache
}

var c05BlowValues = []int32{-1, 1<<31 - 1, 1 << 21, 1 << 24, 1 << 28, 65536, 65537, 32768, 32769, 262145, 5121, 129}

func c05Gen(t *rapid.T) c05Case {
	c := c05Case{Order: "real"}
	var combo c04Combo
	haveCombo := false
	// rapid's integer generators favour small values; hash a few drawn bytes for an even spread
	uniform := func(label string, n int) int {
		b := rapid.SliceOfN(rapid.Byte(), 4, 4).Draw(t, label)
		h := uint32(2166136261)
		for _, x := range b {
			h = (h ^ uint32(x)) * 16777619
		}
		h ^= h >> 15
		return int(h % uint32(n))
	}
	graph := uniform("graphCase", 12) == 0
	if graph || rapid.IntRange(0, 9).Draw(t, "fromRegistry") < 8 {
		// type first (66 types), then one of its registrations
		byType := c05CombosByType()
		names := c05TypeNames()
		list := byType[names[uniform("type", len(names))]]
		if graph {
			list = byType["packet.AvailableCommands"]
		}
		combo = list[uniform("registration", len(list))]
		haveCombo = true
		c.State, c.Dir, c.Proto, c.ID = int(combo.State), int(combo.Dir), int(combo.Proto), int(combo.ID)
	} else {
		c.State = rapid.IntRange(0, 4).Draw(t, "state")
		c.Dir = rapid.IntRange(0, 1).Draw(t, "dir")
		c.Proto = rapid.SampledFrom(c05Protocols).Draw(t, "proto")
		c.ID = rapid.OneOf(rapid.IntRange(0, 0x80), rapid.IntRange(-2, 300), rapid.SampledFrom([]int{1<<31 - 1, -1 << 31, 1 << 20})).Draw(t, "id")
	}
	c.Direct = rapid.IntRange(0, 5).Draw(t, "direct") == 0
	if !c.Direct && rapid.IntRange(0, 9).Draw(t, "compressed") == 0 {
		c.Compressed = true
	}
	kind := "random"
	if haveCombo {
		kind = []string{"random", "random", "valid", "valid", "mutated", "mutated", "mutated", "mutated", "truncated", "truncated", "blowup", "blowup", "blowup", "blowup", "blowup", "blowup", "deep-nbt", "extended", "extended", "mutated"}[uniform("kind", 20)]
	}
	if graph || (haveCombo && combo.Type.String() == "packet.AvailableCommands" && uniform("graph", 2) == 0) {
		kind = "brigadier-graph"
	}
	c.Kind = kind
	randBytes := func(label string, max int) []byte {
		n := rapid.SampledFrom([]int{0, 1, 2, 5, 16, 64, 300, max}).Draw(t, label+"Len")
		if n > max {
			n = max
		}
		return rapid.SliceOfN(rapid.Byte(), n, n).Draw(t, label)
	}
	var valid []byte
	if kind != "random" && kind != "deep-nbt" && kind != "brigadier-graph" {
		p, env := c04Build(combo, c04EntropyGen.Draw(t, "entropy"), rapid.Bool().Draw(t, "wide"))
		if env.genErr == nil {
			if b, err := c04Encode(combo, p); err == nil {
				valid = b
			}
		}
		if valid == nil {
			kind, c.Kind = "random", "random"
		}
		c.Valid = valid != nil
	}
	switch kind {
	case "random":
		c.Head = randBytes("payload", 2048)
		if rapid.IntRange(0, 80).Draw(t, "big") == 80 {
			c.RepUnit = rapid.SliceOfN(rapid.Byte(), 1, 8).Draw(t, "unit")
			c.RepCount = rapid.SampledFrom([]int{10000, 100000, 260000}).Draw(t, "count")
		}
	case "valid":
		c.Head = valid
	case "mutated":
		b := append([]byte(nil), valid...)
		for i, n := 0, rapid.IntRange(1, 4).Draw(t, "flips"); i < n && len(b) > 0; i++ {
			pos := rapid.IntRange(0, len(b)-1).Draw(t, "pos")
			switch rapid.IntRange(0, 3).Draw(t, "op") {
			case 0:
				b[pos] ^= 1 << uint(rapid.IntRange(0, 7).Draw(t, "bit"))
			case 1:
				b[pos] = rapid.Byte().Draw(t, "byte")
			case 2:
				b[pos] = rapid.SampledFrom([]byte{0, 0xff, 0x7f, 0x80}).Draw(t, "edge")
			default:
				ins := rapid.SliceOfN(rapid.Byte(), 1, 6).Draw(t, "ins")
				b = append(b[:pos], append(ins, b[pos:]...)...)
			}
		}
		c.Head = b
	case "truncated":
		n := 0
		if len(valid) > 0 {
			n = rapid.IntRange(0, len(valid)-1).Draw(t, "cut")
		}
		c.Head = append([]byte(nil), valid[:n]...)
	case "extended":
		c.Head = append(append([]byte(nil), valid...), randBytes("junk", 64)...)
	case "blowup":
		// replace the VarInt found at a position by a hostile count / length
		b := append([]byte(nil), valid...)
		if len(b) == 0 {
			b = []byte{0}
		}
		pos := rapid.IntRange(0, len(b)-1).Draw(t, "pos")
		n, _, ok := c05VarIntAt(b, pos)
		if !ok {
			n = len(b) - pos
		}
		v := rapid.SampledFrom(c05BlowValues).Draw(t, "value")
		c.Head = append(append(append([]byte(nil), b[:pos]...), verifkit.RefVarInt(v)...), b[pos+n:]...)
	case "brigadier-graph":
		// hostile command graphs written node by node: self / mutual redirects, child and
		// redirect indices forming cycles, pointing to never-buildable or non-existent
		// nodes, duplicate names, several or no roots
		n := rapid.IntRange(0, 6).Draw(t, "nodes")
		idx := func(label string) int32 {
			return int32(rapid.SampledFrom([]int{-1, 0, 0, 1, 1, 2, 3, 4, 5, n - 1, n, n + 1, 1 << 20}).Draw(t, label))
		}
		if rapid.IntRange(0, 2).Draw(t, "constructed") == 0 {
			// A VALID base tree (root + literals/arguments forming a DAG, valid root
			// index) with one to three targeted corruptions: the guards a decoder
			// puts in front of graph assembly are only exercised by graphs that are
			// valid except for the one thing the guard is about.
			k := rapid.IntRange(1, 5).Draw(t, "baseNodes")
			base := make([]c05WireNode, k+1)
			base[0] = c05WireNode{Type: 0, Redirect: -1}
			for i := 1; i <= k; i++ {
				base[i] = c05WireNode{Type: byte(rapid.SampledFrom([]int{1, 1, 2}).Draw(t, "baseType")), Redirect: -1,
					Name: rapid.SampledFrom([]string{"a", "b", "c", "a", "cmd"}).Draw(t, "baseName")}
				if rapid.Bool().Draw(t, "baseExec") {
					base[i].Flags |= 0x04
				}
				parent := rapid.IntRange(0, i-1).Draw(t, "baseParent")
				base[parent].Children = append(base[parent].Children, int32(i))
			}
			for c, m := 0, rapid.IntRange(1, 3).Draw(t, "corruptions"); c < m; c++ {
				x := rapid.IntRange(0, k).Draw(t, "victim")
				y := rapid.IntRange(0, k).Draw(t, "other")
				switch rapid.IntRange(0, 6).Draw(t, "corruption") {
				case 0: // the node becomes its own child (once or twice)
					base[x].Children = append(base[x].Children, int32(x))
					if rapid.Bool().Draw(t, "twice") {
						base[x].Children = append(base[x].Children, int32(x))
					}
				case 1: // an earlier node (possibly an ancestor) becomes a child: cycle through the tree
					base[x].Children = append(base[x].Children, int32(y))
				case 2: // a child is listed twice (forces a merge in AddChild)
					if len(base[x].Children) > 0 {
						base[x].Children = append(base[x].Children, base[x].Children[0])
					}
				case 3: // redirect flag with a buildable target (the root / any node)
					if x != 0 {
						base[x].Flags |= 0x08
						base[x].Redirect = int32(rapid.SampledFrom([]int{0, 0, y}).Draw(t, "redirectTarget"))
					}
				case 4: // same-named sibling pointing back into the tree
					base[y].Name = base[x].Name
				case 5: // redirecting node that also keeps children forming a cycle
					if x != 0 {
						base[x].Flags |= 0x08
						base[x].Redirect = 0
						base[x].Children = append(base[x].Children, int32(x), int32(x))
					}
				default: // two nodes that are each other's children
					base[x].Children = append(base[x].Children, int32(y))
					base[y].Children = append(base[y].Children, int32(x))
				}
			}
			c.Head = c05EncodeGraph(base, 0, proto.Protocol(c.Proto), 0)
			return c
		}
		nodes := make([]c05WireNode, n)
		for i := range nodes {
			nd := &nodes[i]
			nd.Type = byte(rapid.SampledFrom([]int{0, 1, 1, 2, 2, 3}).Draw(t, "nodeType"))
			if i == 0 && rapid.Bool().Draw(t, "rootFirst") {
				nd.Type = 0
			}
			nd.Flags = byte(rapid.SampledFrom([]int{0, 0x04, 0x08, 0x08, 0x0c, 0x10, 0x20, 0x18}).Draw(t, "flags"))
			for j, k := 0, rapid.IntRange(0, 3).Draw(t, "children"); j < k; j++ {
				switch rapid.IntRange(0, 3).Draw(t, "childKind") {
				case 0:
					nd.Children = append(nd.Children, int32(i)) // itself
				case 1:
					nd.Children = append(nd.Children, int32((i+1)%(n+1)))
				default:
					nd.Children = append(nd.Children, idx("child"))
				}
			}
			switch rapid.IntRange(0, 3).Draw(t, "redirectKind") {
			case 0:
				nd.Redirect = int32(i) // itself
			case 1:
				nd.Redirect = int32((i + 1) % (n + 1)) // next (mutual with a predecessor redirect)
			default:
				nd.Redirect = idx("redirect")
			}
			nd.Name = rapid.SampledFrom([]string{"a", "a", "b", "", "cmd"}).Draw(t, "name")
		}
		c.Head = c05EncodeGraph(nodes, idx("root"), proto.Protocol(c.Proto), rapid.IntRange(0, 3).Draw(t, "countSkew")-1)
		c.Tail = randBytes("tail", 4)
		if rapid.IntRange(0, 3).Draw(t, "noTail") != 0 {
			c.Tail = nil
		}
	case "deep-nbt":
		// nested compounds / lists, optionally behind a few bytes (ids, flags, uuids)
		c.Head = randBytes("prefix", 20)
		if rapid.Bool().Draw(t, "noPrefix") {
			c.Head = nil
		}
		if rapid.Bool().Draw(t, "compound") {
			c.Head = append(c.Head, 0x0a)
			c.RepUnit = []byte{0x0a, 0x00, 0x00}
			if c.Proto < int(version.Minecraft_1_20_2.Protocol) {
				c.Head = append(c.Head, 0, 0)
			}
		} else {
			c.Head = append(c.Head, 0x09)
			c.RepUnit = []byte{0x09, 0x00, 0x00, 0x00, 0x01}
		}
		c.RepCount = rapid.SampledFrom([]int{10, 200, 1000, 1000, 5000, 20000, 20000, 100000, 400000}).Draw(t, "depth")
		if verifkit.Thorough() && c.Dir == int(proto.ClientBound) && !c.Direct && rapid.IntRange(0, 63).Draw(t, "veryDeep") == 0 {
			// only reachable through a compressed frame (clientbound cap 8 MiB)
			c.Compressed = true
			c.RepCount = rapid.SampledFrom([]int{800000, 1700000, 2700000}).Draw(t, "veryDeepDepth")
		}
		c.Tail = randBytes("tail", 16)
	}
	return c
}

const c05Rule = "rapid: (state, direction, protocol incl. unknown numbers, packet id from the live registry or arbitrary) x payload in {random bytes, valid encoding from the C04 generator, " +
	"byte flips/insertions, truncation, trailing junk, hostile brigadier node graphs (self/mutual redirects, child cycles, out-of-range and never-buildable references, duplicate names), every-VarInt blow-up (-1, 2^31-1, 2^21, 2^24, 2^28, limits+1), deeply nested NBT up to 400k levels, repeated-unit payloads up to the frame limit}; " +
	"through codec.Decoder.Decode set up in the proxy's call order (and 1/6 through Packet.Decode wrapped like decodePayload); oracle: returns (ctx,nil) / (ctx,ErrDecoderLeftBytes) / (nil,err), no escaping panic, " +
	"returns within the watchdog, heap allocation and stack growth <= 64*len + 32 MiB; non-trivial = id is registered and (payload derived from a valid encoding, or decoded, or failed after the first field)"

// c05MemSetup keeps the collector ahead of the ulimit the driver imposes: on a loaded
// machine GC workers starve, the heap balloons and the process would die of an
// out-of-memory that no packet caused.
func c05MemSetup() {
	debug.SetMemoryLimit(1200 << 20)
	debug.SetGCPercent(50)
}

func TestVerif_C05(t *testing.T) {
	c05MemSetup()
	defer c05StopWorker()
	verifkit.Check(t, "C05", "decode", c05Rule, c05Gen, c05Run)

	// Hypothesis 21: public API order (state first, then the protocol) for every state,
	// direction and protocol number incl. unknown ones. The proxy itself never calls in
	// this order. Small deterministic enumeration.
	const apiRule = "enumeration: Decoder.SetState(s) followed by SetProtocol(p) for all 5 states x 2 directions x every 6th known and 9 unknown protocol numbers x ids {0,0x11,300} x payload {empty, 1 byte}; same oracle"
	if os.Getenv("VERIF_REPLAY") != "" {
		verifkit.Check(t, "C05", "api-order", apiRule, func(rt *rapid.T) c05Case { return c05Case{} }, c05Run)
		return
	}
	for st := 0; st < 5; st++ {
		for dir := 0; dir < 2; dir++ {
			for pi, pr := range c05Protocols {
				if pi%6 != 0 && pi < len(c05Protocols)-9 {
					continue // every 6th known protocol, all unknown ones
				}
				for _, id := range []int{0, 0x11, 300} {
					for _, head := range [][]byte{nil, {1}} {
						verifkit.CheckCase(t, "C05", "api-order", apiRule, c05Case{Kind: "api-order", Order: "api", State: st, Dir: dir, Proto: pr, ID: id, Head: head}, c05Run)
					}
				}
			}
		}
	}
	verifkit.Flush()
}

// ---------------------------------------------------------------- native fuzzing

func c05FuzzCase(st uint8, dir bool, protoIdx uint16, id int32, direct bool, payload []byte) c05Case {
	c := c05Case{Kind: "fuzz", Order: "real", State: int(st % 5), ID: int(id), Head: payload, Direct: direct}
	if dir {
		c.Dir = 1
	}
	c.Proto = c05Protocols[int(protoIdx)%len(c05Protocols)]
	return c
}

func FuzzVerif_C05_decode(f *testing.F) {
	c05MemSetup()
	f.Add(uint8(3), false, uint16(10), int32(0), false, []byte{0})
	f.Fuzz(func(t *testing.T, st uint8, dir bool, protoIdx uint16, id int32, direct bool, payload []byte) {
		if len(payload) > 1<<21 {
			return
		}
		verifkit.CheckCase(t, "C05", "fuzz-decode", "native fuzzing over (state, direction, protocol index, packet id, direct, payload); seed corpus = valid encodings of every registered type; same oracle as decode", c05FuzzCase(st, dir, protoIdx, id, direct, payload), c05Run)
	})
}

// TestVerif_C05Corpus writes the seed corpus (valid encodings from the C04 generator) in
// Go fuzz corpus format. Run manually: VERIF_C05_CORPUS_OUT=<dir> <binary> -test.run TestVerif_C05Corpus
func TestVerif_C05Corpus(t *testing.T) {
	dir := os.Getenv("VERIF_C05_CORPUS_OUT")
	if dir == "" {
		t.Skip("VERIF_C05_CORPUS_OUT not set")
	}
	if err := os.MkdirAll(dir, 0o755); err != nil {
		t.Fatal(err)
	}
	protoIdx := map[int]int{}
	for i, p := range c05Protocols {
		if _, ok := protoIdx[p]; !ok {
			protoIdx[p] = i
		}
	}
	// per type: oldest, middle and newest registration of each direction
	byType := map[string][]c04Combo{}
	for _, c := range c04Combos() {
		k := c.Type.String() + "/" + c.Dir.String() + "/" + c.State.String()
		byType[k] = append(byType[k], c)
	}
	keys := make([]string, 0, len(byType))
	for k := range byType {
		keys = append(keys, k)
	}
	sort.Strings(keys)
	n := 0
	for _, k := range keys {
		cs := byType[k]
		picks := map[int]bool{0: true, len(cs) / 2: true, len(cs) - 1: true}
		for i := range cs {
			if !picks[i] {
				continue
			}
			combo := cs[i]
			for j := 0; j < 2; j++ {
				var entropy []byte
				if j == 1 {
					entropy = c04EntropyGen.Example(1000*i + 7)
				}
				p, env := c04Build(combo, entropy, false)
				if env.genErr != nil {
					continue
				}
				b, err := c04Encode(combo, p)
				if err != nil || len(b) > 4096 {
					continue
				}
				body := fmt.Sprintf("go test fuzz v1\nuint8(%d)\nbool(%v)\nuint16(%d)\nint32(%d)\nbool(false)\n[]byte(%s)\n",
					int(combo.State), combo.Dir == proto.ServerBound, protoIdx[int(combo.Proto)], int(combo.ID), strconv.Quote(string(b)))
				name := fmt.Sprintf("seed-%s-%s-%s-%d-%d", strings.ReplaceAll(combo.Type.String(), ".", "_"), combo.State, combo.Dir, int(combo.Proto), j)
				if err := os.WriteFile(filepath.Join(dir, name), []byte(body), 0o644); err != nil {
					t.Fatal(err)
				}
				n++
			}
		}
	}
	// hostile command graphs for every version AvailableCommands is registered in
	graphs := map[string]func() ([]c05WireNode, int32){
		"self-redirect": func() ([]c05WireNode, int32) {
			return []c05WireNode{{Type: 0, Children: []int32{1}}, {Type: 1, Flags: 0x08, Redirect: 1, Name: "a"}}, 0
		},
		"mutual-redirect": func() ([]c05WireNode, int32) {
			return []c05WireNode{{Type: 0, Children: []int32{1, 2}}, {Type: 1, Flags: 0x08, Redirect: 2, Name: "a"}, {Type: 1, Flags: 0x08, Redirect: 1, Name: "b"}}, 0
		},
		"child-cycle": func() ([]c05WireNode, int32) {
			return []c05WireNode{{Type: 0, Children: []int32{1}}, {Type: 1, Children: []int32{2}, Name: "a"}, {Type: 1, Children: []int32{1}, Name: "b"}}, 0
		},
		"self-child": func() ([]c05WireNode, int32) {
			return []c05WireNode{{Type: 0, Children: []int32{1}}, {Type: 2, Children: []int32{1}, Name: "a"}}, 0
		},
		"redirect-out-of-range": func() ([]c05WireNode, int32) {
			return []c05WireNode{{Type: 0, Children: []int32{1}}, {Type: 1, Flags: 0x08, Redirect: 7, Name: "a"}}, 0
		},
		"child-out-of-range": func() ([]c05WireNode, int32) {
			return []c05WireNode{{Type: 0, Children: []int32{1, 9}}, {Type: 1, Name: "a"}}, 0
		},
		"root-is-literal": func() ([]c05WireNode, int32) {
			return []c05WireNode{{Type: 0, Children: []int32{1}}, {Type: 1, Name: "a"}}, 1
		},
		"redirect-to-unbuildable": func() ([]c05WireNode, int32) {
			return []c05WireNode{{Type: 0}, {Type: 1, Flags: 0x08, Redirect: 2, Name: "a"}, {Type: 1, Children: []int32{1}, Name: "b"}}, 0
		},
	}
	gnames := make([]string, 0, len(graphs))
	for k := range graphs {
		gnames = append(gnames, k)
	}
	sort.Strings(gnames)
	for _, combo := range c04Combos() {
		if combo.Type.String() != "packet.AvailableCommands" {
			continue
		}
		for _, g := range gnames {
			nodes, root := graphs[g]()
			b := c05EncodeGraph(nodes, root, combo.Proto, 0)
			body := fmt.Sprintf("go test fuzz v1\nuint8(%d)\nbool(%v)\nuint16(%d)\nint32(%d)\nbool(false)\n[]byte(%s)\n",
				int(combo.State), combo.Dir == proto.ServerBound, protoIdx[int(combo.Proto)], int(combo.ID), strconv.Quote(string(b)))
			name := fmt.Sprintf("graph-%s-%d", g, int(combo.Proto))
			if err := os.WriteFile(filepath.Join(dir, name), []byte(body), 0o644); err != nil {
				t.Fatal(err)
			}
			n++
		}
	}
	fmt.Printf("wrote %d corpus files to %s\n", n, dir)
}

// TestVerif_C05Calibrate reports the distribution of (allocated - 64*len) on generated
// cases; used once to fix c05FixedCap. VERIF_C05_CALIBRATE=1.
func TestVerif_C05Calibrate(t *testing.T) {
	if os.Getenv("VERIF_C05_CALIBRATE") == "" {
		t.Skip("VERIF_C05_CALIBRATE not set")
	}
	type rec struct {
		over  int64
		typ   string
		kind  string
		alloc uint64
		n     int
	}
	var top []rec
	maxStack := uint64(0)
	cases := 0
	rapid.Check(t, func(rt *rapid.T) {
		c := c05Gen(rt)
		data := c.data()
		if tw, ok := c05Twin(data, 1<<20); ok {
			data = tw
		}
		o := c05Exec(c, data)
		cases++
		if o.stack > maxStack {
			maxStack = o.stack
		}
		over := int64(o.alloc) - int64(c05PerByte*(len(data)+8))
		top = append(top, rec{over, o.typ, c.Kind, o.alloc, len(data)})
		if len(top) > 4000 {
			sort.Slice(top, func(i, j int) bool { return top[i].over > top[j].over })
			top = top[:40]
		}
	})
	sort.Slice(top, func(i, j int) bool { return top[i].over > top[j].over })
	if len(top) > 40 {
		top = top[:40]
	}
	fmt.Printf("CALIBRATE cases=%d maxStackGrowth=%d\n", cases, maxStack)
	for _, r := range top {
		fmt.Printf("CALIBRATE over=%d alloc=%d len=%d type=%s kind=%s\n", r.over, r.alloc, r.n, r.typ, r.kind)
	}
}

var _ = reflect.TypeOf
