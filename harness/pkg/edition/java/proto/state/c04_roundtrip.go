//go:build verif

package state_test

// C04: every registered packet type round-trips losslessly in every supported
// protocol version and direction.

import (
	"bytes"
	"encoding/json"
	"fmt"
	"math"
	"os"
	"reflect"
	"sort"
	"strconv"
	"strings"
	"testing"
	"time"

	"github.com/Tnze/go-mc/nbt"
	"go.minekube.com/brigodier"
	"go.minekube.com/common/minecraft/component"
	"go.minekube.com/common/minecraft/key"
	"go.minekube.com/gate/pkg/edition/java/proto/packet"
	"pgregory.net/rapid"

	"go.minekube.com/gate/pkg/edition/java/proto/packet/chat"
	"go.minekube.com/gate/pkg/edition/java/proto/packet/tablist/playerinfo"
	"go.minekube.com/gate/pkg/edition/java/proto/state/states"
	"go.minekube.com/gate/pkg/edition/java/proto/util"
	"go.minekube.com/gate/pkg/edition/java/proto/version"
	"go.minekube.com/gate/pkg/edition/java/proxy/crypto"
	"go.minekube.com/gate/pkg/gate/proto"
	"go.minekube.com/gate/pkg/internal/verifkit"
	"go.minekube.com/gate/pkg/util/favicon"
	"go.minekube.com/gate/pkg/util/uuid"
)

type c04Case struct {
	State   int    `json:"state"`
	Dir     int    `json:"dir"`
	Proto   int    `json:"proto"`
	Type    string `json:"type"`
	Entropy []byte `json:"entropy"`
	Wide    bool   `json:"wide,omitempty"`    // component strings from the wide alphabet (quotes, backslash, newline, ...)
	DataLen int    `json:"datalen,omitempty"` // plugin.Message: forced payload length (length-prefix boundary sweep)
}

func c04CaseOf(c c04Combo, entropy []byte, wide bool) c04Case {
	return c04Case{State: int(c.State), Dir: int(c.Dir), Proto: int(c.Proto), Type: c04TypeName(c.Type), Entropy: entropy, Wide: wide}
}

// ---------------------------------------------------------------- encode / decode helpers

// c04Encode runs Encode the way codec.Encoder.WritePacket does (fresh context, panics
// carrying an error are turned into that error).
func c04Encode(c c04Combo, p proto.Packet) ([]byte, error) {
	buf := new(bytes.Buffer)
	ctx := c.ctx()
	ctx.Packet = p
	err := util.RecoverFunc(func() error { return p.Encode(ctx, buf) })
	return buf.Bytes(), err
}

func c04New(c c04Combo) proto.Packet {
	p := reflect.New(c.Type).Interface().(proto.Packet)
	if st, ok := p.(interface{ SetState(states.State) }); ok {
		st.SetState(c.State) // as ProtocolRegistry.CreatePacket does
	}
	return p
}

// c04Decode runs Decode the way codec.Decoder.decodePayload does: bytes.Reader,
// panics carrying an error become that error. Returns the unread byte count.
func c04Decode(c c04Combo, data []byte, useBuffer bool) (proto.Packet, int, error) {
	q := c04New(c)
	ctx := c.ctx()
	ctx.Packet = q
	ctx.Payload = data
	if useBuffer {
		rd := bytes.NewBuffer(append([]byte(nil), data...))
		err := util.RecoverFunc(func() error { return q.Decode(ctx, rd) })
		return q, rd.Len(), err
	}
	rd := bytes.NewReader(data)
	err := util.RecoverFunc(func() error { return q.Decode(ctx, rd) })
	return q, rd.Len(), err
}

// ---------------------------------------------------------------- normal forms / equality

func c04CompJSON(pr proto.Protocol, c component.Component) string {
	if c == nil {
		return "null"
	}
	b, err := util.Marshal(pr, c)
	if err != nil {
		return "!marshal-error:" + err.Error()
	}
	return string(b)
}

// c04CompNormal is the component normal form: the codec's JSON parsed into a
// generic tree (key order and number spelling do not matter).
func c04CompNormal(pr proto.Protocol, c component.Component) any {
	if c == nil {
		return nil
	}
	s := c04CompJSON(pr, c)
	var v any
	if err := json.Unmarshal([]byte(s), &v); err != nil {
		return "!unparsable:" + s
	}
	return v
}

func c04TreeDump(root *brigodier.RootCommandNode) string {
	if root == nil {
		return "<nil>"
	}
	ids := map[brigodier.CommandNode]int{}
	var order []brigodier.CommandNode
	queue := []brigodier.CommandNode{root}
	for len(queue) > 0 {
		n := queue[0]
		queue = queue[1:]
		if _, ok := ids[n]; ok {
			continue
		}
		ids[n] = len(ids)
		order = append(order, n)
		n.ChildrenOrdered().Range(func(_ string, ch brigodier.CommandNode) bool {
			queue = append(queue, ch)
			return true
		})
		if n.Redirect() != nil {
			queue = append(queue, n.Redirect())
		}
	}
	var sb strings.Builder
	for _, n := range order {
		fmt.Fprintf(&sb, "#%d ", ids[n])
		switch t := n.(type) {
		case *brigodier.RootCommandNode:
			sb.WriteString("root")
		case *brigodier.LiteralCommandNode:
			fmt.Fprintf(&sb, "lit %q", t.Name())
		case *brigodier.ArgumentCommandNode:
			fmt.Fprintf(&sb, "arg %q type=%T%+v sugg=%v", t.Name(), t.Type(), c04ArgDump(t.Type()), t.CustomSuggestions() != nil)
		default:
			fmt.Fprintf(&sb, "?%T", n)
		}
		fmt.Fprintf(&sb, " exec=%v restricted=%v", n.Command() != nil, n.Requirement() != nil)
		if n.Redirect() != nil {
			fmt.Fprintf(&sb, " redirect=#%d", ids[n.Redirect()])
		}
		sb.WriteString(" children=[")
		n.ChildrenOrdered().Range(func(_ string, ch brigodier.CommandNode) bool {
			fmt.Fprintf(&sb, "#%d ", ids[ch])
			return true
		})
		sb.WriteString("]\n")
	}
	return sb.String()
}

func c04ArgDump(t brigodier.ArgumentType) string {
	v := reflect.ValueOf(t)
	for v.Kind() == reflect.Ptr && !v.IsNil() {
		v = v.Elem()
	}
	switch v.Kind() {
	case reflect.Struct:
		var parts []string
		for i := 0; i < v.NumField(); i++ {
			if !v.Type().Field(i).IsExported() {
				continue
			}
			f := v.Field(i)
			switch f.Kind() {
			case reflect.Float32:
				parts = append(parts, fmt.Sprintf("%s=%08x", v.Type().Field(i).Name, math.Float32bits(float32(f.Float()))))
			case reflect.Float64:
				parts = append(parts, fmt.Sprintf("%s=%016x", v.Type().Field(i).Name, math.Float64bits(f.Float())))
			default:
				parts = append(parts, fmt.Sprintf("%s=%v", v.Type().Field(i).Name, f.Interface()))
			}
		}
		return "{" + strings.Join(parts, ",") + "}"
	default:
		return fmt.Sprintf("(%v)", v.Interface())
	}
}

type c04Cmp struct {
	c      c04Combo
	strict bool // decoded-vs-decoded comparison: raw wire forms of holders must be identical
}

// eqOpaque compares two values of an opaque leaf type. key is a key suffix
// override for failures whose root cause lies outside the packet codec.
func (m c04Cmp) eqOpaque(a, b reflect.Value) (ok bool, why string, keyOverride string) {
	switch a.Type() {
	case c04TypTime:
		x, y := a.Interface().(time.Time), b.Interface().(time.Time)
		return x.UnixMilli() == y.UnixMilli(), fmt.Sprintf("%d vs %d (unix ms)", x.UnixMilli(), y.UnixMilli()), ""
	case c04TypUUID:
		x, y := a.Interface().(uuid.UUID), b.Interface().(uuid.UUID)
		return x == y, fmt.Sprintf("%s vs %s", x, y), ""
	case c04TypKey:
		x, _ := a.Interface().(key.Key)
		y, _ := b.Interface().(key.Key)
		if x == nil || y == nil {
			return (x == nil) == (y == nil), fmt.Sprintf("%v vs %v", x, y), ""
		}
		return x.Namespace() == y.Namespace() && x.Value() == y.Value(), fmt.Sprintf("%s|%s vs %s|%s", x.Namespace(), x.Value(), y.Namespace(), y.Value()), ""
	case c04TypIDKey:
		x, _ := a.Interface().(crypto.IdentifiedKey)
		y, _ := b.Interface().(crypto.IdentifiedKey)
		if x == nil || y == nil {
			return (x == nil) == (y == nil), fmt.Sprintf("nil=%v vs nil=%v", x == nil, y == nil), ""
		}
		ok := bytes.Equal(x.SignedPublicKeyBytes(), y.SignedPublicKeyBytes()) && bytes.Equal(x.Signature(), y.Signature()) &&
			x.ExpiryTemporal().UnixMilli() == y.ExpiryTemporal().UnixMilli()
		return ok, "identified key differs (key bytes / signature / expiry)", ""
	case c04TypComp:
		x, _ := a.Interface().(component.Component)
		y, _ := b.Interface().(component.Component)
		nx, ny := c04CompNormal(m.c.Proto, x), c04CompNormal(m.c.Proto, y)
		return reflect.DeepEqual(nx, ny), fmt.Sprintf("%s vs %s", c04CompJSON(m.c.Proto, x), c04CompJSON(m.c.Proto, y)), ""
	case c04TypHolder:
		x := a.Interface().(chat.ComponentHolder)
		y := b.Interface().(chat.ComponentHolder)
		if m.strict {
			ok := string(x.JSON) == string(y.JSON) && x.BinaryTag.Type == y.BinaryTag.Type && bytes.Equal(x.BinaryTag.Data, y.BinaryTag.Data)
			return ok, "raw holder forms differ", ""
		}
		// x is the original (component + for the NBT era its binary form), y was decoded
		if len(x.BinaryTag.Data) != 0 {
			if x.BinaryTag.Type != y.BinaryTag.Type || !bytes.Equal(x.BinaryTag.Data, y.BinaryTag.Data) {
				return false, fmt.Sprintf("binary tag differs: %x vs %x", x.BinaryTag.Data, y.BinaryTag.Data), ""
			}
		}
		yc, err := (&y).AsComponent()
		era := "json"
		if len(x.BinaryTag.Data) != 0 {
			era = "nbt"
		}
		if err != nil {
			return false, fmt.Sprintf("decoded holder cannot be read back as component: %v (original %s)", err, c04CompJSON(m.c.Proto, x.Component)), "component-readback-" + era
		}
		nx, ny := c04CompNormal(m.c.Proto, x.Component), c04CompNormal(m.c.Proto, yc)
		if reflect.DeepEqual(nx, ny) {
			return true, "", ""
		}
		return false, fmt.Sprintf("%s vs %s", c04CompJSON(m.c.Proto, x.Component), c04CompJSON(m.c.Proto, yc)), "component-readback-" + era + ":" + c04DiffClass(nx, ny)
	case c04TypNBT:
		x, y := a.Interface().(nbt.RawMessage), b.Interface().(nbt.RawMessage)
		return x.Type == y.Type && bytes.Equal(x.Data, y.Data), fmt.Sprintf("type %d %x vs type %d %x", x.Type, x.Data, y.Type, y.Data), ""
	case c04TypRoot:
		x, _ := a.Interface().(*brigodier.RootCommandNode)
		y, _ := b.Interface().(*brigodier.RootCommandNode)
		dx, dy := c04TreeDump(x), c04TreeDump(y)
		return dx == dy, fmt.Sprintf("command tree differs:\n%s--- vs ---\n%s", dx, dy), ""
	case c04TypActions:
		x := a.Interface().([]playerinfo.UpsertAction)
		y := b.Interface().([]playerinfo.UpsertAction)
		set := func(s []playerinfo.UpsertAction) string {
			var idx []int
			for _, a := range s {
				for i, k := range playerinfo.UpsertActions {
					if k == a {
						idx = append(idx, i)
					}
				}
			}
			sort.Ints(idx)
			return fmt.Sprint(idx)
		}
		return set(x) == set(y), fmt.Sprintf("action set %s vs %s", set(x), set(y)), ""
	case c04TypState:
		return true, "", ""
	case c04TypFavicon:
		return a.String() == b.String(), fmt.Sprintf("%q vs %q", a.String(), b.String()), ""
	case c04TypBytes:
		return bytes.Equal(a.Bytes(), b.Bytes()), fmt.Sprintf("%d bytes %x... vs %d bytes %x...", a.Len(), c04Head(a.Bytes()), b.Len(), c04Head(b.Bytes())), ""
	}
	return false, "unknown opaque type " + a.Type().String(), ""
}

// c04DiffClass names the class of the first difference between two JSON trees
// (used to keep distinct root causes of lossy component conversion apart).
func c04DiffClass(a, b any) string {
	switch x := a.(type) {
	case map[string]any:
		y, ok := b.(map[string]any)
		if !ok {
			return "structure"
		}
		keys := make([]string, 0, len(x))
		for k := range x {
			keys = append(keys, k)
		}
		sort.Strings(keys)
		for _, k := range keys {
			yv, ok := y[k]
			if !ok {
				return "missing-key:" + k
			}
			if !reflect.DeepEqual(x[k], yv) {
				return c04DiffClass(x[k], yv)
			}
		}
		for k := range y {
			if _, ok := x[k]; !ok {
				return "extra-key:" + k
			}
		}
		return "structure"
	case []any:
		y, ok := b.([]any)
		if !ok || len(x) != len(y) {
			return "structure"
		}
		for i := range x {
			if !reflect.DeepEqual(x[i], y[i]) {
				return c04DiffClass(x[i], y[i])
			}
		}
		return "structure"
	case string:
		if _, ok := b.(string); !ok {
			return "structure"
		}
		switch {
		case x == "":
			return "empty-string"
		case strings.Contains(x, "\n"):
			return "newline"
		case strings.TrimSpace(x) != x:
			return "leading-or-trailing-space"
		case strings.Contains(x, "\\"):
			return "backslash"
		case strings.Contains(x, "\""):
			return "double-quote"
		case strings.Contains(x, "'"):
			return "single-quote"
		case strings.ContainsAny(x, "{}[],:#&<"):
			return "punctuation"
		case strings.IndexFunc(x, func(r rune) bool { return r > 0x7f }) >= 0:
			return "non-ascii"
		default:
			return "plain-string"
		}
	default:
		return "scalar"
	}
}

func c04Head(b []byte) []byte {
	if len(b) > 16 {
		return b[:16]
	}
	return b
}

// eq is deep equality with nil == empty for slices and maps and bit equality for floats.
func (m c04Cmp) eq(a, b reflect.Value) (bool, string) {
	if a.Type() != b.Type() {
		return false, "types differ"
	}
	if c04Opaque(a.Type()) {
		ok, why, _ := m.eqOpaque(a, b)
		return ok, why
	}
	switch a.Kind() {
	case reflect.Bool:
		return a.Bool() == b.Bool(), fmt.Sprintf("%v vs %v", a.Bool(), b.Bool())
	case reflect.Int, reflect.Int8, reflect.Int16, reflect.Int32, reflect.Int64:
		return a.Int() == b.Int(), fmt.Sprintf("%d vs %d", a.Int(), b.Int())
	case reflect.Uint8, reflect.Uint16, reflect.Uint32, reflect.Uint64, reflect.Uint:
		return a.Uint() == b.Uint(), fmt.Sprintf("%d vs %d", a.Uint(), b.Uint())
	case reflect.Float32:
		return math.Float32bits(float32(a.Float())) == math.Float32bits(float32(b.Float())), fmt.Sprintf("%v vs %v", a.Float(), b.Float())
	case reflect.Float64:
		return math.Float64bits(a.Float()) == math.Float64bits(b.Float()), fmt.Sprintf("%v vs %v", a.Float(), b.Float())
	case reflect.String:
		return a.String() == b.String(), fmt.Sprintf("%s vs %s", c04Q(a.String()), c04Q(b.String()))
	case reflect.Array, reflect.Slice:
		if a.Len() != b.Len() {
			return false, fmt.Sprintf("length %d vs %d", a.Len(), b.Len())
		}
		for i := 0; i < a.Len(); i++ {
			if ok, why := m.eq(a.Index(i), b.Index(i)); !ok {
				return false, fmt.Sprintf("[%d]: %s", i, why)
			}
		}
		return true, ""
	case reflect.Map:
		if a.Len() != b.Len() {
			return false, fmt.Sprintf("map size %d vs %d", a.Len(), b.Len())
		}
		for _, k := range a.MapKeys() {
			bv := b.MapIndex(k)
			if !bv.IsValid() {
				return false, fmt.Sprintf("key %v missing", k.Interface())
			}
			if ok, why := m.eq(a.MapIndex(k), bv); !ok {
				return false, fmt.Sprintf("[%v]: %s", k.Interface(), why)
			}
		}
		return true, ""
	case reflect.Ptr, reflect.Interface:
		if a.IsNil() || b.IsNil() {
			return a.IsNil() == b.IsNil(), fmt.Sprintf("nil=%v vs nil=%v", a.IsNil(), b.IsNil())
		}
		return m.eq(a.Elem(), b.Elem())
	case reflect.Struct:
		for i := 0; i < a.NumField(); i++ {
			if !a.Type().Field(i).IsExported() {
				continue
			}
			if ok, why := m.eq(a.Field(i), b.Field(i)); !ok {
				return false, a.Type().Field(i).Name + ": " + why
			}
		}
		return true, ""
	}
	return false, "uncomparable kind " + a.Kind().String()
}

func c04Q(s string) string {
	if len(s) > 60 {
		return strconv.Quote(s[:60]) + fmt.Sprintf("...(%d bytes)", len(s))
	}
	return strconv.Quote(s)
}

// ---------------------------------------------------------------- leaves and perturbation

type c04Step struct {
	field int // struct field index, or
	index int // slice/array index (field == -1), or
	deref bool
}

type c04LeafKind int

const (
	c04LeafValue    c04LeafKind = iota // primitive or opaque value
	c04LeafLen                         // length of a slice
	c04LeafPresence                    // nil-ness of a pointer
	c04LeafMap                         // a whole map
)

type c04Leaf struct {
	steps []c04Step
	path  string // generic path without indices
	kind  c04LeafKind
}

func c04Resolve(root reflect.Value, steps []c04Step) (reflect.Value, bool) {
	v := root
	for _, s := range steps {
		switch {
		case s.deref:
			if v.IsNil() {
				return reflect.Value{}, false
			}
			v = v.Elem()
		case s.field >= 0:
			v = v.Field(s.field)
		default:
			if s.index >= v.Len() {
				return reflect.Value{}, false
			}
			v = v.Index(s.index)
		}
	}
	return v, true
}

func c04Leaves(v reflect.Value, steps []c04Step, path string, out *[]c04Leaf) {
	cp := func(extra ...c04Step) []c04Step {
		return append(append([]c04Step(nil), steps...), extra...)
	}
	t := v.Type()
	if c04Opaque(t) {
		if t != c04TypState {
			*out = append(*out, c04Leaf{steps: cp(), path: path, kind: c04LeafValue})
		}
		return
	}
	switch t.Kind() {
	case reflect.Bool, reflect.Int, reflect.Int8, reflect.Int16, reflect.Int32, reflect.Int64,
		reflect.Uint8, reflect.Uint16, reflect.Uint32, reflect.Uint64, reflect.Float32, reflect.Float64, reflect.String:
		*out = append(*out, c04Leaf{steps: cp(), path: path, kind: c04LeafValue})
	case reflect.Array:
		for i := 0; i < v.Len(); i++ {
			c04Leaves(v.Index(i), cp(c04Step{field: -1, index: i}), path+"[]", out)
		}
	case reflect.Slice:
		*out = append(*out, c04Leaf{steps: cp(), path: path, kind: c04LeafLen})
		for i := 0; i < v.Len(); i++ {
			c04Leaves(v.Index(i), cp(c04Step{field: -1, index: i}), path+"[]", out)
		}
	case reflect.Map:
		*out = append(*out, c04Leaf{steps: cp(), path: path, kind: c04LeafMap})
	case reflect.Ptr:
		*out = append(*out, c04Leaf{steps: cp(), path: path, kind: c04LeafPresence})
		if !v.IsNil() {
			c04Leaves(v.Elem(), cp(c04Step{deref: true}), path, out)
		}
	case reflect.Struct:
		for i := 0; i < t.NumField(); i++ {
			if !t.Field(i).IsExported() {
				continue
			}
			c04Leaves(v.Field(i), cp(c04Step{field: i}), path+"."+t.Field(i).Name, out)
		}
	}
}

// c04Perturb changes the leaf in place and returns a restore function; ok=false
// when no perturbation is defined.
func (e *c04Env) perturb(v reflect.Value, kind c04LeafKind) (restore func(), ok bool) {
	old := reflect.New(v.Type()).Elem()
	old.Set(v)
	restore = func() { v.Set(old) }
	t := v.Type()
	switch kind {
	case c04LeafLen:
		v.Set(reflect.Append(c04CloneSlice(v), c04ZeroElem(t.Elem())))
		return restore, true
	case c04LeafPresence:
		if v.IsNil() {
			v.Set(reflect.New(t.Elem()))
		} else {
			v.Set(reflect.Zero(t))
		}
		return restore, true
	case c04LeafMap:
		m := reflect.MakeMap(t)
		for _, k := range v.MapKeys() {
			m.SetMapIndex(k, v.MapIndex(k))
		}
		k := reflect.New(t.Key()).Elem()
		if k.Kind() == reflect.String {
			k.SetString("zz_perturbed")
		}
		m.SetMapIndex(k, reflect.Zero(t.Elem()))
		v.Set(m)
		return restore, true
	}
	if c04Opaque(t) {
		switch t {
		case c04TypTime:
			v.Set(reflect.ValueOf(v.Interface().(time.Time).Add(time.Millisecond)))
		case c04TypUUID:
			u := v.Interface().(uuid.UUID)
			u[15] ^= 0x80
			u[0] ^= 0x01
			v.Set(reflect.ValueOf(u))
		case c04TypKey:
			alt := key.New("gate", "perturbed")
			if cur, _ := v.Interface().(key.Key); cur != nil && cur.String() == alt.String() {
				alt = key.New("gate", "perturbed2")
			}
			v.Set(reflect.ValueOf(alt))
		case c04TypIDKey:
			e2 := &c04Env{src: &c04Src{b: []byte{4, 3, 1}}, c: e.c, labels: map[string]bool{}}
			alt := e2.idKey()
			if cur, _ := v.Interface().(crypto.IdentifiedKey); cur != nil && bytes.Equal(cur.SignedPublicKeyBytes(), alt.SignedPublicKeyBytes()) {
				e2.src = &c04Src{b: []byte{5, 2, 2}}
				alt = e2.idKey()
			}
			v.Set(reflect.ValueOf(alt))
		case c04TypComp:
			cur, _ := v.Interface().(component.Component)
			alt := component.Component(&component.Text{Content: "perturbed"})
			if cur != nil && reflect.DeepEqual(c04CompNormal(e.c.Proto, cur), c04CompNormal(e.c.Proto, alt)) {
				alt = &component.Text{Content: "perturbed2"}
			}
			v.Set(reflect.ValueOf(alt))
		case c04TypHolder:
			cur := v.Interface().(chat.ComponentHolder)
			txt := "perturbed"
			if t, ok := cur.Component.(*component.Text); ok && t.Content == txt {
				txt = "perturbed2"
			}
			h := chat.ComponentHolder{Protocol: e.c.Proto, Component: &component.Text{Content: txt}}
			if e.nbtEra() {
				bt, err := h.AsBinaryTag()
				if err != nil {
					return restore, false
				}
				h.BinaryTag = bt
			}
			v.Set(reflect.ValueOf(h))
		case c04TypNBT:
			alt := nbt.RawMessage{Type: nbt.TagCompound, Data: []byte{1, 0, 1, 'p', 1, 0}}
			if cur := v.Interface().(nbt.RawMessage); bytes.Equal(cur.Data, alt.Data) {
				alt.Data = []byte{1, 0, 1, 'p', 2, 0}
			}
			v.Set(reflect.ValueOf(alt))
		case c04TypRoot:
			root := &brigodier.RootCommandNode{}
			root.AddChild(brigodier.Literal("perturbed").Build())
			if cur, _ := v.Interface().(*brigodier.RootCommandNode); cur != nil && c04TreeDump(cur) == c04TreeDump(root) {
				root.AddChild(brigodier.Literal("perturbed2").Build())
			}
			v.Set(reflect.ValueOf(root))
		case c04TypActions:
			cur := v.Interface().([]playerinfo.UpsertAction)
			var alt []playerinfo.UpsertAction
			found := false
			for _, a := range cur {
				if a == playerinfo.UpdateLatencyAction {
					found = true
					continue
				}
				alt = append(alt, a)
			}
			if !found {
				alt = append(alt, playerinfo.UpdateLatencyAction)
			}
			v.Set(reflect.ValueOf(alt))
		case c04TypFavicon:
			alt := favicon.FromBytes([]byte{9, 9})
			if v.String() == string(alt) {
				alt = favicon.FromBytes([]byte{7})
			}
			v.Set(reflect.ValueOf(alt))
		case c04TypBytes:
			v.SetBytes(append(append([]byte(nil), v.Bytes()...), 0x5a))
		default:
			return restore, false
		}
		return restore, true
	}
	switch t.Kind() {
	case reflect.Bool:
		v.SetBool(!v.Bool())
	case reflect.Int, reflect.Int8, reflect.Int16, reflect.Int32, reflect.Int64:
		x := v.Int()
		if v.OverflowInt(x+1) || x == math.MaxInt64 {
			v.SetInt(x - 1)
		} else {
			v.SetInt(x + 1)
		}
	case reflect.Uint8, reflect.Uint16, reflect.Uint32, reflect.Uint64:
		x := v.Uint()
		if v.OverflowUint(x+1) || x == math.MaxUint64 {
			v.SetUint(x - 1)
		} else {
			v.SetUint(x + 1)
		}
	case reflect.Float32, reflect.Float64:
		if v.Float() == 1.5 {
			v.SetFloat(2.5)
		} else {
			v.SetFloat(1.5)
		}
	case reflect.String:
		v.SetString(v.String() + "x")
	default:
		return restore, false
	}
	return restore, true
}

func c04CloneSlice(v reflect.Value) reflect.Value {
	n := reflect.MakeSlice(v.Type(), v.Len(), v.Len()+1)
	reflect.Copy(n, v)
	return n
}

// c04ZeroElem builds an element that encoders can dereference (pointers to zero structs).
func c04ZeroElem(t reflect.Type) reflect.Value {
	if t.Kind() == reflect.Ptr {
		return reflect.New(t.Elem())
	}
	return reflect.Zero(t)
}

func c04HasMap(t reflect.Type, seen map[reflect.Type]bool) bool {
	if seen[t] || c04Opaque(t) {
		return false
	}
	seen[t] = true
	switch t.Kind() {
	case reflect.Map:
		return true
	case reflect.Ptr, reflect.Slice, reflect.Array:
		return c04HasMap(t.Elem(), seen)
	case reflect.Struct:
		for i := 0; i < t.NumField(); i++ {
			if c04HasMap(t.Field(i).Type, seen) {
				return true
			}
		}
	}
	return false
}

func c04SameMultiset(a, b []byte) bool {
	if len(a) != len(b) {
		return false
	}
	var ca, cb [256]int
	for _, x := range a {
		ca[x]++
	}
	for _, x := range b {
		cb[x]++
	}
	return ca == cb
}

// c04Mask blanks bytes that are non-deterministic by design: an unsigned
// KeyedPlayerChat carries time.Now() as its timestamp (as Velocity does).
func c04Mask(p proto.Packet, a []byte) []byte {
	if kc, ok := p.(*chat.KeyedPlayerChat); ok && kc.Unsigned {
		r := verifkit.NewRefReader(a)
		n, err := r.VarInt()
		if err == nil && int(n) >= 0 && r.Pos+int(n)+8 <= len(a) {
			out := append([]byte(nil), a...)
			for i := 0; i < 8; i++ {
				out[r.Pos+int(n)+i] = 0
			}
			return out
		}
	}
	return a
}

// ---------------------------------------------------------------- the oracle

// c04ClassifyKey maps a failure to a stable root-cause key. Failures whose cause
// is a shared primitive get one key regardless of the packet type they surface in.
func c04ClassifyKey(e *c04Env, p proto.Packet, def string) string {
	if e.c.lt(version.Minecraft_1_8) {
		// 1.7 arrays use the "extended short" length prefix
		big := false
		var leaves []c04Leaf
		c04Leaves(reflect.ValueOf(p).Elem(), nil, "", &leaves)
		for _, l := range leaves {
			if v, ok := c04Resolve(reflect.ValueOf(p).Elem(), l.steps); ok && l.kind == c04LeafValue && v.Type() == c04TypBytes && v.Len() >= 256 {
				big = true
			}
		}
		switch e.c.Type.String() {
		case "plugin.Message", "packet.EncryptionRequest", "packet.EncryptionResponse":
			if big {
				return "bytes17:length>=256"
			}
		}
	}
	if up, ok := p.(*playerinfo.Upsert); ok {
		last := -1
		for _, a := range up.ActionSet {
			for i, k := range playerinfo.UpsertActions {
				if k == a {
					if i < last {
						return "upsert:action-data-written-in-api-order"
					}
					last = i
				}
			}
		}
	}
	return def
}

func c04Run(c c04Case) verifkit.Result {
	combo, ok := c04FindCombo(c.State, c.Dir, c.Proto, c.Type)
	if !ok {
		return verifkit.Result{Labels: []string{"unregistered-combination"}}
	}
	tn := combo.Type.String()
	p, env := c04BuildLen(combo, c.Entropy, c.Wide, c.DataLen)
	labels := func() []string {
		out := []string{"type:" + tn}
		for l := range env.labels {
			out = append(out, l)
		}
		sort.Strings(out)
		return out
	}
	fail := func(key, format string, args ...any) verifkit.Result {
		if strings.HasPrefix(key, "value:") && !strings.HasPrefix(key, "value:component-") {
			key = c04ClassifyKey(env, p, key)
		}
		r := verifkit.Fail(key, "%s %s proto=%d id=%#x: %s", combo.State, combo.Dir, combo.Proto, int(combo.ID), fmt.Sprintf(format, args...))
		r.Labels = labels()
		return r
	}
	if env.genErr != nil {
		return fail(env.genKey, "%v", env.genErr)
	}
	a, err := c04Encode(combo, p)
	if err != nil {
		return fail(c04ClassifyKey(env, p, "encode-error:"+tn), "Encode of an in-domain value failed: %v; value %+v", err, p)
	}
	q, left, err := c04Decode(combo, a, false)
	if err != nil {
		if _, left2, err2 := c04Decode(combo, a, true); err2 == nil && left2 == 0 {
			return fail("decode:zero-length-read-at-end-of-bytes.Reader", "Decode of the proxy's own encoding (%d bytes) fails with %q on a bytes.Reader (what codec.Decoder uses) but succeeds on a bytes.Buffer; encoding tail %x", len(a), err, c04Tail(a))
		}
		return fail(c04ClassifyKey(env, p, "decode-error:"+tn), "Decode of the proxy's own encoding failed: %v; encoding (%d bytes) %x", err, len(a), c04Head(a))
	}
	if left != 0 {
		return fail(c04ClassifyKey(env, p, "decode-leftover:"+tn), "Decode left %d of %d bytes unread; encoding head %x", left, len(a), c04Head(a))
	}
	b, err := c04Encode(combo, q)
	if err != nil {
		return fail(c04ClassifyKey(env, p, "reencode-error:"+tn), "re-encoding the decoded packet failed: %v", err)
	}
	hasMap := c04HasMap(combo.Type, map[reflect.Type]bool{})
	am, bm := c04Mask(p, a), c04Mask(q, b)
	if hasMap {
		env.label("map-bearing")
		if !c04SameMultiset(am, bm) {
			return fail(c04ClassifyKey(env, p, "reencode-mismatch:"+tn), "re-encoding differs beyond map order: %d vs %d bytes", len(a), len(b))
		}
		q2, left2, err2 := c04Decode(combo, b, false)
		if err2 != nil || left2 != 0 {
			return fail(c04ClassifyKey(env, p, "reencode-mismatch:"+tn), "decoding the re-encoding failed: %v (left %d)", err2, left2)
		}
		if ok, why := (c04Cmp{c: combo, strict: true}).eq(reflect.ValueOf(q).Elem(), reflect.ValueOf(q2).Elem()); !ok {
			return fail(c04ClassifyKey(env, p, "reencode-mismatch:"+tn), "decode(re-encoding) differs from decode(encoding): %s", why)
		}
	} else if !bytes.Equal(am, bm) {
		i := 0
		for i < len(am) && i < len(bm) && am[i] == bm[i] {
			i++
		}
		return fail(c04ClassifyKey(env, p, "reencode-mismatch:"+tn), "re-encoding differs at byte %d (%d vs %d bytes): ...%x vs ...%x", i, len(a), len(b), c04Head(am[i:]), c04Head(bm[i:]))
	}

	// command trees: the decoded graph must have the structure of the original one
	// (an encoder that drops or re-targets nodes yields an encoding that is stable
	// under further decode/encode, so the byte comparison above cannot see it)
	if pa, ok := p.(*packet.AvailableCommands); ok {
		if qa, ok := q.(*packet.AvailableCommands); ok && pa.RootNode != nil && qa.RootNode != nil {
			want, got := c04TreeCanon(pa.RootNode), c04TreeCanon(qa.RootNode)
			if want != got {
				return fail("value:AvailableCommands.tree", "decoded command tree differs from the original:\n original %s\n decoded  %s", want, got)
			}
		}
	}

	// value preservation: every leaf whose perturbation changes the encoding is on the
	// wire in this version/direction and must come back with the same value
	pv, qv := reflect.ValueOf(p).Elem(), reflect.ValueOf(q).Elem()
	var leaves []c04Leaf
	c04Leaves(pv, nil, combo.Type.Name(), &leaves)
	cmp := c04Cmp{c: combo}
	onWire, offWire := 0, 0
	for _, l := range leaves {
		v, ok := c04Resolve(pv, l.steps)
		if !ok {
			continue
		}
		restore, ok := env.perturb(v, l.kind)
		if !ok {
			continue
		}
		a2, err := c04Encode(combo, p)
		restore()
		if err != nil {
			continue // the perturbed value left the domain; presence undecided
		}
		a2m := c04Mask(p, a2)
		var differs bool
		if hasMap {
			differs = !c04SameMultiset(a2m, am)
		} else {
			differs = !bytes.Equal(a2m, am)
		}
		if !differs {
			offWire++
			continue
		}
		onWire++
		w, ok := c04Resolve(qv, l.steps)
		if !ok {
			return fail("value:"+l.path, "field %s is on the wire but absent in the decoded packet (nil pointer / shorter slice on the way)", l.path)
		}
		switch l.kind {
		case c04LeafLen:
			if v.Len() != w.Len() {
				return fail("value:"+l.path, "slice %s has %d elements, decoded %d", l.path, v.Len(), w.Len())
			}
		case c04LeafPresence:
			if v.IsNil() != w.IsNil() {
				return fail("value:"+l.path, "optional %s: original nil=%v, decoded nil=%v", l.path, v.IsNil(), w.IsNil())
			}
		case c04LeafMap:
			if ok, why := cmp.eq(v, w); !ok {
				return fail("value:"+l.path, "map %s: %s", l.path, why)
			}
		default:
			if c04Opaque(v.Type()) {
				if ok, why, k := cmp.eqOpaque(v, w); !ok {
					key := "value:" + l.path
					if k != "" {
						key = "value:" + k
					}
					return fail(key, "field %s: %s", l.path, why)
				}
			} else if ok, why := cmp.eq(v, w); !ok {
				return fail("value:"+l.path, "field %s: original vs decoded: %s", l.path, why)
			}
		}
	}
	if offWire > 0 {
		env.label("has-field-not-on-wire")
	}
	nt := env.labels["len>100"] || env.labels["optional-present"] || env.labels["map>=2"] || env.labels["component-nbt"] ||
		env.labels["component-json"] || env.labels["nbt"] || env.labels["brigadier"] || env.labels["identified-key"]
	return verifkit.Result{NonTrivial: nt && onWire > 0, Labels: labels()}
}

// c04RunMemo is c04Run with a one-entry memo so that the sweep can look at a
// verdict (to minimise a failing case) before handing the case to the kit.
var c04MemoKey string
var c04MemoRes verifkit.Result

func c04RunMemo(c c04Case) verifkit.Result {
	k := fmt.Sprintf("%d/%d/%d/%s/%v/%x/%d", c.State, c.Dir, c.Proto, c.Type, c.Wide, c.Entropy, c.DataLen)
	if k == c04MemoKey {
		return c04MemoRes
	}
	r := c04Run(c)
	c04MemoKey, c04MemoRes = k, r
	return r
}

func c04RunSafe(c c04Case) (r verifkit.Result) {
	defer func() {
		if p := recover(); p != nil {
			r = verifkit.Fail("panic", "%v", p)
		}
	}()
	return c04Run(c)
}

// c04Shrink minimises the entropy of a failing case while the failure key stays the same.
func c04Shrink(c c04Case, key string) c04Case {
	same := func(x c04Case) bool {
		r := c04RunSafe(x)
		return r.V != nil && r.V.Key == key
	}
	best := c
	budget := 400
	try := func(x c04Case) bool {
		if budget <= 0 {
			return false
		}
		budget--
		if same(x) {
			best = x
			return true
		}
		return false
	}
	if best.Wide {
		x := best
		x.Wide = false
		try(x)
	}
	// shorter prefixes
	for n := len(best.Entropy) / 2; n >= 0 && len(best.Entropy) > 0; n /= 2 {
		x := best
		x.Entropy = append([]byte(nil), best.Entropy[:n]...)
		if !try(x) || n == 0 {
			break
		}
	}
	for len(best.Entropy) > 0 {
		x := best
		x.Entropy = append([]byte(nil), best.Entropy[:len(best.Entropy)-1]...)
		if !try(x) {
			break
		}
	}
	// zero / reduce single bytes
	for i := 0; i < len(best.Entropy) && budget > 0; i++ {
		if best.Entropy[i] == 0 {
			continue
		}
		for _, nv := range []byte{0, 1, best.Entropy[i] / 2} {
			if nv >= best.Entropy[i] {
				continue
			}
			x := best
			x.Entropy = append([]byte(nil), best.Entropy...)
			x.Entropy[i] = nv
			if try(x) {
				break
			}
		}
	}
	return best
}

// c04KnownKeys reads the keys of listed known findings (only to avoid spending
// time on minimising cases the kit is going to exclude anyway).
func c04KnownKeys(id string) map[string]bool {
	out := map[string]bool{}
	b, err := os.ReadFile(os.Getenv("VERIF_KNOWN"))
	if err != nil {
		return out
	}
	var f struct {
		Findings []struct {
			Property string `json:"property"`
			Status   string `json:"status"`
			Key      string `json:"key"`
		} `json:"findings"`
	}
	if json.Unmarshal(b, &f) != nil {
		return out
	}
	for _, e := range f.Findings {
		if e.Property == id && e.Status == "known" {
			out[e.Key] = true
		}
	}
	return out
}

func c04Tail(b []byte) []byte {
	if len(b) > 12 {
		return b[len(b)-12:]
	}
	return b
}

// ---------------------------------------------------------------- test entry

// entropy: explicit length first, so that long byte strings are as likely as short ones
var c04EntropyGen = rapid.Custom(func(t *rapid.T) []byte {
	n := rapid.SampledFrom([]int{8, 32, 128, 512, 512, 1024}).Draw(t, "entropyLen")
	return rapid.SliceOfN(rapid.Byte(), n, n).Draw(t, "entropy")
})

const c04Rule = "exhaustive over every live registration (state x direction x protocol x packet type, from the registries) with K entropy-built values each " +
	"(reflection generator with per-type domain limits: boundary string/array sizes 0,1,100,255,256,max; optional pointers; JSON- and NBT-era components; NBT compounds; " +
	"brigadier trees; signed-chat fields; maps; plugin message payloads additionally swept over every length-prefix boundary: 32767/32768 and k*32768 +-1 up to the Forge maximum on 1.7); oracle: encode -> decode consumes all -> re-encode identical (maps: order-insensitive) and every field whose perturbation " +
	"changes the encoding comes back equal (bit-equal floats, nil==empty, components by codec normal form); non-trivial = a field >100 bytes, an optional present, a map with >=2 entries, " +
	"a component, NBT, command tree or identified key is present and at least one field was proven to be on the wire"

func c04PerCombo() int {
	if s := os.Getenv("VERIF_C04_PER_COMBO"); s != "" {
		if n, err := strconv.Atoi(s); err == nil {
			return n
		}
	}
	if verifkit.Thorough() {
		return 200
	}
	return 12
}

func TestVerif_C04(t *testing.T) {
	combos := c04Combos()
	seed, _ := strconv.Atoi(os.Getenv("VERIF_SEED"))
	shard, _ := strconv.Atoi(os.Getenv("VERIF_SHARD"))
	shards, _ := strconv.Atoi(os.Getenv("VERIF_SHARDS"))
	if shards <= 0 {
		shards = 1
	}
	baseSeed := seed - shard // the driver hands seed+shard to each shard
	if os.Getenv("VERIF_REPLAY") != "" {
		// replay goes through verifkit.Check's replay path
		verifkit.Check(t, "C04", "roundtrip", c04Rule, func(rt *rapid.T) c04Case { return c04Case{} }, c04Run)
		verifkit.Check(t, "C04", "roundtrip-random", c04Rule, func(rt *rapid.T) c04Case { return c04Case{} }, c04Run)
		return
	}
	k := c04PerCombo()
	// development aid: VERIF_C04_COLLECT=<dir> writes one minimised replay file per distinct failure key instead of stopping
	var collect map[string]map[string]any
	collectN := map[string]int{}
	if os.Getenv("VERIF_C04_COLLECT") != "" {
		collect = map[string]map[string]any{}
		defer func() {
			i := 0
			for key, v := range collect {
				b, _ := json.MarshalIndent(v, "", " ")
				_ = os.WriteFile(fmt.Sprintf("%s/collect-%02d.json", os.Getenv("VERIF_C04_COLLECT"), i), b, 0o644)
				fmt.Printf("COLLECT %4d  %s\n     %s\n", collectN[key], key, strings.ReplaceAll(fmt.Sprint(v["msg"]), "\n", "\n     "))
				i++
			}
		}()
	}
	known := c04KnownKeys("C04")
	types := map[string]bool{}
	n := 0
	for ci, combo := range combos {
		types[c04TypeName(combo.Type)] = true
		for j := 0; j < k; j++ {
			idx := ci*k + j
			if idx%shards != shard {
				continue
			}
			var entropy []byte
			if j > 0 {
				entropy = c04EntropyGen.Example(baseSeed*1000003 + idx)
			}
			wide := j%4 == 3
			cs := c04CaseOf(combo, entropy, wide)
			if r := c04RunMemo(cs); r.V != nil {
				if collect != nil {
					if _, ok := collect[r.V.Key]; !ok {
						cs = c04Shrink(cs, r.V.Key)
						r = c04RunSafe(cs)
						collect[r.V.Key] = map[string]any{"id": "C04", "check": "roundtrip", "key": r.V.Key, "msg": r.V.Msg, "case": cs}
					}
					collectN[r.V.Key]++
					continue
				}
				if !known[r.V.Key] {
					cs = c04Shrink(cs, r.V.Key)
				}
			}
			verifkit.CheckCase(t, "C04", "roundtrip", c04Rule, cs, c04RunMemo)
			n++
		}
	}
	// plugin message payload lengths on both sides of every length-prefix boundary
	// (1.7: 2-or-3-byte extended short up to the Forge maximum; 1.8+: rest of frame)
	swept := 0
	for ci, combo := range combos {
		if c04TypeName(combo.Type) != "plugin.Message" {
			continue
		}
		lens := []int{32766, 32767, 32768}
		if combo.Proto < version.Minecraft_1_8.Protocol {
			for _, b := range []int{65536, 98304, 131072, 163840, 1 << 18, 1 << 19, 1 << 20, 1<<20 + 1<<15, 1 << 21} {
				lens = append(lens, b-1, b, b+1)
			}
			lens = append(lens, 70000, 100000, 150000, 1000000, util.ForgeMaxArrayLength-1, util.ForgeMaxArrayLength)
		} else if combo.Proto%7 != 0 {
			continue // 1.8+: same code path for every protocol, a sample is enough
		}
		for li, n := range lens {
			if n > util.ForgeMaxArrayLength || (ci+li)%shards != shard {
				continue
			}
			cs := c04CaseOf(combo, c04EntropyGen.Example(baseSeed*7919+ci*64+li), false)
			cs.DataLen = n
			verifkit.CheckCase(t, "C04", "roundtrip", c04Rule, cs, c04RunMemo)
			swept++
		}
	}
	verifkit.Note("C04", "roundtrip", "plugin_message_length_sweep", swept)
	if shard == 0 { // the driver sums numeric notes over shards
		verifkit.Note("C04", "roundtrip", "registrations", len(combos))
		verifkit.Note("C04", "roundtrip", "packet_types", len(types))
		verifkit.Note("C04", "roundtrip", "values_per_registration", k)
	}
	verifkit.Flush()

	// rapid-driven sampling over the same space: gives shrinking for anything the sweep missed
	verifkit.Check(t, "C04", "roundtrip-random", c04Rule, func(rt *rapid.T) c04Case {
		// rapid's integer generators favour small values: hash drawn bytes for an even spread
		hb := rapid.SliceOfN(rapid.Byte(), 4, 4).Draw(rt, "registration")
		h := uint32(2166136261)
		for _, x := range hb {
			h = (h ^ uint32(x)) * 16777619
		}
		h ^= h >> 15
		combo := combos[int(h%uint32(len(combos)))]
		entropy := c04EntropyGen.Draw(rt, "entropy")
		return c04CaseOf(combo, entropy, rapid.Bool().Draw(rt, "wide"))
	}, c04Run)
}

// c04TreeCanon renders a brigodier tree canonically: node kind, name, executable
// flag, children sorted by name, and for a redirect the canonical form of its
// target (by reference once a node was already rendered on the current path).
func c04TreeCanon(root brigodier.CommandNode) string {
	var sb strings.Builder
	onPath := map[brigodier.CommandNode]bool{}
	var walk func(n brigodier.CommandNode)
	walk = func(n brigodier.CommandNode) {
		if n == nil {
			sb.WriteString("<nil>")
			return
		}
		switch n.(type) {
		case *brigodier.RootCommandNode:
			sb.WriteString("root")
		case *brigodier.LiteralCommandNode:
			sb.WriteString("lit:" + n.Name())
		default:
			sb.WriteString("arg:" + n.Name())
		}
		if onPath[n] {
			sb.WriteString("^") // back reference
			return
		}
		onPath[n] = true
		defer delete(onPath, n)
		if n.Command() != nil {
			sb.WriteString("!")
		}
		var names []string
		kids := map[string]brigodier.CommandNode{}
		n.ChildrenOrdered().Range(func(name string, c brigodier.CommandNode) bool {
			names = append(names, name)
			kids[name] = c
			return true
		})
		sort.Strings(names)
		sb.WriteString("(")
		for _, name := range names {
			walk(kids[name])
			sb.WriteString(",")
		}
		sb.WriteString(")")
		if r := n.Redirect(); r != nil {
			sb.WriteString("->{")
			walk(r)
			sb.WriteString("}")
		}
	}
	walk(root)
	return sb.String()
}
