//go:build verif

package state_test

// C04/C05 shared: enumeration of the live packet registries and a reflection
// driven, entropy-fed packet value generator with per-type domain overrides.
//
// A case is (state, direction, protocol, type name, entropy bytes). The entropy
// bytes come from rapid; the builder consumes them deterministically, so a case
// is replayable from JSON and shrinks towards "all zero entropy" = simplest value.

import (
	"bytes"
	"context"
	"crypto/rsa"
	"crypto/x509"
	"encoding/binary"
	"fmt"
	"math"
	"math/big"
	"reflect"
	"sort"
	"strings"
	"time"

	"github.com/Tnze/go-mc/nbt"
	"go.minekube.com/brigodier"
	"go.minekube.com/common/minecraft/color"
	"go.minekube.com/common/minecraft/component"
	"go.minekube.com/common/minecraft/key"

	"go.minekube.com/gate/pkg/edition/java/proto/packet/brigadier"
	"go.minekube.com/gate/pkg/edition/java/proto/packet/chat"
	"go.minekube.com/gate/pkg/edition/java/proto/packet/tablist/playerinfo"
	"go.minekube.com/gate/pkg/edition/java/proto/packet/title"
	"go.minekube.com/gate/pkg/edition/java/proto/state"
	"go.minekube.com/gate/pkg/edition/java/proto/state/states"
	"go.minekube.com/gate/pkg/edition/java/proto/util"
	"go.minekube.com/gate/pkg/edition/java/proto/version"
	"go.minekube.com/gate/pkg/edition/java/proxy/crypto"
	"go.minekube.com/gate/pkg/edition/java/proxy/crypto/keyrevision"
	"go.minekube.com/gate/pkg/gate/proto"
	"go.minekube.com/gate/pkg/util/favicon"
	"go.minekube.com/gate/pkg/util/uuid"
)

// ---------------------------------------------------------------- registry enumeration

// c04Combo is one registration (state, direction, protocol, type, id) taken from the live registries.
type c04Combo struct {
	State states.State
	Dir   proto.Direction
	Proto proto.Protocol
	ID    proto.PacketID
	Type  reflect.Type
}

func c04Registries() []*state.Registry {
	return []*state.Registry{state.Handshake, state.Status, state.Login, state.Config, state.Play}
}

func c04RegistryOf(s states.State) *state.Registry {
	for _, r := range c04Registries() {
		if r.State == s {
			return r
		}
	}
	return nil
}

func c04TypeName(t reflect.Type) string { return t.String() }

var c04CombosCache []c04Combo

// c04Combos enumerates every registration deterministically.
func c04Combos() []c04Combo {
	if c04CombosCache != nil {
		return c04CombosCache
	}
	var out []c04Combo
	for _, reg := range c04Registries() {
		for _, pr := range []*state.PacketRegistry{reg.ServerBound, reg.ClientBound} {
			protos := make([]int, 0, len(pr.Protocols))
			for p := range pr.Protocols {
				protos = append(protos, int(p))
			}
			sort.Ints(protos)
			for _, p := range protos {
				r := pr.Protocols[proto.Protocol(p)]
				ids := make([]int, 0, len(r.PacketIDs))
				for id := range r.PacketIDs {
					ids = append(ids, int(id))
				}
				sort.Ints(ids)
				for _, id := range ids {
					out = append(out, c04Combo{State: reg.State, Dir: pr.Direction, Proto: proto.Protocol(p), ID: proto.PacketID(id), Type: r.PacketIDs[proto.PacketID(id)]})
				}
			}
		}
	}
	c04CombosCache = out
	return out
}

// c04FindCombo resolves a serialised case header against the live registry.
func c04FindCombo(st, dir, pr int, typ string) (c04Combo, bool) {
	reg := c04RegistryOf(states.State(st))
	if reg == nil {
		return c04Combo{}, false
	}
	preg := reg.ClientBound
	if proto.Direction(dir) == proto.ServerBound {
		preg = reg.ServerBound
	}
	r := preg.Protocols[proto.Protocol(pr)]
	if r == nil {
		return c04Combo{}, false
	}
	for t, id := range r.PacketTypes {
		if c04TypeName(t) == typ {
			return c04Combo{State: reg.State, Dir: preg.Direction, Proto: proto.Protocol(pr), ID: id, Type: t}, true
		}
	}
	return c04Combo{}, false
}

func (c c04Combo) ctx() *proto.PacketContext {
	return &proto.PacketContext{Direction: c.Dir, Protocol: c.Proto, PacketID: c.ID}
}

func (c c04Combo) ge(v *proto.Version) bool { return c.Proto.GreaterEqual(v) }
func (c c04Combo) lt(v *proto.Version) bool { return c.Proto.Lower(v) }
func (c c04Combo) le(v *proto.Version) bool { return c.Proto.LowerEqual(v) }

// ---------------------------------------------------------------- entropy source

type c04Src struct {
	b []byte
	i int
}

func (s *c04Src) u8() byte {
	if s.i >= len(s.b) {
		return 0
	}
	v := s.b[s.i]
	s.i++
	return v
}

// n returns a value in [0,k).
func (s *c04Src) n(k int) int {
	if k <= 1 {
		return 0
	}
	if k <= 256 {
		return int(s.u8()) % k
	}
	return int(uint32(s.u8())<<16|uint32(s.u8())<<8|uint32(s.u8())) % k
}

func (s *c04Src) flag() bool { return s.u8()&1 == 1 }

// chance is true with probability about num/den (false on exhausted entropy).
func (s *c04Src) chance(num, den int) bool { return int(s.u8())%den >= den-num }

func (s *c04Src) u64() uint64 {
	var v uint64
	for i := 0; i < 8; i++ {
		v = v<<8 | uint64(s.u8())
	}
	return v
}

// i64 draws an int64 biased to boundaries of the given inclusive range.
func (s *c04Src) i64(min, max int64) int64 {
	if min >= max {
		return min
	}
	span := uint64(max - min)
	in := func(v int64) int64 {
		if v < min || v > max {
			return min
		}
		return v
	}
	switch s.n(12) {
	case 0:
		return in(0)
	case 1:
		return in(1)
	case 2:
		return in(-1)
	case 3:
		return min
	case 4:
		return max
	case 5:
		return in(127)
	case 6:
		return in(128)
	case 7:
		return in(255)
	case 8:
		return in(32767)
	case 9:
		return in(int64(s.n(300)))
	default:
		r := s.u64()
		if span == math.MaxUint64 {
			return int64(r)
		}
		return min + int64(r%(span+1))
	}
}

// ---------------------------------------------------------------- builder environment

type c04Env struct {
	src     *c04Src
	c       c04Combo
	big     bool // a large (> 1000 byte) field was already produced
	labels  map[string]bool
	genErr  error  // an error raised while preparing a permitted value (e.g. component -> NBT conversion)
	genKey  string // violation key for genErr
	wide    bool   // wide alphabet for component strings
	dataLen int    // forced plugin message payload length (0 = generated)
}

func (e *c04Env) label(l string) { e.labels[l] = true }

var c04Alpha = []string{"a", "b", "Z", "0", "9", "_", " ", ".", "-", "/", ":", "é", "ß", "中", "€", "😀", "\"", "'", "\\", "\n", "{", "}", "[", ",", "#", "&", "<", "§"}

// str produces a valid UTF-8 string of at most maxChars characters. Sizes are
// biased to boundaries; only one big field per packet.
func (e *c04Env) str(minChars, maxChars int, safe bool) string {
	if maxChars < minChars {
		maxChars = minChars
	}
	s := e.src
	var n int
	switch k := s.n(16); {
	case k < 3:
		n = minChars
	case k < 6:
		n = minChars + s.n(4)
	case k < 10:
		n = s.n(17)
	case k == 10:
		n = 100 + s.n(60)
	case k == 11:
		n = 255 + s.n(3)
	case k == 12:
		n = maxChars
	case k == 13:
		n = maxChars - 1
	default:
		n = s.n(40)
	}
	if n > maxChars {
		n = maxChars
	}
	if n < minChars {
		n = minChars
	}
	if n > 1000 {
		if e.big {
			n = 1000
			if n > maxChars {
				n = maxChars
			}
		} else {
			e.big = true
		}
	}
	if n > 100 {
		e.label("len>100")
	}
	alpha := c04Alpha
	if safe {
		alpha = c04Alpha[:10]
	}
	// a short pattern, repeated
	plen := 1 + s.n(6)
	pat := make([]string, plen)
	multi := false
	for i := range pat {
		pat[i] = alpha[s.n(len(alpha))]
		if len(pat[i]) > 1 {
			multi = true
		}
	}
	if !safe && n == maxChars && n > 0 && n <= 4096 && s.flag() {
		// the documented limits count characters; decoders allow 4 bytes per character
		pat, plen, multi = []string{"😀"}, 1, true
		e.label("max-chars-of-4-byte-runes")
	}
	if multi && n > 0 {
		e.label("multibyte-string")
	}
	var sb strings.Builder
	for i := 0; i < n; i++ {
		sb.WriteString(pat[i%plen])
	}
	return sb.String()
}

func (e *c04Env) bytes(minLen, maxLen int) []byte {
	if maxLen < minLen {
		maxLen = minLen
	}
	s := e.src
	var n int
	switch k := s.n(16); {
	case k < 1:
		n = minLen
	case k < 8:
		n = minLen + 1 + s.n(9)
	case k == 8:
		n = 100 + s.n(60)
	case k == 9:
		n = 255 + s.n(3)
	case k == 10:
		n = maxLen
	case k == 11:
		n = maxLen - 1
	case k == 12:
		n = 32767 + s.n(3) - 1
	default:
		n = s.n(40)
	}
	if n > maxLen {
		n = maxLen
	}
	if n < minLen {
		n = minLen
	}
	if n > 1000 {
		if e.big {
			n = 1000
			if n > maxLen {
				n = maxLen
			}
		} else {
			e.big = true
		}
	}
	if n > 100 {
		e.label("len>100")
	}
	if n == 0 {
		if s.flag() {
			return nil
		}
		return []byte{}
	}
	out := make([]byte, n)
	seed := s.u8()
	step := s.u8() | 1
	for i := range out {
		out[i] = seed + byte(i)*step
	}
	// make sure the content is not all zero
	out[0] |= 1
	return out
}

func (e *c04Env) uuid(nonZero bool) uuid.UUID {
	var u uuid.UUID
	if !nonZero && e.src.chance(1, 6) {
		return u
	}
	for i := range u {
		u[i] = e.src.u8()
	}
	if nonZero {
		u[15] |= 1
	}
	return u
}

var c04KeyNS = []string{"minecraft", "minecraft", "gate", "my_mod", "a.b-c"}
var c04KeyVal = []string{"test", "a", "entity.player.levelup", "path/to/x_1", "x-y.z", "overworld"}

func (e *c04Env) key() key.Key {
	return key.New(c04KeyNS[e.src.n(len(c04KeyNS))], c04KeyVal[e.src.n(len(c04KeyVal))])
}

func (e *c04Env) timeMilli() time.Time {
	switch e.src.n(6) {
	case 0:
		return time.UnixMilli(0)
	case 1:
		return time.UnixMilli(1700000000123)
	case 2:
		return time.UnixMilli(-1)
	default:
		return time.UnixMilli(int64(e.src.u64() % (1 << 53)))
	}
}

// ---- identified keys

var c04DERCache = map[int][]byte{}

// c04PubDER builds a syntactically valid PKIX RSA public key of the given
// modulus size from a fixed pattern (no key generation, no randomness).
func c04PubDER(variant int) []byte {
	if b, ok := c04DERCache[variant]; ok {
		return b
	}
	bits := []int{1024, 2048, 512}[variant%3]
	nb := make([]byte, bits/8)
	for i := range nb {
		nb[i] = byte(i*7 + variant*13 + 1)
	}
	nb[0] |= 0x80
	nb[len(nb)-1] |= 1
	pk := &rsa.PublicKey{N: new(big.Int).SetBytes(nb), E: 65537}
	der, err := x509.MarshalPKIXPublicKey(pk)
	if err != nil {
		panic(err)
	}
	c04DERCache[variant] = der
	return der
}

func (e *c04Env) idKey() crypto.IdentifiedKey {
	variant := e.src.n(6)
	sigLen := []int{256, 0, 1, 512, 4096, 255}[e.src.n(6)]
	sig := make([]byte, sigLen)
	for i := range sig {
		sig[i] = byte(i + variant)
	}
	rev := keyrevision.LinkedV2
	if e.c.Proto == version.Minecraft_1_19.Protocol {
		rev = keyrevision.GenericV1
	}
	k, err := crypto.NewIdentifiedKey(rev, c04PubDER(variant), e.timeMilli().UnixMilli(), sig)
	if err != nil {
		panic(fmt.Sprintf("c04: cannot build identified key: %v", err))
	}
	return k
}

// ---- components

var c04Colors = []color.Color{color.Red, color.Green, color.DarkAqua, color.White, color.Black, color.LightPurple}

func (e *c04Env) compText(max int) string {
	// the empty string is a (known) trouble maker of the NBT conversion: keep it rare so
	// that it does not mask everything else
	min := 1
	if e.src.chance(1, 10) {
		min = 0
	}
	return e.str(min, max, !e.wide)
}

func (e *c04Env) style(depth int) component.Style {
	var st component.Style
	s := e.src
	if !s.chance(1, 2) {
		return st
	}
	states := []component.State{component.NotSet, component.True, component.False}
	st.Bold = states[s.n(3)]
	st.Italic = states[s.n(3)]
	if s.chance(1, 4) {
		st.Underlined = states[s.n(3)]
		st.Strikethrough = states[s.n(3)]
		st.Obfuscated = states[s.n(3)]
	}
	if s.chance(1, 2) {
		st.Color = c04Colors[s.n(len(c04Colors))]
	}
	if s.chance(1, 4) {
		ins := "i" + e.compText(12)
		st.Insertion = &ins
	}
	if s.chance(1, 4) {
		switch s.n(3) {
		case 0:
			st.ClickEvent = component.RunCommand("/" + e.str(1, 10, true))
		case 1:
			st.ClickEvent = component.SuggestCommand("/" + e.str(1, 10, true))
		default:
			st.ClickEvent = component.OpenUrl("https://example.com/" + e.str(0, 6, true))
		}
	}
	if depth > 0 && s.chance(1, 5) {
		st.HoverEvent = component.ShowText(&component.Text{Content: "h" + e.compText(8)})
	}
	return st
}

func (e *c04Env) comp(depth int) component.Component {
	s := e.src
	nExtra := 0
	if depth > 0 {
		nExtra = []int{0, 0, 0, 1, 2, 3}[s.n(6)]
	}
	if s.chance(1, 5) {
		t := &component.Translation{Key: "chat.type." + e.str(1, 8, true), S: e.style(depth)}
		for i := 0; i < nExtra; i++ {
			t.With = append(t.With, e.comp(depth-1))
		}
		e.label("component-translation")
		return t
	}
	t := &component.Text{Content: e.compText(300), S: e.style(depth)}
	for i := 0; i < nExtra; i++ {
		t.Extra = append(t.Extra, e.comp(depth-1))
	}
	if nExtra > 0 {
		e.label("component-nested")
	}
	return t
}

// nbtEra reports whether component holders of this registration travel as NBT.
func (e *c04Env) nbtEra() bool {
	if e.c.Type.String() == "packet.Disconnect" && e.c.ID == 0 && e.c.Dir == proto.ClientBound {
		return false // login disconnect is always JSON
	}
	return e.c.ge(version.Minecraft_1_20_3)
}

// holder builds a component holder the way proxy code does (FromComponentProtocol).
// In the NBT era the binary form is computed once and stored, exactly as a holder
// decoded from a backend carries it: JSON->SNBT conversion iterates a Go map, so
// encoding a bare component twice is not byte-stable (compound key order), which
// would make "re-encode identical" and the field-presence probe meaningless.
func (e *c04Env) holder() chat.ComponentHolder {
	h := chat.ComponentHolder{Protocol: e.c.Proto, Component: e.comp(2)}
	if e.nbtEra() {
		e.label("component-nbt")
		bt, err := h.AsBinaryTag()
		if err != nil {
			if e.genErr == nil {
				e.genErr = fmt.Errorf("component %s cannot be converted to NBT: %w", c04CompJSON(e.c.Proto, h.Component), err)
				e.genKey = "encode-error:component-to-nbt"
			}
			// keep the packet encodable so that the rest of the case still runs
			h = chat.ComponentHolder{Protocol: e.c.Proto, Component: &component.Text{Content: "x"}}
			bt, _ = h.AsBinaryTag()
		}
		h.BinaryTag = bt
	} else {
		e.label("component-json")
	}
	return h
}

// ---- NBT (independent writer)

type c04NBT struct{ bytes.Buffer }

func (w *c04NBT) name(s string) {
	binary.Write(&w.Buffer, binary.BigEndian, uint16(len(s)))
	w.WriteString(s)
}

var c04NBTNames = []string{"a", "type", "value", "min_y", "name with space", "", "element", "x1"}

// payload writes a payload of the given tag type.
func (e *c04Env) nbtPayload(w *c04NBT, tag byte, depth int) {
	s := e.src
	switch tag {
	case 1:
		w.WriteByte(s.u8())
	case 2:
		binary.Write(&w.Buffer, binary.BigEndian, uint16(s.u64()))
	case 3:
		binary.Write(&w.Buffer, binary.BigEndian, uint32(s.u64()))
	case 4:
		binary.Write(&w.Buffer, binary.BigEndian, s.u64())
	case 5:
		binary.Write(&w.Buffer, binary.BigEndian, math.Float32bits(float32(s.n(1000))/8))
	case 6:
		binary.Write(&w.Buffer, binary.BigEndian, math.Float64bits(float64(s.n(1000))/16))
	case 7:
		n := s.n(5)
		binary.Write(&w.Buffer, binary.BigEndian, uint32(n))
		for i := 0; i < n; i++ {
			w.WriteByte(s.u8())
		}
	case 8:
		w.name(e.str(0, 20, true))
	case 9:
		elem := byte(1 + s.n(10))
		if depth <= 0 && (elem == 9 || elem == 10) {
			elem = 3
		}
		n := s.n(4)
		if n == 0 {
			elem = 0
		}
		w.WriteByte(elem)
		binary.Write(&w.Buffer, binary.BigEndian, uint32(n))
		for i := 0; i < n; i++ {
			e.nbtPayload(w, elem, depth-1)
		}
	case 10:
		n := s.n(4)
		used := map[string]bool{}
		for i := 0; i < n; i++ {
			t := byte(1 + s.n(12))
			if depth <= 0 && (t == 9 || t == 10) {
				t = 8
			}
			nm := c04NBTNames[s.n(len(c04NBTNames))]
			if used[nm] {
				continue
			}
			used[nm] = true
			w.WriteByte(t)
			w.name(nm)
			e.nbtPayload(w, t, depth-1)
		}
		w.WriteByte(0)
	case 11:
		n := s.n(4)
		binary.Write(&w.Buffer, binary.BigEndian, uint32(n))
		for i := 0; i < n; i++ {
			binary.Write(&w.Buffer, binary.BigEndian, uint32(s.u64()))
		}
	case 12:
		n := s.n(3)
		binary.Write(&w.Buffer, binary.BigEndian, uint32(n))
		for i := 0; i < n; i++ {
			binary.Write(&w.Buffer, binary.BigEndian, s.u64())
		}
	}
}

func (e *c04Env) nbtCompound() nbt.RawMessage {
	var w c04NBT
	e.nbtPayload(&w, 10, 2)
	e.label("nbt")
	return nbt.RawMessage{Type: nbt.TagCompound, Data: append([]byte(nil), w.Bytes()...)}
}

// ---- brigadier trees

type c04Suggest struct{}

func (c04Suggest) Suggestions(_ *brigodier.CommandContext, b *brigodier.SuggestionsBuilder) *brigodier.Suggestions {
	return b.Build()
}

var c04Cmd = brigodier.CommandFunc(func(*brigodier.CommandContext) error { return nil })

func (e *c04Env) argType() brigodier.ArgumentType {
	s := e.src
	f64 := func() float64 {
		return []float64{0, -1.5, 1e300, brigodier.MinFloat64, brigodier.MaxFloat64, 3.25}[s.n(6)]
	}
	f32 := func() float32 {
		return []float32{0, -1.5, 1e30, brigodier.MinFloat32, brigodier.MaxFloat32, 3.25}[s.n(6)]
	}
	kinds := 9
	if e.c.ge(version.Minecraft_1_19_3) {
		kinds = 11
	}
	if e.c.ge(version.Minecraft_1_21_5) {
		kinds = 12
	}
	switch s.n(kinds) {
	case 0:
		return brigodier.Bool
	case 1:
		return &brigodier.Float32ArgumentType{Min: f32(), Max: f32()}
	case 2:
		return &brigodier.Float64ArgumentType{Min: f64(), Max: f64()}
	case 3:
		return &brigodier.Int32ArgumentType{Min: int32(s.i64(math.MinInt32, math.MaxInt32)), Max: int32(s.i64(math.MinInt32, math.MaxInt32))}
	case 4:
		return &brigodier.Int64ArgumentType{Min: s.i64(math.MinInt64, math.MaxInt64), Max: s.i64(math.MinInt64, math.MaxInt64)}
	case 5:
		return []brigodier.ArgumentType{brigodier.SingleWord, brigodier.QuotablePhase, brigodier.GreedyPhrase}[s.n(3)]
	case 6:
		return &brigadier.EntityArgumentType{SingleEntity: s.flag(), OnlyPlayers: s.flag()}
	case 7:
		return brigodier.Int32
	case 8:
		return &brigadier.RegistryKeyArgumentType{Identifier: "minecraft:" + e.str(1, 12, true)}
	case 9:
		return &brigadier.ResourceOrTagKeyArgumentType{Identifier: "minecraft:" + e.str(1, 12, true)}
	case 10:
		return &brigadier.ResourceKeyArgumentType{Identifier: "minecraft:" + e.str(1, 12, true)}
	default:
		return &brigadier.ResourceSelectorArgumentType{Identifier: "minecraft:" + e.str(1, 12, true)}
	}
}

func (e *c04Env) cmdTree() *brigodier.RootCommandNode {
	root := &brigodier.RootCommandNode{}
	s := e.src
	var lits []brigodier.CommandNode
	nameSeq := 0
	name := func() string {
		nameSeq++
		return fmt.Sprintf("%s%d", e.str(1, 6, true), nameSeq)
	}
	var build func(depth int) brigodier.CommandNode
	build = func(depth int) brigodier.CommandNode {
		var children []brigodier.CommandNode
		if depth > 0 {
			for i, n := 0, s.n(3); i < n; i++ {
				children = append(children, build(depth-1))
			}
		}
		if s.chance(1, 2) {
			b := brigodier.Literal(name())
			if s.flag() {
				b.Executes(c04Cmd)
			}
			if s.chance(1, 6) {
				b.Requires(brigodier.RequireFn(func(context.Context) bool { return true }))
			}
			if len(children) == 0 && len(lits) > 0 && s.chance(1, 4) {
				b.Redirect(lits[s.n(len(lits))])
				e.label("brigadier-redirect")
			} else if len(children) == 0 && s.chance(1, 8) {
				// redirect to a node that is nobody's child: it is reachable only
				// through this redirect (the flat wire node list permits that)
				d := brigodier.Literal(name())
				if s.flag() {
					d.Executes(c04Cmd)
				}
				b.Redirect(d.Build())
				e.label("brigadier-redirect-to-detached-node")
			}
			n := b.Build()
			for _, c := range children {
				n.AddChild(c)
			}
			lits = append(lits, n)
			return n
		}
		b := brigodier.Argument(name(), e.argType())
		if s.flag() {
			b.Executes(c04Cmd)
		}
		if s.chance(1, 4) {
			b.Suggests(c04Suggest{})
		}
		n := b.Build()
		for _, c := range children {
			n.AddChild(c)
		}
		return n
	}
	for i, n := 0, s.n(4); i < n; i++ {
		root.AddChild(build(2))
	}
	e.label("brigadier")
	return root
}

// ---------------------------------------------------------------- hints (domain overrides)

type c04H struct {
	hasRange bool
	min, max int64
	maxLen   int // characters (strings), bytes, elements; <0 = default
	minLen   int
	nonNil   bool
	isNil    bool
	nonZero  bool
	safe     bool // strings: restricted alphabet
}

func c04R(min, max int64) c04H { return c04H{hasRange: true, min: min, max: max, maxLen: -1} }
func c04L(min, max int) c04H   { return c04H{minLen: min, maxLen: max} }

var c04NoHint = c04H{maxLen: -1}

const c04I32Min, c04I32Max = math.MinInt32, math.MaxInt32

// c04Hint returns the domain restriction for a field path ("TypeName.Field.Sub[]...").
// Every restriction is a limit documented in the decoder of that field, an enum
// range of the protocol, or a nil/non-nil requirement of the encoder for the version.
func c04Hint(e *c04Env, path string) c04H {
	c := e.c
	v := version.Minecraft_1_7_2
	_ = v
	byteR := c04R(0, 255)
	switch path {
	// ---- bossbar
	case "BossBar.Action":
		return c04R(0, 5)
	case "BossBar.Color":
		return c04R(0, 6)
	case "BossBar.Overlay":
		return c04R(0, 4)
	case "BossBar.Flags":
		return c04R(0, 7)
	case "BossBar.Name":
		return c04H{nonNil: true, maxLen: -1}
	// ---- chat
	case "KeyedPlayerChat.Message", "KeyedPlayerCommand.Command", "SessionPlayerChat.Message":
		return c04L(0, 256)
	case "KeyedPlayerChat.Signature":
		return c04L(1, 512)
	case "KeyedPlayerChat.Salt":
		return c04L(8, 8)
	case "KeyedPlayerChat.PreviousMessages", "KeyedPlayerCommand.PreviousMessages":
		return c04L(0, 5)
	case "KeyedPlayerChat.PreviousMessages[]", "KeyedPlayerCommand.PreviousMessages[]":
		return c04H{nonNil: true, maxLen: -1}
	case "KeyedPlayerChat.PreviousMessages[].Signature", "KeyedPlayerCommand.PreviousMessages[].Signature",
		"KeyedPlayerChat.LastMessage.Signature", "KeyedPlayerCommand.LastMessage.Signature":
		return c04L(0, 300)
	case "KeyedPlayerCommand.Arguments":
		return c04L(0, 8)
	case "KeyedPlayerCommand.Arguments{key}":
		return c04L(0, 16)
	case "KeyedPlayerCommand.Arguments{}":
		return c04L(0, 300)
	case "LegacyChat.Message":
		if c.Dir == proto.ClientBound {
			return c04L(0, 32767)
		}
		if c.ge(version.Minecraft_1_11) {
			return c04L(0, 256)
		}
		return c04L(0, 100)
	case "LegacyChat.Type":
		return c04R(0, 2)
	case "SessionPlayerChat.Signature":
		return c04L(256, 256)
	case "SessionPlayerChat.LastSeenMessages.Acknowledged.Bytes", "SessionPlayerCommand.LastSeenMessages.Acknowledged.Bytes",
		"UnsignedPlayerCommand.SessionPlayerCommand.LastSeenMessages.Acknowledged.Bytes":
		return c04L(3, 3)
	case "SessionPlayerCommand.Command":
		if c.ge(version.Minecraft_1_20_5) {
			return c04L(0, 32767)
		}
		return c04L(0, 256)
	case "UnsignedPlayerCommand.SessionPlayerCommand.Command":
		return c04L(0, 32767)
	case "SessionPlayerCommand.ArgumentSignatures.Entries", "UnsignedPlayerCommand.SessionPlayerCommand.ArgumentSignatures.Entries":
		return c04L(0, 8)
	case "SessionPlayerCommand.ArgumentSignatures.Entries[].Name", "UnsignedPlayerCommand.SessionPlayerCommand.ArgumentSignatures.Entries[].Name":
		return c04L(0, 16)
	case "SessionPlayerCommand.ArgumentSignatures.Entries[].Signature", "UnsignedPlayerCommand.SessionPlayerCommand.ArgumentSignatures.Entries[].Signature":
		return c04L(256, 256)
	case "SystemChat.Component":
		return c04H{nonNil: true, maxLen: -1}
	case "SystemChat.Type":
		if c.ge(version.Minecraft_1_19_1) {
			return c04R(1, 2)
		}
		return c04R(0, 2)
	// ---- config / cookies
	case "KnownPacks.Packs":
		return c04L(0, 64)
	case "CookieRequest.Key", "CookieResponse.Key", "CookieStore.Key":
		return c04H{nonNil: true, maxLen: -1}
	case "CookieResponse.Payload", "CookieStore.Payload":
		return c04L(0, 5120)
	case "ActiveFeatures.ActiveFeatures[]":
		return c04H{nonNil: true, maxLen: -1}
	// ---- legacy tab list
	case "PlayerListItem.Action":
		if c.lt(version.Minecraft_1_8) {
			if e.src.flag() {
				return c04R(0, 0)
			}
			return c04R(4, 4)
		}
		return c04R(0, 4)
	case "PlayerListItem.Items":
		if c.lt(version.Minecraft_1_8) {
			return c04L(1, 2)
		}
		return c04L(0, 3)
	case "PlayerListItem.Items[].ID":
		return c04H{nonZero: true, maxLen: -1}
	case "PlayerListItem.Items[].Name":
		return c04L(0, 16)
	case "PlayerListItem.Items[].Latency":
		if c.lt(version.Minecraft_1_8) {
			return c04R(math.MinInt16, math.MaxInt16)
		}
	case "PlayerListItem.Items[].DisplayName":
		if c.lt(version.Minecraft_1_8) {
			return c04H{isNil: true, maxLen: -1}
		}
	case "PlayerListItem.Items[].PlayerKey":
		if c.lt(version.Minecraft_1_19) {
			return c04H{isNil: true, maxLen: -1}
		}
	case "PlayerListItem.PlayerKey":
		return c04H{isNil: true, maxLen: -1}
	// ---- client settings
	case "ClientSettings.Locale":
		return c04L(0, 16)
	// ---- dialog
	case "DialogShow.ID":
		if c.State == states.ConfigState {
			return c04R(0, 0)
		}
		return c04R(0, c04I32Max)
	// ---- disconnect
	case "Disconnect.Reason":
		return c04H{nonNil: true, maxLen: -1}
	// ---- login
	case "EncryptionRequest.ServerID":
		return c04L(0, 20)
	case "EncryptionRequest.PublicKey":
		return c04L(0, 256)
	case "EncryptionRequest.VerifyToken":
		return c04L(0, 16)
	case "EncryptionResponse.SharedSecret":
		return c04L(0, 128)
	case "EncryptionResponse.VerifyToken":
		if c.ge(version.Minecraft_1_19) {
			return c04L(0, 256)
		}
		return c04L(0, 128)
	case "Handshake.ServerAddress":
		return c04L(0, 255)
	case "Handshake.Port":
		return c04R(0, 65535)
	case "Handshake.NextStatus":
		return c04R(1, 3)
	case "ServerLogin.Username", "ServerLoginSuccess.Username":
		return c04L(1, 16)
	case "ServerLogin.PlayerKey":
		if !(c.ge(version.Minecraft_1_19) && c.lt(version.Minecraft_1_19_3)) {
			return c04H{isNil: true, maxLen: -1}
		}
	// ---- join game / respawn
	case "JoinGame.Gamemode":
		return c04R(0, 7)
	case "Respawn.Gamemode":
		return c04R(0, 7)
	case "JoinGame.PreviousGamemode", "Respawn.PreviousGamemode":
		return c04R(-1, 3)
	case "JoinGame.Difficulty", "Respawn.Difficulty":
		return c04R(0, 3)
	case "JoinGame.Dimension":
		if c.lt(version.Minecraft_1_9_1) {
			return c04R(-1, 1)
		}
		if c.ge(version.Minecraft_1_20_5) {
			return c04R(0, c04I32Max)
		}
	case "Respawn.Dimension":
		if c.ge(version.Minecraft_1_20_5) {
			return c04R(0, c04I32Max)
		}
	case "JoinGame.MaxPlayers":
		if c.lt(version.Minecraft_1_16_2) {
			return byteR
		}
	case "JoinGame.LevelType":
		return c04H{nonNil: true, maxLen: -1}
	case "JoinGame.LevelType*":
		return c04L(0, 16)
	case "JoinGame.DimensionInfo", "Respawn.DimensionInfo", "JoinGame.DimensionInfo.LevelName", "Respawn.DimensionInfo.LevelName":
		return c04H{nonNil: true, maxLen: -1}
	case "JoinGame.DimensionInfo.RegistryIdentifier", "Respawn.DimensionInfo.RegistryIdentifier":
		return c04L(1, 64)
	case "Respawn.DataToKeep":
		if c.lt(version.Minecraft_1_19_3) {
			return c04R(0, 1)
		}
	// ---- keep alive
	case "KeepAlive.RandomID":
		if c.lt(version.Minecraft_1_12_2) {
			return c04R(c04I32Min, c04I32Max)
		}
	// ---- misc play
	case "PlayerChatCompletion.Action":
		return c04R(0, 2)
	case "ResourcePackRequest.ID":
		return c04H{nonZero: true, maxLen: -1}
	case "ResourcePackRequest.URL":
		return c04L(1, 300)
	case "ResourcePackRequest.Hash":
		return c04L(0, 40)
	case "ResourcePackResponse.Status":
		return c04R(0, 7)
	case "ServerData.Description":
		if c.ge(version.Minecraft_1_19_4) {
			return c04H{nonNil: true, maxLen: -1}
		}
	case "ServerLinks.ServerLinks":
		return c04L(0, 4)
	case "ServerLinks.ServerLinks[]":
		return c04H{nonNil: true, maxLen: -1}
	case "ServerLinks.ServerLinks[].ID":
		return c04R(-1, 9)
	case "SoundEntityPacket.SoundID":
		if e.src.flag() {
			return c04R(0, 0)
		}
		return c04R(0, c04I32Max)
	case "SoundEntityPacket.SoundName":
		return c04H{nonNil: true, maxLen: -1}
	case "SoundEntityPacket.SoundSource", "StopSoundPacket.Source*":
		if c.ge(version.Minecraft_1_21_5) {
			return c04R(0, 10)
		}
		return c04R(0, 9)
	case "TabCompleteRequest.Command":
		return c04L(1, 2048)
	case "Clear.Action":
		if e.src.flag() {
			return c04R(int64(title.Hide), int64(title.Hide))
		}
		return c04R(int64(title.Reset), int64(title.Reset))
	case "Legacy.Action":
		if c.lt(version.Minecraft_1_11) {
			return c04R(0, 4) // mapped to {0,1,3,4,5} by the fix-up
		}
		return c04R(0, 5)
	case "Legacy.Component":
		return c04H{nonNil: true, maxLen: -1}
	case "Upsert.Entries":
		return c04L(0, 3)
	case "Upsert.Entries[]":
		return c04H{nonNil: true, maxLen: -1}
	case "Upsert.Entries[].Profile.Name":
		return c04L(0, 16)
	case "Upsert.Entries[].RemoteChatSession.Key":
		return c04H{nonNil: true, maxLen: -1}
	case "Message.Channel":
		return c04L(1, 20)
	case "Message.Data":
		if c.Dir == proto.ServerBound && c.ge(version.Minecraft_1_8) {
			return c04L(0, 32767)
		}
		if e.dataLen > 0 {
			if c.Dir == proto.ServerBound && c.ge(version.Minecraft_1_8) && e.dataLen > 32767 {
				return c04L(32767, 32767)
			}
			e.label("message-forced-length")
			return c04L(e.dataLen, e.dataLen)
		}
		if !c.ge(version.Minecraft_1_8) && e.src.chance(1, 3) {
			// 1.7 frames the payload with the 2-or-3-byte extended short: lengths on
			// both sides of every bit-15 / bit-16 boundary up to the Forge maximum
			base := []int{32767, 32768, 65535, 65536, 98303, 98304, 131071, 131072, 163839, 163840, 1 << 20, util.ForgeMaxArrayLength}
			n := base[e.src.n(len(base))] + e.src.n(3) - 1
			if n > util.ForgeMaxArrayLength {
				n = util.ForgeMaxArrayLength
			}
			e.label("message-1.7-extended-short-length")
			return c04L(n, n)
		}
		return c04L(0, 40000)
	case "LoginPluginMessage.Data", "LoginPluginResponse.Data", "RegistrySync.Data", "CodeOfConductPacket.Data", "CustomClickActionPacket.Data":
		return c04L(0, 40000)
	case "StatusResponse.Status":
		return c04L(0, 32767)
	}
	return c04NoHint
}

// ---------------------------------------------------------------- generic fill

var (
	c04TypTime     = reflect.TypeOf(time.Time{})
	c04TypUUID     = reflect.TypeOf(uuid.UUID{})
	c04TypKey      = reflect.TypeOf((*key.Key)(nil)).Elem()
	c04TypIDKey    = reflect.TypeOf((*crypto.IdentifiedKey)(nil)).Elem()
	c04TypComp     = reflect.TypeOf((*component.Component)(nil)).Elem()
	c04TypHolder   = reflect.TypeOf(chat.ComponentHolder{})
	c04TypNBT      = reflect.TypeOf(nbt.RawMessage{})
	c04TypRoot     = reflect.TypeOf((*brigodier.RootCommandNode)(nil))
	c04TypActions  = reflect.TypeOf([]playerinfo.UpsertAction(nil))
	c04TypState    = reflect.TypeOf(states.State(0))
	c04TypFavicon  = reflect.TypeOf(favicon.Favicon(""))
	c04TypBytes    = reflect.TypeOf([]byte(nil))
	c04TypProtocol = reflect.TypeOf(proto.Protocol(0))
)

// c04Opaque reports types that the generic walker treats as one leaf.
func c04Opaque(t reflect.Type) bool {
	switch t {
	case c04TypTime, c04TypUUID, c04TypKey, c04TypIDKey, c04TypComp, c04TypHolder, c04TypNBT, c04TypRoot, c04TypActions, c04TypState, c04TypFavicon, c04TypBytes:
		return true
	}
	return false
}

func (e *c04Env) upsertActions() []playerinfo.UpsertAction {
	all := []playerinfo.UpsertAction{
		playerinfo.AddPlayerAction, playerinfo.InitializeChatAction, playerinfo.UpdateGameModeAction,
		playerinfo.UpdateListedAction, playerinfo.UpdateLatencyAction, playerinfo.UpdateDisplayNameAction,
	}
	if e.c.ge(version.Minecraft_1_21_2) {
		all = append(all, playerinfo.UpdateListOrderAction)
	}
	if e.c.ge(version.Minecraft_1_21_4) {
		all = append(all, playerinfo.UpdateHatAction)
	}
	var out []playerinfo.UpsertAction
	for _, a := range all {
		if e.src.flag() {
			out = append(out, a)
		}
	}
	// API order is arbitrary for a set: sometimes hand it over in non-canonical order
	if len(out) >= 2 && e.src.chance(1, 4) {
		i := e.src.n(len(out))
		j := e.src.n(len(out))
		if i != j {
			out[i], out[j] = out[j], out[i]
			e.label("upsert-noncanonical-action-order")
		}
	}
	return out
}

func (e *c04Env) fillOpaque(v reflect.Value, path string, h c04H) {
	switch v.Type() {
	case c04TypTime:
		v.Set(reflect.ValueOf(e.timeMilli()))
	case c04TypUUID:
		v.Set(reflect.ValueOf(e.uuid(h.nonZero)))
	case c04TypKey:
		if h.isNil || (!h.nonNil && e.src.chance(1, 3)) {
			return
		}
		v.Set(reflect.ValueOf(e.key()))
	case c04TypIDKey:
		if h.isNil || (!h.nonNil && e.src.chance(1, 2)) {
			return
		}
		e.label("identified-key")
		v.Set(reflect.ValueOf(e.idKey()))
	case c04TypComp:
		if h.isNil || (!h.nonNil && e.src.chance(1, 3)) {
			return
		}
		v.Set(reflect.ValueOf(e.comp(2)))
	case c04TypHolder:
		v.Set(reflect.ValueOf(e.holder()))
	case c04TypNBT:
		v.Set(reflect.ValueOf(e.nbtCompound()))
	case c04TypRoot:
		v.Set(reflect.ValueOf(e.cmdTree()))
	case c04TypActions:
		v.Set(reflect.ValueOf(e.upsertActions()))
	case c04TypState:
		v.Set(reflect.ValueOf(e.c.State))
	case c04TypFavicon:
		if e.src.chance(1, 3) {
			return
		}
		v.Set(reflect.ValueOf(favicon.FromBytes(e.bytes(1, 3000))))
	case c04TypBytes:
		max := h.maxLen
		if max < 0 {
			max = 32767
		}
		v.SetBytes(e.bytes(h.minLen, max))
	}
}

// c04NoGen collects types the generic generator cannot populate.
func (e *c04Env) fill(v reflect.Value, path string) {
	h := c04Hint(e, path)
	t := v.Type()
	if c04Opaque(t) {
		e.fillOpaque(v, path, h)
		return
	}
	switch t.Kind() {
	case reflect.Bool:
		v.SetBool(e.src.flag())
	case reflect.Int, reflect.Int8, reflect.Int16, reflect.Int32, reflect.Int64:
		min, max := int64(c04I32Min), int64(c04I32Max)
		switch t.Kind() {
		case reflect.Int8:
			min, max = math.MinInt8, math.MaxInt8
		case reflect.Int16:
			min, max = math.MinInt16, math.MaxInt16
		case reflect.Int64:
			min, max = math.MinInt64, math.MaxInt64
		}
		if h.hasRange {
			min, max = h.min, h.max
		}
		v.SetInt(e.src.i64(min, max))
	case reflect.Uint8, reflect.Uint16, reflect.Uint32, reflect.Uint64:
		min, max := int64(0), int64(255)
		switch t.Kind() {
		case reflect.Uint16:
			max = math.MaxUint16
		case reflect.Uint32:
			max = math.MaxUint32
		case reflect.Uint64:
			max = math.MaxInt64
		}
		if h.hasRange {
			min, max = h.min, h.max
		}
		v.SetUint(uint64(e.src.i64(min, max)))
	case reflect.Float32:
		f := []float32{0, float32(math.Copysign(0, -1)), 1, -1, 0.5, math.MaxFloat32, float32(math.Inf(1)), math.SmallestNonzeroFloat32}
		k := e.src.n(len(f) + 4)
		if k < len(f) {
			v.Set(reflect.ValueOf(f[k]).Convert(t))
		} else {
			x := math.Float32frombits(uint32(e.src.u64()))
			if x != x {
				x = 2.5
			}
			v.Set(reflect.ValueOf(x).Convert(t))
		}
	case reflect.Float64:
		x := math.Float64frombits(e.src.u64())
		if x != x {
			x = 2.5
		}
		v.SetFloat(x)
	case reflect.String:
		max := h.maxLen
		if max < 0 {
			max = 32767
		}
		v.SetString(e.str(h.minLen, max, h.safe))
	case reflect.Array:
		for i := 0; i < v.Len(); i++ {
			e.fill(v.Index(i), path+"[]")
		}
	case reflect.Slice:
		max := h.maxLen
		if max < 0 {
			max = 4
		}
		n := h.minLen + e.src.n(max-h.minLen+1)
		if n > 6 && h.maxLen > 6 {
			// keep element counts small except for the documented boundary itself
			if e.src.chance(1, 8) {
				n = max
			} else {
				n = h.minLen + e.src.n(5)
				if n > max {
					n = max
				}
			}
		}
		if n == 0 {
			if e.src.flag() {
				v.Set(reflect.MakeSlice(t, 0, 0))
			}
			return
		}
		sl := reflect.MakeSlice(t, n, n)
		for i := 0; i < n; i++ {
			e.fill(sl.Index(i), path+"[]")
		}
		v.Set(sl)
	case reflect.Map:
		max := h.maxLen
		if max < 0 {
			max = 3
		}
		n := e.src.n(max + 1)
		if n > 4 {
			if e.src.chance(1, 8) {
				n = max
			} else {
				n = e.src.n(4)
			}
		}
		if n == 0 && e.src.flag() {
			return
		}
		m := reflect.MakeMapWithSize(t, n)
		for i := 0; i < n; i++ {
			k := reflect.New(t.Key()).Elem()
			e.fill(k, path+"{key}")
			if t.Key().Kind() == reflect.String {
				// distinct keys
				s := k.String()
				kh := c04Hint(e, path+"{key}")
				suffix := fmt.Sprintf("%d", i)
				if kh.maxLen >= 0 && len([]rune(s))+len(suffix) > kh.maxLen {
					r := []rune(s)
					cut := kh.maxLen - len(suffix)
					if cut < 0 {
						cut = 0
					}
					if cut < len(r) {
						s = string(r[:cut])
					}
				}
				k.SetString(s + suffix)
			}
			val := reflect.New(t.Elem()).Elem()
			e.fill(val, path+"{}")
			m.SetMapIndex(k, val)
		}
		if m.Len() >= 2 {
			e.label("map>=2")
		}
		v.Set(m)
	case reflect.Ptr:
		if h.isNil || (!h.nonNil && e.src.chance(1, 3)) {
			return
		}
		e.label("optional-present")
		n := reflect.New(t.Elem())
		if t.Elem().Kind() == reflect.Struct && !c04Opaque(t.Elem()) {
			e.fill(n.Elem(), path)
		} else {
			e.fill(n.Elem(), path+"*")
		}
		v.Set(n)
	case reflect.Struct:
		for i := 0; i < t.NumField(); i++ {
			f := t.Field(i)
			if !f.IsExported() {
				continue
			}
			sub := path + "." + f.Name
			if f.Type.Kind() == reflect.Ptr && f.Type.Elem().Kind() == reflect.Struct && !c04Opaque(f.Type) {
				// pointer to struct: hint on the pointer path, fields below use the same path
				hp := c04Hint(e, sub)
				fv := v.Field(i)
				if hp.isNil || (!hp.nonNil && e.src.chance(1, 3)) {
					continue
				}
				e.label("optional-present")
				n := reflect.New(f.Type.Elem())
				e.fill(n.Elem(), sub)
				fv.Set(n)
				continue
			}
			e.fill(v.Field(i), sub)
		}
	case reflect.Interface:
		e.noGen(path, t)
	default:
		e.noGen(path, t)
	}
}

func (e *c04Env) noGen(path string, t reflect.Type) {
	e.label("no-generator:" + e.c.Type.String())
	if e.genErr == nil {
		e.genErr = fmt.Errorf("no generator for %s of type %s", path, t)
		e.genKey = "no-generator:" + e.c.Type.String()
	}
}

// c04Build constructs a packet value of the registration's type from entropy.
func c04Build(c c04Combo, entropy []byte, wide bool) (proto.Packet, *c04Env) {
	return c04BuildLen(c, entropy, wide, 0)
}

// c04BuildLen: dataLen > 0 forces the length of a plugin message payload (the
// boundary sweep over the 1.7 extended-short length prefix).
func c04BuildLen(c c04Combo, entropy []byte, wide bool, dataLen int) (proto.Packet, *c04Env) {
	e := &c04Env{src: &c04Src{b: entropy}, c: c, labels: map[string]bool{}, wide: wide, dataLen: dataLen}
	pv := reflect.New(c.Type)
	e.fill(pv.Elem(), c.Type.Name())
	p := pv.Interface().(proto.Packet)
	e.fix(p)
	return p, e
}
