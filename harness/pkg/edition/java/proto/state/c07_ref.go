//go:build verif

package state

// C07 reference side ("refpackets"): vanilla wire-format decoders for the packets
// the proxy builds itself, written from the vanilla protocol (not from gate's
// encoders) on top of verifkit's refwire primitives. Nothing in this file calls a
// gate Encode/Decode function. Protocol numbers are literal on purpose.

import (
	"bytes"
	"encoding/hex"
	"encoding/json"
	"fmt"
	"math"
	"sort"
	"strings"

	"go.minekube.com/gate/pkg/internal/verifkit"
)

const (
	c07P1_7_6   = 5
	c07P1_8     = 47
	c07P1_12_2  = 340
	c07P1_13    = 393
	c07P1_16    = 735
	c07P1_19    = 759
	c07P1_19_1  = 760
	c07P1_19_3  = 761
	c07P1_20_2  = 764
	c07P1_20_3  = 765
	c07P1_20_5  = 766
	c07P1_21    = 767
	c07P1_21_2  = 768
	c07P1_21_4  = 769
	c07P26_2    = 776
	c07NumActs  = 8
	c07ActAdd   = 0
	c07ActChat  = 1
	c07ActMode  = 2
	c07ActList  = 3
	c07ActLat   = 4
	c07ActName  = 5
	c07ActOrder = 6
	c07ActHat   = 7
)

var c07ActionNames = []string{"add_player", "initialize_chat", "update_game_mode", "update_listed", "update_latency", "update_display_name", "update_list_order", "update_hat"}

// c07Opts selects deliberately wrong reference variants that are only used to
// attribute a failure to a known root cause (never as the oracle).
type c07Opts struct {
	oneByteLen17 bool // read 1.7 array lengths as a single byte (low 8 bits of the length)
	apiOrder     bool // read upsert action data in the API order of the case
}

type c07Mismatch struct {
	Field     string
	Msg       string
	HexColour bool // the only problem found so far is a hex colour sent to a pre-1.16 client
}

func (m *c07Mismatch) Error() string { return m.Field + ": " + m.Msg }

func c07Bad(field, format string, args ...any) error {
	return &c07Mismatch{Field: field, Msg: fmt.Sprintf(format, args...)}
}

func c07EqStr(field, got, want string) error {
	if got != want {
		return c07Bad(field, "decoded %q, intended %q", c07Trunc(got), c07Trunc(want))
	}
	return nil
}

func c07EqInt(field string, got, want int64) error {
	if got != want {
		return c07Bad(field, "decoded %d, intended %d", got, want)
	}
	return nil
}

func c07EqBool(field string, got, want bool) error {
	if got != want {
		return c07Bad(field, "decoded %v, intended %v", got, want)
	}
	return nil
}

func c07EqBytes(field string, got, want []byte) error {
	if !bytes.Equal(got, want) {
		return c07Bad(field, "decoded %d bytes %s, intended %d bytes %s", len(got), c07Trunc(hex.EncodeToString(got)), len(want), c07Trunc(hex.EncodeToString(want)))
	}
	return nil
}

func c07Trunc(s string) string {
	if len(s) > 80 {
		return s[:80] + "..."
	}
	return s
}

func c07UUIDBytes(h string) [16]byte {
	var u [16]byte
	b, err := hex.DecodeString(h)
	if err != nil || len(b) != 16 {
		panic("c07: bad uuid hex " + h)
	}
	copy(u[:], b)
	return u
}

func c07Dashed(u [16]byte) string {
	h := hex.EncodeToString(u[:])
	return h[0:8] + "-" + h[8:12] + "-" + h[12:16] + "-" + h[16:20] + "-" + h[20:32]
}

func c07ReadUUID(r *verifkit.RefReader, field, wantHex string) error {
	got, err := r.UUID()
	if err != nil {
		return c07Bad(field, "%v", err)
	}
	if want := c07UUIDBytes(wantHex); got != want {
		return c07Bad(field, "decoded %x, intended %x", got, want)
	}
	return nil
}

func c07ReadString(r *verifkit.RefReader, field, want string) error {
	got, err := r.String()
	if err != nil {
		return c07Bad(field, "%v", err)
	}
	return c07EqStr(field, got, want)
}

func c07ReadVarInt(r *verifkit.RefReader, field string, want int64) error {
	got, err := r.VarInt()
	if err != nil {
		return c07Bad(field, "%v", err)
	}
	return c07EqInt(field, int64(got), want)
}

func c07ReadBool(r *verifkit.RefReader, field string, want bool) error {
	b, err := r.Byte()
	if err != nil {
		return c07Bad(field, "%v", err)
	}
	if b > 1 {
		return c07Bad(field, "boolean byte %#x", b)
	}
	return c07EqBool(field, b == 1, want)
}

func c07ReadByteArray(r *verifkit.RefReader, field string, want []byte) error {
	got, err := r.ByteArray()
	if err != nil {
		return c07Bad(field, "%v", err)
	}
	return c07EqBytes(field, got, want)
}

// c07ReadArray17 reads a 1.7 style array: unsigned short length; with extended
// (Forge) the high bit announces a third length byte.
func c07ReadArray17(r *verifkit.RefReader, o c07Opts, field string, want []byte, extended bool) error {
	var n int
	if o.oneByteLen17 {
		// attribution variant only: the length truncated to its low 8 bits
		b, err := r.Byte()
		if err != nil {
			return c07Bad(field, "%v", err)
		}
		if b != byte(len(want)) {
			return c07Bad(field, "one-byte length %d is not the low byte of %d", b, len(want))
		}
		if extended && len(want) > 0x7fff {
			hi, err := r.Byte()
			if err != nil || int(hi) != len(want)>>15 {
				return c07Bad(field, "extended length byte %d does not match %d", hi, len(want)>>15)
			}
		}
		n = len(want)
	} else if extended {
		v, err := r.ExtShort()
		if err != nil {
			return c07Bad(field, "%v", err)
		}
		n = v
	} else {
		v, err := r.U16()
		if err != nil {
			return c07Bad(field, "%v", err)
		}
		if v > math.MaxInt16 {
			return c07Bad(field, "negative short length %d", int16(v))
		}
		n = int(v)
	}
	got, err := r.Take(n)
	if err != nil {
		return c07Bad(field, "length prefix says %d bytes, only %d left", n, r.Remaining())
	}
	return c07EqBytes(field, got, want)
}

func c07ReadProps(r *verifkit.RefReader, field string, want []c07Prop) error {
	n, err := r.VarInt()
	if err != nil {
		return c07Bad(field, "%v", err)
	}
	if int(n) != len(want) {
		return c07Bad(field, "decoded %d properties, intended %d", n, len(want))
	}
	for i, p := range want {
		f := fmt.Sprintf("%s[%d]", field, i)
		if err := c07ReadString(r, f+".name", p.Name); err != nil {
			return err
		}
		if err := c07ReadString(r, f+".value", p.Value); err != nil {
			return err
		}
		if err := c07ReadBool(r, f+".signed", p.Signature != ""); err != nil {
			return err
		}
		if p.Signature != "" {
			if err := c07ReadString(r, f+".signature", p.Signature); err != nil {
				return err
			}
		}
	}
	return nil
}

// c07ReadKey reads profile public key data: expiry (epoch millis long), encoded
// key (byte array), key signature (byte array).
func c07ReadKey(r *verifkit.RefReader, field string, k *c07Key) error {
	exp, err := r.U64()
	if err != nil {
		return c07Bad(field+".expiry", "%v", err)
	}
	if err := c07EqInt(field+".expiry", int64(exp), k.Expiry); err != nil {
		return err
	}
	if err := c07ReadByteArray(r, field+".publicKey", c07PubKeyDER()); err != nil {
		return err
	}
	return c07ReadByteArray(r, field+".signature", k.Sig.Bytes())
}

// ---- minimal NBT reader (network form, nameless root)

func c07ReadNBTRoot(r *verifkit.RefReader) (any, error) {
	t, err := r.Byte()
	if err != nil {
		return nil, err
	}
	if t == 0 {
		return nil, fmt.Errorf("nbt: end tag as root")
	}
	return c07ReadNBTPayload(r, t, 0)
}

func c07NBTString(r *verifkit.RefReader) (string, error) {
	// modified UTF-8 equals UTF-8 for the generated domain (BMP without U+0000)
	return r.UTF()
}

func c07ReadNBTPayload(r *verifkit.RefReader, t byte, depth int) (any, error) {
	if depth > 64 {
		return nil, fmt.Errorf("nbt: too deep")
	}
	switch t {
	case 1:
		b, err := r.Byte()
		return int64(int8(b)), err
	case 2:
		v, err := r.U16()
		return int64(int16(v)), err
	case 3:
		v, err := r.U32()
		return int64(int32(v)), err
	case 4:
		v, err := r.U64()
		return int64(v), err
	case 5:
		v, err := r.U32()
		return float64(math.Float32frombits(v)), err
	case 6:
		v, err := r.U64()
		return math.Float64frombits(v), err
	case 7, 11, 12:
		n, err := r.U32()
		if err != nil {
			return nil, err
		}
		w := map[byte]int{7: 1, 11: 4, 12: 8}[t]
		b, err := r.Take(int(int32(n)) * w)
		return b, err
	case 8:
		return c07NBTString(r)
	case 9:
		et, err := r.Byte()
		if err != nil {
			return nil, err
		}
		n, err := r.U32()
		if err != nil {
			return nil, err
		}
		out := []any{}
		for i := 0; i < int(int32(n)); i++ {
			v, err := c07ReadNBTPayload(r, et, depth+1)
			if err != nil {
				return nil, err
			}
			out = append(out, v)
		}
		return out, nil
	case 10:
		out := map[string]any{}
		for {
			et, err := r.Byte()
			if err != nil {
				return nil, err
			}
			if et == 0 {
				return out, nil
			}
			name, err := c07NBTString(r)
			if err != nil {
				return nil, err
			}
			v, err := c07ReadNBTPayload(r, et, depth+1)
			if err != nil {
				return nil, err
			}
			if _, dup := out[name]; dup {
				return nil, fmt.Errorf("nbt: duplicate key %q", name)
			}
			out[name] = v
		}
	}
	return nil, fmt.Errorf("nbt: unknown tag type %d", t)
}

// ---- component normal form (what a vanilla client makes of the value)

type c07NormComp struct {
	Text  string
	Color string // "" = unset
	Bold  int    // 0 unset, 1 true, 2 false
	Extra []c07NormComp
}

var c07StyleKeys = []string{"italic", "underlined", "strikethrough", "obfuscated", "insertion", "clickEvent", "click_event", "hoverEvent", "hover_event", "font", "shadow_color", "translate", "keybind", "score", "selector", "nbt"}

// vanilla's sixteen named colours and their RGB values
var c07NamedRGB = map[string]string{
	"black": "#000000", "dark_blue": "#0000aa", "dark_green": "#00aa00", "dark_aqua": "#00aaaa",
	"dark_red": "#aa0000", "dark_purple": "#aa00aa", "gold": "#ffaa00", "gray": "#aaaaaa",
	"dark_gray": "#555555", "blue": "#5555ff", "green": "#55ff55", "aqua": "#55ffff",
	"red": "#ff5555", "light_purple": "#ff55ff", "yellow": "#ffff55", "white": "#ffffff",
}

// c07HexColour marks a "#rrggbb" colour sent to a client older than 1.16, which
// only knows colour names and silently drops anything else.
type c07HexColour struct{ Colour string }

func (e *c07HexColour) Error() string {
	return "colour " + e.Colour + " is not a colour name; clients before 1.16 ignore it"
}

// c07CanonColour maps a colour as a client of the given era understands it to
// its RGB form so that "red" and "#ff5555" (same rendering on 1.16+) compare equal.
func c07CanonColour(s string, hexOK bool) (string, error) {
	if rgb, ok := c07NamedRGB[s]; ok {
		return rgb, nil
	}
	if len(s) == 7 && s[0] == '#' {
		if !hexOK {
			return "", &c07HexColour{s}
		}
		return strings.ToLower(s), nil
	}
	return "", fmt.Errorf("unknown colour %q", s)
}

// c07Normalize interprets a decoded JSON/NBT value as a text component.
func c07Normalize(v any, hexOK bool) (c07NormComp, error) {
	switch x := v.(type) {
	case string:
		return c07NormComp{Text: x}, nil
	case []any:
		if len(x) == 0 {
			return c07NormComp{}, fmt.Errorf("empty component array")
		}
		first, err := c07Normalize(x[0], hexOK)
		if err != nil {
			return first, err
		}
		for _, e := range x[1:] {
			n, err := c07Normalize(e, hexOK)
			if err != nil {
				return first, err
			}
			first.Extra = append(first.Extra, n)
		}
		return first, nil
	case map[string]any:
		var out c07NormComp
		if t, ok := x[""]; ok && len(x) == 1 {
			return c07Normalize(t, hexOK) // NBT wrapper for primitives inside lists
		}
		t, ok := x["text"]
		if !ok {
			return out, fmt.Errorf("component without text: keys %v", c07Keys(x))
		}
		s, ok := t.(string)
		if !ok {
			return out, fmt.Errorf("text is %T", t)
		}
		out.Text = s
		if c, ok := x["color"]; ok {
			cs, ok := c.(string)
			if !ok {
				return out, fmt.Errorf("color is %T", c)
			}
			canon, err := c07CanonColour(cs, hexOK)
			if err != nil {
				return out, err
			}
			out.Color = canon
		}
		if b, ok := x["bold"]; ok {
			switch bv := b.(type) {
			case bool:
				out.Bold = map[bool]int{true: 1, false: 2}[bv]
			case int64: // NBT byte
				out.Bold = map[bool]int{true: 1, false: 2}[bv != 0]
			default:
				return out, fmt.Errorf("bold is %T", b)
			}
		}
		for _, k := range c07StyleKeys {
			if _, ok := x[k]; ok {
				return out, fmt.Errorf("unexpected component key %q", k)
			}
		}
		if e, ok := x["extra"]; ok {
			l, ok := e.([]any)
			if !ok {
				return out, fmt.Errorf("extra is %T", e)
			}
			for _, ev := range l {
				n, err := c07Normalize(ev, hexOK)
				if err != nil {
					return out, err
				}
				out.Extra = append(out.Extra, n)
			}
		}
		return out, nil
	}
	return c07NormComp{}, fmt.Errorf("component is %T", v)
}

func c07Keys(m map[string]any) []string {
	var k []string
	for s := range m {
		k = append(k, s)
	}
	sort.Strings(k)
	return k
}

func c07IntentComp(c *c07Comp) c07NormComp {
	out := c07NormComp{Text: c.Text, Color: c07NamedRGB[c.Color], Bold: c.Bold}
	if len(c.Color) == 7 && c.Color[0] == '#' {
		out.Color = strings.ToLower(c.Color) // an RGB colour (1.16+ viewers only)
	}
	for i := range c.Extra {
		out.Extra = append(out.Extra, c07IntentComp(&c.Extra[i]))
	}
	return out
}

func c07CompEqual(a, b c07NormComp) bool {
	if a.Text != b.Text || a.Color != b.Color || a.Bold != b.Bold || len(a.Extra) != len(b.Extra) {
		return false
	}
	for i := range a.Extra {
		if !c07CompEqual(a.Extra[i], b.Extra[i]) {
			return false
		}
	}
	return true
}

// c07ReadComponent reads a component as vanilla does: a JSON string before
// 1.20.3 (and always in the login state), a nameless NBT tag from 1.20.3.
func c07ReadComponent(r *verifkit.RefReader, field string, nbtForm bool, clientProtocol int, want *c07Comp) error {
	var val any
	if nbtForm {
		v, err := c07ReadNBTRoot(r)
		if err != nil {
			return c07Bad(field, "nbt: %v", err)
		}
		val = v
	} else {
		s, err := r.String()
		if err != nil {
			return c07Bad(field, "%v", err)
		}
		if len(s) > 262144 {
			return c07Bad(field, "json longer than vanilla's 262144 limit")
		}
		dec := json.NewDecoder(strings.NewReader(s))
		if err := dec.Decode(&val); err != nil {
			return c07Bad(field, "json: %v in %q", err, c07Trunc(s))
		}
		if dec.More() {
			return c07Bad(field, "trailing data after json in %q", c07Trunc(s))
		}
	}
	got, err := c07Normalize(val, clientProtocol >= c07P1_16)
	if err != nil {
		if hc, ok := err.(*c07HexColour); ok {
			return &c07Mismatch{Field: field, Msg: hc.Error(), HexColour: true}
		}
		return c07Bad(field, "%v", err)
	}
	if want := c07IntentComp(want); !c07CompEqual(got, want) {
		return c07Bad(field, "decoded component %+v, intended %+v", got, want)
	}
	return nil
}

// ---- per packet decoders. Each reads gate's payload (after the packet id) and
// compares with the intent recorded in the case.

// c07ModernChannel is Velocity's/BungeeCord's documented legacy->modern channel
// mapping for the names the generator produces on 1.13+ connections.
func c07ModernChannel(name string) string {
	if strings.Contains(name, ":") {
		return name
	}
	switch name {
	case "REGISTER":
		return "minecraft:register"
	case "UNREGISTER":
		return "minecraft:unregister"
	case "MC|Brand":
		return "minecraft:brand"
	case "BungeeCord":
		return "bungeecord:main"
	}
	panic("c07: generator produced a legacy channel without a documented mapping: " + name)
}

func c07RefDecode(c *c07Case, payload []byte, o c07Opts) error {
	r := verifkit.NewRefReader(payload)
	p := c.Protocol
	var err error
	switch c.Kind {
	case "Handshake":
		err = c07First(
			func() error { return c07ReadVarInt(r, "protocolVersion", c.I1) },
			func() error { return c07ReadString(r, "serverAddress", c.S1) },
			func() error {
				v, err := r.U16()
				if err != nil {
					return c07Bad("port", "%v", err)
				}
				return c07EqInt("port", int64(v), c.I2)
			},
			func() error { return c07ReadVarInt(r, "nextState", c.I3) },
		)
	case "StatusRequest", "LoginAcknowledged":
		// no fields
	case "StatusResponse":
		err = c07ReadString(r, "json", c.S1)
	case "StatusPing":
		var v uint64
		if v, err = r.U64(); err == nil {
			err = c07EqInt("payload", int64(v), c.I1)
		}
	case "ServerLogin":
		err = c07RefServerLogin(r, c)
	case "ServerLoginSuccess":
		err = c07RefLoginSuccess(r, c)
	case "EncryptionRequest":
		err = c07ReadString(r, "serverId", c.S1)
		if err == nil {
			if p >= c07P1_8 {
				err = c07First(
					func() error { return c07ReadByteArray(r, "publicKey", c.D1.Bytes()) },
					func() error { return c07ReadByteArray(r, "verifyToken", c.D2.Bytes()) },
				)
				if err == nil && p >= c07P1_20_5 {
					err = c07ReadBool(r, "shouldAuthenticate", !c.B1)
				}
			} else {
				err = c07First(
					func() error { return c07ReadArray17(r, o, "publicKey", c.D1.Bytes(), false) },
					func() error { return c07ReadArray17(r, o, "verifyToken", c.D2.Bytes(), false) },
				)
			}
		}
	case "EncryptionResponse":
		if p >= c07P1_8 {
			err = c07ReadByteArray(r, "sharedSecret", c.D1.Bytes())
			if err == nil && p >= c07P1_19 && p < c07P1_19_3 {
				// 1.19-1.19.2: boolean "has verify token"; false => salt + signature
				err = c07ReadBool(r, "hasVerifyToken", !c.HasSalt)
				if err == nil && c.HasSalt {
					var v uint64
					if v, err = r.U64(); err == nil {
						err = c07EqInt("salt", int64(v), c.I1)
					}
				}
			}
			if err == nil {
				err = c07ReadByteArray(r, "verifyTokenOrSignature", c.D2.Bytes())
			}
		} else {
			err = c07First(
				func() error { return c07ReadArray17(r, o, "sharedSecret", c.D1.Bytes(), false) },
				func() error { return c07ReadArray17(r, o, "verifyToken", c.D2.Bytes(), false) },
			)
		}
	case "SetCompression":
		err = c07ReadVarInt(r, "threshold", c.I1)
	case "LoginPluginMessage":
		err = c07First(
			func() error { return c07ReadVarInt(r, "messageId", c.I1) },
			func() error { return c07ReadString(r, "channel", c.S1) },
			func() error { return c07EqBytes("data", r.Rest(), c.D1.Bytes()) },
		)
	case "LoginPluginResponse":
		err = c07First(
			func() error { return c07ReadVarInt(r, "messageId", c.I1) },
			func() error { return c07ReadBool(r, "successful", c.B1) },
			func() error { return c07EqBytes("data", r.Rest(), c.D1.Bytes()) },
		)
	case "PluginMessage":
		ch := c.S1
		if p >= c07P1_13 {
			ch = c07ModernChannel(c.S1)
		}
		err = c07ReadString(r, "channel", ch)
		if err == nil {
			if p >= c07P1_8 {
				err = c07EqBytes("data", r.Rest(), c.D1.Bytes())
			} else {
				err = c07ReadArray17(r, o, "data", c.D1.Bytes(), true)
			}
		}
	case "Disconnect":
		nbtForm := p >= c07P1_20_3 && !strings.HasPrefix(c.Registry, "login/")
		err = c07ReadComponent(r, "reason", nbtForm, p, c.Comp)
	case "KeepAlive":
		switch {
		case p >= c07P1_12_2:
			var v uint64
			if v, err = r.U64(); err == nil {
				err = c07EqInt("id", int64(v), c.I1)
			}
		case p >= c07P1_8:
			err = c07ReadVarInt(r, "id", c.I1)
		default:
			var v uint32
			if v, err = r.U32(); err == nil {
				err = c07EqInt("id", int64(int32(v)), c.I1)
			}
		}
	case "Transfer":
		err = c07First(
			func() error { return c07ReadString(r, "host", c.S1) },
			func() error { return c07ReadVarInt(r, "port", c.I1) },
		)
	case "PlayerInfoRemove":
		err = c07ReadVarInt(r, "count", int64(len(c.UUIDs)))
		for i := 0; err == nil && i < len(c.UUIDs); i++ {
			err = c07ReadUUID(r, fmt.Sprintf("uuid[%d]", i), c.UUIDs[i])
		}
	case "PlayerInfoUpsert":
		err = c07RefUpsert(r, c, o)
	default:
		panic("c07: no reference decoder for kind " + c.Kind)
	}
	if err != nil {
		if _, ok := err.(*c07Mismatch); !ok {
			err = c07Bad("read", "%v", err)
		}
		return err
	}
	if r.Remaining() != 0 {
		return c07Bad("trailing", "%d bytes left after the last field: %s", r.Remaining(), c07Trunc(hex.EncodeToString(r.Rest())))
	}
	return nil
}

func c07First(steps ...func() error) error {
	for _, s := range steps {
		if err := s(); err != nil {
			return err
		}
	}
	return nil
}

// ServerboundHelloPacket / LoginStart.
func c07RefServerLogin(r *verifkit.RefReader, c *c07Case) error {
	p := c.Protocol
	if err := c07ReadString(r, "name", c.S1); err != nil {
		return err
	}
	if p >= c07P1_19 && p < c07P1_19_3 {
		// optional profile public key
		if err := c07ReadBool(r, "hasPublicKey", c.Key != nil); err != nil {
			return err
		}
		if c.Key != nil {
			if err := c07ReadKey(r, "publicKey", c.Key); err != nil {
				return err
			}
		}
	}
	switch {
	case p >= c07P1_20_2:
		return c07ReadUUID(r, "profileId", c.U1)
	case p >= c07P1_19_1:
		has := c.U1 != c07NilUUID
		if err := c07ReadBool(r, "hasProfileId", has); err != nil {
			return err
		}
		if has {
			return c07ReadUUID(r, "profileId", c.U1)
		}
	}
	return nil
}

const c07NilUUID = "00000000000000000000000000000000"

// ClientboundGameProfilePacket / LoginSuccess.
func c07RefLoginSuccess(r *verifkit.RefReader, c *c07Case) error {
	p := c.Protocol
	u := c07UUIDBytes(c.U1)
	switch {
	case p >= c07P1_16:
		// 1.16-1.18.2 send four ints, 1.19+ two longs: both are the 16 raw bytes
		if err := c07ReadUUID(r, "uuid", c.U1); err != nil {
			return err
		}
	case p >= c07P1_7_6:
		if err := c07ReadString(r, "uuid(dashed string)", c07Dashed(u)); err != nil {
			return err
		}
	default:
		if err := c07ReadString(r, "uuid(undashed string)", hex.EncodeToString(u[:])); err != nil {
			return err
		}
	}
	if err := c07ReadString(r, "username", c.S1); err != nil {
		return err
	}
	if p >= c07P1_19 {
		if err := c07ReadProps(r, "properties", c.Props); err != nil {
			return err
		}
	}
	if p == c07P1_20_5 || p == c07P1_21 {
		b, err := r.Byte()
		if err != nil {
			return c07Bad("strictErrorHandling", "%v", err)
		}
		if b > 1 {
			return c07Bad("strictErrorHandling", "boolean byte %#x", b)
		}
	}
	if p >= c07P26_2 {
		// 26.2 session id; layout taken from /repo/VELOCITY_SYNC.md (upstream
		// a7581821) - above my own protocol knowledge, see props/C07.json.
		if err := c07ReadUUID(r, "sessionId", c.U2); err != nil {
			return err
		}
	}
	return nil
}

// c07ActionsFor lists the canonical action indices that exist in protocol p.
func c07ActionsFor(p int) []int {
	n := 6
	if p >= c07P1_21_2 {
		n = 7
	}
	if p >= c07P1_21_4 {
		n = 8
	}
	out := make([]int, n)
	for i := range out {
		out[i] = i
	}
	return out
}

// ClientboundPlayerInfoUpdatePacket: EnumSet<Action> as fixed bitset
// (ceil(n/8) bytes), entry count, then per entry the uuid followed by each
// present action's data in enum (canonical) order.
func c07RefUpsert(r *verifkit.RefReader, c *c07Case, o c07Opts) error {
	p := c.Protocol
	nActs := len(c07ActionsFor(p))
	width := (nActs + 7) / 8
	bits, err := r.Take(width)
	if err != nil {
		return c07Bad("actions", "%v", err)
	}
	var present []int
	for i := 0; i < width*8; i++ {
		if bits[i/8]&(1<<uint(i%8)) != 0 {
			if i >= nActs {
				return c07Bad("actions", "bit %d set but protocol %d has only %d actions", i, p, nActs)
			}
			present = append(present, i)
		}
	}
	want := append([]int(nil), c.Actions...)
	sort.Ints(want)
	if fmt.Sprint(present) != fmt.Sprint(want) {
		return c07Bad("actions", "decoded action set %v, intended %v", present, want)
	}
	order := present
	if o.apiOrder {
		order = c.Actions
	}
	if err := c07ReadVarInt(r, "entryCount", int64(len(c.Entries))); err != nil {
		return err
	}
	for i := range c.Entries {
		e := &c.Entries[i]
		f := fmt.Sprintf("entry[%d]", i)
		if err := c07ReadUUID(r, f+".profileId", e.ID); err != nil {
			return err
		}
		for _, a := range order {
			af := f + "." + c07ActionNames[a]
			var err error
			switch a {
			case c07ActAdd:
				if err = c07ReadString(r, af+".name", e.Name); err == nil {
					err = c07ReadProps(r, af+".properties", e.Props)
				}
			case c07ActChat:
				if err = c07ReadBool(r, af+".present", e.Chat != nil); err == nil && e.Chat != nil {
					if err = c07ReadUUID(r, af+".sessionId", e.Chat.Session); err == nil {
						err = c07ReadKey(r, af+".key", &e.Chat.Key)
					}
				}
			case c07ActMode:
				err = c07ReadVarInt(r, af, int64(e.GameMode))
			case c07ActList:
				err = c07ReadBool(r, af, e.Listed)
			case c07ActLat:
				err = c07ReadVarInt(r, af, int64(e.Latency))
			case c07ActName:
				if err = c07ReadBool(r, af+".present", e.Display != nil); err == nil && e.Display != nil {
					err = c07ReadComponent(r, af, p >= c07P1_20_3, p, e.Display)
				}
			case c07ActOrder:
				err = c07ReadVarInt(r, af, int64(e.ListOrder))
			case c07ActHat:
				err = c07ReadBool(r, af, e.ShowHat)
			}
			if err != nil {
				return err
			}
		}
	}
	return nil
}
