//go:build verif

package state_test

// C04, sub-check "codec-path": the round trip through the real codec.Encoder and
// codec.Decoder. The main C04 check calls Encode/Decode of the packet types with
// a PacketContext it builds itself (the way the codec is documented to build it);
// this sub-check closes that gap: the same generated packet values are written
// with Encoder.WritePacket, the frame is taken apart with the reference framing,
// its packet id must be the registered one and its body identical to the directly
// encoded body, and Decoder.Decode must hand back a known packet of that type.

import (
	"bytes"
	"reflect"
	"testing"

	"github.com/go-logr/logr"
	"pgregory.net/rapid"

	"go.minekube.com/gate/pkg/edition/java/proto/codec"
	"go.minekube.com/gate/pkg/internal/verifkit"
)

func c04cRun(c c04Case) verifkit.Result {
	combo, ok := c04FindCombo(c.State, c.Dir, c.Proto, c.Type)
	if !ok {
		return verifkit.Result{Labels: []string{"unregistered-combination"}}
	}
	p, env := c04BuildLen(combo, c.Entropy, c.Wide, c.DataLen)
	if env.genErr != nil {
		return verifkit.Result{Labels: []string{"generator-error"}}
	}
	direct, err := c04Encode(combo, p)
	if err != nil {
		return verifkit.Result{Labels: []string{"not-encodable"}}
	}
	if len(direct) > 1<<20 {
		return verifkit.Result{Labels: []string{"too-large-for-this-sub-check"}}
	}
	var wire bytes.Buffer
	enc := codec.NewEncoder(&wire, combo.Dir, logr.Discard())
	enc.SetProtocol(combo.Proto)
	enc.SetState(c05Registry(c.State))
	var werr error
	var panicked any
	func() {
		defer func() { panicked = recover() }()
		_, werr = enc.WritePacket(p)
	}()
	if panicked != nil {
		return verifkit.Fail("codec-path:encoder-panic", "%s %s proto=%d: Encoder.WritePacket panicked: %v", combo.Type, combo.Dir, combo.Proto, panicked)
	}
	if werr != nil {
		return verifkit.Fail("codec-path:encoder-error", "%s %s proto=%d: the packet encodes directly (%d bytes) but Encoder.WritePacket failed: %v", combo.Type, combo.Dir, combo.Proto, len(direct), werr)
	}
	r := verifkit.NewRefReader(wire.Bytes())
	payload, ferr := verifkit.RefReadFrame(r, -1, 1<<21)
	if ferr != nil || r.Remaining() != 0 {
		return verifkit.Fail("codec-path:frame", "%s: Encoder.WritePacket wrote %d bytes that are not exactly one frame (%v, %d left)", combo.Type, wire.Len(), ferr, r.Remaining())
	}
	pr := verifkit.NewRefReader(payload)
	id, ierr := pr.VarInt()
	if ierr != nil || int(id) != int(combo.ID) {
		return verifkit.Fail("codec-path:packet-id", "%s %s proto=%d: frame carries packet id %#x (%v), registered id is %#x", combo.Type, combo.Dir, combo.Proto, id, ierr, int(combo.ID))
	}
	body := payload[pr.Pos:]
	hasMap := c04HasMap(combo.Type, map[reflect.Type]bool{})
	// (an unsigned KeyedPlayerChat carries time.Now() as its timestamp, as Velocity
	// does: blanked on both sides, like in the main check)
	body, direct = c04Mask(p, body), c04Mask(p, direct)
	if !bytes.Equal(body, direct) && !(hasMap && len(body) == len(direct) && c04SameMultiset(body, direct)) {
		return verifkit.Fail("codec-path:body-differs", "%s %s %s proto=%d id=%#x: Encoder.WritePacket wrote body %s, encoding with the documented context gives %s", combo.Type, combo.State, combo.Dir, combo.Proto, int(combo.ID), c04Q(string(c04Head(body))), c04Q(string(c04Head(direct))))
	}
	dec := c05Decoder(c05Case{State: c.State, Dir: c.Dir, Proto: c.Proto, Order: "real"}, wire.Bytes())
	ctx, derr := dec.Decode()
	if derr != nil {
		return verifkit.Fail("codec-path:decoder-error", "%s %s %s proto=%d: the proxy's own decoder rejects what its encoder wrote: %v", combo.Type, combo.State, combo.Dir, combo.Proto, derr)
	}
	if ctx == nil || !ctx.KnownPacket() {
		return verifkit.Fail("codec-path:decoder-unknown", "%s %s proto=%d id=%#x: the decoder does not recognise the packet its encoder wrote", combo.Type, combo.Dir, combo.Proto, int(combo.ID))
	}
	if got := reflect.TypeOf(ctx.Packet); got == nil || got.Elem() != combo.Type {
		return verifkit.Fail("codec-path:decoder-type", "%s %s proto=%d id=%#x: the decoder hands back a %v", combo.Type, combo.Dir, combo.Proto, int(combo.ID), got)
	}
	// (value equality of the decoded packet is the main check's subject: same Decode, same bytes)
	return verifkit.Result{NonTrivial: len(direct) > 0, Labels: []string{"type:" + combo.Type.String()}}
}

func TestVerif_C04Codec(t *testing.T) {
	combos := c04Combos()
	verifkit.Check(t, "C04", "codec-path",
		"packet values of the C04 generator for every registered (state, direction, protocol, type), written with the real codec.Encoder.WritePacket (protocol and state set as the connection does) and read back with the real codec.Decoder; oracle: exactly one frame, registered packet id, body identical to the direct encoding with the documented PacketContext, decoder accepts it as a known packet of the same type; non-trivial = non-empty body",
		func(rt *rapid.T) c04Case {
			hb := rapid.SliceOfN(rapid.Byte(), 4, 4).Draw(rt, "registration")
			h := uint32(2166136261)
			for _, x := range hb {
				h = (h ^ uint32(x)) * 16777619
			}
			h ^= h >> 15
			combo := combos[int(h%uint32(len(combos)))]
			return c04CaseOf(combo, c04EntropyGen.Draw(rt, "entropy"), rapid.Bool().Draw(rt, "wide"))
		}, c04cRun)
}

// TestVerif_C06Wire: the same path judged for C06 - the id that reaches the wire
// through the real Encoder is the registered id (a table that is right while the
// encoder writes another id would not help a client).
func TestVerif_C06Wire(t *testing.T) {
	combos := c04Combos()
	verifkit.Check(t, "C06", "wire-id",
		"every registered (state, direction, protocol, type) - sampled - written with the real codec.Encoder.WritePacket; oracle: the VarInt at the start of the frame's payload is the id the registry lists for that type, and codec.Decoder maps it back to the same type (plus the body agreement of C04's codec-path); non-trivial = non-empty body",
		func(rt *rapid.T) c04Case {
			hb := rapid.SliceOfN(rapid.Byte(), 4, 4).Draw(rt, "registration")
			h := uint32(2166136261)
			for _, x := range hb {
				h = (h ^ uint32(x)) * 16777619
			}
			h ^= h >> 15
			combo := combos[int(h%uint32(len(combos)))]
			// ids of 0x80 and above need two VarInt bytes: make sure they are sampled
			if rapid.IntRange(0, 3).Draw(rt, "highId") == 0 {
				var high []int
				for i, cb := range combos {
					if int(cb.ID) >= 0x80 {
						high = append(high, i)
					}
				}
				if len(high) > 0 {
					combo = combos[high[int(h%uint32(len(high)))]]
				}
			}
			return c04CaseOf(combo, c04EntropyGen.Draw(rt, "entropy"), false)
		}, c04cRun)
}
