//go:build verif

package lite

// C31: once a Lite route is chosen, the backend receives an optional PROXY
// protocol header carrying the client's real address, then the client's
// handshake exactly as sent (unless virtual-host rewriting or TCPShield real-IP
// applies), then every further client byte unchanged; the client receives every
// backend byte unchanged.
//
// Rig: real loopback TCP. A client socket dials a listener; the accepted socket
// is wrapped in the real netmc.MinecraftConn whose handshake-state session
// handler mirrors the Lite branch of proxy.handshakeSessionHandler.handleHandshake
// (SetProtocol, SetState(Login), lite.Forward) so that the handshake is decoded
// by the real frame decoder and Forward gets the real PacketContext. The backend
// is a loopback listener that records every byte until EOF.
//
// Status intent is excluded by construction: the real caller invokes Forward only
// for next-state Login (intents 2 and 3); status goes through
// ResolveStatusResponse (C32's subject).
//
// End of data is established without timing: the backend half-closes after its
// last byte; the harness waits for Forward's own "done copying backend -> client"
// log statement (observation point only), then the client half-closes, Forward
// returns and closes both sockets, and both harness ends read until EOF.

import (
	"bufio"
	"bytes"
	"context"
	"errors"
	"fmt"
	"io"
	"net"
	"runtime/debug"
	"strconv"
	"strings"
	"sync"
	"testing"
	"time"

	"github.com/go-logr/logr"
	"github.com/pires/go-proxyproto"
	"pgregory.net/rapid"

	"go.minekube.com/gate/pkg/edition/java/lite/config"
	"go.minekube.com/gate/pkg/edition/java/netmc"
	"go.minekube.com/gate/pkg/edition/java/proto/packet"
	"go.minekube.com/gate/pkg/edition/java/proto/state"
	"go.minekube.com/gate/pkg/gate/proto"
	"go.minekube.com/gate/pkg/internal/verifkit"
)

const (
	c31Watchdog    = 20 * time.Second
	c31DialTimeout = 5 * time.Second
	c31MaxWrites   = 384
	c31MsgB2CDone  = "done copying backend -> client"
)

// ---------------------------------------------------------------- case

type c31Stream struct {
	Seed uint64 `json:"seed"`
	Len  int    `json:"len"`
	Kind string `json:"kind"` // random | zeros | counter | frames | proxysig
}

type c31Case struct {
	// handshake as the client sends it
	Address  string `json:"address"` // host[///ip:port///ts[///sig]][\0FMLx\0]
	Protocol int32  `json:"protocol"`
	Port     uint16 `json:"port"`
	Next     int32  `json:"next"`     // 2 login, 3 transfer
	Pad      int    `json:"pad"`      // 0 = minimal VarInts; n>0 = VarInts padded to n bytes where possible
	Trailing []byte `json:"trailing"` // extra bytes inside the handshake frame behind next-state

	// route table
	Pattern           string `json:"pattern"` // host pattern of the chosen route (constructed to match)
	ExtraHost         bool   `json:"extra_host"`
	Decoys            int    `json:"decoys"`       // never-matching routes in front
	BackendHost       string `json:"backend_host"` // 127.0.0.1 | localhost | ::1
	DeadFirst         bool   `json:"dead_first"`   // a refusing backend listed before the live one
	Strategy          string `json:"strategy"`
	ProxyProtocol     bool   `json:"proxy_protocol"`
	ModifyVirtualHost bool   `json:"modify_virtual_host"`
	TCPShieldRealIP   bool   `json:"tcpshield_real_ip"`
	LegacyRealIP      bool   `json:"legacy_real_ip"` // deprecated `realIP` spelling of the same option
	ClientV6          bool   `json:"client_v6"`

	// byte streams
	C2S       c31Stream `json:"c2s"`
	S2C       c31Stream `json:"s2c"`
	Pipelined int       `json:"pipelined"` // C2S bytes written in the same TCP write as the handshake
	HsSplit   int       `json:"hs_split"`  // >0: the handshake frame itself is split at this offset
	C2SChunks []int     `json:"c2s_chunks"`
	S2CChunks []int     `json:"s2c_chunks"`
}

func c31Bytes(s c31Stream) []byte {
	out := make([]byte, s.Len)
	x := s.Seed
	next := func() uint64 { // splitmix64, seeded from the rapid-drawn seed
		x += 0x9e3779b97f4a7c15
		z := x
		z = (z ^ (z >> 30)) * 0xbf58476d1ce4e5b9
		z = (z ^ (z >> 27)) * 0x94d049bb133111eb
		return z ^ (z >> 31)
	}
	fillRandom := func(b []byte) {
		for i := 0; i < len(b); i += 8 {
			v := next()
			for j := 0; j < 8 && i+j < len(b); j++ {
				b[i+j] = byte(v >> (8 * uint(j)))
			}
		}
	}
	switch s.Kind {
	case "zeros":
	case "counter":
		for i := range out {
			out[i] = byte(i) ^ byte(i>>8) ^ byte(i>>16)
		}
	case "frames": // looks like a sequence of Minecraft frames
		fillRandom(out)
		for i := 0; i < len(out); {
			n := int(next()%300) + 1
			if n > 127 {
				if i+1 >= len(out) {
					break
				}
				out[i] = byte(n&0x7f) | 0x80
				out[i+1] = byte(n >> 7)
				i += 2 + n
			} else {
				out[i] = byte(n)
				i += 1 + n
			}
		}
	case "proxysig": // payload that itself starts like a PROXY v2 header
		fillRandom(out)
		copy(out, proxyproto.SIGV2)
	default:
		fillRandom(out)
	}
	return out
}

// ---------------------------------------------------------------- reference handshake codec (from the protocol description)

func c31VarInt(v int32, pad int) []byte {
	b := verifkit.RefVarInt(v)
	for len(b) < pad && len(b) < 5 {
		b[len(b)-1] |= 0x80
		b = append(b, 0x00)
	}
	return b
}

func c31EncodeHandshake(c c31Case) (payload []byte) {
	payload = append(payload, c31VarInt(0, c.Pad)...) // packet id 0x00
	payload = append(payload, c31VarInt(c.Protocol, c.Pad)...)
	payload = append(payload, c31VarInt(int32(len(c.Address)), c.Pad)...)
	payload = append(payload, c.Address...)
	payload = append(payload, verifkit.RefU16(c.Port)...)
	payload = append(payload, c31VarInt(c.Next, c.Pad)...)
	payload = append(payload, c.Trailing...)
	return payload
}

type c31Handshake struct {
	PacketID int32
	Protocol int32
	Address  string
	Port     uint16
	Next     int32
	Trailing []byte
}

func c31DecodeHandshake(payload []byte) (h c31Handshake, err error) {
	r := verifkit.NewRefReader(payload)
	if h.PacketID, err = r.VarInt(); err != nil {
		return h, fmt.Errorf("packet id: %w", err)
	}
	if h.Protocol, err = r.VarInt(); err != nil {
		return h, fmt.Errorf("protocol: %w", err)
	}
	n, err := r.VarInt()
	if err != nil {
		return h, fmt.Errorf("address length: %w", err)
	}
	b, err := r.Take(int(n))
	if err != nil {
		return h, fmt.Errorf("address: %w", err)
	}
	h.Address = string(b)
	if h.Port, err = r.U16(); err != nil {
		return h, fmt.Errorf("port: %w", err)
	}
	if h.Next, err = r.VarInt(); err != nil {
		return h, fmt.Errorf("next state: %w", err)
	}
	h.Trailing = r.Rest()
	return h, nil
}

// c31Split is the documented structure of the handshake address field:
// host [ "///" tcpshield parts ] [ NUL forge marker ... ].
func c31Split(addr string) (host, shield, forge string) {
	pre := addr
	if i := strings.IndexByte(addr, 0); i >= 0 {
		pre, forge = addr[:i], addr[i:]
	}
	host = pre
	if i := strings.Index(pre, "///"); i >= 0 {
		host, shield = pre[:i], pre[i:]
	}
	return
}

func c31Cleared(addr string) string {
	h, _, _ := c31Split(addr)
	return strings.Trim(h, ".")
}

// c31CheckAddress is the validity predicate for the address the backend received
// (got) given the address the client sent, for a route with at least one of the
// two rewrite options. It returns ("", "") when got is an allowed outcome.
//
// Documented rewrites (config.yml / lite.md / doc comments in util.go, forward.go):
//   - modifyVirtualHost: the virtual host is replaced by the backend address' host
//     (nothing to do when it already equals it, compared case-insensitively);
//   - tcpShieldRealIP: an address that uses the TCPShield real-IP format gets
//     "///<client ip:port>///<unix seconds>" for the connecting client. Whether
//     the parts the client sent are kept in front of it, and whether an address
//     without TCPShield parts is upgraded, is left open (both accepted).
//
// Everything else (Forge marker, dots around the host, TCPShield parts when the
// option is off) must be what the client sent.
func c31CheckAddress(sent, got string, mvh, ts bool, backendHost, clientAddr string) (key, msg string) {
	h0, s0, f0 := c31Split(sent)
	cleared0 := strings.Trim(h0, ".")
	// keys for deviations that are not a malformed real-IP suffix: by input class
	// when modifyVirtualHost is on (its rewrite runs over the whole address).
	otherKey := "rewrite:tcpShieldRealIP"
	if mvh {
		switch {
		case cleared0 == "" && sent != "":
			otherKey = "rewrite:modifyVirtualHost:empty-host"
		case cleared0 != "" && strings.Contains(s0+f0, cleared0):
			otherKey = "rewrite:modifyVirtualHost:host-text-recurs"
		default:
			otherKey = "rewrite:modifyVirtualHost"
		}
	}

	pre1, f1 := got, ""
	if i := strings.IndexByte(got, 0); i >= 0 {
		pre1, f1 = got[:i], got[i:]
	}
	// real-IP suffix at the end of the part in front of the Forge marker
	tsApplied := false
	if ts {
		want := "///" + clientAddr + "///"
		if i := strings.LastIndex(pre1, want); i >= 0 {
			tsStr := pre1[i+len(want):]
			if n, err := strconv.ParseInt(tsStr, 10, 64); err == nil && tsStr == strconv.FormatInt(n, 10) {
				now := time.Now().Unix()
				if n < now-900 || n > now+900 {
					return "rewrite:tcpShieldRealIP", fmt.Sprintf("real-IP timestamp %d is not the current time %d", n, now)
				}
				tsApplied = true
				pre1 = pre1[:i]
			}
		}
		if !tsApplied && s0 != "" {
			// distinguish "suffix missing" from "address mangled before the suffix was added"
			if mvh && otherKey != "rewrite:modifyVirtualHost" && !strings.Contains(got, "///") {
				return otherKey, "address lost its structure"
			}
			return "rewrite:tcpShieldRealIP", "address uses the TCPShield format and the option is on, but no well-formed ///<client address>///<unix seconds> was produced"
		}
	}
	if f1 != f0 {
		return otherKey, "Forge part of the address changed"
	}
	h1, s1 := pre1, ""
	if i := strings.Index(pre1, "///"); i >= 0 {
		h1, s1 = pre1[:i], pre1[i:]
	}
	if !(s1 == s0 || (tsApplied && s1 == "")) {
		return otherKey, "TCPShield parts sent by the client were altered"
	}
	hostOK := h1 == h0
	if mvh {
		hostOK = strings.Trim(h1, ".") == backendHost || (strings.EqualFold(cleared0, backendHost) && h1 == h0)
	}
	if !hostOK {
		return otherKey, "host part is not the documented one"
	}
	return "", ""
}

// ---------------------------------------------------------------- log sink (observation point only)

type c31LogState struct {
	mu      sync.Mutex
	lines   []string
	b2cDone chan struct{}
	once    sync.Once
}

type c31Sink struct {
	st   *c31LogState
	name string
	kv   []any
}

func (s *c31Sink) Init(logr.RuntimeInfo) {}
func (s *c31Sink) Enabled(int) bool      { return true }
func (s *c31Sink) record(prefix, msg string, kv []any) {
	s.st.mu.Lock()
	if len(s.st.lines) < 200 {
		s.st.lines = append(s.st.lines, fmt.Sprintf("%s%s %q %v", prefix, s.name, msg, kv))
	}
	s.st.mu.Unlock()
	if msg == c31MsgB2CDone {
		s.st.once.Do(func() { close(s.st.b2cDone) })
	}
}
func (s *c31Sink) Info(level int, msg string, kv ...any) {
	s.record("V"+strconv.Itoa(level)+" ", msg, kv)
}
func (s *c31Sink) Error(err error, msg string, kv ...any) {
	s.record("ERR ", msg, append([]any{"err", err}, kv...))
}
func (s *c31Sink) WithValues(kv ...any) logr.LogSink {
	return &c31Sink{st: s.st, name: s.name, kv: append(append([]any{}, s.kv...), kv...)}
}
func (s *c31Sink) WithName(n string) logr.LogSink {
	return &c31Sink{st: s.st, name: s.name + "/" + n, kv: s.kv}
}

func (st *c31LogState) dump() string {
	st.mu.Lock()
	defer st.mu.Unlock()
	return strings.Join(st.lines, "\n  ")
}

// ---------------------------------------------------------------- session handler mirroring the Lite branch of the real handshake handler

type c31Handler struct {
	conn   netmc.MinecraftConn
	routes []config.Route
	log    logr.Logger
	sm     *StrategyManager

	mu         sync.Mutex
	forwarded  int
	unexpected string
	panicVal   any
	panicStack string
}

func (h *c31Handler) HandlePacket(pc *proto.PacketContext) {
	hs, ok := pc.Packet.(*packet.Handshake)
	if !pc.KnownPacket() || !ok {
		h.mu.Lock()
		h.unexpected = fmt.Sprintf("unexpected packet %v", pc)
		h.mu.Unlock()
		_ = h.conn.Close()
		return
	}
	if hs.NextStatus != 2 && hs.NextStatus != 3 { // stateForProtocol(...) == state.Login
		h.mu.Lock()
		h.unexpected = fmt.Sprintf("harness generated next state %d", hs.NextStatus)
		h.mu.Unlock()
		_ = h.conn.Close()
		return
	}
	h.conn.SetProtocol(proto.Protocol(hs.ProtocolVersion))
	h.conn.SetState(state.Login)
	h.mu.Lock()
	h.forwarded++
	h.mu.Unlock()
	defer func() {
		if p := recover(); p != nil {
			h.mu.Lock()
			h.panicVal, h.panicStack = p, string(debug.Stack())
			h.mu.Unlock()
			_ = h.conn.Close()
		}
	}()
	Forward(c31DialTimeout, h.routes, h.log, h.conn, hs, pc, h.sm)
}
func (h *c31Handler) Disconnected() {}
func (h *c31Handler) Activated()    {}
func (h *c31Handler) Deactivated()  {}

// ---------------------------------------------------------------- helpers

func c31Listen(v6 bool) (net.Listener, bool, error) {
	if v6 {
		if ln, err := net.Listen("tcp", "[::1]:0"); err == nil {
			return ln, true, nil
		}
	}
	ln, err := net.Listen("tcp", "127.0.0.1:0")
	return ln, false, err
}

func c31WriteChunks(w io.Writer, data []byte, sizes []int) error {
	if len(data) == 0 {
		return nil
	}
	floor := 1 + len(data)/c31MaxWrites
	for i := 0; len(data) > 0; i++ {
		n := floor
		if len(sizes) > 0 && sizes[i%len(sizes)] > n {
			n = sizes[i%len(sizes)]
		}
		if n > len(data) {
			n = len(data)
		}
		if _, err := w.Write(data[:n]); err != nil {
			return err
		}
		data = data[n:]
	}
	return nil
}

func c31IsTimeout(err error) bool {
	var ne net.Error
	return errors.As(err, &ne) && ne.Timeout()
}

func c31Diff(got, want []byte) string {
	n := len(got)
	if len(want) < n {
		n = len(want)
	}
	first := -1
	for i := 0; i < n; i++ {
		if got[i] != want[i] {
			first = i
			break
		}
	}
	if first < 0 && len(got) != len(want) {
		first = n
	}
	clip := func(b []byte, at int) []byte {
		if at > len(b) {
			at = len(b)
		}
		end := at + 24
		if end > len(b) {
			end = len(b)
		}
		return b[at:end]
	}
	return fmt.Sprintf("got %d bytes, want %d bytes, first difference at offset %d (got %x.. want %x..)",
		len(got), len(want), first, clip(got, first), clip(want, first))
}

func c31SizeLabel(prefix string, n int) string {
	switch {
	case n == 0:
		return prefix + ":0"
	case n < 4096:
		return prefix + ":<4K"
	case n <= 65536:
		return prefix + ":4K-64K"
	default:
		return prefix + ":>64K"
	}
}

// ---------------------------------------------------------------- run

func c31Run(c c31Case) verifkit.Result {
	ResetPingCache()
	sm := NewStrategyManager()

	tsOpt := c.TCPShieldRealIP || c.LegacyRealIP
	payload := c31EncodeHandshake(c)
	frame := verifkit.RefFrame(payload, -1, 0)
	c2s := c31Bytes(c.C2S)
	s2c := c31Bytes(c.S2C)
	pipelined := c.Pipelined
	if pipelined > len(c2s) {
		pipelined = len(c2s)
	}
	if pipelined < 0 {
		pipelined = 0
	}

	inconclusive := func(why string) verifkit.Result {
		return verifkit.Result{Inconclusive: true, Labels: []string{"inconclusive:" + why}}
	}

	// --- listeners
	backendV6 := c.BackendHost == "::1"
	backendLn, gotV6, err := c31Listen(backendV6)
	if err != nil {
		return inconclusive("listen-backend")
	}
	defer backendLn.Close()
	backendHost := c.BackendHost
	if backendV6 && !gotV6 {
		backendHost = "127.0.0.1"
	}
	backendPort := backendLn.Addr().(*net.TCPAddr).Port
	backendAddr := net.JoinHostPort(backendHost, strconv.Itoa(backendPort))

	proxyLn, clientV6, err := c31Listen(c.ClientV6)
	if err != nil {
		return inconclusive("listen-proxy")
	}
	defer proxyLn.Close()

	// --- routes
	var routes []config.Route
	for i := 0; i < c.Decoys; i++ {
		routes = append(routes, config.Route{
			Host:    []string{fmt.Sprintf("#decoy-%d#.invalid", i)},
			Backend: []string{"127.0.0.1:1"},
			// a decoy with every option on: must have no influence
			ProxyProtocol: true, ModifyVirtualHost: true, TCPShieldRealIP: true,
		})
	}
	target := config.Route{
		Host:              []string{c.Pattern},
		Backend:           []string{backendAddr},
		ProxyProtocol:     c.ProxyProtocol,
		ModifyVirtualHost: c.ModifyVirtualHost,
		TCPShieldRealIP:   c.TCPShieldRealIP,
		RealIP:            c.LegacyRealIP,
		Strategy:          config.Strategy(c.Strategy),
	}
	if c.ExtraHost {
		target.Host = []string{"#other#.invalid", c.Pattern}
	}
	if c.DeadFirst {
		// port 1 is outside the ephemeral range: nothing listens, connect is refused
		target.Backend = []string{net.JoinHostPort(backendHost, "1"), backendAddr}
	}
	routes = append(routes, target)
	routes = append(routes, config.Route{Host: []string{"*"}, Backend: []string{"127.0.0.1:1"}})

	// --- connect the client and wrap the accepted socket like Proxy.HandleConn does
	cconn, err := net.DialTimeout("tcp", proxyLn.Addr().String(), c31Watchdog)
	if err != nil {
		return inconclusive("dial-proxy")
	}
	defer cconn.Close()
	_ = proxyLn.(*net.TCPListener).SetDeadline(time.Now().Add(c31Watchdog))
	pconn, err := proxyLn.Accept()
	if err != nil {
		return inconclusive("accept-proxy")
	}
	defer pconn.Close()
	_ = proxyLn.Close()
	_ = cconn.SetDeadline(time.Now().Add(3 * c31Watchdog))
	clientReal := cconn.LocalAddr().(*net.TCPAddr)

	logState := &c31LogState{b2cDone: make(chan struct{})}
	log := logr.New(&c31Sink{st: logState})
	ctx := logr.NewContext(context.Background(), log)
	mc, readLoop := netmc.NewMinecraftConn(ctx, pconn, proto.ServerBound, 3*c31Watchdog, 3*c31Watchdog, 1, nil)
	handler := &c31Handler{conn: mc, routes: routes, log: log.WithName("handshakeSession"), sm: sm}
	mc.SetActiveSessionHandler(state.Handshake, handler)

	var wg sync.WaitGroup
	loopDone := make(chan struct{})
	wg.Add(1)
	go func() {
		defer wg.Done()
		defer close(loopDone)
		readLoop()
	}()

	// --- backend
	var (
		backendGot      []byte
		backendReadErr  error
		backendWriteErr error
		backendAccepted bool
		backendExtra    int
	)
	backendDone := make(chan struct{})
	wg.Add(1)
	go func() {
		defer wg.Done()
		defer close(backendDone)
		bconn, err := backendLn.Accept()
		if err != nil {
			return
		}
		backendAccepted = true
		defer bconn.Close()
		_ = bconn.SetDeadline(time.Now().Add(3 * c31Watchdog))
		var iw sync.WaitGroup
		iw.Add(1)
		go func() {
			defer iw.Done()
			backendWriteErr = c31WriteChunks(bconn, s2c, c.S2CChunks)
			if backendWriteErr == nil {
				backendWriteErr = bconn.(*net.TCPConn).CloseWrite()
			}
		}()
		backendGot, backendReadErr = io.ReadAll(bconn)
		iw.Wait()
		// a second connection to the backend would be a protocol violation of its own
		_ = backendLn.(*net.TCPListener).SetDeadline(time.Now())
		for {
			x, err := backendLn.Accept()
			if err != nil {
				break
			}
			backendExtra++
			_ = x.Close()
		}
	}()

	// --- client
	var (
		clientGot      []byte
		clientReadErr  error
		clientWriteErr error
	)
	clientReadDone := make(chan struct{})
	clientWriteDone := make(chan struct{})
	wg.Add(2)
	go func() {
		defer wg.Done()
		defer close(clientReadDone)
		clientGot, clientReadErr = io.ReadAll(cconn)
	}()
	go func() {
		defer wg.Done()
		defer close(clientWriteDone)
		first := frame
		if c.HsSplit > 0 && c.HsSplit < len(frame) {
			if _, clientWriteErr = cconn.Write(frame[:c.HsSplit]); clientWriteErr != nil {
				return
			}
			first = frame[c.HsSplit:]
		}
		first = append(append([]byte{}, first...), c2s[:pipelined]...)
		if _, clientWriteErr = cconn.Write(first); clientWriteErr != nil {
			return
		}
		clientWriteErr = c31WriteChunks(cconn, c2s[pipelined:], c.C2SChunks)
	}()

	// --- wait until Forward reports that the backend -> client direction is complete
	// (or Forward is over), and the client has written everything; then half-close.
	timer := time.NewTimer(c31Watchdog)
	defer timer.Stop()
	timedOut := false
	select {
	case <-clientWriteDone:
	case <-timer.C:
		timedOut = true
	}
	if !timedOut {
		select {
		case <-logState.b2cDone:
		case <-loopDone:
		case <-timer.C:
			timedOut = true
		}
	}
	if !timedOut {
		_ = cconn.(*net.TCPConn).CloseWrite()
		select {
		case <-loopDone:
		case <-timer.C:
			timedOut = true
		}
	}
	if timedOut {
		// unblock everything, join, and report that the case could not be judged
		_ = cconn.Close()
		_ = mc.Close()
		_ = backendLn.Close()
	} else {
		select {
		case <-logState.b2cDone: // the copy goroutine inside pipe() has finished
		default:
			// Forward ended without ever piping (no route / no backend): make a still pending Accept return
			_ = backendLn.(*net.TCPListener).SetDeadline(time.Now())
		}
	}
	wg.Wait()
	if timedOut {
		return inconclusive("watchdog")
	}

	// ---------------------------------------------------------------- oracle
	handler.mu.Lock()
	panicVal, panicStack, unexpected, forwarded := handler.panicVal, handler.panicStack, handler.unexpected, handler.forwarded
	handler.mu.Unlock()
	if panicVal != nil {
		return verifkit.Fail("panic:Forward", "Forward panicked: %v\n%s", panicVal, panicStack)
	}
	if unexpected != "" || forwarded != 1 {
		return verifkit.Fail("precondition:handshake-not-decoded", "handshake did not reach Forward exactly once (forwarded=%d, %s)\nlog:\n  %s", forwarded, unexpected, logState.dump())
	}
	if !backendAccepted {
		return verifkit.Fail("precondition:route-not-forwarded", "Forward never connected to the route's backend (address %q pattern %q)\nlog:\n  %s", c.Address, c.Pattern, logState.dump())
	}
	for _, e := range []error{backendReadErr, clientReadErr, backendWriteErr, clientWriteErr} {
		if e != nil && c31IsTimeout(e) {
			return inconclusive("socket-deadline")
		}
	}
	if backendExtra != 0 {
		return verifkit.Fail("backend:extra-connection", "%d additional connections were opened to the backend", backendExtra)
	}

	labels := []string{}
	add := func(l string) { labels = append(labels, l) }

	// 1. optional PROXY header
	rest := backendGot
	if c.ProxyProtocol {
		br := bufio.NewReader(bytes.NewReader(backendGot))
		hdr, err := proxyproto.Read(br)
		if err != nil {
			return verifkit.Fail("proxy-header:absent-or-malformed", "route has proxyProtocol but the backend stream does not start with a PROXY header: %v; %s", err, c31Diff(backendGot, append(append([]byte{}, proxyproto.SIGV2...), 0x21)))
		}
		rest, _ = io.ReadAll(br)
		if hdr.Command != proxyproto.PROXY {
			return verifkit.Fail("proxy-header:not-proxy-command", "PROXY header command %v carries no client address", hdr.Command)
		}
		src, _, ok := hdr.TCPAddrs()
		if !ok {
			return verifkit.Fail("proxy-header:source-mismatch", "PROXY header has no TCP addresses: %+v", hdr)
		}
		if !src.IP.Equal(clientReal.IP) || src.Port != clientReal.Port {
			return verifkit.Fail("proxy-header:source-mismatch", "PROXY header source %v, client's real address %v", src, clientReal)
		}
		add(fmt.Sprintf("proxy-header:v%d", hdr.Version))
	} else if bytes.HasPrefix(backendGot, proxyproto.SIGV2) || bytes.HasPrefix(backendGot, []byte("PROXY ")) {
		return verifkit.Fail("proxy-header:unexpected", "route has no proxyProtocol but the backend stream starts with a PROXY header")
	}

	// 2. handshake frame
	rewriteApplied := false
	var after []byte
	if !c.ModifyVirtualHost && !tsOpt {
		if !bytes.HasPrefix(rest, frame) {
			return verifkit.Fail("handshake:not-identical", "no rewrite option on the route, handshake frame differs: %s", c31Diff(rest[:min(len(rest), len(frame))], frame))
		}
		after = rest[len(frame):]
	} else {
		rr := verifkit.NewRefReader(rest)
		gotPayload, err := verifkit.RefReadFrame(rr, -1, 0)
		if err != nil {
			return verifkit.Fail("handshake:undecodable", "backend stream after the header is not a frame: %v (%s)", err, c31Diff(rest, frame))
		}
		gotFrame := rest[:rr.Pos]
		after = rest[rr.Pos:]
		got, err := c31DecodeHandshake(gotPayload)
		if err != nil {
			return verifkit.Fail("handshake:undecodable", "forwarded handshake does not decode: %v; payload %x", err, gotPayload)
		}
		if got.PacketID != 0 || got.Protocol != c.Protocol || got.Port != c.Port || got.Next != c.Next {
			return verifkit.Fail("handshake:field-changed", "fields other than the address changed: got id=%d protocol=%d port=%d next=%d, sent id=0 protocol=%d port=%d next=%d",
				got.PacketID, got.Protocol, got.Port, got.Next, c.Protocol, c.Port, c.Next)
		}
		if key, msg := c31CheckAddress(c.Address, got.Address, c.ModifyVirtualHost, tsOpt, backendHost, clientReal.String()); key != "" {
			return verifkit.Fail(key, "%s: sent %q, backend got %q (modifyVirtualHost=%v tcpShieldRealIP=%v backend host %q client real address %v)",
				msg, c.Address, got.Address, c.ModifyVirtualHost, tsOpt, backendHost, clientReal)
		}
		if got.Address == c.Address {
			// no rewrite applied: the frame must be exactly the client's
			if !bytes.Equal(gotFrame, frame) {
				return verifkit.Fail("handshake:not-identical", "address unchanged (no rewrite applied) but the frame was re-encoded: %s", c31Diff(gotFrame, frame))
			}
		} else {
			rewriteApplied = true
			if len(got.Trailing) != 0 && !bytes.Equal(got.Trailing, c.Trailing) {
				return verifkit.Fail("handshake:field-changed", "trailing bytes of the rewritten handshake %x are neither empty nor the client's %x", got.Trailing, c.Trailing)
			}
		}
	}

	// 3. every further client byte
	if !bytes.Equal(after, c2s) {
		return verifkit.Fail("c2s:bytes-differ", "client -> backend bytes behind the handshake (pipelined %d): %s", pipelined, c31Diff(after, c2s))
	}
	// 4. every backend byte
	if !bytes.Equal(clientGot, s2c) {
		return verifkit.Fail("s2c:bytes-differ", "backend -> client bytes: %s", c31Diff(clientGot, s2c))
	}

	// ---------------------------------------------------------------- labels
	opts := ""
	if c.ProxyProtocol {
		opts += "+proxy"
	}
	if c.ModifyVirtualHost {
		opts += "+mvh"
	}
	if tsOpt {
		opts += "+ts"
	}
	if opts == "" {
		opts = "none"
	}
	add("opts:" + opts)
	if rewriteApplied {
		add("rewrite:applied")
	} else if c.ModifyVirtualHost || tsOpt {
		add("rewrite:option-on-not-applicable")
	}
	_, s0, f0 := c31Split(c.Address)
	if s0 != "" {
		add("addr:tcpshield")
	}
	if f0 != "" {
		add("addr:forge")
	}
	if strings.HasSuffix(strings.SplitN(c.Address, "\x00", 2)[0], ".") {
		add("addr:trailing-dot")
	}
	if c31Cleared(c.Address) == "" {
		add("addr:empty-host")
	}
	switch {
	case pipelined == 0:
		add("pipelined:0")
	case len(frame)+pipelined <= 4096:
		add("pipelined:within-read-buffer")
	default:
		add("pipelined:beyond-read-buffer")
	}
	if pipelined == len(c2s) && pipelined > 0 {
		add("pipelined:all")
	}
	add(c31SizeLabel("c2s", len(c2s)))
	add(c31SizeLabel("s2c", len(s2c)))
	if c.Pad > 0 {
		add("hs:padded-varints")
	}
	if len(c.Trailing) > 0 {
		add("hs:trailing-bytes")
	}
	if c.HsSplit > 0 && c.HsSplit < len(frame) {
		add("hs:split-write")
	}
	if c.Next == 3 {
		add("intent:transfer")
	} else {
		add("intent:login")
	}
	if c.DeadFirst {
		add("route:dead-backend-first")
	}
	if c.Decoys > 0 || c.ExtraHost {
		add("route:decoys")
	}
	fam := "c4"
	if clientV6 {
		fam = "c6"
	}
	if backendV6 && gotV6 {
		fam += "b6"
	} else {
		fam += "b4"
	}
	add("family:" + fam)
	if c.ClientV6 && !clientV6 || backendV6 && !gotV6 {
		add("family:v6-unavailable")
	}

	return verifkit.Result{
		NonTrivial: pipelined > 0 && (c.ProxyProtocol || c.ModifyVirtualHost || tsOpt),
		Labels:     labels,
	}
}

// ---------------------------------------------------------------- generator

var c31Label = rapid.StringMatching(`[a-z0-9]([a-z0-9-]{0,10}[a-z0-9])?`)

func c31GenStream(t *rapid.T, name string, max int) c31Stream {
	var n int
	switch rapid.IntRange(0, 9).Draw(t, name+"SizeClass") {
	case 0:
		n = 0
	case 1:
		n = rapid.IntRange(1, 64).Draw(t, name+"Len")
	case 2, 3:
		n = rapid.IntRange(65, 4000).Draw(t, name+"Len")
	case 4:
		n = rapid.IntRange(3800, 4400).Draw(t, name+"Len") // around the 4096-byte read buffer
	case 5, 6:
		n = rapid.IntRange(4401, 20000).Draw(t, name+"Len")
	case 7, 8:
		n = rapid.IntRange(20001, max).Draw(t, name+"Len")
	default: // close to the tier's maximum
		n = max - rapid.IntRange(0, 4096).Draw(t, name+"Len")
	}
	if n > max {
		n = max
	}
	return c31Stream{
		Seed: rapid.Uint64().Draw(t, name+"Seed"),
		Len:  n,
		Kind: rapid.SampledFrom([]string{"random", "random", "random", "counter", "zeros", "frames", "proxysig"}).Draw(t, name+"Kind"),
	}
}

func c31GenChunks(t *rapid.T, name string) []int {
	sizes := []int{1, 2, 7, 100, 1000, 1460, 4095, 4096, 4097, 16384, 65536, 262144}
	return rapid.SliceOfN(rapid.SampledFrom(sizes), 1, 6).Draw(t, name)
}

func c31FlipCase(t *rapid.T, s string, name string) string {
	mode := rapid.IntRange(0, 2).Draw(t, name)
	switch mode {
	case 1:
		return strings.ToUpper(s)
	case 2:
		b := []rune(s)
		for i := range b {
			if i%2 == 0 && b[i] >= 'a' && b[i] <= 'z' {
				b[i] -= 32
			}
		}
		return string(b)
	}
	return s
}

func c31Gen(t *rapid.T) c31Case {
	var c c31Case
	max := 64 << 10
	if verifkit.Thorough() {
		max = 256 << 10
	}

	// ---- route options
	c.ProxyProtocol = rapid.Bool().Draw(t, "proxyProtocol")
	c.ModifyVirtualHost = rapid.Bool().Draw(t, "modifyVirtualHost")
	switch rapid.IntRange(0, 4).Draw(t, "tcpShield") {
	case 2, 3:
		c.TCPShieldRealIP = true
	case 4:
		c.LegacyRealIP = true
	}
	c.BackendHost = rapid.SampledFrom([]string{"127.0.0.1", "127.0.0.1", "localhost", "::1"}).Draw(t, "backendHost")
	c.ClientV6 = rapid.IntRange(0, 3).Draw(t, "clientFamily") == 0
	c.DeadFirst = rapid.IntRange(0, 4).Draw(t, "deadFirst") == 0
	c.Strategy = rapid.SampledFrom([]string{"", "", "sequential", "round-robin", "least-connections", "lowest-latency"}).Draw(t, "strategy")
	c.Decoys = rapid.IntRange(0, 2).Draw(t, "decoys")
	c.ExtraHost = rapid.Bool().Draw(t, "extraHost")

	// ---- address: host
	var host string
	hostKind := rapid.IntRange(0, 9).Draw(t, "hostKind")
	switch hostKind {
	case 0: // the client already uses the backend's host name (modifyVirtualHost has nothing to do)
		host = c31FlipCase(t, c.BackendHost, "hostCase")
	case 1: // IPv4 literal
		host = fmt.Sprintf("%d.%d.%d.%d", rapid.IntRange(1, 254).Draw(t, "ip0"), rapid.IntRange(0, 255).Draw(t, "ip1"), rapid.IntRange(0, 255).Draw(t, "ip2"), rapid.IntRange(1, 254).Draw(t, "ip3"))
	case 2: // non-ASCII labels
		host = rapid.SampledFrom([]string{"münchen", "spiel.größe", "服务器", "играть"}).Draw(t, "idn") + ".example." + c31Label.Draw(t, "tld")
	case 3: // long
		n := rapid.IntRange(8, 18).Draw(t, "longLabels")
		parts := make([]string, n)
		for i := range parts {
			parts[i] = c31Label.Draw(t, "label")
		}
		host = strings.Join(parts, ".")
		if len(host) > 230 {
			host = host[:230]
			host = strings.TrimRight(host, ".-") + "x"
		}
	case 4: // empty host (client sends no name)
		host = ""
	default:
		n := rapid.IntRange(1, 4).Draw(t, "labels")
		parts := make([]string, n)
		for i := range parts {
			parts[i] = c31Label.Draw(t, "label")
		}
		host = c31FlipCase(t, strings.Join(parts, "."), "hostCase")
	}
	cleared := host
	hostPart := host
	if host != "" && rapid.IntRange(0, 4).Draw(t, "trailingDot") == 0 {
		hostPart = host + "." // FQDN spelling
	}

	// ---- address: TCPShield and Forge parts
	shield := ""
	if rapid.IntRange(0, 9).Draw(t, "shieldKind") < 4 {
		ip := fmt.Sprintf("%d.%d.%d.%d", rapid.IntRange(1, 223).Draw(t, "sip0"), rapid.IntRange(0, 255).Draw(t, "sip1"), rapid.IntRange(0, 255).Draw(t, "sip2"), rapid.IntRange(1, 254).Draw(t, "sip3"))
		if rapid.IntRange(0, 4).Draw(t, "shieldV6") == 0 {
			ip = "[2001:db8::" + strconv.FormatInt(int64(rapid.IntRange(1, 0xffff).Draw(t, "sip6")), 16) + "]"
		}
		shield = "///" + ip + ":" + strconv.Itoa(rapid.IntRange(1, 65535).Draw(t, "sport")) +
			"///" + strconv.Itoa(rapid.IntRange(1500000000, 1900000000).Draw(t, "sts"))
		if rapid.Bool().Draw(t, "shieldSig") {
			shield += "///" + rapid.StringMatching(`[A-Za-z0-9+]{20,88}={0,2}`).Draw(t, "sig")
		}
	}
	forge := rapid.SampledFrom([]string{"", "", "", "\x00FML\x00", "\x00FML2\x00", "\x00FML3\x00"}).Draw(t, "forge")
	c.Address = hostPart + shield + forge

	// ---- pattern of the chosen route: constructed to match the cleared host
	lc := strings.ToLower(cleared)
	runes := []rune(lc)
	patKind := rapid.IntRange(0, 4).Draw(t, "patternKind")
	if len(runes) == 0 {
		patKind = 1
	}
	switch patKind {
	case 0:
		c.Pattern = c31FlipCase(t, lc, "patternCase")
		if strings.ToLower(c.Pattern) != lc { // non-ASCII folding surprises: keep it exact
			c.Pattern = lc
		}
	case 1:
		c.Pattern = "*"
	case 2:
		i := rapid.IntRange(0, len(runes)).Draw(t, "patSuffixAt")
		c.Pattern = "*" + string(runes[i:])
	case 3:
		i := rapid.IntRange(0, len(runes)).Draw(t, "patPrefixAt")
		c.Pattern = string(runes[:i]) + "*"
	default:
		i := rapid.IntRange(0, len(runes)-1).Draw(t, "patQAt")
		r := append([]rune{}, runes...)
		r[i] = '?'
		c.Pattern = string(r)
	}

	// ---- remaining handshake fields
	c.Protocol = rapid.SampledFrom([]int32{4, 5, 47, 340, 498, 754, 758, 763, 765, 767, 769, 772, 0, -1, 99999, 0x40000001}).Draw(t, "protocol")
	c.Port = rapid.SampledFrom([]uint16{25565, 25565, 0, 1, 32767, 32768, 65535, 443}).Draw(t, "port")
	c.Next = rapid.SampledFrom([]int32{2, 2, 2, 3}).Draw(t, "next")
	if rapid.IntRange(0, 3).Draw(t, "padVarInts") == 0 {
		c.Pad = rapid.IntRange(2, 5).Draw(t, "pad")
	}
	if rapid.IntRange(0, 5).Draw(t, "trailingBytes") == 0 {
		c.Trailing = rapid.SliceOfN(rapid.Byte(), 1, 12).Draw(t, "trailing")
	}

	// ---- streams
	c.C2S = c31GenStream(t, "c2s", max)
	c.S2C = c31GenStream(t, "s2c", max)
	frameLen := len(verifkit.RefFrame(c31EncodeHandshake(c), -1, 0))
	switch rapid.IntRange(0, 9).Draw(t, "pipelinedClass") {
	case 0:
		c.Pipelined = 0
	case 1:
		c.Pipelined = 1
	case 2, 3:
		c.Pipelined = rapid.IntRange(1, 600).Draw(t, "pipelined")
	case 4, 5: // around the boundary of the connection's 4096-byte read buffer
		c.Pipelined = 4096 - frameLen + rapid.IntRange(-2, 2).Draw(t, "pipelinedEdge")
	case 6:
		c.Pipelined = rapid.IntRange(4097, 20000).Draw(t, "pipelined")
	default:
		c.Pipelined = c.C2S.Len
	}
	if c.Pipelined > c.C2S.Len {
		c.Pipelined = c.C2S.Len
	}
	if c.Pipelined < 0 {
		c.Pipelined = 0
	}
	if rapid.IntRange(0, 5).Draw(t, "splitHandshake") == 0 {
		c.HsSplit = rapid.IntRange(1, frameLen-1).Draw(t, "hsSplit")
	}
	c.C2SChunks = c31GenChunks(t, "c2sChunks")
	c.S2CChunks = c31GenChunks(t, "s2cChunks")
	return c
}

func TestVerif_C31(t *testing.T) {
	verifkit.Check(t, "C31", "forward",
		"login/transfer-intent handshakes (host kinds x TCPShield parts x Forge markers x protocol/port boundary values x padded VarInts x trailing bytes) x route options (proxyProtocol, modifyVirtualHost, tcpShieldRealIP/realIP, decoy routes, dead first backend, strategies, IPv4/IPv6 loopback) x byte streams both ways (0..64 KiB quick, 0..256 KiB thorough; bytes pipelined in the handshake's TCP write around the 4096-byte read buffer boundary; random chunking) through the real netmc connection + lite.Forward over loopback TCP; non-trivial = pipelined bytes present and at least one route option on",
		c31Gen, c31Run)
}
