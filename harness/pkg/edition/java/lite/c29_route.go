//go:build verif

package lite

import (
	"context"
	"fmt"
	"io"
	"net"
	"reflect"
	"strconv"
	"strings"
	"sync"
	"testing"
	"time"
	"unicode"
	"unicode/utf8"

	"github.com/go-logr/logr"
	"go.minekube.com/gate/pkg/edition/java/lite/config"
	"go.minekube.com/gate/pkg/edition/java/netmc"
	"go.minekube.com/gate/pkg/edition/java/proto/packet"
	"go.minekube.com/gate/pkg/gate/proto"
	"go.minekube.com/gate/pkg/internal/verifkit"
	"go.minekube.com/gate/pkg/util/netutil"
	"pgregory.net/rapid"
)

// C29: Lite routes the first route whose glob pattern matches the cleaned host;
// the text each wildcard matched replaces $1, $2, ... in the backend addresses;
// a host matching no route is closed without dialing.
//
// Oracle (independent of regexp): reference clean(), memoised glob matcher over
// case-folded runes, group *validity* predicate, single-pass reference
// substitution. Known-defect classification uses two alternative models
// (wildcards not matching '\n'; multi-pass descending substitution) ONLY to pick
// the key of an already established mismatch.

type c29Route struct {
	Hosts    []string `json:"hosts"`
	Backends []string `json:"backends"`
}

type c29Case struct {
	Host   string     `json:"host"`
	Routes []c29Route `json:"routes"`
}

// ---------------------------------------------------------------- reference

// c29RefClean: the virtual host up to the first Forge ("\x00...") or TCPShield
// ("///...") suffix, with surrounding dots removed.
func c29RefClean(raw string) string {
	cut := len(raw)
	if i := strings.Index(raw, "\x00"); i >= 0 && i < cut {
		cut = i
	}
	if i := strings.Index(raw, "///"); i >= 0 && i < cut {
		cut = i
	}
	s := raw[:cut]
	for len(s) > 0 && s[0] == '.' {
		s = s[1:]
	}
	for len(s) > 0 && s[len(s)-1] == '.' {
		s = s[:len(s)-1]
	}
	return s
}

func c29Fold(s string) []rune {
	rs := []rune(s)
	for i, r := range rs {
		rs[i] = unicode.ToLower(r)
	}
	return rs
}

// c29Glob reports whether folded pattern p matches folded host h entirely.
// nlOK=false is the alternative model in which a wildcard never matches '\n'
// (used for failure classification only).
func c29Glob(p, h []rune, nlOK bool) bool {
	// memo[i][j]: 0 unknown, 1 true, 2 false
	memo := make([][]uint8, len(p)+1)
	for i := range memo {
		memo[i] = make([]uint8, len(h)+1)
	}
	var rec func(i, j int) bool
	rec = func(i, j int) bool {
		if m := memo[i][j]; m != 0 {
			return m == 1
		}
		var res bool
		switch {
		case i == len(p):
			res = j == len(h)
		case p[i] == '*':
			// zero characters, or one more character then stay on the star
			res = rec(i+1, j) || (j < len(h) && (nlOK || h[j] != '\n') && rec(i, j+1))
		case p[i] == '?':
			res = j < len(h) && (nlOK || h[j] != '\n') && rec(i+1, j+1)
		default:
			res = j < len(h) && h[j] == p[i] && rec(i+1, j+1)
		}
		if res {
			memo[i][j] = 1
		} else {
			memo[i][j] = 2
		}
		return res
	}
	return rec(0, 0)
}

func c29Wildcards(p string) int { return strings.Count(p, "*") + strings.Count(p, "?") }

// c29FirstMatch returns (route index, pattern index) of the first match in
// configuration order, or (-1,-1).
func c29FirstMatch(routes []c29Route, h []rune, nlOK bool) (int, int) {
	for i, r := range routes {
		for j, p := range r.Hosts {
			if c29Glob(c29Fold(p), h, nlOK) {
				return i, j
			}
		}
	}
	return -1, -1
}

// c29GroupsInvalid returns "" when groups is a valid assignment of wildcard
// texts for pattern p on host h (both folded), else the reason.
func c29GroupsInvalid(p []rune, groups []string, h []rune) string {
	var rec []rune
	k := 0
	for _, r := range p {
		switch r {
		case '*', '?':
			if k >= len(groups) {
				return fmt.Sprintf("only %d groups for more wildcards", len(groups))
			}
			g := c29Fold(groups[k])
			if r == '?' && len(g) != 1 {
				return fmt.Sprintf("group %d for '?' has %d characters", k+1, len(g))
			}
			rec = append(rec, g...)
			k++
		default:
			rec = append(rec, r)
		}
	}
	if k != len(groups) {
		return fmt.Sprintf("%d groups for %d wildcards", len(groups), k)
	}
	if string(rec) != string(h) {
		return fmt.Sprintf("pattern with groups substituted gives %q, host is %q", string(rec), string(h))
	}
	return ""
}

func c29Index(d string, n int) (int, bool) {
	if d == "" || d[0] == '0' || len(d) > 4 {
		return 0, false
	}
	k, err := strconv.Atoi(d)
	if err != nil || k < 1 || k > n {
		return 0, false
	}
	return k, true
}

// c29RefSubst: single pass; "$" + maximal digit run D; D in 1..n => group D;
// otherwise the token stays. ambiguous: D is not an index but a proper prefix of
// it is ("$12" with 3 groups) — the statement does not say which reading is
// meant, so such templates are not judged.
func c29RefSubst(tmpl string, groups []string) (string, bool) {
	n := len(groups)
	ambiguous := false
	var b strings.Builder
	for i := 0; i < len(tmpl); {
		if tmpl[i] != '$' {
			b.WriteByte(tmpl[i])
			i++
			continue
		}
		j := i + 1
		for j < len(tmpl) && tmpl[j] >= '0' && tmpl[j] <= '9' {
			j++
		}
		d := tmpl[i+1 : j]
		if k, ok := c29Index(d, n); ok {
			b.WriteString(groups[k-1])
			i = j
			continue
		}
		for l := 1; l < len(d); l++ {
			if _, ok := c29Index(d[:l], n); ok {
				ambiguous = true
			}
		}
		b.WriteString(tmpl[i:j])
		i = j
	}
	return b.String(), ambiguous
}

// c29AltMultiPass: classification model "one ReplaceAll per index, highest
// first, each pass over the output of the previous one".
func c29AltMultiPass(tmpl string, groups []string) string {
	res := tmpl
	for i := len(groups); i >= 1; i-- {
		res = strings.ReplaceAll(res, "$"+strconv.Itoa(i), groups[i-1])
	}
	return res
}

// ---------------------------------------------------------------- fixtures

type c29NetConn struct{ remote net.Addr }

func (c *c29NetConn) Read([]byte) (int, error)    { return 0, io.EOF }
func (c *c29NetConn) Write(b []byte) (int, error) { return len(b), nil }
func (c *c29NetConn) Close() error                { return nil }
func (c *c29NetConn) LocalAddr() net.Addr {
	return &net.TCPAddr{IP: net.IPv4(127, 0, 0, 1), Port: 25565}
}
func (c *c29NetConn) RemoteAddr() net.Addr             { return c.remote }
func (c *c29NetConn) SetDeadline(time.Time) error      { return nil }
func (c *c29NetConn) SetReadDeadline(time.Time) error  { return nil }
func (c *c29NetConn) SetWriteDeadline(time.Time) error { return nil }

// c29Conn is the part of a client connection findRoute/Forward use: the
// underlying net.Conn, Context and Close.
type c29Conn struct {
	netmc.MinecraftConn
	conn   net.Conn
	closed int
}

func (c *c29Conn) Conn() net.Conn           { return c.conn }
func (c *c29Conn) Close() error             { c.closed++; return nil }
func (c *c29Conn) Context() context.Context { return context.Background() }

func c29NewConn() *c29Conn {
	return &c29Conn{conn: &c29NetConn{remote: &net.TCPAddr{IP: net.IPv4(127, 0, 0, 1), Port: 40000}}}
}

var (
	c29LnOnce sync.Once
	c29Ln     net.Listener
	c29LnErr  error
)

func c29Listener() (net.Listener, error) {
	c29LnOnce.Do(func() { c29Ln, c29LnErr = net.Listen("tcp", "127.0.0.1:0") })
	return c29Ln, c29LnErr
}

// c29ForeignDials connects a sentinel to the listener and accepts until the
// sentinel shows up; every connection accepted before it was dialed by someone
// else (the accept queue is FIFO and a dial returns only after the connection
// is queued), so the count does not depend on timing.
func c29ForeignDials(ln net.Listener) (int, error) {
	d, err := net.Dial("tcp", ln.Addr().String())
	if err != nil {
		return 0, err
	}
	defer d.Close()
	foreign := 0
	for {
		a, err := ln.Accept()
		if err != nil {
			return foreign, err
		}
		same := a.RemoteAddr().String() == d.LocalAddr().String()
		_ = a.Close()
		if same {
			return foreign, nil
		}
		foreign++
	}
}

func c29Config(routes []c29Route, backendOverride string) []config.Route {
	out := make([]config.Route, len(routes))
	for i, r := range routes {
		out[i].Host = append([]string(nil), r.Hosts...)
		if backendOverride != "" {
			for range r.Backends {
				out[i].Backend = append(out[i].Backend, backendOverride)
			}
		} else {
			out[i].Backend = append([]string(nil), r.Backends...)
		}
	}
	return out
}

func c29ResetGlobals() {
	compiledRegexCache.DeleteAll()
	pingCache.reset()
}

// ---------------------------------------------------------------- run

func c29Run(c c29Case) (res verifkit.Result) {
	c29ResetGlobals()
	defer func() {
		if p := recover(); p != nil {
			res = verifkit.Fail("panic:route", "panic while routing host %q: %v", c.Host, p)
		}
	}()
	if !utf8.ValidString(c.Host) || utf8.RuneCountInString(c.Host) > 255 {
		return verifkit.Result{Labels: []string{"out-of-domain"}}
	}
	var labels []string
	lab := func(s string) { labels = append(labels, s) }

	// 1. cleaning
	cleaned := c29RefClean(c.Host)
	if got := ClearVirtualHost(c.Host); got != cleaned {
		return verifkit.Fail("clean:mismatch", "ClearVirtualHost(%q) = %q, reference %q", c.Host, got, cleaned)
	}
	if cleaned != c.Host {
		lab("host:decorated")
	}
	if strings.Contains(c.Host, "\x00") {
		lab("host:forge")
	}
	if strings.Contains(c.Host, "///") {
		lab("host:tcpshield")
	}
	if strings.ContainsAny(cleaned, "\n") {
		lab("host:newline")
	}
	if strings.ContainsFunc(cleaned, func(r rune) bool { return r < 0x20 && r != '\n' || r == 0x7f }) {
		lab("host:ctrl")
	}
	if strings.ContainsFunc(cleaned, func(r rune) bool { return r > 0x7f }) {
		lab("host:nonascii")
	}
	if strings.ContainsAny(cleaned, `+()[]{}^|\*?`) {
		lab("host:regexmeta")
	}
	if strings.Contains(cleaned, "$") {
		lab("host:dollar")
	}
	if strings.ContainsFunc(cleaned, unicode.IsUpper) {
		lab("host:upper")
	}

	// 2. expected route
	h := c29Fold(cleaned)
	wi, wj := c29FirstMatch(c.Routes, h, true)
	routes := c29Config(c.Routes, "")

	check := func(stage string, gotHost string, gotRoute *config.Route) *verifkit.Violation {
		gi := -1
		for i := range routes {
			if gotRoute == &routes[i] {
				gi = i
			}
		}
		if gotRoute != nil && gi < 0 {
			return verifkit.Violationf("route:foreign-pointer", "%s returned a route that is not an element of the given list", stage)
		}
		ok := gi == wi && (wi < 0 || gotHost == c.Routes[wi].Hosts[wj])
		if ok {
			return nil
		}
		// classification only: does the result equal what a matcher whose
		// wildcards refuse '\n' would select?
		ai, aj := c29FirstMatch(c.Routes, h, false)
		if (ai != wi || aj != wj) && gi == ai && (ai < 0 || gotHost == c.Routes[ai].Hosts[aj]) {
			return verifkit.Violationf("route:wildcard-rejects-newline",
				"%s: host %q (cleaned %q) must match route %d pattern %d (%q) because '*'/'?' match any character, got route %d pattern %q — the result a matcher whose wildcards do not match \"\\n\" gives",
				stage, c.Host, cleaned, wi, wj, c.Routes[wi].Hosts[wj], gi, gotHost)
		}
		want := "<none>"
		if wi >= 0 {
			want = fmt.Sprintf("route %d pattern %d %q", wi, wj, c.Routes[wi].Hosts[wj])
		}
		return verifkit.Violationf("route:mismatch", "%s: host %q (cleaned %q): want %s, got route %d pattern %q", stage, c.Host, cleaned, want, gi, gotHost)
	}

	gh, gr, groups := FindRouteWithGroups(cleaned, routes...)
	if v := check("FindRouteWithGroups", gh, gr); v != nil {
		return verifkit.Result{V: v}
	}
	// warm-cache repetition must agree (compiled patterns are cached by pattern)
	gh2, gr2, groups2 := FindRouteWithGroups(cleaned, routes...)
	if gh2 != gh || gr2 != gr || fmt.Sprint(groups2) != fmt.Sprint(groups) {
		return verifkit.Fail("route:nondeterministic", "second lookup of %q differs: %q/%v vs %q/%v", cleaned, gh, groups, gh2, groups2)
	}

	nw := 0
	if wi >= 0 {
		lab("match")
		pat := c.Routes[wi].Hosts[wj]
		nw = c29Wildcards(pat)
		if why := c29GroupsInvalid(c29Fold(pat), groups, h); why != "" {
			return verifkit.Fail("groups:invalid", "host %q pattern %q groups %q: %s", cleaned, pat, groups, why)
		}
		switch {
		case nw == 0:
			lab("wild:0")
		case nw < 3:
			lab("wild:1-2")
		case nw < 10:
			lab("wild:3-9")
		default:
			lab("wild:10+")
		}
		for _, g := range groups {
			if g == "" {
				lab("group:empty")
				break
			}
		}
		if wi > 0 {
			lab("later-route")
		}
		if wj > 0 {
			lab("later-pattern")
		}
	} else {
		lab("nomatch")
	}

	// 3. the real entry below Forward: findRoute on the raw handshake host
	sm := NewStrategyManager()
	hs := &packet.Handshake{ServerAddress: c.Host, ProtocolVersion: 765, Port: 25565, NextStatus: 2}
	_, _, fr, fh, next, err := findRoute(routes, logr.Discard(), c29NewConn(), hs, sm)
	if wi < 0 {
		if err == nil || fr != nil {
			if v := check("findRoute", fh, fr); v != nil {
				return verifkit.Result{V: v}
			}
			return verifkit.Fail("route:mismatch", "findRoute: no route expected for %q, got err=%v route=%v", c.Host, err, fr)
		}
	} else {
		if v := check("findRoute", fh, fr); v != nil {
			return verifkit.Result{V: v}
		}
		if len(c.Routes[wi].Backends) == 0 {
			if err == nil {
				return verifkit.Fail("backends:empty-accepted", "route without backends accepted")
			}
		} else if err != nil {
			return verifkit.Fail("route:mismatch", "findRoute(%q): unexpected error %v", c.Host, err)
		} else {
			// 4. candidate list (sequential strategy = config order)
			// Each distinct backend is offered once per attempt (C30): an entry
			// whose substituted address is a spelling of an earlier candidate
			// (case, default port, duplicate) is not offered again.
			c29Seen := map[string]bool{}
			for bi, tmpl := range c.Routes[wi].Backends {
				want, amb := c29RefSubst(tmpl, groups)
				if amb {
					// cannot predict this candidate, hence not whether later ones
					// are spellings of it: stop judging the list here.
					lab("subst:ambiguous-skipped")
					goto doneBackends
				}
				if !amb {
					canon := strings.ToLower(want)
					if pa, perr := netutil.Parse(want, "tcp"); perr == nil {
						canon = strings.ToLower(pa.String())
						if _, port := netutil.HostPort(pa); port == 0 {
							canon = strings.ToLower(net.JoinHostPort(pa.String(), "25565"))
						}
					} else {
						canon = want
					}
					if c29Seen[canon] {
						lab("duplicate-backend-skipped")
						continue
					}
					c29Seen[canon] = true
				}
				got, _, ok := next()
				if !ok {
					return verifkit.Fail("backends:missing", "candidate %d of %d missing (template %q)", bi, len(c.Routes[wi].Backends), tmpl)
				}
				if amb {
					lab("subst:ambiguous-skipped")
				} else {
					lab("subst:checked")
					if strings.Contains(tmpl, "$") {
						lab("subst:param")
					}
					if got != want {
						if got == c29AltMultiPass(tmpl, groups) {
							return verifkit.Fail("subst:captured-text-resubstituted",
								"template %q groups %q: want %q (each $k replaced once by wildcard k's text), got %q — the result of substituting again inside already substituted text",
								tmpl, groups, want, got)
						}
						return verifkit.Fail("subst:mismatch", "template %q groups %q: want %q got %q", tmpl, groups, want, got)
					}
				}
				if _, perr := netutil.Parse(got, "tcp"); perr != nil {
					// an address the proxy cannot parse is never removed from
					// the candidate list (C30's subject); stop reading here.
					lab("unparsable-backend")
					goto doneBackends
				}
			}
			if extra, _, ok := next(); ok {
				return verifkit.Fail("backends:extra", "candidate list longer than the route's backend list: extra %q", extra)
			}
		}
	}
doneBackends:

	// 4b. routing one connection must not change the configured routes: the
	// backend templates are shared by every later connection (whose wildcards
	// capture different text).
	if after := c29Config(c.Routes, ""); !reflect.DeepEqual(routes, after) {
		return verifkit.Fail("config:routes-mutated-by-routing", "the configured route list changed while routing host %q: now %+v, configured %+v", c.Host, routes, after)
	}

	// 5. no match => Forward closes the client and dials nothing.
	if wi < 0 {
		ln, lerr := c29Listener()
		if lerr != nil {
			return verifkit.Result{Inconclusive: true, Labels: append(labels, "no-loopback")}
		}
		conn := c29NewConn()
		pc := &proto.PacketContext{Direction: proto.ServerBound, Protocol: 765, PacketID: 0, Packet: hs, Payload: []byte{0}}
		Forward(2*time.Second, c29Config(c.Routes, ln.Addr().String()), logr.Discard(), conn, hs, pc, NewStrategyManager())
		foreign, ferr := c29ForeignDials(ln)
		if ferr != nil {
			return verifkit.Result{Inconclusive: true, Labels: append(labels, "loopback-error")}
		}
		if foreign != 0 {
			return verifkit.Fail("nomatch:dialed", "host %q matches no route but Forward dialed a backend %d time(s)", c.Host, foreign)
		}
		if conn.closed == 0 {
			return verifkit.Fail("nomatch:not-closed", "host %q matches no route but Forward did not close the client", c.Host)
		}
		lab("nomatch:forward-checked")
	}

	// NT: an earlier route does not match, a later one does, through >=1 wildcard
	nt := wi > 0 && nw >= 1
	return verifkit.Result{NonTrivial: nt, Labels: labels}
}

// ---------------------------------------------------------------- generator

// Characters on which "case-insensitive" is unambiguous (rune-wise lower-casing
// and Unicode simple folding agree; verified in TestVerif_C29).
var c29LitAlpha = []rune("abcxyzABCXYZ019-._+()[]{}^$|#@!~,;=%& éÉüÜяЯßñÑ日本😀")
var c29HostExtra = []rune("*?\\\n\r\t\x01\x7f/:")

func c29GenLit(t *rapid.T, label string, min, max int) string {
	return string(rapid.SliceOfN(rapid.SampledFrom(c29LitAlpha), min, max).Draw(t, label))
}

func c29GenDNSLabel(t *rapid.T, label string) string {
	return rapid.OneOf(
		rapid.SampledFrom([]string{"example", "Example", "mc", "play", "COM", "com", "net", "a", "b", "日本", "x-y", "srv1"}),
		rapid.Map(rapid.SliceOfN(rapid.SampledFrom(c29LitAlpha), 1, 5), func(r []rune) string { return string(r) }),
	).Draw(t, label)
}

func c29GenDomain(t *rapid.T, label string) string {
	n := rapid.IntRange(1, 3).Draw(t, label+"N")
	parts := make([]string, n)
	for i := range parts {
		parts[i] = c29GenDNSLabel(t, label)
	}
	return strings.Join(parts, ".")
}

func c29GenPattern(t *rapid.T, doms []string) string {
	dom := rapid.SampledFrom(doms).Draw(t, "dom")
	switch rapid.IntRange(0, 9).Draw(t, "shape") {
	case 0:
		return "*." + dom
	case 1:
		return c29GenDNSLabel(t, "sub") + "." + dom
	case 2:
		return "?" + c29GenLit(t, "l", 0, 2) + "." + dom
	case 3:
		return dom
	case 4:
		return "*"
	case 5: // many wildcards, for $10..$12
		n := rapid.IntRange(9, 12).Draw(t, "nw")
		var b strings.Builder
		for i := 0; i < n; i++ {
			b.WriteString(rapid.SampledFrom([]string{"*", "*", "?"}).Draw(t, "w"))
			if i < n-1 {
				b.WriteString(rapid.SampledFrom([]string{"-", ".", "", "x"}).Draw(t, "sep"))
			}
		}
		return b.String()
	case 6:
		return "*" + rapid.SampledFrom([]string{"-", ".", "", "_"}).Draw(t, "sep") + "*." + dom
	case 7:
		return c29GenLit(t, "pre", 0, 3) + "*" + c29GenLit(t, "mid", 0, 3) + "?" + c29GenLit(t, "suf", 0, 3)
	default:
		n := rapid.IntRange(0, 6).Draw(t, "ntok")
		var b strings.Builder
		for i := 0; i < n; i++ {
			switch rapid.IntRange(0, 3).Draw(t, "tok") {
			case 0:
				b.WriteByte('*')
			case 1:
				b.WriteByte('?')
			default:
				b.WriteString(c29GenLit(t, "lit", 1, 4))
			}
		}
		return b.String()
	}
}

func c29GenFill(t *rapid.T, star bool) string {
	if !star {
		return string(rapid.OneOf(rapid.SampledFrom(c29LitAlpha), rapid.SampledFrom(c29HostExtra)).Draw(t, "q"))
	}
	switch rapid.IntRange(0, 9).Draw(t, "fillKind") {
	case 0, 1:
		return ""
	case 2:
		return rapid.SampledFrom([]string{"$1", "$2", "$3", "a$1", "$10", "$", "$2x"}).Draw(t, "dollarFill")
	case 3:
		rs := rapid.SliceOfN(rapid.OneOf(rapid.SampledFrom(c29LitAlpha), rapid.SampledFrom(c29HostExtra)), 1, 6).Draw(t, "mixFill")
		return string(rs)
	case 4:
		return rapid.SampledFrom([]string{"a.b", "lobby", "Survival", "x", "eu-1", "[::1]", "[x", "h:1", "a:b"}).Draw(t, "wordFill")
	default:
		return c29GenLit(t, "fill", 1, 6)
	}
}

func c29FlipCase(t *rapid.T, s string) string {
	if !rapid.Bool().Draw(t, "flip") {
		return s
	}
	rs := []rune(s)
	for i, r := range rs {
		if rapid.Bool().Draw(t, "up") {
			rs[i] = unicode.ToUpper(r)
			if unicode.ToLower(rs[i]) != unicode.ToLower(r) { // keep inside the unambiguous alphabet
				rs[i] = r
			}
		}
	}
	return string(rs)
}

func c29Instantiate(t *rapid.T, pat string) string {
	var b strings.Builder
	lit := strings.Builder{}
	flush := func() {
		if lit.Len() > 0 {
			b.WriteString(c29FlipCase(t, lit.String()))
			lit.Reset()
		}
	}
	for _, r := range pat {
		switch r {
		case '*':
			flush()
			b.WriteString(c29GenFill(t, true))
		case '?':
			flush()
			b.WriteString(c29GenFill(t, false))
		default:
			lit.WriteRune(r)
		}
	}
	flush()
	return b.String()
}

func c29GenTemplate(t *rapid.T, nw int) string {
	n := rapid.IntRange(1, 4).Draw(t, "ntt")
	var b strings.Builder
	for i := 0; i < n; i++ {
		switch rapid.IntRange(0, 7).Draw(t, "tt") {
		case 0, 1, 2:
			hi := nw
			if hi < 1 {
				hi = 1
			}
			fmt.Fprintf(&b, "$%d", rapid.IntRange(1, hi).Draw(t, "k"))
		case 3:
			fmt.Fprintf(&b, "$%d", rapid.SampledFrom([]int{1, 2, 3, 9, 10, 11, 12, 13, 99, 0}).Draw(t, "kx"))
		case 4:
			b.WriteString(rapid.SampledFrom([]string{"$", "$$", "$x", "0"}).Draw(t, "odd"))
		default:
			b.WriteString(rapid.SampledFrom([]string{".svc", "srv", "-", ".", "backend", ".servers.local", "a"}).Draw(t, "tl"))
		}
	}
	b.WriteString(rapid.SampledFrom([]string{":25565", "", ":25566", ".svc:25565"}).Draw(t, "port"))
	return b.String()
}

func c29Gen(t *rapid.T) c29Case {
	nd := rapid.IntRange(1, 3).Draw(t, "ndoms")
	doms := make([]string, nd)
	for i := range doms {
		doms[i] = c29GenDomain(t, "d")
	}
	nr := rapid.IntRange(1, 6).Draw(t, "nroutes")
	routes := make([]c29Route, nr)
	for i := range routes {
		np := rapid.IntRange(1, 3).Draw(t, "npat")
		maxw := 0
		for j := 0; j < np; j++ {
			p := c29GenPattern(t, doms)
			routes[i].Hosts = append(routes[i].Hosts, p)
			if w := c29Wildcards(p); w > maxw {
				maxw = w
			}
		}
		nb := rapid.IntRange(1, 3).Draw(t, "nback")
		for j := 0; j < nb; j++ {
			routes[i].Backends = append(routes[i].Backends, c29GenTemplate(t, maxw))
		}
	}
	// host
	var host string
	mode := rapid.IntRange(0, 9).Draw(t, "hostMode")
	tr := routes[rapid.IntRange(0, nr-1).Draw(t, "target")]
	tp := tr.Hosts[rapid.IntRange(0, len(tr.Hosts)-1).Draw(t, "targetPat")]
	switch {
	case mode <= 5:
		host = c29Instantiate(t, tp)
	case mode <= 7: // near miss: breaks anchoring / drops or adds one character
		host = c29Instantiate(t, tp)
		rs := []rune(host)
		switch rapid.IntRange(0, 3).Draw(t, "miss") {
		case 0:
			host = c29GenLit(t, "xpre", 1, 2) + host
		case 1:
			host = host + c29GenLit(t, "xsuf", 1, 2)
		case 2:
			if len(rs) > 0 {
				k := rapid.IntRange(0, len(rs)-1).Draw(t, "del")
				host = string(rs[:k]) + string(rs[k+1:])
			}
		default:
			if len(rs) > 0 {
				k := rapid.IntRange(0, len(rs)-1).Draw(t, "rep")
				rs[k] = rapid.SampledFrom(c29LitAlpha).Draw(t, "repc")
				host = string(rs)
			}
		}
	case mode == 8:
		host = c29GenDNSLabel(t, "rsub") + "." + rapid.SampledFrom(doms).Draw(t, "rdom")
	default:
		host = string(rapid.SliceOfN(rapid.OneOf(rapid.SampledFrom(c29LitAlpha), rapid.SampledFrom(c29HostExtra)), 0, 12).Draw(t, "rand"))
	}
	// decorations a client / upstream proxy adds
	if rapid.IntRange(0, 3).Draw(t, "dots") == 0 {
		host = strings.Repeat(".", rapid.IntRange(0, 2).Draw(t, "ld")) + host + strings.Repeat(".", rapid.IntRange(0, 2).Draw(t, "td"))
	}
	switch rapid.IntRange(0, 7).Draw(t, "suffix") {
	case 0:
		host += "\x00FML\x00"
	case 1:
		host += "\x00FML2\x00"
	case 2:
		host += "\x00FORGE"
	case 3:
		host += "///203.0.113.7:51234///1700000000"
	case 4:
		host += "///203.0.113.7:51234///1700000000\x00FML3\x00"
	}
	if rs := []rune(host); len(rs) > 255 {
		host = string(rs[:255])
	}
	return c29Case{Host: host, Routes: routes}
}

func TestVerif_C29(t *testing.T) {
	// The generator alphabet must be unambiguous for "case-insensitively".
	all := append(append([]rune{}, c29LitAlpha...), c29HostExtra...)
	for _, a := range all {
		for _, b := range all {
			if (unicode.ToLower(a) == unicode.ToLower(b)) != strings.EqualFold(string(a), string(b)) {
				t.Fatalf("harness: alphabet characters %q/%q are case-ambiguous", a, b)
			}
		}
		if u := unicode.ToUpper(a); unicode.ToLower(u) == unicode.ToLower(a) && !strings.EqualFold(string(a), string(u)) {
			t.Fatalf("harness: upper case of %q is case-ambiguous", a)
		}
	}
	verifkit.Check(t, "C29", "route",
		"1-6 routes x 1-3 glob patterns (literal domains, '*.dom', '?x.dom', 9-12 wildcards, adjacent wildcards) over letters/digits/regex metacharacters/non-ASCII; hosts instantiated from a target pattern (empty fills, '$n' fills, control characters incl. \\n, mixed case), near misses (extra prefix/suffix, one character dropped/replaced) or random; dots and Forge/TCPShield suffixes added; backends are templates over $1..$13. Oracle: reference clean + memoised glob matcher (first match in config order), group validity predicate, single-pass reference substitution, no-match => Forward closes and the loopback listener sees no dial. Non-trivial = an earlier route does not match and a later one matches through >=1 wildcard",
		c29Gen, c29Run)
}
