//go:build verif

package lite

import (
	"bufio"
	"context"
	"errors"
	"fmt"
	"io"
	"net"
	"strings"
	"sync"
	"testing"
	"time"

	"github.com/go-logr/logr"
	"go.minekube.com/common/minecraft/component"
	"go.minekube.com/gate/pkg/edition/java/lite/config"
	"go.minekube.com/gate/pkg/edition/java/netmc"
	"go.minekube.com/gate/pkg/edition/java/ping"
	"go.minekube.com/gate/pkg/edition/java/proto/packet"
	"go.minekube.com/gate/pkg/gate/proto"
	"go.minekube.com/gate/pkg/internal/verifkit"
	"go.minekube.com/gate/pkg/util/configutil"
	"pgregory.net/rapid"
)

// C32 (part "real"): sequential histories through the real entry point
// ResolveStatusResponseWithGeneration and the package-level pingCache against
// scripted loopback backends that answer the status exchange (or drop the
// connection). Decides: cached per backend/protocol/route generation (one fetch
// while cached), ResetPingCache => no status from before the reset, fallback only
// when every backend failed.

type c32RealOp struct {
	Kind     string `json:"kind"`               // req | set | reset
	Backend  int    `json:"backend,omitempty"`  // set
	Up       bool   `json:"up,omitempty"`       // set: backend answers (with a new status text) / drops connections
	Proto    int    `json:"proto,omitempty"`    // req: client protocol
	RouteGen uint64 `json:"routeGen,omitempty"` // req: route snapshot generation
	// req, cache on: the requesting client has hung up already (its connection
	// context is cancelled). A cached fetch is shared by every client that asks for
	// the key, so it must not depend on the client that happens to start it.
	Gone bool `json:"gone,omitempty"`
}

type c32RealCase struct {
	InitUp   []bool      `json:"initUp"`   // one entry per backend
	CacheOn  bool        `json:"cacheOn"`  // cachePingTTL 1h / -1 (disabled)
	Fallback bool        `json:"fallback"` // route has a fallback status
	Ops      []c32RealOp `json:"ops"`
}

type c32Backend struct {
	idx     int
	ln      net.Listener
	mu      sync.Mutex
	up      bool
	ver     int
	fetches int
	wg      sync.WaitGroup
}

func (b *c32Backend) statusJSON(ver int) string {
	return fmt.Sprintf(`{"version":{"name":"fake","protocol":765},"players":{"online":0,"max":1},"description":{"text":"backend%d-v%d"}}`, b.idx, ver)
}

func c32ReadVarInt(r io.ByteReader) (int, error) {
	v, shift := 0, uint(0)
	for i := 0; i < 5; i++ {
		c, err := r.ReadByte()
		if err != nil {
			return 0, err
		}
		v |= int(c&0x7f) << shift
		if c&0x80 == 0 {
			return v, nil
		}
		shift += 7
	}
	return 0, errors.New("varint too long")
}

func c32AppendVarInt(b []byte, v int) []byte {
	u := uint32(v)
	for u >= 0x80 {
		b = append(b, byte(u)|0x80)
		u >>= 7
	}
	return append(b, byte(u))
}

func c32ReadFrame(r *bufio.Reader) ([]byte, error) {
	n, err := c32ReadVarInt(r)
	if err != nil {
		return nil, err
	}
	if n < 0 || n > 1<<16 {
		return nil, errors.New("bad frame")
	}
	buf := make([]byte, n)
	_, err = io.ReadFull(r, buf)
	return buf, err
}

func (b *c32Backend) serve() {
	defer b.wg.Done()
	for {
		conn, err := b.ln.Accept()
		if err != nil {
			return
		}
		b.wg.Add(1)
		go func() {
			defer b.wg.Done()
			defer conn.Close()
			_ = conn.SetDeadline(time.Now().Add(20 * time.Second)) // safety only
			rd := bufio.NewReader(conn)
			if _, err := c32ReadFrame(rd); err != nil { // handshake
				return
			}
			b.mu.Lock()
			b.fetches++
			up, ver := b.up, b.ver
			b.mu.Unlock()
			if !up {
				return // drop: the status fetch fails
			}
			if _, err := c32ReadFrame(rd); err != nil { // status request
				return
			}
			js := b.statusJSON(ver)
			body := append([]byte{0x00}, c32AppendVarInt(nil, len(js))...)
			body = append(body, js...)
			if _, err := conn.Write(append(c32AppendVarInt(nil, len(body)), body...)); err != nil {
				return
			}
			_, _ = io.Copy(io.Discard, rd) // until the proxy closes
		}()
	}
}

type c32Client struct {
	netmc.MinecraftConn
	conn net.Conn
	ctx  context.Context
}

func (c *c32Client) Conn() net.Conn { return c.conn }
func (c *c32Client) Context() context.Context {
	if c.ctx != nil {
		return c.ctx
	}
	return context.Background()
}

type c32AddrConn struct{ net.Conn }

func (c32AddrConn) RemoteAddr() net.Addr {
	return &net.TCPAddr{IP: net.IPv4(127, 0, 0, 1), Port: 40002}
}

type c32Cached struct {
	ok     bool
	status string
}

func c32RunReal(c c32RealCase) (res verifkit.Result) {
	n := len(c.InitUp)
	if n == 0 || n > 4 {
		return verifkit.Result{Labels: []string{"out-of-domain"}}
	}
	compiledRegexCache.DeleteAll()
	ResetPingCache()
	defer ResetPingCache()

	backends := make([]*c32Backend, n)
	var addrs []string
	for i := range backends {
		ln, err := net.Listen("tcp", "127.0.0.1:0")
		if err != nil {
			for _, b := range backends[:i] {
				_ = b.ln.Close()
				b.wg.Wait()
			}
			return verifkit.Result{Inconclusive: true, Labels: []string{"no-loopback"}}
		}
		b := &c32Backend{idx: i, ln: ln, up: c.InitUp[i], ver: 1}
		backends[i] = b
		addrs = append(addrs, ln.Addr().String())
		b.wg.Add(1)
		go b.serve()
	}
	defer func() {
		for _, b := range backends {
			_ = b.ln.Close()
			b.wg.Wait()
		}
	}()

	route := config.Route{Host: []string{"mc.example.com"}, Backend: addrs}
	if c.CacheOn {
		route.CachePingTTL = configutil.Duration(time.Hour)
	} else {
		route.CachePingTTL = configutil.Duration(-1)
	}
	if c.Fallback {
		route.Fallback = &config.Status{
			MOTD:    &configutil.Component{Value: &component.Text{Content: "FALLBACK-STATUS"}},
			Version: ping.Version{Name: "fallback", Protocol: 765},
		}
	}
	routes := []config.Route{route}
	sm := NewStrategyManager()

	type ckey struct {
		b, p int
		rg   uint64
	}
	cache := map[ckey]c32Cached{}
	preReset := map[string]bool{} // statuses that were cached when the last reset happened
	labels := map[string]bool{}
	nt := false
	changedSinceCached := false
	resetSeen := false

	fetchCounts := func() []int {
		out := make([]int, n)
		for i, b := range backends {
			b.mu.Lock()
			out[i] = b.fetches
			b.mu.Unlock()
		}
		return out
	}

	for oi, op := range c.Ops {
		switch op.Kind {
		case "set":
			b := backends[((op.Backend%n)+n)%n]
			b.mu.Lock()
			b.up = op.Up
			b.ver++
			b.mu.Unlock()
			for k, v := range cache {
				if k.b == b.idx && v.ok {
					changedSinceCached = true
				}
			}
			labels["op:set"] = true
		case "reset":
			ResetPingCache() // what the proxy calls when the routes are reloaded
			preReset = map[string]bool{}
			for _, v := range cache {
				if v.ok {
					preReset[v.status] = true
				}
			}
			cache = map[ckey]c32Cached{}
			resetSeen = true
			labels["op:reset"] = true
		case "req":
			p := op.Proto
			if p != 47 && p != 765 {
				p = 765
			}
			hs := &packet.Handshake{ServerAddress: "mc.example.com", ProtocolVersion: p, Port: 25565, NextStatus: 1}
			hsCtx := &proto.PacketContext{Direction: proto.ServerBound, Protocol: proto.Protocol(p), PacketID: 0, Packet: hs}
			update(hsCtx, hs) // the payload as the client sent it
			reqCtx := &proto.PacketContext{Direction: proto.ServerBound, Protocol: proto.Protocol(p), PacketID: 0, Packet: &packet.StatusRequest{}, Payload: []byte{0x00}}
			a, bpipe := net.Pipe()
			client := &c32Client{conn: c32AddrConn{a}}
			before := fetchCounts()
			if op.Gone && c.CacheOn {
				// The client's own answer is of no interest (it left). What matters is the
				// shared state it leaves behind: the cached fetches it started must run to
				// completion against the backends, independent of that client.
				ctx, cancel := context.WithCancel(context.Background())
				cancel()
				client.ctx = ctx
				labels["req:client-already-gone"] = true
				_, _, _ = ResolveStatusResponseWithGeneration(5*time.Second, op.RouteGen, routes, logr.Discard(), client, hs, hsCtx, reqCtx, sm)
				_ = a.Close()
				_ = bpipe.Close()
				// backends in order up to the first one with a cached answer were (or are being) asked
				for j := 0; j < n; j++ {
					k := ckey{j, p, op.RouteGen}
					if cv, has := cache[k]; has {
						if cv.ok {
							break
						}
						continue // cached failure: passed over without a fetch
					}
					pk := pingKey{addrs[j], proto.Protocol(p), op.RouteGen}
					deadline := time.Now().Add(10 * time.Second)
					for pingCache.get(pk) == nil {
						if time.Now().After(deadline) {
							return verifkit.Result{Inconclusive: true, Labels: []string{"inconclusive:background-fetch-not-cached"}}
						}
						time.Sleep(time.Millisecond)
					}
					b := backends[j]
					b.mu.Lock()
					ok, st, contacted := b.up, b.statusJSON(b.ver), b.fetches-before[j]
					b.mu.Unlock()
					if contacted != 1 {
						return verifkit.Fail("fetch:depends-on-requesting-client", "op %d: a status request from a client that had already hung up left a cached result for backend %d (protocol %d, route generation %d) although the backend was asked %d times: the shared fetch depends on the client that started it", oi, j, p, op.RouteGen, contacted)
					}
					cache[k] = c32Cached{ok, st}
				}
				continue
			}
			_, resp, err := ResolveStatusResponseWithGeneration(5*time.Second, op.RouteGen, routes, logr.Discard(), client, hs, hsCtx, reqCtx, sm)
			_ = a.Close()
			_ = bpipe.Close()
			after := fetchCounts()

			// reference walk over the backends in config order
			var want *string
			for j := 0; j < n; j++ {
				k := ckey{j, p, op.RouteGen}
				cv, has := cache[k]
				contacted := after[j] - before[j]
				if contacted > 1 {
					return verifkit.Fail("fetch:more-than-once", "op %d: backend %d was asked %d times for one status request", oi, j, contacted)
				}
				var ok bool
				var st string
				switch {
				case c.CacheOn && has && cv.ok:
					if contacted != 0 {
						return verifkit.Fail("cache:refetched-within-ttl", "op %d: backend %d was asked again although its status for protocol %d / route generation %d is cached (TTL 1h)", oi, j, p, op.RouteGen)
					}
					ok, st = true, cv.status
					labels["served-from-cache"] = true
				case c.CacheOn && has && !cv.ok && contacted == 0:
					ok = false // cached failure
					labels["cached-failure"] = true
				default:
					if contacted != 1 {
						if resp != nil && preReset[resp.Status] {
							return verifkit.Fail("stale:status-from-before-reset", "op %d: request after ResetPingCache answered with %q without asking backend %d: that status was obtained before the reset", oi, resp.Status, j)
						}
						return verifkit.Fail("fetch:backend-skipped", "op %d: backend %d has nothing cached for protocol %d / route generation %d and every earlier backend failed, but it was not asked (answer %v, err %v)", oi, j, p, op.RouteGen, c32Status(resp), err)
					}
					b := backends[j]
					b.mu.Lock()
					ok, st = b.up, b.statusJSON(b.ver)
					b.mu.Unlock()
					if c.CacheOn {
						cache[k] = c32Cached{ok, st}
					}
				}
				if ok {
					want = &st
					for jj := j + 1; jj < n; jj++ {
						if after[jj] != before[jj] {
							return verifkit.Fail("fetch:after-success", "op %d: backend %d was asked although backend %d had answered", oi, jj, j)
						}
					}
					if j > 0 {
						labels["later-backend-answers"] = true
					}
					break
				}
			}
			got := c32Status(resp)
			isFallback := resp != nil && strings.Contains(resp.Status, "FALLBACK-STATUS")
			switch {
			case want != nil:
				if isFallback {
					return verifkit.Fail("fallback:used-although-backend-answered", "op %d: fallback status returned although a backend answered %q", oi, *want)
				}
				if err != nil || resp == nil || resp.Status != *want {
					if resp != nil && preReset[resp.Status] {
						return verifkit.Fail("stale:status-from-before-reset", "op %d: request after ResetPingCache answered with %q, which was obtained before the reset; current answer is %q", oi, got, *want)
					}
					return verifkit.Fail("status:mismatch", "op %d: want %q, got %q err=%v", oi, *want, got, err)
				}
				if resetSeen && changedSinceCached {
					nt = true
				}
			case c.Fallback:
				if !isFallback || err != nil {
					return verifkit.Fail("fallback:not-used", "op %d: every backend failed and a fallback is configured, got %q err=%v", oi, got, err)
				}
				labels["fallback"] = true
				if n > 1 {
					nt = true
				}
			default:
				if err == nil || resp != nil {
					return verifkit.Fail("status:answer-without-backend", "op %d: every backend failed and no fallback is configured, got %q", oi, got)
				}
				labels["all-failed-error"] = true
			}
			labels["op:req"] = true
		}
	}
	var ls []string
	for l := range labels {
		ls = append(ls, l)
	}
	for i := range ls {
		for j := i + 1; j < len(ls); j++ {
			if ls[j] < ls[i] {
				ls[i], ls[j] = ls[j], ls[i]
			}
		}
	}
	if c.CacheOn {
		ls = append(ls, "cache:on")
	} else {
		ls = append(ls, "cache:off")
	}
	return verifkit.Result{NonTrivial: nt, Labels: ls}
}

func c32Status(r *packet.StatusResponse) string {
	if r == nil {
		return "<nil>"
	}
	return r.Status
}

func c32GenReal(t *rapid.T) c32RealCase {
	n := rapid.IntRange(1, 3).Draw(t, "nb")
	c := c32RealCase{
		InitUp:   rapid.SliceOfN(rapid.SampledFrom([]bool{true, true, false}), n, n).Draw(t, "up"),
		CacheOn:  rapid.IntRange(0, 4).Draw(t, "cache") != 0,
		Fallback: rapid.Bool().Draw(t, "fallback"),
	}
	nops := rapid.IntRange(2, 12).Draw(t, "nops")
	for i := 0; i < nops; i++ {
		switch k := rapid.IntRange(0, 10).Draw(t, "op"); {
		case k == 10: // status changes, routes are reloaded, next ping
			b := rapid.IntRange(0, n-1).Draw(t, "cb")
			c.Ops = append(c.Ops, c32RealOp{Kind: "set", Backend: b, Up: true}, c32RealOp{Kind: "reset"},
				c32RealOp{Kind: "req", Proto: 765, RouteGen: rapid.SampledFrom([]uint64{1, 1, 2}).Draw(t, "crg")})
		case k < 5:
			c.Ops = append(c.Ops, c32RealOp{Kind: "req", Proto: rapid.SampledFrom([]int{765, 765, 47}).Draw(t, "proto"),
				RouteGen: rapid.SampledFrom([]uint64{1, 1, 2}).Draw(t, "rg"), Gone: rapid.IntRange(0, 3).Draw(t, "gone") == 0})
		case k < 8:
			c.Ops = append(c.Ops, c32RealOp{Kind: "set", Backend: rapid.IntRange(0, n-1).Draw(t, "b"), Up: rapid.Bool().Draw(t, "setUp")})
		default:
			c.Ops = append(c.Ops, c32RealOp{Kind: "reset"})
		}
	}
	return c
}

func c32Real(t *testing.T) {
	verifkit.Check(t, "C32", "real",
		"1-3 scripted loopback backends (answer the status exchange with a versioned status / drop the connection), one route (ping cache 1h or disabled, fallback configured or not), 2-12 ops over {status request (protocol 765/47, route generation 1/2; with the cache on, a quarter from a client whose connection context is already cancelled) through ResolveStatusResponseWithGeneration, change a backend's state+status, ResetPingCache}; oracle: reference walk over the backends in order with a per (backend, protocol, route generation) cache cleared by reset: exact expected status, backend asked at most once and never while its status is cached, fallback iff every backend failed. Non-trivial = a request answered after a reset although a cached backend's status had changed, or a fallback over >=2 failed backends",
		c32GenReal, c32RunReal)
}
