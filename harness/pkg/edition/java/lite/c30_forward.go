//go:build verif

package lite

// C30, sub-check "forward-counts": the active-connection clause decided through
// the real lite.Forward over loopback TCP. Every connection of a history has its
// own route whose backends are real listeners of a scripted kind:
//
//	serve  - accepts and holds the connection until the client leaves
//	reset  - accepts, reads the forwarded handshake, then resets the connection
//	refuse - nothing listens (dial fails)
//
// The client sends its handshake either alone or together with further bytes in
// one segment (those bytes are then buffered in the proxy's reader and flushed by
// Forward). Faults can be injected where Forward reads that buffer. After every
// step ActiveConnections() and every backend's least-connections counter must
// equal the number of connections that are being forwarded at that moment (the
// moment is established from Forward's own "forwarding connection" log line and
// from its return, never from timing), and everything returns to zero at the end.

import (
	"context"
	"errors"
	"fmt"
	"io"
	"net"
	"strings"
	"sync"
	"testing"
	"time"

	"github.com/go-logr/logr"
	"github.com/go-logr/logr/funcr"
	"pgregory.net/rapid"

	"go.minekube.com/gate/pkg/edition/java/lite/config"
	"go.minekube.com/gate/pkg/edition/java/netmc"
	"go.minekube.com/gate/pkg/edition/java/proto/packet"
	"go.minekube.com/gate/pkg/gate/proto"
	"go.minekube.com/gate/pkg/internal/verifkit"
)

type c30fConn struct {
	Backends []string `json:"backends"`        // serve | reset | refuse, in config order
	Buffered bool     `json:"buffered"`        // handshake and the following bytes in one segment
	Fault    string   `json:"fault,omitempty"` // "" | "readbuffered-error"
	Hold     bool     `json:"hold"`            // stays connected until the end of the history
	Strategy string   `json:"strategy"`
}

type c30fCase struct {
	Conns []c30fConn `json:"conns"`
}

const c30fWait = 20 * time.Second

// c30fClient is the proxy's side of the client connection: the real netmc
// connection, with the moment at which the buffered bytes are handed out under
// the harness's control (so that a backend reset has happened by then) and an
// optional injected failure.
type c30fClient struct {
	netmc.MinecraftConn
	before func()
	fail   bool
}

func (c *c30fClient) Conn() net.Conn {
	return c.MinecraftConn.(interface{ Conn() net.Conn }).Conn()
}

func (c *c30fClient) ReadBuffered() ([]byte, error) {
	if c.before != nil {
		c.before()
	}
	if c.fail {
		return nil, errors.New("c30f: injected failure reading the buffered client bytes")
	}
	return c.MinecraftConn.(interface{ ReadBuffered() ([]byte, error) }).ReadBuffered()
}

type c30fBackend struct {
	kind   string
	addr   string
	ln     net.Listener
	mu     sync.Mutex
	conns  []net.Conn
	got    []byte
	resetC chan struct{}
}

func c30fHandshake(host string) []byte {
	var body []byte
	body = append(body, verifkit.RefVarInt(0)...)
	body = append(body, verifkit.RefVarInt(763)...)
	body = append(body, verifkit.RefVarInt(int32(len(host)))...)
	body = append(body, host...)
	body = append(body, 0x63, 0xdd)
	body = append(body, verifkit.RefVarInt(2)...)
	return append(verifkit.RefVarInt(int32(len(body))), body...)
}

func c30fRun(c c30fCase) (res verifkit.Result) {
	sm := NewStrategyManager()
	forwarding := make(chan string, 64)
	log := funcr.New(func(prefix, args string) {
		if strings.Contains(args, "forwarding connection") {
			select {
			case forwarding <- args:
			default:
			}
		}
	}, funcr.Options{Verbosity: 2})

	pl, err := net.Listen("tcp", "127.0.0.1:0")
	if err != nil {
		return verifkit.Result{Inconclusive: true, Labels: []string{"listen-failed"}}
	}
	defer pl.Close()

	labels := map[string]bool{}
	var cleanup []func()
	defer func() {
		for _, f := range cleanup {
			f()
		}
		for l := range labels {
			res.Labels = append(res.Labels, l)
		}
	}()
	var allBackends []*c30fBackend
	type held struct {
		client net.Conn
		done   chan struct{}
		b      *c30fBackend
	}
	var holds []held
	open := 0
	openPer := map[string]int{}
	check := func(step string) *verifkit.Violation {
		if got := int(sm.ActiveConnections()); got != open {
			return verifkit.Violationf("forward-count:active", "%s: ActiveConnections() = %d while %d connections are being forwarded (history %+v)", step, got, open, c.Conns)
		}
		for _, b := range allBackends {
			got := 0
			if ctr := sm.getCounter(b.addr); ctr != nil {
				got = int(ctr.Load())
			}
			if got != openPer[b.addr] {
				return verifkit.Violationf("forward-count:backend-counter", "%s: least-connections counter of backend %s (%s) = %d while %d connections to it are being forwarded (history %+v)", step, b.addr, b.kind, got, openPer[b.addr], c.Conns)
			}
		}
		return nil
	}
	inconclusive := func(why string) verifkit.Result {
		return verifkit.Result{Inconclusive: true, Labels: []string{"inconclusive:" + why}}
	}

	for i, cn := range c.Conns {
		step := fmt.Sprintf("connection #%d (%+v)", i, cn)
		host := fmt.Sprintf("h%d.example.org", i)
		var backs []*c30fBackend
		var addrs []string
		for j, kind := range cn.Backends {
			if kind == "refuse" {
				// Port 1 of a loopback address nobody listens on. (Not the port of a closed
				// listener: an ephemeral port can be picked as the source port of the very
				// dial that targets it, which connects the socket to itself.)
				b := &c30fBackend{kind: kind, addr: fmt.Sprintf("127.0.%d.%d:1", i+1, j+1), resetC: make(chan struct{})}
				backs = append(backs, b)
				addrs = append(addrs, b.addr)
				allBackends = append(allBackends, b)
				continue
			}
			ln, err := net.Listen("tcp", "127.0.0.1:0")
			if err != nil {
				return inconclusive("listen")
			}
			b := &c30fBackend{kind: kind, addr: ln.Addr().String(), ln: ln, resetC: make(chan struct{})}
			{
				cleanup = append(cleanup, func() { _ = ln.Close() })
				go func() {
					for {
						conn, err := b.ln.Accept()
						if err != nil {
							return
						}
						b.mu.Lock()
						b.conns = append(b.conns, conn)
						b.mu.Unlock()
						if b.kind == "reset" {
							// read exactly the forwarded handshake frame, then RST
							var l [1]byte
							if _, err := io.ReadFull(conn, l[:]); err == nil {
								_, _ = io.ReadFull(conn, make([]byte, int(l[0])))
							}
							_ = conn.(*net.TCPConn).SetLinger(0)
							_ = conn.Close()
							select {
							case <-b.resetC:
							default:
								close(b.resetC)
							}
							continue
						}
						go func() {
							buf := make([]byte, 4096)
							for {
								n, err := conn.Read(buf)
								b.mu.Lock()
								b.got = append(b.got, buf[:n]...)
								b.mu.Unlock()
								if err != nil {
									_ = conn.Close()
									return
								}
							}
						}()
					}
				}()
			}
			backs = append(backs, b)
			addrs = append(addrs, b.addr)
			allBackends = append(allBackends, b)
		}
		routes := []config.Route{{Host: []string{host}, Backend: addrs, Strategy: config.Strategy(cn.Strategy)}}
		// the backend Forward ends up with: every strategy tries all backends until one dial succeeds
		var target *c30fBackend
		if cn.Strategy == "sequential" {
			for _, b := range backs {
				if b.kind != "refuse" {
					target = b
					break
				}
			}
		}
		anyAlive := false
		for _, b := range backs {
			anyAlive = anyAlive || b.kind != "refuse"
		}

		client, err := net.Dial("tcp", pl.Addr().String())
		if err != nil {
			return inconclusive("dial")
		}
		cleanup = append(cleanup, func() { _ = client.Close() })
		gateSide, err := pl.Accept()
		if err != nil {
			return inconclusive("accept")
		}
		extra := []byte(fmt.Sprintf("\x10\x00login-start-of-%02d", i))
		hs := c30fHandshake(host)
		if cn.Buffered {
			_, err = client.Write(append(append([]byte(nil), hs...), extra...))
		} else {
			_, err = client.Write(hs)
		}
		if err != nil {
			return inconclusive("client-write")
		}
		mc, _ := netmc.NewMinecraftConn(context.Background(), gateSide, proto.ServerBound, 30*time.Second, 30*time.Second, -1, nil)
		pc, err := mc.Reader().ReadPacket()
		if err != nil {
			return inconclusive("handshake-decode")
		}
		hp, ok := pc.Packet.(*packet.Handshake)
		if !ok {
			return inconclusive("handshake-type")
		}
		wrapped := &c30fClient{MinecraftConn: mc, fail: cn.Fault == "readbuffered-error"}
		wrapped.before = func() {
			// if Forward dialled a resetting backend, the reset has happened before the buffer is flushed
			// (the waits only influence which error path Forward takes, never the verdict)
			for _, b := range backs {
				if b.kind != "reset" {
					continue
				}
				wait := 150 * time.Millisecond
				if b == target {
					wait = 5 * time.Second
				}
				select {
				case <-b.resetC:
					time.Sleep(30 * time.Millisecond) // let the RST reach the proxy's socket
				case <-time.After(wait):
				}
			}
		}
		done := make(chan struct{})
		go func() {
			defer close(done)
			Forward(5*time.Second, routes, log, wrapped, hp, pc, sm)
		}()

		established := false
		var line string
		select {
		case line = <-forwarding:
			established = true
		case <-done:
		case <-time.After(c30fWait):
			return inconclusive("forward-neither-established-nor-returned")
		}
		switch {
		case established:
			labels["forwarding-established"] = true
			// which backend: named by the log line (and known in advance for sequential)
			var tb *c30fBackend
			named := line
			if k := strings.LastIndex(line, "\"backendAddr\"=\""); k >= 0 {
				named = line[k:]
			}
			for _, b := range backs {
				if strings.HasPrefix(named, "\"backendAddr\"=\""+b.addr+"\"") {
					tb = b
				}
			}
			if tb == nil {
				return verifkit.Fail("harness:forward-log", "cannot find the backend in Forward's log line %q", line)
			}
			if target != nil && tb != target {
				return verifkit.Fail("forward-count:sequential-order", "%s: sequential strategy forwarded to %s (%s), the first backend that accepts is %s", step, tb.addr, tb.kind, target.addr)
			}
			if tb.kind == "reset" {
				// forwarding to a backend that reset: Forward ends by itself once the client leaves
				labels["forwarding-to-reset-backend"] = true
				_ = client.Close()
				select {
				case <-done:
				case <-time.After(c30fWait):
					return inconclusive("forward-did-not-return")
				}
				break
			}
			open++
			openPer[tb.addr]++
			if v := check(step + " forwarding"); v != nil {
				return verifkit.Result{V: v}
			}
			if cn.Hold {
				holds = append(holds, held{client: client, done: done, b: tb})
				labels["held-open"] = true
			} else {
				_ = client.Close()
				select {
				case <-done:
				case <-time.After(c30fWait):
					return inconclusive("forward-did-not-return")
				}
				open--
				openPer[tb.addr]--
			}
		default:
			// Forward returned without forwarding
			switch {
			case !anyAlive:
				labels["all-backends-refused"] = true
			case cn.Fault != "":
				labels["gave-up:injected-buffer-failure"] = true
				res.NonTrivial = true
			default:
				labels["gave-up:after-dial"] = true
				res.NonTrivial = true
			}
			_ = client.Close()
		}
		if v := check(step + " settled"); v != nil {
			return verifkit.Result{V: v}
		}
	}
	for i := len(holds) - 1; i >= 0; i-- {
		h := holds[i]
		_ = h.client.Close()
		select {
		case <-h.done:
		case <-time.After(c30fWait):
			return inconclusive("held-forward-did-not-return")
		}
		open--
		openPer[h.b.addr]--
		if v := check(fmt.Sprintf("after closing held connection %d", i)); v != nil {
			return verifkit.Result{V: v}
		}
	}
	if len(holds) > 1 {
		res.NonTrivial = true
	}
	return res
}

func c30fGen(t *rapid.T) c30fCase {
	var c c30fCase
	n := rapid.IntRange(1, 5).Draw(t, "conns")
	for i := 0; i < n; i++ {
		cn := c30fConn{
			Buffered: rapid.IntRange(0, 3).Draw(t, "buffered") != 0,
			Hold:     rapid.Bool().Draw(t, "hold"),
			Strategy: rapid.SampledFrom([]string{"sequential", "sequential", "least-connections", "round-robin", "random", "lowest-latency"}).Draw(t, "strategy"),
		}
		if rapid.IntRange(0, 5).Draw(t, "fault") == 0 {
			cn.Fault = "readbuffered-error"
		}
		cn.Backends = rapid.SliceOfN(rapid.SampledFrom([]string{"serve", "serve", "reset", "refuse"}), 1, 3).Draw(t, "backends")
		c.Conns = append(c.Conns, cn)
	}
	return c
}

const c30fRule = "1-5 client connections one after the other through the real lite.Forward over loopback TCP, each with its own route of 1-3 backends of kind {serve, reset after the forwarded handshake, refuse} and a strategy; handshake alone or with further bytes in the same segment (buffered in the proxy's reader and flushed by Forward), injected failure of the buffer read, connections held open until the end or closed at once; oracle: after every step ActiveConnections() and every backend's least-connections counter equal the number of connections being forwarded (established from Forward's own log line / return), zero at the end. Non-trivial = Forward gave up after a successful dial, or >=2 connections held at once"

// TestVerif_C30Forward is its own unit (real sockets: fewer, slower cases).
func TestVerif_C30Forward(t *testing.T) {
	verifkit.Check(t, "C30", "forward-counts", c30fRule, c30fGen, c30fRun)
}

var _ = logr.Discard
