//go:build verif

package config

// C32, sub-check "route-equality": the proxy decides with Route.Equal whether a
// live reload changed the Lite routes, and only then resets the ping cache and
// bumps the route generation. A reload that changes any route setting therefore
// starts serving fresh statuses only if Equal notices the change: for a generated
// route, changing exactly one setting must make the routes unequal, and an
// unchanged copy must stay equal.

import (
	"fmt"
	"testing"
	"time"

	"pgregory.net/rapid"

	"go.minekube.com/gate/pkg/internal/verifkit"
	"go.minekube.com/gate/pkg/util/configutil"
)

type c32eCase struct {
	Hosts    []string `json:"hosts"`
	Backends []string `json:"backends"`
	TTLms    int      `json:"ttl_ms"`
	Proxy    bool     `json:"proxy_protocol"`
	RealIP   bool     `json:"real_ip"`
	Shield   bool     `json:"tcpshield_real_ip"`
	Modify   bool     `json:"modify_virtual_host"`
	Strategy string   `json:"strategy"`
	Change   string   `json:"change"` // which single setting the reload changes
}

func c32eRoute(c c32eCase) *Route {
	return &Route{
		Host:              configutil.SingleOrMulti[string](append([]string(nil), c.Hosts...)),
		Backend:           configutil.SingleOrMulti[string](append([]string(nil), c.Backends...)),
		CachePingTTL:      configutil.Duration(time.Duration(c.TTLms) * time.Millisecond),
		ProxyProtocol:     c.Proxy,
		RealIP:            c.RealIP,
		TCPShieldRealIP:   c.Shield,
		ModifyVirtualHost: c.Modify,
		Strategy:          Strategy(c.Strategy),
	}
}

func c32eRun(c c32eCase) verifkit.Result {
	if len(c.Hosts) == 0 || len(c.Backends) == 0 {
		return verifkit.Result{Inconclusive: true, Labels: []string{"invalid-case"}}
	}
	a, same := c32eRoute(c), c32eRoute(c)
	if !a.Equal(same) || !same.Equal(a) {
		return verifkit.Fail("route-equality:copy-unequal", "a route and an unchanged copy of it are reported as different: %+v", c)
	}
	d := c
	switch c.Change {
	case "host":
		d.Hosts = append(append([]string(nil), c.Hosts...), "extra.example.org")
	case "backend":
		d.Backends = append(append([]string(nil), c.Backends...), "10.9.9.9:25565")
	case "backend-order":
		if len(c.Backends) < 2 || c.Backends[0] == c.Backends[len(c.Backends)-1] {
			return verifkit.Result{Labels: []string{"change-not-applicable"}}
		}
		d.Backends = append([]string(nil), c.Backends...)
		d.Backends[0], d.Backends[len(d.Backends)-1] = d.Backends[len(d.Backends)-1], d.Backends[0]
	case "ttl":
		d.TTLms = c.TTLms + 1000
	case "proxyProtocol":
		d.Proxy = !c.Proxy
	case "tcpShieldRealIP":
		if c.RealIP {
			return verifkit.Result{Labels: []string{"change-not-applicable"}} // the deprecated alias keeps it on
		}
		d.Shield = !c.Shield
	case "modifyVirtualHost":
		d.Modify = !c.Modify
	case "strategy":
		if c.Strategy == "round-robin" {
			d.Strategy = "least-connections"
		} else {
			d.Strategy = "round-robin"
		}
	default:
		return verifkit.Result{Inconclusive: true, Labels: []string{"invalid-case"}}
	}
	b := c32eRoute(d)
	if a.Equal(b) || b.Equal(a) {
		return verifkit.Fail("route-equality:change-unnoticed:"+c.Change, "a reload that changes only %s (%+v -> %+v) is reported as 'routes unchanged': the ping cache is not reset and the route generation stays", c.Change, c, d)
	}
	return verifkit.Result{NonTrivial: true, Labels: []string{"change:" + c.Change}}
}

func TestVerif_C32Equal(t *testing.T) {
	verifkit.Check(t, "C32", "route-equality",
		"a Lite route (1-3 hosts, 1-3 backends, ping TTL, proxyProtocol, realIP / tcpShieldRealIP, modifyVirtualHost, strategy) and a copy in which a live reload changed exactly one setting {host added, backend added, backend order, TTL, proxyProtocol, tcpShieldRealIP, modifyVirtualHost, strategy}; oracle: Route.Equal (the predicate that gates ResetPingCache and the route generation on reload) reports the change, and reports an unchanged copy as equal; every applicable case is non-trivial",
		func(t *rapid.T) c32eCase {
			return c32eCase{
				Hosts:    rapid.SliceOfNDistinct(rapid.SampledFrom([]string{"play.example.com", "*.example.org", "localhost", "mc.example.net"}), 1, 3, rapid.ID[string]).Draw(t, "hosts"),
				Backends: rapid.SliceOfNDistinct(rapid.SampledFrom([]string{"10.0.0.1:25565", "10.0.0.2:25566", "backend.internal:25565", "127.0.0.1:$1"}), 1, 3, rapid.ID[string]).Draw(t, "backends"),
				TTLms:    rapid.SampledFrom([]int{0, -1, 10000, 3600000}).Draw(t, "ttl"),
				Proxy:    rapid.Bool().Draw(t, "proxy"),
				RealIP:   rapid.IntRange(0, 3).Draw(t, "realIP") == 0,
				Shield:   rapid.Bool().Draw(t, "shield"),
				Modify:   rapid.Bool().Draw(t, "modify"),
				Strategy: rapid.SampledFrom([]string{"", "sequential", "random", "round-robin", "least-connections", "lowest-latency"}).Draw(t, "strategy"),
				Change:   rapid.SampledFrom([]string{"host", "backend", "backend-order", "ttl", "proxyProtocol", "tcpShieldRealIP", "modifyVirtualHost", "strategy"}).Draw(t, "change"),
			}
		}, c32eRun)
	_ = fmt.Sprint
}
