//go:build verif

package config

import (
	"encoding/json"
	"reflect"
	"regexp"
	"strconv"
	"strings"
	"testing"
	"time"

	"gopkg.in/yaml.v3"

	"go.minekube.com/gate/pkg/edition/java/ping"
	"go.minekube.com/gate/pkg/gate/proto"
	"go.minekube.com/gate/pkg/internal/verifkit"
	"go.minekube.com/gate/pkg/util/configutil"
	"go.minekube.com/gate/pkg/util/favicon"
	"pgregory.net/rapid"
)

// C37 (Lite config): Config.Validate reports an error exactly when a documented
// Lite constraint is broken (routes present; every route has a host and a backend;
// strategy is one of the documented names; backend addresses parse), and accepted
// configurations survive YAML / JSON strict round trips.
//
// Documentation used: config.yml (lite section), .web/docs/guide/lite.md (strategy
// table, $1 parameters), the Validate messages. Not settled by the docs and
// therefore not judged: bare hosts / unbracketed IPv6 literals / empty strings as
// backend, ports that are empty, signed or out of range, empty host strings.

type c37LFallback struct {
	Motd        string `json:"motd,omitempty"` // "" = none; else legacy or JSON component text
	VersionName string `json:"version_name,omitempty"`
	Protocol    int    `json:"protocol,omitempty"`
	HasPlayers  bool   `json:"has_players,omitempty"`
	Online      int    `json:"online,omitempty"`
	Max         int    `json:"max,omitempty"`
	Favicon     bool   `json:"favicon,omitempty"`
}

type c37LRoute struct {
	Host      []string      `json:"host"`
	Backend   []string      `json:"backend"`
	Strategy  string        `json:"strategy,omitempty"`
	TTL       int64         `json:"ttl,omitempty"`
	PP        bool          `json:"pp,omitempty"`
	RealIP    bool          `json:"real_ip,omitempty"`
	TCPShield bool          `json:"tcp_shield,omitempty"`
	ModifyVH  bool          `json:"modify_vh,omitempty"`
	Fallback  *c37LFallback `json:"fallback,omitempty"`
}

type c37LCase struct {
	Enabled bool        `json:"enabled"`
	Routes  []c37LRoute `json:"routes"`
}

const c37LFavicon = "data:image/png;base64,iVBORw0KGgoAAAANSUhEUgAAAEAAAAABCAYAAABubagXAAAAEElEQVR42mP8z8BQzzCCAQB+lAGA+H8KEAAAAABJRU5ErkJggg=="

type c37LClass int

const (
	c37LOK c37LClass = iota
	c37LBad
	c37LUnsettled
)

func c37LHostPortOK(s string) bool {
	if s == "" || strings.ContainsAny(s, " \t\r\n") {
		return false
	}
	var host, port string
	if s[0] == '[' {
		end := strings.IndexByte(s, ']')
		if end < 0 {
			return false
		}
		host = s[1:end]
		rest := s[end+1:]
		if rest == "" || rest[0] != ':' {
			return false
		}
		port = rest[1:]
	} else {
		if strings.Count(s, ":") != 1 {
			return false
		}
		i := strings.IndexByte(s, ':')
		host, port = s[:i], s[i+1:]
	}
	if strings.ContainsAny(host, "[]") || port == "" || len(port) > 5 {
		return false
	}
	for i := 0; i < len(port); i++ {
		if port[i] < '0' || port[i] > '9' {
			return false
		}
	}
	n, _ := strconv.Atoi(port)
	return n <= 65535
}

var c37LParamRe = regexp.MustCompile(`\$[0-9]`)

func c37LBackend(s string) c37LClass {
	if c37LParamRe.MatchString(s) {
		return c37LOK
	}
	if c37LHostPortOK(s) {
		return c37LOK
	}
	if s != "" && s[0] == '[' && !strings.Contains(s, "]") {
		return c37LBad
	}
	if !strings.ContainsAny(s, "[] \t\r\n") && strings.Count(s, ":") == 1 {
		port := s[strings.IndexByte(s, ':')+1:]
		if port != "" {
			if _, err := strconv.Atoi(port); err != nil {
				return c37LBad
			}
		}
	}
	return c37LUnsettled
}

var c37LStrategies = map[string]bool{"": true, "sequential": true, "random": true, "round-robin": true, "least-connections": true, "lowest-latency": true}

func c37LRef(c c37LCase) (broken []string, unsettled bool) {
	if len(c.Routes) == 0 {
		return []string{"lite-no-routes"}, false
	}
	for _, r := range c.Routes {
		if len(r.Host) == 0 {
			broken = append(broken, "lite-route-no-host")
		}
		if len(r.Backend) == 0 {
			broken = append(broken, "lite-route-no-backend")
		}
		if !c37LStrategies[r.Strategy] {
			broken = append(broken, "lite-strategy")
		}
		for _, h := range r.Host {
			if h == "" {
				unsettled = true
			}
		}
		for _, b := range r.Backend {
			switch c37LBackend(b) {
			case c37LBad:
				broken = append(broken, "lite-backend-address")
			case c37LUnsettled:
				unsettled = true
			}
		}
	}
	return
}

func c37LBuild(c c37LCase) (Config, bool) {
	cfg := Config{Enabled: c.Enabled}
	for _, r := range c.Routes {
		route := Route{
			Strategy: Strategy(r.Strategy), CachePingTTL: configutil.Duration(r.TTL), ProxyProtocol: r.PP,
			RealIP: r.RealIP, TCPShieldRealIP: r.TCPShield, ModifyVirtualHost: r.ModifyVH,
		}
		if r.Host != nil {
			route.Host = append([]string{}, r.Host...)
		}
		if r.Backend != nil {
			route.Backend = append([]string{}, r.Backend...)
		}
		if f := r.Fallback; f != nil {
			st := &Status{Version: ping.Version{Name: f.VersionName, Protocol: proto.Protocol(f.Protocol)}}
			if f.Motd != "" {
				// parse the way a config file is parsed
				var comp configutil.Component
				node := &yaml.Node{Kind: yaml.ScalarNode, Tag: "!!str", Value: f.Motd}
				if err := comp.UnmarshalYAML(node); err != nil {
					return cfg, false
				}
				st.MOTD = &comp
			}
			if f.HasPlayers {
				st.Players = &ping.Players{Online: f.Online, Max: f.Max}
			}
			if f.Favicon {
				st.Favicon = favicon.Favicon(c37LFavicon)
			}
			route.Fallback = st
		}
		cfg.Routes = append(cfg.Routes, route)
	}
	return cfg, true
}

func c37LRoundTrip(cfg *Config) *verifkit.Violation {
	type codec struct {
		name    string
		marshal func(any) ([]byte, error)
		decode  func([]byte, any) error
	}
	for _, cd := range []codec{{"yaml", yaml.Marshal, c37StrictYAML}, {"json", json.Marshal, c37StrictJSON}} {
		b, err := cd.marshal(cfg)
		if err != nil {
			return verifkit.Violationf("lite-roundtrip:"+cd.name+"-encode", "accepted Lite config cannot be serialised as %s: %v", cd.name, err)
		}
		var out Config
		if err := cd.decode(b, &out); err != nil {
			return verifkit.Violationf("lite-roundtrip:"+cd.name+"-decode", "accepted Lite config serialised as %s does not load again (strict decode): %v\n%s", cd.name, err, b)
		}
		if _, errs := out.Validate(); len(errs) > 0 {
			return verifkit.Violationf("lite-roundtrip:"+cd.name+"-revalidate", "accepted Lite config is rejected after a %s round trip: %v\n%s", cd.name, errs, b)
		}
		if d := c37Diff(reflect.ValueOf(cfg).Elem(), reflect.ValueOf(&out).Elem(), "Lite"); d != "" {
			p := d
			if i := strings.Index(p, ":"); i >= 0 {
				p = p[:i]
			}
			p = regexp.MustCompile(`\[[^\]]*\]`).ReplaceAllString(p, "[]")
			return verifkit.Violationf("lite-roundtrip:"+cd.name+"-changed:"+p, "accepted Lite config changed by a %s round trip at %s\n%s", cd.name, d, b)
		}
	}
	return nil
}

func c37LRun(c c37LCase) verifkit.Result {
	cfg, ok := c37LBuild(c)
	if !ok {
		return verifkit.Result{Labels: []string{"out-of-domain"}}
	}
	broken, unsettled := c37LRef(c)
	_, errs := cfg.Validate()
	labels := []string{}
	if unsettled {
		labels = append(labels, "not-judged")
	} else {
		switch {
		case len(broken) > 0 && len(errs) == 0:
			return verifkit.Fail("lite-validate:accepts-broken:"+broken[0], "broken documented constraints %v but Validate reported no error: %+v", broken, c)
		case len(broken) == 0 && len(errs) > 0:
			return verifkit.Fail("lite-validate:rejects-valid", "no documented constraint is broken but Validate reported %v: %+v", errs, c)
		}
	}
	multi, single, withFallback := false, false, false
	for _, r := range c.Routes {
		if len(r.Host) > 1 || len(r.Backend) > 1 {
			multi = true
		}
		if len(r.Host) == 1 || len(r.Backend) == 1 {
			single = true
		}
		if r.Fallback != nil {
			withFallback = true
		}
	}
	if len(errs) == 0 {
		labels = append(labels, "accepted")
		if v := c37LRoundTrip(&cfg); v != nil {
			return verifkit.Result{V: v}
		}
	} else {
		labels = append(labels, "rejected")
		seen := map[string]bool{}
		for _, b := range broken {
			if !seen[b] {
				seen[b] = true
				labels = append(labels, "broken:"+b)
			}
		}
	}
	if multi {
		labels = append(labels, "multi-valued")
	}
	if single {
		labels = append(labels, "single-valued")
	}
	if withFallback {
		labels = append(labels, "fallback")
	}
	return verifkit.Result{NonTrivial: !unsettled && (len(broken) > 0 || (multi && single)), Labels: labels}
}

func c37LGen(t *rapid.T) c37LCase {
	c := c37LCase{Enabled: rapid.Bool().Draw(t, "enabled")}
	n := rapid.SampledFrom([]int{1, 1, 2, 3, 0}).Draw(t, "nRoutes")
	hosts := []string{"localhost", "*.example.com", "*", "127.0.0.1", "?.a.b", "Example.COM", "true", "123", "*.domain.com", "null", "1e3", "[::1]", "~", "a b", "- x", "#c", "'q'", "k: v"}
	backends := []string{"localhost:25566", "172.16.0.12:25566", "[::1]:25565", "$1.servers.svc:25565", "server-$1:25565", "$1:$2", "backend.example.com:1", "10.0.0.10:65535", "h:0"}
	badBackends := []string{"host:abc", "[::1", "host:25565x", "host:-1x", "[::1:25565", "a.b:http", "h:1e3", "h:0x50"}
	strategies := []string{"", "sequential", "random", "round-robin", "least-connections", "lowest-latency"}
	badStrategies := []string{"roundrobin", "round_robin", "Random", "least-connection", "fastest", " random", "random ", "sequential,random"}
	for i := 0; i < n; i++ {
		r := c37LRoute{
			Strategy: rapid.SampledFrom(strategies).Draw(t, "strategy"),
			TTL:      rapid.SampledFrom([]int64{0, 0, -1, int64(60 * time.Second), int64(10 * time.Second), 1, int64(1500 * time.Millisecond), -int64(time.Second)}).Draw(t, "ttl"),
			PP:       rapid.Bool().Draw(t, "pp"), RealIP: rapid.Bool().Draw(t, "realip"), TCPShield: rapid.Bool().Draw(t, "tcpshield"), ModifyVH: rapid.Bool().Draw(t, "mvh"),
		}
		for j, k := 0, rapid.IntRange(1, 3).Draw(t, "nHosts"); j < k; j++ {
			r.Host = append(r.Host, rapid.SampledFrom(hosts).Draw(t, "host"))
		}
		for j, k := 0, rapid.IntRange(1, 3).Draw(t, "nBackends"); j < k; j++ {
			r.Backend = append(r.Backend, rapid.SampledFrom(backends).Draw(t, "backend"))
		}
		if rapid.IntRange(0, 2).Draw(t, "fallback") == 0 {
			f := &c37LFallback{
				Motd:        rapid.SampledFrom([]string{"", "§cLocalhost server is offline.\n§eCheck back later!", "§eNo server available for this host.", `{"text":"hi","color":"red"}`, "plain", "true", "123"}).Draw(t, "motd"),
				VersionName: rapid.SampledFrom([]string{"", "§cTry again later!", "§eTry example.com", "1.20.4", "true"}).Draw(t, "vname"),
				Protocol:    rapid.SampledFrom([]int{-1, 0, 765, 47}).Draw(t, "proto"),
				HasPlayers:  rapid.Bool().Draw(t, "players"),
				Favicon:     rapid.Bool().Draw(t, "favicon"),
			}
			if f.HasPlayers {
				f.Online = rapid.SampledFrom([]int{0, 1, 1000}).Draw(t, "online")
				f.Max = rapid.SampledFrom([]int{0, 1000, -1}).Draw(t, "max")
			}
			r.Fallback = f
		}
		c.Routes = append(c.Routes, r)
	}
	if n > 0 && rapid.IntRange(0, 2).Draw(t, "break") == 0 {
		i := rapid.IntRange(0, n-1).Draw(t, "badRoute")
		switch rapid.IntRange(0, 3).Draw(t, "how") {
		case 0:
			c.Routes[i].Host = nil
		case 1:
			c.Routes[i].Backend = nil
		case 2:
			c.Routes[i].Strategy = rapid.SampledFrom(badStrategies).Draw(t, "badStrategy")
		default:
			j := rapid.IntRange(0, len(c.Routes[i].Backend)-1).Draw(t, "badPos")
			c.Routes[i].Backend[j] = rapid.SampledFrom(badBackends).Draw(t, "badBackend")
		}
	}
	return c
}

func TestVerif_C37(t *testing.T) {
	verifkit.Check(t, "C37", "lite-validate",
		"0-3 routes with 1-3 hosts (wildcards, strings that look like other YAML scalars or need quoting) and 1-3 backends (host:port, bracketed IPv6, $n parameters), documented strategies, ping TTLs, flags and optional fallback status; one route in three cases broken in one way (no host, no backend, undocumented strategy, backend with a non-numeric port or unclosed bracket), or no routes at all; errs != nil <=> reference predicate; accepted configs round-trip through YAML and JSON strict decoding with equal content; non-trivial = a broken constraint, or single- and multi-valued host/backend lists together",
		c37LGen, c37LRun)
}
