//go:build verif

package lite

import (
	"errors"
	"fmt"
	"io"
	"net"
	"sort"
	"strings"
	"sync"
	"testing"
	"time"

	"github.com/go-logr/logr"
	"go.minekube.com/gate/pkg/edition/java/lite/config"
	"go.minekube.com/gate/pkg/edition/java/netmc"
	"go.minekube.com/gate/pkg/edition/java/proto/packet"
	"go.minekube.com/gate/pkg/internal/verifkit"
	"go.minekube.com/gate/pkg/util/netutil"
	"pgregory.net/rapid"
)

// C30: per connection attempt each distinct backend is tried at most once, in
// the order of the route's strategy, the attempt fails only after every backend
// failed; ActiveConnections() equals the open forwarded connections.
//
// Driven through the real findRoute (nextBackend closure), tryBackends,
// StrategyManager.TrackConnection / RecordLatency with a scripted dial outcome
// per backend; the model keeps open connections and latencies per canonical
// backend address (lower-cased host, default port 25565).

type c30Op struct {
	Kind    string `json:"kind"`              // attempt | close | latency
	Down    []bool `json:"down,omitempty"`    // attempt: per distinct backend (first-appearance order): dial fails
	Keep    bool   `json:"keep,omitempty"`    // attempt: forwarded connection stays open
	Conn    int    `json:"conn,omitempty"`    // close: which open connection (mod open)
	Backend int    `json:"backend,omitempty"` // latency: list entry (mod len)
	Micros  int    `json:"micros,omitempty"`  // latency: measured status latency
	// attempt: the client spells the host differently (1 upper case, 2 first letter
	// upper case); only for routes without '$n' backends. The route, and with it the
	// rotation / counting state, is the same.
	Spell int `json:"spell,omitempty"`
}

type c30Case struct {
	Strategy string   `json:"strategy"`
	Pattern  string   `json:"pattern"`
	Host     string   `json:"host"`
	Backends []string `json:"backends"`
	Ops      []c30Op  `json:"ops"`
}

// ---------------------------------------------------------------- fixtures

type c30NetConn struct{}

func (c *c30NetConn) Read([]byte) (int, error)    { return 0, io.EOF }
func (c *c30NetConn) Write(b []byte) (int, error) { return len(b), nil }
func (c *c30NetConn) Close() error                { return nil }
func (c *c30NetConn) LocalAddr() net.Addr {
	return &net.TCPAddr{IP: net.IPv4(127, 0, 0, 1), Port: 25565}
}
func (c *c30NetConn) RemoteAddr() net.Addr {
	return &net.TCPAddr{IP: net.IPv4(127, 0, 0, 1), Port: 40001}
}
func (c *c30NetConn) SetDeadline(time.Time) error      { return nil }
func (c *c30NetConn) SetReadDeadline(time.Time) error  { return nil }
func (c *c30NetConn) SetWriteDeadline(time.Time) error { return nil }

type c30Conn struct {
	netmc.MinecraftConn
	conn net.Conn
}

func (c *c30Conn) Conn() net.Conn { return c.conn }

// ---------------------------------------------------------------- reference

func c30AllDigits(s string) bool {
	if s == "" {
		return false
	}
	for i := 0; i < len(s); i++ {
		if s[i] < '0' || s[i] > '9' {
			return false
		}
	}
	return true
}

// c30Canon: identity of a backend = lower-cased host + port (default 25565).
func c30Canon(s string) string {
	ls := strings.ToLower(s)
	if i := strings.LastIndex(ls, ":"); i >= 0 && c30AllDigits(ls[i+1:]) && !strings.Contains(ls[:i], ":") {
		return ls[:i] + ":" + strings.TrimLeft(ls[i+1:], "0")
	}
	return ls + ":25565"
}

// c30Subst: the generated templates use only "$1" and a one-wildcard pattern
// "*<suffix>", the captured text is the lower-cased host prefix.
func c30Subst(c c30Case) (list []string, ok bool) {
	// the generated hosts carry at most a Forge suffix and surrounding dots
	if i := strings.Index(c.Host, "\x00"); i >= 0 {
		c.Host = c.Host[:i]
	}
	c.Host = strings.Trim(c.Host, ".")
	if strings.Contains(c.Host, "///") {
		return nil, false
	}
	if !strings.HasPrefix(c.Pattern, "*") {
		if !strings.EqualFold(c.Pattern, c.Host) {
			return nil, false
		}
		return append([]string(nil), c.Backends...), true
	}
	suf := strings.ToLower(c.Pattern[1:])
	lh := strings.ToLower(c.Host)
	if strings.ContainsAny(c.Pattern[1:], "*?") || !strings.HasSuffix(lh, suf) {
		return nil, false
	}
	g := strings.TrimSuffix(lh, suf)
	if strings.ContainsAny(g, "$\n") {
		return nil, false
	}
	for _, b := range c.Backends {
		list = append(list, strings.ReplaceAll(b, "$1", g))
	}
	return list, true
}

type c30Model struct {
	list     []string       // substituted backend list (config order)
	canon    []string       // canonical address per entry
	distinct []string       // distinct canonical addresses, first-appearance order
	hasDup   bool           // some backend is listed more than once (any spelling)
	open     map[string]int // open forwarded connections per canonical address
	latency  map[string]int // last measured latency per canonical address
	rrNext   int            // round-robin: entry the next clean connection must start with; -1 unknown
}

func c30NewModel(list []string) *c30Model {
	m := &c30Model{list: list, open: map[string]int{}, latency: map[string]int{}, rrNext: -1} // the starting point of the rotation is not specified
	seen := map[string]bool{}
	for _, b := range list {
		cn := c30Canon(b)
		m.canon = append(m.canon, cn)
		if seen[cn] {
			m.hasDup = true
		} else {
			seen[cn] = true
			m.distinct = append(m.distinct, cn)
		}
	}
	return m
}

// c30Attempt runs one connection attempt through the real code and judges it.
type c30Attempt struct {
	tries   []string
	addr    string
	err     error
	v       *verifkit.Violation
	aborted bool
}

func c30Routes(c c30Case) []config.Route {
	return []config.Route{{
		Host:     []string{c.Pattern},
		Backend:  append([]string(nil), c.Backends...),
		Strategy: config.Strategy(c.Strategy),
	}}
}

// c30RunAttempt drives findRoute + tryBackends. down(canon) is the scripted
// dial outcome. orderCheck (may be nil) judges each pick given the canonical
// addresses already tried in this attempt.
func c30RunAttempt(c c30Case, routes []config.Route, sm *StrategyManager, m *c30Model, down func(string) bool,
	orderCheck func(tried map[string]bool, pick string, nth int) *verifkit.Violation) (a c30Attempt, routeHost string) {
	hs := &packet.Handshake{ServerAddress: c.Host, ProtocolVersion: 765, Port: 25565, NextStatus: 2}
	_, _, route, rh, next, err := findRoute(routes, logr.Discard(), &c30Conn{conn: &c30NetConn{}}, hs, sm)
	if err != nil || route == nil {
		a.v = verifkit.Violationf("harness:no-route", "findRoute(%q) on pattern %q: %v", c.Host, c.Pattern, err)
		return a, ""
	}
	mult := map[string]int{}
	for _, b := range m.list {
		mult[b]++
	}
	cmult := map[string]int{}
	for _, cn := range m.canon {
		cmult[cn]++
	}
	exact := map[string]int{}
	tried := map[string]bool{}
	limit := 3*len(m.list) + 3
	a.addr, _, _, a.err = tryBackends(next, func(log logr.Logger, addr string) (logr.Logger, struct{}, error) {
		if a.v != nil || a.aborted {
			a.aborted = true
			return log, struct{}{}, nil // unwind
		}
		a.tries = append(a.tries, addr)
		if len(a.tries) > limit {
			a.v = verifkit.Violationf("attempt:unbounded", "more than %d tries for %d backends: %q", limit, len(m.list), a.tries)
			a.aborted = true
			return log, struct{}{}, nil
		}
		if mult[addr] == 0 {
			a.v = verifkit.Violationf("attempt:foreign-backend", "tried %q which is not in the route's backend list %q", addr, m.list)
			a.aborted = true
			return log, struct{}{}, nil
		}
		cn := c30Canon(addr)
		exact[addr]++
		if exact[addr] > mult[addr] {
			if _, perr := netutil.Parse(addr, "tcp"); perr != nil {
				a.v = verifkit.Violationf("attempt:unparsable-backend-never-removed",
					"backend %q (listed %d time(s)) was tried again in the same attempt after it failed (tries %q): an address netutil.Parse rejects (%v) is never removed from the candidate list, the attempt never ends", addr, mult[addr], a.tries, perr)
			} else if cmult[cn] > 1 {
				// the pick removed another spelling of the same backend instead of itself
				a.v = verifkit.Violationf("attempt:duplicate-backend-tried-twice",
					"backend %s was tried twice in one attempt (tries %q, list %q): entries naming the same backend are each tried", cn, a.tries, m.list)
			} else {
				a.v = verifkit.Violationf("attempt:entry-retried", "backend %q (listed %d time(s)) was tried %d times in one attempt: %q", addr, mult[addr], exact[addr], a.tries)
			}
			a.aborted = true
			return log, struct{}{}, nil
		}
		if tried[cn] {
			a.v = verifkit.Violationf("attempt:duplicate-backend-tried-twice",
				"backend %s was tried twice in one attempt (tries %q, list %q): entries naming the same backend are each tried", cn, a.tries, m.list)
			a.aborted = true
			return log, struct{}{}, nil
		}
		if orderCheck != nil {
			if v := orderCheck(tried, addr, len(a.tries)-1); v != nil {
				a.v = v
				a.aborted = true
				return log, struct{}{}, nil
			}
		}
		tried[cn] = true
		if down(cn) {
			return log, struct{}{}, errors.New("dial tcp: connection refused")
		}
		return log, struct{}{}, nil
	})
	if a.v != nil {
		return a, rh
	}
	allDown := true
	for _, cn := range m.distinct {
		if !down(cn) {
			allDown = false
		}
	}
	switch {
	case a.err != nil && !errors.Is(a.err, errAllBackendsFailed):
		a.v = verifkit.Violationf("attempt:unexpected-error", "tryBackends: %v", a.err)
	case a.err != nil:
		for _, cn := range m.distinct {
			if !tried[cn] {
				a.v = verifkit.Violationf("attempt:failed-before-exhaustion", "attempt failed although backend %s was never tried (tries %q, list %q)", cn, a.tries, m.list)
				break
			}
		}
		if a.v == nil && !allDown {
			a.v = verifkit.Violationf("attempt:failed-with-healthy-backend", "attempt failed although a backend accepts connections (tries %q)", a.tries)
		}
	default:
		if len(a.tries) == 0 || a.addr != a.tries[len(a.tries)-1] || down(c30Canon(a.addr)) {
			a.v = verifkit.Violationf("attempt:wrong-winner", "attempt reports backend %q, tries %q", a.addr, a.tries)
		}
	}
	return a, rh
}

func c30StrategyKind(s string) string {
	switch config.Strategy(s) {
	case config.StrategyRandom, config.StrategyRoundRobin, config.StrategyLeastConnections, config.StrategyLowestLatency:
		return s
	}
	return "sequential" // documented default for "" and unknown names
}

func c30Run(c c30Case) (res verifkit.Result) {
	compiledRegexCache.DeleteAll()
	pingCache.reset()
	list, ok := c30Subst(c)
	if !ok || len(list) == 0 {
		return verifkit.Result{Labels: []string{"out-of-domain"}}
	}
	sm := NewStrategyManager()
	routes := c30Routes(c)
	m := c30NewModel(list)
	kind := c30StrategyKind(c.Strategy)
	labels := []string{"strategy:" + kind}
	lab := func(s string) {
		for _, l := range labels {
			if l == s {
				return
			}
		}
		labels = append(labels, s)
	}
	if m.hasDup {
		lab("list:duplicate")
	}
	if len(m.distinct) == 1 {
		lab("list:single")
	}
	nt := m.hasDup

	type openConn struct {
		canon   string
		release func()
	}
	var open []openConn
	attemptNo := 0

	counts := func(step string) *verifkit.Violation {
		if got := sm.ActiveConnections(); int(got) != len(open) {
			return verifkit.Violationf("count:active-connections", "after %s: ActiveConnections()=%d, open forwarded connections=%d", step, got, len(open))
		}
		return nil
	}

	for oi, op := range c.Ops {
		switch op.Kind {
		case "latency":
			idx := ((op.Backend % len(list)) + len(list)) % len(list)
			us := op.Micros
			if us < 1 {
				us = 1
			}
			// what ResolveStatusResponseWithGeneration does after a successful status fetch
			sm.RecordLatency(list[idx], time.Duration(us)*time.Microsecond)
			m.latency[m.canon[idx]] = us
			lab("op:latency")
		case "close":
			if len(open) == 0 {
				continue
			}
			k := ((op.Conn % len(open)) + len(open)) % len(open)
			open[k].release()
			m.open[open[k].canon]--
			open = append(open[:k], open[k+1:]...)
			lab("op:close")
		case "attempt":
			attemptNo++
			downSet := map[string]bool{}
			anyDown := false
			for i, cn := range m.distinct {
				if i < len(op.Down) && op.Down[i] {
					downSet[cn] = true
					anyDown = true
				}
			}
			var order func(tried map[string]bool, pick string, nth int) *verifkit.Violation
			if m.hasDup && kind != "sequential" {
				lab("order:skipped-duplicates")
			}
			switch {
			case kind == "sequential":
				order = func(tried map[string]bool, pick string, nth int) *verifkit.Violation {
					for i, b := range m.list {
						if tried[m.canon[i]] {
							continue
						}
						if b != pick {
							return verifkit.Violationf("order:sequential", "try %d picked %q, config order demands %q (list %q)", nth, pick, b, m.list)
						}
						return nil
					}
					return nil
				}
			case m.hasDup:
			case kind == string(config.StrategyLeastConnections):
				order = func(tried map[string]bool, pick string, nth int) *verifkit.Violation {
					pc := m.open[c30Canon(pick)]
					for _, cn := range m.distinct {
						if !tried[cn] && m.open[cn] < pc {
							return verifkit.Violationf("order:least-connections", "try %d picked %q with %d active connections while %s has %d (open %v)", nth, pick, pc, cn, m.open[cn], m.open)
						}
					}
					if pc > 0 {
						lab("leastconn:loaded-pick")
					}
					return nil
				}
			case kind == string(config.StrategyLowestLatency):
				order = func(tried map[string]bool, pick string, nth int) *verifkit.Violation {
					pl, measured := m.latency[c30Canon(pick)]
					for _, cn := range m.distinct {
						if tried[cn] {
							continue
						}
						l, ok := m.latency[cn]
						if !ok && measured {
							return verifkit.Violationf("order:lowest-latency", "try %d picked measured backend %q while %s is unmeasured (latencies %v)", nth, pick, cn, m.latency)
						}
						if ok && measured && l < pl {
							return verifkit.Violationf("order:lowest-latency", "try %d picked %q (%dus) while %s has %dus", nth, pick, pl, cn, l)
						}
					}
					if measured {
						lab("latency:measured-pick")
					}
					return nil
				}
			case kind == string(config.StrategyRoundRobin):
				order = func(tried map[string]bool, pick string, nth int) *verifkit.Violation {
					if nth != 0 {
						return nil
					}
					if m.rrNext >= 0 && m.list[m.rrNext] != pick {
						return verifkit.Violationf("order:round-robin", "connection %d starts with %q, rotation demands %q after the previous connection (list %q)", attemptNo, pick, m.list[m.rrNext], m.list)
					}
					if m.rrNext >= 0 {
						lab("rr:rotation-checked")
					}
					return nil
				}
			}
			cc := c
			if op.Spell != 0 && !strings.Contains(strings.Join(c.Backends, ","), "$") {
				switch op.Spell {
				case 1:
					cc.Host = strings.ToUpper(c.Host)
				default:
					if c.Host != "" {
						cc.Host = strings.ToUpper(c.Host[:1]) + c.Host[1:]
					}
				}
				if cc.Host != c.Host {
					lab("host-spelled-differently")
				}
			}
			a, rh := c30RunAttempt(cc, routes, sm, m, func(cn string) bool { return downSet[cn] }, order)
			if a.v != nil {
				return verifkit.Result{V: a.v}
			}
			if kind == string(config.StrategyRoundRobin) && !m.hasDup {
				// rotation is demanded between consecutive connections that needed no retry
				if len(a.tries) == 1 {
					for i, b := range m.list {
						if b == a.tries[0] {
							m.rrNext = (i + 1) % len(m.list)
						}
					}
				} else {
					m.rrNext = -1
				}
			}
			if len(a.tries) > 1 {
				lab("attempt:retried")
				if a.err == nil {
					nt = true
					lab("attempt:fail-then-success")
				}
			}
			if a.err != nil {
				lab("attempt:all-failed")
				if len(m.distinct) > 1 {
					nt = true
				}
			} else {
				cn := c30Canon(a.addr)
				release := sm.TrackConnection(rh, a.addr) // as Forward does once the backend is connected
				m.open[cn]++
				open = append(open, openConn{cn, release})
				if v := counts(fmt.Sprintf("op %d (connection opened to %s)", oi, a.addr)); v != nil {
					return verifkit.Result{V: v}
				}
				if !op.Keep {
					release()
					m.open[cn]--
					open = open[:len(open)-1]
				} else {
					lab("op:keep-open")
				}
			}
			_ = anyDown
		default:
			continue
		}
		if v := counts(fmt.Sprintf("op %d (%s)", oi, op.Kind)); v != nil {
			return verifkit.Result{V: v}
		}
	}
	// close everything that is still open
	for len(open) > 0 {
		open[0].release()
		open = open[1:]
	}
	if got := sm.ActiveConnections(); got != 0 {
		return verifkit.Fail("count:not-zero-at-end", "all forwarded connections closed, ActiveConnections()=%d", got)
	}
	if leaked := c30CounterLeak(sm, list); leaked != "" {
		return verifkit.Fail("count:strategy-counter-leak", "all forwarded connections closed, least-connections counter still counts: %s", leaked)
	}
	return verifkit.Result{NonTrivial: nt, Labels: labels}
}

// c30CounterLeak: the per-backend counters the least-connections strategy
// reads ("fewest active") must read 0 once nothing is open.
func c30CounterLeak(sm *StrategyManager, list []string) string {
	for _, b := range list {
		if ctr := sm.getCounter(b); ctr != nil && ctr.Load() != 0 {
			return fmt.Sprintf("%s=%d", b, ctr.Load())
		}
	}
	return ""
}

// ---------------------------------------------------------------- generator

var c30Names = []string{"lobby", "hub.example.net", "10.0.0.1", "survival", "mc-a.internal"}

func c30Spell(t *rapid.T, name string) string {
	switch rapid.IntRange(0, 5).Draw(t, "spell") {
	case 0:
		return name
	case 1:
		return name + ":25565"
	case 2:
		return strings.ToUpper(name[:1]) + name[1:] + ":25565"
	case 3:
		return strings.ToUpper(name)
	case 4:
		return name + ":25566"
	default:
		return name + ":25565"
	}
}

func c30GenList(t *rapid.T, param bool, distinctOnly bool) []string {
	n := rapid.IntRange(1, 6).Draw(t, "nb")
	var list []string
	seen := map[string]bool{}
	for len(list) < n {
		var b string
		if param && rapid.IntRange(0, 2).Draw(t, "useParam") == 0 {
			b = rapid.SampledFrom([]string{"$1.svc:25565", "$1", "$1.svc", "$1:25565"}).Draw(t, "tmpl")
		} else {
			b = c30Spell(t, rapid.SampledFrom(c30Names).Draw(t, "name"))
		}
		if distinctOnly {
			k := c30Canon(strings.ReplaceAll(b, "$1", "§")) // any fixed fill: templates differ <=> results differ
			if seen[k] {
				if len(seen) >= 12 {
					break
				}
				continue
			}
			seen[k] = true
		}
		list = append(list, b)
	}
	return list
}

var c30Strategies = []string{"sequential", "", "random", "round-robin", "least-connections", "lowest-latency", "round-robin", "least-connections", "lowest-latency"}

func c30GenRoute(t *rapid.T, c *c30Case, distinctOnly bool) {
	c.Strategy = rapid.SampledFrom(c30Strategies).Draw(t, "strategy")
	param := rapid.IntRange(0, 3).Draw(t, "param") == 0
	if param {
		c.Pattern = "*.mc.example.com"
		fill := rapid.SampledFrom([]string{"lobby", "Lobby", "a.b", "x", "[x", "x]", "h:1", "eu-1", "10.0.0.1"}).Draw(t, "fill")
		c.Host = fill + ".MC.example.com"
	} else {
		c.Pattern = "mc.example.com"
		c.Host = rapid.SampledFrom([]string{"mc.example.com", "MC.Example.com.", "mc.example.com\x00FML2\x00"}).Draw(t, "host")
	}
	c.Backends = c30GenList(t, param, distinctOnly)
}

func c30Gen(t *rapid.T) c30Case {
	var c c30Case
	c30GenRoute(t, &c, rapid.IntRange(0, 2).Draw(t, "distinct") != 0)
	nd := len(c.Backends)
	nops := rapid.IntRange(1, 14).Draw(t, "nops")
	for i := 0; i < nops; i++ {
		switch k := rapid.IntRange(0, 9).Draw(t, "op"); {
		case k <= 5:
			var down []bool
			switch rapid.IntRange(0, 3).Draw(t, "downMode") {
			case 0: // all healthy
			case 1: // all down
				for j := 0; j < nd; j++ {
					down = append(down, true)
				}
			default:
				down = rapid.SliceOfN(rapid.Bool(), nd, nd).Draw(t, "down")
			}
			c.Ops = append(c.Ops, c30Op{Kind: "attempt", Down: down, Keep: rapid.Bool().Draw(t, "keep"),
				Spell: rapid.SampledFrom([]int{0, 0, 0, 1, 2}).Draw(t, "spell")})
		case k <= 7:
			c.Ops = append(c.Ops, c30Op{Kind: "close", Conn: rapid.IntRange(0, 5).Draw(t, "conn")})
		default:
			c.Ops = append(c.Ops, c30Op{Kind: "latency", Backend: rapid.IntRange(0, nd-1).Draw(t, "lb"),
				Micros: rapid.SampledFrom([]int{1, 50, 50, 120, 800, 3000, 20000}).Draw(t, "us")})
		}
	}
	return c
}

// ---------------------------------------------------------------- concurrent

type c30RaceCase struct {
	Strategy string   `json:"strategy"`
	Pattern  string   `json:"pattern"`
	Host     string   `json:"host"`
	Backends []string `json:"backends"`
	Down     []bool   `json:"down"`
	Workers  int      `json:"workers"`
	// Script[w][i]: worker w, iteration i: true = close the forwarded connection
	// right away, false = keep it until the second phase.
	Script [][]bool `json:"script"`
}

func c30RunRace(c c30RaceCase) (res verifkit.Result) {
	compiledRegexCache.DeleteAll()
	pingCache.reset()
	base := c30Case{Strategy: c.Strategy, Pattern: c.Pattern, Host: c.Host, Backends: c.Backends}
	list, ok := c30Subst(base)
	if !ok || len(list) == 0 || c.Workers < 1 || len(c.Script) < c.Workers {
		return verifkit.Result{Labels: []string{"out-of-domain"}}
	}
	m := c30NewModel(list)
	if m.hasDup {
		return verifkit.Result{Labels: []string{"out-of-domain"}}
	}
	for _, b := range list {
		if _, err := netutil.Parse(b, "tcp"); err != nil { // domain of the 'attempts' check (known finding there)
			return verifkit.Result{Labels: []string{"out-of-domain"}}
		}
	}
	downSet := map[string]bool{}
	for i, cn := range m.distinct {
		if i < len(c.Down) && c.Down[i] {
			downSet[cn] = true
		}
	}
	sm := NewStrategyManager()
	kind := c30StrategyKind(c.Strategy)

	type held struct {
		release func()
		addr    string
	}
	var (
		mu       sync.Mutex
		firstV   *verifkit.Violation
		picks    = map[string]int{}
		opened   int
		heldAll  = make([][]held, c.Workers)
		start    = make(chan struct{})
		phase1   sync.WaitGroup
		phase2go = make(chan struct{})
		phase2   sync.WaitGroup
	)
	report := func(v *verifkit.Violation) {
		mu.Lock()
		if firstV == nil {
			firstV = v
		}
		mu.Unlock()
	}
	for w := 0; w < c.Workers; w++ {
		phase1.Add(1)
		phase2.Add(1)
		go func(w int) {
			defer phase2.Done()
			func() {
				defer phase1.Done()
				defer func() {
					if p := recover(); p != nil {
						report(verifkit.Violationf("panic:concurrent-selection", "worker %d panicked in backend selection: %v", w, p))
					}
				}()
				routes := c30Routes(base) // every connection sees the shared config snapshot read-only; own copy keeps the harness race-free
				<-start
				for _, closeNow := range c.Script[w] {
					// per-attempt model state is local; shared model maps are read-only here
					a, rh := c30RunAttempt(base, routes, sm, m, func(cn string) bool { return downSet[cn] }, nil)
					if a.v != nil {
						report(a.v)
						return
					}
					if a.err != nil {
						continue
					}
					release := sm.TrackConnection(rh, a.addr)
					mu.Lock()
					picks[a.tries[0]]++
					opened++
					mu.Unlock()
					if closeNow {
						release()
					} else {
						heldAll[w] = append(heldAll[w], held{release, a.addr})
					}
				}
			}()
			<-phase2go
			defer func() {
				if p := recover(); p != nil {
					report(verifkit.Violationf("panic:concurrent-release", "worker %d panicked releasing: %v", w, p))
				}
			}()
			for _, h := range heldAll[w] {
				h.release()
			}
		}(w)
	}
	var midActive uint32
	midCounters := map[string]uint32{}
	maxOpen := 0
	for w := 0; w < c.Workers; w++ {
		maxOpen += len(c.Script[w])
	}
	wr := verifkit.Watch(10*time.Second, "lite.(*StrategyManager)", func() {
		// a status reader (the API's ActiveConnections call) runs next to the connections
		stop := make(chan struct{})
		obsDone := make(chan struct{})
		go func() {
			defer close(obsDone)
			for {
				if n := sm.ActiveConnections(); int(n) > maxOpen {
					report(verifkit.Violationf("count:active-connections-concurrent", "ActiveConnections()=%d while at most %d connections can be open", n, maxOpen))
				}
				select {
				case <-stop:
					return
				default:
				}
			}
		}()
		close(start)
		phase1.Wait()
		midActive = sm.ActiveConnections()
		// quiescent point: the least-connections counters must count exactly the
		// connections that are still open, per backend
		for _, b := range list {
			if ctr := sm.getCounter(b); ctr != nil {
				midCounters[b] = ctr.Load()
			}
		}
		close(phase2go)
		phase2.Wait()
		close(stop)
		<-obsDone
	})
	switch wr.Outcome {
	case verifkit.Deadlocked:
		return verifkit.Fail("deadlock:strategy-manager", "concurrent selection/tracking blocked:\n%s", wr.Stack)
	case verifkit.Slow:
		// cannot join the workers: give them the release signal and report inconclusive
		return verifkit.Result{Inconclusive: true, Labels: []string{"slow"}}
	case verifkit.Panicked:
		return verifkit.Fail("panic:concurrent-harness", "%v\n%s", wr.PanicValue, wr.PanicStack)
	}
	if firstV != nil {
		return verifkit.Result{V: firstV}
	}
	wantHeld := 0
	for _, hs := range heldAll {
		wantHeld += len(hs)
	}
	if int(midActive) != wantHeld {
		return verifkit.Fail("count:active-connections-concurrent", "%d forwarded connections open after the concurrent phase, ActiveConnections()=%d", wantHeld, midActive)
	}
	wantPer := map[string]uint32{}
	for _, hs := range heldAll {
		for _, h := range hs {
			wantPer[h.addr]++
		}
	}
	for _, b := range list {
		if midCounters[b] != wantPer[b] {
			return verifkit.Fail("count:strategy-counter-concurrent", "after the concurrent phase %d connections to %s are open but its least-connections counter reads %d (counters %v, open %v)", wantPer[b], b, midCounters[b], midCounters, wantPer)
		}
	}
	if got := sm.ActiveConnections(); got != 0 {
		return verifkit.Fail("count:not-zero-at-end-concurrent", "all connections closed concurrently, ActiveConnections()=%d", got)
	}
	if leaked := c30CounterLeak(sm, list); leaked != "" {
		return verifkit.Fail("count:strategy-counter-leak-concurrent", "all connections closed, least-connections counter still counts: %s", leaked)
	}
	labels := []string{"strategy:" + kind, fmt.Sprintf("workers:%d", c.Workers)}
	// observation only (not a verdict): rotation evenness under concurrency
	if kind == "round-robin" && len(downSet) == 0 && opened > 0 {
		lo, hi := opened, 0
		for _, b := range list {
			if picks[b] < lo {
				lo = picks[b]
			}
			if picks[b] > hi {
				hi = picks[b]
			}
		}
		verifkit.AddNote("C30", "concurrent", "rr_rounds", 1)
		if hi-lo > 1 {
			verifkit.AddNote("C30", "concurrent", "rr_rounds_uneven(lost index updates, observation only)", 1)
			labels = append(labels, "rr:uneven-observed")
		}
	}
	sort.Strings(labels)
	return verifkit.Result{NonTrivial: c.Workers >= 2 && opened > 0, Labels: labels}
}

func c30GenRace(t *rapid.T) c30RaceCase {
	var b c30Case
	c30GenRoute(t, &b, true)
	c := c30RaceCase{Strategy: b.Strategy, Pattern: b.Pattern, Host: b.Host, Backends: b.Backends}
	if strings.ContainsAny(c.Host, "[]:") { // unparsable substitutions are the sequential check's subject
		c.Host = "lobby.MC.example.com"
	}
	c.Down = rapid.SliceOfN(rapid.SampledFrom([]bool{false, false, false, true}), len(c.Backends), len(c.Backends)).Draw(t, "down")
	c.Workers = rapid.IntRange(2, 8).Draw(t, "workers")
	for w := 0; w < c.Workers; w++ {
		c.Script = append(c.Script, rapid.SliceOfN(rapid.Bool(), 5, 40).Draw(t, "script"))
	}
	return c
}

const c30Rule = "one route, 1-6 backends (duplicates: same address, default port spelled or not, other letter case, in 1/3 of the cases; '$1' templates filled from the host incl. '[x' / 'x]'), strategy sequential/''/random/round-robin/least-connections/lowest-latency; history of connection attempts (the client's host in the configured spelling, upper case or capitalised: same route, same rotation and counting state) with scripted dial outcome per backend, kept-open connections, closes and recorded latencies through findRoute+tryBackends+TrackConnection; oracle: no backend twice per attempt, order per strategy model (sequential exact; round-robin between consecutive retry-free connections; least-connections/lowest-latency as validity of the pick), failure only after all failed, ActiveConnections()==open after every op and 0 at the end. Non-trivial = list with a duplicate, or a failed dial before a success, or all of >=2 backends failed"

func TestVerif_C30(t *testing.T) {
	verifkit.Check(t, "C30", "attempts", c30Rule, c30Gen, c30Run)
}

// TestVerif_C30Race is run by the -race unit: concurrent connections on one
// StrategyManager.
func TestVerif_C30Race(t *testing.T) {
	verifkit.Check(t, "C30", "concurrent",
		"2-8 goroutines released from one barrier, each 5-40 connection attempts on the shared StrategyManager (distinct backends, scripted outcomes), closing at once or holding until a second concurrent release phase; per-attempt oracles as in 'attempts' (no order), ActiveConnections()==held at the quiescent point and 0 at the end, strategy counters 0; race detector active. Non-trivial = >=2 workers and >=1 forwarded connection",
		c30GenRace, c30RunRace)
}
