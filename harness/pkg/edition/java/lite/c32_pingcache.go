//go:build verif

package lite

import (
	"errors"
	"fmt"
	"sync"
	"testing"
	"time"

	"go.minekube.com/gate/pkg/edition/java/proto/packet"
	"go.minekube.com/gate/pkg/gate/proto"
	"go.minekube.com/gate/pkg/internal/verifkit"
	"golang.org/x/sync/singleflight"
	"pgregory.net/rapid"
)

// C32 (part "schedule"): newPingStatusCache(now, group) with a scripted clock and
// a scripted flight group. The harness is a cooperative scheduler: every request
// goroutine and every flight goroutine is parked at a control point
//
//	request:  after get() missed | at group.DoChan entry | waiting for the flight's result
//	flight:   created (fn not started) | inside the loader | done (result not yet delivered to a waiter)
//
// and exactly one of them runs between two schedule steps, so a generated op
// list is a complete, reproducible interleaving. Single-flight semantics (one
// call per flight key while it is in flight, forgotten when fn returns) are
// provided by the harness group, as x/sync/singleflight documents them.

type c32Key struct {
	Backend  string `json:"backend"`
	Protocol int    `json:"protocol"`
	RouteGen uint64 `json:"routeGen"`
	TTLSec   int    `json:"ttlSec"`
}

type c32Op struct {
	Kind    string `json:"kind"`              // req | step | reset | clock
	Key     int    `json:"key,omitempty"`     // req: key; clock/expiry: key whose cached entry is the reference
	Run     int    `json:"run,omitempty"`     // req: 0 = only the get() look; 1 = continue until its flight is inside the backend fetch; 2 = until answered
	Who     string `json:"who,omitempty"`     // step: preferred kind of parked actor: "req" | "flight" | "deliver" ("" = any)
	Pick    int    `json:"pick,omitempty"`    // step: which parked actor of that kind advances (mod their number)
	Fail    bool   `json:"fail,omitempty"`    // a backend fetch released by this op fails
	Mode    string `json:"mode,omitempty"`    // clock: advance | expiry
	DeltaNs int64  `json:"deltaNs,omitempty"` // clock: advance by / offset from the entry's expiry
}

type c32Case struct {
	Keys []c32Key `json:"keys"`
	Ops  []c32Op  `json:"ops"`
}

type c32Ev struct {
	kind string // finished | missed | dochan | joined | loader-start | fn-done | panic
	s    string
}

type c32Loader struct {
	n          int
	key        int
	startStep  int
	startEpoch int
	genEpoch   int // epoch in which the leading request entered load() (= the cache generation it captured)
	returned   bool
	fail       bool
	val        *pingResult
	stored     bool
	storeEpoch int
	exp        time.Time
}

type c32Req struct {
	id         int
	key        int
	startEpoch int
	loadEpoch  int
	state      int // 0 parked after miss, 1 parked at DoChan, 2 waiting for flight, 3 finished
	ev         chan c32Ev
	resume     chan bool
	ch         chan singleflight.Result
	flight     *c32Flight
	answer     *pingResult
}

type c32Flight struct {
	id      int
	fkey    string
	leader  *c32Req
	waiters []*c32Req // joined, result not delivered yet
	state   int       // 0 created, 1 inside loader, 2 done
	ev      chan c32Ev
	start   chan bool
	release chan bool // loader outcome: true = fail
	result  singleflight.Result
	loader  *c32Loader
}

type c32H struct {
	c       c32Case
	cache   *pingStatusCache
	mu      sync.Mutex // guards now (read from the code under test)
	now     time.Time
	wall0   time.Time
	step    int
	epoch   int
	cur     *c32Req
	reqs    []*c32Req
	flights []*c32Flight
	inFl    map[string]*c32Flight
	loaders []*c32Loader
	byPtr   map[*pingResult]*c32Loader
	model   map[int]*c32Loader // key -> last stored loader
	wg      sync.WaitGroup
	labels  map[string]bool
	v       *verifkit.Violation

	resetDuringFlight bool
	nt                bool
}

func (h *c32H) clock() time.Time { h.mu.Lock(); defer h.mu.Unlock(); return h.now }
func (h *c32H) setNow(t time.Time) {
	h.mu.Lock()
	if t.After(h.now) { // monotone, like time.Now
		h.now = t
	}
	h.mu.Unlock()
}
func (h *c32H) lab(s string) { h.labels[s] = true }
func (h *c32H) fail(key, format string, a ...any) {
	if h.v == nil {
		h.v = verifkit.Violationf(key, format, a...)
	}
}

func (h *c32H) pkey(k int) pingKey {
	kk := h.c.Keys[k]
	return pingKey{backendAddr: kk.Backend, protocol: proto.Protocol(kk.Protocol), routeGeneration: kk.RouteGen}
}
func (h *c32H) ttl(k int) time.Duration { return time.Duration(h.c.Keys[k].TTLSec) * time.Second }

// ---- scripted flight group

type c32Group struct{ h *c32H }

func (g *c32Group) DoChan(key string, fn func() (any, error)) <-chan singleflight.Result {
	h := g.h
	r := h.cur
	r.ev <- c32Ev{kind: "dochan", s: key}
	if !<-r.resume {
		panic("c32: aborted")
	}
	ch := make(chan singleflight.Result, 1)
	r.ch = ch
	f := h.inFl[key]
	if f == nil {
		f = &c32Flight{id: len(h.flights), fkey: key, leader: r, ev: make(chan c32Ev), start: make(chan bool), release: make(chan bool)}
		h.flights = append(h.flights, f)
		h.inFl[key] = f
		h.wg.Add(1)
		go func() {
			defer h.wg.Done()
			defer func() {
				if p := recover(); p != nil {
					f.ev <- c32Ev{kind: "panic", s: fmt.Sprint(p)}
				}
			}()
			if !<-f.start {
				return
			}
			v, err := fn()
			f.result = singleflight.Result{Val: v, Err: err, Shared: len(f.waiters) > 1}
			f.ev <- c32Ev{kind: "fn-done"}
		}()
	}
	f.waiters = append(f.waiters, r)
	r.flight = f
	r.ev <- c32Ev{kind: "joined"}
	return ch
}

// loaderFor is the `load` argument request r passes to pingStatusCache.load: the
// backend status fetch. It runs on the flight goroutine of the flight r leads.
func (h *c32H) loaderFor(r *c32Req) func() *pingResult {
	return func() *pingResult {
		f := r.flight
		if f == nil || f.leader != r {
			panic("c32: loader called outside the flight its request leads")
		}
		l := &c32Loader{n: len(h.loaders), key: r.key, startStep: h.step, startEpoch: h.epoch, genEpoch: r.loadEpoch}
		h.loaders = append(h.loaders, l)
		f.loader = l
		f.ev <- c32Ev{kind: "loader-start"}
		l.fail = <-f.release
		l.returned = true
		if l.fail {
			l.val = &pingResult{err: errors.New("backend status fetch failed")}
		} else {
			l.val = &pingResult{res: &packet.StatusResponse{Status: fmt.Sprintf("status#%d(key %d)", l.n, r.key)}}
		}
		h.byPtr[l.val] = l
		return l.val
	}
}

// ---- oracle pieces

// judgeHit: value v was served from the cache for key k at the current step.
func (h *c32H) judgeHit(v *pingResult, k int, where string) {
	l := h.byPtr[v]
	now := h.clock()
	switch {
	case l == nil:
		h.fail("answer:unknown-value", "%s for key %d returned a value no backend fetch produced", where, k)
	case l.key != k:
		h.fail("key:answer-from-other-key", "%s for key %d (%+v) served the status fetched for key %d (%+v)", where, k, h.c.Keys[k], l.key, h.c.Keys[l.key])
	case !l.stored || l.storeEpoch != h.epoch:
		h.fail("stale:cache-hit-from-before-reset", "%s for key %d at step %d served fetch #%d from the cache although it was obtained before the last reset (fetch started in epoch %d, now epoch %d)", where, k, h.step, l.n, l.startEpoch, h.epoch)
	case now.Equal(l.exp):
		h.fail("ttl:served-at-expiry", "%s for key %d served fetch #%d from the cache exactly at its expiry (TTL %v fully elapsed)", where, k, l.n, h.ttl(k))
	case now.After(l.exp):
		h.fail("ttl:served-after-expiry", "%s for key %d served fetch #%d from the cache %v after its TTL %v ended", where, k, l.n, now.Sub(l.exp), h.ttl(k))
	}
	if l != nil && l.stored && now.Before(l.exp) && !now.Add(time.Second).Before(l.exp) {
		h.lab("hit:last-second-of-ttl")
	}
}

func (h *c32H) validEntry(k int) *c32Loader {
	l := h.model[k]
	if l != nil && l.stored && l.storeEpoch == h.epoch && h.clock().Before(l.exp) {
		return l
	}
	return nil
}

// finished: request r got its answer.
func (h *c32H) finished(r *c32Req) {
	r.state = 3
	l := h.byPtr[r.answer]
	switch {
	case r.answer == nil:
		h.fail("answer:nil", "request %d for key %d got no answer", r.id, r.key)
	case l == nil:
		h.fail("answer:unknown-value", "request %d for key %d got a value no backend fetch produced", r.id, r.key)
	case l.key != r.key:
		h.fail("key:answer-from-other-key", "request %d for key %d (%+v) was answered with the status fetched for key %d (%+v)", r.id, r.key, h.c.Keys[r.key], l.key, h.c.Keys[l.key])
	case l.startEpoch < r.startEpoch:
		h.fail("stale:answer-from-before-reset", "request %d for key %d started after reset no. %d but was answered with fetch #%d that started before that reset (in epoch %d)", r.id, r.key, r.startEpoch, l.n, l.startEpoch)
	}
	if h.resetDuringFlight && r.startEpoch > 0 {
		h.nt = true
	}
}

// ---- scheduler

type c32Actor struct {
	r *c32Req
	f *c32Flight
	w *c32Req // deliver f's result to w
}

func (h *c32H) parked(who string) []c32Actor {
	var out []c32Actor
	if who == "" || who == "req" {
		for _, r := range h.reqs {
			if r.state == 0 || r.state == 1 {
				out = append(out, c32Actor{r: r})
			}
		}
	}
	for _, f := range h.flights {
		switch f.state {
		case 0, 1:
			if who == "" || who == "flight" {
				out = append(out, c32Actor{f: f})
			}
		case 2:
			if who == "" || who == "deliver" {
				for _, w := range f.waiters {
					out = append(out, c32Actor{f: f, w: w})
				}
			}
		}
	}
	if len(out) == 0 && who != "" {
		return h.parked("")
	}
	return out
}

// runReq advances request r (and the flight it waits for) until its flight is
// inside the backend fetch (mode 1) or until it is answered (mode 2). Every
// atomic move is one schedule step.
func (h *c32H) runReq(r *c32Req, mode int, fail bool) {
	for i := 0; i < 12 && r.state != 3 && h.v == nil; i++ {
		switch {
		case r.state == 0 || r.state == 1:
			h.step++
			h.advance(c32Actor{r: r}, fail)
		case r.flight == nil:
			return
		case r.flight.state == 0:
			h.step++
			h.advance(c32Actor{f: r.flight}, fail)
		case r.flight.state == 1:
			if mode == 1 {
				return
			}
			h.step++
			h.advance(c32Actor{f: r.flight}, fail)
		case r.flight.state == 2:
			h.step++
			h.advance(c32Actor{f: r.flight, w: r}, fail)
		default:
			return
		}
	}
}

func (h *c32H) onReqEvent(r *c32Req, ev c32Ev, stage string) {
	switch ev.kind {
	case "finished":
		if stage != "delivery" {
			h.judgeHit(r.answer, r.key, fmt.Sprintf("request %d (%s)", r.id, stage))
			h.lab("hit:" + stage)
		}
		h.finished(r)
	case "missed":
		r.state = 0
	case "dochan":
		r.state = 1
	case "joined":
		r.state = 2
		if r.flight != nil && r.flight.leader != r {
			h.lab("joined-flight-in-progress")
		}
	case "panic":
		r.state = 3
		h.fail("panic:pingcache", "request %d: %s", r.id, ev.s)
	}
}

func (h *c32H) startReq(k int) {
	r := &c32Req{id: len(h.reqs), key: k, startEpoch: h.epoch, ev: make(chan c32Ev), resume: make(chan bool)}
	h.reqs = append(h.reqs, r)
	want := h.validEntry(k)
	h.cur = r
	h.wg.Add(1)
	go func() {
		defer h.wg.Done()
		defer func() {
			if p := recover(); p != nil {
				if fmt.Sprint(p) == "c32: aborted" {
					return
				}
				r.ev <- c32Ev{kind: "panic", s: fmt.Sprint(p)}
			}
		}()
		// resolveStatusResponse: fast path get(), then load() on its own goroutine
		if v := h.cache.get(h.pkey(k)); v != nil {
			r.answer = v
			r.ev <- c32Ev{kind: "finished"}
			return
		}
		r.ev <- c32Ev{kind: "missed"}
		if !<-r.resume {
			return
		}
		r.answer = h.cache.load(h.pkey(k), h.ttl(k), h.loaderFor(r))
		r.ev <- c32Ev{kind: "finished"}
	}()
	ev := <-r.ev
	if want != nil {
		if ev.kind != "finished" {
			h.fail("cache:valid-entry-not-served", "request %d for key %d: fetch #%d was cached %v ago in this epoch with TTL %v, but get() missed", r.id, k, want.n, h.clock().Sub(want.exp.Add(-h.ttl(k))), h.ttl(k))
		} else if r.answer != want.val {
			h.fail("cache:unexpected-value", "request %d for key %d: cache served another value than the last stored fetch #%d", r.id, k, want.n)
		}
	}
	h.onReqEvent(r, ev, "get")
}

func (h *c32H) advance(a c32Actor, failLoader bool) {
	switch {
	case a.w != nil: // deliver the flight's result to one waiter
		f, w := a.f, a.w
		for i, x := range f.waiters {
			if x == w {
				f.waiters = append(f.waiters[:i], f.waiters[i+1:]...)
				break
			}
		}
		w.ch <- f.result
		ev := <-w.ev
		h.onReqEvent(w, ev, "delivery")
	case a.r != nil:
		r := a.r
		h.cur = r
		if r.state == 0 {
			r.loadEpoch = h.epoch
			r.resume <- true
			h.onReqEvent(r, <-r.ev, "load-entry")
		} else {
			r.resume <- true
			h.onReqEvent(r, <-r.ev, "")
		}
	default:
		f := a.f
		if f.state == 0 {
			f.start <- true
		} else {
			f.release <- failLoader
		}
		ev := <-f.ev
		switch ev.kind {
		case "panic":
			f.state = 3
			h.fail("panic:pingcache", "flight %s: %s", f.fkey, ev.s)
			// waiters can never be answered; unblock them with an error result
			f.result = singleflight.Result{Val: &pingResult{err: errors.New("harness: flight panicked")}}
			h.byPtr[f.result.Val.(*pingResult)] = &c32Loader{n: -1, key: f.leader.key, startEpoch: h.epoch}
			f.state = 2
			if h.inFl[f.fkey] == f {
				delete(h.inFl, f.fkey)
			}
		case "loader-start":
			f.state = 1
			l := f.loader
			for _, o := range h.loaders {
				if o != l && !o.returned && o.key == l.key {
					if o.genEpoch == l.genEpoch {
						h.fail("flight:two-fetches-in-flight", "fetch #%d for key %d started at step %d while fetch #%d for the same key and the same cache generation (requests entered load() after reset no. %d) is still in flight", l.n, l.key, h.step, o.n, l.genEpoch)
					} else {
						h.lab("old-epoch-fetch-still-in-flight")
					}
				}
			}
		case "fn-done":
			f.state = 2
			if h.inFl[f.fkey] == f {
				delete(h.inFl, f.fkey) // singleflight forgets the key before it delivers
			}
			v, _ := f.result.Val.(*pingResult)
			l := f.loader
			if l == nil || !l.returned {
				// fn answered from the cache (second look inside the flight)
				h.judgeHit(v, f.leader.key, fmt.Sprintf("flight %q (second cache look)", f.fkey))
				h.lab("hit:inside-flight")
				break
			}
			h.lab("fetch")
			if l.fail {
				h.lab("fetch:failed")
			}
			if v != l.val {
				h.fail("answer:not-the-fetched-value", "flight %q returned another value than its backend fetch #%d", f.fkey, l.n)
			}
			// what is in the cache now? (in-package peek; expiry is wall clock at Set + ttl)
			it := h.cache.cache.Get(h.pkey(l.key))
			found := it != nil && it.Value() == l.val
			mayStore := f.leader.loadEpoch == h.epoch
			switch {
			case found && !mayStore:
				h.fail("stale:stored-after-reset", "fetch #%d for key %d belongs to a request that entered load() before the reset (epoch %d, now %d) but its result was stored", l.n, l.key, f.leader.loadEpoch, h.epoch)
			case !found && mayStore && !l.fail:
				h.fail("cache:status-not-stored", "fetch #%d for key %d succeeded without an intervening reset but is not cached", l.n, l.key)
			}
			if !mayStore {
				h.lab("fetch:discarded-after-reset")
			}
			if found {
				l.stored, l.storeEpoch, l.exp = true, h.epoch, it.ExpiresAt()
				h.model[l.key] = l
				ins := l.exp.Add(-h.ttl(l.key))
				if ins.Before(h.wall0) || ins.After(time.Now()) {
					h.fail("ttl:wrong-duration", "fetch #%d for key %d cached with expiry %v, not insertion time + TTL %v", l.n, l.key, l.exp, h.ttl(l.key))
				}
			}
		}
	}
}

func c32Run(c c32Case) verifkit.Result {
	if len(c.Keys) == 0 {
		return verifkit.Result{Labels: []string{"out-of-domain"}}
	}
	for _, k := range c.Keys {
		if k.TTLSec < 60 { // expiry inside ttlcache runs on the wall clock; keep it far away
			return verifkit.Result{Labels: []string{"out-of-domain"}}
		}
	}
	compiledRegexCache.DeleteAll()
	pingCache.reset()
	var out verifkit.Result
	wr := verifkit.Watch(10*time.Second, "lite.(*pingStatusCache)", func() { out = c32Exec(c) })
	switch wr.Outcome {
	case verifkit.Deadlocked:
		return verifkit.Fail("deadlock:pingcache", "schedule blocked inside the ping cache:\n%s", wr.Stack)
	case verifkit.Slow:
		return verifkit.Result{Inconclusive: true, Labels: []string{"slow"}}
	case verifkit.Panicked:
		return verifkit.Fail("panic:pingcache", "%v\n%s", wr.PanicValue, wr.PanicStack)
	}
	return out
}

func c32Exec(c c32Case) verifkit.Result {
	wall0 := time.Now()
	h := &c32H{c: c, now: wall0, wall0: wall0, inFl: map[string]*c32Flight{}, byPtr: map[*pingResult]*c32Loader{},
		model: map[int]*c32Loader{}, labels: map[string]bool{}}
	h.cache = newPingStatusCache(h.clock, &c32Group{h})

	for _, op := range c.Ops {
		if h.v != nil {
			break
		}
		h.step++
		switch op.Kind {
		case "req":
			h.startReq(((op.Key % len(c.Keys)) + len(c.Keys)) % len(c.Keys))
			if op.Run > 0 {
				h.runReq(h.reqs[len(h.reqs)-1], op.Run, op.Fail)
			}
		case "step":
			if p := h.parked(op.Who); len(p) > 0 {
				h.advance(p[((op.Pick%len(p))+len(p))%len(p)], op.Fail)
			}
		case "reset":
			for _, l := range h.loaders {
				if !l.returned {
					h.resetDuringFlight = true
					h.lab("reset-during-fetch")
				}
			}
			h.cache.reset()
			h.epoch++
			h.lab("reset")
		case "clock":
			k := ((op.Key % len(c.Keys)) + len(c.Keys)) % len(c.Keys)
			if op.Mode == "expiry" {
				if l := h.model[k]; l != nil && l.stored {
					h.setNow(l.exp.Add(time.Duration(op.DeltaNs)))
					if op.DeltaNs == 0 {
						h.lab("clock:exactly-at-expiry")
					}
					h.lab("clock:around-expiry")
				}
			} else if op.DeltaNs > 0 {
				h.setNow(h.clock().Add(time.Duration(op.DeltaNs)))
			}
		}
	}
	// drain: every parked actor runs to completion (FIFO), so that all goroutines are joined
	for {
		p := h.parked("")
		if len(p) == 0 {
			break
		}
		h.step++
		h.advance(p[0], false)
	}
	h.wg.Wait()
	if h.v == nil {
		for _, r := range h.reqs {
			if r.state != 3 {
				h.fail("harness:request-unfinished", "request %d did not finish", r.id)
			}
		}
	}
	if time.Since(wall0) > 30*time.Second {
		return verifkit.Result{Inconclusive: true, Labels: []string{"slow"}}
	}
	if h.v != nil {
		return verifkit.Result{V: h.v}
	}
	var labels []string
	for l := range h.labels {
		labels = append(labels, l)
	}
	// deterministic label order
	for i := range labels {
		for j := i + 1; j < len(labels); j++ {
			if labels[j] < labels[i] {
				labels[i], labels[j] = labels[j], labels[i]
			}
		}
	}
	return verifkit.Result{NonTrivial: h.nt, Labels: labels}
}

// ---- generator

func c32GenKeys(t *rapid.T) []c32Key {
	ttl := rapid.SampledFrom([]int{60, 600, 3600}).Draw(t, "ttl")
	base := c32Key{Backend: "a.example:25565", Protocol: 765, RouteGen: 1, TTLSec: ttl}
	keys := []c32Key{base}
	n := rapid.IntRange(0, 2).Draw(t, "extraKeys")
	for i := 0; i < n; i++ {
		k := base
		switch rapid.IntRange(0, 3).Draw(t, "vary") {
		case 0:
			k.Protocol = 47
		case 1:
			k.RouteGen = 2
		case 2:
			k.Backend = "b.example:25565"
		default:
			k.Backend = "2:a.example:25565" // address that starts like the numeric key parts
			k.RouteGen = 0
		}
		dup := false
		for _, o := range keys {
			if o.Backend == k.Backend && o.Protocol == k.Protocol && o.RouteGen == k.RouteGen {
				dup = true
			}
		}
		if !dup {
			keys = append(keys, k)
		}
	}
	return keys
}

func c32Gen(t *rapid.T) c32Case {
	c := c32Case{Keys: c32GenKeys(t)}
	nk := len(c.Keys)
	ttlNs := int64(c.Keys[0].TTLSec) * int64(time.Second)
	n := rapid.IntRange(4, 40).Draw(t, "nops")
	for i := 0; i < n; i++ {
		switch k := rapid.IntRange(0, 19).Draw(t, "op"); {
		case k < 6:
			key := 0
			if rapid.IntRange(0, 3).Draw(t, "otherKey") == 0 {
				key = rapid.IntRange(0, nk-1).Draw(t, "key")
			}
			c.Ops = append(c.Ops, c32Op{Kind: "req", Key: key,
				Run:  rapid.SampledFrom([]int{0, 0, 1, 1, 2}).Draw(t, "run"),
				Fail: rapid.IntRange(0, 5).Draw(t, "rfail") == 0})
		case k < 14:
			c.Ops = append(c.Ops, c32Op{Kind: "step",
				Who:  rapid.SampledFrom([]string{"", "req", "flight", "flight", "deliver"}).Draw(t, "who"),
				Pick: rapid.IntRange(0, 5).Draw(t, "pick"),
				Fail: rapid.IntRange(0, 5).Draw(t, "fail") == 0})
		case k < 16:
			c.Ops = append(c.Ops, c32Op{Kind: "reset"})
		default:
			if rapid.IntRange(0, 2).Draw(t, "expiryMode") != 0 {
				c.Ops = append(c.Ops, c32Op{Kind: "clock", Mode: "expiry", Key: rapid.IntRange(0, nk-1).Draw(t, "ckey"),
					DeltaNs: rapid.SampledFrom([]int64{-int64(time.Second), -1, 0, 0, 1, int64(time.Second)}).Draw(t, "delta")})
			} else {
				c.Ops = append(c.Ops, c32Op{Kind: "clock", Mode: "advance",
					DeltaNs: rapid.SampledFrom([]int64{int64(time.Second), ttlNs / 2, ttlNs - 1, ttlNs, 2 * ttlNs}).Draw(t, "adv")})
			}
		}
	}
	return c
}

func TestVerif_C32(t *testing.T) {
	verifkit.Check(t, "C32", "schedule",
		"1-3 cache keys differing in backend / protocol / route generation, 4-40 ops over {request(key), advance one parked actor (request after its get() miss, at DoChan entry; flight before fn, inside the backend fetch with generated success/failure; delivery of a finished flight to one waiter), reset, clock advance / clock set around a cached entry's expiry (-1s,-1ns,0,+1ns,+1s)}; the rest is drained FIFO. Oracle: answer of a request started after a reset comes from a fetch started after it; no cache hit of an entry from before the last reset or at/after its expiry; valid entries are served by get(); one fetch in flight per key and epoch; results of fetches whose request entered load() before a reset are not stored; answers belong to the request's key. Non-trivial = a reset happened while a fetch was in flight and a later request was answered",
		c32Gen, c32Run)
	c32Real(t)
}
