//go:build verif

package config

import (
	"encoding/json"
	"fmt"
	"math"
	"net"
	"reflect"
	"regexp"
	"sort"
	"strconv"
	"strings"
	"testing"
	"time"

	"gopkg.in/yaml.v3"

	liteconfig "go.minekube.com/gate/pkg/edition/java/lite/config"
	"go.minekube.com/gate/pkg/internal/verifkit"
	"go.minekube.com/gate/pkg/util/configutil"
	"pgregory.net/rapid"
)

// C37 (java config): Validate reports an error exactly when a documented
// constraint is broken, and accepted configurations survive a YAML and a JSON
// serialise -> strict decode -> Validate round trip unchanged.
//
// A case is a list of operations applied to a fresh copy of DefaultConfig. The
// reference (c37RefJava) looks only at the resulting configuration and is written
// from the documentation: config.yml comments, field comments in config.go,
// .web/docs/guide/lite.md and the wording of the validation messages. Values whose
// validity the documentation does not settle (ports that are empty / not numeric /
// out of range, try entries that match a server only case-insensitively, bare
// hosts as Lite backends, classic-mode settings while Lite mode is on, +Inf rates)
// make a case "not judged" for the accept/reject verdict.

type c37Op struct {
	K string   `json:"k"`
	S string   `json:"s,omitempty"`
	T string   `json:"t,omitempty"`
	I int      `json:"i,omitempty"`
	J int      `json:"j,omitempty"`
	F float32  `json:"f,omitempty"`
	D int64    `json:"d,omitempty"`
	B bool     `json:"b,omitempty"`
	L []string `json:"l,omitempty"`
	M []string `json:"m,omitempty"`
}

type c37Case struct {
	Ops []c37Op `json:"ops"`
}

func c37Base() Config {
	cfg := DefaultConfig
	cfg.Servers = map[string]string{}
	cfg.Try = nil
	cfg.ForcedHosts = ForcedHosts{}
	cfg.Lite = liteconfig.Config{}
	cfg.Status.Motd = defaultMotd()
	cfg.ShutdownReason = defaultShutdownReason()
	cfg.ProxyProtocolTrustedProxies = nil
	return cfg
}

func c37Apply(cfg *Config, op c37Op) bool {
	switch op.K {
	case "bind":
		cfg.Bind = op.S
	case "server":
		cfg.Servers[op.S] = op.T
	case "try":
		cfg.Try = append(cfg.Try, op.S)
	case "forced":
		cfg.ForcedHosts[op.S] = append([]string{}, op.L...)
	case "fwd":
		cfg.Forwarding.Mode = ForwardingMode(op.S)
		cfg.Forwarding.VelocitySecret = op.T
	case "level":
		cfg.Compression.Level = op.I
	case "threshold":
		cfg.Compression.Threshold = op.I
	case "quota":
		q := QuotaSettings{Enabled: op.B, OPS: op.F, Burst: op.I, MaxEntries: op.J}
		switch op.T {
		case "nan":
			q.OPS = float32(math.NaN())
		case "":
		default:
			return false
		}
		switch op.S {
		case "connections":
			cfg.Quota.Connections = q
		case "logins":
			cfg.Quota.Logins = q
		default:
			return false
		}
	case "trusted":
		cfg.ProxyProtocolTrustedProxies = append([]string{}, op.L...)
		cfg.ProxyProtocol = op.B
	case "online":
		cfg.OnlineMode = op.B
	case "plimit":
		cfg.PacketLimiter = PacketLimiter{Interval: configutil.Duration(op.D), PacketsPerSecond: op.I, BytesPerSecond: op.J}
	case "timeouts":
		cfg.ConnectionTimeout = configutil.Duration(op.D)
		cfg.ReadTimeout = configutil.Duration(int64(op.I)) * configutil.Duration(time.Millisecond)
	case "lite":
		cfg.Lite.Enabled = op.B
	case "route":
		r := liteconfig.Route{Strategy: liteconfig.Strategy(op.S), CachePingTTL: configutil.Duration(op.D), ProxyProtocol: op.B}
		if op.L != nil {
			r.Host = append([]string{}, op.L...)
		}
		if op.M != nil {
			r.Backend = append([]string{}, op.M...)
		}
		cfg.Lite.Routes = append(cfg.Lite.Routes, r)
	case "via":
		cfg.Via = Via{Enabled: op.B, Mode: op.S, Bind: op.T}
	case "flags":
		cfg.AnnounceForge = op.B
		cfg.Debug = op.I&1 != 0
		cfg.AcceptTransfers = op.I&2 != 0
		cfg.ProxyProtocolBackend = op.I&4 != 0
		cfg.ShouldPreventClientProxyConnections = op.I&8 != 0
		cfg.BuiltinCommands = op.I&16 != 0
		cfg.Status.ShowMaxPlayers = op.J
		cfg.Query = Query{Enabled: op.I&32 != 0, Port: op.J, ShowPlugins: op.I&64 != 0}
	default:
		return false
	}
	return true
}

// ---- reference predicates ------------------------------------------------------------

type c37Class int

const (
	c37OK c37Class = iota
	c37Bad
	c37Unsettled
)

// c37HostPort classifies "host:port" syntax (documented form of bind and server
// addresses: "0.0.0.0:25565", "localhost:25566"; IPv6 literals in brackets).
func c37HostPort(s string) c37Class {
	if s == "" {
		return c37Bad
	}
	if strings.ContainsAny(s, " \t\r\n") {
		return c37Unsettled
	}
	var host, port string
	if s[0] == '[' {
		end := strings.IndexByte(s, ']')
		if end < 0 {
			return c37Bad
		}
		host = s[1:end]
		rest := s[end+1:]
		if rest == "" || rest[0] != ':' {
			return c37Bad
		}
		port = rest[1:]
		if strings.ContainsAny(port, ":[]") {
			return c37Bad
		}
	} else {
		switch strings.Count(s, ":") {
		case 0:
			return c37Bad
		case 1:
		default:
			return c37Bad
		}
		i := strings.IndexByte(s, ':')
		host, port = s[:i], s[i+1:]
	}
	if strings.ContainsAny(host, "[]") {
		return c37Bad
	}
	if port == "" {
		return c37Unsettled
	}
	n := 0
	for i := 0; i < len(port); i++ {
		if port[i] < '0' || port[i] > '9' {
			return c37Unsettled
		}
		n = n*10 + int(port[i]-'0')
		if n > 65535 {
			return c37Unsettled
		}
	}
	return c37OK
}

// c37ServerName: "must consist of alphanumeric characters, '-', '_' or '.', and must
// start and end with an alphanumeric character and length be 1-63".
func c37ServerName(s string) bool {
	if len(s) < 1 || len(s) > 63 {
		return false
	}
	alnum := func(c byte) bool { return c >= 'a' && c <= 'z' || c >= 'A' && c <= 'Z' || c >= '0' && c <= '9' }
	for i := 0; i < len(s); i++ {
		if !alnum(s[i]) && s[i] != '-' && s[i] != '_' && s[i] != '.' {
			return false
		}
	}
	return alnum(s[0]) && alnum(s[len(s)-1])
}

// c37Trusted classifies one trusted-proxy entry ("IP addresses or CIDR blocks";
// IPv4-mapped forms are rejected by design, see C33 for the exact parser check).
func c37Trusted(s string) c37Class {
	if s != strings.TrimSpace(s) {
		return c37Unsettled
	}
	isMappedText := func(a string) bool {
		ip := net.ParseIP(a)
		return ip != nil && strings.Contains(a, ":") && ip.To4() != nil
	}
	if i := strings.IndexByte(s, '/'); i >= 0 {
		_, _, err := net.ParseCIDR(s)
		if err != nil {
			return c37Bad
		}
		bits := s[i+1:]
		if len(bits) > 1 && bits[0] == '0' {
			return c37Unsettled
		}
		if isMappedText(s[:i]) {
			return c37Bad
		}
		return c37OK
	}
	if net.ParseIP(s) == nil {
		if strings.Contains(s, "%") {
			return c37Unsettled
		}
		return c37Bad
	}
	if isMappedText(s) {
		return c37Bad
	}
	return c37OK
}

var c37ParamRe = regexp.MustCompile(`\$[0-9]`)

// c37LiteBackend classifies a Lite backend address ("localhost:25566",
// "$1.servers.svc:25565"). Only two shapes are clearly broken: a single
// "host:port" whose port is not a number, and an opening bracket that is never
// closed. Everything else that is not plain host:port (bare hosts, unbracketed
// IPv6 literals, empty strings, ports out of range) is not settled by the docs.
func c37LiteBackend(s string) c37Class {
	if c37ParamRe.MatchString(s) {
		return c37OK // may be valid after substitution (documented in Validate)
	}
	if c37HostPort(s) == c37OK {
		return c37OK
	}
	if s != "" && s[0] == '[' && !strings.Contains(s, "]") {
		return c37Bad
	}
	if !strings.ContainsAny(s, "[] \t\r\n") && strings.Count(s, ":") == 1 {
		port := s[strings.IndexByte(s, ':')+1:]
		if port != "" {
			if _, err := strconv.Atoi(port); err != nil {
				return c37Bad // a port that is not a number cannot be dialled
			}
		}
	}
	return c37Unsettled
}

var c37Strategies = map[string]bool{"": true, "sequential": true, "random": true, "round-robin": true, "least-connections": true, "lowest-latency": true}

// c37RefLite: routes must exist, every route needs a host and a backend, the
// strategy must be a documented one, backend addresses must parse.
func c37RefLite(l liteconfig.Config) (broken []string, unsettled bool) {
	if len(l.Routes) == 0 {
		return []string{"lite-no-routes"}, false
	}
	for _, r := range l.Routes {
		if len(r.Host) == 0 {
			broken = append(broken, "lite-route-no-host")
		}
		if len(r.Backend) == 0 {
			broken = append(broken, "lite-route-no-backend")
		}
		if !c37Strategies[string(r.Strategy)] {
			broken = append(broken, "lite-strategy")
		}
		for _, h := range r.Host {
			if h == "" {
				unsettled = true
			}
		}
		for _, b := range r.Backend {
			switch c37LiteBackend(b) {
			case c37Bad:
				broken = append(broken, "lite-backend-address")
			case c37Unsettled:
				unsettled = true
			}
		}
	}
	return
}

func c37RefQuota(q QuotaSettings) (broken []string, unsettled bool) {
	if !q.Enabled {
		return nil, false
	}
	switch {
	case math.IsNaN(float64(q.OPS)):
		broken = append(broken, "quota-ops-nan")
	case math.IsInf(float64(q.OPS), 1):
		unsettled = true
	case !(q.OPS > 0):
		broken = append(broken, "quota-ops")
	}
	if q.Burst < 1 {
		broken = append(broken, "quota-burst")
	}
	if q.MaxEntries < 1 {
		broken = append(broken, "quota-max-entries")
	}
	return
}

func c37RefClassic(c *Config) (broken []string, unsettled bool) {
	if c.Via.Enabled {
		switch c.Via.Mode {
		case "", "embedded", "subprocess":
		default:
			broken = append(broken, "via-mode")
		}
		if c.Via.Bind != "" {
			switch c37HostPort(c.Via.Bind) {
			case c37Bad:
				broken = append(broken, "via-bind")
			case c37Unsettled:
				unsettled = true
			}
		}
	}
	switch c.Forwarding.Mode {
	case "none", "legacy", "velocity", "bungeeguard":
	default:
		broken = append(broken, "forwarding-mode")
	}
	names := make([]string, 0, len(c.Servers))
	for n := range c.Servers {
		names = append(names, n)
	}
	sort.Strings(names)
	lower := map[string]bool{}
	for _, n := range names {
		lower[strings.ToLower(n)] = true
		if !c37ServerName(n) {
			broken = append(broken, "server-name")
		}
		switch c37HostPort(c.Servers[n]) {
		case c37Bad:
			broken = append(broken, "server-address")
		case c37Unsettled:
			unsettled = true
		}
	}
	ref := func(name, id string) {
		if _, ok := c.Servers[name]; ok {
			return
		}
		if lower[strings.ToLower(name)] {
			unsettled = true // registered under a different case
			return
		}
		broken = append(broken, id)
	}
	for _, n := range c.Try {
		ref(n, "try-reference")
	}
	hosts := make([]string, 0, len(c.ForcedHosts))
	for h := range c.ForcedHosts {
		hosts = append(hosts, h)
	}
	sort.Strings(hosts)
	for _, h := range hosts {
		for _, n := range c.ForcedHosts[h] {
			ref(n, "forced-host-reference")
		}
	}
	if c.Compression.Level < -1 || c.Compression.Level > 9 {
		broken = append(broken, "compression-level")
	}
	if c.Compression.Threshold < -1 {
		broken = append(broken, "compression-threshold")
	}
	return
}

func c37RefJava(c *Config) (broken []string, unsettled bool) {
	if strings.TrimSpace(c.Bind) == "" {
		broken = append(broken, "bind")
	} else {
		switch c37HostPort(c.Bind) {
		case c37Bad:
			broken = append(broken, "bind")
		case c37Unsettled:
			unsettled = true
		}
	}
	for _, q := range []QuotaSettings{c.Quota.Connections, c.Quota.Logins} {
		b, u := c37RefQuota(q)
		broken = append(broken, b...)
		unsettled = unsettled || u
	}
	for _, e := range c.ProxyProtocolTrustedProxies {
		switch c37Trusted(e) {
		case c37Bad:
			broken = append(broken, "trusted-proxies")
		case c37Unsettled:
			unsettled = true
		}
	}
	if c.Bedrock.Enabled || c.Bedrock.BackendFloodgate.Enabled {
		unsettled = true // not modelled here
	}
	if c.Lite.Enabled {
		b, u := c37RefLite(c.Lite)
		broken = append(broken, b...)
		unsettled = unsettled || u
		// Classic-mode settings are documented as ignored in Lite mode; whether a
		// broken one should still be an error cannot be settled from the docs.
		if cb, _ := c37RefClassic(c); len(cb) > 0 {
			unsettled = true
		}
		return
	}
	b, u := c37RefClassic(c)
	return append(broken, b...), unsettled || u
}

// ---- round trip --------------------------------------------------------------------------

func c37RoundTrip(cfg *Config) *verifkit.Violation {
	type codec struct {
		name    string
		marshal func(any) ([]byte, error)
		decode  func([]byte, any) error
	}
	for _, cd := range []codec{
		{"yaml", yaml.Marshal, c37StrictYAML},
		{"json", json.Marshal, c37StrictJSON},
	} {
		b, err := cd.marshal(cfg)
		if err != nil {
			return verifkit.Violationf("roundtrip:"+cd.name+"-encode", "accepted config cannot be serialised as %s: %v", cd.name, err)
		}
		var out Config
		if err := cd.decode(b, &out); err != nil {
			return verifkit.Violationf("roundtrip:"+cd.name+"-decode", "accepted config serialised as %s does not load again (strict decode): %v\n%s", cd.name, err, c37Clip(b))
		}
		if _, errs := out.Validate(); len(errs) > 0 {
			return verifkit.Violationf("roundtrip:"+cd.name+"-revalidate", "accepted config is rejected after a %s round trip: %v\n%s", cd.name, errs, c37Clip(b))
		}
		if d := c37Diff(reflect.ValueOf(cfg).Elem(), reflect.ValueOf(&out).Elem(), "Config"); d != "" {
			return verifkit.Violationf("roundtrip:"+cd.name+"-changed:"+c37PathKey(d), "accepted config changed by a %s round trip at %s\n%s", cd.name, d, c37Clip(b))
		}
	}
	return nil
}

// c37PathKey reduces a diff path to a stable field path (indices and values removed).
func c37PathKey(d string) string {
	p := d
	if i := strings.Index(p, ":"); i >= 0 {
		p = p[:i]
	}
	p = regexp.MustCompile(`\[[^\]]*\]`).ReplaceAllString(p, "[]")
	return p
}

func c37Clip(b []byte) string {
	s := string(b)
	// drop the long favicon data uri for readability
	s = regexp.MustCompile(`data:image/png;base64,[A-Za-z0-9+/=]{64,}`).ReplaceAllString(s, "data:image/png;base64,...")
	if len(s) > 3000 {
		s = s[:3000] + "..."
	}
	return s
}

// ---- run ------------------------------------------------------------------------------------

func c37Run(c c37Case) verifkit.Result {
	cfg := c37Base()
	for _, op := range c.Ops {
		if !c37Apply(&cfg, op) {
			return verifkit.Result{Labels: []string{"out-of-domain"}}
		}
	}
	broken, unsettled := c37RefJava(&cfg)
	_, errs := cfg.Validate()
	labels := []string{}
	if unsettled {
		labels = append(labels, "not-judged")
	} else {
		switch {
		case len(broken) > 0 && len(errs) == 0:
			return verifkit.Fail("validate:accepts-broken:"+broken[0], "broken documented constraints %v but Validate reported no error (ops %+v)", broken, c.Ops)
		case len(broken) == 0 && len(errs) > 0:
			return verifkit.Fail("validate:rejects-valid", "no documented constraint is broken but Validate reported %v (ops %+v)", errs, c.Ops)
		}
	}
	if len(errs) == 0 {
		labels = append(labels, "accepted")
		if v := c37RoundTrip(&cfg); v != nil {
			return verifkit.Result{V: v}
		}
	} else {
		labels = append(labels, "rejected")
		seen := map[string]bool{}
		for _, b := range broken {
			if !seen[b] {
				seen[b] = true
				labels = append(labels, "broken:"+b)
			}
		}
		if len(seen) > 1 {
			labels = append(labels, "multi-broken")
		}
	}
	if cfg.Lite.Enabled {
		labels = append(labels, "lite-mode")
	}
	boundary := c37Boundary(&cfg)
	if boundary {
		labels = append(labels, "at-boundary")
	}
	return verifkit.Result{NonTrivial: boundary && !unsettled, Labels: labels}
}

// c37Boundary: some value sits exactly on (or one step beyond) a documented bound.
func c37Boundary(c *Config) bool {
	in := func(v int, set ...int) bool {
		for _, s := range set {
			if v == s {
				return true
			}
		}
		return false
	}
	if in(c.Compression.Level, -2, -1, 9, 10) && c.Compression.Level != DefaultConfig.Compression.Level {
		return true
	}
	if in(c.Compression.Threshold, -2, -1) {
		return true
	}
	for _, q := range []QuotaSettings{c.Quota.Connections, c.Quota.Logins} {
		if q.Enabled && (in(q.Burst, 0, 1) || in(q.MaxEntries, 0, 1) || q.OPS == 0 || (q.OPS > 0 && q.OPS < 1e-30)) {
			return true
		}
	}
	for n := range c.Servers {
		if in(len(n), 0, 1, 63, 64) {
			return true
		}
	}
	for _, e := range c.ProxyProtocolTrustedProxies {
		if strings.HasSuffix(e, "/0") || strings.HasSuffix(e, "/32") || strings.HasSuffix(e, "/33") || strings.HasSuffix(e, "/128") || strings.HasSuffix(e, "/129") {
			return true
		}
	}
	return false
}

// ---- generators -------------------------------------------------------------------------

var (
	c37ValidNames = []string{"lobby", "a", "Z", "Lobby1", "s-1", "a_b", "a.b", "srv.eu-1_x", "1", "007", "true", "null", "1e3", "0x1F", "on", "y", "no", "2024-01-01", "1.5", "1_000", "NaN",
		strings.Repeat("a", 63), "b" + strings.Repeat("-", 61) + "b"}
	c37InvalidNames = []string{"", strings.Repeat("a", 64), "-a", "a-", "_a", "a_", ".a", "a.", "a b", " a", "a/b", "a:b", "a*", "ä", "a\n", "-", "."}
	c37ValidAddrs   = []string{"localhost:25566", "127.0.0.1:25565", "[::1]:25565", "example.com:1", ":25565", "10.0.0.1:65535", "[fe80::1%eth0]:25565", "0.0.0.0:0", "backend.svc.cluster.local:25565"}
	c37InvalidAddrs = []string{"", "localhost", "127.0.0.1", "::1", "[::1]", "a:b:c", "[::1:25565", "::1]:25565", "fe80::1:25565", "[::1]25565", "host]:1"}
	c37ValidFwd     = []string{"none", "legacy", "velocity", "bungeeguard"}
	c37InvalidFwd   = []string{"", "Legacy", "NONE", "modern", "bungee", "velocity ", "bungeeGuard"}
	c37ValidTrusted = []string{"203.0.113.7", "198.51.100.0/24", "::1", "fc00::/7", "0.0.0.0/0", "::/0", "10.1.2.3/32", "2001:db8::1/128", "10.1.2.3/8", "127.0.0.0/8"}
	c37BadTrusted   = []string{"", "not-an-ip", "10.0.0.0/33", "10.0.0.256", "::ffff:10.0.0.1", "::ffff:10.0.0.0/104", "10.0.0.0/", "1.2.3.4:80", "::1/129", "localhost", "10.0.0.0/8,192.168.0.0/16", "/8"}
	c37ValidStrat   = []string{"", "sequential", "random", "round-robin", "least-connections", "lowest-latency"}
	c37BadStrat     = []string{"roundrobin", "round_robin", "Random", "least-connection", "fastest", " random"}
	c37ValidBackend = []string{"localhost:25566", "172.16.0.12:25566", "[::1]:25565", "$1.servers.svc:25565", "server-$1:25565", "$1:$2", "backend.example.com:1"}
	c37BadBackend   = []string{"host:abc", "[::1", "host:25565x", "host:-1x", "[::1:25565", "a.b:http"}
)

func c37Pick(t *rapid.T, label string, valid bool, ok, bad []string) string {
	if valid {
		return rapid.SampledFrom(ok).Draw(t, label)
	}
	return rapid.SampledFrom(bad).Draw(t, label)
}

// c37GenSkeleton emits ops for a valid classic configuration.
func c37GenSkeleton(t *rapid.T) (ops []c37Op, names []string) {
	n := rapid.IntRange(0, 4).Draw(t, "nServers")
	used := map[string]bool{}
	for i := 0; i < n; i++ {
		name := rapid.SampledFrom(c37ValidNames).Draw(t, "name")
		if used[strings.ToLower(name)] {
			continue
		}
		used[strings.ToLower(name)] = true
		names = append(names, name)
		ops = append(ops, c37Op{K: "server", S: name, T: rapid.SampledFrom(c37ValidAddrs).Draw(t, "addr")})
	}
	if len(names) > 0 {
		for i, k := 0, rapid.IntRange(0, 3).Draw(t, "nTry"); i < k; i++ {
			ops = append(ops, c37Op{K: "try", S: rapid.SampledFrom(names).Draw(t, "try")})
		}
		for i, k := 0, rapid.IntRange(0, 2).Draw(t, "nForced"); i < k; i++ {
			host := rapid.SampledFrom([]string{"play.example.com", "Creative.Example.com", "localhost", "*.example.com", "1.2.3.4", "true", "123"}).Draw(t, "fhost")
			var l []string
			for j, m := 0, rapid.IntRange(0, 2).Draw(t, "nFS"); j < m; j++ {
				l = append(l, rapid.SampledFrom(names).Draw(t, "fs"))
			}
			ops = append(ops, c37Op{K: "forced", S: host, L: l})
		}
	}
	return
}

// c37GenPerturbation emits one op aimed at one documented constraint; valid selects
// whether it keeps or breaks the constraint.
func c37GenPerturbation(t *rapid.T, names []string, valid bool) []c37Op {
	kinds := []string{"bind", "server-name", "server-addr", "try", "forced", "fwd", "level", "threshold", "quota", "trusted", "via", "warn-only"}
	switch rapid.SampledFrom(kinds).Draw(t, "pk") {
	case "bind":
		if valid {
			return []c37Op{{K: "bind", S: rapid.SampledFrom(c37ValidAddrs).Draw(t, "bind")}}
		}
		return []c37Op{{K: "bind", S: rapid.SampledFrom(append([]string{" ", "\t"}, c37InvalidAddrs...)).Draw(t, "bind")}}
	case "server-name":
		return []c37Op{{K: "server", S: c37Pick(t, "pname", valid, c37ValidNames, c37InvalidNames), T: "localhost:25570"}}
	case "server-addr":
		return []c37Op{{K: "server", S: "extra", T: c37Pick(t, "paddr", valid, c37ValidAddrs, c37InvalidAddrs)}}
	case "try":
		if valid && len(names) > 0 {
			return []c37Op{{K: "try", S: rapid.SampledFrom(names).Draw(t, "ptry")}}
		}
		if valid {
			return nil
		}
		return []c37Op{{K: "try", S: rapid.SampledFrom([]string{"missing", "", "nope-1", "lobby2"}).Draw(t, "ptry")}}
	case "forced":
		if valid && len(names) > 0 {
			return []c37Op{{K: "forced", S: "forced.example.com", L: []string{rapid.SampledFrom(names).Draw(t, "pfs")}}}
		}
		if valid {
			return []c37Op{{K: "forced", S: "empty.example.com"}}
		}
		l := []string{rapid.SampledFrom([]string{"missing", "", "nope-1"}).Draw(t, "pfs")}
		if len(names) > 0 && rapid.Bool().Draw(t, "mixed") {
			l = append([]string{names[0]}, l...)
		}
		return []c37Op{{K: "forced", S: "forced.example.com", L: l}}
	case "fwd":
		return []c37Op{{K: "fwd", S: c37Pick(t, "pfwd", valid, c37ValidFwd, c37InvalidFwd), T: rapid.SampledFrom([]string{"", "secret"}).Draw(t, "secret")}}
	case "level":
		if valid {
			return []c37Op{{K: "level", I: rapid.SampledFrom([]int{-1, 0, 1, 8, 9}).Draw(t, "lvl")}}
		}
		return []c37Op{{K: "level", I: rapid.SampledFrom([]int{-2, 10, -100, 11, 1 << 30}).Draw(t, "lvl")}}
	case "threshold":
		if valid {
			return []c37Op{{K: "threshold", I: rapid.SampledFrom([]int{-1, 0, 1, 2, 256, 1 << 21}).Draw(t, "thr")}}
		}
		return []c37Op{{K: "threshold", I: rapid.SampledFrom([]int{-2, -3, -256, -1 << 31}).Draw(t, "thr")}}
	case "quota":
		op := c37Op{K: "quota", S: rapid.SampledFrom([]string{"connections", "logins"}).Draw(t, "which"), B: true, F: 5, I: 10, J: 1000}
		op.F = rapid.SampledFrom([]float32{5, 0.4, 1e-38, 1e-45, 1, 3.4e38}).Draw(t, "ops")
		op.I = rapid.SampledFrom([]int{1, 2, 10, 1 << 30}).Draw(t, "burst")
		op.J = rapid.SampledFrom([]int{1, 2, 1000}).Draw(t, "maxEntries")
		if !valid {
			switch rapid.IntRange(0, 3).Draw(t, "qbreak") {
			case 0:
				op.F = rapid.SampledFrom([]float32{0, -1, -0.0001, float32(math.Copysign(0, -1))}).Draw(t, "badOps")
			case 1:
				op.I = rapid.SampledFrom([]int{0, -1}).Draw(t, "badBurst")
			case 2:
				op.J = rapid.SampledFrom([]int{0, -1}).Draw(t, "badMax")
			default:
				// everything broken but the quota is disabled: must be accepted
				op.B, op.F, op.I, op.J = false, rapid.SampledFrom([]float32{0, -1}).Draw(t, "offOps"), rapid.SampledFrom([]int{0, -1}).Draw(t, "offBurst"), 0
			}
		}
		return []c37Op{op}
	case "trusted":
		n := rapid.IntRange(1, 3).Draw(t, "nTrusted")
		var l []string
		for i := 0; i < n; i++ {
			l = append(l, rapid.SampledFrom(c37ValidTrusted).Draw(t, "tp"))
		}
		if !valid {
			l[rapid.IntRange(0, n-1).Draw(t, "tpos")] = rapid.SampledFrom(c37BadTrusted).Draw(t, "tbad")
		}
		return []c37Op{{K: "trusted", L: l, B: rapid.Bool().Draw(t, "proxyProtocol")}}
	case "via":
		if valid {
			return []c37Op{{K: "via", B: rapid.Bool().Draw(t, "viaOn"), S: rapid.SampledFrom([]string{"", "embedded", "subprocess"}).Draw(t, "viaMode"), T: rapid.SampledFrom([]string{"", "127.0.0.1:0"}).Draw(t, "viaBind")}}
		}
		if rapid.Bool().Draw(t, "viaBadMode") {
			return []c37Op{{K: "via", B: true, S: rapid.SampledFrom([]string{"native", "Embedded", "sub-process"}).Draw(t, "viaMode")}}
		}
		return []c37Op{{K: "via", B: true, S: "embedded", T: rapid.SampledFrom([]string{"127.0.0.1", "[::1]", "a:b:c"}).Draw(t, "viaBind")}}
	default: // settings that only warn or are free-form: never an error
		return []c37Op{
			{K: "online", B: rapid.Bool().Draw(t, "online")},
			{K: "plimit", I: rapid.SampledFrom([]int{-1, 0, 500}).Draw(t, "pps"), J: rapid.SampledFrom([]int{-1, 0, 1 << 20}).Draw(t, "bps"), D: rapid.SampledFrom([]int64{0, -1, int64(7 * time.Second), 1, int64(1500 * time.Millisecond)}).Draw(t, "interval")},
			{K: "timeouts", D: rapid.SampledFrom([]int64{0, int64(5 * time.Second), 1, int64(time.Hour) + 1, -int64(time.Second)}).Draw(t, "ct"), I: rapid.SampledFrom([]int{0, 30000, 1, -5}).Draw(t, "rt")},
			{K: "flags", B: rapid.Bool().Draw(t, "forge"), I: rapid.IntRange(0, 127).Draw(t, "bits"), J: rapid.SampledFrom([]int{0, -1, 1000, 25577, 1 << 31}).Draw(t, "num")},
		}
	}
}

func c37GenRoutes(t *rapid.T, valid bool) []c37Op {
	n := rapid.IntRange(1, 3).Draw(t, "nRoutes")
	var ops []c37Op
	for i := 0; i < n; i++ {
		op := c37Op{K: "route", S: rapid.SampledFrom(c37ValidStrat).Draw(t, "strat"),
			D: rapid.SampledFrom([]int64{0, -1, int64(60 * time.Second), int64(10 * time.Second)}).Draw(t, "ttl"), B: rapid.Bool().Draw(t, "rpp")}
		for j, k := 0, rapid.IntRange(1, 3).Draw(t, "nHosts"); j < k; j++ {
			op.L = append(op.L, rapid.SampledFrom([]string{"localhost", "*.example.com", "*", "127.0.0.1", "?.a.b", "Example.COM", "true", "123", "*.domain.com"}).Draw(t, "host"))
		}
		for j, k := 0, rapid.IntRange(1, 3).Draw(t, "nBackends"); j < k; j++ {
			op.M = append(op.M, rapid.SampledFrom(c37ValidBackend).Draw(t, "backend"))
		}
		ops = append(ops, op)
	}
	if !valid {
		i := rapid.IntRange(0, len(ops)-1).Draw(t, "badRoute")
		switch rapid.IntRange(0, 4).Draw(t, "routeBreak") {
		case 0:
			ops[i].L = nil
		case 1:
			ops[i].M = nil
		case 2:
			ops[i].S = rapid.SampledFrom(c37BadStrat).Draw(t, "badStrat")
		case 3:
			ops[i].M[len(ops[i].M)-1] = rapid.SampledFrom(c37BadBackend).Draw(t, "badBackend")
		default:
			ops = nil // lite enabled without routes
		}
	}
	return ops
}

func c37Gen(t *rapid.T) c37Case {
	ops, names := c37GenSkeleton(t)
	mode := rapid.SampledFrom([]string{"classic", "classic", "classic", "lite", "lite-off-routes"}).Draw(t, "mode")
	switch mode {
	case "lite":
		liteValid := rapid.IntRange(0, 2).Draw(t, "liteValid") != 0
		if rapid.Bool().Draw(t, "dropClassic") {
			ops, names = nil, nil
		}
		ops = append(ops, c37Op{K: "lite", B: true})
		ops = append(ops, c37GenRoutes(t, liteValid)...)
	case "lite-off-routes":
		// routes present but Lite disabled: they are not validated, yet must round-trip
		ops = append(ops, c37GenRoutes(t, rapid.Bool().Draw(t, "offValid"))...)
	}
	nPert := rapid.IntRange(0, 3).Draw(t, "nPert")
	// about half of the cases stay within the documented space
	allValid := rapid.IntRange(0, 2).Draw(t, "allValid") == 0
	for i := 0; i < nPert; i++ {
		valid := allValid || rapid.Bool().Draw(t, "valid")
		ops = append(ops, c37GenPerturbation(t, names, valid)...)
	}
	return c37Case{Ops: ops}
}

// ---- NaN rate (kept apart so that a finding here does not hide the rest) ----------------

func c37NaNRun(c c37Case) verifkit.Result {
	r := c37Run(c)
	if r.V == nil {
		r.Labels = append(r.Labels, "nan-rate")
	}
	return r
}

func TestVerif_C37(t *testing.T) {
	verifkit.Check(t, "C37", "java-validate",
		"fresh DefaultConfig + valid skeleton (0-4 servers incl. names that look like YAML scalars of other types, try, forced hosts; or Lite routes) + 0-3 perturbations each aimed at one documented constraint and generated either inside or just outside it (bind/address syntax, name charset and length 1/63/64, try/forced references, forwarding mode, level -2..10, threshold -2..2, quota fields at 0/1/-1 enabled and disabled, trusted proxy entries, Lite routes without host/backend, strategy names, backend syntax, via); errs != nil <=> reference predicate finds a broken constraint; accepted configs must survive YAML and JSON strict round trips with equal content; non-trivial = some value exactly on or one step beyond a documented bound",
		c37Gen, c37Run)

	verifkit.Check(t, "C37", "java-quota-nan",
		"an enabled quota whose ops is NaN (what `ops: .nan` in a YAML file decodes to): 'use a number > 0' is broken, so Validate must report an error",
		func(t *rapid.T) c37Case {
			ops, _ := c37GenSkeleton(t)
			ops = append(ops, c37Op{K: "quota", S: rapid.SampledFrom([]string{"connections", "logins"}).Draw(t, "which"), B: true, T: "nan",
				I: rapid.SampledFrom([]int{1, 10}).Draw(t, "burst"), J: rapid.SampledFrom([]int{1, 1000}).Draw(t, "maxEntries")})
			return c37Case{Ops: ops}
		}, c37NaNRun)
}

var _ = fmt.Sprintf
