//go:build verif

package proxy

// C26 (adapter): the BungeeCord responder wired as in production
// (newBungeeCordMessageResponder over a real *Proxy) with real connectedPlayer /
// serverConnection objects whose client and backend connections are recording
// fakes. This level decides what the core level cannot see: where a forwarded
// payload really ends up (a backend connection of the target server, once - not
// the players' clients), who receives chat messages and kicks, and which
// connection requests are started.

import (
	"bytes"
	"context"
	"fmt"
	"net"
	"runtime"
	"sort"
	"strings"
	"sync"
	"testing"
	"time"

	"github.com/go-logr/logr"
	"github.com/robinbraemer/event"
	"pgregory.net/rapid"

	"go.minekube.com/gate/pkg/edition/java/auth"
	"go.minekube.com/gate/pkg/edition/java/config"
	"go.minekube.com/gate/pkg/edition/java/netmc"
	"go.minekube.com/gate/pkg/edition/java/profile"
	"go.minekube.com/gate/pkg/edition/java/proto/packet"
	"go.minekube.com/gate/pkg/edition/java/proto/packet/plugin"
	"go.minekube.com/gate/pkg/edition/java/proto/state"
	"go.minekube.com/gate/pkg/edition/java/proxy/phase"
	"go.minekube.com/gate/pkg/gate/proto"
	"go.minekube.com/gate/pkg/internal/verifkit"
	"go.minekube.com/gate/pkg/util/uuid"
)

// ---------------------------------------------------------------- case

type c26APlayer struct {
	Name        string `json:"name"`
	Server      int    `json:"server"`       // index into Servers, -1 = none
	ClientProto int    `json:"client_proto"` // protocol of the client connection
	Proto       int    `json:"proto"`        // protocol of the backend connection
	// DeadBackend: the player is still in its server's player list but its backend
	// connection is already gone (after disconnect(), before the play session's
	// Disconnected() removed it). Only generated for Forward requests and never
	// for the requester.
	DeadBackend bool `json:"dead_backend,omitempty"`
}

type c26ACase struct {
	Servers   []string     `json:"servers"`
	Players   []c26APlayer `json:"players"`
	Requester int          `json:"requester"`
	Sub       string       `json:"sub"`
	A1        string       `json:"a1,omitempty"`
	A2        string       `json:"a2,omitempty"`
	Channel   string       `json:"channel,omitempty"`
	Data      []byte       `json:"data,omitempty"`
}

func c26ANumArgs(sub string) int {
	switch sub {
	case "IP", "GetServers", "GetServer", "UUID":
		return 0
	case "Connect", "IPOther", "PlayerCount", "PlayerList", "UUIDOther", "ServerIP", "GetPlayerServer", "Forward", "ForwardToPlayer":
		return 1
	}
	return 2
}

func c26AIsForward(sub string) bool { return sub == "Forward" || sub == "ForwardToPlayer" }

func c26AUUID(i int) uuid.UUID {
	return uuid.UUID{0xC2, 0x6A, 0x11, 0x22, 0x33, 0x44, 0x40, 0x55, 0x80, 0x66, 0, 0, 0, 0, 0xab, byte(i + 1)}
}
func c26AUndashed(i int) string { u := c26AUUID(i); return fmt.Sprintf("%x", u[:]) }
func c26APlayerHost(i int) string { return fmt.Sprintf("10.1.%d.%d", i, 20+i) }
func c26APlayerPort(i int) int    { return 40000 + 1111*i }
func c26AServerHost(i int) string { return fmt.Sprintf("192.168.7.%d", 10+i) }
func c26AServerPort(i int) int    { return []int{25565, 25566, 40001, 65535}[i%4] }

func (c c26ACase) forwardRemainder() []byte {
	out := verifkit.RefUTF(c.Channel)
	out = append(out, verifkit.RefU16(uint16(len(c.Data)))...)
	return append(out, c.Data...)
}

func (c c26ACase) request() []byte {
	out := verifkit.RefUTF(c.Sub)
	n := c26ANumArgs(c.Sub)
	if n >= 1 {
		out = append(out, verifkit.RefUTF(c.A1)...)
	}
	if n >= 2 {
		out = append(out, verifkit.RefUTF(c.A2)...)
	}
	if c26AIsForward(c.Sub) {
		out = append(out, c.forwardRemainder()...)
	}
	return out
}

func (c c26ACase) findPlayer(name string) int {
	for i, p := range c.Players {
		if strings.EqualFold(p.Name, name) {
			return i
		}
	}
	return -1
}

func (c c26ACase) findServer(name string) int {
	for i, s := range c.Servers {
		if strings.EqualFold(s, name) {
			return i
		}
	}
	return -1
}

func c26AChan(protocol int) string {
	if protocol >= 393 {
		return "bungeecord:main"
	}
	return "BungeeCord"
}

// ---------------------------------------------------------------- recording connection

type c26AConn struct {
	mu       sync.Mutex
	protocol proto.Protocol
	remote   net.Addr
	ctx      context.Context
	cancel   context.CancelFunc
	pkts     []proto.Packet
	writer   c26AWriter
}

func c26ANewConn(protocol int, remote net.Addr) *c26AConn {
	ctx, cancel := context.WithCancel(context.Background())
	return &c26AConn{protocol: proto.Protocol(protocol), remote: remote, ctx: ctx, cancel: cancel}
}

func (t *c26AConn) Context() context.Context { return t.ctx }
func (t *c26AConn) Close() error             { t.cancel(); return nil }
func (t *c26AConn) State() *state.Registry   { return state.Play }
func (t *c26AConn) Protocol() proto.Protocol { return t.protocol }
func (t *c26AConn) RemoteAddr() net.Addr     { return t.remote }
func (t *c26AConn) LocalAddr() net.Addr      { return &net.TCPAddr{IP: net.IPv4(127, 0, 0, 1), Port: 25577} }
func (t *c26AConn) Type() phase.ConnectionType { return phase.Vanilla }
func (t *c26AConn) SetType(phase.ConnectionType) {}
func (t *c26AConn) ActiveSessionHandler() netmc.SessionHandler { return nil }
func (t *c26AConn) SetActiveSessionHandler(*state.Registry, netmc.SessionHandler) {}
func (t *c26AConn) SwitchSessionHandler(*state.Registry) bool               { return true }
func (t *c26AConn) AddSessionHandler(*state.Registry, netmc.SessionHandler) {}
func (t *c26AConn) SetAutoReading(bool)                                     {}
func (t *c26AConn) SetProtocol(proto.Protocol)                              {}
func (t *c26AConn) SetState(*state.Registry)                                {}
func (t *c26AConn) SetOutboundState(*state.Registry)                        {}
func (t *c26AConn) SetCompressionThreshold(int) error                       { return nil }
func (t *c26AConn) EnableEncryption([]byte) error                           { return nil }
func (t *c26AConn) WritePacket(p proto.Packet) error {
	t.mu.Lock()
	t.pkts = append(t.pkts, p)
	t.mu.Unlock()
	return nil
}
func (t *c26AConn) Write([]byte) error { return nil }
func (t *c26AConn) BufferPacket(p proto.Packet) error { return t.WritePacket(p) }
func (t *c26AConn) BufferPayload([]byte) error        { return nil }
func (t *c26AConn) Flush() error                      { return nil }
func (t *c26AConn) Reader() netmc.Reader              { return nil }
func (t *c26AConn) Writer() netmc.Writer              { return &t.writer }
func (t *c26AConn) EnablePlayPacketQueue()            {}
func (t *c26AConn) packets() []proto.Packet {
	t.mu.Lock()
	defer t.mu.Unlock()
	return append([]proto.Packet(nil), t.pkts...)
}

type c26AWriter struct{}

func (c26AWriter) WritePacket(proto.Packet) (int, error) { return 0, nil }
func (c26AWriter) Write([]byte) (int, error)             { return 0, nil }
func (c26AWriter) Flush() error                          { return nil }
func (c26AWriter) SetProtocol(proto.Protocol)            {}
func (c26AWriter) SetState(*state.Registry)              {}
func (c26AWriter) SetCompressionThreshold(int) error     { return nil }
func (c26AWriter) EnableEncryption([]byte) error         { return nil }
func (c26AWriter) Direction() proto.Direction            { return proto.ClientBound }

var _ netmc.MinecraftConn = (*c26AConn)(nil)

// c26AAuthenticator is never used (no login happens); it avoids an RSA key generation per case.
type c26AAuthenticator struct{}

func (c26AAuthenticator) PublicKey() []byte                        { return nil }
func (c26AAuthenticator) Verify([]byte, []byte) (bool, error)      { return false, nil }
func (c26AAuthenticator) DecryptSharedSecret([]byte) ([]byte, error) { return nil, nil }
func (c26AAuthenticator) GenerateServerID([]byte) (string, error)  { return "", nil }
func (c26AAuthenticator) AuthenticateJoin(context.Context, string, string, string) (auth.Response, error) {
	return nil, fmt.Errorf("c26: no authentication in this harness")
}
func (c26AAuthenticator) SetHasJoinedURLFn(auth.HasJoinedURLFn) {}

// ---------------------------------------------------------------- run

const (
	c26AKeyFraming    = "forward:payload-framing"
	c26AKeyFwdPlayer  = "forward-to-player:wrong-connection"
	c26AKeyGPS        = "get-player-server:wrong-server"
	c26AKeyMsgPanic   = "panic:Message:unknown-target"
	c26AKeyMsgServer  = "message:target-treated-as-server"
	c26AKeyFwdClients = "forward:delivered-to-clients"
)

type c26AWrite struct {
	channel string
	data    []byte
}

// c26APluginWrites: the plugin messages written to a connection. The channel is the
// one on the wire: the message is encoded by gate for the connection's protocol and
// direction and the channel string is read back with the reference reader (the
// struct may carry a legacy name that the encoder maps for 1.13+ connections).
func c26APluginWrites(pkts []proto.Packet, protocol int, dir proto.Direction) (out []c26AWrite, other []string) {
	for _, p := range pkts {
		if pm, ok := p.(*plugin.Message); ok {
			ch := pm.Channel
			var buf bytes.Buffer
			if err := pm.Encode(&proto.PacketContext{Direction: dir, Protocol: proto.Protocol(protocol)}, &buf); err == nil {
				if wire, err := verifkit.NewRefReader(buf.Bytes()).String(); err == nil {
					ch = wire
				}
			}
			out = append(out, c26AWrite{ch, pm.Data})
		} else {
			other = append(other, fmt.Sprintf("%T", p))
		}
	}
	return
}

func c26ARun(c c26ACase) verifkit.Result {
	cfg := config.DefaultConfig
	cfg.BungeePluginChannelEnabled = true
	cfg.Servers = map[string]string{}
	cfg.Try = nil
	cfg.ForcedHosts = nil
	mgr := event.New()
	px, err := New(Options{Config: &cfg, EventMgr: mgr, Authenticator: c26AAuthenticator{}})
	if err != nil {
		panic(fmt.Sprintf("c26 harness: proxy.New: %v", err))
	}
	px.log = logr.Discard()

	var servers []*registeredServer
	for i, name := range c.Servers {
		rs, err := px.Register(NewServerInfo(name, &net.TCPAddr{IP: net.ParseIP(c26AServerHost(i)), Port: c26AServerPort(i)}))
		if err != nil {
			panic(fmt.Sprintf("c26 harness: Register(%q): %v", name, err))
		}
		servers = append(servers, rs.(*registeredServer))
	}
	deps := &sessionHandlerDeps{proxy: px, registrar: px, eventMgr: mgr, configProvider: px}
	var players []*connectedPlayer
	var clients, backends []*c26AConn
	for i, p := range c.Players {
		client := c26ANewConn(p.ClientProto, &net.TCPAddr{IP: net.ParseIP(c26APlayerHost(i)), Port: c26APlayerPort(i)})
		pl := newConnectedPlayer(client, &profile.GameProfile{ID: c26AUUID(i), Name: p.Name}, &net.TCPAddr{IP: net.IPv4(127, 0, 0, 1), Port: 25565},
			packet.LoginHandshakeIntent, false, nil, deps)
		if !px.registerConnection(pl) {
			panic("c26 harness: registerConnection failed")
		}
		var backend *c26AConn
		if p.Server >= 0 {
			backend = c26ANewConn(p.Proto, &net.TCPAddr{IP: net.ParseIP(c26AServerHost(p.Server)), Port: c26AServerPort(p.Server)})
			sc := newServerConnection(servers[p.Server], nil, pl)
			sc.connection = backend
			if p.DeadBackend {
				sc.connection = nil
			}
			sc.completedJoin.Store(true)
			pl.setConnectedServer(sc)
			servers[p.Server].players.add(pl)
		}
		players, clients, backends = append(players, pl), append(clients, client), append(backends, backend)
	}

	var preMu sync.Mutex
	var preConnects []string
	event.Subscribe(mgr, 0, func(e *ServerPreConnectEvent) {
		pi, si := -1, -1
		for i, pl := range players {
			if e.Player() == Player(pl) {
				pi = i
			}
		}
		for i, s := range servers {
			if e.OriginalServer() == RegisteredServer(s) {
				si = i
			}
		}
		preMu.Lock()
		preConnects = append(preConnects, fmt.Sprintf("%d<-%d", si, pi))
		preMu.Unlock()
		e.Deny() // no dialing
	})

	responder := newBungeeCordMessageResponder(true, players[c.Requester], px)
	msg := &plugin.Message{Channel: c26AChan(c.Players[c.Requester].Proto), Data: c.request()}

	labels := []string{"sub-" + c.Sub}
	for _, p := range c.Players {
		if p.DeadBackend {
			labels = append(labels, "player-with-dead-backend-on-target-list")
			break
		}
	}
	baseline := runtime.NumGoroutine()
	var panicked any
	var handled bool
	func() {
		defer func() { panicked = recover() }()
		handled = responder.Process(msg)
	}()
	// Broadcast helpers start one goroutine per recipient: join them (no verdict depends on how long this takes)
	deadline := time.Now().Add(20 * time.Second)
	for runtime.NumGoroutine() > baseline {
		if time.Now().After(deadline) {
			return verifkit.Result{Inconclusive: true, Labels: append(labels, "goroutines-did-not-finish")}
		}
		runtime.Gosched()
		time.Sleep(50 * time.Microsecond)
	}
	mgr.Wait()
	if panicked != nil {
		key := "panic:" + c.Sub
		if (c.Sub == "Message" || c.Sub == "MessageRaw") && c.A1 != "ALL" && c.findServer(c.A1) < 0 {
			key = c26AKeyMsgPanic
		}
		return verifkit.Fail(key, "Process(%s %q %q) panicked: %v", c.Sub, c.A1, c.A2, panicked)
	}
	if !handled {
		return verifkit.Fail("process:not-handled", "Process returned false for a well-formed BungeeCord message")
	}

	what := fmt.Sprintf("%s(%q,%q) by %s", c.Sub, c.A1, c.A2, c.Players[c.Requester].Name)
	req := c.Requester
	reqServer := c.Players[req].Server
	utf := verifkit.RefUTF
	join := func(parts ...[]byte) []byte { return bytes.Join(parts, nil) }
	playersOn := func(s int) (idx []int) {
		for i, p := range c.Players {
			if p.Server == s {
				idx = append(idx, i)
			}
		}
		return
	}
	// a forward can only reach a server through a player whose backend connection is alive
	healthyOn := func(s int) (n int) {
		for _, i := range playersOn(s) {
			if !c.Players[i].DeadBackend {
				n++
			}
		}
		return
	}
	namesOf := func(idx []int) string {
		var n []string
		for _, i := range idx {
			n = append(n, c.Players[i].Name)
		}
		return strings.Join(n, ", ")
	}

	// ---- reference
	expBackend := map[int][]c26AWrite{} // exact writes expected on the backend connection of a player
	var expForwardServers []int         // servers that must receive the forward payload once (on any of their connections)
	expClientMsg := map[int]int{}       // chat messages per player's client
	expKick := map[int]bool{}
	var expConnect []string
	listCompare := false
	assert := true
	respond := func(data []byte) {
		if reqServer >= 0 {
			expBackend[req] = append(expBackend[req], c26AWrite{c26AChan(c.Players[req].Proto), data})
		}
	}
	switch c.Sub {
	case "Connect":
		if s := c.findServer(c.A1); s >= 0 && s != reqServer {
			expConnect = append(expConnect, fmt.Sprintf("%d<-%d", s, req))
		}
	case "ConnectOther":
		if p, s := c.findPlayer(c.A1), c.findServer(c.A2); p >= 0 && s >= 0 && s != c.Players[p].Server {
			expConnect = append(expConnect, fmt.Sprintf("%d<-%d", s, p))
		}
	case "IP":
		respond(join(utf("IP"), utf(c26APlayerHost(req)), verifkit.RefU32(uint32(c26APlayerPort(req)))))
	case "IPOther":
		if p := c.findPlayer(c.A1); p >= 0 {
			respond(join(utf("IPOther"), utf(c.Players[p].Name), utf(c26APlayerHost(p)), verifkit.RefU32(uint32(c26APlayerPort(p)))))
		}
	case "PlayerCount":
		if c.A1 == "ALL" {
			respond(join(utf("PlayerCount"), utf("ALL"), verifkit.RefU32(uint32(len(c.Players)))))
		} else if strings.EqualFold(c.A1, "ALL") {
			assert = false
		} else if s := c.findServer(c.A1); s >= 0 {
			respond(join(utf("PlayerCount"), utf(c.Servers[s]), verifkit.RefU32(uint32(len(playersOn(s))))))
		}
	case "PlayerList":
		listCompare = true
		if c.A1 == "ALL" {
			all := make([]int, len(c.Players))
			for i := range all {
				all[i] = i
			}
			respond(join(utf("PlayerList"), utf("ALL"), utf(namesOf(all))))
		} else if strings.EqualFold(c.A1, "ALL") {
			assert = false
		} else if s := c.findServer(c.A1); s >= 0 {
			respond(join(utf("PlayerList"), utf(c.Servers[s]), utf(namesOf(playersOn(s)))))
		}
	case "GetServers":
		listCompare = true
		respond(join(utf("GetServers"), utf(strings.Join(c.Servers, ", "))))
	case "Message", "MessageRaw":
		if c.A1 == "ALL" {
			for i := range c.Players {
				expClientMsg[i]++
			}
		} else if strings.EqualFold(c.A1, "ALL") {
			assert = false
		} else if p := c.findPlayer(c.A1); p >= 0 {
			expClientMsg[p]++
		}
	case "GetServer":
		if reqServer >= 0 {
			respond(join(utf("GetServer"), utf(c.Servers[reqServer])))
		}
	case "UUID":
		respond(join(utf("UUID"), utf(c26AUndashed(req))))
	case "UUIDOther":
		if p := c.findPlayer(c.A1); p >= 0 {
			respond(join(utf("UUIDOther"), utf(c.Players[p].Name), utf(c26AUndashed(p))))
		}
	case "ServerIP":
		if s := c.findServer(c.A1); s >= 0 {
			respond(join(utf("ServerIP"), utf(c.Servers[s]), utf(c26AServerHost(s)), verifkit.RefU16(uint16(c26AServerPort(s)))))
		}
	case "KickPlayer", "KickPlayerRaw":
		if p := c.findPlayer(c.A1); p >= 0 {
			expKick[p] = true
		}
	case "Forward":
		if c.A1 == "ALL" || c.A1 == "ONLINE" {
			for s := range c.Servers {
				if s != reqServer && healthyOn(s) > 0 {
					expForwardServers = append(expForwardServers, s)
				}
			}
		} else if strings.EqualFold(c.A1, "ALL") || strings.EqualFold(c.A1, "ONLINE") {
			assert = false
		} else if s := c.findServer(c.A1); s >= 0 && healthyOn(s) > 0 {
			expForwardServers = append(expForwardServers, s)
		}
	case "ForwardToPlayer":
		if p := c.findPlayer(c.A1); p >= 0 && c.Players[p].Server >= 0 {
			expBackend[p] = append(expBackend[p], c26AWrite{c26AChan(c.Players[p].Proto), c.forwardRemainder()})
		}
	case "GetPlayerServer":
		if p := c.findPlayer(c.A1); p >= 0 && c.Players[p].Server >= 0 {
			respond(join(utf("GetPlayerServer"), utf(c.Players[p].Name), utf(c.Servers[c.Players[p].Server])))
		}
	}

	nt := c26AIsForward(c.Sub)
	if c26ANumArgs(c.Sub) >= 1 {
		if p := c.findPlayer(c.A1); p >= 0 && p != req {
			nt = true
			labels = append(labels, "names-other-player")
		}
		if c.findServer(c.A1) >= 0 || (c.Sub == "ConnectOther" && c.findServer(c.A2) >= 0) {
			nt = true
			labels = append(labels, "names-server")
		}
	}
	if !assert {
		return verifkit.Result{Labels: append(labels, "crash-freedom-only")}
	}

	// ---- observed
	preMu.Lock()
	gotConnect := append([]string(nil), preConnects...)
	preMu.Unlock()
	if fmt.Sprint(gotConnect) != fmt.Sprint(expConnect) {
		return verifkit.Fail("connect:target", "%s: connection requests started (server<-player) %v, reference %v", what, gotConnect, expConnect)
	}

	// clients: plugin messages never; chat messages / disconnects as expected
	for i := range c.Players {
		pm, other := c26APluginWrites(clients[i].packets(), c.Players[i].Proto, proto.ClientBound)
		if len(pm) > 0 {
			if c.Sub == "Forward" {
				return verifkit.Fail(c26AKeyFwdClients, "%s: the forwarded payload was written to the CLIENT connection of %s on channel %q (%d message(s)); it must be delivered to the target server's backend connection once", what, c.Players[i].Name, pm[0].channel, len(pm))
			}
			return verifkit.Fail("client:plugin-message", "%s: client of %s received a plugin message on %q", what, c.Players[i].Name, pm[0].channel)
		}
		kicked, chat := 0, 0
		for _, o := range other {
			if strings.HasSuffix(o, "packet.Disconnect") {
				kicked++
			} else {
				chat++
			}
		}
		if (kicked > 0) != expKick[i] || (expKick[i] && clients[i].ctx.Err() == nil) {
			return verifkit.Fail("kick:target", "%s: client of %s disconnect packets=%d closed=%v, reference kicked=%v", what, c.Players[i].Name, kicked, clients[i].ctx.Err() != nil, expKick[i])
		}
		if c.Sub == "Message" || c.Sub == "MessageRaw" {
			if chat != expClientMsg[i] {
				if chat > expClientMsg[i] && c.A1 != "ALL" {
					return verifkit.Fail(c26AKeyMsgServer, "%s: client of %s received %d chat packet(s), reference %d: the target names a player, not a server", what, c.Players[i].Name, chat, expClientMsg[i])
				}
				if c.A1 != "ALL" {
					return verifkit.Fail(c26AKeyMsgServer, "%s: client of the named player %s received %d chat packet(s), reference %d", what, c.Players[i].Name, chat, expClientMsg[i])
				}
				return verifkit.Fail("message:all", "%s: client of %s received %d chat packet(s), reference %d", what, c.Players[i].Name, chat, expClientMsg[i])
			}
		} else if chat > 0 && !strings.HasPrefix(c.Sub, "Connect") {
			return verifkit.Fail("client:unexpected-packet", "%s: client of %s received %v", what, c.Players[i].Name, other)
		}
	}

	// backends
	obsBackend := map[int][]c26AWrite{}
	for i := range c.Players {
		if backends[i] == nil {
			continue
		}
		pm, other := c26APluginWrites(backends[i].packets(), c.Players[i].Proto, proto.ServerBound)
		if len(other) > 0 {
			return verifkit.Fail("backend:unexpected-packet", "%s: backend connection of %s received %v", what, c.Players[i].Name, other)
		}
		obsBackend[i] = pm
	}
	if c.Sub == "Forward" {
		payload := c.forwardRemainder()
		for s := range c.Servers {
			n := 0
			var first *c26AWrite
			firstWant := ""
			for _, i := range playersOn(s) {
				n += len(obsBackend[i])
				if len(obsBackend[i]) > 0 && first == nil {
					first = &obsBackend[i][0]
					firstWant = c26AChan(c.Players[i].Proto)
				}
			}
			want := 0
			for _, t := range expForwardServers {
				if t == s {
					want = 1
				}
			}
			if n != want {
				k := "forward:targets"
				if want == 1 && n == 0 {
					k = c26AKeyFwdClients // nothing reached the server itself
				}
				return verifkit.Fail(k, "%s: the backend connections of server %q received %d forwarded message(s), reference %d (exactly once per target server that has a player; requester is on server %d)", what, c.Servers[s], n, want, reqServer)
			}
			if want == 1 {
				if first.channel != firstWant {
					return verifkit.Fail("forward:channel", "%s: forwarded to server %q on wire channel %q, a backend of that protocol listens on %q", what, c.Servers[s], first.channel, firstWant)
				}
				if !bytes.Equal(first.data, payload) {
					return verifkit.Fail(c26AKeyFraming, "%s: payload delivered to server %q is %x, reference %x", what, c.Servers[s], c26AShort(first.data), c26AShort(payload))
				}
			}
		}
		return verifkit.Result{NonTrivial: nt, Labels: labels}
	}
	for i := range c.Players {
		if len(obsBackend[i]) != len(expBackend[i]) {
			switch {
			case c.Sub == "ForwardToPlayer":
				return verifkit.Fail(c26AKeyFwdPlayer, "%s: backend connection of %s received %d message(s), reference %d (the payload goes to the server of the named player)", what, c.Players[i].Name, len(obsBackend[i]), len(expBackend[i]))
			case c.Sub == "GetPlayerServer" && c.findPlayer(c.A1) >= 0:
				return verifkit.Fail(c26AKeyGPS, "%s: backend connection of %s received %d message(s), reference %d", what, c.Players[i].Name, len(obsBackend[i]), len(expBackend[i]))
			}
			k := "missing"
			if len(obsBackend[i]) > len(expBackend[i]) {
				k = "unexpected"
			}
			return verifkit.Fail("response:"+k, "%s: backend connection of %s received %d message(s), reference %d", what, c.Players[i].Name, len(obsBackend[i]), len(expBackend[i]))
		}
		for k, ew := range expBackend[i] {
			ow := obsBackend[i][k]
			if ow.channel != ew.channel {
				return verifkit.Fail("response:channel", "%s: written on channel %q, reference %q for protocol %d", what, ow.channel, ew.channel, c.Players[i].Proto)
			}
			if bytes.Equal(ow.data, ew.data) || (listCompare && c26ASameList(ow.data, ew.data)) {
				continue
			}
			switch c.Sub {
			case "ForwardToPlayer":
				return verifkit.Fail(c26AKeyFraming, "%s: forwarded payload is %x, reference %x", what, c26AShort(ow.data), c26AShort(ew.data))
			case "GetPlayerServer":
				return verifkit.Fail(c26AKeyGPS, "%s: response %q, reference %q (server of the named player)", what, ow.data, ew.data)
			}
			return verifkit.Fail("response:content:"+c.Sub, "%s: response %x (%q), reference %x (%q)", what, ow.data, ow.data, ew.data, ew.data)
		}
	}
	return verifkit.Result{NonTrivial: nt, Labels: labels}
}

func c26AShort(b []byte) []byte {
	if len(b) > 48 {
		return b[:48]
	}
	return b
}

func c26ASameList(a, b []byte) bool {
	split := func(x []byte) (head []string, list []string, ok bool) {
		r := verifkit.NewRefReader(x)
		var fields []string
		for r.Remaining() > 0 {
			s, err := r.UTF()
			if err != nil {
				return nil, nil, false
			}
			fields = append(fields, s)
		}
		if len(fields) == 0 {
			return nil, nil, false
		}
		if last := fields[len(fields)-1]; last != "" {
			list = strings.Split(last, ", ")
		}
		sort.Strings(list)
		return fields[:len(fields)-1], list, true
	}
	ha, la, oka := split(a)
	hb, lb, okb := split(b)
	return oka && okb && fmt.Sprint(ha) == fmt.Sprint(hb) && fmt.Sprint(la) == fmt.Sprint(lb)
}

// ---------------------------------------------------------------- generator

var c26AServerNames = []string{"lobby", "Survival", "mini1", "hub2"}
var c26APlayerNames = []string{"Alice", "bob", "Carl_3", "DAVE", "eve9"}
var c26ASubs = []string{"Forward", "ForwardToPlayer", "Message", "MessageRaw", "KickPlayer", "KickPlayerRaw", "Connect", "ConnectOther",
	"GetPlayerServer", "PlayerCount", "PlayerList", "GetServers", "GetServer", "IP", "IPOther", "UUID", "UUIDOther", "ServerIP"}

func c26AGen(t *rapid.T) c26ACase {
	var c c26ACase
	ns := rapid.SampledFrom([]int{2, 3, 1, 4, 0}).Draw(t, "nServers")
	c.Servers = append(c.Servers, c26AServerNames[:ns]...)
	np := rapid.IntRange(1, 5).Draw(t, "nPlayers")
	for i := 0; i < np; i++ {
		p := c26APlayer{Name: c26APlayerNames[i], Server: -1,
			ClientProto: rapid.SampledFrom([]int{763, 47, 340, 759, 765, 772}).Draw(t, "clientProto"),
			Proto:       rapid.SampledFrom([]int{763, 47, 340, 393, 772}).Draw(t, "proto")}
		if ns > 0 && rapid.IntRange(0, 7).Draw(t, "hasServer") != 0 {
			p.Server = rapid.IntRange(0, ns-1).Draw(t, "server")
		}
		c.Players = append(c.Players, p)
	}
	c.Requester = rapid.IntRange(0, np-1).Draw(t, "requester")
	c.Sub = c26ASubs[rapid.IntRange(0, len(c26ASubs)-1).Draw(t, "sub")]
	if c.Sub == "Forward" {
		for i := range c.Players {
			if i != c.Requester && c.Players[i].Server >= 0 && rapid.IntRange(0, 3).Draw(t, "deadBackend") == 0 {
				c.Players[i].DeadBackend = true
			}
		}
	}
	vary := func(s string) string {
		switch rapid.IntRange(0, 3).Draw(t, "case") {
		case 0:
			return strings.ToUpper(s)
		case 1:
			return strings.ToLower(s)
		}
		return s
	}
	playerTarget := func(label string) string {
		switch k := rapid.IntRange(0, 9).Draw(t, label+"Kind"); {
		case k < 7:
			return vary(c.Players[rapid.IntRange(0, np-1).Draw(t, label)].Name)
		case k < 8 && ns > 0:
			return c.Servers[rapid.IntRange(0, ns-1).Draw(t, label+"Srv")]
		}
		return "Nobody"
	}
	serverTarget := func(label string, all bool) string {
		k := rapid.IntRange(0, 9).Draw(t, label+"Kind")
		switch {
		case k < 6 && ns > 0:
			return vary(c.Servers[rapid.IntRange(0, ns-1).Draw(t, label)])
		case k < 8 && all:
			return rapid.SampledFrom([]string{"ALL", "ALL", "ONLINE"}).Draw(t, label+"All")
		case k < 9:
			return "nowhere"
		}
		return c.Players[0].Name
	}
	text := rapid.SampledFrom([]string{"hello", "You were kicked", "a b c", "x"}).Draw(t, "text")
	switch c.Sub {
	case "Connect", "ServerIP":
		c.A1 = serverTarget("a1", false)
	case "PlayerCount", "PlayerList":
		c.A1 = serverTarget("a1", true)
	case "ConnectOther":
		c.A1, c.A2 = playerTarget("a1"), serverTarget("a2", false)
	case "IPOther", "UUIDOther", "GetPlayerServer":
		c.A1 = playerTarget("a1")
	case "Message", "KickPlayer":
		c.A1, c.A2 = playerTarget("a1"), text
		if c.Sub == "Message" && rapid.IntRange(0, 2).Draw(t, "all") == 0 {
			c.A1 = "ALL"
		}
	case "MessageRaw", "KickPlayerRaw":
		c.A1, c.A2 = playerTarget("a1"), `{"text":"`+text+`"}`
		if c.Sub == "MessageRaw" && rapid.IntRange(0, 2).Draw(t, "all") == 0 {
			c.A1 = "ALL"
		}
	case "Forward", "ForwardToPlayer":
		if c.Sub == "Forward" {
			c.A1 = serverTarget("a1", true)
		} else {
			c.A1 = playerTarget("a1")
		}
		c.Channel = rapid.SampledFrom([]string{"MyChannel", "my:plugin", "c"}).Draw(t, "channel")
		n := rapid.SampledFrom([]int{1, 0, 7, 300, 32767}).Draw(t, "dataLen")
		c.Data = make([]byte, n)
		seed := rapid.Byte().Draw(t, "fill")
		for i := range c.Data {
			c.Data[i] = seed + byte(i*7)
		}
	}
	return c
}

func TestVerif_C26A(t *testing.T) {
	verifkit.Check(t, "C26", "adapter",
		"one well-formed request per case through newBungeeCordMessageResponder over a real Proxy with 0-4 registered servers and 1-5 registered players (real connectedPlayer/serverConnection, recording client and backend connections, client protocols 1.8..1.21): every sub-channel with existing / case-varied / unknown / wrong-kind targets, ALL / ONLINE; observed packets per client and backend connection, ServerPreConnect events (denied) and closed connections compared with the BungeeCord/Velocity reference; non-trivial = request names another existing player or a server, or is a Forward*",
		c26AGen, c26ARun)
}
