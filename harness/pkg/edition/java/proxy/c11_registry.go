//go:build verif

package proxy

// C11: the player registry stays unique and consistent under any login/logout
// interleaving.
//
// Rig: a real *Proxy (New, no listeners). Every generated "login" is a full
// end-to-end login driven through Proxy.HandleConn over an in-memory net.Conn:
// the client bytes (Handshake, LoginStart and - in online mode - the
// EncryptionResponse) are produced with the repository's own encoder, decoded by
// the real read loop and handled by the real handshake / initial-login / auth
// session handlers, so canRegisterConnection, registerConnection, teardown and
// unregisterConnection are reached exactly as in production, in production
// order, including everything netmc does on Close. Online mode uses a fake
// auth.Authenticator (the interface Options.Authenticator accepts) standing in
// for the session server. Clients speak protocol 767 (1.21): after LoginSuccess
// the proxy waits for LoginAcknowledged, so an accepted session stays online and
// registered, with no backend involved, until the harness ends it.
//
// Oracle: an independent model of the registry written from the property text
// (c11Model). The sequential check compares every lookup with the model after
// every step; the concurrent check requires the final state to be explained by
// some linearization of the batch.

import (
	"bytes"
	"context"
	"encoding/hex"
	"fmt"
	"io"
	"net"
	"os"
	"path/filepath"
	"regexp"
	"runtime"
	"sort"
	"strings"
	"sync"
	"testing"
	"time"

	"github.com/go-logr/logr"
	"github.com/robinbraemer/event"
	"go.minekube.com/common/minecraft/component"
	"go.minekube.com/gate/pkg/edition/java/auth"
	"go.minekube.com/gate/pkg/edition/java/config"
	"go.minekube.com/gate/pkg/edition/java/profile"
	"go.minekube.com/gate/pkg/edition/java/proto/codec"
	"go.minekube.com/gate/pkg/edition/java/proto/packet"
	"go.minekube.com/gate/pkg/edition/java/proto/state"
	"go.minekube.com/gate/pkg/gate/proto"
	"go.minekube.com/gate/pkg/internal/verifkit"
	"go.minekube.com/gate/pkg/util/uuid"
	"pgregory.net/rapid"
)

const (
	c11Protocol = 767 // 1.21: login waits for LoginAcknowledged after LoginSuccess
	c11PortBase = 20000
	c11Wait     = 20 * time.Second
)

// ---------------------------------------------------------------- identities

var c11BaseNames = []string{"Alice", "Bobby", "Carol"}

func c11Name(nb, variant int) string {
	b := c11BaseNames[((nb%len(c11BaseNames))+len(c11BaseNames))%len(c11BaseNames)]
	switch ((variant % 3) + 3) % 3 {
	case 1:
		return strings.ToLower(b)
	case 2:
		return strings.ToUpper(b)
	}
	return b
}

func c11PoolUUID(n int) uuid.UUID {
	var u uuid.UUID
	copy(u[:], []byte{0xC1, 0x10, 0, 0, 0, 0, 0x40, 0, 0x80, 0, 0, 0, 0, 0, 0, byte(n)})
	return u
}

// c11Identity resolves the generated (name, variant, uuid selector) triple.
// Selector 0 is the "natural" id: in offline mode the proxy derives it from the
// exact user name (so case variants differ), in online mode the fake session
// server hands out one id per account (per base name). Selectors >0 are ids from
// a small pool: in online mode whatever the session server returned, in offline
// mode a profile set by a GameProfileRequestEvent subscriber (plugin API).
func c11Identity(online bool, nb, variant, usel int) (name string, id uuid.UUID, custom bool) {
	name = c11Name(nb, variant)
	usel = ((usel % 4) + 4) % 4
	if usel == 0 {
		if online {
			return name, c11PoolUUID(100 + ((nb%3)+3)%3), false
		}
		return name, uuid.OfflinePlayerUUID(name), false
	}
	return name, c11PoolUUID(usel), true
}

// ---------------------------------------------------------------- fake transport

type c11Addr struct{ port int }

func (a c11Addr) tcp() *net.TCPAddr { return &net.TCPAddr{IP: net.IPv4(127, 0, 0, 1), Port: a.port} }

// c11Conn is the client's socket as seen by the proxy: Read serves the scripted
// client bytes and then blocks until the client hangs up (EOF) or the proxy
// closes the socket; Write swallows what the proxy sends.
type c11Conn struct {
	port int

	mu     sync.Mutex
	script []byte
	pos    int
	writes int

	idleOnce   sync.Once
	idle       chan struct{} // closed when the proxy consumed the whole script and waits for more
	closeOnce  sync.Once
	closed     chan struct{} // closed by Close (proxy side)
	hangupOnce sync.Once
	hungup     chan struct{} // closed by the harness: client went away
}

func c11NewConn(port int, script []byte) *c11Conn {
	return &c11Conn{port: port, script: script, idle: make(chan struct{}), closed: make(chan struct{}), hungup: make(chan struct{})}
}

func (c *c11Conn) Read(b []byte) (int, error) {
	select {
	case <-c.closed:
		return 0, &net.OpError{Op: "read", Net: "tcp", Err: net.ErrClosed}
	default:
	}
	c.mu.Lock()
	if c.pos < len(c.script) {
		n := copy(b, c.script[c.pos:])
		c.pos += n
		c.mu.Unlock()
		return n, nil
	}
	c.mu.Unlock()
	c.idleOnce.Do(func() { close(c.idle) })
	select {
	case <-c.closed:
		return 0, &net.OpError{Op: "read", Net: "tcp", Err: net.ErrClosed}
	case <-c.hungup:
		return 0, io.EOF
	}
}

func (c *c11Conn) Write(b []byte) (int, error) {
	select {
	case <-c.closed:
		return 0, &net.OpError{Op: "write", Net: "tcp", Err: net.ErrClosed}
	default:
	}
	c.mu.Lock()
	c.writes++
	c.mu.Unlock()
	return len(b), nil
}

func (c *c11Conn) Close() error                     { c.closeOnce.Do(func() { close(c.closed) }); return nil }
func (c *c11Conn) hangup()                          { c.hangupOnce.Do(func() { close(c.hungup) }) }
func (c *c11Conn) LocalAddr() net.Addr              { return &net.TCPAddr{IP: net.IPv4(127, 0, 0, 1), Port: 25565} }
func (c *c11Conn) RemoteAddr() net.Addr             { return c11Addr{c.port}.tcp() }
func (c *c11Conn) SetDeadline(time.Time) error      { return nil }
func (c *c11Conn) SetReadDeadline(time.Time) error  { return nil }
func (c *c11Conn) SetWriteDeadline(time.Time) error { return nil }
func (c *c11Conn) isClosed() bool {
	select {
	case <-c.closed:
		return true
	default:
		return false
	}
}

// c11ClientBytes encodes what a 1.21 client sends to log in.
func c11ClientBytes(username string, online bool, secret []byte) []byte {
	buf := new(bytes.Buffer)
	enc := codec.NewEncoder(buf, proto.ServerBound, logr.Discard())
	enc.SetProtocol(proto.Protocol(c11Protocol))
	if _, err := enc.WritePacket(&packet.Handshake{ProtocolVersion: c11Protocol, ServerAddress: "play.example.test", Port: 25565, NextStatus: 2}); err != nil {
		panic(fmt.Sprintf("c11 harness: encode handshake: %v", err))
	}
	enc.SetState(state.Login)
	if _, err := enc.WritePacket(&packet.ServerLogin{Username: username, HolderID: c11PoolUUID(250)}); err != nil {
		panic(fmt.Sprintf("c11 harness: encode login start: %v", err))
	}
	if online {
		if _, err := enc.WritePacket(&packet.EncryptionResponse{SharedSecret: secret, VerifyToken: []byte{1, 2, 3, 4}}); err != nil {
			panic(fmt.Sprintf("c11 harness: encode encryption response: %v", err))
		}
	}
	return buf.Bytes()
}

// ---------------------------------------------------------------- fake session server

type c11AuthResp struct{ gp *profile.GameProfile }

func (r c11AuthResp) OnlineMode() bool                           { return true }
func (r c11AuthResp) GameProfile() (*profile.GameProfile, error) { return r.gp, nil }

// c11Auth stands in for Mojang: it "decrypts" the shared secret to itself and
// answers hasJoined with the profile the case assigned to that session.
type c11Auth struct{ rig *c11Rig }

func (a *c11Auth) PublicKey() []byte                          { return []byte{0x30, 0x03, 0x02, 0x01, 0x01} }
func (a *c11Auth) Verify(_, _ []byte) (bool, error)           { return true, nil }
func (a *c11Auth) DecryptSharedSecret(e []byte) ([]byte, error) { return bytes.Clone(e), nil }
func (a *c11Auth) GenerateServerID(s []byte) (string, error)  { return hex.EncodeToString(s), nil }
func (a *c11Auth) SetHasJoinedURLFn(auth.HasJoinedURLFn)      {}
func (a *c11Auth) AuthenticateJoin(_ context.Context, serverID, _, _ string) (auth.Response, error) {
	b, err := hex.DecodeString(serverID)
	if err != nil || len(b) != 16 {
		return nil, fmt.Errorf("c11 harness: bad server id %q", serverID)
	}
	s := a.rig.session(int(b[14])<<8 | int(b[15]))
	if s == nil {
		return nil, fmt.Errorf("c11 harness: unknown session in server id %q", serverID)
	}
	return c11AuthResp{gp: &profile.GameProfile{ID: s.id, Name: s.name}}, nil
}

func c11Secret(idx int) []byte {
	return []byte{'C', '1', '1', 0, 0, 0, 0, 0, 0, 0, 0, 0, 0, 0, byte(idx >> 8), byte(idx)}
}

// ---------------------------------------------------------------- rig

type c11Sess struct {
	idx    int
	name   string
	id     uuid.UUID
	custom bool
	deny   string // "", "prelogin", "login", "disc"
	park   string // "", "profile", "login"

	conn    *c11Conn
	done    chan struct{} // HandleConn returned
	parked  chan struct{} // closed when the login goroutine reached its park point
	release chan struct{} // closed by the harness to let it continue
	relOnce sync.Once
	runOnce sync.Once

	mu     sync.Mutex
	player *connectedPlayer // captured at LoginEvent / DisconnectEvent
}

func (s *c11Sess) setPlayer(p Player) {
	if cp, ok := p.(*connectedPlayer); ok {
		s.mu.Lock()
		s.player = cp
		s.mu.Unlock()
	}
}
func (s *c11Sess) getPlayer() *connectedPlayer {
	s.mu.Lock()
	defer s.mu.Unlock()
	return s.player
}
func (s *c11Sess) releaseNow() { s.relOnce.Do(func() { close(s.release) }) }

type c11DiscEv struct {
	sess   int
	status LoginStatus
	holder int // session registered under the disconnecting player's uuid when the event fired (-1 none)
}

type c11Rig struct {
	p      *Proxy
	online bool
	kick   bool

	mu    sync.Mutex
	sess  []*c11Sess
	disc  []c11DiscEv
	goids map[string]bool // goroutines of this rig that may execute proxy code
	dead  bool            // registry lock diagnosed as deadlocked: do not join goroutines
}

var c11Text = &component.Text{Content: "c11"}

func c11NewRig(online, kick bool) *c11Rig {
	r := &c11Rig{online: online, kick: kick, goids: map[string]bool{}}
	cfg := config.DefaultConfig
	cfg.OnlineMode = online
	cfg.OnlineModeKickExistingPlayers = kick
	cfg.Quota.Connections.Enabled = false
	cfg.Quota.Logins.Enabled = false
	cfg.PacketLimiter.PacketsPerSecond = -1
	cfg.PacketLimiter.BytesPerSecond = -1
	cfg.Servers = map[string]string{}
	cfg.Try = nil
	cfg.ForcedHosts = map[string][]string{}
	mgr := event.New(event.WithRecoverPanic(false))
	p, err := New(Options{Config: &cfg, EventMgr: mgr, Authenticator: &c11Auth{rig: r}})
	if err != nil {
		panic(fmt.Sprintf("c11 harness: proxy.New: %v", err))
	}
	r.p = p

	event.Subscribe(mgr, 0, func(e *PreLoginEvent) {
		if s := r.byAddr(e.Conn().RemoteAddr()); s != nil && s.deny == "prelogin" {
			e.Deny(c11Text)
		}
	})
	event.Subscribe(mgr, 0, func(e *GameProfileRequestEvent) {
		s := r.byAddr(e.Conn().RemoteAddr())
		if s == nil {
			return
		}
		if s.park == "profile" {
			close(s.parked)
			<-s.release
		}
		if !r.online && s.custom {
			e.SetGameProfile(profile.GameProfile{ID: s.id, Name: s.name})
		}
	})
	event.Subscribe(mgr, 0, func(e *LoginEvent) {
		s := r.byAddr(e.Player().RemoteAddr())
		if s == nil {
			return
		}
		s.setPlayer(e.Player())
		if s.park == "login" {
			close(s.parked)
			<-s.release
		}
		switch s.deny {
		case "login":
			e.Deny(c11Text)
		case "disc":
			e.Player().Disconnect(c11Text)
		}
	})
	event.Subscribe(mgr, 0, func(e *DisconnectEvent) {
		s := r.byAddr(e.Player().RemoteAddr())
		if s == nil {
			return
		}
		s.setPlayer(e.Player())
		holder := c11SessOf(r.p.Player(e.Player().ID()))
		r.mu.Lock()
		r.disc = append(r.disc, c11DiscEv{sess: s.idx, status: e.LoginStatus(), holder: holder})
		r.mu.Unlock()
	})
	return r
}

func (r *c11Rig) session(idx int) *c11Sess {
	r.mu.Lock()
	defer r.mu.Unlock()
	if idx < 0 || idx >= len(r.sess) {
		return nil
	}
	return r.sess[idx]
}

func (r *c11Rig) byAddr(a net.Addr) *c11Sess {
	t, ok := a.(*net.TCPAddr)
	if !ok {
		return nil
	}
	return r.session(t.Port - c11PortBase)
}

// c11SessOf maps a Player returned by the proxy to the harness session index.
func c11SessOf(p Player) int {
	if p == nil {
		return -1
	}
	t, ok := p.RemoteAddr().(*net.TCPAddr)
	if !ok {
		return -2
	}
	return t.Port - c11PortBase
}

// prepare creates the session (socket + scripted client bytes) without handing
// it to the proxy yet.
func (r *c11Rig) prepare(nb, variant, usel int, deny, park string) *c11Sess {
	name, id, custom := c11Identity(r.online, nb, variant, usel)
	r.mu.Lock()
	idx := len(r.sess)
	s := &c11Sess{idx: idx, name: name, id: id, custom: custom, deny: deny, park: park,
		done: make(chan struct{}), parked: make(chan struct{}), release: make(chan struct{})}
	s.conn = c11NewConn(c11PortBase+idx, c11ClientBytes(name, r.online, c11Secret(idx)))
	r.sess = append(r.sess, s)
	r.mu.Unlock()
	return s
}

// run hands the socket to the proxy's connection handler on its own goroutine
// (what listenAndServe does per accepted socket).
func (r *c11Rig) run(s *c11Sess) {
	s.runOnce.Do(func() {
		go func() {
			defer close(s.done)
			r.addGoid()
			r.p.HandleConn(s.conn)
		}()
	})
}

func (r *c11Rig) start(nb, variant, usel int, deny, park string) *c11Sess {
	s := r.prepare(nb, variant, usel, deny, park)
	r.run(s)
	return s
}

func (r *c11Rig) sessions() []*c11Sess {
	r.mu.Lock()
	defer r.mu.Unlock()
	return append([]*c11Sess(nil), r.sess...)
}

func (r *c11Rig) openSessions() []int {
	var out []int
	for _, s := range r.sessions() {
		if !s.conn.isClosed() {
			out = append(out, s.idx)
		}
	}
	return out
}

func c11Gosched() { runtime.Gosched() }

var c11GoidRe = regexp.MustCompile(`^goroutine (\d+) \[([^\]]*)\]`)

func c11Goid() string {
	buf := make([]byte, 64)
	buf = buf[:runtime.Stack(buf, false)]
	if m := c11GoidRe.FindSubmatch(buf); m != nil {
		return string(m[1])
	}
	return ""
}

func (r *c11Rig) addGoid() {
	id := c11Goid()
	r.mu.Lock()
	r.goids[id] = true
	r.mu.Unlock()
}

func (r *c11Rig) isDead() bool {
	r.mu.Lock()
	defer r.mu.Unlock()
	return r.dead
}

// Functions of Proxy that acquire muP (the registry lock).
var c11MuPFuncs = []string{
	"proxy.(*Proxy).registerConnection", "proxy.(*Proxy).unregisterConnection", "proxy.(*Proxy).canRegisterConnection",
	"proxy.(*Proxy).PlayerCount", "proxy.(*Proxy).Players", "proxy.(*Proxy).Player(", "proxy.(*Proxy).playerByName",
	"proxy.(*Proxy).DisconnectAll", "proxy.(*Proxy).resetSessionIDIfEmpty",
}

// lockWaiters is the structural deadlock sensor for the registry lock. It looks
// only at goroutines of this rig. It returns the (sorted) ids of goroutines that
// are parked acquiring a sync lock directly from a muP function - but only if no
// other goroutine of the rig has a muP function anywhere on its stack (such a
// goroutine could be the lock holder and still make progress). The critical
// sections of muP contain no blocking call, so when every goroutine that is
// inside a muP function is parked in the acquisition itself, the lock was left
// locked by a goroutine that is gone from those functions or is waiting for it
// itself: nobody can ever release it.
func (r *c11Rig) lockWaiters() (ids []string, stacks string) {
	buf := make([]byte, 1<<20)
	for {
		n := runtime.Stack(buf, true)
		if n < len(buf) || len(buf) >= 256<<20 {
			buf = buf[:n]
			break
		}
		buf = make([]byte, 2*len(buf))
	}
	r.mu.Lock()
	mine := make(map[string]bool, len(r.goids))
	for k := range r.goids {
		mine[k] = true
	}
	r.mu.Unlock()
	for _, sec := range strings.Split(string(buf), "\n\n") {
		m := c11GoidRe.FindStringSubmatch(sec)
		if m == nil || !mine[m[1]] {
			continue
		}
		has := false
		for _, f := range c11MuPFuncs {
			if strings.Contains(sec, f) {
				has = true
				break
			}
		}
		if !has {
			continue
		}
		st := m[2]
		parked := strings.HasPrefix(st, "sync.Mutex.Lock") || strings.HasPrefix(st, "sync.RWMutex.RLock") || strings.HasPrefix(st, "sync.RWMutex.Lock")
		direct := false
		if parked {
			for _, ln := range strings.Split(sec, "\n")[1:] {
				if strings.HasPrefix(ln, "\t") || ln == "" {
					continue
				}
				if strings.HasPrefix(ln, "sync.") || strings.HasPrefix(ln, "internal/sync.") || strings.HasPrefix(ln, "runtime.") || strings.HasPrefix(ln, "internal/race") {
					continue
				}
				for _, f := range c11MuPFuncs {
					if strings.Contains(ln, f) {
						direct = true
					}
				}
				break
			}
		}
		if !parked || !direct {
			return nil, "" // somebody inside a registry function can still run
		}
		ids = append(ids, m[1])
		if len(stacks) < 12000 {
			stacks += sec + "\n\n"
		}
	}
	sort.Strings(ids)
	return ids, stacks
}

// await waits for a phase of the scenario. While waiting it polls the structural
// deadlock sensor; the verdict "deadlocked" needs the same non-empty set of
// parked goroutines in two looks at least 300ms apart. Time only decides when to
// look, never the verdict.
func (r *c11Rig) await(done <-chan *c11Timeout) (*c11Timeout, *verifkit.Violation) {
	tick := time.NewTicker(50 * time.Millisecond)
	defer tick.Stop()
	t0 := time.Now()
	var prev []string
	var prevAt time.Time
	for {
		select {
		case to := <-done:
			return to, nil
		case <-tick.C:
			if time.Since(t0) < 200*time.Millisecond {
				continue
			}
			ids, stacks := r.lockWaiters()
			if len(ids) == 0 {
				prev = nil
				continue
			}
			if prev != nil && fmt.Sprint(prev) == fmt.Sprint(ids) {
				if time.Since(prevAt) >= 300*time.Millisecond {
					r.mu.Lock()
					r.dead = true
					r.mu.Unlock()
					return nil, verifkit.Violationf("deadlock:registry-lock", "the registry lock (Proxy.muP) is never released: goroutines %v are parked acquiring it and no goroutine is inside a registry function that could release it; every later login, logout and lookup blocks forever.\n%s", ids, stacks)
				}
				continue
			}
			prev, prevAt = ids, time.Now()
		}
	}
}

// c11DumpStacks writes all goroutine stacks to the work directory (diagnostics
// for inconclusive cases; never part of a verdict).
func c11DumpStacks(tag string) {
	buf := make([]byte, 4<<20)
	buf = buf[:runtime.Stack(buf, true)]
	_ = os.WriteFile(filepath.Join(verifkit.WorkDir(), "c11-stacks-"+tag+".txt"), buf, 0o644)
}

type c11Timeout struct{ what string }

// waitLogin waits until the login attempt is over: either the proxy consumed all
// client bytes and waits for more (accepted, or still open), or the connection
// handler returned (rejected / closed).
func (s *c11Sess) waitLogin() *c11Timeout {
	select {
	case <-s.conn.idle:
		return nil
	case <-s.done:
		return nil
	case <-time.After(c11Wait):
		return &c11Timeout{fmt.Sprintf("login of session %d neither completed nor closed", s.idx)}
	}
}

func (s *c11Sess) waitParked() *c11Timeout {
	select {
	case <-s.parked:
		return nil
	case <-s.done:
		return nil // never reached the park point (rejected earlier)
	case <-time.After(c11Wait):
		return &c11Timeout{fmt.Sprintf("session %d did not reach park point %q", s.idx, s.park)}
	}
}

func (s *c11Sess) waitDone() *c11Timeout {
	select {
	case <-s.done:
		return nil
	case <-time.After(c11Wait):
		return &c11Timeout{fmt.Sprintf("connection handler of session %d did not return", s.idx)}
	}
}

// settle waits for the connection handler of every closed session to return, so
// that everything a close triggers (teardown, events) has happened.
func (r *c11Rig) settle() *c11Timeout {
	r.mu.Lock()
	ss := append([]*c11Sess(nil), r.sess...)
	r.mu.Unlock()
	for _, s := range ss {
		if s.conn.isClosed() {
			if to := s.waitDone(); to != nil {
				return to
			}
		}
	}
	return nil
}

// shutdown ends every session and joins all goroutines of the case.
func (r *c11Rig) shutdown() *c11Timeout {
	r.mu.Lock()
	ss := append([]*c11Sess(nil), r.sess...)
	r.mu.Unlock()
	for _, s := range ss {
		s.releaseNow()
		s.conn.hangup()
		s.runOnce.Do(func() { close(s.done) }) // prepared but never handed to the proxy
	}
	if r.isDead() {
		return nil // the blocked goroutines can never be joined
	}
	for _, s := range ss {
		if to := s.waitDone(); to != nil {
			c11DumpStacks(fmt.Sprintf("shutdown-session-%d", s.idx))
			return to
		}
	}
	return nil
}

// hangup: the client goes away (EOF seen by the read loop).
func (r *c11Rig) hangup(s *c11Sess) *c11Timeout {
	s.conn.hangup()
	return s.waitDone()
}

// kickOut: proxy-side Player.Disconnect (plugin / command API).
func (r *c11Rig) kickOut(s *c11Sess) *c11Timeout {
	pl := s.getPlayer()
	if pl == nil {
		return nil // never got as far as having a player object
	}
	pl.Disconnect(c11Text)
	if s.conn.isClosed() {
		return s.waitDone()
	}
	return nil
}

// ---------------------------------------------------------------- observation

type c11Obs struct {
	count   int
	players []int          // session index of every entry of Players()
	pUUID   []string       // uuid of every entry of Players()
	pLName  []string       // lower-case name of every entry of Players()
	byID    map[string]int // uuid -> session (-1 none)
	byName  map[string]int // queried spelling -> session (-1 none)
}

func (r *c11Rig) universe() (ids []uuid.UUID, names []string) {
	seen := map[uuid.UUID]bool{}
	r.mu.Lock()
	for _, s := range r.sess {
		if !seen[s.id] {
			seen[s.id] = true
			ids = append(ids, s.id)
		}
	}
	r.mu.Unlock()
	for nb := range c11BaseNames {
		for v := 0; v < 3; v++ {
			names = append(names, c11Name(nb, v))
		}
	}
	return
}

func (r *c11Rig) observe() c11Obs {
	o := c11Obs{byID: map[string]int{}, byName: map[string]int{}}
	ids, names := r.universe()
	o.count = r.p.PlayerCount()
	for _, pl := range r.p.Players() {
		o.players = append(o.players, c11SessOf(pl))
		o.pUUID = append(o.pUUID, pl.ID().String())
		o.pLName = append(o.pLName, strings.ToLower(pl.Username()))
	}
	for _, id := range ids {
		o.byID[id.String()] = c11SessOf(r.p.Player(id))
	}
	for _, n := range names {
		o.byName[n] = c11SessOf(r.p.PlayerByName(n))
	}
	return o
}

// ---------------------------------------------------------------- model (from the property text)

type c11MSess struct {
	name  string
	lname string
	id    string
	open  bool
	reg   bool
}

type c11Model struct {
	kick  bool
	sess  map[int]*c11MSess
	ids   map[string]int // uuid -> registered session
	names map[string]int // lower name -> registered session owning the name
}

func c11NewModel(kick bool) *c11Model {
	return &c11Model{kick: kick, sess: map[int]*c11MSess{}, ids: map[string]int{}, names: map[string]int{}}
}

func (m *c11Model) clone() *c11Model {
	c := c11NewModel(m.kick)
	for k, v := range m.sess {
		cp := *v
		c.sess[k] = &cp
	}
	for k, v := range m.ids {
		c.ids[k] = v
	}
	for k, v := range m.names {
		c.names[k] = v
	}
	return c
}

func (m *c11Model) add(k int, name string, id uuid.UUID) {
	m.sess[k] = &c11MSess{name: name, lname: strings.ToLower(name), id: id.String(), open: true}
}

// remove: session r's own disconnect.
func (m *c11Model) remove(r int) {
	s := m.sess[r]
	if s == nil {
		return
	}
	if s.reg {
		if m.ids[s.id] == r {
			delete(m.ids, s.id)
		}
		if cur, ok := m.names[s.lname]; ok && cur == r {
			delete(m.names, s.lname)
		}
	}
	s.reg = false
	s.open = false
}

type c11LoginOutcome struct {
	conflict   string // "", "uuid+name", "uuid", "name"
	registered bool
	kicked     int // session kicked out by this login (-1 none)
	replaced   int // session whose name entry was taken over in kick mode (-1 none)
}

// login is the atomic specification of a login attempt of session k.
func (m *c11Model) login(k int, deny string) c11LoginOutcome {
	out := c11LoginOutcome{kicked: -1, replaced: -1}
	s := m.sess[k]
	if !s.open { // already disconnected (only in concurrent batches)
		return out
	}
	if deny == "prelogin" {
		s.open = false
		return out
	}
	byID, idTaken := m.ids[s.id]
	byName, nameTaken := m.names[s.lname]
	switch {
	case idTaken && nameTaken && byID == byName:
		out.conflict = "uuid+name"
	case idTaken && nameTaken:
		out.conflict = "uuid,name"
	case idTaken:
		out.conflict = "uuid"
	case nameTaken:
		out.conflict = "name"
	}
	if !m.kick && (idTaken || nameTaken) {
		s.open = false // duplicate: rejected, nobody else is affected
		return out
	}
	if deny == "login" || deny == "disc" {
		s.open = false // failed login: nobody else is affected
		return out
	}
	if m.kick && idTaken {
		out.kicked = byID
		m.remove(byID)
	}
	if cur, ok := m.names[s.lname]; ok && cur != k {
		out.replaced = cur
	}
	m.ids[s.id] = k
	m.names[s.lname] = k
	s.reg = true
	out.registered = true
	return out
}

// c11Diff judges an observation. It demands exactly what the property states:
//
//	(D) every player the model has registered (accepted by the proxy, not yet
//	    disconnected itself, not replaced in kick mode) is found by Player(uuid)
//	    and - unless kick mode let a newer player take the name over - by
//	    PlayerByName in every spelling;
//	(A) Players() holds at most one player per uuid and, with kicking disabled,
//	    per case-insensitive name;
//	(B) PlayerCount() equals the number of registered uuids (= entries of Players());
//	(C) uuid lookups and the listing describe the same set, and with kicking
//	    disabled name lookups describe that set too.
//
// It does NOT demand that the registry holds nothing else: an entry for a session
// the model considers unregistered (e.g. a disconnected player that stayed
// registered) is counted in ghosts and only labelled, because the property only
// states "stays findable until its own disconnect", not the converse.
// ownLogin is the session whose login the step was (-1 otherwise), used for
// choosing the root-cause key.
func c11Diff(m *c11Model, o c11Obs, step string, ownLogin int) (v *verifkit.Violation, ghosts int) {
	// (D) uuid index
	mids := make([]string, 0, len(m.ids))
	for id := range m.ids {
		mids = append(mids, id)
	}
	sort.Strings(mids)
	for _, id := range mids {
		want := m.ids[id]
		got, asked := o.byID[id]
		if !asked || got == want {
			continue
		}
		switch {
		case got == -1 && want == ownLogin:
			return verifkit.Violationf("login-not-visible:id", "%s: session %d was accepted but Player(%s) finds nobody", step, want, id), 0
		case got == -1:
			return verifkit.Violationf("lost-registration:foreign-teardown", "%s: session %d (%s/%s) is still connected and did not disconnect, but Player(%s) no longer finds it", step, want, m.sess[want].name, id, id), 0
		default:
			return verifkit.Violationf("duplicate-registered:id", "%s: Player(%s) returns session %d, the registered owner is session %d", step, id, got, want), 0
		}
	}
	// (D) name index
	nn := make([]string, 0, len(o.byName))
	for n := range o.byName {
		nn = append(nn, n)
	}
	sort.Strings(nn)
	for _, n := range nn {
		got := o.byName[n]
		want, ok := m.names[strings.ToLower(n)]
		if !ok || got == want {
			continue
		}
		switch {
		case got == -1 && want == ownLogin:
			return verifkit.Violationf("login-not-visible:name", "%s: session %d was accepted but PlayerByName(%q) finds nobody", step, want, n), 0
		case got == -1:
			return verifkit.Violationf("lost-registration:foreign-teardown", "%s: session %d (%s) is still connected and did not disconnect, but PlayerByName(%q) no longer finds it", step, want, m.sess[want].name, n), 0
		default:
			return verifkit.Violationf("duplicate-registered:name", "%s: PlayerByName(%q) returns session %d, the registered owner of the name is session %d", step, n, got, want), 0
		}
	}
	// (A) uniqueness inside the listing
	listed := map[int]bool{}
	seenU := map[string]bool{}
	seenN := map[string]bool{}
	for i, k := range o.players {
		listed[k] = true
		if seenU[o.pUUID[i]] {
			return verifkit.Violationf("players-duplicate:uuid", "%s: Players() lists two players with uuid %s", step, o.pUUID[i]), 0
		}
		seenU[o.pUUID[i]] = true
		if !m.kick {
			if seenN[o.pLName[i]] {
				return verifkit.Violationf("players-duplicate:name", "%s: Players() lists two players named %q (kicking disabled)", step, o.pLName[i]), 0
			}
			seenN[o.pLName[i]] = true
		}
	}
	// (D) again, through the listing
	for _, id := range mids {
		if want := m.ids[id]; !listed[want] {
			return verifkit.Violationf("lost-registration:players-list", "%s: session %d (%s/%s) is registered and connected but missing from Players() = sessions %v", step, want, m.sess[want].name, id, o.players), 0
		}
	}
	// (C) the listing, the uuid index and (kicking disabled) the name index agree
	for i, k := range o.players {
		if got, asked := o.byID[o.pUUID[i]]; asked && got != k {
			return verifkit.Violationf("index-disagreement:players-vs-id", "%s: Players() lists session %d under uuid %s but Player(uuid) returns session %d", step, k, o.pUUID[i], got), 0
		}
		if !m.kick {
			if got, asked := o.byName[o.pLName[i]]; asked && got != k {
				return verifkit.Violationf("index-disagreement:players-vs-name", "%s: Players() lists session %d named %q but PlayerByName returns session %d (kicking disabled)", step, k, o.pLName[i], got), 0
			}
		}
	}
	for _, id := range c11SortedKeys(o.byID) {
		if k := o.byID[id]; k >= 0 && !listed[k] {
			return verifkit.Violationf("index-disagreement:id-vs-players", "%s: Player(%s) returns session %d which Players() does not list", step, id, k), 0
		}
	}
	if !m.kick {
		for _, n := range nn {
			if k := o.byName[n]; k >= 0 && !listed[k] {
				return verifkit.Violationf("index-disagreement:name-vs-players", "%s: PlayerByName(%q) returns session %d which Players() does not list (kicking disabled: name and uuid lookups must describe the same set)", step, n, k), 0
			}
		}
	}
	// (B)
	if o.count != len(o.players) {
		return verifkit.Violationf("count-mismatch", "%s: PlayerCount() = %d but %d uuids are registered (Players() = sessions %v)", step, o.count, len(o.players), o.players), 0
	}
	// registrations the model does not know (not a verdict)
	for _, k := range o.players {
		if ms := m.sess[k]; ms == nil || !ms.reg {
			ghosts++
		}
	}
	return nil, ghosts
}

func c11SortedKeys(m map[string]int) []string {
	out := make([]string, 0, len(m))
	for k := range m {
		out = append(out, k)
	}
	sort.Strings(out)
	return out
}

// ---------------------------------------------------------------- sequential histories

type c11Op struct {
	Kind string `json:"kind"`           // "login", "hangup", "kick"
	Name int    `json:"name,omitempty"` // login: base name index
	Var  int    `json:"var,omitempty"`  // login: spelling 0 Alice / 1 alice / 2 ALICE
	UUID int    `json:"uuid,omitempty"` // login: 0 natural id, 1..3 pool id
	Deny string `json:"deny,omitempty"` // login: "", "prelogin", "login" (LoginEvent denied), "disc" (disconnected inside LoginEvent)
	Sess int    `json:"sess,omitempty"` // hangup/kick: index of the login op (0-based, among logins) it targets
	Park string `json:"park,omitempty"` // concurrent batches only: "", "profile", "login"
}

type c11Case struct {
	Online bool    `json:"online"`
	Kick   bool    `json:"kick"`
	Ops    []c11Op `json:"ops"`
}

func c11ModeLabel(online, kick bool) string {
	switch {
	case online && kick:
		return "mode:online-kick"
	case online:
		return "mode:online"
	}
	return "mode:offline"
}

func c11ValidDeny(d string) string {
	switch d {
	case "prelogin", "login", "disc":
		return d
	}
	return ""
}

func c11RunSeq(c c11Case) (res verifkit.Result) {
	if c.Kick && !c.Online {
		// kick-existing is an online-mode option; the combination is outside the domain
		return verifkit.Result{Labels: []string{"skipped:offline-kick"}}
	}
	rig := c11NewRig(c.Online, c.Kick)
	defer func() {
		if to := rig.shutdown(); to != nil && res.V == nil {
			res = verifkit.Result{Inconclusive: true, Labels: []string{"inconclusive:shutdown"}}
		}
	}()
	m := c11NewModel(c.Kick)
	labels := map[string]bool{c11ModeLabel(c.Online, c.Kick): true}
	nt := false
	var logins []*c11Sess

	for i, op := range c.Ops {
		step := fmt.Sprintf("step %d %s", i, op.Kind)
		ownLogin := -1
		var timeout *c11Timeout
		switch op.Kind {
		case "login":
			deny := c11ValidDeny(op.Deny)
			discBefore := rig.discLen() // before the login starts running
			s := rig.start(op.Name, op.Var, op.UUID, deny, "")
			logins = append(logins, s)
			m.add(s.idx, s.name, s.id)
			if timeout = s.waitLogin(); timeout != nil {
				break
			}
			if timeout = rig.settle(); timeout != nil {
				break
			}
			out := m.login(s.idx, deny)
			step = fmt.Sprintf("step %d login session %d (%s/%s deny=%q conflict=%q)", i, s.idx, s.name, s.id, deny, out.conflict)
			if out.registered && s.conn.isClosed() {
				// The model would accept, the proxy closed the connection. The property
				// does not promise that a login is accepted: follow the proxy.
				m.remove(s.idx)
				out.registered = false
				out.kicked = -1
				labels["observed:login-not-accepted"] = true
			}
			if out.registered {
				ownLogin = s.idx
			}
			if out.conflict != "" {
				nt = true
				labels["dup:"+out.conflict] = true
				if out.registered {
					labels["dup-accepted-kickmode"] = true
				} else if deny == "" || !c.Kick {
					labels["dup-rejected"] = true
				} else {
					labels["dup-failed-login-kickmode"] = true
				}
			}
			if deny != "" {
				labels["deny:"+deny] = true
			}
			if out.kicked >= 0 {
				labels["kicked-older-session"] = true
				if v := rig.checkKick(out.kicked, s.idx, discBefore, step); v != nil {
					return verifkit.Result{V: v}
				}
			}
			if out.replaced >= 0 {
				labels["name-taken-over"] = true
			}
		case "hangup", "kick":
			if len(logins) == 0 {
				continue
			}
			s := logins[((op.Sess%len(logins))+len(logins))%len(logins)]
			ms := m.sess[s.idx]
			step = fmt.Sprintf("step %d %s session %d (%s/%s registered=%v)", i, op.Kind, s.idx, s.name, s.id, ms.reg)
			if ms.reg {
				labels["disconnect-registered"] = true
				if cur, ok := m.names[ms.lname]; ok && cur != s.idx {
					labels["disconnect-of-player-whose-name-was-taken-over"] = true
				}
			} else {
				labels["disconnect-closed-session"] = true
			}
			if op.Kind == "hangup" {
				timeout = rig.hangup(s)
			} else {
				timeout = rig.kickOut(s)
			}
			if timeout == nil {
				timeout = rig.settle()
			}
			m.remove(s.idx)
		default:
			continue
		}
		if timeout != nil {
			return verifkit.Result{Inconclusive: true, Labels: []string{"inconclusive:" + timeout.what}}
		}
		v, ghosts := c11Diff(m, rig.observe(), step, ownLogin)
		if v != nil {
			return verifkit.Result{V: v}
		}
		if ghosts > 0 {
			labels["observed:ghost-registration"] = true
			verifkit.AddNote("C11", "sequential", "observed_ghost_registrations", 1)
		}
	}
	return verifkit.Result{NonTrivial: nt, Labels: c11Keys(labels)}
}

func (r *c11Rig) discLen() int {
	r.mu.Lock()
	defer r.mu.Unlock()
	return len(r.disc)
}

// checkKick: "in kick mode an older session with the same UUID is disconnected
// before the new one is registered".
func (r *c11Rig) checkKick(old, newer, from int, step string) *verifkit.Violation {
	os := r.session(old)
	if !os.conn.isClosed() {
		return verifkit.Violationf("kick:old-session-alive", "%s: older session %d with the same uuid is still connected after session %d was registered", step, old, newer)
	}
	r.mu.Lock()
	defer r.mu.Unlock()
	for _, e := range r.disc[from:] {
		if e.sess == old {
			if e.holder == newer {
				return verifkit.Violationf("kick:registered-before-disconnect", "%s: when older session %d was disconnected, newer session %d was already registered under the uuid", step, old, newer)
			}
			return nil
		}
	}
	return verifkit.Violationf("kick:no-disconnect-event", "%s: older session %d was replaced by session %d without a DisconnectEvent", step, old, newer)
}

func c11Keys(m map[string]bool) []string {
	out := make([]string, 0, len(m))
	for k := range m {
		out = append(out, k)
	}
	sort.Strings(out)
	return out
}

// c11GenLogin draws a login that is either fresh or constructed to collide with
// an earlier login of the same history.
func c11GenLogin(t *rapid.T, prev []c11Op, label string) c11Op {
	op := c11Op{Kind: "login"}
	mode := "fresh"
	if len(prev) > 0 {
		mode = rapid.SampledFrom([]string{"fresh", "exact", "exact", "case", "uuid", "name"}).Draw(t, label+"-mode")
	}
	if mode == "fresh" {
		op.Name = rapid.IntRange(0, 2).Draw(t, label+"-name")
		op.Var = rapid.IntRange(0, 2).Draw(t, label+"-var")
		op.UUID = rapid.SampledFrom([]int{0, 0, 0, 1, 2}).Draw(t, label+"-uuid")
	} else {
		src := prev[rapid.IntRange(0, len(prev)-1).Draw(t, label+"-src")]
		op.Name, op.Var, op.UUID = src.Name, src.Var, src.UUID
		switch mode {
		case "case": // same name, other spelling
			op.Var = (src.Var + 1 + rapid.IntRange(0, 1).Draw(t, label+"-dv")) % 3
		case "uuid": // same uuid, other name
			op.Name = (src.Name + 1 + rapid.IntRange(0, 1).Draw(t, label+"-dn")) % 3
			if op.UUID == 0 {
				op.UUID = 1
			}
		case "name": // same name, other uuid
			op.UUID = (src.UUID + 1 + rapid.IntRange(0, 2).Draw(t, label+"-du")) % 4
		}
	}
	op.Deny = rapid.SampledFrom([]string{"", "", "", "", "", "", "", "prelogin", "login", "login", "disc"}).Draw(t, label+"-deny")
	return op
}

func c11GenSeq(t *rapid.T) c11Case {
	c := c11Case{}
	switch rapid.IntRange(0, 2).Draw(t, "mode") {
	case 1:
		c.Online = true
	case 2:
		c.Online, c.Kick = true, true
	}
	n := rapid.IntRange(2, 12).Draw(t, "nops")
	var logins []c11Op
	for i := 0; i < n; i++ {
		kind := "login"
		if len(logins) > 0 {
			kind = rapid.SampledFrom([]string{"login", "login", "login", "hangup", "kick"}).Draw(t, "kind")
		}
		if kind == "login" {
			op := c11GenLogin(t, logins, "login")
			logins = append(logins, op)
			c.Ops = append(c.Ops, op)
		} else {
			c.Ops = append(c.Ops, c11Op{Kind: kind, Sess: rapid.IntRange(0, len(logins)-1).Draw(t, "sess")})
		}
	}
	return c
}

func TestVerif_C11(t *testing.T) {
	verifkit.Check(t, "C11", "sequential",
		"stateful histories of 2-12 ops against a real Proxy driven end-to-end through HandleConn (offline / online / online+kick-existing): logins with identities from a pool of 3 names x 3 spellings x natural-or-pool uuids, constructed to collide with earlier logins (exact, other spelling, same uuid other name, same name other uuid), optionally denied at PreLogin / LoginEvent or disconnected inside LoginEvent; client hang-ups and proxy-side Disconnect of any earlier session. After every step a model written from the property text says who must be registered: each of them must be found by Player(uuid), PlayerByName (all 9 spellings) and Players(); the listing must be duplicate-free, agree with the uuid index (and the name index when kicking is off) and with PlayerCount; kick mode must disconnect the older session first. Registry entries of sessions the model considers gone are only counted (observed:ghost-registration). non-trivial = some login met a registered player with the same uuid or case-insensitive name (the loser's connection is torn down while the winner is online)",
		c11GenSeq, c11RunSeq)
}

// ---------------------------------------------------------------- concurrent batches

// c11ConcCase: a sequential, conflict-free prefix that brings some players
// online, then a batch of 2-6 operations released from one barrier. Batch logins
// may be parked inside an event handler first (GameProfileRequestEvent = before
// the duplicate check, LoginEvent = between canRegisterConnection and
// registerConnection), which is the latest point the code hands control to a
// subscriber; "kickp" is a proxy-side Disconnect of a batch login parked in its
// LoginEvent (Sess = index into Batch).
type c11ConcCase struct {
	Online bool    `json:"online"`
	Kick   bool    `json:"kick"`
	Prefix []c11Op `json:"prefix"`
	Batch  []c11Op `json:"batch"`
	Yield  []int   `json:"yield,omitempty"` // runtime.Gosched calls before each batch op
	Reps   int     `json:"reps"`
}

type c11BatchOp struct {
	kind string
	sess *c11Sess // session the op acts on
	deny string
}

func c11Permute(n int, visit func([]int) bool) bool {
	idx := make([]int, n)
	for i := range idx {
		idx[i] = i
	}
	var rec func(k int) bool
	rec = func(k int) bool {
		if k == n {
			return visit(idx)
		}
		for i := k; i < n; i++ {
			idx[k], idx[i] = idx[i], idx[k]
			if rec(k + 1) {
				return true
			}
			idx[k], idx[i] = idx[i], idx[k]
		}
		return false
	}
	return rec(0)
}

func c11RunConcOnce(c c11ConcCase, rep int) (res verifkit.Result, labels map[string]bool, nt bool) {
	labels = map[string]bool{c11ModeLabel(c.Online, c.Kick): true}
	rig := c11NewRig(c.Online, c.Kick)
	defer func() {
		if to := rig.shutdown(); to != nil && res.V == nil {
			res = verifkit.Result{Inconclusive: true, Labels: []string{"inconclusive:shutdown"}}
		}
	}()
	inconclusive := func(to *c11Timeout) (verifkit.Result, map[string]bool, bool) {
		return verifkit.Result{Inconclusive: true, Labels: []string{"inconclusive:" + to.what}}, labels, false
	}
	m := c11NewModel(c.Kick)

	// prefix (sequential; checked, so that the batch starts from a known state)
	var pre []*c11Sess
	for i, op := range c.Prefix {
		if op.Kind != "login" {
			continue
		}
		s := rig.start(op.Name, op.Var, op.UUID, "", "")
		pre = append(pre, s)
		m.add(s.idx, s.name, s.id)
		if to := s.waitLogin(); to != nil {
			return inconclusive(to)
		}
		if to := rig.settle(); to != nil {
			return inconclusive(to)
		}
		out := m.login(s.idx, "")
		own := -1
		if out.registered {
			own = s.idx
		}
		if out.registered && s.conn.isClosed() {
			m.remove(s.idx)
			own = -1
		}
		if v, _ := c11Diff(m, rig.observe(), fmt.Sprintf("rep %d prefix login %d session %d (%s/%s conflict=%q)", rep, i, s.idx, s.name, s.id, out.conflict), own); v != nil {
			return verifkit.Result{V: v}, labels, false
		}
	}

	// prepare the batch: sessions exist (and parked logins are driven to their
	// park point) before the barrier opens
	ops := make([]c11BatchOp, 0, len(c.Batch))
	batchSess := make([]*c11Sess, len(c.Batch))
	for i, op := range c.Batch {
		if op.Kind != "login" {
			continue
		}
		park := op.Park
		if park != "profile" && park != "login" {
			park = ""
		}
		deny := c11ValidDeny(op.Deny)
		if park != "" && deny == "prelogin" {
			deny = ""
		}
		s := rig.prepare(op.Name, op.Var, op.UUID, deny, park)
		batchSess[i] = s
		m.add(s.idx, s.name, s.id)
		if park != "" {
			rig.run(s)
			if to := s.waitParked(); to != nil {
				return inconclusive(to)
			}
			labels["park:"+park] = true
		}
	}
	for i, op := range c.Batch {
		switch op.Kind {
		case "login":
			ops = append(ops, c11BatchOp{kind: "login", sess: batchSess[i], deny: batchSess[i].deny})
		case "hangup", "kick":
			if len(pre) == 0 {
				continue
			}
			ops = append(ops, c11BatchOp{kind: op.Kind, sess: pre[((op.Sess%len(pre))+len(pre))%len(pre)]})
		case "kickp":
			if c.Kick || len(c.Batch) == 0 {
				continue
			}
			t := batchSess[((op.Sess%len(c.Batch))+len(c.Batch))%len(c.Batch)]
			if t == nil || t.park != "login" || t.getPlayer() == nil {
				continue
			}
			ops = append(ops, c11BatchOp{kind: "kickp", sess: t})
			labels["kick-of-parked-login"] = true
		}
	}
	if len(ops) == 0 {
		return verifkit.Result{Labels: []string{"empty-batch"}}, labels, false
	}

	// conflict classification (non-trivial rule)
	for i := range ops {
		for j := i + 1; j < len(ops); j++ {
			a, b := ops[i], ops[j]
			same := a.sess == b.sess || a.sess.id == b.sess.id || strings.EqualFold(a.sess.name, b.sess.name)
			if !same {
				continue
			}
			switch {
			case a.kind == "login" && b.kind == "login":
				labels["race:login-login-same-identity"] = true
			case a.kind == "login" || b.kind == "login":
				labels["race:login-vs-disconnect-same-identity"] = true
			default:
				labels["race:disconnect-disconnect-same-session"] = true
			}
			nt = true
		}
		if ops[i].kind == "login" {
			for _, ps := range pre {
				if ms := m.sess[ps.idx]; ms.reg && (ps.id == ops[i].sess.id || strings.EqualFold(ps.name, ops[i].sess.name)) {
					labels["batch-login-duplicates-online-player"] = true
					nt = true
				}
			}
		}
	}

	// barrier
	start := make(chan struct{})
	timeouts := make([]*c11Timeout, len(ops))
	var wg sync.WaitGroup
	for i := range ops {
		wg.Add(1)
		go func(i int) {
			defer wg.Done()
			rig.addGoid()
			op := ops[i]
			y := 0
			if i < len(c.Yield) {
				y = c.Yield[i]
			}
			<-start
			for k := 0; k < y && k < 8; k++ {
				c11Gosched()
			}
			switch op.kind {
			case "login":
				if op.sess.park != "" {
					op.sess.releaseNow()
				} else {
					rig.run(op.sess)
				}
				timeouts[i] = op.sess.waitLogin()
			case "hangup":
				timeouts[i] = rig.hangup(op.sess)
			case "kick", "kickp":
				timeouts[i] = rig.kickOut(op.sess)
			}
		}(i)
	}
	close(start)
	phase := make(chan *c11Timeout, 1)
	go func() {
		wg.Wait()
		for _, to := range timeouts {
			if to != nil {
				phase <- to
				return
			}
		}
		// a kicked parked login may still be inside its handler: let every batch
		// login finish, then wait for the handlers of all closed connections
		for _, s := range batchSess {
			if s != nil {
				if to := s.waitLogin(); to != nil {
					phase <- to
					return
				}
			}
		}
		phase <- rig.settle()
	}()
	to, dead := rig.await(phase)
	if dead != nil {
		labels["deadlock"] = true
		return verifkit.Result{V: dead}, labels, nt
	}
	if to != nil {
		return inconclusive(to)
	}
	obs := rig.observe()

	// Sessions whose login completed (LoginSuccess sent, proxy waits for the next
	// packet) and that are still connected are logged-in players. No two of them
	// may share a uuid (in kick mode the older one is disconnected first), and
	// with kicking disabled no two may share a case-insensitive name.
	var online []*c11Sess
	for _, s := range rig.sessions() {
		if s.conn.isClosed() {
			continue
		}
		select {
		case <-s.conn.idle:
			online = append(online, s)
		default:
		}
	}
	for i, a := range online {
		for _, b := range online[i+1:] {
			if a.id == b.id {
				return verifkit.Fail("duplicate-accepted:uuid", "rep %d: sessions %d (%s) and %d (%s) both completed their login with uuid %s and both are still connected", rep, a.idx, a.name, b.idx, b.name, a.id), labels, nt
			}
			if !c.Kick && strings.EqualFold(a.name, b.name) {
				return verifkit.Fail("duplicate-accepted:name", "rep %d: sessions %d (%s/%s) and %d (%s/%s) both completed their login under the same case-insensitive name and both are still connected (kicking disabled)", rep, a.idx, a.name, a.id, b.idx, b.name, b.id), labels, nt
			}
		}
	}

	// Some order of the batch must explain the final state. Per order the model is
	// run, then batch logins whose connection the proxy closed are taken out of
	// the model (the property does not promise that a login is accepted), then the
	// property clauses are checked (c11Diff).
	var first *verifkit.Violation
	ghosts, matched := 0, false
	found := c11Permute(len(ops), func(order []int) bool {
		mm := m.clone()
		for _, oi := range order {
			op := ops[oi]
			switch op.kind {
			case "login":
				mm.login(op.sess.idx, op.deny)
			default:
				mm.remove(op.sess.idx)
			}
		}
		for _, s := range batchSess {
			if s != nil && s.conn.isClosed() {
				mm.remove(s.idx)
			}
		}
		v, g := c11Diff(mm, obs, "final state", -1)
		if v != nil && first == nil {
			first = v
		}
		if v == nil && (!matched || g < ghosts) {
			matched, ghosts = true, g
		}
		return v == nil && g == 0 // keep looking for an order that explains every entry
	})
	found = found || matched
	if found {
		if ghosts > 0 {
			// e.g. a player disconnected between the Active() check and
			// registerConnection stays registered: real, but outside the property
			labels["observed:ghost-registration"] = true
			verifkit.AddNote("C11", "concurrent", "observed_ghost_registrations", 1)
		}
		return verifkit.Result{}, labels, nt
	}

	// classify
	desc := make([]string, len(ops))
	for i, op := range ops {
		desc[i] = fmt.Sprintf("%s(session %d %s/%s park=%q deny=%q)", op.kind, op.sess.idx, op.sess.name, op.sess.id, op.sess.park, op.deny)
	}
	state := fmt.Sprintf("rep %d: batch [%s]; observed count=%d players=%v byID=%v byName=%v; open sessions=%v; first order differs by: %s",
		rep, strings.Join(desc, ", "), obs.count, obs.players, obs.byID, obs.byName, rig.openSessions(), first.Msg)
	for _, s := range rig.sessions() {
		if s.conn.isClosed() {
			continue
		}
		select {
		case <-s.conn.idle: // login completed and the connection is still open: it was registered and nobody disconnected it
		default:
			continue
		}
		if obs.byID[s.id.String()] != s.idx {
			return verifkit.Fail("lost-registration:foreign-teardown", "session %d (%s/%s) completed its login, is still connected and never disconnected, but Player(uuid) does not find it. %s", s.idx, s.name, s.id, state), labels, nt
		}
		// with kicking disabled names are unique, so the name must still lead to it
		// ... and in kick mode unless a newer player of that name took the entry over
		if (!c.Kick && obs.byName[s.name] != s.idx) || (c.Kick && obs.byName[s.name] == -1) {
			return verifkit.Fail("lost-registration:foreign-teardown", "session %d (%s/%s) completed its login, is still connected and never disconnected, but PlayerByName(%q) returns session %d (-1 = nobody): its name entry was removed by somebody else. %s", s.idx, s.name, s.id, s.name, obs.byName[s.name], state), labels, nt
		}
	}
	if first != nil && first.Key != "lost-registration:foreign-teardown" && first.Key != "duplicate-registered:id" && first.Key != "duplicate-registered:name" {
		// order-independent clauses (uniqueness, count, index agreement)
		return verifkit.Fail(first.Key, "%s. %s", first.Msg, state), labels, nt
	}
	return verifkit.Fail("nonlinearizable", "no order of the batch explains the final registry. %s", state), labels, nt
}

func c11RunConc(c c11ConcCase) verifkit.Result {
	if c.Kick && !c.Online {
		return verifkit.Result{Labels: []string{"skipped:offline-kick"}}
	}
	reps := c.Reps
	if reps < 1 {
		reps = 1
	}
	if reps > 200 {
		reps = 200
	}
	all := map[string]bool{}
	nt := false
	for rep := 0; rep < reps; rep++ {
		res, labels, n := c11RunConcOnce(c, rep)
		for l := range labels {
			all[l] = true
		}
		nt = nt || n
		if res.V != nil || res.Inconclusive {
			return res
		}
	}
	verifkit.AddNote("C11", "concurrent", "schedules_run", int64(reps))
	return verifkit.Result{NonTrivial: nt, Labels: c11Keys(all)}
}

func c11GenConc(t *rapid.T) c11ConcCase {
	c := c11ConcCase{Reps: 20}
	switch rapid.IntRange(0, 2).Draw(t, "mode") {
	case 1:
		c.Online = true
	case 2:
		c.Online, c.Kick = true, true
	}
	// prefix: distinct base names with natural ids, so the batch starts from a
	// state with 0-3 registered players and no earlier conflict
	np := rapid.IntRange(0, 3).Draw(t, "prefix")
	var idents []c11Op
	for i := 0; i < np; i++ {
		op := c11Op{Kind: "login", Name: i, Var: rapid.IntRange(0, 2).Draw(t, "pvar")}
		c.Prefix = append(c.Prefix, op)
		idents = append(idents, op)
	}
	n := rapid.IntRange(2, 6).Draw(t, "batch")
	for i := 0; i < n; i++ {
		kinds := []string{"login", "login", "login"}
		if np > 0 {
			kinds = append(kinds, "hangup", "kick")
		}
		parkedLogin := -1
		for j, b := range c.Batch {
			if b.Kind == "login" && b.Park == "login" {
				parkedLogin = j
			}
		}
		if !c.Kick && parkedLogin >= 0 {
			kinds = append(kinds, "kickp")
		}
		switch kind := rapid.SampledFrom(kinds).Draw(t, "kind"); kind {
		case "login":
			op := c11GenLogin(t, idents, "blogin")
			op.Park = rapid.SampledFrom([]string{"", "profile", "login", "login"}).Draw(t, "park")
			if op.Park != "" && op.Deny == "prelogin" {
				op.Deny = ""
			}
			idents = append(idents, op)
			c.Batch = append(c.Batch, op)
		case "kickp":
			c.Batch = append(c.Batch, c11Op{Kind: "kickp", Sess: parkedLogin})
		default:
			c.Batch = append(c.Batch, c11Op{Kind: kind, Sess: rapid.IntRange(0, np-1).Draw(t, "sess")})
		}
		c.Yield = append(c.Yield, rapid.IntRange(0, 3).Draw(t, "yield"))
	}
	return c
}

func TestVerif_C11_Conc(t *testing.T) {
	verifkit.Check(t, "C11", "concurrent",
		"a conflict-free prefix of 0-3 online players, then a batch of 2-6 ops (end-to-end logins colliding with online players or with each other, optionally parked in GameProfileRequestEvent / LoginEvent i.e. before / after the duplicate check, optionally denied; client hang-ups and proxy-side Disconnect of online players; Disconnect of a login parked in LoginEvent) released from one barrier with generated Gosched noise, each batch repeated 20 times on a fresh Proxy under the race detector; under SOME order of the batch (all permutations tried) every player the model keeps registered must be found by Player(uuid)/PlayerByName/Players, the listing must be duplicate-free and agree with the indexes and PlayerCount; no two connected logged-in sessions may share a uuid (or name, kicking off); a stuck registry lock is a violation; registrations of disconnected players are only counted (observed:ghost-registration). non-trivial = two batch ops touch the same uuid / case-insensitive name, or a batch login duplicates an online player",
		c11GenConc, c11RunConc)
}
