//go:build verif

package proxy

// End-to-end rig shared by C43 and C08: a real *Proxy (proxy.New, no listeners)
// whose HandleConn is fed one end of a net.Pipe; the other end is driven by a
// scripted fake client that speaks the wire protocol through the independent
// reference framing of verifkit (never the proxy's codec).
//
// Determinism rules the rig relies on (all structural, none timing based):
//
//   - net.Pipe is synchronous: a client Write returns only after the proxy's
//     read loop consumed every byte of it, and a proxy Write returns only after
//     the client's collector goroutine read it.
//   - The proxy handles login/status packets synchronously on its single read
//     loop goroutine and checks "closed?" before every further read. Hence, when
//     the client sends each frame with its own Write, "the proxy closed the
//     connection as a consequence of frames 1..k" is equivalent to "the Write of
//     frame k+1 fails" (io.ErrClosedPipe) — no sleeping, no polling.
//   - A case always ends with one probe frame (so the verdict about closure of
//     the last scripted frame is available), then the client closes its end and
//     joins the collector goroutine and the HandleConn goroutine.

import (
	"fmt"
	"net"
	"runtime/debug"
	"sync"
	"sync/atomic"
	"time"

	"github.com/robinbraemer/event"
	"go.minekube.com/gate/pkg/edition/java/auth"
	"go.minekube.com/gate/pkg/edition/java/config"
	"go.minekube.com/gate/pkg/internal/verifkit"
)

// c43Supported is the list of protocol numbers the pinned proxy supports
// (transcribed from the release notes / wiki.vg numbering, 1.7.2 .. 26.2).
var c43Supported = []int32{
	4, 5, 47, 107, 108, 110, 210, 315, 316, 335, 338, 340, 393, 404, 477, 573,
	735, 736, 751, 753, 754, 755, 756, 757, 758, 759, 760, 761, 762, 763, 764,
	765, 766, 767, 768, 769, 770, 771, 772, 773, 774, 775, 776,
}

// c43Newest is the proxy's newest supported protocol.
const c43Newest int32 = 776

func c43IsSupported(p int32) bool {
	for _, s := range c43Supported {
		if s == p {
			return true
		}
	}
	return false
}

var (
	c43AuthOnce sync.Once
	c43AuthDflt auth.Authenticator
)

// c43DefaultAuth is a process-wide authenticator for cases that never reach
// online-mode authentication (avoids an RSA key generation per case).
func c43DefaultAuth() auth.Authenticator {
	c43AuthOnce.Do(func() {
		a, err := auth.New(auth.Options{})
		if err != nil {
			panic(err)
		}
		c43AuthDflt = a
	})
	return c43AuthDflt
}

// c43NewProxy builds a fresh proxy. mut may adjust the configuration.
func c43NewProxy(mgr event.Manager, authn auth.Authenticator, mut func(*config.Config)) *Proxy {
	cfg := config.DefaultConfig
	cfg.Bind = "127.0.0.1:0"
	cfg.Quota.Connections.Enabled = false
	cfg.Quota.Logins.Enabled = false
	cfg.PacketLimiter.PacketsPerSecond = -1
	cfg.PacketLimiter.BytesPerSecond = -1
	cfg.Compression.Threshold = -1
	cfg.Servers = map[string]string{}
	cfg.Try = []string{}
	cfg.ForcedHosts = map[string][]string{}
	cfg.Lite.Enabled = false
	if mut != nil {
		mut(&cfg)
	}
	if authn == nil {
		authn = c43DefaultAuth()
	}
	p, err := New(Options{Config: &cfg, EventMgr: mgr, Authenticator: authn})
	if err != nil {
		panic(fmt.Sprintf("c43NewProxy: %v", err))
	}
	return p
}

var c43PortCounter atomic.Int32

// c43ProxyConn is the proxy's end of the pipe with TCP-looking addresses.
type c43ProxyConn struct {
	net.Conn
	remote, local net.Addr
}

func (c *c43ProxyConn) RemoteAddr() net.Addr { return c.remote }
func (c *c43ProxyConn) LocalAddr() net.Addr  { return c.local }

// c43Client is the scripted client end.
type c43Client struct {
	c net.Conn

	mu   sync.Mutex
	cond *sync.Cond
	buf  []byte
	eof  bool

	readerDone  chan struct{}
	handlerDone chan struct{}
	panicVal    atomic.Value // string
	wedged      atomic.Value // string: stack of HandleConn's goroutine parked on a mutex after the connection was closed

	finished bool
}

// c43Dial connects a new fake client to p through HandleConn.
func c43Dial(p *Proxy) *c43Client {
	cs, ps := net.Pipe()
	cl := &c43Client{c: cs, readerDone: make(chan struct{}), handlerDone: make(chan struct{})}
	cl.cond = sync.NewCond(&cl.mu)
	port := 20000 + int(c43PortCounter.Add(1)%30000)
	pc := &c43ProxyConn{Conn: ps,
		remote: &net.TCPAddr{IP: net.IPv4(127, 0, 0, 1), Port: port},
		local:  &net.TCPAddr{IP: net.IPv4(127, 0, 0, 1), Port: 25565}}
	go func() {
		defer close(cl.readerDone)
		tmp := make([]byte, 8192)
		for {
			n, err := cs.Read(tmp)
			cl.mu.Lock()
			if n > 0 {
				cl.buf = append(cl.buf, tmp[:n]...)
			}
			if err != nil {
				cl.eof = true
			}
			cl.cond.Broadcast()
			cl.mu.Unlock()
			if err != nil {
				return
			}
		}
	}()
	go func() {
		defer close(cl.handlerDone)
		defer func() {
			if r := recover(); r != nil {
				cl.panicVal.Store(fmt.Sprintf("%v\n%s", r, debug.Stack()))
				_ = ps.Close()
			}
		}()
		p.HandleConn(pc)
	}()
	return cl
}

// Send writes one frame with its own Write. A non-nil error means the proxy had
// closed the connection before consuming the frame.
func (c *c43Client) Send(frame []byte) error {
	_, err := c.c.Write(frame)
	return err
}

// AwaitPlainFrames blocks until n complete uncompressed, unencrypted frames are
// available from the start of the received stream, or the stream ended. It
// returns the frames available (possibly fewer than n at end of stream).
func (c *c43Client) AwaitPlainFrames(n int) (frames [][]byte, eof bool) {
	c.mu.Lock()
	defer c.mu.Unlock()
	for {
		frames = frames[:0]
		r := verifkit.NewRefReader(c.buf)
		for len(frames) < n {
			f, err := verifkit.RefReadFrame(r, -1, 1<<21)
			if err != nil {
				break
			}
			frames = append(frames, append([]byte(nil), f...))
		}
		if len(frames) >= n || c.eof {
			return frames, c.eof
		}
		c.cond.Wait()
	}
}

// Finish closes the client end, joins the collector and the HandleConn
// goroutine and returns every byte the proxy wrote. Idempotent.
func (c *c43Client) Finish() []byte {
	if !c.finished {
		c.finished = true
		_ = c.c.Close()
		<-c.readerDone
		select {
		case <-c.handlerDone:
		case <-time.After(15 * time.Second):
			// HandleConn has not returned although its connection is closed: is its
			// goroutine sitting on a mutex that nobody will release?
			if st := verifkit.MutexParked("proxy.(*Proxy).HandleConn", 3*time.Second); st != "" {
				c.wedged.Store(st)
			} else {
				<-c.handlerDone
			}
		}
	}
	c.mu.Lock()
	defer c.mu.Unlock()
	return append([]byte(nil), c.buf...)
}

// Wedged returns the stack of the HandleConn goroutine if it was found parked on
// a mutex for good after the client had closed the connection ("" otherwise).
func (c *c43Client) Wedged() string {
	if v, ok := c.wedged.Load().(string); ok {
		return v
	}
	return ""
}

// Panic returns the panic that escaped HandleConn ("" if none). Valid after Finish.
func (c *c43Client) Panic() string {
	if v, ok := c.panicVal.Load().(string); ok {
		return v
	}
	return ""
}

// c43Handshake builds a framed Handshake packet.
func c43Handshake(protocol int32, host string, port uint16, next int32) []byte {
	var b []byte
	b = append(b, verifkit.RefVarInt(0x00)...)
	b = append(b, verifkit.RefVarInt(protocol)...)
	b = append(b, verifkit.RefString(host)...)
	b = append(b, verifkit.RefU16(port)...)
	b = append(b, verifkit.RefVarInt(next)...)
	return verifkit.RefFrame(b, -1, 0)
}

// c43LoginStart builds a framed LoginStart (hello) packet in the wire format of
// the given protocol, without a profile key.
func c43LoginStart(protocol int32, name string, id [16]byte) []byte {
	var b []byte
	b = append(b, verifkit.RefVarInt(0x00)...)
	b = append(b, verifkit.RefString(name)...)
	switch {
	case protocol >= 764: // 1.20.2+: uuid
		b = append(b, id[:]...)
	case protocol >= 761: // 1.19.3 .. 1.20.1: optional uuid
		b = append(b, 1)
		b = append(b, id[:]...)
	case protocol == 760: // 1.19.1/2: has-key bool, optional uuid
		b = append(b, 0)
		b = append(b, 1)
		b = append(b, id[:]...)
	case protocol == 759: // 1.19: has-key bool
		b = append(b, 0)
	}
	return verifkit.RefFrame(b, -1, 0)
}

// c43SplitFrames parses a complete plaintext stream into frames.
// trailing reports undecodable trailing bytes (a truncated or malformed frame).
func c43SplitFrames(stream []byte, threshold int) (frames [][]byte, trailing error) {
	r := verifkit.NewRefReader(stream)
	for r.Remaining() > 0 {
		f, err := verifkit.RefReadFrame(r, threshold, 1<<21)
		if err != nil {
			return frames, err
		}
		frames = append(frames, f)
	}
	return frames, nil
}

// c43Guard runs fn under the deadlock sensor. ok=false means the result is
// already decided (deadlock = violation, slow = inconclusive).
func c43Guard(site string, fn func() verifkit.Result) verifkit.Result {
	var res verifkit.Result
	w := verifkit.Watch(20*time.Second, "proxy.", func() { res = fn() })
	switch w.Outcome {
	case verifkit.Returned:
		return res
	case verifkit.Panicked:
		return verifkit.Fail("panic:"+site, "panic in case runner: %v\n%s", w.PanicValue, w.PanicStack)
	case verifkit.Deadlocked:
		return verifkit.Fail("deadlock:"+site, "case did not finish; goroutine parked in proxy code:\n%s", w.Stack)
	default:
		return verifkit.Result{Inconclusive: true, Labels: []string{"slow"}}
	}
}
