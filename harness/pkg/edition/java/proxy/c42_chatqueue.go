//go:build verif

package proxy

// C42, sub-check "chat-queue-chain": the "a chain of composed futures completes in
// chain order" clause at the caller that relies on it. chatQueue composes every
// client chat packet onto the previous head with future.ThenCompose and hands each
// link the future of its backend write; the next link may start only when that
// write has completed. The main C42 check drives package future directly; this
// sub-check runs the real chatQueue (rig of C21: real chat handlers, recording
// backend) against a backend whose writes of forwarded acknowledgements are slow,
// and judges only the order in which the backend saw the client's packets and the
// acknowledgement totals they imply. Histories stay inside the part of the chat
// handlers for which C21 has no finding on record (untouched chat, commands the
// proxy does not know, acknowledgements).

import (
	"strings"
	"testing"

	"pgregory.net/rapid"

	"go.minekube.com/gate/pkg/internal/verifkit"
)

func c42qGen(t *rapid.T) c21Case {
	c := c21Case{
		Protocol: rapid.SampledFrom([]int{761, 765, 766, 770, 772}).Draw(t, "protocol"),
		ForceKey: rapid.Bool().Draw(t, "forceKey"),
		SlowAcks: true,
	}
	n := rapid.IntRange(2, 12).Draw(t, "n")
	for i := 0; i < n; i++ {
		var it c21Item
		it.Kind = rapid.SampledFrom([]string{"chat", "scmd", "ack", "ack"}).Draw(t, "kind")
		switch it.Kind {
		case "chat":
			it.Offset = rapid.SampledFrom([]int{0, 0, 1, 2, 5}).Draw(t, "offset")
		case "scmd":
			it.Offset = rapid.SampledFrom([]int{0, 0, 1, 2, 5}).Draw(t, "offset")
			it.Outcome = "unknown"
		default:
			// large offsets: the held acknowledgements cross the forwarding threshold
			it.Offset = rapid.SampledFrom([]int{1, 5, 19, 20, 21, 25, 39, 40, 41, 64}).Draw(t, "ackOffset")
		}
		c.Items = append(c.Items, it)
		if c21Kicks(c, it) {
			break
		}
	}
	for i := range c.Items {
		switch rapid.IntRange(0, 4).Draw(t, "before") {
		case 0:
			c.Steps = append(c.Steps, c21Step{Op: "yield"})
		case 1:
			c.Steps = append(c.Steps, c21Step{Op: "drain"})
		}
		c.Steps = append(c.Steps, c21Step{Op: "send", Item: i})
	}
	return c
}

func c42qRun(c c21Case) verifkit.Result {
	r := c21Run(c)
	held := false
	for _, l := range r.Labels {
		if l == "ack-write-held-across-next-packet" {
			held = true
		}
	}
	r.NonTrivial = held
	if r.V != nil && !strings.HasPrefix(r.V.Key, "chain:") {
		r.V = &verifkit.Violation{Key: "chain:" + r.V.Key, Msg: "chat queue (future.ThenCompose chain) with a slow backend write: " + r.V.Msg}
	}
	return r
}

func TestVerif_C42Queue(t *testing.T) {
	verifkit.Check(t, "C42", "chat-queue-chain",
		"the real chatQueue (every client chat packet composed onto the previous head with future.ThenCompose) on protocols 1.19.3..1.21.7: histories of 2..12 packets over {untouched signed chat, signed command the proxy does not know, acknowledgement with offsets up to 64 so that held acknowledgements are forwarded}, schedule {yield / drain / nothing before each packet}, against a backend whose write of a forwarded ChatAcknowledgement completes only after the client's next packet was handed to the proxy; oracle (C21's, over the recorded backend sequence): packets reach the backend in client order, no packet twice, and at every packet with a last-seen update the backend's acknowledgement total equals the client's - a link that starts before the previous link's write completed breaks one of them; non-trivial = an acknowledgement write was actually held across the next packet",
		c42qGen, c42qRun)
}
