//go:build verif

package proxy

import (
	"bytes"
	"context"
	"encoding/json"
	"fmt"
	"net"
	"os"
	"os/exec"
	"runtime/debug"
	"sort"
	"strings"
	"sync"
	"testing"
	"time"

	"github.com/go-logr/logr"
	"github.com/robinbraemer/event"
	"go.minekube.com/brigodier"
	"pgregory.net/rapid"

	"go.minekube.com/gate/pkg/command"
	"go.minekube.com/gate/pkg/edition/java/config"
	"go.minekube.com/gate/pkg/edition/java/netmc"
	"go.minekube.com/gate/pkg/edition/java/proto/packet"
	"go.minekube.com/gate/pkg/edition/java/proto/state"
	"go.minekube.com/gate/pkg/edition/java/proxy/bungeecord"
	"go.minekube.com/gate/pkg/edition/java/proxy/phase"
	"go.minekube.com/gate/pkg/gate/proto"
	"go.minekube.com/gate/pkg/internal/verifkit"
	"go.minekube.com/gate/pkg/util/permission"
)

// C23: the command tree sent to a player only shows proxy commands it may use;
// proxy nodes replace backend nodes of the same name; other backend nodes are
// kept unchanged.
//
// Pipeline of one case (everything between the two wire ends is real code):
//
//   backend spec --(independent encoder)--> wire bytes --AvailableCommands.Decode-->
//   handleAvailableCommands (filterNode + merge, real command.Manager, real
//   connectedPlayer permission function) --> packet written to the player
//   --AvailableCommands.Encode--> wire bytes --(independent parser)--> graph
//
// The oracle walks that graph in lock step (bisimulation, so redirect cycles of
// the backend tree such as `execute run -> root` are fine) with an expected graph
// computed from the case spec alone by c23Expect (an independent tree walker that
// never looks at brigodier objects).

// ---------------------------------------------------------------- case

type c23Node struct {
	Kind string `json:"kind"` // "root" | "lit" | "arg"
	Name string `json:"name"`
	Type int    `json:"type"` // argument type: index into c23Types
	Exec bool   `json:"exec"`
	// Req (proxy trees): "" no requirement | "true" | "console" (source must not be
	// a player) | "perm:<p>" (source must hold permission p).
	Req string `json:"req,omitempty"`
	// Restricted (backend trees): node flag 0x20 on the wire.
	Restricted bool `json:"restricted,omitempty"`
	// Suggest: backend: suggestion provider id on the wire ("" none); proxy:
	// non-empty = node has custom suggestions (announced as minecraft:ask_server).
	Suggest  string `json:"suggest,omitempty"`
	Children []int  `json:"children"`
	Redirect int    `json:"redirect"` // -1 none
	// AliasOf (proxy, root level): >0 = registered through
	// Manager.RegisterWithAliases as alias of that primary node.
	AliasOf int `json:"alias_of,omitempty"`
}

type c23Case struct {
	Protocol int       `json:"protocol"`
	Proxy    []c23Node `json:"proxy"`   // [0] is the root
	Backend  []c23Node `json:"backend"` // [0] is the root
	Perms    []string  `json:"perms"`   // permissions the player holds
	// Graph: build the proxy tree node by node with CommandNode.AddChild instead of
	// nested builders, which allows redirects to the dispatcher root (index 0) and
	// to ancestors (the `execute run -> root` pattern). Only used by the
	// redirect-cycle sub-check, which runs each case in a child process.
	Graph bool `json:"graph,omitempty"`
}

type c23Type struct {
	desc  string // canonical description used by both sides of the comparison
	id    int    // numeric parser id (>=1.19)
	ident string // parser identifier (<1.19)
	props []byte
}

// Parser ids 0..7 are identical in every 1.19+ protocol version (vanilla
// ArgumentTypeInfos registration order: bool,float,double,integer,long,string,
// entity,game_profile).
var c23Types = []c23Type{
	{"bool", 0, "brigadier:bool", nil},
	{"string:0", 5, "brigadier:string", []byte{0}},
	{"string:1", 5, "brigadier:string", []byte{1}},
	{"string:2", 5, "brigadier:string", []byte{2}},
	{"int:0", 3, "brigadier:integer", []byte{0}},
	{"int:1:0", 3, "brigadier:integer", []byte{1, 0, 0, 0, 0}},
	{"game_profile", 7, "minecraft:game_profile", nil}, // backend only
}

func c23ProxyArgType(i int) brigodier.ArgumentType {
	switch i {
	case 0:
		return brigodier.Bool
	case 1:
		return brigodier.StringWord
	case 2:
		return brigodier.String
	case 3:
		return brigodier.StringPhrase
	case 4:
		return brigodier.Int
	default:
		return &brigodier.Int32ArgumentType{Min: 0, Max: brigodier.MaxInt32}
	}
}

// ---------------------------------------------------------------- fake player conn

type c23Conn struct {
	mu       sync.Mutex
	packets  []proto.Packet
	protocol proto.Protocol
}

func (c *c23Conn) Context() context.Context                                { return context.Background() }
func (c *c23Conn) Close() error                                            { return nil }
func (c *c23Conn) State() *state.Registry                                  { return state.Play }
func (c *c23Conn) Protocol() proto.Protocol                                { return c.protocol }
func (c *c23Conn) RemoteAddr() net.Addr                                    { return &net.TCPAddr{} }
func (c *c23Conn) LocalAddr() net.Addr                                     { return &net.TCPAddr{} }
func (c *c23Conn) Type() phase.ConnectionType                              { return phase.Vanilla }
func (c *c23Conn) SetType(phase.ConnectionType)                            {}
func (c *c23Conn) ActiveSessionHandler() netmc.SessionHandler              { return nil }
func (c *c23Conn) SetActiveSessionHandler(*state.Registry, netmc.SessionHandler) {}
func (c *c23Conn) SwitchSessionHandler(*state.Registry) bool               { return true }
func (c *c23Conn) AddSessionHandler(*state.Registry, netmc.SessionHandler) {}
func (c *c23Conn) SetAutoReading(bool)                                     {}
func (c *c23Conn) SetProtocol(proto.Protocol)                              {}
func (c *c23Conn) SetState(*state.Registry)                                {}
func (c *c23Conn) SetOutboundState(*state.Registry)                        {}
func (c *c23Conn) SetCompressionThreshold(int) error                       { return nil }
func (c *c23Conn) EnableEncryption([]byte) error                           { return nil }
func (c *c23Conn) WritePacket(p proto.Packet) error {
	c.mu.Lock()
	c.packets = append(c.packets, p)
	c.mu.Unlock()
	return nil
}
func (c *c23Conn) Write([]byte) error                  { return nil }
func (c *c23Conn) BufferPacket(p proto.Packet) error   { return c.WritePacket(p) }
func (c *c23Conn) BufferPayload([]byte) error          { return nil }
func (c *c23Conn) Flush() error                        { return nil }
func (c *c23Conn) Reader() netmc.Reader                { return nil }
func (c *c23Conn) Writer() netmc.Writer                { return nil }
func (c *c23Conn) EnablePlayPacketQueue()              {}

var _ netmc.MinecraftConn = (*c23Conn)(nil)

type c23Suggest struct{}

func (c23Suggest) Suggestions(_ *brigodier.CommandContext, b *brigodier.SuggestionsBuilder) *brigodier.Suggestions {
	return b.Build()
}

// ---------------------------------------------------------------- independent wire codec

func c23EncodeBackend(nodes []c23Node, protocol int) []byte {
	var b []byte
	b = append(b, verifkit.RefVarInt(int32(len(nodes)))...)
	for _, n := range nodes {
		var flags byte
		switch n.Kind {
		case "lit":
			flags = 1
		case "arg":
			flags = 2
		}
		if n.Exec {
			flags |= 0x04
		}
		if n.Redirect >= 0 {
			flags |= 0x08
		}
		if n.Kind == "arg" && n.Suggest != "" {
			flags |= 0x10
		}
		if n.Restricted {
			flags |= 0x20
		}
		b = append(b, flags)
		b = append(b, verifkit.RefVarInt(int32(len(n.Children)))...)
		for _, c := range n.Children {
			b = append(b, verifkit.RefVarInt(int32(c))...)
		}
		if n.Redirect >= 0 {
			b = append(b, verifkit.RefVarInt(int32(n.Redirect))...)
		}
		if n.Kind != "root" {
			b = append(b, verifkit.RefString(n.Name)...)
		}
		if n.Kind == "arg" {
			t := c23Types[n.Type]
			if protocol >= 759 {
				b = append(b, verifkit.RefVarInt(int32(t.id))...)
			} else {
				b = append(b, verifkit.RefString(t.ident)...)
			}
			b = append(b, t.props...)
			if n.Suggest != "" {
				b = append(b, verifkit.RefString(n.Suggest)...)
			}
		}
	}
	b = append(b, verifkit.RefVarInt(0)...) // root index
	return b
}

type c23Wire struct {
	kind       byte // 0 root, 1 literal, 2 argument
	exec       bool
	restricted bool
	name       string
	typ        string
	suggest    string
	children   []int
	redirect   int
}

func c23ParseWire(b []byte, protocol int) (nodes []c23Wire, root int, err error) {
	r := verifkit.NewRefReader(b)
	n, err := r.VarInt()
	if err != nil {
		return nil, 0, err
	}
	if n < 0 || int(n) > len(b) {
		return nil, 0, fmt.Errorf("node count %d", n)
	}
	for i := 0; i < int(n); i++ {
		flags, err := r.Byte()
		if err != nil {
			return nil, 0, err
		}
		w := c23Wire{kind: flags & 3, exec: flags&4 != 0, restricted: flags&0x20 != 0, redirect: -1}
		if w.kind == 3 {
			return nil, 0, fmt.Errorf("node %d: type 3", i)
		}
		if flags&0xC0 != 0 {
			return nil, 0, fmt.Errorf("node %d: unknown flag bits %#x", i, flags)
		}
		cc, err := r.VarInt()
		if err != nil {
			return nil, 0, err
		}
		if cc < 0 || int(cc) > len(b) {
			return nil, 0, fmt.Errorf("node %d: child count %d", i, cc)
		}
		for j := 0; j < int(cc); j++ {
			c, err := r.VarInt()
			if err != nil {
				return nil, 0, err
			}
			w.children = append(w.children, int(c))
		}
		if flags&8 != 0 {
			t, err := r.VarInt()
			if err != nil {
				return nil, 0, err
			}
			w.redirect = int(t)
		}
		if w.kind != 0 {
			if w.name, err = r.String(); err != nil {
				return nil, 0, err
			}
		}
		if w.kind == 2 {
			var key string
			if protocol >= 759 {
				id, err := r.VarInt()
				if err != nil {
					return nil, 0, err
				}
				key = fmt.Sprint(id)
			} else {
				if key, err = r.String(); err != nil {
					return nil, 0, err
				}
			}
			switch key {
			case "0", "brigadier:bool":
				w.typ = "bool"
			case "5", "brigadier:string":
				m, err := r.VarInt()
				if err != nil {
					return nil, 0, err
				}
				w.typ = fmt.Sprintf("string:%d", m)
			case "3", "brigadier:integer":
				f, err := r.Byte()
				if err != nil {
					return nil, 0, err
				}
				w.typ = fmt.Sprintf("int:%d", f)
				for bit := byte(1); bit <= 2; bit <<= 1 {
					if f&bit != 0 {
						v, err := r.U32()
						if err != nil {
							return nil, 0, err
						}
						w.typ += fmt.Sprintf(":%d", int32(v))
					}
				}
			case "7", "minecraft:game_profile":
				w.typ = "game_profile"
			default:
				return nil, 0, fmt.Errorf("node %d: argument parser %q outside the generated pool", i, key)
			}
			if flags&0x10 != 0 {
				if w.suggest, err = r.String(); err != nil {
					return nil, 0, err
				}
			}
		} else if flags&0x10 != 0 {
			return nil, 0, fmt.Errorf("node %d: suggestions flag on non-argument", i)
		}
		nodes = append(nodes, w)
	}
	ri, err := r.VarInt()
	if err != nil {
		return nil, 0, err
	}
	if r.Remaining() != 0 {
		return nil, 0, fmt.Errorf("%d trailing bytes", r.Remaining())
	}
	for i, w := range nodes {
		for _, c := range w.children {
			if c < 0 || c >= len(nodes) {
				return nil, 0, fmt.Errorf("node %d: child index %d out of range", i, c)
			}
		}
		if w.redirect >= len(nodes) || w.redirect < -1 {
			return nil, 0, fmt.Errorf("node %d: redirect index %d out of range", i, w.redirect)
		}
	}
	if ri < 0 || int(ri) >= len(nodes) || nodes[ri].kind != 0 {
		return nil, 0, fmt.Errorf("root index %d invalid", ri)
	}
	return nodes, int(ri), nil
}

// ---------------------------------------------------------------- expected graph (independent walker)

type c23Exp struct {
	origin     string // "root" | "backend" | "proxy"
	kind       byte
	name       string
	typ        string
	suggest    string
	exec       bool
	restricted int // -1 don't care, 0/1
	children   map[string]*c23Exp
	redirect   *c23Exp
	// diagnosis
	deniedChildren map[string]bool // proxy spec children the player must not see
	deniedRedirect bool
	collision      bool // root child: usable proxy command replacing a backend command
	built          bool
}

func c23Passes(req string, perms map[string]bool) bool {
	switch {
	case req == "" || req == "true":
		return true
	case req == "console":
		return false // the source is always a player here
	case strings.HasPrefix(req, "perm:"):
		return perms[strings.TrimPrefix(req, "perm:")]
	}
	panic("c23: bad requirement " + req)
}

type c23Model struct {
	c     c23Case
	perms map[string]bool
	root  *c23Exp
	px    map[int]*c23Exp
	bk    map[int]*c23Exp
	pxRoot *c23Exp
	// rootRedirectMerged: a proxy node redirecting to the dispatcher root may
	// legitimately point at the merged root the player receives instead of a root
	// holding only the usable proxy commands; both readings are accepted.
	rootRedirectMerged bool
}

func c23Kind(k string) byte {
	switch k {
	case "lit":
		return 1
	case "arg":
		return 2
	}
	return 0
}

func (m *c23Model) proxy(i int) *c23Exp {
	if e, ok := m.px[i]; ok {
		return e
	}
	n := m.c.Proxy[i]
	e := &c23Exp{origin: "proxy", kind: c23Kind(n.Kind), name: n.Name, exec: n.Exec, restricted: -1,
		children: map[string]*c23Exp{}, deniedChildren: map[string]bool{}}
	m.px[i] = e
	if n.Kind == "arg" {
		e.typ = c23Types[n.Type].desc
		if n.Suggest != "" {
			e.suggest = "minecraft:ask_server"
		}
	}
	for _, ci := range n.Children {
		ch := m.c.Proxy[ci]
		if c23Passes(ch.Req, m.perms) {
			e.children[ch.Name] = m.proxy(ci)
		} else {
			e.deniedChildren[ch.Name] = true
		}
	}
	if n.Redirect == 0 {
		e.redirect = m.proxyRoot()
	} else if n.Redirect > 0 {
		if c23Passes(m.c.Proxy[n.Redirect].Req, m.perms) {
			e.redirect = m.proxy(n.Redirect)
		} else {
			e.deniedRedirect = true
		}
	}
	return e
}

// proxyRoot is what a proxy node redirecting to the dispatcher root must point
// at: a root node holding exactly the usable proxy commands (not the merged root).
func (m *c23Model) proxyRoot() *c23Exp {
	if m.rootRedirectMerged {
		return m.root
	}
	if m.pxRoot != nil {
		return m.pxRoot
	}
	e := &c23Exp{origin: "proxy", restricted: -1, children: map[string]*c23Exp{}, deniedChildren: map[string]bool{}}
	m.pxRoot = e
	for _, ci := range m.c.Proxy[0].Children {
		ch := m.c.Proxy[ci]
		if c23Passes(ch.Req, m.perms) {
			e.children[ch.Name] = m.proxy(ci)
		} else {
			e.deniedChildren[ch.Name] = true
		}
	}
	return e
}

func (m *c23Model) backend(i int) *c23Exp {
	if i == 0 {
		return m.root
	}
	if e, ok := m.bk[i]; ok {
		return e
	}
	n := m.c.Backend[i]
	e := &c23Exp{origin: "backend", kind: c23Kind(n.Kind), name: n.Name, exec: n.Exec, children: map[string]*c23Exp{}}
	m.bk[i] = e
	if n.Restricted {
		e.restricted = 1
	}
	if n.Kind == "arg" {
		e.typ = c23Types[n.Type].desc
		e.suggest = n.Suggest
	}
	for _, ci := range n.Children {
		e.children[m.c.Backend[ci].Name] = m.backend(ci)
	}
	if n.Redirect >= 0 {
		e.redirect = m.backend(n.Redirect)
	}
	return e
}

// c23Expect computes the tree the player must receive, from the spec alone.
func c23Expect(c c23Case) *c23Model { return c23ExpectOpt(c, false) }

func c23ExpectOpt(c c23Case, rootRedirectMerged bool) *c23Model {
	m := &c23Model{c: c, perms: map[string]bool{}, px: map[int]*c23Exp{}, bk: map[int]*c23Exp{}, rootRedirectMerged: rootRedirectMerged}
	for _, p := range c.Perms {
		m.perms[p] = true
	}
	m.root = &c23Exp{origin: "root", restricted: -1, children: map[string]*c23Exp{}, deniedChildren: map[string]bool{}}
	usable := map[string]int{}
	for _, ci := range c.Proxy[0].Children {
		n := c.Proxy[ci]
		if c23Passes(n.Req, m.perms) {
			usable[n.Name] = ci
		} else {
			m.root.deniedChildren[n.Name] = true
		}
	}
	for _, ci := range c.Backend[0].Children {
		n := c.Backend[ci]
		if _, replaced := usable[n.Name]; !replaced {
			m.root.children[n.Name] = m.backend(ci)
			delete(m.root.deniedChildren, n.Name) // that name legitimately shows the backend's node
		}
	}
	backendNames := map[string]bool{}
	for _, ci := range c.Backend[0].Children {
		backendNames[c.Backend[ci].Name] = true
	}
	names := make([]string, 0, len(usable))
	for name := range usable {
		names = append(names, name)
	}
	sort.Strings(names)
	for _, name := range names {
		e := m.proxy(usable[name])
		if backendNames[name] {
			// copy so the flag does not leak to other references of the same spec node
			cp := *e
			cp.collision = true
			e = &cp
		}
		m.root.children[name] = e
	}
	return m
}

func c23AttrKey(e *c23Exp) string {
	if e.collision {
		return "collision-not-replaced"
	}
	switch e.origin {
	case "backend":
		return "backend-node-changed"
	case "proxy":
		return "proxy-node-altered"
	}
	return "root-altered"
}

// c23Compare walks received graph and expected graph in lock step.
func c23Compare(wire []c23Wire, root int, m *c23Model) *verifkit.Violation {
	type pair struct {
		w int
		e *c23Exp
	}
	type item struct {
		pair
		path string
	}
	seen := map[pair]bool{}
	queue := []item{{pair{root, m.root}, "<root>"}}
	for len(queue) > 0 {
		it := queue[0]
		queue = queue[1:]
		if seen[it.pair] {
			continue
		}
		seen[it.pair] = true
		w, e := wire[it.w], it.e
		if w.kind != e.kind || w.name != e.name || w.typ != e.typ || w.suggest != e.suggest || w.exec != e.exec ||
			(e.restricted >= 0 && w.restricted != (e.restricted == 1)) {
			return verifkit.Violationf(c23AttrKey(e), "%s: received node {kind=%d name=%q type=%q suggest=%q exec=%v restricted=%v} but expected %s node {kind=%d name=%q type=%q suggest=%q exec=%v restricted=%d}",
				it.path, w.kind, w.name, w.typ, w.suggest, w.exec, w.restricted, e.origin, e.kind, e.name, e.typ, e.suggest, e.exec, e.restricted)
		}
		got := map[string]bool{}
		for _, ci := range w.children {
			name := wire[ci].name
			if got[name] {
				return verifkit.Violationf("duplicate-child", "%s: two children named %q", it.path, name)
			}
			got[name] = true
			ce, ok := e.children[name]
			if !ok {
				switch {
				case e.deniedChildren[name]:
					return verifkit.Violationf("denied-node-visible", "%s: player received proxy node %q although it fails that node's requirement", it.path, name)
				case e.collision:
					return verifkit.Violationf("collision-not-replaced", "%s: replaced backend command still contributes child %q", it.path, name)
				default:
					return verifkit.Violationf("unexpected-node:"+e.origin, "%s: received child %q that neither tree has here", it.path, name)
				}
			}
			queue = append(queue, item{pair{ci, ce}, it.path + " " + name})
		}
		for name, ce := range e.children {
			if !got[name] {
				key := "backend-node-missing"
				if ce.origin == "proxy" {
					key = "usable-node-missing"
				}
				if ce.collision {
					key = "collision-not-replaced"
				}
				return verifkit.Violationf(key, "%s: expected %s child %q is missing", it.path, ce.origin, name)
			}
		}
		switch {
		case w.redirect >= 0 && e.redirect == nil:
			if e.deniedRedirect {
				return verifkit.Violationf("denied-node-visible", "%s: redirect target fails its requirement but was sent", it.path)
			}
			return verifkit.Violationf(c23AttrKey(e), "%s: unexpected redirect", it.path)
		case w.redirect < 0 && e.redirect != nil:
			if e.origin == "proxy" {
				return verifkit.Violationf("usable-node-missing", "%s: redirect to a usable proxy node was dropped", it.path)
			}
			return verifkit.Violationf(c23AttrKey(e), "%s: redirect was dropped", it.path)
		case w.redirect >= 0:
			queue = append(queue, item{pair{w.redirect, e.redirect}, it.path + " ->"})
		}
	}
	return nil
}

// ---------------------------------------------------------------- building the real proxy tree

func c23BuildProxy(c c23Case, mgr *command.Manager) {
	nodes := c.Proxy
	built := map[int]brigodier.CommandNode{}
	requirement := func(req string) brigodier.RequireFn {
		switch {
		case req == "":
			return nil
		case req == "true":
			return func(context.Context) bool { return true }
		case req == "console":
			return command.Requires(func(rc *command.RequiresContext) bool {
				_, isPlayer := rc.Source.(Player)
				return !isPlayer
			})
		default:
			perm := strings.TrimPrefix(req, "perm:")
			return command.Requires(func(rc *command.RequiresContext) bool { return rc.Source.HasPermission(perm) })
		}
	}
	run := command.Command(func(*command.Context) error { return nil })
	if c.Graph {
		mk := func(i int) {
			n := nodes[i]
			var nb brigodier.NodeBuilder
			if n.Kind == "lit" {
				nb = brigodier.Literal(n.Name).NodeBuilder()
			} else {
				ab := brigodier.Argument(n.Name, c23ProxyArgType(n.Type))
				if n.Suggest != "" {
					ab.Suggests(c23Suggest{})
				}
				nb = ab.NodeBuilder()
			}
			if r := requirement(n.Req); r != nil {
				nb.Requires(r)
			}
			if n.Exec {
				nb.Executes(run)
			}
			if n.Redirect == 0 {
				nb.Redirect(&mgr.Root)
			} else if n.Redirect > 0 {
				nb.Redirect(built[n.Redirect])
			}
			built[i] = nb.Build()
		}
		for i := 1; i < len(nodes); i++ {
			if nodes[i].Redirect < 0 {
				mk(i)
			}
		}
		for i := 1; i < len(nodes); i++ {
			if nodes[i].Redirect >= 0 {
				mk(i)
			}
		}
		for i, n := range nodes {
			for _, ci := range n.Children {
				if i == 0 {
					mgr.Root.AddChild(built[ci])
				} else {
					built[i].AddChild(built[ci])
				}
			}
		}
		return
	}
	var build func(i int) brigodier.CommandNode
	apply := func(i int, nb brigodier.NodeBuilder) {
		n := nodes[i]
		if r := requirement(n.Req); r != nil {
			nb.Requires(r)
		}
		if n.Exec {
			nb.Executes(run)
		}
		if n.Redirect >= 0 {
			nb.Redirect(build(n.Redirect))
		}
		for _, ci := range n.Children {
			nb.Then(build(ci).(brigodier.Builder))
		}
	}
	build = func(i int) brigodier.CommandNode {
		if b, ok := built[i]; ok {
			return b
		}
		n := nodes[i]
		var nb brigodier.NodeBuilder
		if n.Kind == "lit" {
			nb = brigodier.Literal(n.Name).NodeBuilder()
		} else {
			ab := brigodier.Argument(n.Name, c23ProxyArgType(n.Type))
			if n.Suggest != "" {
				ab.Suggests(c23Suggest{})
			}
			nb = ab.NodeBuilder()
		}
		apply(i, nb)
		b := nb.Build()
		built[i] = b
		return b
	}
	for _, ri := range nodes[0].Children {
		if nodes[ri].AliasOf > 0 {
			continue
		}
		lb := brigodier.Literal(nodes[ri].Name)
		apply(ri, lb.NodeBuilder())
		var aliases []string
		for _, ai := range nodes[0].Children {
			if nodes[ai].AliasOf == ri {
				aliases = append(aliases, nodes[ai].Name)
			}
		}
		built[ri] = mgr.RegisterWithAliases(lb, aliases...)
	}
}

// ---------------------------------------------------------------- run

func c23Run(c c23Case) verifkit.Result {
	protocol := proto.Protocol(c.Protocol)
	model := c23Expect(c)

	// classification (from the spec only)
	var labels []string
	add := func(l string) {
		for _, x := range labels {
			if x == l {
				return
			}
		}
		labels = append(labels, l)
	}
	deniedBelowAllowed, collisionUsable := false, false
	backendRoot := map[string]bool{}
	for _, ci := range c.Backend[0].Children {
		backendRoot[c.Backend[ci].Name] = true
	}
	var visit func(i int, seen map[int]bool)
	visit = func(i int, seen map[int]bool) { // i is visible to the player
		if seen[i] {
			return
		}
		seen[i] = true
		n := c.Proxy[i]
		for _, ci := range n.Children {
			if c23Passes(c.Proxy[ci].Req, model.perms) {
				visit(ci, seen)
			} else if i == 0 {
				add("denied-root-command")
				if backendRoot[c.Proxy[ci].Name] {
					add("collision-with-denied-command")
				}
			} else {
				deniedBelowAllowed = true
				add("denied-below-allowed")
			}
		}
		if n.Redirect == 0 {
			add("redirect-to-root-visible")
		} else if n.Redirect > 0 {
			if c23Passes(c.Proxy[n.Redirect].Req, model.perms) {
				add("redirect-to-usable")
				visit(n.Redirect, seen)
			} else {
				deniedBelowAllowed = true
				add("redirect-to-denied")
			}
		}
		if i != 0 && n.AliasOf > 0 {
			add("alias-visible")
		}
		if i != 0 && len(n.Children) > 0 {
			add("nested")
		}
	}
	visit(0, map[int]bool{})
	for _, e := range model.root.children {
		if e.collision {
			collisionUsable = true
			add("collision-replaced")
		}
	}
	for i, n := range c.Backend {
		if n.Redirect == 0 {
			add("backend-redirect-root")
		} else if n.Redirect > 0 {
			add("backend-redirect")
			t := c.Backend[n.Redirect]
			isRootChild := false
			for _, rc := range c.Backend[0].Children {
				if rc == n.Redirect {
					isRootChild = true
				}
			}
			if isRootChild && model.root.children[t.Name] != nil && model.root.children[t.Name].collision {
				add("backend-redirect-to-replaced")
			}
		}
		_ = i
	}
	if len(c.Backend) == 1 {
		add("backend-empty")
	}

	// real backend tree through the real decoder (as the proxy receives it)
	in := c23EncodeBackend(c.Backend, c.Protocol)
	pkt := &packet.AvailableCommands{}
	pc := &proto.PacketContext{Direction: proto.ClientBound, Protocol: protocol}
	if err := pkt.Decode(pc, bytes.NewReader(in)); err != nil {
		return verifkit.Result{Inconclusive: true, Labels: append(labels, "decode-error")}
	}

	mgr := event.New()
	prx := &Proxy{
		cfg:   &config.Config{AnnounceProxyCommands: true},
		log:   logr.Discard(),
		event: mgr,
	}
	c23BuildProxy(c, &prx.command)
	conn := &c23Conn{protocol: protocol}
	perms := model.perms
	player := &connectedPlayer{
		MinecraftConn: conn,
		log:           logr.Discard(),
		sessionHandlerDeps: &sessionHandlerDeps{proxy: prx, eventMgr: mgr, configProvider: prx},
		permFunc: func(p string) permission.TriState {
			if perms[p] {
				return permission.True
			}
			return permission.Undefined
		},
	}
	h := &backendPlaySessionHandler{
		serverConn:                 &serverConnection{player: player, log: logr.Discard()},
		bungeeCordMessageResponder: bungeecord.NopMessageResponder,
		log:                        logr.Discard(),
	}
	h.handleAvailableCommands(pkt)
	mgr.Wait() // joins the FireParallel goroutine that writes the packet

	conn.mu.Lock()
	written := append([]proto.Packet(nil), conn.packets...)
	conn.mu.Unlock()
	if len(written) != 1 {
		return verifkit.Fail("packet-count", "player received %d packets, want exactly one AvailableCommands", len(written))
	}
	out, ok := written[0].(*packet.AvailableCommands)
	if !ok {
		return verifkit.Fail("packet-count", "player received %T", written[0])
	}
	var buf bytes.Buffer
	if err := out.Encode(pc, &buf); err != nil {
		return verifkit.Fail("encode-error", "merged tree cannot be encoded for protocol %d: %v", c.Protocol, err)
	}
	wire, root, err := c23ParseWire(buf.Bytes(), c.Protocol)
	if err != nil {
		return verifkit.Fail("wire-parse", "merged tree is not parseable by the reference parser: %v", err)
	}
	v := c23Compare(wire, root, model)
	if v != nil {
		for _, n := range c.Proxy {
			if n.Redirect == 0 {
				if c23Compare(wire, root, c23ExpectOpt(c, true)) == nil {
					v = nil
				}
				break
			}
		}
	}
	if v != nil {
		// Attribute failures of backend nodes correctly: if the codec alone (no
		// merge) already changes the backend tree, C23 cannot judge this case.
		if strings.HasPrefix(v.Key, "backend-") {
			base := &packet.AvailableCommands{}
			if base.Decode(pc, bytes.NewReader(in)) == nil {
				var bb bytes.Buffer
				if base.Encode(pc, &bb) == nil {
					if bw, br, perr := c23ParseWire(bb.Bytes(), c.Protocol); perr == nil {
						plain := c23Expect(c23Case{Protocol: c.Protocol, Proxy: []c23Node{{Kind: "root", Redirect: -1}}, Backend: c.Backend})
						if c23Compare(bw, br, plain) != nil {
							return verifkit.Result{Inconclusive: true, Labels: append(labels, "codec-alone-changes-backend-tree")}
						}
					}
				}
			}
		}
		return verifkit.Result{V: v, Labels: labels}
	}
	return verifkit.Result{NonTrivial: deniedBelowAllowed && collisionUsable, Labels: labels}
}

// ---------------------------------------------------------------- generator

var (
	c23RootNames = []string{"hub", "server", "glist", "send", "tp", "teleport", "msg", "find", "lobby", "party", "Hub", "execute"}
	c23SubNames  = []string{"list", "add", "remove", "info", "target", "name", "all", "reload", "x", "y"}
	c23PermPool  = []string{"a", "b", "c"}
	c23Suggests  = []string{"minecraft:ask_server", "minecraft:all_recipes", "minecraft:available_sounds", "minecraft:summonable_entities"}
)

func c23DrawDistinct(t *rapid.T, pool []string, used map[string]bool, label string) (string, bool) {
	var free []string
	for _, p := range pool {
		if !used[p] {
			free = append(free, p)
		}
	}
	if len(free) == 0 {
		return "", false
	}
	s := rapid.SampledFrom(free).Draw(t, label)
	used[s] = true
	return s, true
}

func c23GenReq(t *rapid.T) string {
	switch rapid.IntRange(0, 9).Draw(t, "req") {
	case 0, 1, 2:
		return ""
	case 3:
		return "true"
	case 4:
		return "console"
	default:
		return "perm:" + rapid.SampledFrom(c23PermPool).Draw(t, "perm")
	}
}

// c23GenSubtree appends the children of nodes[parent] (pre-order numbering).
func c23GenSubtree(t *rapid.T, nodes *[]c23Node, parent, depth int, proxy bool) {
	if depth <= 0 {
		return
	}
	nc := rapid.IntRange(0, 3).Draw(t, "nchildren")
	used := map[string]bool{}
	for k := 0; k < nc; k++ {
		name, ok := c23DrawDistinct(t, c23SubNames, used, "name")
		if !ok {
			break
		}
		n := c23Node{Kind: "lit", Name: name, Redirect: -1, Exec: rapid.Bool().Draw(t, "exec")}
		if rapid.IntRange(0, 2).Draw(t, "isArg") == 0 {
			n.Kind = "arg"
			if proxy {
				n.Type = rapid.IntRange(0, 5).Draw(t, "type")
				if rapid.IntRange(0, 3).Draw(t, "sugg") == 0 {
					n.Suggest = "custom"
				}
			} else {
				n.Type = rapid.IntRange(0, len(c23Types)-1).Draw(t, "type")
				if rapid.IntRange(0, 2).Draw(t, "sugg") == 0 {
					n.Suggest = rapid.SampledFrom(c23Suggests).Draw(t, "suggest")
				}
			}
		}
		if proxy {
			n.Req = c23GenReq(t)
		} else {
			n.Restricted = rapid.IntRange(0, 3).Draw(t, "restricted") == 0
		}
		idx := len(*nodes)
		*nodes = append(*nodes, n)
		(*nodes)[parent].Children = append((*nodes)[parent].Children, idx)
		c23GenSubtree(t, nodes, idx, depth-1, proxy)
	}
}

func c23IsAncestor(nodes []c23Node, anc, i int) bool {
	// pre-order numbering: anc is an ancestor of i iff i lies in anc's subtree range
	if anc >= i {
		return false
	}
	var in func(a int) bool
	in = func(a int) bool {
		for _, c := range nodes[a].Children {
			if c == i || (c < i && in(c)) {
				return true
			}
		}
		return false
	}
	return in(anc)
}

func c23Gen(t *rapid.T) c23Case {
	c := c23Case{Protocol: rapid.SampledFrom([]int{758, 759, 762, 765, 767, 770, 772, 776}).Draw(t, "protocol")}
	for _, p := range c23PermPool {
		if rapid.Bool().Draw(t, "has-"+p) {
			c.Perms = append(c.Perms, p)
		}
	}
	if c.Perms == nil {
		c.Perms = []string{}
	}

	// proxy tree
	px := []c23Node{{Kind: "root", Redirect: -1}}
	usedRoot := map[string]bool{}
	ncmd := rapid.IntRange(1, 4).Draw(t, "ncmd")
	for k := 0; k < ncmd; k++ {
		name, ok := c23DrawDistinct(t, c23RootNames[:10], usedRoot, "cmd")
		if !ok {
			break
		}
		idx := len(px)
		px = append(px, c23Node{Kind: "lit", Name: name, Redirect: -1, Exec: rapid.Bool().Draw(t, "exec"), Req: c23GenReq(t)})
		px[0].Children = append(px[0].Children, idx)
		c23GenSubtree(t, &px, idx, rapid.IntRange(0, 3).Draw(t, "depth"), true)
	}
	// redirects: leaves may redirect to an earlier node that is not an ancestor
	for i := 2; i < len(px); i++ {
		if len(px[i].Children) != 0 || rapid.IntRange(0, 3).Draw(t, "redir") != 0 {
			continue
		}
		var cands []int
		for tgt := 1; tgt < i; tgt++ {
			if !c23IsAncestor(px, tgt, i) {
				cands = append(cands, tgt)
			}
		}
		if len(cands) > 0 {
			px[i].Redirect = rapid.SampledFrom(cands).Draw(t, "redirTarget")
		}
	}
	// aliases (Manager.RegisterWithAliases): share the primary's children
	primaries := append([]int(nil), px[0].Children...)
	for _, pi := range primaries {
		na := rapid.IntRange(0, 4).Draw(t, "naliases") - 2
		for k := 0; k < na; k++ {
			name, ok := c23DrawDistinct(t, c23RootNames[:10], usedRoot, "alias")
			if !ok {
				break
			}
			a := px[pi]
			a.Name = name
			a.AliasOf = pi
			a.Children = append([]int(nil), px[pi].Children...)
			px[0].Children = append(px[0].Children, len(px))
			px = append(px, a)
		}
	}
	c.Proxy = px

	// backend tree: root names deliberately drawn from the proxy's names
	bk := []c23Node{{Kind: "root", Redirect: -1}}
	var proxyNames []string
	for _, ci := range px[0].Children {
		proxyNames = append(proxyNames, px[ci].Name)
	}
	usedB := map[string]bool{}
	nb := rapid.IntRange(0, 5).Draw(t, "nbackend")
	for k := 0; k < nb; k++ {
		pool := c23RootNames
		if rapid.Bool().Draw(t, "collide") {
			pool = proxyNames
		}
		name, ok := c23DrawDistinct(t, pool, usedB, "bcmd")
		if !ok {
			continue
		}
		idx := len(bk)
		bk = append(bk, c23Node{Kind: "lit", Name: name, Redirect: -1, Exec: rapid.Bool().Draw(t, "exec"),
			Restricted: rapid.IntRange(0, 3).Draw(t, "restricted") == 0})
		bk[0].Children = append(bk[0].Children, idx)
		c23GenSubtree(t, &bk, idx, rapid.IntRange(0, 3).Draw(t, "depth"), false)
	}
	// backend redirects: leaves -> root / ancestors / any node that is not itself redirecting
	src := map[int]bool{}
	for i := 1; i < len(bk); i++ {
		if len(bk[i].Children) == 0 && rapid.IntRange(0, 3).Draw(t, "bredir") == 0 {
			src[i] = true
		}
	}
	for i := 1; i < len(bk); i++ {
		if !src[i] {
			continue
		}
		var cands []int
		for tgt := 0; tgt < len(bk); tgt++ {
			if !src[tgt] {
				cands = append(cands, tgt)
			}
		}
		bk[i].Redirect = rapid.SampledFrom(cands).Draw(t, "bredirTarget")
	}
	c.Backend = bk
	return c
}

// ---------------------------------------------------------------- redirect cycles (child process)

// A proxy tree whose redirect leads back to the dispatcher root or to an ancestor
// (brigadier's `execute run -> root` idiom; brigodier documents Dispatcher.Root as
// "often useful as a target of an ArgumentBuilder.Redirect") makes a recursive
// walker without a visited set overflow the goroutine stack, which is fatal for
// the whole process and cannot be recovered in-process. Each such case therefore
// runs c23Run in a child process (this test binary re-executed with
// -test.run=^TestVerif_C23Child$) with a small stack limit.

const c23ChildEnv = "VERIF_C23_CHILD_CASE"

type c23ChildResult struct {
	Key          string   `json:"key,omitempty"`
	Msg          string   `json:"msg,omitempty"`
	NonTrivial   bool     `json:"nontrivial"`
	Inconclusive bool     `json:"inconclusive"`
	Labels       []string `json:"labels"`
}

func TestVerif_C23Child(t *testing.T) {
	raw := os.Getenv(c23ChildEnv)
	if raw == "" {
		t.Skip("child entry point of the C23 redirect-cycle sub-check")
	}
	debug.SetMaxStack(4 << 20)
	var c c23Case
	if err := json.Unmarshal([]byte(raw), &c); err != nil {
		t.Fatalf("bad child case: %v", err)
	}
	r := c23Run(c)
	out := c23ChildResult{NonTrivial: r.NonTrivial, Inconclusive: r.Inconclusive, Labels: r.Labels}
	if r.V != nil {
		out.Key, out.Msg = r.V.Key, r.V.Msg
	}
	b, _ := json.Marshal(out)
	fmt.Printf("\nC23CHILD-RESULT %s\n", b)
}

func c23CycleRun(c c23Case) verifkit.Result {
	// classification from the spec: is a redirect back edge visible to the player?
	perms := map[string]bool{}
	for _, p := range c.Perms {
		perms[p] = true
	}
	parent := map[int]int{}
	for i, n := range c.Proxy {
		for _, ci := range n.Children {
			parent[ci] = i
		}
	}
	visibleCycle := false
	for i, n := range c.Proxy {
		if i == 0 || n.Redirect < 0 {
			continue
		}
		back := n.Redirect == 0
		for a := parent[i]; a != 0 && !back; a = parent[a] {
			if a == n.Redirect {
				back = true
			}
		}
		if !back {
			continue
		}
		vis := true
		for a := i; a != 0; a = parent[a] {
			if !c23Passes(c.Proxy[a].Req, perms) {
				vis = false
			}
		}
		if vis {
			visibleCycle = true
		}
	}
	labels := []string{"cycle-hidden-by-requirement"}
	if visibleCycle {
		labels = []string{"cycle-visible"}
	}

	raw, _ := json.Marshal(c)
	ctx, cancel := context.WithTimeout(context.Background(), 120*time.Second)
	defer cancel()
	cmd := exec.CommandContext(ctx, os.Args[0], "-test.run", "^TestVerif_C23Child$", "-test.count", "1")
	var env []string
	for _, e := range os.Environ() {
		if strings.HasPrefix(e, "VERIF_") || strings.HasPrefix(e, "GORACE=") {
			continue
		}
		env = append(env, e)
	}
	cmd.Env = append(env, c23ChildEnv+"="+string(raw))
	outB, err := cmd.CombinedOutput()
	out := string(outB)
	if i := strings.Index(out, "C23CHILD-RESULT "); i >= 0 {
		line := out[i+len("C23CHILD-RESULT "):]
		if j := strings.IndexByte(line, '\n'); j >= 0 {
			line = line[:j]
		}
		var r c23ChildResult
		if json.Unmarshal([]byte(line), &r) == nil {
			labels = append(labels, r.Labels...)
			if r.Key != "" {
				return verifkit.Result{V: verifkit.Violationf(r.Key, "%s", r.Msg), Labels: labels}
			}
			return verifkit.Result{NonTrivial: visibleCycle, Inconclusive: r.Inconclusive, Labels: labels}
		}
	}
	if strings.Contains(out, "stack overflow") || strings.Contains(out, "goroutine stack exceeds") {
		site := "unknown"
		for _, fn := range []string{"proxy.filterNode", "packet.(*AvailableCommands).Encode", "brigodier."} {
			if strings.Contains(out, fn) {
				site = fn
				break
			}
		}
		tail := out
		if len(tail) > 1500 {
			tail = tail[:1500]
		}
		return verifkit.Result{V: verifkit.Violationf("redirect-cycle:stack-overflow:"+site,
			"the proxy process dies with a stack overflow while merging a proxy tree whose redirect leads back to the root/an ancestor; the player receives nothing. child output:\n%s", tail), Labels: labels}
	}
	_ = err
	return verifkit.Result{Inconclusive: true, Labels: append(labels, "child-process-trouble")}
}

func c23GenCycle(t *rapid.T) c23Case {
	c := c23Gen(t)
	c.Graph = true
	// drop aliases (RegisterWithAliases is a builder-level feature)
	var keepRoot []int
	for _, ci := range c.Proxy[0].Children {
		if c.Proxy[ci].AliasOf == 0 {
			keepRoot = append(keepRoot, ci)
		}
	}
	c.Proxy[0].Children = keepRoot
	n := len(c.Proxy)
	for n > 1 && c.Proxy[n-1].AliasOf != 0 {
		n--
	}
	c.Proxy = c.Proxy[:n]
	parent := map[int]int{}
	for i, nd := range c.Proxy {
		for _, ci := range nd.Children {
			parent[ci] = i
		}
	}
	var leaves []int
	for i := 1; i < len(c.Proxy); i++ {
		if len(c.Proxy[i].Children) == 0 {
			leaves = append(leaves, i)
		}
	}
	nb := rapid.IntRange(1, 2).Draw(t, "nBackEdges")
	for k := 0; k < nb && len(leaves) > 0; k++ {
		li := rapid.IntRange(0, len(leaves)-1).Draw(t, "leaf")
		leaf := leaves[li]
		leaves = append(leaves[:li], leaves[li+1:]...)
		targets := []int{0}
		for a := parent[leaf]; a != 0; a = parent[a] {
			targets = append(targets, a)
		}
		c.Proxy[leaf].Redirect = rapid.SampledFrom(targets).Draw(t, "backTarget")
		if rapid.Bool().Draw(t, "openLeaf") {
			c.Proxy[leaf].Req = "" // make the cycle reachable more often
		}
	}
	return c
}

func TestVerif_C23Cycle(t *testing.T) {
	verifkit.Check(t, "C23", "redirect-cycle",
		"as merged-tree, but the proxy tree is assembled with CommandNode.AddChild and 1-2 leaves redirect to the dispatcher root or to one of their ancestors (execute-run idiom); every case runs in a child process with a 4 MiB stack limit because a stack overflow is process-fatal; same bisimulation oracle (the redirect must point at a root holding exactly the usable proxy commands / at the filtered ancestor); non-trivial = the redirecting node is visible to the player",
		c23GenCycle, c23CycleRun)
}

func TestVerif_C23(t *testing.T) {
	verifkit.Check(t, "C23", "merged-tree",
		"proxy trees (1-4 commands + RegisterWithAliases aliases, depth<=4, literal/argument nodes, per-node requirement none/true/console-only/permission from a pool of 3, leaf redirects to earlier non-ancestor nodes) x backend trees sent over the wire (0-5 commands whose names are drawn from the proxy's names half of the time, restricted/executable/suggestion flags, redirects to root/ancestors/other commands) x player permission subsets x 8 protocol versions; handleAvailableCommands output re-encoded and parsed by an independent parser, compared by bisimulation with a tree computed from the spec; non-trivial = a proxy node (or redirect target) is denied below a visible parent AND a usable proxy command replaces a same-named backend command",
		c23Gen, c23Run)
}
