//go:build verif

package proxy

// C08: online-mode players are admitted only after verified encryption and
// session authentication; out-of-order or repeated login packets close the
// connection without admitting the client.
//
// Rig (c43_rig.go): real Proxy.HandleConn over net.Pipe; scripted client using
// the verifkit reference codec, its own PKCS#1 v1.5 encryption (math/big) and
// the reference AES/CFB8. The Authenticator is a recording wrapper around a
// real auth.New authenticator (process-wide RSA key) whose HTTP transport is a
// scripted in-memory session server, so PublicKey / Verify / DecryptSharedSecret
// / GenerateServerID / AuthenticateJoin (status and body handling) are all the
// real code.

import (
	"bytes"
	"crypto/rand"
	"crypto/rsa"
	"crypto/sha1"
	"crypto/sha256"
	"crypto/x509"
	"encoding/binary"
	"errors"
	"fmt"
	"io"
	"math/big"
	"net/http"
	"sync"
	"sync/atomic"
	"testing"
	"time"

	"github.com/robinbraemer/event"
	"go.minekube.com/common/minecraft/component"
	"go.minekube.com/gate/pkg/edition/java/auth"
	"go.minekube.com/gate/pkg/edition/java/config"
	"go.minekube.com/gate/pkg/edition/java/proxy/message"
	"go.minekube.com/gate/pkg/internal/verifkit"
	"pgregory.net/rapid"
)

// ---------------------------------------------------------------- case

type c08Op struct {
	// Kind: "login", "encresp", "pluginresp", "ack", "unknown"
	Kind string `json:"kind"`
	// login
	Name string `json:"name,omitempty"`
	Key  bool   `json:"key,omitempty"` // 1.19-1.19.2 only: attach an (unsigned, hence invalid) profile key
	// encresp
	Token  string `json:"token,omitempty"`  // correct | wrong | empty | truncated | extended | plain | garbage | emptyarr
	Secret string `json:"secret,omitempty"` // valid | garbage | plain | emptyarr | wrongkey | len0 | len15 | len17 | len32
	// pluginresp / unknown
	ID   int32  `json:"id,omitempty"`
	Body []byte `json:"body,omitempty"`
	// pluginresp: Answer k>0 answers the k-th login plugin request that is still
	// unanswered (if a PreLogin handler sent any); 0 = use ID as it is (unsolicited)
	Answer int `json:"answer,omitempty"`
}

type c08Case struct {
	Protocol     int32   `json:"protocol"`
	OnlineMode   bool    `json:"online_mode"`
	PreLogin     string  `json:"prelogin"` // none | allow | deny | force-online | force-offline | plugin-1 | plugin-2 (handler sends that many login plugin requests)
	Session      string  `json:"session"`  // ok | ok-othername | empty200 | 204 | 401 | 401-profile | 500 | error | badjson | noname
	Compression  int     `json:"compression"`
	ForceKeyAuth bool    `json:"force_key_auth"`
	Secret       []byte  `json:"secret"` // 16 bytes: the shared secret the client generates
	Seed         []byte  `json:"seed"`   // source of padding / garbage bytes
	Ops          []c08Op `json:"ops"`
}

// ---------------------------------------------------------------- keys

var (
	c08KeyOnce  sync.Once
	c08KeyProxy *rsa.PrivateKey
	c08KeyOther *rsa.PrivateKey
)

// c08Keys returns the process-wide proxy key and an unrelated key (1024 bit as
// in vanilla). Generated once; not case data.
func c08Keys() (proxy, other *rsa.PrivateKey) {
	c08KeyOnce.Do(func() {
		var err error
		if c08KeyProxy, err = rsa.GenerateKey(rand.Reader, 1024); err != nil {
			panic(err)
		}
		if c08KeyOther, err = rsa.GenerateKey(rand.Reader, 1024); err != nil {
			panic(err)
		}
	})
	return c08KeyProxy, c08KeyOther
}

// c08Stream is a deterministic byte source derived from the case seed.
type c08Stream struct {
	seed []byte
	ctr  uint64
	buf  []byte
}

func (s *c08Stream) Bytes(n int) []byte {
	for len(s.buf) < n {
		h := sha256.New()
		h.Write(s.seed)
		var c [8]byte
		binary.BigEndian.PutUint64(c[:], s.ctr)
		s.ctr++
		h.Write(c[:])
		s.buf = h.Sum(s.buf)
	}
	out := append([]byte(nil), s.buf[:n]...)
	s.buf = s.buf[n:]
	return out
}

// c08RSAEncrypt is RSAES-PKCS1-v1_5 encryption written on math/big.
func c08RSAEncrypt(pub *rsa.PublicKey, msg []byte, pad *c08Stream) []byte {
	k := (pub.N.BitLen() + 7) / 8
	if len(msg) > k-11 {
		panic("c08: message too long for RSA key")
	}
	em := make([]byte, k)
	em[1] = 2
	ps := em[2 : k-len(msg)-1]
	for i := range ps {
		b := pad.Bytes(1)[0]
		if b == 0 {
			b = 0xa5
		}
		ps[i] = b
	}
	copy(em[k-len(msg):], msg)
	m := new(big.Int).SetBytes(em)
	c := new(big.Int).Exp(m, big.NewInt(int64(pub.E)), pub.N)
	return c.FillBytes(make([]byte, k))
}

// c08ServerID is Java's new BigInteger(sha1("" + secret + pubDER)).toString(16).
func c08ServerID(secret, pubDER []byte) string {
	h := sha1.New()
	h.Write(secret)
	h.Write(pubDER)
	d := h.Sum(nil)
	n := new(big.Int).SetBytes(d)
	if d[0]&0x80 != 0 {
		n.Sub(n, new(big.Int).Lsh(big.NewInt(1), 160))
	}
	return n.Text(16)
}

// ---------------------------------------------------------------- session server + authenticator wrapper

type c08SessionReq struct {
	ServerID, Username, IP string
}

// c08Session is the scripted session server (http.RoundTripper).
type c08Session struct {
	kind string
	mu   sync.Mutex
	reqs []c08SessionReq
}

type c08Body struct{ *bytes.Reader }

func (c08Body) Close() error { return nil }

func (s *c08Session) RoundTrip(req *http.Request) (*http.Response, error) {
	q := req.URL.Query()
	r := c08SessionReq{ServerID: q.Get("serverId"), Username: q.Get("username"), IP: q.Get("ip")}
	s.mu.Lock()
	s.reqs = append(s.reqs, r)
	s.mu.Unlock()
	status, body := 200, ""
	switch s.kind {
	case "ok":
		body = fmt.Sprintf(`{"id":"069a79f444e94726a5befca90e38aaf5","name":%q,"properties":[{"name":"textures","value":"dGV4","signature":"c2ln"}]}`, r.Username)
	case "ok-othername":
		body = `{"id":"069a79f444e94726a5befca90e38aaf5","name":"Other_Name","properties":[]}`
	case "empty200":
	case "204":
		status = 204
	case "401":
		status, body = 401, `{"error":"Unauthorized"}`
	case "401-profile":
		status = 401
		body = fmt.Sprintf(`{"id":"069a79f444e94726a5befca90e38aaf5","name":%q,"properties":[]}`, r.Username)
	case "500":
		status, body = 500, "oops"
	case "error":
		return nil, errors.New("c08: scripted transport failure")
	case "badjson":
		body = `{"id":`
	case "noname":
		body = `{"id":"069a79f444e94726a5befca90e38aaf5","properties":[]}`
	default:
		panic("c08: bad session kind " + s.kind)
	}
	return &http.Response{
		StatusCode: status, Status: fmt.Sprintf("%d", status), Proto: "HTTP/1.1", ProtoMajor: 1, ProtoMinor: 1,
		Header: http.Header{"Content-Type": {"application/json"}}, Body: c08Body{bytes.NewReader([]byte(body))},
		ContentLength: int64(len(body)), Request: req,
	}, nil
}

func (s *c08Session) Requests() []c08SessionReq {
	s.mu.Lock()
	defer s.mu.Unlock()
	return append([]c08SessionReq(nil), s.reqs...)
}

type c08Consumer struct{}

func (c08Consumer) OnMessageResponse([]byte) error { return nil }

func c08SessionOK(kind string) bool { return kind == "ok" || kind == "ok-othername" }

// ---------------------------------------------------------------- events

type c08Events struct {
	mu           sync.Mutex
	preLogin     int
	loginEvents  int
	loginOnline  []bool
	postLogin    int
	registered   int // DisconnectEvents whose status proves the player had been registered
	disconnects  int
	profileReqOn []bool
}

// ---------------------------------------------------------------- client-side packet builders

func c08Frame(payload []byte, threshold int) []byte { return verifkit.RefFrame(payload, threshold, 6) }

func c08LoginPayload(c c08Case, op c08Op, pubDER []byte, st *c08Stream) []byte {
	var b []byte
	b = append(b, verifkit.RefVarInt(0x00)...)
	b = append(b, verifkit.RefString(op.Name)...)
	var id [16]byte
	copy(id[:], []byte{0x06, 0x9a, 0x79, 0xf4, 0x44, 0xe9, 0x47, 0x26, 0xa5, 0xbe, 0xfc, 0xa9, 0x0e, 0x38, 0xaa, 0xf5})
	switch {
	case c.Protocol >= 764:
		b = append(b, id[:]...)
	case c.Protocol >= 761:
		b = append(b, 1)
		b = append(b, id[:]...)
	case c.Protocol == 760 || c.Protocol == 759:
		if op.Key {
			b = append(b, 1)
			b = append(b, verifkit.RefU64(4102444800000)...)   // expires 2100-01-01
			b = append(b, verifkit.RefBytes(pubDER)...)        // a well-formed RSA key ...
			b = append(b, verifkit.RefBytes(st.Bytes(512))...) // ... with a signature Mojang never made
		} else {
			b = append(b, 0)
		}
		if c.Protocol == 760 {
			b = append(b, 1)
			b = append(b, id[:]...)
		}
	}
	return b
}

func c08EncRespPayload(c c08Case, encSecret, encToken []byte) []byte {
	var b []byte
	b = append(b, verifkit.RefVarInt(0x01)...)
	b = append(b, verifkit.RefBytes(encSecret)...)
	if c.Protocol == 759 || c.Protocol == 760 {
		b = append(b, 1) // "has verify token" (no salt/signature)
	}
	b = append(b, verifkit.RefBytes(encToken)...)
	return b
}

// ---------------------------------------------------------------- run

var c08NameOK = func(s string) bool {
	if len(s) < 2 || len(s) > 16 {
		return false
	}
	for i := 0; i < len(s); i++ {
		ch := s[i]
		if !(ch >= 'a' && ch <= 'z' || ch >= 'A' && ch <= 'Z' || ch >= '0' && ch <= '9' || ch == '_') {
			return false
		}
	}
	return true
}

func c08Run(c c08Case) verifkit.Result {
	return c43Guard("c08", func() verifkit.Result { return c08RunInner(c) })
}

func c08RunInner(c c08Case) (res verifkit.Result) {
	proxyKey, otherKey := c08Keys()
	st := &c08Stream{seed: append([]byte("c08"), c.Seed...)}
	secret16 := make([]byte, 16)
	copy(secret16, c.Secret)

	sess := &c08Session{kind: c.Session}
	inner, err := auth.New(auth.Options{PrivateKey: proxyKey, Client: &http.Client{Transport: sess}})
	if err != nil {
		panic(err)
	}
	authn := &c08Auth{Authenticator: inner}
	pubDER := inner.PublicKey()

	mgr := event.New()
	ev := &c08Events{}
	event.Subscribe(mgr, 0, func(e *PreLoginEvent) {
		ev.mu.Lock()
		ev.preLogin++
		ev.mu.Unlock()
		switch c.PreLogin {
		case "allow":
			e.Allow()
		case "deny":
			e.Deny(&component.Text{Content: "denied by c08"})
		case "force-online":
			e.ForceOnlineMode()
		case "force-offline":
			e.ForceOfflineMode()
		case "plugin-1", "plugin-2":
			if lpc, ok := e.Conn().(LoginPhaseConnection); ok {
				id, _ := message.ChannelIdentifierFrom("verif:c08")
				for k := 0; k < int(c.PreLogin[7]-'0'); k++ {
					_ = lpc.SendLoginPluginMessage(id, []byte{byte(k + 1)}, c08Consumer{})
				}
			}
		}
	})
	event.Subscribe(mgr, 0, func(e *GameProfileRequestEvent) {
		ev.mu.Lock()
		ev.profileReqOn = append(ev.profileReqOn, e.OnlineMode())
		ev.mu.Unlock()
	})
	event.Subscribe(mgr, 0, func(e *LoginEvent) {
		ev.mu.Lock()
		ev.loginEvents++
		ev.loginOnline = append(ev.loginOnline, e.Player().OnlineMode())
		ev.mu.Unlock()
	})
	event.Subscribe(mgr, 0, func(e *PostLoginEvent) {
		ev.mu.Lock()
		ev.postLogin++
		ev.mu.Unlock()
	})
	event.Subscribe(mgr, 0, func(e *DisconnectEvent) {
		ev.mu.Lock()
		ev.disconnects++
		if s := e.LoginStatus(); s == SuccessfulLoginStatus || s == ConflictingLoginStatus {
			ev.registered++
		}
		ev.mu.Unlock()
	})

	p := c43NewProxy(mgr, authn, func(cfg *config.Config) {
		cfg.OnlineMode = c.OnlineMode
		cfg.Compression.Threshold = c.Compression
		cfg.ForceKeyAuthentication = c.ForceKeyAuth
	})

	cl := c43Dial(p)
	finished := false
	finish := func() []byte {
		b := cl.Finish()
		if !finished {
			finished = true
			mgr.Wait()
		}
		return b
	}
	defer func() {
		finish()
		if res.V == nil {
			if pv := cl.Panic(); pv != "" {
				res = verifkit.Fail("panic:HandleConn", "panic escaped HandleConn: %s", pv)
			}
		}
	}()

	if err := cl.Send(c43Handshake(c.Protocol, "mc.example.com", 25565, 2)); err != nil {
		return verifkit.Fail("harness:handshake", "handshake write failed: %v", err)
	}

	onlinePath := (c.OnlineMode || c.PreLogin == "force-online") && c.PreLogin != "force-offline"

	// ---- reference automaton state
	phase := "start" // start | encwait | ackwait | play | offline | acked | rejected
	mayAdmit := false
	notAdmitWhy := "no-valid-login-exchange"
	strictPrev := ""  // kind of the previous op if the property demands the connection be closed after it
	strictPrevAt := 0 // index
	softPrev := -1    // index of an unsolicited LoginPluginResponse just consumed (see c08StrictPluginResponse)
	var deferred *verifkit.Violation
	softCheck := func(nextConsumed bool, i int) {
		if softPrev >= 0 && nextConsumed && deferred == nil && c08StrictPluginResponse {
			deferred = verifkit.Violationf("login:unsolicited-plugin-response-not-closed",
				"op %d was consumed by the proxy although op %d was a LoginPluginResponse nobody asked for (out of order): the connection stayed open", i, softPrev)
		}
		softPrev = -1
	}
	var token []byte // issued verify token
	wirePub := &proxyKey.PublicKey
	gotEncReq := false
	loginName := ""
	encOn := false // the client switched to AES/CFB8 under secret16
	outThreshold := -1
	var outCipher *verifkit.RefCFB8
	var usedSecret []byte // the secret the client RSA-encrypted correctly (any length)
	oddSecret := false
	deviation := false
	var labels []string
	addLabel := func(l string) {
		for _, x := range labels {
			if x == l {
				return
			}
		}
		labels = append(labels, l)
	}
	sendWire := func(payload []byte) error {
		f := c08Frame(payload, outThreshold)
		if outCipher != nil {
			enc := make([]byte, len(f))
			outCipher.XOR(enc, f)
			f = enc
		}
		return cl.Send(f)
	}
	notClosed := func(i int, kind string) verifkit.Result {
		return verifkit.Fail("login:not-closed-after-"+strictPrev,
			"op %d (%s) was consumed by the proxy although op %d was an out-of-order/repeated %s (phase then: see case) after which the connection must be closed",
			i, kind, strictPrevAt, strictPrev)
	}

	// login plugin requests of the PreLogin handler (1.13+): the proxy holds the
	// login until every one is answered
	wantPlugin := 0
	if (c.PreLogin == "plugin-1" || c.PreLogin == "plugin-2") && c.Protocol >= 393 {
		wantPlugin = int(c.PreLogin[7] - '0')
	}
	var pending []int32
	// afterPreLogin: the login start was accepted and nothing is outstanding; frame
	// is the first frame the proxy wrote after that point (nil if none)
	afterPreLogin := func(frame []byte) *verifkit.Result {
		if onlinePath {
			if len(frame) > 0 && frame[0] == 0x01 {
				tk, pk, perr := c08ParseEncReq(frame)
				if perr != nil {
					r := verifkit.Fail("harness:encryption-request", "cannot parse EncryptionRequest %x: %v", frame, perr)
					return &r
				}
				if pk.N.Cmp(proxyKey.N) != 0 || pk.E != proxyKey.E {
					r := verifkit.Fail("harness:encryption-request", "EncryptionRequest carries a public key that is not the authenticator's")
					return &r
				}
				token, wirePub, gotEncReq = tk, pk, true
				phase = "encwait"
				addLabel("reached-encwait")
			} else {
				phase, notAdmitWhy = "rejected", "no-encryption-request"
				addLabel("online-no-encryption-request")
			}
			return nil
		}
		phase = "offline"
		addLabel("offline-path")
		if c.Compression >= 0 {
			outThreshold = c.Compression
		}
		return nil
	}

	stopped := false
	asyncTail := false
	for i, op := range c.Ops {
		if stopped {
			break
		}
		var payload []byte
		tokenOK, secretRSAOK := false, false
		var thisSecret []byte
		solicited := -1 // index into pending of the request this plugin response answers
		switch op.Kind {
		case "login":
			payload = c08LoginPayload(c, op, pubDER, st)
		case "encresp":
			tk := token
			if tk == nil {
				tk = st.Bytes(4)
			}
			var encToken, encSecret []byte
			switch op.Token {
			case "correct":
				encToken = c08RSAEncrypt(wirePub, tk, st)
				tokenOK = gotEncReq
			case "wrong":
				w := st.Bytes(len(tk))
				if bytes.Equal(w, tk) {
					w[0] ^= 1
				}
				encToken = c08RSAEncrypt(wirePub, w, st)
			case "empty":
				encToken = c08RSAEncrypt(wirePub, nil, st)
			case "truncated":
				encToken = c08RSAEncrypt(wirePub, tk[:len(tk)-1], st)
			case "extended":
				encToken = c08RSAEncrypt(wirePub, append(append([]byte(nil), tk...), 0), st)
			case "plain":
				encToken = append([]byte(nil), tk...)
			case "garbage":
				encToken = st.Bytes(128)
				encToken[0] |= 0x80 // >= modulus with overwhelming probability is fine too: decryption fails or yields junk
			case "emptyarr":
				encToken = []byte{}
			default:
				panic("c08: bad token kind " + op.Token)
			}
			switch op.Secret {
			case "valid":
				thisSecret = secret16
			case "len0":
				thisSecret = []byte{}
			case "len15":
				thisSecret = secret16[:15]
			case "len17":
				thisSecret = append(append([]byte(nil), secret16...), 0x11)
			case "len32":
				thisSecret = append(append([]byte(nil), secret16...), secret16...)
			case "len24":
				thisSecret = append(append([]byte(nil), secret16...), secret16[:8]...)
			}
			switch op.Secret {
			case "valid", "len0", "len15", "len17", "len32", "len24":
				encSecret = c08RSAEncrypt(wirePub, thisSecret, st)
				secretRSAOK = true
			case "garbage":
				encSecret = st.Bytes(128)
			case "plain":
				encSecret = append([]byte(nil), secret16...)
			case "emptyarr":
				encSecret = []byte{}
			case "wrongkey":
				encSecret = c08RSAEncrypt(&otherKey.PublicKey, secret16, st)
			default:
				panic("c08: bad secret kind " + op.Secret)
			}
			payload = c08EncRespPayload(c, encSecret, encToken)
		case "pluginresp":
			id, ok := op.ID, byte(0)
			if op.Answer > 0 && phase == "pluginwait" && len(pending) > 0 {
				solicited = (op.Answer - 1) % len(pending)
				id = pending[solicited]
				if len(op.Body) > 0 {
					ok = 1
				}
			}
			payload = append(verifkit.RefVarInt(0x02), verifkit.RefVarInt(id)...)
			payload = append(payload, ok)
			payload = append(payload, op.Body...)
		case "ack":
			payload = verifkit.RefVarInt(0x03)
		case "unknown":
			payload = append(verifkit.RefVarInt(op.ID), op.Body...)
		default:
			panic("c08: bad op kind " + op.Kind)
		}

		err := sendWire(payload)
		if err != nil {
			addLabel("closed-before-op")
			if strictPrev != "" {
				addLabel("strict-close-confirmed")
			}
			stopped = true
			break
		}
		if strictPrev != "" {
			return notClosed(i, op.Kind)
		}
		softCheck(true, i)

		// the proxy consumed op in `phase`
		kind := op.Kind
		if kind == "ack" && c.Protocol < 764 {
			kind = "unknown" // LoginAcknowledged does not exist before 1.20.2
		}
		if kind == "pluginresp" && c.Protocol < 393 {
			kind = "unknown" // login plugin responses do not exist before 1.13
		}
		switch kind {
		case "pluginresp":
			if solicited >= 0 {
				addLabel("answered-prelogin-plugin-request")
				pending = append(pending[:solicited], pending[solicited+1:]...)
				if len(pending) == 0 {
					// the held login continues
					frames, _ := cl.AwaitPlainFrames(wantPlugin + 1)
					var next []byte
					if len(frames) == wantPlugin+1 {
						next = frames[wantPlugin]
					}
					if r := afterPreLogin(next); r != nil {
						return *r
					}
				}
				break
			}
			// unsolicited; the property text does not settle whether this counts as
			// "out of order": no closure demanded, phase unchanged.
			addLabel("unsolicited-plugin-response")
			softPrev = i
		case "unknown":
			addLabel("unknown-packet")
			// no demand; if the proxy closed, the next write fails and the script ends.
		case "login":
			switch phase {
			case "start":
				loginName = op.Name
				frames, _ := cl.AwaitPlainFrames(1)
				keyRejected := (c.Protocol == 759 || c.Protocol == 760) && (op.Key || c.ForceKeyAuth)
				switch {
				case !c08NameOK(op.Name):
					phase, notAdmitWhy = "rejected", "invalid-username"
					addLabel("invalid-username")
				case keyRejected:
					phase, notAdmitWhy = "rejected", "profile-key"
					addLabel("profile-key-rejected")
				case c.PreLogin == "deny":
					phase, notAdmitWhy = "rejected", "prelogin-denied"
					addLabel("prelogin-denied")
				case wantPlugin > 0:
					frames, _ = cl.AwaitPlainFrames(wantPlugin)
					pending = nil
					for _, f := range frames {
						if len(f) > 1 && f[0] == 0x04 {
							if id, e := verifkit.NewRefReader(f[1:]).VarInt(); e == nil {
								pending = append(pending, id)
							}
						}
					}
					if len(pending) == wantPlugin {
						phase = "pluginwait"
						addLabel("reached-pluginwait")
					} else {
						phase, notAdmitWhy = "rejected", "no-plugin-request"
						addLabel("prelogin-plugin-request-missing")
						pending = nil
					}
				default:
					var first []byte
					if len(frames) == 1 {
						first = frames[0]
					}
					if r := afterPreLogin(first); r != nil {
						return *r
					}
				}
			default:
				strictPrev, strictPrevAt = "login-start", i
				deviation = true
				addLabel("repeated-login-start@" + phase)
				if phase == "encwait" || phase == "pluginwait" {
					phase, notAdmitWhy = "rejected", "repeated-login-start"
				}
			}
		case "encresp":
			switch phase {
			case "encwait":
				addLabel("token-" + op.Token)
				addLabel("secret-" + op.Secret)
				if tokenOK && secretRSAOK {
					usedSecret = thisSecret
					if len(thisSecret) == 16 {
						encOn = true
						outCipher = verifkit.NewRefCFB8(secret16, false)
						if c08SessionOK(c.Session) {
							mayAdmit = true
							if c.Protocol >= 764 {
								phase = "ackwait"
							} else {
								phase = "play"
							}
							if c.Compression >= 0 {
								outThreshold = c.Compression
							}
						} else {
							phase, notAdmitWhy = "rejected", "session-not-confirmed"
						}
					} else {
						// RSA-valid secret of a length vanilla never produces: no demand
						// about the stream; admission is still tied to the session answer.
						oddSecret = true
						mayAdmit = c08SessionOK(c.Session)
						phase, notAdmitWhy = "rejected", "session-not-confirmed"
						if mayAdmit {
							phase = "odd"
						}
						// The proxy may now run a cipher the client cannot follow: nothing
						// the client sends from here on has a defined meaning, so the script
						// ends here and closure is not judged. The proxy still asks the session
						// server about this join (it has the token and the secret): wait for that
						// request so that its server id can be compared (bounded; not a verdict).
						for k := 0; (len(thisSecret) == 24 || len(thisSecret) == 32) && k < 2000 && len(sess.Requests()) == 0; k++ {
							time.Sleep(time.Millisecond)
						}
						stopped = true
					}
				} else {
					deviation = true
					phase = "rejected"
					if !tokenOK {
						notAdmitWhy = "bad-token"
					} else {
						notAdmitWhy = "bad-secret"
					}
				}
			default:
				strictPrev, strictPrevAt = "encryption-response", i
				deviation = true
				addLabel("out-of-order-encryption-response@" + phase)
			}
		case "ack":
			switch phase {
			case "ackwait", "offline":
				// legitimate: the client enters the configuration phase; what follows
				// (asynchronous "no available server" disconnect) is not judged.
				phase = "acked"
				asyncTail = true
				stopped = true
				addLabel("acknowledged")
			default:
				strictPrev, strictPrevAt = "login-acknowledged", i
				deviation = true
				addLabel("out-of-order-ack@" + phase)
			}
		}
	}

	// final probe: decides closure after the last scripted op
	if !asyncTail && !stopped {
		perr := sendWire(verifkit.RefVarInt(0x7f))
		if perr == nil && strictPrev != "" {
			return notClosed(len(c.Ops), "probe")
		}
		softCheck(perr == nil, len(c.Ops))
		if perr == nil {
			addLabel("open-at-end")
		} else if strictPrev != "" {
			addLabel("strict-close-confirmed")
		}
	}

	stream := finish()
	if pv := cl.Panic(); pv != "" {
		return verifkit.Fail("panic:HandleConn", "panic escaped HandleConn: %s", pv)
	}

	// ---- what the proxy wrote
	tr := c08ParseTranscript(stream, c.Protocol, encOn, oddSecret, secret16)
	ev.mu.Lock()
	registered := ev.registered > 0 || ev.postLogin > 0
	loginOnline := append([]bool(nil), ev.loginOnline...)
	ev.mu.Unlock()
	if p.PlayerCount() != 0 {
		registered = true
		addLabel("player-left-registered")
	}
	admitted := tr.loginSuccess || registered
	reqs := sess.Requests()

	if onlinePath {
		addLabel("online-path")
		// (1) the stream after a valid EncryptionResponse must be readable with the secret, and only so
		if encOn && tr.err != nil {
			if tr.plainTailOK {
				return verifkit.Fail("encryption:plaintext-after-response",
					"bytes after the valid EncryptionResponse are well-formed plaintext frames (ids %v): encryption was not enabled with the shared secret", tr.plainTailIDs)
			}
			return verifkit.Fail("encryption:stream-unreadable",
				"bytes after the valid EncryptionResponse do not decrypt (AES/CFB8 under the shared secret) into well-formed frames: %v", tr.err)
		}
		if tr.loginSuccess && !tr.loginSuccessEncrypted {
			return verifkit.Fail("admit:login-success-unencrypted", "LoginSuccess was sent in plaintext on the online-mode path (reference: %s)", notAdmitWhy)
		}
		// (2) admission only if the reference automaton permits it
		if admitted && !mayAdmit {
			return verifkit.Fail("admit:"+notAdmitWhy,
				"client was admitted (LoginSuccess=%v registered=%v) although the history does not permit it: %s (session answer: %s); session requests=%v",
				tr.loginSuccess, registered, notAdmitWhy, c.Session, reqs)
		}
		// (3) admission requires the session server to have confirmed exactly this join
		if admitted {
			want := c08SessionReq{ServerID: c08ServerID(usedSecret, pubDER), Username: loginName}
			found := false
			for _, r := range reqs {
				if r.ServerID == want.ServerID && r.Username == want.Username {
					found = true
				}
			}
			if !found {
				return verifkit.Fail("admit:session-query-mismatch", "admitted, but the session server was never asked for serverId=%s username=%q; requests=%v", want.ServerID, want.Username, reqs)
			}
			for _, on := range loginOnline {
				if !on {
					return verifkit.Fail("admit:registered-as-offline", "player admitted on the online-mode path is flagged offline-mode")
				}
			}
			if v := authn.check(token, usedSecret); v != nil {
				return verifkit.Result{V: v}
			}
		}
		// (3b) an RSA-valid secret of another length: whatever happens to the stream, a
		// join the proxy asks the session server about is this client's join
		if oddSecret {
			for _, r := range reqs {
				if want := c08ServerID(usedSecret, pubDER); r.ServerID != want || r.Username != loginName {
					return verifkit.Fail("serverid:mismatch-odd-secret-length", "the client sent a %d-byte shared secret; the session server was asked for serverId=%s username=%q, the digest over that secret and the proxy's key is %s (username %q)", len(usedSecret), r.ServerID, r.Username, want, loginName)
				}
				addLabel("odd-secret-serverid-compared")
			}
		}
		// rig sanity (vacuity guard, judged over the whole run in TestVerif_C08): clean
		// exchanges are normally admitted.
		if mayAdmit && !oddSecret && !deviation {
			c08CleanTotal.Add(1)
			if admitted {
				c08CleanAdmitted.Add(1)
			} else {
				addLabel("clean-flow-not-admitted")
			}
		}
	} else {
		addLabel("offline-path-config")
	}

	if admitted {
		addLabel("admitted")
		if onlinePath {
			addLabel("admitted-online")
			if tr.loginSuccess && tr.loginSuccessEncrypted {
				addLabel("login-success-read-through-cfb8")
			}
		}
		if tr.loginSuccess && tr.loginSuccessName != loginName {
			addLabel("admitted-under-profile-name")
		}
	} else {
		addLabel("not-admitted")
	}
	if oddSecret {
		addLabel("odd-secret-length")
	}
	if deviation {
		addLabel("deviation")
	}
	addLabel("session-" + c.Session)
	addLabel("prelogin-" + c.PreLogin)
	addLabel(fmt.Sprintf("proto-%d", c.Protocol))
	if tr.compressed {
		addLabel("compressed-frames-read")
	}
	nt := (gotEncReq || wantPlugin > 0 && loginName != "") && (deviation || !c08SessionOK(c.Session))
	if deferred != nil {
		// everything else about this history was judged and is fine
		return verifkit.Result{V: deferred, NonTrivial: nt, Labels: append(labels, "deferred-unsolicited-plugin-response")}
	}
	return verifkit.Result{NonTrivial: nt, Labels: labels}
}

// ---------------------------------------------------------------- authenticator wrapper

type c08Auth struct {
	auth.Authenticator
	mu       sync.Mutex
	verifies []c08VerifyCall
	decrypts [][]byte // successfully decrypted shared secrets
}

type c08VerifyCall struct {
	actual []byte
	ok     bool
}

func (a *c08Auth) Verify(enc, actual []byte) (bool, error) {
	ok, err := a.Authenticator.Verify(enc, actual)
	a.mu.Lock()
	a.verifies = append(a.verifies, c08VerifyCall{actual: append([]byte(nil), actual...), ok: ok && err == nil})
	a.mu.Unlock()
	return ok, err
}

func (a *c08Auth) DecryptSharedSecret(enc []byte) ([]byte, error) {
	d, err := a.Authenticator.DecryptSharedSecret(enc)
	if err == nil {
		a.mu.Lock()
		a.decrypts = append(a.decrypts, append([]byte(nil), d...))
		a.mu.Unlock()
	}
	return d, err
}

// check: for an admitted client the proxy compared against the token it issued
// and decrypted exactly the secret the client sent.
func (a *c08Auth) check(issued, secret []byte) *verifkit.Violation {
	a.mu.Lock()
	defer a.mu.Unlock()
	okv := false
	for _, v := range a.verifies {
		if v.ok && bytes.Equal(v.actual, issued) {
			okv = true
		}
	}
	if !okv {
		return verifkit.Violationf("admit:token-not-verified", "admitted, but no successful verification of the issued verify token %x happened (calls: %d)", issued, len(a.verifies))
	}
	okd := false
	for _, d := range a.decrypts {
		if bytes.Equal(d, secret) {
			okd = true
		}
	}
	if !okd {
		return verifkit.Violationf("admit:secret-not-decrypted", "admitted, but the shared secret was never decrypted to the value the client sent")
	}
	return nil
}

// ---------------------------------------------------------------- wire parsing (client side)

func c08ParseEncReq(payload []byte) (token []byte, pub *rsa.PublicKey, err error) {
	r := verifkit.NewRefReader(payload)
	if id, e := r.VarInt(); e != nil || id != 1 {
		return nil, nil, fmt.Errorf("not an EncryptionRequest")
	}
	if _, err = r.String(); err != nil {
		return nil, nil, err
	}
	der, err := r.ByteArray()
	if err != nil {
		return nil, nil, err
	}
	token, err = r.ByteArray()
	if err != nil {
		return nil, nil, err
	}
	k, err := x509.ParsePKIXPublicKey(der)
	if err != nil {
		return nil, nil, err
	}
	pk, ok := k.(*rsa.PublicKey)
	if !ok {
		return nil, nil, fmt.Errorf("public key is %T", k)
	}
	return append([]byte(nil), token...), pk, nil
}

type c08Transcript struct {
	ids                   []int32
	loginSuccess          bool
	loginSuccessEncrypted bool
	loginSuccessName      string
	compressed            bool
	err                   error // first framing error before LoginSuccess (nil if the stream parsed)
	plainTailOK           bool  // the tail that failed to decrypt parses as plaintext frames
	plainTailIDs          []int32
}

// c08ParseTranscript parses everything the proxy wrote. Bytes up to and
// including the EncryptionRequest are plaintext; if the client answered it with
// a valid response (encOn) every later byte must be AES/CFB8 under secret.
// Parsing stops at LoginSuccess: what follows belongs to later phases.
//
// opaqueTail: the client answered with an RSA-valid secret whose length is not
// 16; the proxy may then run a cipher the reference cannot follow, so the bytes
// after the EncryptionRequest are not interpreted at all (admission is then
// judged through the registration evidence only).
func c08ParseTranscript(stream []byte, protocol int32, encOn, opaqueTail bool, secret []byte) c08Transcript {
	var tr c08Transcript
	data := stream
	encrypted := false
	threshold := -1
	walk := func(data []byte, tr *c08Transcript, allowSwitch bool) (rest []byte, switchAt bool, err error) {
		r := verifkit.NewRefReader(data)
		for r.Remaining() > 0 {
			f, e := verifkit.RefReadFrame(r, threshold, 1<<21)
			if e != nil {
				if e == io.EOF {
					break
				}
				return nil, false, e
			}
			if len(f) == 0 {
				continue
			}
			fr := verifkit.NewRefReader(f)
			id, e := fr.VarInt()
			if e != nil {
				return nil, false, e
			}
			if id < 0 || id > 5 {
				return nil, false, fmt.Errorf("frame with packet id %d that does not exist clientbound in the login state", id)
			}
			tr.ids = append(tr.ids, id)
			switch id {
			case 0x03:
				th, e := fr.VarInt()
				if e != nil {
					return nil, false, e
				}
				threshold = int(th)
				tr.compressed = true
			case 0x02:
				tr.loginSuccess = true
				tr.loginSuccessEncrypted = encrypted
				if protocol >= 735 {
					_, _ = fr.UUID()
				} else {
					_, _ = fr.String()
				}
				tr.loginSuccessName, _ = fr.String()
				return nil, false, nil
			case 0x01:
				if allowSwitch {
					return data[r.Pos:], true, nil
				}
			}
		}
		return nil, false, nil
	}
	rest, sw, err := walk(data, &tr, encOn || opaqueTail)
	if err != nil {
		tr.err = err
		return tr
	}
	if !sw || len(rest) == 0 || !encOn {
		return tr
	}
	dec := make([]byte, len(rest))
	verifkit.NewRefCFB8(secret, true).XOR(dec, rest)
	encrypted = true
	before := len(tr.ids)
	thBefore := threshold
	_, _, err = walk(dec, &tr, false)
	if err != nil {
		tr.err = err
		tr.ids = tr.ids[:before]
		tr.loginSuccess = false
		// does the tail parse without the secret?
		var alt c08Transcript
		encrypted = false
		threshold = thBefore
		if _, _, e := walk(rest, &alt, false); e == nil && len(alt.ids) > 0 {
			tr.plainTailOK = true
			tr.plainTailIDs = alt.ids
			if alt.loginSuccess {
				tr.loginSuccess = true
				tr.loginSuccessEncrypted = false
				tr.loginSuccessName = alt.loginSuccessName
			}
		}
	}
	return tr
}

// ---------------------------------------------------------------- generator

var c08Protocols = []int32{47, 340, 754, 758, 759, 760, 761, 763, 764, 765, 766, 767, 774, 776}

func c08GenName(t *rapid.T) string {
	return rapid.OneOf(
		rapid.SampledFrom([]string{"Alice", "bob_123", "X_", "Sixteen_Chars_16", "Notch", "a1"}),
		rapid.SampledFrom([]string{"Alice", "bob_123", "X_", "Sixteen_Chars_16", "Notch", "a1"}),
		rapid.SampledFrom([]string{"Alice", "bob_123", "X_", "Sixteen_Chars_16", "Notch", "a1"}),
		rapid.SampledFrom([]string{"a", "has space", "Seventeen_Chars_7", "dash-name", "", "näme"}),
	).Draw(t, "name")
}

func c08GenEncResp(t *rapid.T, bias int) c08Op {
	tokens := []string{"correct", "correct", "correct", "correct", "wrong", "empty", "truncated", "extended", "plain", "garbage", "emptyarr"}
	secrets := []string{"valid", "valid", "valid", "valid", "valid", "garbage", "plain", "emptyarr", "wrongkey", "len0", "len15", "len17", "len32", "len24"}
	op := c08Op{Kind: "encresp"}
	switch bias {
	case 0: // clean
		op.Token, op.Secret = "correct", "valid"
	case 1: // forged token, good secret
		op.Token = rapid.SampledFrom(tokens[4:]).Draw(t, "token")
		op.Secret = "valid"
	case 2: // good token, bad secret
		op.Token = "correct"
		op.Secret = rapid.SampledFrom(secrets[5:]).Draw(t, "secret")
	default:
		op.Token = rapid.SampledFrom(tokens).Draw(t, "token")
		op.Secret = rapid.SampledFrom(secrets).Draw(t, "secret")
	}
	return op
}

func c08GenOp(t *rapid.T, protocol int32) c08Op {
	kind := rapid.SampledFrom([]string{"login", "login", "encresp", "encresp", "pluginresp", "ack", "unknown"}).Draw(t, "kind")
	switch kind {
	case "login":
		op := c08Op{Kind: kind, Name: c08GenName(t)}
		if protocol == 759 || protocol == 760 {
			op.Key = rapid.IntRange(0, 3).Draw(t, "key") == 0
		}
		return op
	case "encresp":
		return c08GenEncResp(t, rapid.IntRange(0, 3).Draw(t, "bias"))
	case "pluginresp":
		return c08Op{Kind: kind, ID: rapid.SampledFrom([]int32{0, 1, 2, 7, -1}).Draw(t, "id"), Body: rapid.SliceOfN(rapid.Byte(), 0, 8).Draw(t, "body"),
			Answer: rapid.SampledFrom([]int{0, 0, 1, 2}).Draw(t, "answer")}
	case "ack":
		return c08Op{Kind: kind}
	default:
		return c08Op{Kind: "unknown", ID: rapid.SampledFrom([]int32{5, 6, 0x10, 0x7e, 0x80, -1}).Draw(t, "id"), Body: rapid.SliceOfN(rapid.Byte(), 0, 8).Draw(t, "body")}
	}
}

func c08Gen(t *rapid.T) c08Case {
	c := c08Case{
		Protocol:     rapid.SampledFrom(c08Protocols).Draw(t, "protocol"),
		OnlineMode:   rapid.IntRange(0, 9).Draw(t, "online") != 0,
		PreLogin:     rapid.SampledFrom([]string{"none", "none", "none", "none", "allow", "deny", "force-online", "force-offline", "plugin-1", "plugin-2"}).Draw(t, "prelogin"),
		Session:      rapid.SampledFrom([]string{"ok", "ok", "ok", "ok", "ok", "ok-othername", "empty200", "204", "401", "401-profile", "500", "error", "badjson", "noname"}).Draw(t, "session"),
		Compression:  rapid.SampledFrom([]int{-1, -1, 256, 1}).Draw(t, "compression"),
		ForceKeyAuth: rapid.IntRange(0, 3).Draw(t, "forceKey") == 0,
		Secret:       rapid.SliceOfN(rapid.Byte(), 16, 16).Draw(t, "secret"),
		Seed:         rapid.SliceOfN(rapid.Byte(), 8, 8).Draw(t, "seed"),
	}
	validName := rapid.SampledFrom([]string{"Alice", "bob_123", "X_", "Sixteen_Chars_16", "Notch"}).Draw(t, "loginName")
	login := c08Op{Kind: "login", Name: validName}
	// answers to the PreLogin handler's login plugin requests (clean flows)
	var answers []c08Op
	if (c.PreLogin == "plugin-1" || c.PreLogin == "plugin-2") && c.Protocol >= 393 {
		for k := int(c.PreLogin[7] - '0'); k > 0; k-- {
			answers = append(answers, c08Op{Kind: "pluginresp", Answer: rapid.IntRange(1, 2).Draw(t, "answerWhich"), Body: rapid.SliceOfN(rapid.Byte(), 0, 4).Draw(t, "answerBody")})
		}
	}
	shape := rapid.IntRange(0, 9).Draw(t, "shape")
	switch {
	case shape <= 3: // login, one encryption response (clean / forged token / bad secret / mixed), optional tail
		c.Ops = append(append([]c08Op{login}, answers...), c08GenEncResp(t, rapid.IntRange(0, 3).Draw(t, "bias")))
		for n := rapid.IntRange(0, 2).Draw(t, "tail"); n > 0; n-- {
			c.Ops = append(c.Ops, c08GenOp(t, c.Protocol))
		}
	case shape <= 6: // clean exchange with one deviation inserted
		c.Ops = append(append([]c08Op{login}, answers...), c08GenEncResp(t, 0))
		if c.Protocol >= 764 && rapid.Bool().Draw(t, "withAck") {
			c.Ops = append(c.Ops, c08Op{Kind: "ack"})
		}
		dev := c08GenOp(t, c.Protocol)
		if dev.Kind == "login" && rapid.Bool().Draw(t, "sameName") {
			dev.Name = validName
		}
		pos := rapid.IntRange(0, len(c.Ops)).Draw(t, "pos")
		ops := append([]c08Op(nil), c.Ops[:pos]...)
		ops = append(ops, dev)
		c.Ops = append(ops, c.Ops[pos:]...)
	default:
		n := rapid.IntRange(1, 6).Draw(t, "n")
		for i := 0; i < n; i++ {
			c.Ops = append(c.Ops, c08GenOp(t, c.Protocol))
		}
	}
	return c
}

var c08CleanTotal, c08CleanAdmitted atomic.Int64

// c08StrictPluginResponse: a LoginPluginResponse that answers no request is
// treated as a login packet arriving out of order, i.e. the connection must be
// closed after it (vanilla does; the property's packet alphabet lists "plugin
// response"). Set to false to only demand that it never leads to admission.
const c08StrictPluginResponse = false

func TestVerif_C08(t *testing.T) {
	defer func() {
		// Vacuity guard: the safety oracle says nothing if the rig can never log in.
		if n := c08CleanTotal.Load(); n >= 20 && c08CleanAdmitted.Load()*2 < n && !t.Failed() {
			t.Fatalf("harness: only %d of %d clean online logins were admitted; the rig (or the login path) is broken and the admission oracle would be vacuous", c08CleanAdmitted.Load(), n)
		}
	}()
	verifkit.Check(t, "C08", "login",
		"login-phase packet sequences (1-7 ops over LoginStart / EncryptionResponse with token in {correct, wrong, empty, truncated, extended, unencrypted, garbage, empty array} x secret in {valid, garbage, unencrypted, empty array, other key, odd lengths} / unsolicited LoginPluginResponse / LoginAcknowledged / unknown id; duplicates and reorderings) x protocol in {1.8 .. 26.2} x online-mode on/off x PreLogin in {none, allow, deny, force-online, force-offline, handler sends 1 or 2 login plugin requests that hold the login until answered (solicited answers, repeated login start / encryption response / ack while they are outstanding)} x session answer in {200+profile, other name, 200 empty, 204, 401, 401 with a profile body, 500, transport error, bad JSON, no name} x compression; reference login automaton; non-trivial = the exchange reached the EncryptionRequest and contains a deviation or a non-200 session answer",
		c08Gen, c08Run)
}
