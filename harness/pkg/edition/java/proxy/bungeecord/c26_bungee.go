//go:build verif

package bungeecord

// C26 (core): the BungeeCord plugin-channel responder against a reference of the
// BungeeCord protocol as implemented by Velocity's BungeeCordMessageResponder.
//
// A case is a proxy state (servers, players with their current server and
// protocol, the requesting player) and one request. The real responder runs with
// recording fakes for Providers / Server / Player / ServerConnection; the oracle
// computes, independently, which connection must receive which bytes and which
// side effects must happen.

import (
	"bytes"
	"fmt"
	"net"
	"sort"
	"strings"
	"testing"

	"go.minekube.com/common/minecraft/component"
	"pgregory.net/rapid"

	"go.minekube.com/gate/pkg/command"
	"go.minekube.com/gate/pkg/edition/java/proto/packet/plugin"
	"go.minekube.com/gate/pkg/edition/java/proxy/message"
	"go.minekube.com/gate/pkg/gate/proto"
	"go.minekube.com/gate/pkg/internal/verifkit"
	"go.minekube.com/gate/pkg/util/uuid"
)

// ---------------------------------------------------------------- case

type c26Player struct {
	Name   string `json:"name"`
	Server int    `json:"server"` // index into Servers, -1 = no current server
	Proto  int    `json:"proto"`  // protocol of the player's backend connection
}

type c26Case struct {
	Servers   []string    `json:"servers"`
	Players   []c26Player `json:"players"`
	Requester int         `json:"requester"`
	LegacyID  bool        `json:"legacy_id"` // request arrives on "BungeeCord" instead of "bungeecord:main"
	Sub       string      `json:"sub"`
	A1        string      `json:"a1,omitempty"` // first string argument as on the wire (player / server / ALL / ONLINE)
	A2        string      `json:"a2,omitempty"` // second string argument (server of ConnectOther, message text)
	Channel   string      `json:"channel,omitempty"`
	Data      []byte      `json:"data,omitempty"`
	LenField  int         `json:"len_field"` // short written before Data; -1 = len(Data) (well-formed)
	Cut       int         `json:"cut"`       // -1 = whole request; otherwise the request is truncated to Cut bytes
}

var c26Subs = []string{"Forward", "ForwardToPlayer", "GetPlayerServer", "Message", "MessageRaw", "KickPlayer", "KickPlayerRaw",
	"Connect", "ConnectOther", "IP", "IPOther", "PlayerCount", "PlayerList", "GetServers",
	"GetServer", "UUID", "UUIDOther", "ServerIP", "NoSuchSubChannel"}

func c26NumArgs(sub string) int {
	switch sub {
	case "IP", "GetServers", "GetServer", "UUID", "NoSuchSubChannel":
		return 0
	case "Connect", "IPOther", "PlayerCount", "PlayerList", "UUIDOther", "ServerIP", "GetPlayerServer", "Forward", "ForwardToPlayer":
		return 1
	}
	return 2
}

func c26IsForward(sub string) bool { return sub == "Forward" || sub == "ForwardToPlayer" }

func c26UUID(i int) uuid.UUID {
	return uuid.UUID{0xC2, 0x60, 0x11, 0x22, 0x33, 0x44, 0x40, 0x55, 0x80, 0x66, 0, 0, 0, 0, 0xab, byte(i + 1)}
}

func c26Undashed(i int) string { u := c26UUID(i); return fmt.Sprintf("%x", u[:]) }

func c26PlayerHost(i int) string { return fmt.Sprintf("10.1.%d.%d", i, 20+i) }
func c26PlayerPort(i int) int    { return 40000 + 1111*i }
func c26ServerHost(i int) string { return fmt.Sprintf("192.168.7.%d", 10+i) }
func c26ServerPort(i int) int    { return []int{25565, 25566, 40001, 65535}[i%4] }

// request bytes exactly as a backend plugin writes them with DataOutputStream
func (c c26Case) request() []byte {
	out := verifkit.RefUTF(c.Sub)
	n := c26NumArgs(c.Sub)
	if n >= 1 {
		out = append(out, verifkit.RefUTF(c.A1)...)
	}
	if n >= 2 {
		out = append(out, verifkit.RefUTF(c.A2)...)
	}
	if c26IsForward(c.Sub) {
		out = append(out, c.forwardRemainder()...)
	}
	if c.Cut >= 0 && c.Cut < len(out) {
		out = out[:c.Cut]
	}
	return out
}

// forwardRemainder is what follows the target argument of Forward/ForwardToPlayer.
func (c c26Case) forwardRemainder() []byte {
	l := len(c.Data)
	if c.LenField >= 0 {
		l = c.LenField
	}
	out := verifkit.RefUTF(c.Channel)
	out = append(out, verifkit.RefU16(uint16(l))...)
	return append(out, c.Data...)
}

func (c c26Case) wellFormed() bool {
	return c.Cut < 0 && (!c26IsForward(c.Sub) || c.LenField < 0)
}

func (c c26Case) findPlayer(name string) int {
	for i, p := range c.Players {
		if strings.EqualFold(p.Name, name) {
			return i
		}
	}
	return -1
}

func (c c26Case) findServer(name string) int {
	for i, s := range c.Servers {
		if strings.EqualFold(s, name) {
			return i
		}
	}
	return -1
}

func c26Chan(protocol int) string {
	if protocol >= 393 { // 1.13
		return "bungeecord:main"
	}
	return "BungeeCord"
}

// ---------------------------------------------------------------- effects

type c26Write struct {
	channel string
	data    []byte
}

type c26Effects struct {
	writes      map[int][]c26Write // index of the player whose backend connection was written to
	forwards    map[int][][]byte   // server index -> payloads handed to the server for delivery
	connects    []string           // "server<-player"
	kicks       map[int][]string   // player -> reasons (plain text)
	toAll       []string           // chat messages to everybody
	toServer    map[int][]string   // chat messages to everybody on a server (not part of the BungeeCord protocol)
	toPlayer    map[int][]string   // chat message to one player (cannot be expressed through Providers)
	listCompare bool               // response carries a ", " joined list whose order is unspecified
}

func c26NewEffects() *c26Effects {
	return &c26Effects{writes: map[int][]c26Write{}, forwards: map[int][][]byte{}, kicks: map[int][]string{},
		toServer: map[int][]string{}, toPlayer: map[int][]string{}}
}

func c26Join(parts ...[]byte) []byte { return bytes.Join(parts, nil) }

// c26Ref is the reference: BungeeCord plugin-messaging semantics as ported by Velocity.
// ok=false: the request is malformed and only crash-freedom is asserted.
func c26Ref(c c26Case) (e *c26Effects, assert bool) {
	e = c26NewEffects()
	if !c.wellFormed() {
		return e, false
	}
	req := c.Requester
	reqServer := c.Players[req].Server
	respond := func(data []byte) {
		if reqServer < 0 {
			return // no current server connection to answer on
		}
		e.writes[req] = append(e.writes[req], c26Write{c26Chan(c.Players[req].Proto), data})
	}
	utf := verifkit.RefUTF
	playersOn := func(s int) (names []string) {
		for _, p := range c.Players {
			if p.Server == s {
				names = append(names, p.Name)
			}
		}
		return
	}
	switch c.Sub {
	case "Connect":
		if s := c.findServer(c.A1); s >= 0 {
			e.connects = append(e.connects, fmt.Sprintf("%d<-%d", s, req))
		}
	case "ConnectOther":
		p, s := c.findPlayer(c.A1), c.findServer(c.A2)
		if p >= 0 && s >= 0 {
			e.connects = append(e.connects, fmt.Sprintf("%d<-%d", s, p))
		}
	case "IP":
		respond(c26Join(utf("IP"), utf(c26PlayerHost(req)), verifkit.RefU32(uint32(c26PlayerPort(req)))))
	case "IPOther":
		if p := c.findPlayer(c.A1); p >= 0 {
			respond(c26Join(utf("IPOther"), utf(c.Players[p].Name), utf(c26PlayerHost(p)), verifkit.RefU32(uint32(c26PlayerPort(p)))))
		}
	case "PlayerCount":
		if c.A1 == "ALL" {
			respond(c26Join(utf("PlayerCount"), utf("ALL"), verifkit.RefU32(uint32(len(c.Players)))))
		} else if strings.EqualFold(c.A1, "ALL") {
			return e, false // BungeeCord compares case-sensitively, a server could be called "all": not asserted
		} else if s := c.findServer(c.A1); s >= 0 {
			respond(c26Join(utf("PlayerCount"), utf(c.Servers[s]), verifkit.RefU32(uint32(len(playersOn(s))))))
		}
	case "PlayerList":
		e.listCompare = true
		if c.A1 == "ALL" {
			var names []string
			for _, p := range c.Players {
				names = append(names, p.Name)
			}
			respond(c26Join(utf("PlayerList"), utf("ALL"), utf(strings.Join(names, ", "))))
		} else if strings.EqualFold(c.A1, "ALL") {
			return e, false
		} else if s := c.findServer(c.A1); s >= 0 {
			respond(c26Join(utf("PlayerList"), utf(c.Servers[s]), utf(strings.Join(playersOn(s), ", "))))
		}
	case "GetServers":
		e.listCompare = true
		respond(c26Join(utf("GetServers"), utf(strings.Join(c.Servers, ", "))))
	case "Message", "MessageRaw":
		text := c.A2
		if c.Sub == "MessageRaw" {
			text = c26RawText(c.A2)
		}
		if c.A1 == "ALL" {
			e.toAll = append(e.toAll, text)
		} else if strings.EqualFold(c.A1, "ALL") {
			return e, false
		} else if p := c.findPlayer(c.A1); p >= 0 {
			e.toPlayer[p] = append(e.toPlayer[p], text)
		}
	case "GetServer":
		if reqServer >= 0 {
			respond(c26Join(utf("GetServer"), utf(c.Servers[reqServer])))
		}
	case "UUID":
		respond(c26Join(utf("UUID"), utf(c26Undashed(req))))
	case "UUIDOther":
		if p := c.findPlayer(c.A1); p >= 0 {
			respond(c26Join(utf("UUIDOther"), utf(c.Players[p].Name), utf(c26Undashed(p))))
		}
	case "ServerIP":
		if s := c.findServer(c.A1); s >= 0 {
			respond(c26Join(utf("ServerIP"), utf(c.Servers[s]), utf(c26ServerHost(s)), verifkit.RefU16(uint16(c26ServerPort(s)))))
		}
	case "KickPlayer", "KickPlayerRaw":
		if p := c.findPlayer(c.A1); p >= 0 {
			text := c.A2
			if c.Sub == "KickPlayerRaw" {
				text = c26RawText(c.A2)
			}
			e.kicks[p] = append(e.kicks[p], text)
		}
	case "Forward":
		payload := c.forwardRemainder()
		if c.A1 == "ALL" || c.A1 == "ONLINE" {
			for s := range c.Servers {
				if s != reqServer {
					e.forwards[s] = append(e.forwards[s], payload)
				}
			}
		} else if strings.EqualFold(c.A1, "ALL") || strings.EqualFold(c.A1, "ONLINE") {
			return e, false
		} else if s := c.findServer(c.A1); s >= 0 {
			e.forwards[s] = append(e.forwards[s], payload)
		}
	case "ForwardToPlayer":
		if p := c.findPlayer(c.A1); p >= 0 && c.Players[p].Server >= 0 {
			e.writes[p] = append(e.writes[p], c26Write{c26Chan(c.Players[p].Proto), c.forwardRemainder()})
		}
	case "GetPlayerServer":
		if p := c.findPlayer(c.A1); p >= 0 && c.Players[p].Server >= 0 {
			respond(c26Join(utf("GetPlayerServer"), utf(c.Players[p].Name), utf(c.Servers[c.Players[p].Server])))
		}
	}
	return e, true
}

// c26RawText: raw messages are generated as {"text":"<t>"}.
func c26RawText(j string) string {
	const pre, suf = `{"text":"`, `"}`
	if strings.HasPrefix(j, pre) && strings.HasSuffix(j, suf) {
		return j[len(pre) : len(j)-len(suf)]
	}
	return j
}

// ---------------------------------------------------------------- fakes

type c26World struct {
	c       c26Case
	obs     *c26Effects
	players []*c26FakePlayer
	servers []*c26FakeServer
	conns   []*c26FakeConn
}

type c26FakePlayer struct {
	w *c26World
	i int
}

func (p *c26FakePlayer) ID() uuid.UUID     { return c26UUID(p.i) }
func (p *c26FakePlayer) Username() string  { return p.w.c.Players[p.i].Name }
func (p *c26FakePlayer) RemoteAddr() net.Addr {
	return &net.TCPAddr{IP: net.ParseIP(c26PlayerHost(p.i)), Port: c26PlayerPort(p.i)}
}
func (p *c26FakePlayer) Disconnect(reason component.Component) {
	p.w.obs.kicks[p.i] = append(p.w.obs.kicks[p.i], c26Plain(reason))
}
func (p *c26FakePlayer) Protocol() proto.Protocol { return proto.Protocol(763) }

// SendMessage is not part of bungeecord.Player on the pinned tree (the responder has
// no way to message one player); it is here so that a repaired responder that
// looks for a message sink on the named player can be observed.
func (p *c26FakePlayer) SendMessage(comp component.Component, _ ...command.MessageOption) error {
	p.w.obs.toPlayer[p.i] = append(p.w.obs.toPlayer[p.i], c26Plain(comp))
	return nil
}

type c26FakeServer struct {
	w *c26World
	i int
}

func (s *c26FakeServer) Name() string { return s.w.c.Servers[s.i] }
func (s *c26FakeServer) PlayerCount() int {
	return len(s.Players())
}
func (s *c26FakeServer) BroadcastPluginMessage(id message.ChannelIdentifier, data []byte) {
	s.w.obs.forwards[s.i] = append(s.w.obs.forwards[s.i], bytes.Clone(data))
}
func (s *c26FakeServer) Connect(p Player) {
	idx := -1
	if fp, ok := p.(*c26FakePlayer); ok {
		idx = fp.i
	}
	s.w.obs.connects = append(s.w.obs.connects, fmt.Sprintf("%d<-%d", s.i, idx))
}
func (s *c26FakeServer) Players() []Player {
	var out []Player
	for i, p := range s.w.c.Players {
		if p.Server == s.i {
			out = append(out, s.w.players[i])
		}
	}
	return out
}
func (s *c26FakeServer) BroadcastMessage(comp component.Component) {
	s.w.obs.toServer[s.i] = append(s.w.obs.toServer[s.i], c26Plain(comp))
}
func (s *c26FakeServer) Addr() net.Addr {
	return &net.TCPAddr{IP: net.ParseIP(c26ServerHost(s.i)), Port: c26ServerPort(s.i)}
}

// c26FakeConn is the backend connection of player i.
type c26FakeConn struct {
	w *c26World
	i int
}

func (k *c26FakeConn) Name() string             { return k.w.c.Servers[k.w.c.Players[k.i].Server] }
func (k *c26FakeConn) Protocol() proto.Protocol { return proto.Protocol(k.w.c.Players[k.i].Proto) }
func (k *c26FakeConn) WritePacket(p proto.Packet) error {
	pm, ok := p.(*plugin.Message)
	if !ok {
		k.w.obs.writes[k.i] = append(k.w.obs.writes[k.i], c26Write{channel: fmt.Sprintf("<%T>", p)})
		return nil
	}
	k.w.obs.writes[k.i] = append(k.w.obs.writes[k.i], c26Write{pm.Channel, bytes.Clone(pm.Data)})
	return nil
}

// Providers of the requesting player
func (w *c26World) PlayerByName(name string) Player {
	if i := w.c.findPlayer(name); i >= 0 {
		return w.players[i]
	}
	return nil
}
func (w *c26World) PlayerCount() int { return len(w.players) }
func (w *c26World) Players() []Player {
	out := make([]Player, len(w.players))
	for i, p := range w.players {
		out[i] = p
	}
	return out
}
func (w *c26World) BroadcastMessage(comp component.Component) {
	w.obs.toAll = append(w.obs.toAll, c26Plain(comp))
}
func (w *c26World) Server(name string) Server {
	if i := w.c.findServer(name); i >= 0 {
		return w.servers[i]
	}
	return nil
}
func (w *c26World) Servers() []Server {
	out := make([]Server, len(w.servers))
	for i, s := range w.servers {
		out[i] = s
	}
	return out
}
func (w *c26World) ConnectedServer() ServerConnection {
	if w.c.Players[w.c.Requester].Server < 0 {
		return nil
	}
	return w.conns[w.c.Requester]
}

// ConnectedServerOf is not part of Providers on the pinned tree (see SendMessage above).
func (w *c26World) ConnectedServerOf(p Player) ServerConnection {
	fp, ok := p.(*c26FakePlayer)
	if !ok || w.c.Players[fp.i].Server < 0 {
		return nil
	}
	return w.conns[fp.i]
}

func c26Plain(comp component.Component) string {
	switch t := comp.(type) {
	case nil:
		return "<nil>"
	case *component.Text:
		s := t.Content
		for _, x := range t.Extra {
			s += c26Plain(x)
		}
		return s
	}
	return fmt.Sprintf("<%T>", comp)
}

// ---------------------------------------------------------------- run

const (
	c26KeyFraming      = "forward:payload-framing"
	c26KeyFwdPlayer    = "forward-to-player:wrong-connection"
	c26KeyGPS          = "get-player-server:wrong-server"
	c26KeyMsgPanic     = "panic:Message:unknown-target"
	c26KeyMsgServer    = "message:target-treated-as-server"
	c26KeyNegLen       = "panic:forward:negative-length"
)

func c26Run(c c26Case) verifkit.Result {
	w := &c26World{c: c, obs: c26NewEffects()}
	for i := range c.Players {
		w.players = append(w.players, &c26FakePlayer{w, i})
		w.conns = append(w.conns, &c26FakeConn{w, i})
	}
	for i := range c.Servers {
		w.servers = append(w.servers, &c26FakeServer{w, i})
	}
	r := NewMessageResponder(w.players[c.Requester], w)
	ch := "bungeecord:main"
	if c.LegacyID {
		ch = "BungeeCord"
	}
	msg := &plugin.Message{Channel: ch, Data: c.request()}

	labels := []string{"sub-" + c.Sub}
	if !c.wellFormed() {
		labels = append(labels, "malformed")
	}

	var handled bool
	var panicked any
	func() {
		defer func() { panicked = recover() }()
		handled = r.Process(msg)
	}()
	if panicked != nil {
		key := "panic:" + c.Sub
		switch {
		case (c.Sub == "Message" || c.Sub == "MessageRaw") && c.wellFormed() && c.A1 != "ALL" && c.findServer(c.A1) < 0:
			key = c26KeyMsgPanic
		case c26IsForward(c.Sub) && c.LenField >= 0x8000:
			key = c26KeyNegLen
		}
		return verifkit.Fail(key, "Process(%s %q %q) panicked: %v", c.Sub, c.A1, c.A2, panicked)
	}
	if !handled && c.wellFormed() {
		// a message on the BungeeCord channel is always consumed (never relayed to the client)
		return verifkit.Fail("process:not-handled", "Process returned false for a message on channel %q", ch)
	}

	exp, assert := c26Ref(c)
	nt := c26IsForward(c.Sub)
	if n := c26NumArgs(c.Sub); n >= 1 && c.wellFormed() {
		if p := c.findPlayer(c.A1); p >= 0 && p != c.Requester {
			nt = true
			labels = append(labels, "names-other-player")
		} else if p == c.Requester {
			labels = append(labels, "names-self")
		}
		if c.findServer(c.A1) >= 0 || (c.Sub == "ConnectOther" && c.findServer(c.A2) >= 0) {
			nt = true
			labels = append(labels, "names-server")
		}
		if c.A1 == "ALL" || c.A1 == "ONLINE" {
			labels = append(labels, "target-"+c.A1)
		} else if c.findPlayer(c.A1) < 0 && c.findServer(c.A1) < 0 {
			labels = append(labels, "target-unknown")
		}
	}
	if c.Players[c.Requester].Server < 0 {
		labels = append(labels, "requester-without-server")
	}
	if !assert {
		return verifkit.Result{NonTrivial: false, Labels: append(labels, "crash-freedom-only")}
	}
	if v := c26CompareEffects(c, exp, w.obs); v != nil {
		return verifkit.Result{V: v}
	}
	return verifkit.Result{NonTrivial: nt, Labels: labels}
}

func c26CompareEffects(c c26Case, exp, obs *c26Effects) *verifkit.Violation {
	what := fmt.Sprintf("%s(%q,%q) by %s", c.Sub, c.A1, c.A2, c.Players[c.Requester].Name)

	// ---- side effects on players / servers
	if fmt.Sprint(exp.connects) != fmt.Sprint(obs.connects) {
		return verifkit.Violationf("connect:target", "%s: connection requests (server<-player) %v, reference %v", what, obs.connects, exp.connects)
	}
	if fmt.Sprint(exp.kicks) != fmt.Sprint(obs.kicks) {
		return verifkit.Violationf("kick:target-or-reason", "%s: disconnects %v, reference %v", what, obs.kicks, exp.kicks)
	}
	if fmt.Sprint(exp.toAll) != fmt.Sprint(obs.toAll) {
		return verifkit.Violationf("message:all", "%s: messages to everybody %v, reference %v", what, obs.toAll, exp.toAll)
	}
	if len(obs.toServer) > 0 {
		return verifkit.Violationf(c26KeyMsgServer, "%s: the message was broadcast to every player of server(s) %v; the target of Message/MessageRaw is a player name (or ALL), reference: messages to players %v", what, obs.toServer, exp.toPlayer)
	}
	if fmt.Sprint(exp.toPlayer) != fmt.Sprint(obs.toPlayer) {
		return verifkit.Violationf(c26KeyMsgServer, "%s: messages to single players %v, reference %v (the named player must receive the message)", what, obs.toPlayer, exp.toPlayer)
	}

	// ---- forwards to servers: which servers, how often
	for s := range c.Servers {
		if len(obs.forwards[s]) != len(exp.forwards[s]) {
			return verifkit.Violationf("forward:targets", "%s: server %q was handed %d payload(s), reference %d (current server of the requester: %d)", what, c.Servers[s], len(obs.forwards[s]), len(exp.forwards[s]), c.Players[c.Requester].Server)
		}
	}

	// ---- writes to backend connections: which connection
	for p := range c.Players {
		if len(obs.writes[p]) != len(exp.writes[p]) {
			if c.Sub == "ForwardToPlayer" {
				return verifkit.Violationf(c26KeyFwdPlayer, "%s: backend connection of %s received %d message(s), reference %d; the payload must go to the server the named player is on (observed writes per player index: %v)", what, c.Players[p].Name, len(obs.writes[p]), len(exp.writes[p]), c26WriteCounts(obs))
			}
			if c.Sub == "GetPlayerServer" && c.findPlayer(c.A1) >= 0 {
				return verifkit.Violationf(c26KeyGPS, "%s: backend connection of %s received %d message(s), reference %d: the answer must name the server of the named player (none if that player has no server), not the requester's", what, c.Players[p].Name, len(obs.writes[p]), len(exp.writes[p]))
			}
			k := "missing"
			if len(obs.writes[p]) > len(exp.writes[p]) {
				k = "unexpected"
			}
			return verifkit.Violationf("response:"+k, "%s: backend connection of %s received %d message(s), reference %d", what, c.Players[p].Name, len(obs.writes[p]), len(exp.writes[p]))
		}
	}

	// ---- content
	for s := range c.Servers {
		for k := range exp.forwards[s] {
			if !bytes.Equal(obs.forwards[s][k], exp.forwards[s][k]) {
				return verifkit.Violationf(c26KeyFraming, "%s: payload handed to server %q is %x, reference UTF(channel)+short(len)+data = %x", what, c.Servers[s], c26Short(obs.forwards[s][k]), c26Short(exp.forwards[s][k]))
			}
		}
	}
	for p := range c.Players {
		for k, ew := range exp.writes[p] {
			ow := obs.writes[p][k]
			if ow.channel != ew.channel {
				return verifkit.Violationf("response:channel", "%s: written on channel %q, reference %q for protocol %d", what, ow.channel, ew.channel, c.Players[p].Proto)
			}
			if bytes.Equal(ow.data, ew.data) {
				continue
			}
			if c.Sub == "ForwardToPlayer" {
				return verifkit.Violationf(c26KeyFraming, "%s: forwarded payload is %x, reference (unchanged remainder) %x", what, c26Short(ow.data), c26Short(ew.data))
			}
			if exp.listCompare && c26SameList(ow.data, ew.data) {
				continue
			}
			if c.Sub == "GetPlayerServer" {
				return verifkit.Violationf(c26KeyGPS, "%s: response %q, reference %q (the server of the named player)", what, ow.data, ew.data)
			}
			return verifkit.Violationf("response:content:"+c.Sub, "%s: response %x (%q), reference %x (%q)", what, ow.data, ow.data, ew.data, ew.data)
		}
	}
	return nil
}

func c26WriteCounts(e *c26Effects) map[int]int {
	m := map[int]int{}
	for p, w := range e.writes {
		m[p] = len(w)
	}
	return m
}

func c26Short(b []byte) []byte {
	if len(b) > 48 {
		return b[:48]
	}
	return b
}

// c26SameList compares two responses whose last UTF field is a ", " joined list as sets.
func c26SameList(a, b []byte) bool {
	split := func(x []byte) (head []string, list []string, ok bool) {
		r := verifkit.NewRefReader(x)
		var fields []string
		for r.Remaining() > 0 {
			s, err := r.UTF()
			if err != nil {
				return nil, nil, false
			}
			fields = append(fields, s)
		}
		if len(fields) == 0 {
			return nil, nil, false
		}
		last := fields[len(fields)-1]
		if last != "" {
			list = strings.Split(last, ", ")
		}
		sort.Strings(list)
		return fields[:len(fields)-1], list, true
	}
	ha, la, oka := split(a)
	hb, lb, okb := split(b)
	return oka && okb && fmt.Sprint(ha) == fmt.Sprint(hb) && fmt.Sprint(la) == fmt.Sprint(lb)
}

// ---------------------------------------------------------------- generator

var c26ServerNames = []string{"lobby", "Survival", "mini_1", "hub-eu"}
var c26PlayerNames = []string{"Alice", "bob", "Carl_3", "DAVE", "eve9"}

func c26CaseVary(t *rapid.T, s string) string {
	switch rapid.IntRange(0, 2).Draw(t, "case") {
	case 0:
		return strings.ToUpper(s)
	case 1:
		return strings.ToLower(s)
	}
	return s
}

func c26Gen(t *rapid.T) c26Case {
	c := c26Case{LenField: -1, Cut: -1}
	ns := rapid.SampledFrom([]int{2, 3, 1, 4, 0}).Draw(t, "nServers")
	c.Servers = append(c.Servers, c26ServerNames[:ns]...)
	np := rapid.IntRange(1, 5).Draw(t, "nPlayers")
	for i := 0; i < np; i++ {
		p := c26Player{Name: c26PlayerNames[i], Server: -1, Proto: rapid.SampledFrom([]int{47, 340, 393, 763, 772}).Draw(t, "proto")}
		if ns > 0 && rapid.IntRange(0, 7).Draw(t, "hasServer") != 0 {
			p.Server = rapid.IntRange(0, ns-1).Draw(t, "server")
		}
		c.Players = append(c.Players, p)
	}
	c.Requester = rapid.IntRange(0, np-1).Draw(t, "requester")
	c.LegacyID = rapid.Bool().Draw(t, "legacyId")
	c.Sub = c26Subs[rapid.IntRange(0, len(c26Subs)-1).Draw(t, "sub")]

	playerTarget := func(label string) string {
		switch k := rapid.IntRange(0, 9).Draw(t, label+"Kind"); {
		case k < 5:
			return c.Players[rapid.IntRange(0, np-1).Draw(t, label)].Name
		case k < 7:
			return c26CaseVary(t, c.Players[rapid.IntRange(0, np-1).Draw(t, label)].Name)
		case k < 8 && ns > 0:
			return c.Servers[rapid.IntRange(0, ns-1).Draw(t, label+"Srv")] // a server name where a player is expected
		case k < 9:
			return "Nobody"
		}
		return ""
	}
	serverTarget := func(label string, all bool) string {
		k := rapid.IntRange(0, 11).Draw(t, label+"Kind")
		switch {
		case k < 5 && ns > 0:
			return c.Servers[rapid.IntRange(0, ns-1).Draw(t, label)]
		case k < 7 && ns > 0:
			return c26CaseVary(t, c.Servers[rapid.IntRange(0, ns-1).Draw(t, label)])
		case k < 9 && all:
			return rapid.SampledFrom([]string{"ALL", "ALL", "ONLINE"}).Draw(t, label+"All")
		case k < 10 && all:
			return rapid.SampledFrom([]string{"all", "Online"}).Draw(t, label+"AllCase")
		case k < 11:
			return "nowhere"
		}
		return c.Players[0].Name // a player name where a server is expected
	}
	text := rapid.SampledFrom([]string{"hello", "You were kicked", "a b c", "", "x"}).Draw(t, "text")
	switch c.Sub {
	case "Connect", "ServerIP":
		c.A1 = serverTarget("a1", false)
	case "PlayerCount", "PlayerList":
		c.A1 = serverTarget("a1", true)
	case "ConnectOther":
		c.A1, c.A2 = playerTarget("a1"), serverTarget("a2", false)
	case "IPOther", "UUIDOther", "GetPlayerServer":
		c.A1 = playerTarget("a1")
	case "Message", "KickPlayer":
		c.A1, c.A2 = playerTarget("a1"), text
		if c.Sub == "Message" && rapid.IntRange(0, 2).Draw(t, "all") == 0 {
			c.A1 = "ALL"
		}
	case "MessageRaw", "KickPlayerRaw":
		c.A1, c.A2 = playerTarget("a1"), `{"text":"`+text+`"}`
		if c.Sub == "MessageRaw" && rapid.IntRange(0, 2).Draw(t, "all") == 0 {
			c.A1 = "ALL"
		}
	case "Forward", "ForwardToPlayer":
		if c.Sub == "Forward" {
			c.A1 = serverTarget("a1", true)
		} else {
			c.A1 = playerTarget("a1")
		}
		c.Channel = rapid.SampledFrom([]string{"MyChannel", "my:plugin", "", "c"}).Draw(t, "channel")
		n := rapid.SampledFrom([]int{0, 1, 2, 7, 30, 255, 256, 1000, 32767}).Draw(t, "dataLen")
		c.Data = make([]byte, n)
		seed := rapid.Byte().Draw(t, "fill")
		for i := range c.Data {
			c.Data[i] = seed + byte(i*7)
		}
		if rapid.IntRange(0, 9).Draw(t, "badLen") == 0 {
			c.LenField = rapid.SampledFrom([]int{n + 1, n + 300, 0x7fff, 0x8000, 0xffff}).Draw(t, "lenField")
			if c.LenField == n {
				c.LenField = -1
			}
		}
	}
	if rapid.IntRange(0, 11).Draw(t, "truncate") == 0 {
		full := len(c.request())
		if full > 0 {
			c.Cut = rapid.IntRange(0, full-1).Draw(t, "cut")
		}
	}
	return c
}

func TestVerif_C26(t *testing.T) {
	verifkit.Check(t, "C26", "core",
		"one request per case over generated states (0-4 servers, 1-5 players with current server possibly none and backend protocol 1.8..1.21, requester among them): every sub-channel (+ an unknown one) with arguments naming existing / case-varied / unknown players and servers, ALL / ONLINE, a name of the wrong kind, forward payloads of 0..32767 bytes, wrong length fields and truncated requests (crash-freedom only); effects recorded by fake Providers compared with the BungeeCord/Velocity reference; non-trivial = request names another existing player or a server, or is a Forward*",
		c26Gen, c26Run)
}
