//go:build verif

package proxy

// C15: while a player is in play on a backend, every packet the proxy does not
// intercept is delivered to the other side with an identical payload and in the
// same relative order, in both directions, whatever the sizes, the compression
// thresholds on each side and the protocol version.
//
// Oracle: the fake client and the fake backend (reference framing, independent
// of the proxy's codec) each record the payload stream they receive; between
// the START and END markers of the opposite side the received stream must equal
// the sent stream exactly (keep-alive replies, which the proxy intercepts and
// re-encodes, are matched separately). Completion is decided by transport
// quiescence (byte accounting on both pipes + the proxy's read loops blocked in
// Read), never by sleeping: a payload that is still missing then is lost or
// stuck inside the proxy.

import (
	"bytes"
	"fmt"
	"testing"

	"go.minekube.com/gate/pkg/edition/java/proto/packet"
	"go.minekube.com/gate/pkg/edition/java/proto/packet/bossbar"
	"go.minekube.com/gate/pkg/edition/java/proto/state"
	"go.minekube.com/gate/pkg/edition/java/proto/version"
	"go.minekube.com/gate/pkg/gate/proto"
	"go.minekube.com/gate/pkg/internal/verifkit"
	"pgregory.net/rapid"
)

const (
	c15KindUnknown  = 0 // unregistered packet id, arbitrary data
	c15KindKnownA   = 1 // s2c: KeepAlive; c2s: ClientSettings (registered, forwarded by payload)
	c15KindBossBar  = 2 // s2c: BossBar remove
	c15KindBundle   = 3 // s2c: BundleDelimiter (1.19.4+)
	c15FillZero     = 0
	c15FillPattern  = 1
	c15FillRandom   = 2
	c15MaxPayload   = c15MaxFrame - 1 // must still fit a frame with a 1-byte "uncompressed" marker
	c15MaxRandom    = c15MaxFrame - 4096
	c15MarkerLength = 24
)

type c15Pkt struct {
	Kind  int    `json:"k"`
	IDIdx int    `json:"id"` // index into the unregistered ids of the version/direction
	Len   int    `json:"n"`  // payload length aimed at (packet id + data), Kind 0
	Fill  int    `json:"f"`
	Seed  uint64 `json:"s"`
	// Trail: known pass-through types only: this many bytes follow the fields Gate's
	// packet type reads (a modded peer or a newer protocol revision sends such
	// packets); the relay must still hand the whole payload on.
	Trail int `json:"t,omitempty"`
}

type c15Case struct {
	Protocol        int      `json:"protocol"`
	ClientThr       int      `json:"client_thr"`  // proxy config threshold (client side); <0 off
	BackendThr      int      `json:"backend_thr"` // SetCompression sent by the backend; <0 none
	ProxyLevel      int      `json:"proxy_level"`
	ClientLevel     int      `json:"client_level"`
	BackendLevel    int      `json:"backend_level"`
	ClientChunk     int      `json:"client_chunk"`
	BackendChunk    int      `json:"backend_chunk"`
	ClientCoalesce  bool     `json:"client_coalesce"`
	BackendCoalesce bool     `json:"backend_coalesce"`
	C2S             []c15Pkt `json:"c2s"`
	S2C             []c15Pkt `json:"s2c"`
	// ClientSecret: 16 bytes = the client connection is encrypted as for an
	// online-mode player (see c15RigOpts.ClientSecret); empty = plain
	ClientSecret []byte `json:"client_secret,omitempty"`
}

var (
	c15ClientSettingsType proto.Packet = &packet.ClientSettings{}
	c15BossBarType        proto.Packet = &bossbar.BossBar{}
	c15BundleType         proto.Packet = &packet.BundleDelimiter{}
)

var c15Protocols = []int{47, 340, 754, 763, 764, 765, 766, 767, 769, 772, 774, 776}

// c15UnregisteredIDs lists packet ids the proxy has no packet type for in the
// play state of the version/direction: it cannot intercept those.
func c15UnregisteredIDs(dir proto.Direction, pr proto.Protocol) []int {
	reg := state.FromDirection(dir, state.Play, pr)
	var out []int
	cands := make([]int, 0, 140)
	for i := 0; i < 0x80; i++ {
		cands = append(cands, i)
	}
	cands = append(cands, 0x80, 0xff, 0x100, 0x3fff, 0x4000, 0x1fffff)
	for _, id := range cands {
		if reg.CreatePacket(proto.PacketID(id)) == nil {
			out = append(out, id)
		}
	}
	return out
}

type c15Rand uint64

func (r *c15Rand) next() uint64 { // splitmix64
	*r += 0x9e3779b97f4a7c15
	z := uint64(*r)
	z = (z ^ (z >> 30)) * 0xbf58476d1ce4e5b9
	z = (z ^ (z >> 27)) * 0x94d049bb133111eb
	return z ^ (z >> 31)
}

func c15Fill(n, fill int, seed uint64) []byte {
	b := make([]byte, n)
	switch fill {
	case c15FillPattern:
		for i := range b {
			b[i] = byte(uint64(i)*7 + seed)
		}
	case c15FillRandom:
		r := c15Rand(seed)
		for i := 0; i < n; i += 8 {
			v := r.next()
			for j := 0; j < 8 && i+j < n; j++ {
				b[i+j] = byte(v >> (8 * uint(j)))
			}
		}
	}
	return b
}

// c15Payload expands a packet spec into the payload (id + data) to relay.
// Everything here is written with the reference primitives only.
func c15Payload(k c15Pkt, dir proto.Direction, pr proto.Protocol, unreg []int, stored bool) []byte {
	out := c15PayloadBase(k, dir, pr, unreg, stored)
	// (not for the clientbound KeepAlive: the fake client echoes it, and the reply is
	// a packet the proxy intercepts and rebuilds, which is C18's subject)
	if k.Trail > 0 && k.Kind != c15KindUnknown && !(k.Kind == c15KindKnownA && dir == proto.ClientBound) {
		tail := c15Fill(k.Trail, k.Fill, k.Seed^0x7a11)
		out = append(append([]byte(nil), out...), tail...)
	}
	return out
}

func c15PayloadBase(k c15Pkt, dir proto.Direction, pr proto.Protocol, unreg []int, stored bool) []byte {
	ids := c15MakeIDs(pr)
	switch {
	case k.Kind == c15KindKnownA && dir == proto.ClientBound && pr.GreaterEqual(version.Minecraft_1_12_2):
		// KeepAlive: long id
		return append(verifkit.RefVarInt(int32(ids.cbPlayKeepAlive)), verifkit.RefU64(k.Seed|1<<62)...)
	case k.Kind == c15KindKnownA && dir == proto.ServerBound:
		// Client Information ("ClientSettings")
		id := c15ID(c15ClientSettingsType, proto.ServerBound, state.Play, pr)
		r := c15Rand(k.Seed)
		locales := []string{"en_US", "de_DE", "", "zh_CN", "en_us_pirate00"}
		out := verifkit.RefVarInt(int32(id))
		out = append(out, verifkit.RefString(locales[r.next()%uint64(len(locales))])...)
		out = append(out, byte(r.next()%33))                        // view distance
		out = append(out, verifkit.RefVarInt(int32(r.next()%3))...) // chat mode
		out = append(out, byte(r.next()%2))                         // chat colours
		out = append(out, byte(r.next()%128))                       // skin parts
		if pr.GreaterEqual(version.Minecraft_1_9) {
			out = append(out, verifkit.RefVarInt(int32(r.next()%2))...) // main hand
		}
		if pr.GreaterEqual(version.Minecraft_1_17) {
			out = append(out, byte(r.next()%2)) // text filtering
		}
		if pr.GreaterEqual(version.Minecraft_1_18) {
			out = append(out, byte(r.next()%2)) // allow server listings
		}
		if pr.GreaterEqual(version.Minecraft_1_21_2) {
			out = append(out, verifkit.RefVarInt(int32(r.next()%3))...) // particle status
		}
		return out
	case k.Kind == c15KindBossBar && dir == proto.ClientBound && pr.GreaterEqual(version.Minecraft_1_9):
		id := c15ID(c15BossBarType, proto.ClientBound, state.Play, pr)
		r := c15Rand(k.Seed)
		out := verifkit.RefVarInt(int32(id))
		out = append(out, verifkit.RefU64(r.next())...)
		out = append(out, verifkit.RefU64(r.next())...)
		return append(out, verifkit.RefVarInt(1)...) // action: remove
	case k.Kind == c15KindBundle && dir == proto.ClientBound && pr.GreaterEqual(version.Minecraft_1_19_4):
		id := c15ID(c15BundleType, proto.ClientBound, state.Play, pr)
		return verifkit.RefVarInt(int32(id))
	}
	// unknown id
	id := unreg[((k.IDIdx%len(unreg))+len(unreg))%len(unreg)]
	head := verifkit.RefVarInt(int32(id))
	n := k.Len - len(head)
	if n < 0 {
		n = 0
	}
	max := c15MaxPayload
	if k.Fill == c15FillRandom || stored {
		// incompressible (or zlib level 0 somewhere on the path): leave room for the
		// zlib stored-block overhead so that a legal frame exists on every hop
		max = c15MaxRandom
	}
	if n+len(head) > max {
		n = max - len(head)
	}
	data := c15Fill(n, k.Fill, k.Seed)
	if n == c15MarkerLength && (bytes.HasPrefix(data, []byte("C15-"))) {
		data[0] ^= 0xff
	}
	return append(head, data...)
}

func c15Marker(kind string, dir proto.Direction, unreg []int) []byte {
	d := "c2s"
	if dir == proto.ClientBound {
		d = "s2c"
	}
	m := []byte(fmt.Sprintf("C15-%-5s-%s-marker....", kind, d))
	if len(m) != c15MarkerLength {
		panic("marker length")
	}
	return append(verifkit.RefVarInt(int32(unreg[0])), m...)
}

func c15GenPkts(t *rapid.T, label string, dir proto.Direction, pr proto.Protocol, thrs []int, budget *int) []c15Pkt {
	n := rapid.IntRange(1, 60).Draw(t, label+"_n")
	if rapid.IntRange(0, 3).Draw(t, label+"_long") > 0 && n < 12 {
		n += 12
	}
	bounds := []int{0, 1, 2, 3, 126, 127, 128, 129, 4094, 4095, 4096, 4097, 16382, 16383, 16384, 16385, 32767, 32768, 65535, 65536}
	for _, thr := range thrs {
		if thr >= 0 && thr < c15MaxPayload {
			bounds = append(bounds, thr-2, thr-1, thr, thr+1, thr+2)
		}
	}
	out := make([]c15Pkt, 0, n)
	for i := 0; i < n; i++ {
		k := c15Pkt{Seed: rapid.Uint64().Draw(t, "seed")}
		cls := rapid.IntRange(0, 99).Draw(t, "class")
		switch {
		case cls < 12:
			k.Kind = c15KindKnownA
		case cls < 17 && dir == proto.ClientBound:
			k.Kind = c15KindBossBar
		case cls < 20 && dir == proto.ClientBound:
			k.Kind = c15KindBundle
		default:
			k.Kind = c15KindUnknown
		}
		if k.Kind != c15KindUnknown && rapid.IntRange(0, 2).Draw(t, "trailing") == 0 {
			k.Trail = rapid.SampledFrom([]int{1, 2, 5, 300, 5000}).Draw(t, "trail")
		}
		k.IDIdx = rapid.IntRange(0, 200).Draw(t, "id")
		k.Fill = rapid.IntRange(0, 2).Draw(t, "fill")
		switch {
		case cls < 55:
			k.Len = rapid.IntRange(0, 300).Draw(t, "len")
		case cls < 85:
			k.Len = rapid.SampledFrom(bounds).Draw(t, "blen")
			if k.Len < 0 {
				k.Len = 0
			}
		case cls < 96:
			k.Len = rapid.IntRange(300, 70000).Draw(t, "mlen")
		default:
			k.Len = rapid.SampledFrom([]int{1 << 18, 1 << 20, 1<<20 + 1, c15MaxRandom, c15MaxPayload - 1, c15MaxPayload, 1<<21 - 7}).Draw(t, "hlen")
		}
		if k.Len > 1<<17 {
			if *budget < k.Len {
				k.Len = rapid.IntRange(0, 5000).Draw(t, "len2")
			} else {
				*budget -= k.Len
			}
		}
		out = append(out, k)
	}
	return out
}

func c15Gen(t *rapid.T) c15Case {
	thrs := []int{-1, -1, 0, 1, 64, 256, 257, 1024, 5000, 70000, 1 << 21}
	levels := []int{-1, 1, 6, 9, 0}
	chunks := []int{0, 0, 0, 1, 3, 1000, 4096}
	c := c15Case{
		Protocol:        rapid.SampledFrom(c15Protocols).Draw(t, "protocol"),
		ClientThr:       rapid.SampledFrom(thrs).Draw(t, "client_thr"),
		BackendThr:      rapid.SampledFrom(thrs).Draw(t, "backend_thr"),
		ProxyLevel:      rapid.SampledFrom(levels).Draw(t, "proxy_level"),
		ClientLevel:     rapid.SampledFrom(levels).Draw(t, "client_level"),
		BackendLevel:    rapid.SampledFrom(levels).Draw(t, "backend_level"),
		ClientChunk:     rapid.SampledFrom(chunks).Draw(t, "client_chunk"),
		BackendChunk:    rapid.SampledFrom(chunks).Draw(t, "backend_chunk"),
		ClientCoalesce:  rapid.Bool().Draw(t, "client_coalesce"),
		BackendCoalesce: rapid.Bool().Draw(t, "backend_coalesce"),
	}
	if rapid.IntRange(0, 2).Draw(t, "encrypted") == 0 {
		c.ClientSecret = rapid.SliceOfN(rapid.Byte(), 16, 16).Draw(t, "client_secret")
	}
	if c.Protocol < 47 {
		c.ClientThr, c.BackendThr = -1, -1
	}
	budget := 5 << 20
	if verifkit.Thorough() {
		budget = 12 << 20
	}
	pr := proto.Protocol(c.Protocol)
	c.C2S = c15GenPkts(t, "c2s", proto.ServerBound, pr, []int{c.ClientThr, c.BackendThr}, &budget)
	c.S2C = c15GenPkts(t, "s2c", proto.ClientBound, pr, []int{c.ClientThr, c.BackendThr}, &budget)
	return c
}

func c15Describe(p []byte) string {
	id, data := c15Split(p)
	head := data
	if len(head) > 16 {
		head = head[:16]
	}
	return fmt.Sprintf("id=%#x len=%d data[:16]=%x", id, len(p), head)
}

// c15Compare checks got == want as payload sequences.
func c15Compare(site string, want, got [][]byte) *verifkit.Violation {
	for i := 0; i < len(want) && i < len(got); i++ {
		if !bytes.Equal(want[i], got[i]) {
			// classify: reordered/dropped/altered
			for j := i + 1; j < len(want) && j < i+4; j++ {
				if bytes.Equal(want[j], got[i]) {
					return verifkit.Violationf("relay:"+site+":missing-or-reordered", "packet #%d (%s) not delivered at its position; received #%d (%s) instead",
						i, c15Describe(want[i]), j, c15Describe(got[i]))
				}
			}
			return verifkit.Violationf("relay:"+site+":payload-altered", "packet #%d differs: sent %s, received %s", i, c15Describe(want[i]), c15Describe(got[i]))
		}
	}
	if len(got) < len(want) {
		return verifkit.Violationf("relay:"+site+":lost", "%d of %d packets never delivered although the transport is quiescent; first missing #%d (%s)",
			len(want)-len(got), len(want), len(got), c15Describe(want[len(got)]))
	}
	if len(got) > len(want) {
		return verifkit.Violationf("relay:"+site+":extra", "%d packets received that were never sent; first: %s", len(got)-len(want), c15Describe(got[len(want)]))
	}
	return nil
}

func c15Run(c c15Case) verifkit.Result {
	pr := proto.Protocol(c.Protocol)
	unregC2S := c15UnregisteredIDs(proto.ServerBound, pr)
	unregS2C := c15UnregisteredIDs(proto.ClientBound, pr)
	if len(unregC2S) == 0 || len(unregS2C) == 0 {
		return verifkit.Fail("harness:no-unregistered-id", "no unregistered id for protocol %d", c.Protocol)
	}
	rig, err := c15NewRig(c15RigOpts{
		Protocol: c.Protocol, ClientThr: c.ClientThr, ProxyLevel: c.ProxyLevel,
		ClientLevel: c.ClientLevel, BackendLevel: c.BackendLevel,
		ClientChunk: c.ClientChunk, BackendChunk: c.BackendChunk,
		ClientCoalesce: c.ClientCoalesce, BackendCoalesce: c.BackendCoalesce,
		Backends:     []c15BackendSpec{{Name: "alpha", Scripts: []c15Script{{Thr: c.BackendThr}}}},
		Try:          []string{"alpha"},
		ClientSecret: c.ClientSecret,
	})
	if err != nil {
		return verifkit.Fail("harness:rig", "%v", err)
	}
	res := c15RunOn(rig, c, pr, unregC2S, unregS2C)
	if len(c.ClientSecret) == 16 {
		res.Labels = append(res.Labels, "client-connection-encrypted")
	}
	if leak := rig.close(); leak != "" && res.V == nil {
		if c15DebugLeak {
			return verifkit.Fail("debug:leak", "%s", leak)
		}
		return verifkit.Result{Inconclusive: true, Labels: append(res.Labels, "goroutines-left-after-close")}
	}
	return res
}

func c15RunOn(rig *c15Rig, c c15Case, pr proto.Protocol, unregC2S, unregS2C []int) verifkit.Result {
	rig.start()
	cl := rig.client
	// The player is in play on the backend once ServerPostConnectEvent fired.
	joined := rig.wait(c15Watchdog, func() bool {
		return rig.countEventsLocked("postconnect") > 0 || cl.kicked || cl.rdDone || rig.handleDone || len(rig.harnessErrs) > 0
	})
	rig.mu.Lock()
	ok := rig.countEventsLocked("postconnect") > 0
	var sess *c15Session
	if ss := rig.sessionsLocked(); len(ss) > 0 {
		sess = ss[0]
	}
	herr := append([]string(nil), rig.harnessErrs...)
	state0 := fmt.Sprintf("loginSuccess=%v joins=%d kicked=%v clientClosed=%v handleDone=%v dials=%d frameErr=%v",
		cl.loginSuccess, cl.joins, cl.kicked, cl.rdDone, rig.handleDone, len(rig.dials), cl.frameErr)
	rig.mu.Unlock()
	if len(herr) > 0 {
		return verifkit.Fail("harness:error", "%v", herr)
	}
	if !joined {
		return verifkit.Result{Inconclusive: true, Labels: []string{"join-watchdog"}}
	}
	if !ok || sess == nil {
		return verifkit.Fail("setup:join-failed", "player did not reach play on a healthy backend: %s", state0)
	}

	// Build and start both streams.
	startC, endC := c15Marker("START", proto.ServerBound, unregC2S), c15Marker("END", proto.ServerBound, unregC2S)
	startS, endS := c15Marker("START", proto.ClientBound, unregS2C), c15Marker("END", proto.ClientBound, unregS2C)
	var c2s, s2c [][]byte
	stored := c.ProxyLevel == 0 || c.ClientLevel == 0 || c.BackendLevel == 0
	for _, k := range c.C2S {
		c2s = append(c2s, c15Payload(k, proto.ServerBound, pr, unregC2S, stored))
	}
	for _, k := range c.S2C {
		s2c = append(s2c, c15Payload(k, proto.ClientBound, pr, unregS2C, stored))
	}
	ids := rig.ids
	sentKA := map[string]int{}
	for _, p := range s2c {
		if id, data := c15Split(p); id == ids.cbPlayKeepAlive {
			sentKA[string(data)]++
		}
	}
	rig.mu.Lock()
	cl.enqueueLocked(c15Out{payload: startC})
	for _, p := range c2s {
		cl.enqueueLocked(c15Out{payload: p})
	}
	cl.enqueueLocked(c15Out{payload: endC})
	sess.enqueueLocked(c15Out{payload: startS})
	for _, p := range s2c {
		sess.enqueueLocked(c15Out{payload: p})
	}
	sess.enqueueLocked(c15Out{payload: endS})
	rig.mu.Unlock()

	done := rig.wait(c15Watchdog+10*c15Watchdog/10, func() bool {
		if cl.rdDone || sess.rdDone || cl.frameErr != nil || sess.frameErr != nil || rig.handleDone {
			return true
		}
		return rig.quietLocked()
	})

	rig.mu.Lock()
	defer rig.mu.Unlock()
	labels := []string{fmt.Sprintf("protocol-%d", c.Protocol)}
	switch {
	case c.ClientThr < 0 && c.BackendThr < 0:
		labels = append(labels, "compression-none")
	case c.ClientThr >= 0 && c.BackendThr >= 0 && c.ClientThr != c.BackendThr:
		labels = append(labels, "compression-both-different")
	case c.ClientThr >= 0 && c.BackendThr >= 0:
		labels = append(labels, "compression-both-equal")
	default:
		labels = append(labels, "compression-one-side")
	}
	if len(rig.harnessErrs) > 0 {
		return verifkit.Fail("harness:error", "%v", rig.harnessErrs)
	}
	if cl.frameErr != nil {
		return verifkit.Fail("frame:to-client", "the proxy wrote an invalid frame to the client: %v", cl.frameErr)
	}
	if sess.frameErr != nil {
		return verifkit.Fail("frame:to-backend", "the proxy wrote an invalid frame to the backend: %v", sess.frameErr)
	}
	if cl.rdDone || sess.rdDone || rig.handleDone {
		return verifkit.Fail("relay:connection-closed", "a connection was closed while relaying legal packets: clientClosed=%v backendClosed=%v kicked=%v (client got %d, backend got %d play payloads)",
			cl.rdDone, sess.rdDone, cl.kicked, len(cl.play), len(sess.playRx))
	}
	if !done {
		return verifkit.Result{Inconclusive: true, Labels: append(labels, "relay-watchdog")}
	}

	// client side: everything between START and END, exactly.
	var gotC [][]byte
	stage := 0
	for _, rx := range cl.play {
		switch {
		case stage == 0 && bytes.Equal(rx.Payload, startS):
			stage = 1
		case stage == 1 && bytes.Equal(rx.Payload, endS):
			stage = 2
		case stage == 1:
			gotC = append(gotC, rx.Payload)
		case stage == 2:
			return verifkit.Fail("relay:s2c:extra", "client received a packet after the END marker: %s", c15Describe(rx.Payload))
		}
	}
	if v := c15Compare("s2c", s2c, gotC); v != nil {
		v.Msg += fmt.Sprintf(" [transport: client sent=%d proxyRead=%d | proxyWroteBackend=%d backendGot=%d | backend sent=%d proxyRead=%d | proxyWroteClient=%d clientGot=%d]",
			cl.sent, cl.peer.delivered, sess.peer.written, sess.got, sess.sent, sess.peer.delivered, cl.peer.written, cl.got)
		return verifkit.Result{V: v}
	}
	if stage != 2 {
		return verifkit.Fail("relay:s2c:lost", "client never received the %s marker although the transport is quiescent", []string{"START", "END"}[stage])
	}
	// backend side
	var gotS [][]byte
	stage = 0
	for _, rx := range sess.playRx {
		if rx.ID == ids.sbPlayKeepAlive && stage >= 1 {
			_, data := c15Split(rx.Payload)
			if sentKA[string(data)] == 0 {
				return verifkit.Fail("relay:c2s:extra", "backend received a keep-alive reply it never asked for: %s", c15Describe(rx.Payload))
			}
			sentKA[string(data)]--
			continue
		}
		switch {
		case stage == 0 && bytes.Equal(rx.Payload, startC):
			stage = 1
		case stage == 1 && bytes.Equal(rx.Payload, endC):
			stage = 2
		case stage == 1:
			gotS = append(gotS, rx.Payload)
		case stage == 2:
			return verifkit.Fail("relay:c2s:extra", "backend received a packet after the END marker: %s", c15Describe(rx.Payload))
		}
	}
	if v := c15Compare("c2s", c2s, gotS); v != nil {
		v.Msg += fmt.Sprintf(" [transport: client sent=%d proxyRead=%d | proxyWroteBackend=%d backendGot=%d | backend sent=%d proxyRead=%d | proxyWroteClient=%d clientGot=%d]",
			cl.sent, cl.peer.delivered, sess.peer.written, sess.got, sess.sent, sess.peer.delivered, cl.peer.written, cl.got)
		return verifkit.Result{V: v}
	}
	if stage != 2 {
		return verifkit.Fail("relay:c2s:lost", "backend never received the %s marker although the transport is quiescent", []string{"START", "END"}[stage])
	}

	// classification
	cross := func(thr int) bool {
		if thr < 0 {
			return true
		}
		for _, p := range append(append([][]byte{}, c2s...), s2c...) {
			if len(p) >= thr {
				return true
			}
		}
		return false
	}
	big, known := false, false
	for _, p := range append(append([][]byte{}, c2s...), s2c...) {
		if len(p) > 1<<17 {
			big = true
		}
	}
	for _, k := range append(append([]c15Pkt{}, c.C2S...), c.S2C...) {
		if k.Kind != c15KindUnknown {
			known = true
		}
	}
	if big {
		labels = append(labels, "has-large-packet")
	}
	if known {
		labels = append(labels, "has-registered-passthrough")
	}
	if c.ClientChunk > 0 || c.BackendChunk > 0 {
		labels = append(labels, "chunked-writes")
	}
	nt := len(c2s) >= 10 && len(s2c) >= 10 && (c.ClientThr >= 0 || c.BackendThr >= 0) && cross(c.ClientThr) && cross(c.BackendThr)
	if nt {
		labels = append(labels, "nontrivial")
	}
	return verifkit.Result{NonTrivial: nt, Labels: labels}
}

func TestVerif_C15(t *testing.T) {
	verifkit.Check(t, "C15", "relay",
		"one session per case through the real Proxy.HandleConn: protocol from {1.8,1.12.2,1.16.5,1.20.1,1.20.2..26.2}, independent client/backend compression thresholds and zlib levels, the client connection AES/CFB8-encrypted in a third of the cases (as for an online-mode player), chunked/coalesced writes, 1-70 packets per direction (unregistered ids, KeepAlive/BossBar/BundleDelimiter/ClientSettings pass-through, a third of them with 1..5000 bytes after the fields Gate's packet type reads; payload sizes 0..2^21-2 boundary-biased around both thresholds); non-trivial: >=10 packets in each direction, compression on at least one side and a payload at or above every enabled threshold",
		c15Gen, c15Run)
}
